import sys, os, json, logging, random, traceback, tempfile
from pathlib import Path
import numpy as np, networkx as nx
logging.disable(logging.CRITICAL)
fid = sys.argv[1]
import polyply
from polyply import TEST_DATA
E = Path(__file__).resolve().parent / "fixtures"
def ok(msg): print(fid, "FIXED:", msg)
def bad(msg): print(fid, "STILL BROKEN:", msg)
os.chdir(tempfile.mkdtemp(prefix="verif_repro_"))
try:
    if fid == "F1":
        from polyply.src.gen_itp import gen_params
        sys.argv = ["polyply"]
        gen_params(name="t", outpath=Path("t.itp"), inpath=[TEST_DATA/"gen_params/input/test.ff"], lib=None, seq=["N1:1","N2:1"])
        ok("file written, %d lines" % len(open("t.itp").readlines()))
    elif fid == "F2":
        from polyply.src import simple_seq_parsers as ssp
        Path("a.txt").write_text("PEO\n"); g = ssp.parse_txt("a.txt")
        (ok if list(g.nodes(data=True)) == [(0, {"resname":"PEO","resid":1})] else bad)(str(list(g.nodes(data=True))))
    elif fid == "F3":
        from polyply.src.topology import Topology
        t = Topology.from_gmx_topfile(str(E/"e8"/".."/"t1"/"main3.top"), "x")
        (ok if "C" not in t.force_field.blocks else bad)(str(list(t.force_field.blocks)))
        t = Topology.from_gmx_topfile(str(E/"t1"/"main2.top"), "x"); ok("no spurious #error")
    elif fid == "F4":
        from polyply.src.topology import match_dihedral_interaction_types as m
        import itertools
        at = ("A","B","C","D"); miss = []
        for mask in itertools.product((0,1), repeat=4):
            key = tuple("X" if k else a for a, k in zip(at, mask))
            for table in ({key:1}, {key[::-1]:1}):
                for listing in (at, at[::-1]):
                    if m(listing, table) is None: miss.append((mask, listing[0]))
        (ok if not miss else bad)("unmatched: %s" % miss[:4])
        # specificity
        r = m(at, {("A","B","C","X"): "11", ("X","B","C","X"): "22"})
        (ok if r == ("A","B","C","X") else bad)("most specific chosen: %s" % (r,))
    elif fid == "F5":
        from polyply import gen_coords
        from polyply.src import random_walk as rw
        orig = rw.RandomWalk.update_positions; c = {"n":0}
        def flaky(self, vb, cur, prev):
            c["n"] += 1
            return False if c["n"] == 1 else orig(self, vb, cur, prev)
        rw.RandomWalk.update_positions = flaky
        np.random.seed(1); random.seed(1)
        gen_coords(toppath=E/"e2"/"sys3.top", outpath=Path("o.gro"), name="t", coordpath=E/"e2"/"part3.gro")
        from vermouth.gmx.gro import read_gro
        m = read_gro("o.gro", exclude=()); p = [m.nodes[n]["position"].tolist() for n in m.nodes]
        (ok if p[3] == [3.0,3.0,3.0] and p[0] == [1.0,1.0,1.0] else bad)(str(p[:4]))
    elif fid == "F7":
        from polyply.src.load_library import load_ff_library
        from polyply import MetaMolecule, MapToMolecule, ApplyLinks
        from polyply.src.meta_molecule import Monomer
        ff = load_ff_library("t", None, [TEST_DATA/"gen_params/input/removal.ff"])
        mm = MetaMolecule.from_monomer_seq_linear(ff, [Monomer("PEO",4)], "t")
        MapToMolecule(ff).run_molecule(mm); ApplyLinks().run_molecule(mm)
        rs = [d["resid"] for n, d in mm.molecule.nodes(data=True)]
        (ok if rs == [1,1,2,2,3,3,4] else bad)(str(rs))
        from polyply.src.graph_utils import find_missing_edges
        print("   missing", list(find_missing_edges(mm, mm.molecule)), "meta resids", [mm.nodes[n]["resid"] for n in mm.nodes])
    elif fid == "F8":
        from polyply.src.nonbond_engine import NonBondEngine
        pos = np.ones((3,3))*np.inf
        e = NonBondEngine(pos, {(0,i):i for i in range(3)}, ["A"]*3, {frozenset(["A","A"]):(0.4,1.0)}, None, None, cut_off=1.0, boxsize=np.array([5.,5.,5.]))
        e.add_positions(np.array([1.,1.,1.]),0,0); e.add_positions(np.array([2.,1.,1.]),0,0)
        (ok if e.defined_idxs == [[0]] else bad)(str(e.defined_idxs))
    elif fid == "F10":
        from polyply.src.nonbond_engine import NonBondEngine
        pos = np.ones((2,3))*np.inf
        e = NonBondEngine(pos, {(0,0):0,(0,1):1}, ["A","A"], {frozenset(["A","A"]):(0.4,1.0)}, None, None, cut_off=1.0, boxsize=np.array([5.,5.,5.]))
        e.add_positions(np.array([4.8,1.,1.]),0,0); f1 = e.compute_force_point(np.array([0.1,1.,1.]),0,1)
        e.remove_positions(0,[0]); e.add_positions(np.array([2.8,1.,1.]),0,0); f2 = e.compute_force_point(np.array([3.1,1.,1.]),0,1)
        (ok if np.allclose(f1, f2) else bad)("%s vs %s" % (f1, f2))
    elif fid in ("F11", "F11b"):
        from polyply import gen_coords
        from polyply.src.build_system import BuildSystem
        cap = {}; o = BuildSystem.run_system
        def rs(self, mols): r = o(self, mols); cap["t"] = self.topology; cap["nb"] = self.nonbond_matrix; return r
        BuildSystem.run_system = rs
        worst = 0
        for seed in range(3):
            np.random.seed(seed); random.seed(seed)
            gen_coords(toppath=E/"e8"/"ring.top", outpath=Path("o.gro"), name="t", box=np.array([8.,8.,8.]), cycles=["R"], cycle_tol=0.1)
            mm = cap["t"].molecules[0]
            worst = max(worst, max(float(cap["nb"].pbc_min_dist(mm.nodes[u]["position"], mm.nodes[v]["position"])) for u, v in mm.edges))
        print("   restraint pair", dict(cap["t"].distance_restraints))
        (ok if worst <= 0.47 + 0.1 + 0.47 + 1e-6 else bad)("largest bonded-pair distance %.3f" % worst)
    elif fid == "F12":
        from polyply import gen_coords
        np.random.seed(1); random.seed(1)
        gen_coords(toppath=E/"e2"/"sys.top", outpath=Path("o.gro"), name="t", box=np.array([5.,5.,5.]), ligands=[["A#2-RA#2", "S#4"]])
        ok("ran without [ volumes ]")
    elif fid == "F13":
        from polyply.src.load_library import load_ff_library
        from polyply import MetaMolecule, MapToMolecule, ApplyLinks
        ff = load_ff_library("t", None, [E/"e2b"/"lab.ff"])
        g = nx.Graph()
        for i in range(4): g.add_node(i, resname="A", resid=i+1, chiral="R")
        g.add_edges_from([(0,1),(1,2),(2,3)])
        mm = MetaMolecule(g, force_field=ff, mol_name="t")
        MapToMolecule(ff).run_molecule(mm); ApplyLinks().run_molecule(mm)
        lb = sorted(tuple(i.atoms) for i in mm.molecule.interactions["bonds"] if i.parameters[1] == "0.4")
        (ok if lb == [(1,2),(3,4),(5,6)] else bad)(str(lb))
    elif fid == "F15":
        from polyply.src.load_library import load_ff_library
        from polyply import MetaMolecule, MapToMolecule, ApplyLinks
        rng = random.Random(1); nbad = 0
        for _ in range(200):
            keys = rng.sample(range(16), 4)
            ff = load_ff_library("t", None, [E/"e1b"/"mr.ff", E/"e1b"/"mr.itp"])
            g = nx.Graph()
            for i, k in enumerate(keys): g.add_node(k, resname=["X1","X2","X1","X2"][i], resid=i+1, from_itp="XX")
            g.add_edges_from(zip(keys[:-1], keys[1:]))
            mm = MetaMolecule(g, force_field=ff, mol_name="t")
            try:
                MapToMolecule(ff).run_molecule(mm); ApplyLinks().run_molecule(mm)
                if [d["resid"] for n, d in mm.molecule.nodes(data=True)] != [1,1,2,2,3,3,4,4]: nbad += 1
            except Exception: nbad += 1
        (ok if nbad == 0 else bad)("%d of 200 key assignments fail" % nbad)
    elif fid == "F6":
        from polyply import gen_coords
        from vermouth.gmx.gro import read_gro
        top = open(E/"e2"/"sys.top").read().replace("S 2\nA 2\nS 1", "S 2\nA 2")
        Path("s.top").write_text(top)
        for order, label in (("S 2\nA 2", "ignored first"), ("A 2\nS 2", "ignored last")):
            Path("s.top").write_text(open(E/"e2"/"sys.top").read().replace("S 2\nA 2\nS 1", order))
            np.random.seed(1); random.seed(1)
            if label == "ignored first":
                gen_coords(toppath=Path("s.top"), outpath=Path("o.gro"), name="t", coordpath=E/"e2"/"part.gro", ignore=["S"])
                m = read_gro("o.gro", exclude=()); p = [m.nodes[n]["position"].tolist() for n in m.nodes]
                (ok if p[0] == [1.,1.,1.] and p[1] == [2.,2.,2.] and len(p) == 8 else bad)(label + " " + str(p[:3]))
    elif fid == "F9":
        from polyply.src.gen_itp import gen_params
        import vermouth
        _i = vermouth.forcefield.ForceField.__init__
        def ff_init(self,*a,**k):
            _i(self,*a,**k); self.citations.setdefault('vermouth', {'title':'x','author':'Doe, J','journal':'j','year':'1','doi':'d'})
        vermouth.forcefield.ForceField.__init__ = ff_init
        sys.argv = ["polyply"]
        g = {"directed": False, "multigraph": False, "graph": {}, "nodes": [{"id": i, "resname":"N1", "resid": k+1} for k,i in enumerate([1,2,3])], "edges": [{"source": 1, "target": 2}, {"source": 2, "target": 3}]}
        json.dump(g, open("b.json","w"))
        gen_params(name="t", outpath=Path("b.itp"), inpath=[TEST_DATA/"gen_params/input/test.ff"], lib=None, seq_file=Path("b.json"))
        ok("node keys 1,2,3 accepted")
except Exception as e:
    bad("exception %s: %s" % (type(e).__name__, str(e)[:200])); traceback.print_exc(limit=3)
