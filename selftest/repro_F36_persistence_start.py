# reproducer of finding F36 (fixed in d18bad6): run from an empty directory; before the fix every line but "0 9" printed ValueError
from pathlib import Path
import sys, numpy as np, random, traceback
from polyply import gen_coords
def top(branch):
    atoms="\n".join("%d P %d RA B1 %d 0.0 72"%(i,i,i) for i in range(1,(12 if branch else 11)))
    b=["%d %d 1 0.47 100"%(i,i+1) for i in range(1,10)]
    if branch: b.insert(3,"4 11 1 0.47 100")
    return "[ defaults ]\n1 2 no 1.0 1.0\n[ atomtypes ]\nP 72.0 0.0 A 0.470 4.0\n[ moleculetype ]\nPL 1\n[ atoms ]\n%s\n[ bonds ]\n%s\n[ system ]\nmix\n[ molecules ]\nPL 2\n"%(atoms,"\n".join(b))
for branch in (0,1):
  for st,sp in [(0,9),(9,0),(5,0),(2,8),(3,6)]:
    open("m.top","w").write(top(branch))
    open("m.bld","w").write("[ molecule ]\nPL 0 2\n[ persistence_length ]\nWCM 1.0 %d %d\n"%(st,sp))
    np.random.seed(1); random.seed(1)
    try:
        gen_coords(toppath="m.top", outpath="o.gro", build="m.bld", box=np.array([8.,8.,8.]), name="x") if False else gen_coords(Path("m.top"), outpath=Path("o.gro"), build=[Path("m.bld")], box=np.array([8.,8.,8.]), name="x")
        print(branch,st,sp,"ok")
    except Exception as e:
        print(branch,st,sp,type(e).__name__,str(e)[:100])
