#!/venv/bin/python
"""seed_intake.py <Cnn> <dir with patch.diff, demo.py, README.md> <name> [extra props...]
Confirms an independently seeded change (suite still passes, demo fails with it and passes without it), runs the property's
check against it and stores everything under /verif/seeded/<name>/ ."""
import json, os, pathlib, shutil, subprocess, sys, time
V = pathlib.Path(__file__).resolve().parents[1]
prop, src, name = sys.argv[1], pathlib.Path(sys.argv[2]), sys.argv[3]
props = [prop] + sys.argv[4:]
scratch = pathlib.Path("/var/tmp/verif_seed") / ("%s_%d" % (name, os.getpid()))
shutil.rmtree(scratch, ignore_errors=True); scratch.parent.mkdir(exist_ok=True)
subprocess.run(["rsync", "-a", "--exclude", ".git", "--exclude", "__pycache__", "--exclude", "_seed", "/repo/", str(scratch) + "/"], check=True)
env = dict(os.environ, TQDM_DISABLE="1", OMP_NUM_THREADS="1", PYTHONPATH=str(scratch))
(scratch / "_seed" / "x").mkdir(parents=True, exist_ok=True)
shutil.copy(src / "demo.py", scratch / "_seed" / "x" / "demo.py")
def demo():
    # the demo is run from a copy inside the scratch checkout (<copy>/_seed/x/demo.py): some demos locate the package relative to their own path
    r = subprocess.run(["/venv/bin/python", str(scratch / "_seed" / "x" / "demo.py")], cwd=scratch, env=env, capture_output=True, text=True, timeout=1800)
    return r.returncode, (r.stdout + r.stderr)[-600:]
rc0, out0 = demo()
ap = subprocess.run(["patch", "-p1", "-s", "-d", str(scratch), "-i", str((src / "patch.diff").resolve())], capture_output=True, text=True)
if ap.returncode: sys.exit("patch does not apply: " + ap.stdout + ap.stderr)
rc1, out1 = demo()
suite = subprocess.run([str(V / "bin/baseline_off.sh"), str(scratch)], capture_output=True, text=True)
shutil.rmtree(scratch, ignore_errors=True)
print("demo without change rc=%d, with change rc=%d; suite: %s" % (rc0, rc1, suite.stdout.strip().splitlines()[0] if suite.stdout.strip() else suite.returncode))
confirmed = rc0 == 0 and rc1 == 1 and suite.returncode == 0
dst = V / "seeded" / name; dst.mkdir(parents=True, exist_ok=True)
for f in ("patch.diff", "demo.py", "README.md"):
    shutil.copy(src / f, dst / f)
results = {}
for p in props:
    r = subprocess.run([str(V / "selftest/mutate.py"), str(dst / "patch.diff"), p], capture_output=True, text=True, env=dict(os.environ, VERIF_NPROC=os.environ.get("VERIF_NPROC", "8")))
    line = [l for l in r.stdout.splitlines() if (" %s " % p) in l and ("KILLED" in l or "SURVIVED" in l or "MACHINERY" in l)]
    results[p] = line[-1][:400] if line else r.stdout[-400:]
    print(results[p])
meta = {"id": name, "breaks": prop, "origin": "independent sub-agent given only the property text and a scratch worktree",
        "needs": (src / "README.md").read_text()[:1500], "confirmed": {"demo_without_change_rc": rc0, "demo_with_change_rc": rc1,
        "suite_stable_pass_unbroken": suite.returncode == 0, "ok": confirmed},
        "ran": "selftest/seed_intake.py: demo.py in a scratch copy with/without the patch, bin/baseline_off.sh on the patched copy, selftest/mutate.py <patch> " + " ".join(props),
        "check_results": results, "date": time.strftime("%Y-%m-%d %H:%M")}
(dst / "meta.json").write_text(json.dumps(meta, indent=1))
print("stored", dst, "confirmed" if confirmed else "NOT CONFIRMED")
