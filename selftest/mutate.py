#!/venv/bin/python
"""Mutation self-test: apply a change to a scratch copy of /repo, run checks against the copy, report kill/survive.

usage: mutate.py [--tier quick] [--keep] <mutant> <Cnn> [<Cnn> ...]
  <mutant>: id from selftest/mutants.py (m01..), a directory under seeded/ (uses patch.diff), or a path to a .diff
The copy lives under /var/tmp/verif_mut/<id> and is removed afterwards; evidence/work of these runs go to a scratch dir too.
"""
import os, subprocess, sys, shutil, pathlib, json, time
V = pathlib.Path(__file__).resolve().parents[1]
sys.path.insert(0, str(V / "selftest"))

def make_copy(mid):
    d = pathlib.Path("/var/tmp/verif_mut") / ("%s_%d" % (mid, os.getpid()))
    if d.exists(): shutil.rmtree(d)
    d.parent.mkdir(parents=True, exist_ok=True)
    subprocess.run(["rsync", "-a", "--exclude", ".git", "--exclude", "__pycache__", "--exclude", "*.egg-info", "/repo/", str(d) + "/"], check=True)
    return d

def apply(mid, d):
    if mid.startswith("m") and mid[1:].isdigit():
        from mutants import M
        ent = [m for m in M if m[0] == mid][0]
        _, prop, f, old, new, note = ent
        p = d / f; s = p.read_text()
        if s.count(old) != 1: raise SystemExit("PATCH-FAIL %s count=%d" % (mid, s.count(old)))
        p.write_text(s.replace(old, new)); return note
    pth = pathlib.Path(mid)
    if not pth.exists(): pth = V / "seeded" / mid
    if pth.is_dir(): pth = pth / "patch.diff"
    pth = pth.resolve()
    r = subprocess.run(["patch", "-p1", "-s", "-d", str(d), "-i", str(pth)], capture_output=True, text=True)
    if r.returncode: raise SystemExit("PATCH-FAIL %s: %s" % (mid, r.stdout + r.stderr))
    return str(pth)

def main():
    args = sys.argv[1:]; tier = "quick"; keep = False
    if "--tier" in args: i = args.index("--tier"); tier = args[i+1]; del args[i:i+2]
    if "--keep" in args: keep = True; args.remove("--keep")
    mid, props = args[0], args[1:]
    name = pathlib.Path(mid).name if "/" in mid else mid
    d = make_copy(name); note = apply(mid, d)
    out = pathlib.Path("/var/tmp/verif_mut") / ("%s_%d_out" % (name, os.getpid())); shutil.rmtree(out, ignore_errors=True); out.mkdir(parents=True)
    res = {}
    for prop in props:
        env = dict(os.environ, VERIF_REPO=str(d), VERIF_WORK=str(out / "work"), VERIF_EVID=str(out / "evidence"))
        t0 = time.time()
        r = subprocess.run([str(V / "bin/check"), prop, "--tier", tier], env=env, capture_output=True, text=True)
        viol = [l for l in r.stdout.splitlines() if l.startswith("VIOLATION")]
        first = ""
        lines = r.stdout.splitlines()
        for i, l in enumerate(lines):
            if l.startswith("VIOLATION"):
                first = (lines[i+1].strip() if i + 1 < len(lines) else "")[:300]; break
        mach = [l for l in lines if l.startswith("MACHINERY-FAILURE")]
        res[prop] = {"rc": r.returncode, "violations": len(viol), "first": first, "machinery": mach[:1], "wall": round(time.time() - t0, 1)}
        verdict = "KILLED" if r.returncode == 1 and viol else ("MACHINERY(rc=2)" if r.returncode == 2 else "SURVIVED")
        print("%s %s %s violations=%d wall=%.0fs %s %s" % (name, prop, verdict, len(viol), time.time() - t0, first[:200], mach[:1] if mach else ""), flush=True)
        if r.returncode == 2: print(r.stdout[-1500:])
    if not keep:
        shutil.rmtree(d, ignore_errors=True); shutil.rmtree(out, ignore_errors=True)
    return res

if __name__ == "__main__":
    main()
