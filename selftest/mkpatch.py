#!/venv/bin/python
"""mkpatch.py <name> <file> <old> <new>  -> selftest/patches/<name>.diff (unified diff against /repo, -p1)"""
import sys, difflib, pathlib
name, file, old, new = sys.argv[1:5]
old = old.encode().decode("unicode_escape"); new = new.encode().decode("unicode_escape")
src = (pathlib.Path("/repo") / file).read_text()
assert src.count(old) == 1, "pattern occurs %d times" % src.count(old)
dst = src.replace(old, new)
d = "".join(difflib.unified_diff(src.splitlines(True), dst.splitlines(True), "a/" + file, "b/" + file))
out = pathlib.Path(__file__).parent / "patches" / (name + ".diff")
out.write_text(d); print(out)
