"""Apply fix candidates to a tree as individual 'fix:' commits.  usage: apply_fixes.py <repo> <id> [<id>...]"""
import sys, subprocess, pathlib
sys.path.insert(0, str(pathlib.Path(__file__).parent))
from fixes import F
MSG = {
 "F1": "fix: gen_params skips citation keys the force field does not define\n\nMolecules built with the declared vermouth version carry a 'vermouth' citation key that\nno polyply force field defines; looking it up raised KeyError and no .itp was ever written.",
 "F2": "fix: one-residue .txt/.fasta/.ig sequences yield one node\n\nNodes were only created through edges, so a single-residue sequence gave an empty graph.",
 "F3": "fix: keep tracking #ifdef/#else/#endif after the first moleculetype of a file\n\nConditionals forwarded to the itp buffer were no longer tracked, so a later #include or\n#error inside a conditional of the same file was treated as unconditional.",
 "F4": "fix: dihedral type wildcards match in both listing directions, all masks\n\nA type 'A B C X' matched atoms listed D C B A but not A B C D, the masks X.XX, XX.X and\nXXXX were never tried, and a less specific entry could win over a more specific one.",
 "F5": "fix: a failed placement attempt removes only the residues that were to be built\n\nRemoving every position of the molecule discarded user supplied coordinates and the retry\ncrashed on non-finite positions.",
 "F6": "fix: -ign molecules keep their index, stay out of the engine and are skipped\n\nThe engine was indexed over the filtered molecule list while the build loops ran over the\nunfiltered one, so any ignored molecule raised KeyError.",
 "F7": "fix: atom-removing links no longer renumber all residue ids from 0\n\nDrop the removed atoms from the residue fragments instead of relabelling the whole\nresidue graph with an empty mapping.",
 "F8": "fix: add_positions on an already positioned node replaces its position\n\nThe global index was appended twice to the index list, so the node was counted twice in\nforce and overlap queries.",
 "F9": "fix: select protein termini and modification targets by residue id\n\nNode keys were assumed to be 0..n-1; a residue graph with other keys raised KeyError.",
 "F10": "fix: pair force uses the minimum-image vector\n\nThe distance was periodic but the direction was point - ref, so a pair across the box\nboundary got a force of wrong sign and magnitude.",
 "F12": "fix: ligated nodes carry the ligand's template key\n\n-lig without a user [ volumes ] entry for the ligand residue raised KeyError.",
 "F13": "fix: propagate residue attributes to the atoms of the first residue too\n\nLinks selecting atoms by a residue label never matched the lowest residue.",
 "F15": "fix: slice multi-residue block fragments in residue-id order\n\nFragment nodes were taken in set-iteration order; consecutive copies of a multi-residue\nblock were mapped wrongly or crashed depending on node keys.",
}
repo = pathlib.Path(sys.argv[1])
for fid in [a for a in sys.argv[2:] if not a.startswith("--")]:
    ent = [f for f in F if f[0] == fid][0]
    for file, old, new in ent[1]:
        p = repo/file; s = p.read_text()
        assert s.count(old) == 1, (fid, file, s.count(old))
        p.write_text(s.replace(old, new))
    if "--nocommit" not in sys.argv:
        subprocess.run(["git", "-C", str(repo), "commit", "-qam", MSG[fid]], check=True)
    print("applied", fid)
