"""Minimal reproducer of the X04 finding chained-ligand (run with /venv/bin/python; set PYTHONPATH to a patched copy to try a repair).

The ion binds to the cofactor (-lig COF-KA:ION), the cofactor binds to residue RB of the protein (-lig PROT-RB:COF).
  molecule order ION, PROT, COF -> gen_coords succeeds, but the ion is NOT next to the cofactor in the written file
  molecule order COF, PROT, ION -> KeyError in split_ligands after the whole system was built
"""
import logging
import random
import shutil
import tempfile
from pathlib import Path

import numpy as np

logging.disable(logging.CRITICAL)
from polyply.src.gen_coords import gen_coords   # noqa: E402

HERE = Path(__file__).resolve().parent
WD = Path(tempfile.mkdtemp(prefix="x04_repro_", dir="/var/tmp"))
BOX = 8.0


def run(mols):
    top = (HERE / "chain.top").read_text().split("[ molecules ]")[0] + "[ molecules ]\n" + "".join("%s 1\n" % m for m in mols)
    (WD / "sys.top").write_text(top)
    np.random.seed(1)
    random.seed(1)
    gen_coords(toppath=WD / "sys.top", outpath=WD / "out.gro", name="x", box=np.array([BOX, BOX, BOX]),
               ligands=[["COF-KA", "ION"], ["PROT-RB", "COF"]])
    rows = (WD / "out.gro").read_text().splitlines()[2:-1]
    xyz = {l[5:10].strip(): np.array([float(l[20:28]), float(l[28:36]), float(l[36:44])]) for l in rows}

    def dist(a, b):
        d = xyz[a] - xyz[b]
        return float(np.linalg.norm(d - BOX * np.round(d / BOX)))
    print(mols, "ion - cofactor(KA) %.3f nm, cofactor(KA) - protein(RB) %.3f nm (one step = 0.470 nm)" % (dist("LA", "KA"), dist("KA", "RB")))


try:
    for mols in (["ION", "PROT", "COF"], ["COF", "PROT", "ION"]):
        try:
            run(mols)
        except Exception as exc:
            print(mols, "->", type(exc).__name__, exc)
finally:
    shutil.rmtree(WD, ignore_errors=True)
