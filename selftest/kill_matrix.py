#!/venv/bin/python
"""Runs the mutation self-test matrix and writes selftest/kill_matrix.json (used by bin/design_tables.py).

usage: kill_matrix.py [--lanes N] [--only catalogue|reverts|seeds|neutral|own] [--props C01,C02] [--match REGEX-on-change-name]
Every (change, property) pair runs `selftest/mutate.py <change> <property>` (scratch copy of /repo, quick tier)."""
import json, os, pathlib, re, subprocess, sys, time
from concurrent.futures import ThreadPoolExecutor
V = pathlib.Path(__file__).resolve().parents[1]
sys.path.insert(0, str(V / "selftest"))

CATALOGUE = {"m01": ["C01"], "m02": ["C01"], "selftest/patches/c01-m03-removed-atom-interactions-kept.diff": ["C01", "C02"], "m04": ["C02"], "m05": ["C02"], "m06": ["C02"], "m07": ["C02"], "m08": ["C02"], "m09": ["C02"],
             "m10": ["C14"], "m11": ["C14"], "m12": ["C10"], "m13": ["C10"], "m14": ["C08"], "m15": ["C08"], "m16": ["C08", "C03"], "m17": ["C09"], "m18": ["C09"],
             "m19": ["C09"], "m20": ["C09"], "m21": ["C16"], "m22": ["C16"], "m23": ["C16", "C07"], "m24": ["C17"], "m25": ["C17"], "m27": ["C05"], "m28": ["C05"],
             "m29": ["C05"], "m30": ["C06"], "m31": ["C06"], "m32": ["C07"], "m33": ["C07"], "m34": ["C18", "C07"], "m35": ["C18"], "m36": ["C19"], "m37": ["C19"],
             "m38": ["C12"], "m39": ["C12"], "m40": ["C20"], "m41": ["C03"], "m42": ["C04"], "m43": ["C15"]}
ALL = ["C%02d" % i for i in range(1, 21)]


def claimed():
    m = json.loads((V / "MANIFEST.json").read_text())
    return [c["property_id"] for c in m["checks"]]


def pairs(only, props):
    out = []
    cl = claimed()
    if only in (None, "catalogue"):
        for mid, ps in CATALOGUE.items():
            out += [(mid, p, "catalogue") for p in ps]
        out += [("selftest/patches/c17-no-cleanup.diff", p, "catalogue(m26)") for p in ("C17", "C04")]
        out += [("m44", p, "neutral") for p in cl]
    if only in (None, "reverts"):
        for d in sorted((V / "seeded").glob("revert-*")):
            meta = json.loads((d / "meta.json").read_text())
            br = meta["breaks"] if isinstance(meta["breaks"], list) else [meta["breaks"]]
            out += [("seeded/" + d.name, p, "revert") for p in br]
    if only in (None, "seeds"):
        for d in sorted(list((V / "seeded").glob("seed*-C*"))):
            meta = json.loads((d / "meta.json").read_text())
            if meta.get("obsolete"):
                continue
            out.append(("seeded/" + d.name, meta["breaks"], "independent"))
    if only in (None, "neutral"):
        for d in sorted((V / "seeded").glob("neutral-*")):
            meta = json.loads((d / "meta.json").read_text())
            out += [("seeded/" + d.name, p, "neutral") for p in meta["must_not_be_flagged_by"]]
    if only in (None, "own"):
        for f in sorted((V / "selftest" / "patches").glob("c[0-9][0-9]-*.diff")):
            out.append(("selftest/patches/" + f.name, f.name[:3].upper(), "own"))
    out = [(m, p, k) for m, p, k in out if p in cl and (not props or p in props)]
    return out


def run(job):
    mid, prop, kind = job
    t0 = time.time()
    env = dict(os.environ, VERIF_NPROC=os.environ.get("VERIF_NPROC", "5"))
    try:
        r = subprocess.run([str(V / "selftest/mutate.py"), mid, prop], capture_output=True, text=True, env=env, cwd=V, timeout=2400)
        out = r.stdout + r.stderr
    except subprocess.TimeoutExpired:
        out = "TIMEOUT"
    m = re.search(r" %s (KILLED|SURVIVED|MACHINERY\(rc=2\))[^\n]*" % prop, out)
    verdict = m.group(1) if m else ("PATCH-FAIL" if "PATCH-FAIL" in out else "ERROR")
    line = m.group(0)[:300] if m else out[-300:]
    res = {"change": mid, "property": prop, "kind": kind, "verdict": verdict, "detail": line, "wall_s": round(time.time() - t0)}
    print("%-55s %s %-10s %4ds" % (mid, prop, verdict, res["wall_s"]), flush=True)
    return res


def main():
    a = sys.argv[1:]
    lanes, only, props = 3, None, None
    if "--lanes" in a:
        lanes = int(a[a.index("--lanes") + 1])
    if "--only" in a:
        only = a[a.index("--only") + 1]
    if "--props" in a:
        props = a[a.index("--props") + 1].split(",")
    jobs = pairs(only, props)
    if "--match" in a:
        rx = re.compile(a[a.index("--match") + 1])
        jobs = [j for j in jobs if rx.search(j[0])]
    print("%d runs, %d lanes" % (len(jobs), lanes), flush=True)
    with ThreadPoolExecutor(lanes) as ex:
        res = list(ex.map(run, jobs))
    f = V / "selftest" / "kill_matrix.json"
    old = json.loads(f.read_text()) if f.exists() else []
    key = lambda r: (r["change"], r["property"])
    merged = {key(r): r for r in old}
    merged.update({key(r): r for r in res})
    f.write_text(json.dumps(sorted(merged.values(), key=lambda r: (r["property"], r["kind"], r["change"])), indent=1) + "\n")
    bad = [r for r in res if (r["kind"] == "neutral" and r["verdict"] != "SURVIVED") or (r["kind"] != "neutral" and r["verdict"] != "KILLED")]
    print("unexpected:", len(bad))
    for r in bad:
        print("  ", r["change"], r["property"], r["verdict"], r["detail"][:160])


if __name__ == "__main__":
    main()
