#!/venv/bin/python
"""Regenerates the generated part of DESIGN.md (between the GENERATED markers) from the files the machinery itself maintains:
harness/registry.d, known_findings.jsonl, known_findings.d, seeded/*/meta.json, selftest/kill_matrix.json, evidence/*.json."""
import json, pathlib, re, subprocess
V = pathlib.Path(__file__).resolve().parents[1]
import sys
sys.path.insert(0, str(V))
from harness.registry import CHECKS


def esc(s):
    return str(s).replace("|", "\\|").replace("\n", " ")


out = []
out.append("### D.1 What is claimed, per property (from `harness/registry.py` / `harness/registry.d`)\n")
out.append("| id | spec modules | level | what the check establishes | trusted base / assumptions | detailed notes |")
out.append("|---|---|---|---|---|---|")
mods = {}
for f in sorted((V / "harness" / "drivers").glob("c[0-9][0-9].py")):
    txt = f.read_text()
    mods[f.stem.upper()] = sorted(set(re.findall(r'"((?:MC_)?[A-Z][A-Za-z_]+?)"\s*,\s*(?:"|[a-z_]+ )', txt)) & {p.stem for p in (V / "spec").glob("*.tla")})
for pid in sorted(CHECKS):
    cdef = CHECKS[pid]
    note = "notes/design_updates/%s.md" % pid
    out.append("| %s | %s | %s | %s | %s | %s |" % (pid, ", ".join(mods.get(pid, [])) or "-", cdef.get("category", "model_checking"), esc(cdef["text"]), esc(cdef["note"]),
                                                note if (V / note).exists() else "-"))
out.append("")
out.append("### D.2 Findings ledger (from `known_findings.jsonl` and `known_findings.d/`)\n")
out.append("| finding | property | status | commit | what failed |")
out.append("|---|---|---|---|---|")
seen = set()
for line in (V / "known_findings.jsonl").read_text().splitlines():
    if line.strip():
        e = json.loads(line)
        out.append("| %s | %s | %s | %s | %s |" % (e.get("finding", ""), e["property"], e["status"], e.get("commit", ""), esc(e["what"])))
for f in sorted((V / "known_findings.d").glob("*.json")):
    e = json.loads(f.read_text())
    out.append("| %s | %s | **%s (not repaired)** | - | %s (%s) |" % (e.get("sig", f.stem), e["property"], e["status"], esc(e["what"]), esc(e.get("where", ""))))
out.append("")
km = V / "selftest" / "kill_matrix.json"
if km.exists():
    rows = json.loads(km.read_text())
    out.append("### D.3 Kill matrix (from `selftest/kill_matrix.json`, produced by `selftest/kill_matrix.py`; quick tier)\n")
    out.append("`catalogue` = one-line mutants of Appendix C, `revert` = reverse of a `fix:` commit, `independent` = change seeded by a sub-agent that saw only the property text, "
               "`own` = mutants written while building the check, `neutral` = behaviour-preserving refactoring (must survive).\n")
    out.append("| property | change | kind | verdict | first report |")
    out.append("|---|---|---|---|---|")
    for r in rows:
        d = re.sub(r"^.*?(KILLED|SURVIVED|MACHINERY\(rc=2\))\s*(violations=\d+)?\s*(wall=\d+s)?", "", r.get("detail", "")).strip()
        out.append("| %s | %s | %s | %s | %s |" % (r["property"], esc(r["change"].replace("selftest/patches/", "").replace("seeded/", "")), r["kind"], r["verdict"], esc(d[:140])))
    out.append("")
    tot = {}
    for r in rows:
        k = r["kind"]
        tot.setdefault(k, [0, 0])
        tot[k][1] += 1
        if (k == "neutral" and r["verdict"] == "SURVIVED") or (k != "neutral" and r["verdict"] == "KILLED"):
            tot[k][0] += 1
    out.append("Summary: " + "; ".join("%s %d/%d as expected" % (k, a, b) for k, (a, b) in sorted(tot.items())) + ".\n")
out.append("### D.4 Independently seeded changes (from `seeded/seed-*/meta.json`)\n")
out.append("| id | property | confirmed (demo fails with / passes without, suite passes) | result of the checks at intake | what it needs to manifest |")
out.append("|---|---|---|---|---|")
for d in sorted(list((V / "seeded").glob("seed*-C*"))):
    m = json.loads((d / "meta.json").read_text())
    res = "; ".join("%s: %s" % (p, re.search(r"(KILLED|SURVIVED|MACHINERY)", v).group(1) if re.search(r"(KILLED|SURVIVED|MACHINERY)", v) else "?") for p, v in m.get("check_results", {}).items())
    needs = (d / "README.md").read_text().strip().splitlines()
    first = next((l for l in needs if l.strip() and not l.startswith("#")), "")
    out.append("| %s | %s | %s | %s | %s |" % (m["id"], m["breaks"], "yes" if m.get("confirmed", {}).get("ok") else "NO", esc(res), esc(first[:220])))
out.append("")
out.append("### D.5 Measured coverage of the last committed evidence (from `evidence/*.json`)\n")
out.append("| id | tier | TLC states | transitions | cases replayed on the code | traces validated | evaluations | wall s |")
out.append("|---|---|---|---|---|---|---|---|")
for f in sorted((V / "evidence").glob("C*.json")):
    e = json.loads(f.read_text())
    cv = e["coverage"]
    out.append("| %s | %s | %s | %s | %s | %s | %s | %s |" % (e["property_id"], e["tier"], cv.get("states", ""), cv.get("transitions", ""), cv.get("replayed_cases", ""),
                                                             cv.get("traces_validated_against_impl", ""), cv.get("evaluations", ""), e["wall_s"]))
out.append("")
text = "\n".join(out)
p = V / "DESIGN.md"
s = p.read_text()
a, b = "<!-- BEGIN GENERATED -->", "<!-- END GENERATED -->"
if a not in s:
    s += "\n\n## Appendix D — generated tables\n\n%s\n%s\n" % (a, b)
s = s[:s.index(a) + len(a)] + "\n" + text + "\n" + s[s.index(b):]
p.write_text(s)
print("DESIGN.md tables regenerated (%d lines)" % len(out))
