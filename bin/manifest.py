#!/venv/bin/python
"""Regenerates MANIFEST.json from harness/registry.py (single source of truth for what is claimed)."""
import json, pathlib, sys
V = pathlib.Path(__file__).resolve().parents[1]
sys.path.insert(0, str(V))
from harness.registry import CHECKS, NOT_APPLICABLE, ENGINES, NOTES
props = [json.loads(l)["id"] for l in (V / "properties.jsonl").read_text().splitlines() if l.strip()]
checks = []
for pid in props:
    if pid in CHECKS:
        c = CHECKS[pid]
        checks.append({"property_id": pid,
                       "quick_cmd": "bin/check %s --tier quick" % pid,
                       "thorough_cmd": "bin/check %s --tier thorough" % pid,
                       "evidence_file": "/verif/evidence/%s.json" % pid,
                       "replay_cmd_template": "bin/check %s --replay {path}" % pid,
                       "engine": c.get("engine", "tlc"),
                       "level_claimed": {"category": c.get("category", "model_checking"), "text": c["text"], "design_ref": c["design_ref"]},
                       "level_note": c["note"], "technique": c["technique"]})
na = [{"property_id": p, "reason": NOT_APPLICABLE.get(p, "check not built yet (build round in progress)")} for p in props if p not in CHECKS]
m = {"version": 1,
     "setup_cmd": "true",
     "hooks": {"guard": "POLYPLY_VERIF",
               "enable": "no in-tree hooks: checks observe /repo's working tree by wrapping public methods from /verif/harness (guard name reserved, unused)",
               "baseline_off_cmd": "/verif/bin/baseline_off.sh", "source_commits": [], "add_only": True},
     "engines": ENGINES, "checks": checks, "notes": NOTES, "not_applicable": na}
(V / "MANIFEST.json").write_text(json.dumps(m, indent=1) + "\n")
print("claimed:", [c["property_id"] for c in checks], "not claimed:", [n["property_id"] for n in na])
