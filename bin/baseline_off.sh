#!/bin/bash
# Runs the repository's own suite with the verification guard OFF and compares with BASELINE.json stable_pass.
unset POLYPLY_VERIF
export TQDM_DISABLE=1 OMP_NUM_THREADS=1 OPENBLAS_NUM_THREADS=1 MKL_NUM_THREADS=1
REPO=${1:-/repo}
X=$(mktemp /var/tmp/verif_junit_XXXX.xml)
(cd "$REPO" && /venv/bin/python -m pytest -q -p no:cacheprovider --timeout=900 --continue-on-collection-errors --junitxml="$X" >/dev/null 2>&1)
/venv/bin/python - "$X" <<'PY'
import sys, json, xml.etree.ElementTree as ET
stable = set(json.load(open("/root/.vp/BASELINE.json"))["stable_pass"])
passed = set()
for tc in ET.parse(sys.argv[1]).getroot().iter("testcase"):
    if not list(tc): passed.add(f"{tc.get('classname')}::{tc.get('name')}")
broken = sorted(stable - passed)
print("stable_pass", len(stable), "passed_now", len(passed), "broken", len(broken))
for b in broken[:20]: print("  BROKEN", b)
sys.exit(1 if broken else 0)
PY
rc=$?; rm -f "$X"; exit $rc
