----------------------------- MODULE FF_EL -----------------------------
(* instance EL (C14): bonds made by explicit links ([ molmeta ] by_atom_id true) together with mixed exclusion distances:       *)
(* chains of 2..3 residues over A (2 atoms) / B (3 atoms), 4 distance pairs, the residues joined only by the explicit bond 3-4   *)
(* (or 2-3), or joined by a '+' link and closed / cross-linked by an explicit bond or constraint                                 *)
EXTENDS FFExport
ExplSets == << <<LExplicit("bonds", 3, 4, <<"1", "0.35", "1250">>)>>,
               <<LExplicit("bonds", 2, 3, <<"1", "0.36", "1260">>), LExplicit("constraints", 1, 5, <<"1", "0.44">>)>>,
               <<LBond("+", "c1", "c1", <<"1", "0.47", "1250">>), LExplicit("bonds", 2, 6, <<"1", "0.37", "1270">>)>> >>
EEs == << <<1, 3>>, <<3, 1>>, <<0, 2>>, <<2, 2>> >>
MCFFs == TLCEval([x \in 1..12 |-> MkFF(<<BlockE("A", "TA", 2, EEs[((x - 1) % 4) + 1][1], 1), BlockE("B", "TB", 3, EEs[((x - 1) % 4) + 1][2], 1)>>,
                                       ExplSets[((x - 1) \div 4) + 1], <<>>)])
MCInputs == {I \in UNION {{MkInpF(MCFFs, ff, n, 1, kv, Chain(n), <<>>) : ff \in 1..12, kv \in [1..n -> {"A", "B"}]} : n \in 2..3} : DomOK(I)}
ASSUME PrintT(<<"FFS", ToJson(MCFFs)>>)
=============================================================================
