---------------------------- MODULE MC_Templates ----------------------------
(* instances of Templates: three contents - k1 and k2 share the residue name RA but differ (k2 has one more atom), *)
(* k3 is RB with the atom names of k2 and other bonds -, molecules of one or two residues, systems of one or two  *)
(* molecules, build files = sequences of distinct entries (three possible templates, two possible volume lines).  *)
EXTENDS Templates, Json, SequencesExt
G(n, nm, ed) == [n |-> n, nm |-> nm, ed |-> ed]
\* a residue without virtual sites whose edges are bonds; vsd: virtual-site definitions [kind, site, from, p] (atom indices, rational parameters)
Plain == [hasvs |-> FALSE, bonded |-> TRUE, vsd |-> <<>>, settles |-> FALSE]
MCContent == ("k1" :> ([rn |-> "RA", g |-> G(2, <<"A", "B">>, {<<1, 2>>}), u |-> << <<0, 0, 0>>, <<2, 0, 0>> >>] @@ Plain)) @@
             ("k2" :> ([rn |-> "RA", g |-> G(3, <<"A", "B", "C">>, {<<1, 2>>, <<2, 3>>}), u |-> << <<0, 0, 0>>, <<2, 0, 0>>, <<2, 1, 0>> >>] @@ Plain)) @@
             ("k3" :> ([rn |-> "RB", g |-> G(3, <<"A", "B", "C">>, {<<1, 2>>, <<1, 3>>}), u |-> << <<0, 0, 0>>, <<0, 0, 3>>, <<0, 3, 1>> >>] @@ Plain))
KIds == {"k1", "k2", "k3"}
TEnt(k) == [e |-> "T", k |-> k, rn |-> MCContent[k].rn, v |-> 0]
VEnt(rn, v) == [e |-> "V", k |-> "", rn |-> rn, v |-> v]
Entries == { TEnt("k1"), TEnt("k2"), TEnt("k3"), VEnt("RA", 770), VEnt("RB", 1200) }
DistinctSeqs(S, n) == UNION { { s \in [1..m -> S] : \A i, j \in 1..m : i # j => s[i] # s[j] } : m \in 0..n }
Mol12 == UNION { [1..m -> KIds] : m \in 1..2 }
MCSystemsQuick == { <<m>> : m \in Mol12 } \cup ({ <<a, b>> : a \in Mol12, b \in Mol12 } \ { <<a, b>> : a \in [1..2 -> KIds], b \in [1..2 -> KIds] })
MCSystemsFull == { <<m>> : m \in Mol12 } \cup { <<a, b>> : a \in Mol12, b \in Mol12 }
MCBuild3 == DistinctSeqs(Entries, 3)
MCBuild4 == DistinctSeqs(Entries, 4)
\* small instance for the deviation runs
MCSystemsDev == { << <<"k1", "k2">> >>, << <<"k2">>, <<"k1">> >>, << <<"k3">> >> }
MCBuildDev == DistinctSeqs({ TEnt("k1"), TEnt("k2"), VEnt("RA", 770) }, 3)

\* ---- instance with LARGE residues (>= 16 atoms): kL (RL, 16 atoms: a chain of 12 with four branches), kM (RL too, kL with two more atoms),
\* k1 as small control; the key function of the code must not depend on the call site whatever the size of the residue
MCContentL == ("k1" :> ([rn |-> "RA", g |-> G(2, <<"A", "B">>, {<<1, 2>>}), u |-> << <<0, 0, 0>>, <<2, 0, 0>> >>] @@ Plain)) @@
              ("kL" :> ([rn |-> "RL", g |-> G(16, <<"L1", "L2", "L3", "L4", "L5", "L6", "L7", "L8", "L9", "L10", "L11", "L12", "L13", "L14", "L15", "L16">>,
                                             {<<1, 2>>, <<2, 3>>, <<3, 4>>, <<4, 5>>, <<5, 6>>, <<6, 7>>, <<7, 8>>, <<8, 9>>, <<9, 10>>, <<10, 11>>, <<11, 12>>, <<3, 13>>, <<6, 14>>, <<9, 15>>, <<12, 16>>}),
                        u |-> << <<1, 1, 0>>, <<2, 0, 0>>, <<3, 1, 0>>, <<4, 0, 0>>, <<5, 1, 0>>, <<6, 0, 0>>, <<7, 1, 0>>, <<8, 0, 0>>, <<9, 1, 0>>, <<10, 0, 0>>, <<11, 1, 0>>, <<12, 0, 0>>, <<3, 0, 2>>, <<6, 0, 2>>, <<9, 0, 2>>, <<12, 0, 2>> >>] @@ Plain)) @@
              ("kM" :> ([rn |-> "RL", g |-> G(18, <<"L1", "L2", "L3", "L4", "L5", "L6", "L7", "L8", "L9", "L10", "L11", "L12", "L13", "L14", "L15", "L16", "L17", "L18">>,
                                             {<<1, 2>>, <<2, 3>>, <<3, 4>>, <<4, 5>>, <<5, 6>>, <<6, 7>>, <<7, 8>>, <<8, 9>>, <<9, 10>>, <<10, 11>>, <<11, 12>>, <<3, 13>>, <<6, 14>>, <<9, 15>>, <<12, 16>>, <<13, 17>>, <<14, 18>>}),
                        u |-> << <<1, 1, 0>>, <<2, 0, 0>>, <<3, 1, 0>>, <<4, 0, 0>>, <<5, 1, 0>>, <<6, 0, 0>>, <<7, 1, 0>>, <<8, 0, 0>>, <<9, 1, 0>>, <<10, 0, 0>>, <<11, 1, 0>>, <<12, 0, 0>>, <<3, 0, 2>>, <<6, 0, 2>>, <<9, 0, 2>>, <<12, 0, 2>>, <<3, 1, 4>>, <<6, 1, 4>> >>] @@ Plain))
TEntL(k) == [e |-> "T", k |-> k, rn |-> MCContentL[k].rn, v |-> 0]
MCSystemsL == { << <<"kL">> >>, << <<"k1", "kL">> >>, << <<"kL">>, <<"k1", "kL">> >>, << <<"kL", "kM">> >>, << <<"kM">>, <<"kL">> >>,
                << <<"k1", "kL">>, <<"k1", "kL">> >>, << <<"kL", "kL">> >> }
MCBuildL == DistinctSeqs({ TEntL("k1"), TEntL("kL"), TEntL("kM"), VEnt("RL", 880) }, 3)
MCSystemsLDev == { << <<"k1", "kL">> >>, << <<"kL">>, <<"kM">> >> }
MCBuildLDev == DistinctSeqs({ TEntL("kL"), VEnt("RL", 880) }, 2)
\* deviation run for the processor memory: two molecules sharing a residue, with and without a build file
MCSystemsShare == { << <<"k1">>, <<"k1", "k2">> >>, << <<"k1", "k2">>, <<"k1", "k2">> >>, << <<"k3">> >> }

\* ---- instance with residues that have NO bond, constraint, angle or improper of their own, only virtual-site definitions
\* (and [ settles ] / nothing): kW four-site water (site = virtual_sites3 of the three atoms, [ settles ]), kI a bead with a stacked
\* virtual_sitesn site, kT a virtual_sites2 site between two unbonded atoms, kO an out-of-plane site (3out); controls: kC (constraint-free
\* bonded triangle with a centre site), k1.  The minimiser has nothing to do for kW, kI, kT, kO - their sites must be constructed all the same.
VsOnly(d, st) == [hasvs |-> TRUE, bonded |-> FALSE, vsd |-> <<d>>, settles |-> st]
VSD(kind, site, from, p) == [kind |-> kind, site |-> site, from |-> from, p |-> p]
MCContentV == ("k1" :> ([rn |-> "RA", g |-> G(2, <<"A", "B">>, {<<1, 2>>}), u |-> << <<0, 0, 0>>, <<2, 0, 0>> >>] @@ Plain)) @@
              ("kW" :> ([rn |-> "RW", g |-> G(4, <<"OW", "HW1", "HW2", "MW">>, {}), u |-> << <<0, 0, 0>>, <<1, 0, 0>>, <<0, 1, 0>>, <<1, 1, 0>> >>]
                       @@ VsOnly(VSD("3", 4, <<1, 2, 3>>, << <<1, 8>>, <<1, 8>> >>), TRUE))) @@
              ("kI" :> ([rn |-> "RI", g |-> G(2, <<"BB", "QS">>, {}), u |-> << <<0, 0, 0>>, <<0, 0, 1>> >>]
                       @@ VsOnly(VSD("n", 2, <<1>>, <<>>), FALSE))) @@
              ("kT" :> ([rn |-> "RT", g |-> G(3, <<"T1", "T2", "TV">>, {}), u |-> << <<0, 0, 0>>, <<1, 0, 0>>, <<0, 1, 0>> >>]
                       @@ VsOnly(VSD("2", 3, <<1, 2>>, << <<3, 10>> >>), FALSE))) @@
              ("kO" :> ([rn |-> "RO", g |-> G(4, <<"O1", "O2", "O3", "OV">>, {}), u |-> << <<0, 0, 0>>, <<1, 0, 0>>, <<0, 1, 0>>, <<0, 0, 1>> >>]
                       @@ VsOnly(VSD("3out", 4, <<1, 2, 3>>, << <<1, 5>>, <<3, 10>>, <<3, 2>> >>), FALSE))) @@
              ("kC" :> ([rn |-> "RC", g |-> G(4, <<"C1", "C2", "C3", "CV">>, {<<1, 2>>, <<1, 3>>, <<2, 3>>}), u |-> << <<0, 0, 0>>, <<1, 0, 0>>, <<0, 1, 0>>, <<0, 0, 1>> >>]
                       @@ [hasvs |-> TRUE, bonded |-> TRUE, vsd |-> << VSD("n", 4, <<1, 2, 3>>, <<>>) >>, settles |-> FALSE]))
MCSystemsV == { << <<"kW">> >>, << <<"kW">>, <<"kW">> >>, << <<"kI", "k1">> >>, << <<"kT", "kO">> >>, << <<"kC", "kW">>, <<"kI">> >>, << <<"kO">>, <<"k1", "kT">> >> }
MCBuildV == { <<>>, << VEnt("RW", 610) >>, << VEnt("RI", 450), [e |-> "T", k |-> "k1", rn |-> "RA", v |-> 0] >> }
MCSystemsVDev == { << <<"kC", "kW">>, <<"kI">> >> }

\* ---- S->I export: the final tables of every behaviour
COut(k) == [rn |-> Content[k].rn, nm |-> Content[k].g.nm,
            ed |-> SetToSortSeq(Content[k].g.ed, LAMBDA a, b : a[1] < b[1] \/ (a[1] = b[1] /\ a[2] < b[2])), u |-> Content[k].u,
            hasvs |-> Content[k].hasvs, bonded |-> Content[k].bonded, vsd |-> Content[k].vsd, settles |-> Content[k].settles]
\* the tables are read at the key the residues of content k CARRY (TagKey), i.e. the template and size a residue is mapped to
KOut(k) == LET h == TagKey(k) IN
           [tsrc |-> tmpl[h].src, vsrc |-> vols[h].src, v |-> vols[h].v, ngen |-> ngen[h], vs |-> tmpl[h].vs,
            tnum |-> [i \in 1..Len(Content[k].u) |-> Stored(h)[i].num], tden |-> Stored(h)[1].den]
Case == [sys |-> sys, bld |-> bld, nobld |-> nobld, content |-> [k \in Keys |-> COut(k)], keys |-> [k \in UsedKeys |-> KOut(k)],
         tags |-> [m \in 1..Len(sys) |-> [i \in 1..Len(sys[m]) |-> tag[<<m, i>>]]],
         held |-> [m \in 1..Len(sys) |-> [i \in 1..Len(sys[m]) |-> held[m][tag[<<m, i>>]]]],
         sizeok |-> [m \in 1..Len(sys) |-> [i \in 1..Len(sys[m]) |-> SizeOK(<<m, i>>)]],
         devVolLost |-> DevVolLost]
ExportInv == Done => PrintT(<<"CASE", ToJson(Case)>>)
=============================================================================
