---------------------------- MODULE MC_Templates ----------------------------
(* instance of Templates: three contents - k1 and k2 share the residue name RA but differ (k2 has one more atom), *)
(* k3 is RB with the atom names of k2 and other bonds -, molecules of one or two residues, systems of one or two  *)
(* molecules, build files = sequences of distinct entries (three possible templates, two possible volume lines).  *)
EXTENDS Templates, Json, SequencesExt
G(n, nm, ed) == [n |-> n, nm |-> nm, ed |-> ed]
MCContent == ("k1" :> [rn |-> "RA", g |-> G(2, <<"A", "B">>, {<<1, 2>>}), u |-> << <<0, 0, 0>>, <<2, 0, 0>> >>]) @@
             ("k2" :> [rn |-> "RA", g |-> G(3, <<"A", "B", "C">>, {<<1, 2>>, <<2, 3>>}), u |-> << <<0, 0, 0>>, <<2, 0, 0>>, <<2, 1, 0>> >>]) @@
             ("k3" :> [rn |-> "RB", g |-> G(3, <<"A", "B", "C">>, {<<1, 2>>, <<1, 3>>}), u |-> << <<0, 0, 0>>, <<0, 0, 3>>, <<0, 3, 1>> >>])
KIds == {"k1", "k2", "k3"}
TEnt(k) == [e |-> "T", k |-> k, rn |-> MCContent[k].rn, v |-> 0]
VEnt(rn, v) == [e |-> "V", k |-> "", rn |-> rn, v |-> v]
Entries == { TEnt("k1"), TEnt("k2"), TEnt("k3"), VEnt("RA", 770), VEnt("RB", 1200) }
DistinctSeqs(S, n) == UNION { { s \in [1..m -> S] : \A i, j \in 1..m : i # j => s[i] # s[j] } : m \in 0..n }
Mol12 == UNION { [1..m -> KIds] : m \in 1..2 }
MCSystemsQuick == { <<m>> : m \in Mol12 } \cup ({ <<a, b>> : a \in Mol12, b \in Mol12 } \ { <<a, b>> : a \in [1..2 -> KIds], b \in [1..2 -> KIds] })
MCSystemsFull == { <<m>> : m \in Mol12 } \cup { <<a, b>> : a \in Mol12, b \in Mol12 }
MCBuild3 == DistinctSeqs(Entries, 3)
MCBuild4 == DistinctSeqs(Entries, 4)
\* small instance for the deviation runs
MCSystemsDev == { << <<"k1", "k2">> >>, << <<"k2">>, <<"k1">> >>, << <<"k3">> >> }
MCBuildDev == DistinctSeqs({ TEnt("k1"), TEnt("k2"), VEnt("RA", 770) }, 3)

\* ---- S->I export: the final tables of every behaviour
COut(k) == [rn |-> Content[k].rn, nm |-> Content[k].g.nm,
            ed |-> SetToSortSeq(Content[k].g.ed, LAMBDA a, b : a[1] < b[1] \/ (a[1] = b[1] /\ a[2] < b[2])), u |-> Content[k].u]
KOut(k) == [tsrc |-> tmpl[k].src, vsrc |-> vols[k].src, v |-> vols[k].v,
            tnum |-> [i \in 1..Len(Content[k].u) |-> Stored(k)[i].num], tden |-> Stored(k)[1].den]
Case == [sys |-> sys, bld |-> bld, content |-> [k \in Keys |-> COut(k)], keys |-> [k \in UsedKeys |-> KOut(k)],
         tags |-> [m \in 1..Len(sys) |-> [i \in 1..Len(sys[m]) |-> tag[<<m, i>>]]], devVolLost |-> DevVolLost]
ExportInv == Done => PrintT(<<"CASE", ToJson(Case)>>)
=============================================================================
