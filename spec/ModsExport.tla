----------------------------- MODULE ModsExport -----------------------------
(* S->I export for X05: every input of the instance with the I-layer history (one event per action, atoms visited in node   *)
(* order), the final state, the open findings that changed the behaviour (flags follow the ledger: DevLedger) and the       *)
(* intended P-layer answer.  The libraries are printed once (LIBS), a case carries the library id.                          *)
EXTENDS ModsMC, Json
VARIABLE hist
ASSUME PrintT(<<"LIBS", ToJson([id \in LibIds |-> MCLibOf(id)])>>)
XInit == MCInit /\ hist = <<>>
XInitFull == MCInitMid /\ hist = <<>>
XNext == Next /\ hist' = Append(hist, ev')
Fin == [pc |-> pc, err |-> err, atoms |-> atoms, added |-> SubSeq(inters, Len(inp.base) + 1, Len(inters)), w |-> out.w, reqs |-> reqs]
Exp == [st |-> PFinal.st, err |-> PFinal.err, atoms |-> PFinal.atoms,
        added |-> IF PFinal.st = "done" THEN SubSeq(PFinal.inters, Len(inp.base) + 1, Len(PFinal.inters)) ELSE <<>>]
ExportInv == Done => PrintT(<<"CASE", ToJson([inp |-> inp, hist |-> hist, fin |-> Fin, fired |-> fired, exp |-> Exp])>>)
=============================================================================
