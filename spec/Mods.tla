------------------------------- MODULE Mods -------------------------------
(* X05 - residue / terminal modifications of gen_params (`-mods <resname><resid>:<modification>`, automatic protein      *)
(* termini).  Code: polyply/src/apply_modifications.py (ApplyModifications, _patch_protein_termini, apply_mod), called by  *)
(* gen_itp.gen_params after MapToMolecule and ApplyLinks and before the missing-link warnings and the deferred write.      *)
(*                                                                                                                        *)
(* State: the molecule (atoms with attribute maps an/ty/q/m and the residue they belong to; interactions), the library    *)
(* of modifications (anchor atoms with optional `replace` maps, interactions, edges), the request list.                   *)
(*                                                                                                                        *)
(* I-layer (shaped like the code): Load (the force-field files are parsed), Begin (constructor: explicit requests or the   *)
(* two automatic termini; `no modifications in the force field` ends the run), Select (modification looked up, residue     *)
(* looked up BY RESIDUE ID ONLY, amino-acid gate), Visit (one atom of the target residue: name recorded, `replace`         *)
(* applied), Inter (one interaction of the modification resolved through the recorded names and appended), Next, Finish   *)
(* (the .itp is written), Fail (KeyError / IndexError: nothing is written).                                                *)
(* P-layer (declarative): PFinal = fold of the per-request transformer PStep (set comprehensions over the target residue), *)
(* and the laws Conform, Frame, ResolveLaw, ReplaceLaw, ErrorLaw, TerminiLaw below.                                        *)
(*                                                                                                                        *)
(* What the code does where one might expect otherwise (stated as found; the Exp* expectations are refuted by TLC):        *)
(*   - the residue NAME of a request is never consulted (ExpResnameMatters)                                                *)
(*   - only residues with an amino-acid name are modified, others are skipped with a warning (ExpEveryRequestApplied)      *)
(*   - atoms are never added: a modification atom that is absent from the residue is ignored unless an interaction needs   *)
(*     it, then KeyError (ExpAddsAtoms); [ edges ] of a modification have no effect on the molecule                        *)
(*   - a repeated request appends its interactions again (ExpIdempotent)                                                   *)
(*   - on an error the molecule in memory keeps the effects applied so far, only the output file is protected             *)
(*     (ExpAtomicInMemory)                                                                                                 *)
(*   - automatic termini = residue with the lowest and with the highest residue id of the WHOLE molecule, whatever the     *)
(*     residue graph looks like (chains, cycles, polymer blocks in front of the protein) (ExpTerminiPerSegment)            *)
(*   - with an empty modification library nothing is looked up at all: an unknown name passes (ExpUnknownModIsError)       *)
(* Open findings, modelled as deviation flags that are TRUE for the tree as long as the ledger lists them as known:        *)
(*   trunc2        interactions of a modification are added with their first two atoms only (angles, dihedrals truncated;  *)
(*                 one-atom interactions die with IndexError)                                                              *)
(*   terKeyError   no -mods given and the library has modifications but not N-ter / C-ter: KeyError 'N-ter' for ANY        *)
(*                 sequence, protein or not                                                                                *)
(*   edgeFirstChar the polyply .ff parser checks only the first character of the atom names in [ edges ] of a             *)
(*                 modification: such a modification cannot be loaded                                                      *)
EXTENDS Naturals, Sequences, FiniteSets, TLC

CONSTANTS Inputs,      \* set of input records (model checking uses an initial predicate instead, see ModsMC)
          LibOf(_),    \* library id -> sequence of modifications [name, atoms: Seq [an, rep: Seq [k, v]], inters: Seq [sec, at: Seq name, par], edges: Seq <<name, name>>]
          Dev,         \* record of deviation flags (NoDev = the intended design)
          FreeOrder    \* TRUE: the atoms of the target residue may be visited in any order (node order is not part of the abstraction)

VARIABLES inp,      \* [lib, res: Seq [rn, resid] (residue-id order), ins: permutation (insertion order of the residue nodes),
                    \*  atoms: Seq [res, an, ty, q, m], base: Seq [sec, at, par, rq = 0, mi = 0], reqs: Seq [rn, resid, mod]]
          reqs,     \* effective requests (explicit, or the automatic termini)
          k,        \* request being processed
          pc,       \* "load" "begin" "select" "visit" "inter" "done" "error"
          tgt,      \* target residue (position in inp.res)
          todo,     \* atoms of the target residue not visited yet
          anum,     \* names recorded for the current request: set of [n, a]
          j,        \* interaction of the modification being added
          atoms, inters,
          err,      \* "none" "load" "nomod" "noresid" "noanchor" "arity"
          out,      \* the output file: [w, atoms, inters]
          fired,    \* open findings that changed this behaviour
          ev        \* the event of the last action (exported / matched against recorded events)
vars == <<inp, reqs, k, pc, tgt, todo, anum, j, atoms, inters, err, out, fired, ev>>

Protein == {"GLY", "ALA", "CYS", "VAL", "LEU", "ILE", "MET", "PRO", "HYP", "ASN", "GLN", "ASP", "ASP0", "GLU", "GLU0", "THR", "SER",
            "LYS", "LYS0", "ARG", "ARG0", "HIS", "HISH", "PHE", "TYR", "TRP"}

NoDev == [trunc2 |-> FALSE, terKeyError |-> FALSE, edgeFirstChar |-> FALSE,
          anyRes |-> FALSE, residIgnored |-> FALSE, replaceAll |-> FALSE, dedup |-> FALSE, lastWins |-> FALSE, noGate |-> FALSE,
          errWrites |-> FALSE, skipUnknownMod |-> FALSE, terByInsertion |-> FALSE, resnameChecked |-> FALSE, firstOnly |-> FALSE]
DevTrunc2 == [NoDev EXCEPT !.trunc2 = TRUE]
DevTerKeyError == [NoDev EXCEPT !.terKeyError = TRUE]
DevEdgeFirstChar == [NoDev EXCEPT !.edgeFirstChar = TRUE]
DevAsIsAll == [NoDev EXCEPT !.trunc2 = TRUE, !.terKeyError = TRUE, !.edgeFirstChar = TRUE]
DevAnyRes == [NoDev EXCEPT !.anyRes = TRUE]                  \* first atom of that name in the whole molecule
DevResidIgnored == [NoDev EXCEPT !.residIgnored = TRUE]      \* first residue with the requested residue name
DevReplaceAll == [NoDev EXCEPT !.replaceAll = TRUE]          \* replace applied to every atom of the residue
DevDedup == [NoDev EXCEPT !.dedup = TRUE]                    \* an interaction already present is not appended again
DevLastWins == [NoDev EXCEPT !.lastWins = TRUE]              \* only the last request for a residue is applied
DevNoGate == [NoDev EXCEPT !.noGate = TRUE]                  \* non-amino-acid residues are modified as well
DevErrWrites == [NoDev EXCEPT !.errWrites = TRUE]            \* the output is written although a request failed
DevSkipUnknownMod == [NoDev EXCEPT !.skipUnknownMod = TRUE]  \* an unknown modification is skipped silently
DevTerByInsertion == [NoDev EXCEPT !.terByInsertion = TRUE]  \* termini = first / last inserted residue node
DevResnameChecked == [NoDev EXCEPT !.resnameChecked = TRUE]  \* a request whose residue name differs is skipped
DevFirstOnly == [NoDev EXCEPT !.firstOnly = TRUE]            \* only the first request is applied

(* ---------------------------------------------------------------- helpers *)
Lib == LibOf(inp.lib)
N == Len(inp.res)
HasMod(nm) == \E x \in DOMAIN Lib : Lib[x].name = nm
ModOf(nm) == Lib[CHOOSE x \in DOMAIN Lib : Lib[x].name = nm]
HasResid(r) == \E p \in 1..N : inp.res[p].resid = r
PosOf(r) == CHOOSE p \in 1..N : inp.res[p].resid = r
AtomsOf(p) == {a \in DOMAIN inp.atoms : inp.atoms[a].res = p}
ModNames(md) == {md.atoms[x].an : x \in DOMAIN md.atoms}
RepOf(md, nm) == md.atoms[CHOOSE x \in DOMAIN md.atoms : md.atoms[x].an = nm].rep
Val(rep, key, old) == IF \E i \in DOMAIN rep : rep[i].k = key THEN rep[CHOOSE i \in DOMAIN rep : rep[i].k = key].v ELSE old
Override(a, rep) == [res |-> a.res, an |-> Val(rep, "an", a.an), ty |-> Val(rep, "ty", a.ty), q |-> Val(rep, "q", a.q), m |-> Val(rep, "m", a.m)]
MinPos == CHOOSE p \in 1..N : \A o \in 1..N : inp.res[p].resid <= inp.res[o].resid
MaxPos == CHOOSE p \in 1..N : \A o \in 1..N : inp.res[p].resid >= inp.res[o].resid
TerReqs(first, last) == <<[rn |-> inp.res[first].rn, resid |-> inp.res[first].resid, mod |-> "N-ter"],
                          [rn |-> inp.res[last].rn, resid |-> inp.res[last].resid, mod |-> "C-ter"]>>
Known(rs) == SelectSeq(rs, LAMBDA r : HasMod(r.mod))
Event(op, kk, a, sets, x, e) == [op |-> op, k |-> kk, a |-> a, sets |-> sets, x |-> x, err |-> e]
Written == [w |-> TRUE, atoms |-> atoms, inters |-> inters]
Strip(x) == [sec |-> x.sec, at |-> x.at, par |-> x.par]

(* ---------------------------------------------------------------- P-layer *)
\* the automatic requests: lowest and highest residue id of the whole molecule; a terminus modification the library does not define
\* is not requested
PTermini == Known(TerReqs(MinPos, MaxPos))
PReqs == IF inp.reqs # <<>> THEN inp.reqs ELSE PTermini
InRes(M, p, a) == M.atoms[a].res = p
Present(M, p, nm) == \E a \in DOMAIN M.atoms : InRes(M, p, a) /\ M.atoms[a].an = nm
Ref(M, p, nm) == CHOOSE a \in DOMAIN M.atoms : InRes(M, p, a) /\ M.atoms[a].an = nm
\* a request cannot be applied when one of its interactions names an atom the residue does not have
PBad(M, r) == LET md == ModOf(r.mod)  p == PosOf(r.resid)
              IN \E x \in DOMAIN md.inters : \E i \in DOMAIN md.inters[x].at : ~Present(M, p, md.inters[x].at[i])
\* one request: attributes named in `replace` of an anchor get the new value, nothing else changes; every interaction of the modification
\* is appended once, its atoms resolved by name inside the target residue
PStep(M, r, i) ==
  LET md == ModOf(r.mod)  p == PosOf(r.resid)
      hit(a) == InRes(M, p, a) /\ M.atoms[a].an \in ModNames(md)
  IN [atoms |-> [a \in DOMAIN M.atoms |-> IF hit(a) THEN Override(M.atoms[a], RepOf(md, M.atoms[a].an)) ELSE M.atoms[a]],
      inters |-> M.inters \o [x \in DOMAIN md.inters |->
                    [sec |-> md.inters[x].sec, at |-> [n \in DOMAIN md.inters[x].at |-> Ref(M, p, md.inters[x].at[n])],
                     par |-> md.inters[x].par, rq |-> i, mi |-> x]]]
PErrRec(kind) == [st |-> "error", err |-> kind, atoms |-> <<>>, inters |-> <<>>]
RECURSIVE PRun(_, _)
PRun(M, i) ==
  IF i > Len(PReqs) THEN [st |-> "done", err |-> "none", atoms |-> M.atoms, inters |-> M.inters]
  ELSE LET r == PReqs[i] IN
       IF ~HasMod(r.mod) THEN PErrRec("nomod")
       ELSE IF ~HasResid(r.resid) THEN PErrRec("noresid")
       ELSE IF inp.res[PosOf(r.resid)].rn \notin Protein THEN PRun(M, i + 1)
       ELSE IF PBad(M, r) THEN PErrRec("noanchor")
       ELSE PRun(PStep(M, r, i), i + 1)
PFinal == IF Lib = <<>> THEN [st |-> "done", err |-> "none", atoms |-> inp.atoms, inters |-> inp.base]
          ELSE PRun([atoms |-> inp.atoms, inters |-> inp.base], 1)
\* requests that take effect (known modification, existing residue id, amino-acid name)
Eligible(r) == HasMod(r.mod) /\ HasResid(r.resid) /\ inp.res[PosOf(r.resid)].rn \in Protein

(* ---------------------------------------------------------------- I-layer *)
InitRest == /\ reqs = <<>> /\ k = 0 /\ pc = "load" /\ tgt = 0 /\ todo = {} /\ anum = {} /\ j = 0
            /\ atoms = inp.atoms /\ inters = inp.base /\ err = "none"
            /\ out = [w |-> FALSE, atoms |-> <<>>, inters |-> <<>>] /\ fired = {}
            /\ ev = Event("init", 0, 0, <<>>, <<>>, "none")
Init == inp \in Inputs /\ InitRest

Fail(kind, f) == /\ pc' = "error" /\ err' = kind /\ fired' = fired \cup f
                 /\ out' = IF Dev.errWrites THEN Written ELSE out
                 /\ ev' = Event("error", k, 0, <<>>, <<>>, kind)

\* load_ff_library: the modification files are parsed
Load == /\ pc = "load"
        /\ UNCHANGED <<inp, reqs, k, tgt, todo, anum, j, atoms, inters>>
        /\ IF Dev.edgeFirstChar /\ \E x \in DOMAIN Lib : Lib[x].edges # <<>>
           THEN Fail("load", {"edgeFirstChar"})
           ELSE pc' = "begin" /\ ev' = Event("load", 0, 0, <<>>, <<>>, "none") /\ UNCHANGED <<err, out, fired>>

\* ApplyModifications.__init__ and the first test of apply_mod
Begin == /\ pc = "begin"
         /\ LET raw == IF inp.reqs # <<>> THEN inp.reqs
                       ELSE IF Dev.terByInsertion THEN TerReqs(inp.ins[1], inp.ins[N]) ELSE TerReqs(MinPos, MaxPos)
                eff == IF inp.reqs # <<>> \/ Dev.terKeyError THEN raw ELSE Known(raw)
            IN /\ reqs' = eff
               /\ fired' = IF Lib # <<>> /\ eff # (IF inp.reqs # <<>> THEN raw ELSE Known(raw)) THEN fired \cup {"terKeyError"} ELSE fired
               /\ IF Lib = <<>> THEN k' = Len(eff) + 1 /\ ev' = Event("nomods", 0, 0, <<>>, <<>>, "none")
                  ELSE k' = 1 /\ ev' = Event("begin", 0, 0, <<>>, <<>>, "none")
         /\ pc' = "select"
         /\ UNCHANGED <<inp, tgt, todo, anum, j, atoms, inters, err, out>>

Found(r) == IF Dev.residIgnored THEN \E p \in 1..N : inp.res[p].rn = r.rn ELSE HasResid(r.resid)
Target(r) == IF Dev.residIgnored THEN CHOOSE p \in 1..N : inp.res[p].rn = r.rn /\ \A o \in 1..N : inp.res[o].rn = r.rn => p <= o
             ELSE PosOf(r.resid)
Select == /\ pc = "select" /\ k <= Len(reqs)
          /\ UNCHANGED <<inp, reqs, j, atoms, inters>>
          /\ LET r == reqs[k]
                 later == \E i \in (k + 1)..Len(reqs) : reqs[i].resid = r.resid
                 skip == /\ k' = k + 1 /\ ev' = Event("skip", k, 0, <<>>, <<>>, "none")
                         /\ UNCHANGED <<pc, tgt, todo, anum, err, out, fired>>
             IN IF ~HasMod(r.mod) THEN (IF Dev.skipUnknownMod THEN skip ELSE Fail("nomod", {}) /\ UNCHANGED <<k, tgt, todo, anum>>)
                ELSE IF ~Found(r) THEN Fail("noresid", {}) /\ UNCHANGED <<k, tgt, todo, anum>>
                ELSE IF \/ (~Dev.noGate /\ inp.res[Target(r)].rn \notin Protein)
                        \/ (Dev.lastWins /\ later) \/ (Dev.firstOnly /\ k > 1)
                        \/ (Dev.resnameChecked /\ inp.res[Target(r)].rn # r.rn) THEN skip
                ELSE /\ tgt' = Target(r) /\ anum' = {} /\ pc' = "visit"
                     /\ todo' = IF Dev.anyRes THEN DOMAIN atoms ELSE AtomsOf(Target(r))
                     /\ ev' = Event("select", k, 0, <<>>, <<>>, "none")
                     /\ UNCHANGED <<k, err, out, fired>>

FirstRep(md) == IF \E x \in DOMAIN md.atoms : md.atoms[x].rep # <<>>
                THEN md.atoms[CHOOSE x \in DOMAIN md.atoms : md.atoms[x].rep # <<>> /\ \A y \in 1..(x - 1) : md.atoms[y].rep = <<>>].rep
                ELSE <<>>
\* one turn of the loop over the atoms of the target residue: the name is read, recorded and the replace map applied
Visit(a) == /\ pc = "visit" /\ a \in todo /\ (FreeOrder \/ \A b \in todo : a <= b)
            /\ LET md == ModOf(reqs[k].mod)  nm == atoms[a].an
                   hit == nm \in ModNames(md) /\ ~(Dev.anyRes /\ \E p \in anum : p.n = nm)
                   rep == IF Dev.replaceAll THEN FirstRep(md) ELSE IF hit THEN RepOf(md, nm) ELSE <<>>
               IN /\ atoms' = [atoms EXCEPT ![a] = Override(@, rep)]
                  /\ anum' = IF hit THEN {p \in anum : p.n # nm} \cup {[n |-> nm, a |-> a]} ELSE anum
                  /\ ev' = Event("visit", k, a, rep, <<>>, "none")
            /\ todo' = todo \ {a}
            /\ IF todo' = {} THEN pc' = "inter" /\ j' = 1 ELSE UNCHANGED <<pc, j>>
            /\ UNCHANGED <<inp, reqs, k, tgt, inters, err, out, fired>>
VisitAny == \E a \in todo : Visit(a)

\* one turn of the loop over the interactions of the modification, or the end of the request
Inter == /\ pc = "inter"
         /\ UNCHANGED <<inp, reqs, tgt, todo, anum, atoms>>
         /\ LET md == ModOf(reqs[k].mod)
                known(nm) == \E p \in anum : p.n = nm
                ref(nm) == (CHOOSE p \in anum : p.n = nm).a
                add(x, at, f) == /\ inters' = IF Dev.dedup /\ \E y \in DOMAIN inters : Strip(inters[y]) = [sec |-> x.sec, at |-> at, par |-> x.par]
                                              THEN inters
                                              ELSE Append(inters, [sec |-> x.sec, at |-> at, par |-> x.par, rq |-> k, mi |-> j])
                                 /\ j' = j + 1 /\ fired' = fired \cup f
                                 /\ ev' = Event("add", k, 0, <<>>, <<[sec |-> x.sec, at |-> at, par |-> x.par]>>, "none")
                                 /\ UNCHANGED <<k, pc, err, out>>
                fail(kind, f) == Fail(kind, f) /\ UNCHANGED <<k, j, inters>>
            IN IF j > Len(md.inters)
               THEN /\ k' = k + 1 /\ pc' = "select" /\ ev' = Event("next", k, 0, <<>>, <<>>, "none")
                    /\ UNCHANGED <<j, inters, err, out, fired>>
               ELSE LET x == md.inters[j] IN
                    IF Dev.trunc2
                    THEN IF ~known(x.at[1]) THEN fail("noanchor", {})
                         ELSE IF Len(x.at) < 2 THEN fail("arity", {"trunc2"})
                         ELSE IF ~known(x.at[2]) THEN fail("noanchor", {})
                         ELSE add(x, <<ref(x.at[1]), ref(x.at[2])>>, IF Len(x.at) # 2 THEN {"trunc2"} ELSE {})
                    ELSE IF \E i \in DOMAIN x.at : ~known(x.at[i]) THEN fail("noanchor", {})
                         ELSE add(x, [i \in DOMAIN x.at |-> ref(x.at[i])], {})

\* every request has been handled: gen_params writes the molecule
Finish == /\ pc = "select" /\ k > Len(reqs)
          /\ pc' = "done" /\ out' = Written /\ ev' = Event("finish", 0, 0, <<>>, <<>>, "none")
          /\ UNCHANGED <<inp, reqs, k, tgt, todo, anum, j, atoms, inters, err, fired>>

Next == Load \/ Begin \/ Select \/ VisitAny \/ Inter \/ Finish
Spec == Init /\ [][Next]_vars
Done == pc \in {"done", "error"}

(* ---------------------------------------------------------------- laws *)
\* the result is the declarative one, whatever the order in which the atoms of a residue are visited; an error leaves no output
Conform == /\ pc = "done" => /\ PFinal.st = "done" /\ atoms = PFinal.atoms /\ inters = PFinal.inters
                             /\ out = [w |-> TRUE, atoms |-> atoms, inters |-> inters]
           /\ pc = "error" => PFinal.st = "error" /\ err = PFinal.err
ErrorLaw == /\ out.w => pc = "done"
            /\ pc = "error" => /\ ~out.w
                               /\ err \in {"nomod", "noresid", "noanchor"}
                               /\ k \in 1..Len(reqs)
                               /\ err = "nomod" <=> ~HasMod(reqs[k].mod)
                               /\ err = "noresid" <=> (HasMod(reqs[k].mod) /\ ~HasResid(reqs[k].resid))
\* exactly the requested residues are touched: atoms of every other residue, the number and order of atoms, the residue of every atom
\* and all interactions that were there before stay as they were - in every state, also half-way and after an error
Touched == {PosOf(reqs[i].resid) : i \in {i \in 1..Len(reqs) : i <= k /\ Eligible(reqs[i])}}
Frame == /\ Len(atoms) = Len(inp.atoms)
         /\ \A a \in DOMAIN atoms : /\ atoms[a].res = inp.atoms[a].res
                                    /\ atoms[a] # inp.atoms[a] => atoms[a].res \in Touched
         /\ Len(inters) >= Len(inp.base) /\ SubSeq(inters, 1, Len(inp.base)) = inp.base
         /\ \A y \in (Len(inp.base) + 1)..Len(inters) : inters[y].rq \in 1..Len(reqs) /\ inters[y].rq <= k /\ Eligible(reqs[inters[y].rq])
\* an added interaction is the modification's interaction: same section, parameters and number of atoms, every atom inside the target
\* residue of the request that added it (never a same-named atom of another residue), in request order
ResolveLaw == \A y \in (Len(inp.base) + 1)..Len(inters) :
                 LET x == inters[y]  r == reqs[x.rq]  mi == ModOf(r.mod).inters[x.mi]
                 IN /\ x.sec = mi.sec /\ x.par = mi.par /\ Len(x.at) = Len(mi.at)
                    /\ \A i \in DOMAIN x.at : inp.atoms[x.at[i]].res = PosOf(r.resid)
                    /\ \A z \in (Len(inp.base) + 1)..(y - 1) : inters[z].rq <= x.rq
\* an atom changes only while its residue is the target, only if the modification names it, and exactly by the replace map
ReplaceLaw == [][\A a \in DOMAIN atoms : atoms'[a] # atoms[a] =>
                    /\ pc = "visit" /\ tgt = PosOf(reqs[k].resid) /\ inp.atoms[a].res = tgt
                    /\ atoms[a].an \in ModNames(ModOf(reqs[k].mod))
                    /\ atoms'[a] = Override(atoms[a], RepOf(ModOf(reqs[k].mod), atoms[a].an))]_vars
\* without -mods: N-ter on the residue with the lowest, C-ter on the residue with the highest residue id (the same residue twice
\* when there is only one), whatever order the residue nodes were inserted in
TerminiLaw == (pc \notin {"load", "begin"} /\ inp.reqs = <<>> /\ Lib # <<>>) =>
                 /\ reqs = PTermini
                 /\ \A i \in DOMAIN reqs : reqs[i].resid = (IF reqs[i].mod = "N-ter" THEN inp.res[1].resid ELSE inp.res[N].resid)

(* ---------------------------------------------------------------- expectations the code does not meet (refuted, reported as notes) *)
HasTrace(i) == \/ \E y \in (Len(inp.base) + 1)..Len(inters) : inters[y].rq = i
ChangedIn(p) == \E a \in AtomsOf(p) : atoms[a] # inp.atoms[a]
Mismatch(i) == HasResid(reqs[i].resid) /\ inp.res[PosOf(reqs[i].resid)].rn # reqs[i].rn
Alone(i) == \A i2 \in DOMAIN reqs : i2 # i => reqs[i2].resid # reqs[i].resid
ExpResnameMatters == pc = "done" => \A i \in DOMAIN reqs : Mismatch(i) => (~HasTrace(i) /\ (Alone(i) => ~ChangedIn(PosOf(reqs[i].resid))))
ExpIdempotent == pc = "done" => \A i1, i2 \in DOMAIN reqs : (i1 < i2 /\ reqs[i1] = reqs[i2]) => ~HasTrace(i2)
ExpAtomicInMemory == pc = "error" => atoms = inp.atoms /\ inters = inp.base
ExpAddsAtoms == pc = "done" => \A i \in DOMAIN reqs : (Eligible(reqs[i]) /\ \E nm \in ModNames(ModOf(reqs[i].mod)) : ~Present([atoms |-> inp.atoms], PosOf(reqs[i].resid), nm))
                                   => Len(atoms) > Len(inp.atoms)
ExpEveryRequestApplied == pc = "done" => \A i \in DOMAIN reqs : (HasMod(reqs[i].mod) /\ HasResid(reqs[i].resid) /\ ModOf(reqs[i].mod).inters # <<>>) => HasTrace(i)
ProtStart(p) == inp.res[p].rn \in Protein /\ (p = 1 \/ inp.res[p - 1].rn \notin Protein)
ExpTerminiPerSegment == (pc = "done" /\ inp.reqs = <<>> /\ HasMod("N-ter")) => \A p \in 1..N : ProtStart(p) => \E i \in DOMAIN reqs : reqs[i].resid = inp.res[p].resid
ExpUnknownModIsError == pc = "done" => \A i \in DOMAIN reqs : HasMod(reqs[i].mod)
\* reachability witnesses (must be refuted: the situations exist in the instance)
\* a behaviour on which no open finding fired is the intended one (the classifier of the known findings is exact)
IntendedUnlessFired == fired = {} => (Conform /\ ErrorLaw /\ TerminiLaw)
Reach_SeesEarlier == ~(pc = "done" /\ \E a \in DOMAIN atoms : atoms[a].an # inp.atoms[a].an /\ atoms[a].ty # inp.atoms[a].ty)
Reach_SilentAnchor == ~(pc = "done" /\ \E i \in DOMAIN reqs : Eligible(reqs[i]) /\ \E nm \in ModNames(ModOf(reqs[i].mod)) : ~Present([atoms |-> inp.atoms], PosOf(reqs[i].resid), nm))
=============================================================================
