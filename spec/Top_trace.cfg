SPECIFICATION TSpec
CONSTANTS
 FsOf <- TFs
 MainOf <- TMain
 Fuel = 8
 DevF3 = FALSE
 DevMolsPerFile = FALSE
 DevDirKeep = FALSE
 DevElseKeep = FALSE
 DevRootFirst = FALSE
 DevEdgesNewOnly = FALSE
INVARIANT Mark
INVARIANT NoStruct
POSTCONDITION Accepted
CHECK_DEADLOCK FALSE
