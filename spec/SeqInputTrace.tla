---------------------------- MODULE SeqInputTrace ----------------------------
(* I->S for C12 / C19: records made from the real code (parsers, from_monomer_seq_linear, gen_seq,          *)
(* complement_dsDNA) on inputs beyond the exhaustive bound are validated against SeqInput.                  *)
(* A trace = [inp, events]. Pure functions give one event "Result" (observed residue graph or rejection),   *)
(* validated by evaluating the P-layer on the logged input; gen_seq gives one event per I-layer action      *)
(* (AddMacro, AddConnect, ModTer, Label, Write, ReadBack) with the graph observed after it, validated       *)
(* action by action, the final graph again by the P-layer (invariant Final).                                *)
EXTENDS SeqInput, SequencesExt, Json, IOUtils
VARIABLES tid, l
Doc == JsonDeserialize(IOEnv.TRACE_FILE)
Traces == Doc.traces
ASSUME TLCSet(1, {}) /\ TLCSet(2, [t \in 1..Len(Traces) |-> 0])
Ev == Traces[tid].events[l]
\* observed graph (arrays) -> residue graph; duplicates in the edge list would be a different graph
ObsG(o) == [n |-> o.n, name |-> o.name, inst |-> o.inst, lab |-> [r \in 1..o.n |-> ToSet(o.lab[r])], edges |-> ToSet(o.edges)]
\* numok: the harness found the residue ids to be exactly 1..n (otherwise there is no residue graph to compare)
ObsOK(o) == /\ o.numok
            /\ Len(o.name) = o.n /\ Len(o.inst) = o.n /\ Len(o.lab) = o.n
            /\ Cardinality(ToSet(o.edges)) = Len(o.edges)
            /\ \A r \in 1..o.n : Cardinality(ToSet(o.lab[r])) = Len(o.lab[r])
            /\ WellFormed(ObsG(o))
TResult == /\ Ev.act = "Result" /\ l' = l + 1
           /\ LET e == Expected(inp) IN
              /\ Ev.rej = e.rej
              /\ Ev.rej \/ (ObsOK(Ev.g) /\ Matches(ObsG(Ev.g), e))
              \* dsDNA: the second strand of the result, completed once more by the code, gives back the first strand
              /\ (inp.fam = "dsdna" /\ ~Ev.rej) => (ObsOK(Ev.back) /\ ObsG(Ev.back) = Strand(inp))
              \* ... and so does completing it in place on the same molecule (third strand = first strand, rest untouched)
              /\ (inp.fam = "dsdna" /\ ~Ev.rej /\ inp.rounds = 2) => (ObsOK(Ev.g2) /\ ObsG(Ev.g2) = ExpRounds(inp, 2))
           /\ UNCHANGED vars
TStep == /\ Ev.act # "Result" /\ l' = l + 1
         /\ Next /\ last' = Ev.act
         /\ ObsOK(Ev.g)
         /\ IF Ev.act = "Write" THEN ReadJson(aux') = ObsG(Ev.g) ELSE g' = ObsG(Ev.g)
         \* the finished graph is the specified graph (P-layer)
         /\ (pc' = "done") => Matches(ObsG(Ev.g), Expected(inp))
TInit == /\ tid \in 1..Len(Traces) /\ l = 1 /\ inp = WithHdrKind(Traces[tid].inp) /\ InitRest
TNext == /\ l <= Len(Traces[tid].events)
         /\ (TResult \/ TStep)
         /\ tid' = tid
TSpec == TInit /\ [][TNext]_<<vars, tid, l>>
\* a stepwise trace is complete only if the builder has finished
Complete == l = Len(Traces[tid].events) + 1 /\ (Traces[tid].events[1].act = "Result" \/ pc = "done")
Mark == Complete => TLCSet(1, TLCGet(1) \cup {tid})
Prog == TLCSet(2, [TLCGet(2) EXCEPT ![tid] = IF @ < l - 1 THEN l - 1 ELSE @])
Accepted == IF TLCGet(1) = 1..Len(Traces) THEN TRUE
            ELSE (PrintT(<<"REJECTED", ToJson(SetToSeq({<<t, TLCGet(2)[t]>> : t \in (1..Len(Traces)) \ TLCGet(1)}))>>) /\ FALSE)
=============================================================================
