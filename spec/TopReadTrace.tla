---------------------------- MODULE TopReadTrace ----------------------------
(* I->S for C08: records (abstract file system, observed projection of Topology.from_gmx_topfile) taken from the   *)
(* real reader on inputs beyond the exhaustive bound (seeded random include trees, the repository's own .top files) *)
(* are validated in one batch.  For every record the I-layer machine is run on the recorded file system; at the end *)
(* the observed projection must equal its result and the P-layer value PRead(fs).                                   *)
(* JSON: {"traces": [{"main": [..path..], "files": [{"path": [..], "lines": [{"k","a","n","p"}..]}..],              *)
(*        "obs": {"abort", "defs": [[name, n]..], "defaults": n, "atypes": [[name, n]..], "nbp": [[key, n]..],      *)
(*                "types": [[key, [n..]]..], "blocks": [[name, n]..], "edged": [[name, bool]..], "molecules": [name..], "medged": [bool..],               *)
(*                "idx": [[name,[i..]]..]}}]}                                                                        *)
EXTENDS TopRead, Json, IOUtils

Doc == JsonDeserialize(IOEnv.TRACE_FILE)
Traces == Doc.traces
NT == Len(Traces)
FsOfRec(t) == LET fl == Traces[t].files IN
              [p \in {fl[i].path : i \in 1..Len(fl)} |-> fl[CHOOSE i \in 1..Len(fl) : fl[i].path = p].lines]
AllFs == [t \in 1..NT |-> FsOfRec(t)]
TFs(t) == AllFs[t]
TMain(t) == Traces[t].main

ASSUME TLCSet(1, {}) /\ TLCSet(2, [t \in 1..NT |-> "unfinished"])
\* the recorded inputs must lie inside the domain of the property (a generator bug is a machinery failure)
ASSUME \A t \in 1..NT : InDomain(AllFs[t], TMain(t)) \/ (PrintT(<<"OUTOFDOMAIN", ToJson(<<t>>)>>) /\ FALSE)

PairsOf(f) == {<<key, f[key]>> : key \in DOMAIN f}
ObsPairs(s) == {<<s[i][1], s[i][2]>> : i \in 1..Len(s)}
MapMatches(s, f) == Len(s) = Cardinality(DOMAIN f) /\ ObsPairs(s) = PairsOf(f)
\* type tables are observable per key (entries of one key in textual order)
TypeKeys(ts) == {ts[i][1] : i \in 1..Len(ts)}
PerKey(ts, key) == LET sel == SelectSeq(ts, LAMBDA e : e[1] = key) IN [i \in 1..Len(sel) |-> sel[i][2]]
TypesMatch(s, ts) == Len(s) = Cardinality(TypeKeys(ts)) /\ ObsPairs(s) = {<<key, PerKey(ts, key)>> : key \in TypeKeys(ts)}

FirstDiff(o, r) ==
  CASE o.abort # r.abort -> "abort"
    [] ~MapMatches(o.defs, r.defs) -> "defines"
    [] o.defaults # r.defaults -> "defaults"
    [] ~MapMatches(o.atypes, r.atypes) -> "atomtypes"
    [] ~MapMatches(o.nbp, r.nbp) -> "nonbond_params"
    [] ~TypesMatch(o.types, r.types) -> "type tables"
    [] ~MapMatches(o.blocks, r.blocks) -> "molecule types"
    [] ~MapMatches(o.edged, r.edged) -> "edges of molecule types"
    [] o.molecules # r.molecules -> "molecule list"
    [] o.medged # r.medged -> "edges of instances"
    [] ~MapMatches(o.idx, r.idx) -> "mol_idx_by_name"
    [] OTHER -> ""

TInit == inp \in 1..NT /\ Init
TSpec == TInit /\ [][Next]_vars

Verdict == IF res # Expected THEN "model: I-layer differs from P-layer"
           ELSE FirstDiff(Traces[inp].obs, res)
Mark == done => LET v == Verdict IN
                IF v = "" THEN TLCSet(1, TLCGet(1) \cup {inp}) /\ TLCSet(2, [TLCGet(2) EXCEPT ![inp] = "ok"])
                ELSE TLCSet(2, [TLCGet(2) EXCEPT ![inp] = v])
Accepted == IF TLCGet(1) = 1..NT THEN TRUE
            ELSE /\ PrintT(<<"REJECTED", ToJson(SetToSeq({<<t, TLCGet(2)[t]>> : t \in (1..NT) \ TLCGet(1)}))>>)
                 /\ \A t \in (1..NT) \ TLCGet(1) : PrintT(<<"EXPECTED", ToJson([tid |-> t, exp |-> PRead(AllFs[t], TMain(t))])>>)
                 /\ FALSE
=============================================================================
