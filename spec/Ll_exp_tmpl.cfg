SPECIFICATION Spec
CONSTANTS
 Configs <- MCBld
 DevUserLast = FALSE
 DevFirstWins = FALSE
 DevBibMerge = FALSE
 DevSplitAll = FALSE
 DevTmplMerge = FALSE
 DevSkipUserUnknown = FALSE
 DevIdReuse = FALSE
INVARIANT TemplatesAccumulate
CHECK_DEADLOCK FALSE
