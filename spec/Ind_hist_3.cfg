SPECIFICATION HSpec
CONSTANTS
 FFs <- FFcat
 Dev <- NoDev
 HInputs <- HIn3
 HLib <- NoLib3
 NInputs <- NIn
 MaxLen = 3
 Fresh <- FreshOf
 RunIn <- RunInMC
 Proc0 <- P0
INVARIANT HistoryIndependent
INVARIANT RepeatStable
INVARIANT ExportHist
INVARIANT ExportInputs
CHECK_DEADLOCK FALSE
