INIT MCInitTiny
NEXT Next
CONSTANTS
 Inputs = {}
 LibOf <- MCLibOf
 Dev <- NoDev
 FreeOrder = TRUE
INVARIANT ExpUnknownModIsError
CHECK_DEADLOCK FALSE
