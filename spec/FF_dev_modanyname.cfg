SPECIFICATION Spec
CONSTANTS
 Inputs <- MCInputs
 Dev <- DevModAnyName
INVARIANT C01_Inv
CHECK_DEADLOCK FALSE
