SPECIFICATION Spec
CONSTANTS
 Fam = "fasta"
 P1 = 4
 P2 = 3
 Dev = {}
INVARIANT Shape
INVARIANT Final
INVARIANT RoundTrip
INVARIANT OrigKept
INVARIANT Laws
PROPERTY Grows
CHECK_DEADLOCK FALSE
