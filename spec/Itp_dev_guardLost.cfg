SPECIFICATION Spec
CONSTANTS
 Mols <- MCMols
 Dev = "guardLost"
 FixedOrder = TRUE
INVARIANT RoundTripI
CHECK_DEADLOCK FALSE
