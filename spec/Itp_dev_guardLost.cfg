INIT MCInit
NEXT Next
CONSTANTS
 Mols = {}
 Dev = "guardLost"
 FixedOrder = TRUE
INVARIANT RoundTripI
CHECK_DEADLOCK FALSE
