SPECIFICATION Spec
CONSTANTS
 Mols <- MolsDev
 Dev = "guardLost"
 FixedOrder = TRUE
INVARIANT RoundTripI
CHECK_DEADLOCK FALSE
