INIT MCInit
NEXT Next
CONSTANTS
 Mols = {}
 Dev = "guardLost"
 FixedOrder = TRUE
INVARIANT RoundTripI
INVARIANT FastAgrees
CHECK_DEADLOCK FALSE
