SPECIFICATION Spec
CONSTANT DevBfs = FALSE
CONSTANT DevSel = "none"
CONSTANT DevImg = "noimage"
INVARIANT ApplyLaw
CHECK_DEADLOCK FALSE
