SPECIFICATION TSpec
CONSTANTS
 Mols = {}
 Dev = "none"
 FixedOrder = TRUE
INVARIANT Mark
INVARIANT Prog
INVARIANT SeenIsLog
POSTCONDITION Accepted
CHECK_DEADLOCK FALSE
