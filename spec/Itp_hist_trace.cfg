SPECIFICATION TSpec
CONSTANTS
 Mols = {}
 Dev = "none"
 FixedOrder = TRUE
INVARIANT Mark
INVARIANT Prog
POSTCONDITION Accepted
CHECK_DEADLOCK FALSE
