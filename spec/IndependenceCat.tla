--------------------------- MODULE IndependenceCat ---------------------------
(* Catalogue for C13 (constant level): small force fields (definitions + their base presentation in files), the base cases  *)
(* (residue graphs up to 4 residues: linear, branched, cyclic; a 2-residue block used twice in a row; two different         *)
(* 2-residue blocks; protein-like termini; mixed exclusion distances; citations), deviation records.                          *)
EXTENDS IndependenceBase

At(an, ty, rn, res) == [an |-> an, ty |-> ty, rn |-> rn, res |-> res]
In(kind, at, par, ver) == [kind |-> kind, at |-> at, par |-> par, ver |-> ver]
LA(oi, an, rn) == [oi |-> oi, an |-> an, rn |-> rn, mk |-> "", ty |-> ""]
LAM(oi, an, rn, mk) == [oi |-> oi, an |-> an, rn |-> rn, mk |-> mk, ty |-> ""]
LAT(oi, an, rn, ty) == [oi |-> oi, an |-> an, rn |-> rn, mk |-> "", ty |-> ty]
D(t, i) == [t |-> t, i |-> i]
\* macros: the parameter macros (`#define name value` lines) the block's polyply .itp file comes with
Blk(name, nrexcl, atoms, inters, cite) == [name |-> name, nrexcl |-> nrexcl, atoms |-> atoms, inters |-> inters, cite |-> cite, macros |-> <<>>]
Lnk(orders, atoms, inters) == [orders |-> orders, atoms |-> atoms, inters |-> inters, rep |-> <<>>, del |-> {}]
File(syn, defs) == [syn |-> syn, defs |-> defs]

(* ---- blocks *)
BlockA(n) == Blk("A", n, <<At("c1", "T1", "A", 1), At("c2", "T2", "A", 1)>>, <<In("bonds", <<1, 2>>, "0.11", 1)>>, {})
BlockB(n) == Blk("B", n, <<At("c1", "T1", "B", 1), At("c2", "T3", "B", 1), At("c3", "T2", "B", 1)>>,
                 <<In("bonds", <<1, 2>>, "0.12", 1), In("bonds", <<2, 3>>, "0.13", 1), In("angles", <<1, 2, 3>>, "0.14", 1)>>, {})
\* a later definition of the same block name (replaces BlockA where it is read later)
BlockA2 == Blk("A", 1, <<At("c1", "T1", "A", 1), At("c2", "T4", "A", 1)>>, <<In("bonds", <<1, 2>>, "0.19", 1)>>, {})
\* two-residue blocks (polyply .itp, used through from_itp)
BlockM == Blk("M", 1, <<At("x1", "T1", "X", 1), At("x2", "T2", "X", 1), At("y1", "T3", "Y", 2)>>,
              <<In("bonds", <<1, 2>>, "0.31", 1), In("bonds", <<2, 3>>, "0.32", 1)>>, {})
BlockN == Blk("N", 1, <<At("d1", "T1", "D", 1), At("e1", "T2", "E", 2)>>, <<In("bonds", <<1, 2>>, "0.33", 1)>>, {})
BlockALA == Blk("ALA", 1, <<At("BB", "P4", "ALA", 1), At("SC1", "C3", "ALA", 1)>>, <<In("bonds", <<1, 2>>, "0.27", 1)>>, {})
BlockGLY == Blk("GLY", 1, <<At("BB", "P5", "GLY", 1)>>, <<>>, {})

(* ---- links *)
AB == {"A", "B"}
LBond(rn1, a1, rn2, a2, par, ver) == Lnk(<<0, 1>>, <<LA(1, a1, rn1), LA(2, a2, rn2)>>, <<In("bonds", <<1, 2>>, par, ver)>>)
K1 == LBond(AB, "c2", AB, "c1", "0.21", 1)                      \* bond between consecutive residues
K2 == LBond({"A"}, "c2", {"A"}, "c1", "0.22", 1)                \* the same bond for A-A: defined later, it wins
K3 == LBond(AB, "c2", AB, "c1", "0.23", 2)                      \* the same atoms, version 2: kept next to version 1
K4 == Lnk(<<0, 1>>, <<LA(1, "c1", AB), LA(1, "c2", AB), LA(2, "c1", AB)>>, <<In("angles", <<1, 2, 3>>, "0.24", 1)>>)
K5 == Lnk(<<0, 1, 2>>, <<LA(1, "c2", AB), LA(2, "c2", AB), LA(3, "c2", AB)>>, <<In("angles", <<1, 2, 3>>, "0.25", 1)>>)
K6 == [Lnk(<<0>>, <<LA(1, "c1", {"B"})>>, <<>>) EXCEPT !.rep = <<[a |-> 1, ty |-> "TX"]>>]           \* retype c1 of every B
K7 == [Lnk(<<0, 1>>, <<LA(1, "c2", {"B"}), LA(1, "c3", {"B"}), LA(2, "c1", AB)>>, <<In("bonds", <<1, 3>>, "0.26", 1)>>) EXCEPT !.del = {2}]   \* B followed by a residue loses c3
KXY == LBond({"Y"}, "y1", {"X"}, "x1", "0.34", 1)               \* copy of M to the next copy of M
KYA == LBond({"Y"}, "y1", {"A"}, "c1", "0.35", 1)
KAX == LBond({"A"}, "c2", {"X"}, "x1", "0.36", 1)
KYD == LBond({"Y"}, "y1", {"D"}, "d1", "0.37", 1)
KEA == LBond({"E"}, "e1", {"A"}, "c1", "0.38", 1)
KPP == LBond({"ALA", "GLY"}, "BB", {"ALA", "GLY"}, "BB", "0.35", 1)

\* branched / cross-linked polymers: side chain of one residue to the backbone of ANY bonded residue of the same name (`*` order, asymmetric)
BlockS(ty) == Blk("S", 1, <<At("BB", ty, "S", 1), At("SC1", "C1", "S", 1)>>, <<In("bonds", <<1, 2>>, "0.41", 1)>>, {})
KSB == LBond({"S"}, "BB", {"S"}, "BB", "0.42", 1)
KSX == Lnk(<<0, 101>>, <<LA(1, "SC1", {"S"}), LA(2, "BB", {"S"})>>, <<In("bonds", <<1, 2>>, "0.43", 1)>>)
\* two "libraries" that define the same block name: X (bond + angle over three residues) and Y (bond only)
KXB == LBond({"S"}, "BB", {"S"}, "BB", "0.51", 1)
KXA == Lnk(<<0, 1, 2>>, <<LA(1, "BB", {"S"}), LA(2, "BB", {"S"}), LA(3, "BB", {"S"})>>, <<In("angles", <<1, 2, 3>>, "0.52", 1)>>)
KYB == LBond({"S"}, "BB", {"S"}, "BB", "0.53", 1)

\* a link that selects an atom by a residue-level attribute of the sequence file: an angle only where the first residue carries mark "x"
BlockP == Blk("P", 1, <<At("A", "C1", "P", 1), At("B", "C2", "P", 1)>>, <<In("bonds", <<1, 2>>, "0.61", 1)>>, {})
KPB == LBond({"P"}, "B", {"P"}, "A", "0.62", 1)
KPM == Lnk(<<0, 1>>, <<LAM(1, "A", {"P"}, "x"), LA(1, "B", {"P"}), LA(2, "A", {"P"})>>, <<In("angles", <<1, 2, 3>>, "0.63", 1)>>)

\* a link that replaces the type of an atom and a link (a different interaction) that selects the same atom by its ORIGINAL type
BlockQ == Blk("Q", 1, <<At("C1", "P1", "Q", 1), At("C2", "P2", "Q", 1)>>, <<In("bonds", <<1, 2>>, "0.71", 1)>>, {})
KQB == [LBond({"Q"}, "C2", {"Q"}, "C1", "0.72", 1) EXCEPT !.rep = <<[a |-> 2, ty |-> "P1b"]>>]
KQA == Lnk(<<0, 1>>, <<LA(1, "C1", {"Q"}), LA(1, "C2", {"Q"}), LAT(2, "C1", {"Q"}, "P1")>>, <<In("angles", <<1, 2, 3>>, "0.73", 1)>>)

\* GROMOS-style polyply .itp input: RA's file defines the parameter macro gb_2 (and does not use it); RB's file names the bonded TYPE gb_2 as the
\* parameter of its bond without defining it (grompp resolves it from the force-field files): the token is handed through
BlockRA == [Blk("RA", 1, <<At("c1", "T1", "RA", 1), At("c2", "T2", "RA", 1)>>, <<In("bonds", <<1, 2>>, "0.81", 1)>>, {}) EXCEPT !.macros = <<[name |-> "gb_2", val |-> "0.1230"]>>]
BlockRB == Blk("RB", 1, <<At("c1", "T1", "RB", 1), At("c2", "T3", "RB", 1)>>, <<In("bonds", <<1, 2>>, "gb_2", 1)>>, {})
RAB == {"RA", "RB"}
KRR == LBond(RAB, "c2", RAB, "c1", "0.82", 1)

\* links with `>` / `<` orders that share a residue pattern but whose atom keys sort differently: an order-0 atom whose name starts with a digit
\* (digits sort before `<` `>`, letters after them)
BlockR3 == Blk("R", 1, <<At("A", "C1", "R", 1), At("B", "C2", "R", 1), At("1H", "H1", "R", 1)>>, <<In("bonds", <<1, 2>>, "0.91", 1), In("bonds", <<1, 3>>, "0.92", 1)>>, {})
KGB == Lnk(<<0, 201>>, <<LA(1, "B", {"R"}), LA(2, "A", {"R"})>>, <<In("bonds", <<1, 2>>, "0.93", 1)>>)                          \* B >A
KGA == Lnk(<<0, 201>>, <<LA(1, "1H", {"R"}), LA(1, "B", {"R"}), LA(2, "A", {"R"})>>, <<In("angles", <<1, 2, 3>>, "0.94", 1)>>)   \* 1H B >A
KLB == Lnk(<<0, 301>>, <<LA(1, "A", {"R"}), LA(2, "1H", {"R"})>>, <<In("bonds", <<1, 2>>, "0.95", 1)>>)                         \* A <1H
KLA == Lnk(<<0, 301>>, <<LA(1, "1H", {"R"}), LA(1, "A", {"R"}), LA(2, "B", {"R"})>>, <<In("angles", <<1, 2, 3>>, "0.96", 1)>>)   \* 1H A <B

(* ---- modifications *)
ModN == [name |-> "N-ter", atoms |-> <<[an |-> "BB", rep |-> TRUE, ty |-> "Qd"], [an |-> "SC1", rep |-> FALSE, ty |-> ""]>>,
         inters |-> <<[kind |-> "bonds", a |-> "BB", b |-> "SC1", par |-> "0.91"]>>]
ModC == [name |-> "C-ter", atoms |-> <<[an |-> "BB", rep |-> TRUE, ty |-> "Qa"]>>, inters |-> <<>>]

MkFF(blocks, links, mods, bib, files) == [blocks |-> blocks, links |-> links, mods |-> mods, bib |-> bib, files |-> files]
FFcat == <<
  \* 1: chain / branched / cyclic graphs: conflicting pair K1,K2, second version K3, two- and three-residue angles
  MkFF(<<BlockA(1), BlockB(1)>>, <<K1, K2, K3, K4, K5>>, <<>>, {},
       <<File("ff", <<D("b", 1), D("b", 2)>>), File("ff", <<D("l", 1), D("l", 2), D("l", 3)>>), File("ff", <<D("l", 4), D("l", 5)>>)>>),
  \* 2: mixed exclusion distances (A 1, B 3) with B in a polyply .itp, retyping and atom-removing links
  MkFF(<<BlockA(1), BlockB(3)>>, <<K1, K6, K7>>, <<>>, {},
       <<File("ff", <<D("b", 1), D("l", 1)>>), File("itp", <<D("b", 2)>>), File("ff", <<D("l", 2), D("l", 3)>>)>>),
  \* 3: multi-residue blocks M, N (from_itp) and the single-residue block A
  MkFF(<<BlockM, BlockN, BlockA(1)>>, <<KXY, KYA, KAX, KYD, KEA>>, <<>>, {},
       <<File("itp", <<D("b", 1)>>), File("itp", <<D("b", 2)>>), File("ff", <<D("b", 3), D("l", 1), D("l", 2), D("l", 3)>>), File("ff", <<D("l", 4), D("l", 5)>>)>>),
  \* 4: protein-like residues with terminal modifications
  MkFF(<<BlockALA, BlockGLY>>, <<KPP>>, <<ModN, ModC>>, {},
       <<File("ff", <<D("b", 1), D("b", 2), D("l", 1)>>), File("ff", <<D("m", 1), D("m", 2)>>)>>),
  \* 5: versions in a .ff file next to a polyply .itp file, a block name defined twice
  MkFF(<<BlockA(1), BlockB(1), BlockA2>>, <<K1, K3>>, <<>>, {},
       <<File("ff", <<D("b", 1), D("l", 1), D("l", 2)>>), File("itp", <<D("b", 2)>>), File("ff", <<D("b", 3)>>)>>),
  \* 6: citations and mixed exclusion distances (history inputs)
  MkFF(<<[BlockA(1) EXCEPT !.cite = {"ka"}], [BlockB(3) EXCEPT !.cite = {"kb"}]>>, <<K1>>, <<>>, {"ka", "kb"},
       <<File("itp", <<D("b", 1)>>), File("itp", <<D("b", 2)>>), File("ff", <<D("l", 1)>>)>>),
  \* 7: `*`-order asymmetric link between residues of equal name (both orientations apply)
  MkFF(<<BlockS("P1")>>, <<KSB, KSX>>, <<>>, {},
       <<File("ff", <<D("b", 1), D("l", 1)>>), File("ff", <<D("l", 2)>>)>>),
  \* 8: two libraries with the same block name; file 1 = library X, file 2 = library Y (history inputs use one of them through lib=[...])
  MkFF(<<BlockS("P1"), BlockS("P2")>>, <<KXB, KXA, KYB>>, <<>>, {},
       <<File("ff", <<D("b", 1), D("l", 1), D("l", 2)>>), File("ff", <<D("b", 2), D("l", 3)>>)>>),
  \* 9: link atom selected by a residue-level attribute that only some of the same-named residues carry
  MkFF(<<BlockP>>, <<KPB, KPM>>, <<>>, {}, <<File("ff", <<D("b", 1), D("l", 1), D("l", 2)>>)>>),
  \* 10, 11: replace-link and type-selecting link on the same atom, in one file / in two files (both definition orders are presentations)
  MkFF(<<BlockQ>>, <<KQB, KQA>>, <<>>, {}, <<File("ff", <<D("b", 1), D("l", 1), D("l", 2)>>)>>),
  MkFF(<<BlockQ>>, <<KQB, KQA>>, <<>>, {}, <<File("ff", <<D("b", 1), D("l", 1)>>), File("ff", <<D("l", 2)>>)>>),
  \* 12: two polyply .itp files, one defines a parameter macro, the other uses the same token as a bonded type name (file orders; history inputs use subsets)
  MkFF(<<BlockRA, BlockRB>>, <<KRR>>, <<>>, {}, <<File("itp", <<D("b", 1)>>), File("itp", <<D("b", 2)>>), File("ff", <<D("l", 1)>>)>>),
  \* 13, 14: links sharing a residue pattern (`>` / `<` orders) whose residue graphs are numbered differently, in three files / in one file
  MkFF(<<BlockR3>>, <<KGB, KGA>>, <<>>, {}, <<File("ff", <<D("b", 1)>>), File("ff", <<D("l", 1)>>), File("ff", <<D("l", 2)>>)>>),
  MkFF(<<BlockR3>>, <<KGB, KGA, KLB, KLA>>, <<>>, {}, <<File("ff", <<D("b", 1), D("l", 1), D("l", 2), D("l", 3), D("l", 4)>>)>>)
>>

(* ---- residue graphs *)
Chain(n) == {{i, i + 1} : i \in 1..(n - 1)}
Star4 == {{1, 2}, {2, 3}, {2, 4}}
Tri == {{1, 2}, {2, 3}, {1, 3}}
Ring4 == {{1, 2}, {2, 3}, {3, 4}, {1, 4}}
Kite == {{1, 2}, {2, 3}, {1, 3}, {3, 4}}
NoFi(n) == [i \in 1..n |-> ""]
Case(id, ff, start, rn, fi, E, mods) == [id |-> id, ff |-> ff, n |-> Len(rn), start |-> start, rn |-> rn, fi |-> fi, E |-> E, mods |-> mods, mark |-> [i \in 1..Len(rn) |-> ""]]
CaseM(id, ff, start, rn, E, mark) == [Case(id, ff, start, rn, NoFi(Len(rn)), E, <<>>) EXCEPT !.mark = mark]
MX == <<"X", "Y">>
CaseSeq == <<
  Case(1, 1, 1, <<"A", "A">>, NoFi(2), Chain(2), <<>>),
  Case(2, 1, 5, <<"A", "B", "A">>, NoFi(3), Chain(3), <<>>),
  Case(3, 1, 1, <<"A", "A", "B", "A">>, NoFi(4), Chain(4), <<>>),
  Case(4, 1, 1, <<"B", "A", "A", "B">>, NoFi(4), Star4, <<>>),
  Case(5, 1, 1, <<"A", "B", "A">>, NoFi(3), Tri, <<>>),
  Case(6, 1, 3, <<"A", "A", "B", "A">>, NoFi(4), Ring4, <<>>),
  Case(7, 1, 1, <<"A", "B", "A", "A">>, NoFi(4), Kite, <<>>),
  Case(8, 2, 1, <<"A", "B">>, NoFi(2), Chain(2), <<>>),
  Case(9, 2, 1, <<"B", "A", "B">>, NoFi(3), Chain(3), <<>>),
  Case(10, 2, 2, <<"A", "B", "B", "A">>, NoFi(4), Star4, <<>>),
  Case(11, 2, 1, <<"B", "B", "A">>, NoFi(3), Tri, <<>>),
  Case(12, 3, 1, <<"X", "Y">>, <<"M", "M">>, Chain(2), <<>>),
  Case(13, 3, 1, <<"X", "Y", "X", "Y">>, <<"M", "M", "M", "M">>, Chain(4), <<>>),
  Case(14, 3, 1, <<"X", "Y", "A">>, <<"M", "M", "">>, Chain(3), <<>>),
  Case(15, 3, 1, <<"A", "X", "Y", "A">>, <<"", "M", "M", "">>, Chain(4), <<>>),
  Case(16, 3, 1, <<"X", "Y", "D", "E">>, <<"M", "M", "N", "N">>, Chain(4), <<>>),
  Case(17, 3, 1, <<"X", "Y", "A">>, <<"M", "M", "">>, Tri, <<>>),
  Case(18, 3, 1, <<"X", "Y", "X", "Y">>, <<"M", "M", "M", "M">>, Ring4, <<>>),
  Case(19, 3, 1, <<"X", "Y", "A", "A">>, <<"M", "M", "", "">>, Ring4, <<>>),
  Case(20, 4, 1, <<"ALA", "GLY", "ALA">>, NoFi(3), Chain(3), <<>>),
  Case(21, 4, 5, <<"ALA", "GLY", "GLY", "ALA">>, NoFi(4), Chain(4), <<>>),
  Case(22, 4, 1, <<"ALA", "ALA">>, NoFi(2), Chain(2), <<[resid |-> 2, mod |-> "N-ter"]>>),
  Case(23, 4, 2, <<"ALA", "GLY", "ALA">>, NoFi(3), Chain(3), <<[resid |-> 4, mod |-> "N-ter"], [resid |-> 2, mod |-> "C-ter"]>>),
  Case(24, 5, 1, <<"A", "A", "B">>, NoFi(3), Chain(3), <<>>),
  Case(25, 5, 1, <<"A", "B", "A", "A">>, NoFi(4), Star4, <<>>),
  Case(26, 6, 1, <<"A", "B", "B">>, NoFi(3), Chain(3), <<>>),
  Case(27, 6, 1, <<"B", "B">>, NoFi(2), Chain(2), <<>>),
  Case(28, 1, 1, <<"A", "B", "B", "A">>, NoFi(4), Chain(4) \cup {{1, 3}, {2, 4}}, <<>>),
  Case(30, 7, 1, <<"S", "S", "S">>, NoFi(3), Chain(3), <<>>),
  Case(31, 7, 1, <<"S", "S", "S", "S">>, NoFi(4), Star4, <<>>),
  Case(32, 7, 2, <<"S", "S", "S", "S">>, NoFi(4), Ring4, <<>>),
  Case(33, 8, 1, <<"S", "S", "S">>, NoFi(3), Chain(3), <<>>),
  CaseM(34, 9, 1, <<"P", "P", "P", "P">>, Chain(4), <<"", "", "x", "">>),
  CaseM(35, 9, 1, <<"P", "P", "P", "P">>, Star4, <<"x", "", "", "y">>),
  CaseM(36, 9, 3, <<"P", "P", "P">>, Tri, <<"", "x", "x">>),
  Case(37, 10, 1, <<"Q", "Q", "Q", "Q">>, NoFi(4), Chain(4), <<>>),
  Case(38, 11, 2, <<"Q", "Q", "Q">>, NoFi(3), Chain(3), <<>>),
  Case(39, 11, 1, <<"Q", "Q", "Q", "Q">>, NoFi(4), Star4, <<>>),
  Case(40, 12, 1, <<"RA", "RA", "RB", "RB">>, NoFi(4), Chain(4), <<>>),
  Case(41, 12, 1, <<"RB", "RB", "RB">>, NoFi(3), Chain(3), <<>>),
  Case(42, 12, 1, <<"RA", "RA">>, NoFi(2), Chain(2), <<>>),
  Case(43, 13, 1, <<"R", "R", "R">>, NoFi(3), Chain(3), <<>>),
  Case(44, 14, 2, <<"R", "R", "R", "R">>, NoFi(4), Star4, <<>>),
  Case(45, 14, 1, <<"R", "R", "R">>, NoFi(3), Chain(3), <<>>)
>>
AllCases == ToSet(CaseSeq)
CasesById(S) == {c \in AllCases : c.id \in S}
\* the quick instance of the confluence check (thorough: AllCases)
CasesQuick == CasesById({1, 2, 5, 8, 9, 11, 12, 13, 14, 16, 17, 20, 22, 23, 24, 26, 27, 30, 31, 33, 34, 36, 38, 40, 43, 45})
\* small sub-instances for the sensitivity runs
CasesSlice == CasesById({13})
CasesFrag == CasesById({16})
CasesTri == CasesById({17})
CasesProt == CasesById({20, 21})
CasesLink == CasesById({3})
CasesOrient == CasesById({1})
CasesFiles == CasesById({24})
CasesAdd == CasesById({8, 14})
CasesStar == CasesById({31})
CasesMark == CasesById({34})
CasesRepl == CasesById({38})
CasesDef == CasesById({40})
CasesPat == CasesById({43})

NoDev == [sliceAny |-> FALSE, key0 |-> FALSE, addAny |-> FALSE, firstMatchOnly |-> FALSE, orientLink |-> FALSE,
          dfsTreeFrag |-> FALSE, fragIdOrder |-> FALSE, itpGlobal |-> FALSE, cacheFF |-> FALSE, writerAppend |-> FALSE, flushLate |-> FALSE, canonMatch |-> FALSE, baseOnly |-> FALSE, oncePerGroup |-> FALSE, inpathLeak |-> FALSE, nameCache |-> FALSE, readerCache |-> FALSE, replaceVisible |-> FALSE, patternCache |-> FALSE, defineLeak |-> FALSE]
DevSliceAny == [NoDev EXCEPT !.sliceAny = TRUE, !.baseOnly = TRUE]
DevKey0 == [NoDev EXCEPT !.key0 = TRUE, !.baseOnly = TRUE]
DevAddAny == [NoDev EXCEPT !.addAny = TRUE, !.baseOnly = TRUE]
DevFirstMatchOnly == [NoDev EXCEPT !.firstMatchOnly = TRUE, !.baseOnly = TRUE]
DevOrientLink == [NoDev EXCEPT !.orientLink = TRUE, !.baseOnly = TRUE]
DevDfsTreeFrag == [NoDev EXCEPT !.dfsTreeFrag = TRUE, !.baseOnly = TRUE]
DevFragIdOrder == [NoDev EXCEPT !.fragIdOrder = TRUE, !.baseOnly = TRUE]
DevItpGlobal == [NoDev EXCEPT !.itpGlobal = TRUE]
DevOncePerGroup == [NoDev EXCEPT !.oncePerGroup = TRUE, !.baseOnly = TRUE]
DevInpathLeak == [NoDev EXCEPT !.inpathLeak = TRUE]
DevNameCache == [NoDev EXCEPT !.nameCache = TRUE, !.baseOnly = TRUE]
DevReaderCache == [NoDev EXCEPT !.readerCache = TRUE]
DevReplaceVisible == [NoDev EXCEPT !.replaceVisible = TRUE]
DevPatternCache == [NoDev EXCEPT !.patternCache = TRUE]
DevDefineLeak == [NoDev EXCEPT !.defineLeak = TRUE]
DevCacheFF == [NoDev EXCEPT !.cacheFF = TRUE]
DevWriterAppend == [NoDev EXCEPT !.writerAppend = TRUE]
DevFlushLate == [NoDev EXCEPT !.flushLate = TRUE]
\* the three findings of C13 (F31, F32, F33: repaired) switched on together - what /repo did before the repairs
DevKnown == [NoDev EXCEPT !.dfsTreeFrag = TRUE, !.fragIdOrder = TRUE, !.itpGlobal = TRUE]
DevKnownCanon == [DevKnown EXCEPT !.canonMatch = TRUE]
=============================================================================
