---------------------------- MODULE Select ----------------------------
(***************************************************************************)
(* C18 - build options select exactly the molecules and residues they name *)
(* (polyply/src/build_file_parser.py, annotate_ligands.py, gen_coords.py,   *)
(*  meta_molecule.py).                                                      *)
(*                                                                         *)
(* A *case* is one abstract input of gen_coords: the expanded [ molecules ] *)
(* list, the residues/atoms of every molecule type, the -split strings, the *)
(* lines of a build file, the -start and -lig specifications as records     *)
(* with optional fields, and the set of residue names with a user volume.   *)
(*                                                                         *)
(* P-layer: what the user relies on, written from the case alone:           *)
(*   SelMols / SelRes (half-open ranges, name AND index), SpecMols/SpecRes  *)
(*   (a field that is written must match, an omitted field matches all),    *)
(*   PBlocks (the partition a split string denotes), LigValid (one ligand   *)
(*   molecule per host residue, all its named residues attached once),      *)
(*   Handed (positions returned to the ligand's own molecule).              *)
(* I-layer: one named action per step of the code, in the order of          *)
(*   gen_coords: SplitMolecule(m), ParseLine(i), Finalize, FindStart(i),    *)
(*   AnnotateSpec(i), Connect(m), Engine, SamplePers, SetRestraints, Build, *)
(*   SplitLigands, Backmap.  dev is the set of deviation flags that are switched on: *)
(*   with dev = {} the I-layer is the intended design and TLC proves        *)
(*   I |= P; with one flag on TLC must refute it.                           *)
(***************************************************************************)
EXTENDS Integers, Sequences, FiniteSets, TLC, SequencesExt

CONSTANTS DevChoices   \* set of flag sets; Init picks one (the instance family is given by the Init of MC_Select / SelTrace)

VARIABLES case, dev, steps, st, pc     \* steps = Steps(case), kept in the state so that it is computed once
vars == <<case, dev, steps, st, pc>>

(* ------------------------------------------------------------------ *)
(* abstract input                                                      *)
(* ------------------------------------------------------------------ *)
NM(c) == Len(c.mols)
MIdx(c) == 0..(NM(c) - 1)                         \* molecule indices are 0-based as on the command line
NameOf(c, m) == c.mols[m + 1]
TypeOf(c, m) == c.types[NameOf(c, m)]
IdxByName(c, name) == {m \in MIdx(c) : NameOf(c, m) = name}
MinOf(S) == CHOOSE x \in S : \A y \in S : x <= y
MaxOf(S) == CHOOSE x \in S : \A y \in S : x >= y
Asc(S) == SetToSortSeq(S, <)
Iota(n) == [i \in 1..n |-> i]

\* atoms of a molecule type in file order; atom number = position; res = index of its residue in the type
RECURSIVE AtomsFrom(_, _)
AtomsFrom(T, k) == IF k > Len(T) THEN <<>>
                   ELSE [j \in 1..Len(T[k].atoms) |-> [an |-> T[k].atoms[j], rn |-> T[k].rn, id |-> T[k].id, res |-> k]]
                        \o AtomsFrom(T, k + 1)
Atoms(T) == AtomsFrom(T, 1)

(* ------------------------------------------------------------------ *)
(* P-layer                                                             *)
(* ------------------------------------------------------------------ *)

(* -split: every atom of a residue named in a split string moves to the new residue that lists its name; *)
(* atoms that no part lists stay where they were.                                                        *)
SplitParts(S, rn) == UNION { {S[i].parts[p] : p \in 1..Len(S[i].parts)} : i \in {j \in 1..Len(S) : S[j].rn = rn} }
NewName(S, a) == LET ps == {p \in SplitParts(S, a.rn) : a.an \in ToSet(p.atoms)}
                 IN IF ps = {} THEN a.rn ELSE (CHOOSE p \in ps : TRUE).nn
PBlocks(c, m) ==
  LET A == Atoms(TypeOf(c, m))
      ofres(k) == {g \in 1..Len(A) : A[g].res = k}
  IN UNION { { [rn |-> x, atoms |-> {g \in ofres(k) : NewName(c.split, A[g]) = x}] : x \in {NewName(c.split, A[g]) : g \in ofres(k)} }
             : k \in 1..Len(TypeOf(c, m)) }
\* the residues of molecule m as later options see them: without -split as in the topology; with -split in the
\* order of their first atom and renumbered from 0 (pinned by the repository's test_split_residue)
PNodes(c, m) ==
  LET T == TypeOf(c, m) A == Atoms(T) IN
  IF c.split = <<>> THEN [k \in 1..Len(T) |-> [rn |-> T[k].rn, id |-> T[k].id, atoms |-> {g \in 1..Len(A) : A[g].res = k}]]
  ELSE LET bs == SetToSortSeq(PBlocks(c, m), LAMBDA x, y : MinOf(x.atoms) < MinOf(y.atoms))
       IN [k \in 1..Len(bs) |-> [rn |-> bs[k].rn, id |-> k - 1, atoms |-> bs[k].atoms]]
NoLossNoDup(c, m, nodes) ==            \* nodes: Seq of records with a set-valued field atoms
  LET N == Len(Atoms(TypeOf(c, m))) IN
  /\ UNION {nodes[k].atoms : k \in 1..Len(nodes)} = 1..N
  /\ \A k, l \in 1..Len(nodes) : k # l => nodes[k].atoms \cap nodes[l].atoms = {}

(* build file: a [ molecule ] line selects by name AND half-open index range; a residue line by name AND half-open id range *)
SelMols(c, name, lo, hi) == {m \in MIdx(c) : NameOf(c, m) = name /\ lo <= m /\ m < hi}
SelRes(nodes, rn, lo, hi) == {n \in 1..Len(nodes) : nodes[n].rn = rn /\ lo <= nodes[n].id /\ nodes[n].id < hi}
MolLine(c, i) == MaxOf({j \in 1..(i - 1) : c.bld[j].k = "mol"})       \* the block a line belongs to
LinesOf(c, K) == {i \in 1..Len(c.bld) : c.bld[i].k \in K}
BlockSel(c, i) == LET b == c.bld[MolLine(c, i)] IN SelMols(c, b.name, b.lo, b.hi)
PN(c) == [i \in 1..NM(c) |-> PNodes(c, i - 1)]         \* pn = PN(c) is handed down so that it is evaluated once
PTags(c, pn, K, m, n) == { c.bld[i].tag : i \in {j \in LinesOf(c, K) : m \in BlockSel(c, j)
                                                  /\ n \in SelRes(pn[m + 1], c.bld[j].name, c.bld[j].lo, c.bld[j].hi)} }
PMolTags(c, m) == { c.bld[i].tag : i \in {j \in LinesOf(c, {"dist", "pers"}) : m \in BlockSel(c, j)} }

(* residue specifications <mol_name>#<mol_idx>-<resname>#<resid>: written fields must match *)
SpecMols(c, s) == {m \in MIdx(c) : (s.hasMol => NameOf(c, m) = s.mol) /\ (s.hasIdx => m = s.idx)}
SpecRes(nodes, s) == {n \in 1..Len(nodes) : (s.hasRn => nodes[n].rn = s.rn) /\ (s.hasId => nodes[n].id = s.id)}
Contradictory(c, s) == s.hasMol /\ s.hasIdx /\ SpecMols(c, s) = {}
\* residues a molecule may be started from ({} = the option says nothing about m)
PStart(c, pn, m) == UNION { SpecRes(pn[m + 1], c.start[i]) : i \in {j \in 1..Len(c.start) : m \in SpecMols(c, c.start[j])} }
StartOK(c, startOf) == LET pn == PN(c) IN
                       /\ Len(startOf) = NM(c)
                       /\ \A m \in MIdx(c) : IF PStart(c, pn, m) = {} THEN startOf[m + 1] = 0 ELSE startOf[m + 1] \in PStart(c, pn, m)

(* -lig host:ligand *)
PHostsN(c, pn, i) == UNION { {<<m, n>> : n \in SpecRes(pn[m + 1], c.lig[i].h)} : m \in SpecMols(c, c.lig[i].h) }
PHosts(c, i) == PHostsN(c, PN(c), i)
PLigM(c, i) == IF c.lig[i].l.hasMol \/ c.lig[i].l.hasIdx THEN SpecMols(c, c.lig[i].l) ELSE {}
\* a -lig option that cannot be honoured (more host residues than ligand molecules) has to be rejected
LigInfeasible(c) == \E i \in 1..Len(c.lig) : Cardinality(PHosts(c, i)) > Cardinality(PLigM(c, i))
\* added: per molecule the sequence of ligated nodes [host, lm, ln, ...]
RECURSIVE TotLen(_, _)
TotLen(ss, k) == IF k = 0 THEN 0 ELSE Len(ss[k]) + TotLen(ss, k - 1)
LigValid(c, added) ==
  LET pn == PN(c)
      X == UNION { {[m |-> m, x |-> added[m + 1][j]] : j \in 1..Len(added[m + 1])} : m \in MIdx(c) }
      at(m, n, lm) == {e \in X : e.m = m /\ e.x.host = n /\ e.x.lm = lm}
  IN /\ Len(added) = NM(c)
     /\ \A e \in X : \E i \in 1..Len(c.lig) : /\ <<e.m, e.x.host>> \in PHostsN(c, pn, i)
                                              /\ e.x.lm \in PLigM(c, i)
                                              /\ e.x.ln \in SpecRes(pn[e.x.lm + 1], c.lig[i].l)
                                              /\ e.x.rn = pn[e.x.lm + 1][e.x.ln].rn
     \* every host residue of a specification gets exactly one of its ligand molecules, completely, once
     /\ \A i \in 1..Len(c.lig) : \A h \in PHostsN(c, pn, i) :
          LET ls == {e.x.lm : e \in {f \in X : f.m = h[1] /\ f.x.host = h[2] /\ f.x.lm \in PLigM(c, i)}} IN
            /\ Cardinality(ls) = 1
            /\ \A lm \in ls : LET want == SpecRes(pn[lm + 1], c.lig[i].l) IN
                 /\ {e.x.ln : e \in at(h[1], h[2], lm)} = want
                 /\ Cardinality(at(h[1], h[2], lm)) = Cardinality(want)
     \* no ligand molecule is shared between two host residues
     /\ \A e, f \in X : e.x.lm = f.x.lm => (e.m = f.m /\ e.x.host = f.x.host)
     \* the sequences hold no duplicates
     /\ Cardinality(X) = TotLen(added, NM(c))
\* the ligated node carries what the build needs: a position can be generated for it
Buildable(c, x) == x.tmpl \/ x.rn \in ToSet(c.vols)

(* ---- domain of the property (DESIGN 4.18 "Domain"; notes/design_updates/C18.md): inputs outside are not judged ---- *)
Distinct(sq) == Len(sq) = Cardinality(ToSet(sq))
SplitInDomain(c) ==
  /\ Distinct([i \in 1..Len(c.split) |-> c.split[i].rn])                        \* one split string per residue name
  /\ \A i \in 1..Len(c.split) : /\ Distinct([p \in 1..Len(c.split[i].parts) |-> c.split[i].parts[p].nn])   \* distinct new names
                                /\ Distinct(FlattenSeq([p \in 1..Len(c.split[i].parts) |-> c.split[i].parts[p].atoms]))
                                /\ \A p \in 1..Len(c.split[i].parts) : c.split[i].parts[p].atoms # <<>>
BldInDomain(c) ==
  LET pn == PN(c) IN
  /\ \A i \in 1..Len(c.bld) : c.bld[i].k # "mol" => \E j \in 1..(i - 1) : c.bld[j].k = "mol"
  \* at most one random-walk restriction per residue (the walk can honour only one)
  /\ \A m \in MIdx(c) : \A n \in 1..Len(pn[m + 1]) : Cardinality(PTags(c, pn, {"rw"}, m, n)) <= 1
  /\ \A i \in LinesOf(c, {"geom", "rw"}) : \A j \in LinesOf(c, {"geom", "rw"}) : (i # j /\ c.bld[i].k = c.bld[j].k) => c.bld[i].tag # c.bld[j].tag
  \* node keys of molecule-level restraints exist in every molecule (node-level validity belongs to C07)
  /\ \A i \in LinesOf(c, {"dist", "pers"}) : /\ c.bld[i].lo # c.bld[i].hi
                                             /\ \A m \in MIdx(c) : c.bld[i].lo < Len(pn[m + 1]) /\ c.bld[i].hi < Len(pn[m + 1])
  /\ Distinct([q \in 1..Cardinality(LinesOf(c, {"dist", "pers"})) |-> c.bld[Asc(LinesOf(c, {"dist", "pers"}))[q]].tag])
  \* at most one distance restraint per node pair of a molecule (two would contradict each other)
  /\ \A i, j \in LinesOf(c, {"dist"}) : (i # j /\ c.bld[i].lo = c.bld[j].lo /\ c.bld[i].hi = c.bld[j].hi) => BlockSel(c, i) \cap BlockSel(c, j) = {}
StartSpecsInDomain(c) ==
  LET pn == PN(c) IN
  /\ \A i \in 1..Len(c.start) : /\ (c.start[i].hasIdx => c.start[i].idx < NM(c))
                                /\ \A m \in SpecMols(c, c.start[i]) : SpecRes(pn[m + 1], c.start[i]) # {}
                                \* a contradictory name#index: the code looks at the indexed molecule; keep it able to answer
                                /\ (Contradictory(c, c.start[i]) => SpecRes(pn[c.start[i].idx + 1], c.start[i]) # {})
  /\ \A i, j \in 1..Len(c.start) : i # j => SpecMols(c, c.start[i]) \cap SpecMols(c, c.start[j]) = {}
LigSpecsInDomain(c) ==
  LET pn == PN(c)
      ligm(i) == IF c.lig[i].l.hasIdx THEN {c.lig[i].l.idx} ELSE PLigM(c, i)      \* also the molecule a contradictory name#index points at
      hostm(i) == {h[1] : h \in PHostsN(c, pn, i)}
  IN /\ \A i \in 1..Len(c.lig) : /\ (c.lig[i].h.hasIdx => c.lig[i].h.idx < NM(c))
                                 /\ (c.lig[i].l.hasIdx => c.lig[i].l.idx < NM(c))
                                 /\ \A m \in ligm(i) : SpecRes(pn[m + 1], c.lig[i].l) # {}
     \* no molecule is host and ligand in one run; ligand molecules of different options are different
     /\ \A i, j \in 1..Len(c.lig) : hostm(i) \cap ligm(j) = {}
     /\ \A i, j \in 1..Len(c.lig) : i # j => ligm(i) \cap ligm(j) = {}
InDomain(c) == SplitInDomain(c) /\ BldInDomain(c) /\ StartSpecsInDomain(c) /\ LigSpecsInDomain(c)

(* projections of an I-layer state to what the P-layer talks about *)
ProjNodes(nodes) == [k \in 1..Len(nodes) |-> [rn |-> nodes[k].rn, id |-> nodes[k].id, atoms |-> ToSet(nodes[k].atoms)]]
NodesOK(c, s) == /\ Len(s.nodes) = NM(c)
                 /\ \A m \in MIdx(c) : /\ ProjNodes(s.nodes[m + 1]) = PNodes(c, m)
                                       /\ NoLossNoDup(c, m, ProjNodes(s.nodes[m + 1]))
                                       /\ \A k \in 1..Len(s.nodes[m + 1]) : /\ s.nodes[m + 1][k].build
                                                                            /\ Len(s.nodes[m + 1][k].atoms) = Cardinality(ToSet(s.nodes[m + 1][k].atoms))
TagsOK(c, K, tg) == LET pn == PN(c) IN
                    /\ Len(tg) = NM(c)
                    /\ \A m \in MIdx(c) : /\ Len(tg[m + 1]) = Len(pn[m + 1])
                                          /\ \A n \in 1..Len(pn[m + 1]) :
                                                /\ ToSet(tg[m + 1][n]) = PTags(c, pn, K, m, n)
                                                /\ Len(tg[m + 1][n]) = Cardinality(PTags(c, pn, K, m, n))
MolTagsOK(c, dt) == /\ Len(dt) = NM(c)
                    /\ \A m \in MIdx(c) : ToSet(dt[m + 1]) = PMolTags(c, m) /\ Len(dt[m + 1]) = Cardinality(PMolTags(c, m))
\* what split_ligands must deliver: exactly one hand-over per ligated node, to the ligand's own molecule and residue
HandedOK(was, handed, n) ==
  /\ ToSet(handed) = UNION { {[lm |-> was[i][j].lm, ln |-> was[i][j].ln, pos |-> was[i][j].pos] : j \in 1..Len(was[i])} : i \in 1..n }
  /\ Len(handed) = Cardinality(ToSet(handed))

(* ------------------------------------------------------------------ *)
(* I-layer                                                             *)
(* ------------------------------------------------------------------ *)
Has(f) == f \in dev
EmptyF == [x \in {} |-> <<>>]
BaseNodes(c, m) == LET T == TypeOf(c, m) A == Atoms(T) IN
  [k \in 1..Len(T) |-> [rn |-> T[k].rn, id |-> T[k].id, atoms |-> SelectSeq(Iota(Len(A)), LAMBDA g : A[g].res = k), build |-> TRUE]]

Init0(c) == [nodes  |-> [i \in 1..NM(c) |-> BaseNodes(c, i - 1)],
             curName |-> "", curIdxs |-> {},
             bopts |-> EmptyF, rwo |-> EmptyF, distR |-> <<>>, pers |-> <<>>,
             geom |-> [i \in 1..NM(c) |-> [n \in 1..Len(TypeOf(c, i - 1)) |-> <<>>]],
             rw   |-> [i \in 1..NM(c) |-> [n \in 1..Len(TypeOf(c, i - 1)) |-> <<>>]],
             dtags |-> [i \in 1..NM(c) |-> <<>>],
             startOf |-> [i \in 1..NM(c) |-> 0],
             ldefs |-> <<>>,
             added |-> [i \in 1..NM(c) |-> <<>>],
             was |-> [i \in 1..NM(c) |-> <<>>],
             handed |-> <<>>,
             err |-> ""]

\* the steps of gen_coords for a case, in the order the code takes them
Steps(c) ==
     (IF c.split = <<>> THEN <<>> ELSE [i \in 1..NM(c) |-> [a |-> "SplitMolecule", i |-> i - 1]])
  \o [i \in 1..Len(c.bld) |-> [a |-> "ParseLine", i |-> i]]
  \o << [a |-> "Finalize", i |-> 0] >>
  \o [i \in 1..Len(c.start) |-> [a |-> "FindStart", i |-> i]]
  \o [i \in 1..Len(c.lig) |-> [a |-> "AnnotateSpec", i |-> i]]
  \o (IF c.lig = <<>> THEN <<>> ELSE [i \in 1..NM(c) |-> [a |-> "Connect", i |-> i - 1]])
  \* steps of BuildSystem.run_system that have something to do
  \o (IF c.lig = <<>> THEN <<>> ELSE << [a |-> "Engine", i |-> 0] >>)
  \o (IF \E i \in 1..Len(c.bld) : c.bld[i].k = "pers" THEN << [a |-> "SamplePers", i |-> 0] >> ELSE <<>>)
  \o (IF \E i \in 1..Len(c.bld) : c.bld[i].k = "dist" THEN << [a |-> "SetRestraints", i |-> 0] >> ELSE <<>>)
  \o << [a |-> "Build", i |-> 0] >>
  \o (IF c.lig = <<>> THEN <<>> ELSE << [a |-> "SplitLigands", i |-> 0] >>)
  \o << [a |-> "Backmap", i |-> 0] >>
Done == pc > Len(steps) \/ st.err # ""
Cur == steps[pc]

(* ---- MetaMolecule.split_residue(split_strings) of molecule m ---- *)
\* all (resname, new name, atom name) triples in the order _interpret_residue_mapping visits them; a later one overwrites
Trips(S) == FlattenSeq([i \in 1..Len(S) |-> FlattenSeq([p \in 1..Len(S[i].parts) |->
               [j \in 1..Len(S[i].parts[p].atoms) |-> [rn |-> S[i].rn, nn |-> S[i].parts[p].nn, an |-> S[i].parts[p].atoms[j], s |-> i]]])])
DupInString(S) == \E i \in 1..Len(S) : LET names == FlattenSeq([p \in 1..Len(S[i].parts) |-> S[i].parts[p].atoms])
                                       IN Len(names) # Cardinality(ToSet(names))
SplitNodes(c, m) ==
  LET T == TypeOf(c, m) A == Atoms(T) tr == Trips(c.split)
      maxid == MaxOf({T[k].id : k \in 1..Len(T)})
      hit(g) == {t \in 1..Len(tr) : tr[t].rn = A[g].rn /\ tr[t].an = A[g].an}
      mapped(g) == hit(g) # {}
      rn2(g) == IF mapped(g) THEN tr[MaxOf(hit(g))].nn ELSE A[g].rn
      id2(g) == IF mapped(g) THEN A[g].id + maxid ELSE A[g].id
      key(g) == <<id2(g), rn2(g)>>
      \* deviation splitDrop: atoms of a split residue that no part names vanish from the residue graph
      kept == SelectSeq(Iota(Len(A)), LAMBDA g : ~(Has("splitDrop") /\ ~mapped(g) /\ \E h \in 1..Len(A) : A[h].res = A[g].res /\ mapped(h)))
      firsts == SelectSeq(kept, LAMBDA g : \A h \in ToSet(kept) : h < g => key(h) # key(g))
  IN [k \in 1..Len(firsts) |->
        LET mem == SelectSeq(kept, LAMBDA g : key(g) = key(firsts[k])) IN
        [rn |-> rn2(firsts[k]), id |-> k - 1, atoms |-> mem,
         \* the residue node keeps attributes common to its atoms; only re-labelled atoms are given build/backmap
         build |-> IF Has("splitLosesBuild") THEN \A g \in ToSet(mem) : mapped(g) ELSE TRUE]]
SplitMolecule(s, c, m) ==
  IF DupInString(c.split) THEN [s EXCEPT !.err = "split:OSError"]
  ELSE [s EXCEPT !.nodes[m + 1] = SplitNodes(c, m),
                 !.geom[m + 1] = [n \in 1..Len(SplitNodes(c, m)) |-> <<>>],
                 !.rw[m + 1] = [n \in 1..Len(SplitNodes(c, m)) |-> <<>>]]

(* ---- BuildDirector: one call per line ---- *)
AppendAt(f, keys, v) == [k \in (DOMAIN f) \cup keys |-> IF k \in keys THEN (IF k \in DOMAIN f THEN Append(f[k], v) ELSE <<v>>) ELSE f[k]]
PutAt(f, keys, v) == [k \in (DOMAIN f) \cup keys |-> IF k \in keys THEN <<v>> ELSE f[k]]
ParseLine(s, c, i) ==
  LET L == c.bld[i]
      keys == {<<s.curName, x>> : x \in s.curIdxs}
      \* molecule-level directives: the intended design addresses the molecules the block selects; deviation
      \* molRawRange (the code): every index of the written range, whatever the molecule is called or whether it exists
      midx == IF Has("molRawRange") THEN s.curIdxs ELSE s.curIdxs \cap IdxByName(c, s.curName)
  IN CASE L.k = "mol"  -> [s EXCEPT !.curName = L.name, !.curIdxs = IF Has("closedMol") THEN L.lo..L.hi ELSE L.lo..(L.hi - 1)]
       [] L.k = "geom" -> [s EXCEPT !.bopts = AppendAt(s.bopts, keys, i)]
       [] L.k = "rw"   -> [s EXCEPT !.rwo = IF Has("rwLastWins") THEN PutAt(s.rwo, keys, i) ELSE AppendAt(s.rwo, keys, i)]
       \* topology.distance_restraints[(name, idx)][(a, b)] = ... : a later line on the same node pair replaces the earlier one
       [] L.k = "dist" -> IF \E x \in midx : x >= NM(c) THEN [s EXCEPT !.err = "bld:OSError"]
                          ELSE [s EXCEPT !.distR = SelectSeq(s.distR, LAMBDA e : ~(e.idx \in midx /\ e.name = s.curName /\ e.a = L.lo /\ e.b = L.hi))
                                                   \o [j \in 1..Cardinality(midx) |-> [name |-> s.curName, idx |-> Asc(midx)[j], a |-> L.lo, b |-> L.hi, tag |-> L.tag]]]
       [] L.k = "pers" -> [s EXCEPT !.pers = Append(s.pers, [tag |-> L.tag, idxs |-> midx])]

(* ---- BuildDirector.finalize: tag the nodes of every molecule mentioned by name and index ---- *)
ResSel(node, L) == /\ (Has("resnameIgnored") \/ node.rn = L.name)
                   /\ L.lo <= node.id
                   /\ (IF Has("closedRes") THEN node.id <= L.hi ELSE node.id < L.hi)
OptsFor(c, f, m) == Asc(UNION { ToSet(f[k]) : k \in {q \in DOMAIN f : q[2] = m /\ (Has("molNameIgnored") \/ q[1] = NameOf(c, m))} })
\* _tag_nodes visits the residues in their listing order (order of first atom in [ atoms ]), which is independent of the residue ids;
\* deviation breakAtFirstBeyond: the loop stops at the first listed residue whose id is at or behind the end of the range
Reached(nodes, n, L) == ~Has("breakAtFirstBeyond") \/ \A k \in 1..(n - 1) : nodes[k].id < L.hi
TagsFor(c, f, nodes, m) == [n \in 1..Len(nodes) |->
     LET sel == SelectSeq(OptsFor(c, f, m), LAMBDA i : ResSel(nodes[n], c.bld[i]) /\ Reached(nodes, n, c.bld[i]))
     IN [j \in 1..Len(sel) |-> c.bld[sel[j]].tag]]
Finalize(s, c) == [s EXCEPT !.geom = [i \in 1..NM(c) |-> TagsFor(c, s.bopts, s.nodes[i], i - 1)],
                            !.rw   = [i \in 1..NM(c) |-> TagsFor(c, s.rwo, s.nodes[i], i - 1)]]

(* ---- sample_end_to_end_distances / set_restraints (BuildSystem.run_system) ---- *)
SamplePers(s, c) ==
  IF \E j \in 1..Len(s.pers) : s.pers[j].idxs = {} /\ Has("molRawRange") THEN [s EXCEPT !.err = "pers:IndexError"]
  ELSE IF \E j \in 1..Len(s.pers) : \E x \in s.pers[j].idxs : x >= NM(c) THEN [s EXCEPT !.err = "pers:IndexError"]
  ELSE [s EXCEPT !.dtags = [i \in 1..NM(c) |-> s.dtags[i] \o
            LET js == SelectSeq(Iota(Len(s.pers)), LAMBDA j : (i - 1) \in s.pers[j].idxs) IN [q \in 1..Len(js) |-> s.pers[js[q]].tag]]]
SetRestraints(s, c) ==
  [s EXCEPT !.dtags = [i \in 1..NM(c) |-> s.dtags[i] \o
       LET js == SelectSeq(Iota(Len(s.distR)), LAMBDA j : s.distR[j].idx = i - 1) IN [q \in 1..Len(js) |-> s.distR[js[q]].tag]]]

(* ---- find_starting_node_from_spec: one specification ---- *)
FirstMatch(nodes, sp) == IF SpecRes(nodes, sp) = {} THEN 0 ELSE MinOf(SpecRes(nodes, sp))
FindStart(s, c, i) ==
  LET sp == c.start[i]
      fm(m) == FirstMatch(s.nodes[m + 1], sp)
      setAll(M) == IF \E m \in M : fm(m) = 0 THEN [s EXCEPT !.err = "start:IndexError"]
                   ELSE [s EXCEPT !.startOf = [j \in 1..NM(c) |-> IF (j - 1) \in M THEN fm(j - 1) ELSE s.startOf[j]]]
  IN IF sp.hasIdx THEN
        IF ~Has("startIdxIgnoresName") /\ Contradictory(c, sp) THEN [s EXCEPT !.err = "start:OSError"]   \* names no molecule: rejected
        ELSE IF sp.idx >= NM(c) THEN [s EXCEPT !.err = "start:IndexError"]
        ELSE setAll({sp.idx})
     ELSE IF ~sp.hasMol THEN
        IF Has("startNoMolKeyError") THEN [s EXCEPT !.err = "start:KeyError"]
        ELSE setAll({m \in MIdx(c) : fm(m) # 0})
     ELSE setAll(IF Has("startNameIgnored") THEN MIdx(c) ELSE IdxByName(c, sp.mol))

(* ---- AnnotateLigands.__init__: one host:ligand pair; k-th host residue gets the k-th ligand molecule ---- *)
AnnotateSpec(s, c, i) ==
  LET h == c.lig[i].h  l == c.lig[i].l
      hostM == IF h.hasIdx THEN {h.idx} ELSE IF h.hasMol THEN IdxByName(c, h.mol) ELSE MIdx(c)
      ligM == IF l.hasIdx THEN <<l.idx>> ELSE Asc(IdxByName(c, l.mol))
      hosts == FlattenSeq([q \in 1..Cardinality(hostM) |->
                 LET m == Asc(hostM)[q] ns == Asc(SpecRes(s.nodes[m + 1], h)) IN [r \in 1..Len(ns) |-> [m |-> m, n |-> ns[r]]]])
  IN IF Contradictory(c, h) THEN [s EXCEPT !.err = "lig:OSError"]
     ELSE IF ~l.hasIdx /\ ~l.hasMol THEN [s EXCEPT !.err = "lig:OSError"]
     ELSE IF ~Has("ligIdxIgnoresName") /\ Contradictory(c, l) THEN [s EXCEPT !.err = "lig:OSError"]
     ELSE IF Len(hosts) > Len(ligM) THEN [s EXCEPT !.err = "lig:IndexError"]
     ELSE [s EXCEPT !.ldefs = s.ldefs \o [q \in 1..Len(hosts) |-> [hm |-> hosts[q].m, hn |-> hosts[q].n, lm |-> ligM[q], sp |-> i]]]
(* ---- AnnotateLigands.run_molecule(m): add one node per matching residue of the paired ligand molecule ---- *)
Connect(s, c, m) ==
  LET ds == SelectSeq(s.ldefs, LAMBDA d : d.hm = m)
      nodesOf(d) == LET ns == Asc(SpecRes(s.nodes[d.lm + 1], c.lig[d.sp].l)) IN
                    [r \in 1..Len(ns) |-> [host |-> d.hn, lm |-> d.lm, ln |-> ns[r], rn |-> s.nodes[d.lm + 1][ns[r]].rn,
                                           tmpl |-> ~Has("ligNoTemplate"), pos |-> 0]]
  IN [s EXCEPT !.added[m + 1] = FlattenSeq([q \in 1..Len(ds) |-> nodesOf(ds[q])])]

(* ---- BuildSystem (abstract): every residue to be built gets a position; the position itself is not modelled, ---- *)
(* ---- a ligated node receives a token that identifies it                                                     ---- *)
\* NonBondEngine.from_topology: every node needs a volume, looked up by its template key or else by its residue name
Engine(s, c) ==
  IF \E i \in 1..NM(c) : \E j \in 1..Len(s.added[i]) : ~Buildable(c, s.added[i][j]) THEN [s EXCEPT !.err = "engine:KeyError"]
  ELSE s
\* RandomWalk._random_walk starts at the -start residue (node key 0 counts as "not given"), else at the first residue without a
\* build attribute, else at the first residue, and reads the build attribute of every other residue
RootOf(s, i) == IF s.startOf[i] >= 2 THEN s.startOf[i]
                ELSE LET nb == {k \in 1..Len(s.nodes[i]) : ~s.nodes[i][k].build} IN IF nb = {} THEN 1 ELSE MinOf(nb)
Build(s, c) ==
  IF \E i \in 1..NM(c) : \E k \in 1..Len(s.nodes[i]) : k # RootOf(s, i) /\ ~s.nodes[i][k].build THEN [s EXCEPT !.err = "build:KeyError"]
  ELSE [s EXCEPT !.added = [i \in 1..NM(c) |-> [j \in 1..Len(s.added[i]) |-> [s.added[i][j] EXCEPT !.pos = 100 * i + j]]]]
\* Backmap reads the backmap attribute of every residue (build and backmap are given and lost together)
Backmap(s, c) ==
  IF \E i \in 1..NM(c) : \E k \in 1..Len(s.nodes[i]) : ~s.nodes[i][k].build THEN [s EXCEPT !.err = "backmap:KeyError"] ELSE s

(* ---- AnnotateLigands.split_ligands ---- *)
SplitLigands(s, c) ==
  LET all == FlattenSeq([i \in 1..NM(c) |-> [j \in 1..Len(s.added[i]) |->
                 [lm |-> IF Has("ligWrongMol") THEN i - 1 ELSE s.added[i][j].lm, ln |-> s.added[i][j].ln, pos |-> s.added[i][j].pos]]])
  IN [s EXCEPT !.handed = all, !.was = s.added, !.added = [i \in 1..NM(c) |-> <<>>]]

Apply(s, c, stp) ==
  CASE stp.a = "SplitMolecule" -> SplitMolecule(s, c, stp.i)
    [] stp.a = "ParseLine"     -> ParseLine(s, c, stp.i)
    [] stp.a = "Finalize"      -> Finalize(s, c)
    [] stp.a = "SamplePers"    -> SamplePers(s, c)
    [] stp.a = "SetRestraints" -> SetRestraints(s, c)
    [] stp.a = "FindStart"     -> FindStart(s, c, stp.i)
    [] stp.a = "AnnotateSpec"  -> AnnotateSpec(s, c, stp.i)
    [] stp.a = "Connect"       -> Connect(s, c, stp.i)
    [] stp.a = "Engine"        -> Engine(s, c)
    [] stp.a = "Build"         -> Build(s, c)
    [] stp.a = "SplitLigands"  -> SplitLigands(s, c)
    [] stp.a = "Backmap"       -> Backmap(s, c)
\* the whole run as one value (used where only the end state matters)
RECURSIVE RunFrom(_, _, _, _)
RunFrom(s, c, stps, k) == IF k > Len(stps) \/ s.err # "" THEN s ELSE RunFrom(Apply(s, c, stps[k]), c, stps, k + 1)

InitCase(c) == /\ case = c /\ dev \in DevChoices /\ steps = Steps(c)
               /\ st = Init0(c) /\ pc = 1
Step(name) == /\ ~Done /\ Cur.a = name
              /\ st' = Apply(st, case, Cur) /\ pc' = pc + 1 /\ UNCHANGED <<case, dev, steps>>
ASplitMolecule == Step("SplitMolecule")
AParseLine     == Step("ParseLine")
AFinalize      == Step("Finalize")
ASamplePers    == Step("SamplePers")
ASetRestraints == Step("SetRestraints")
AFindStart     == Step("FindStart")
AAnnotateSpec  == Step("AnnotateSpec")
AConnect       == Step("Connect")
AEngine        == Step("Engine")
ABuild         == Step("Build")
ASplitLigands  == Step("SplitLigands")
ABackmap       == Step("Backmap")
Next == \/ ASplitMolecule \/ AParseLine \/ AFinalize \/ ASamplePers \/ ASetRestraints
        \/ AFindStart \/ AAnnotateSpec \/ AConnect \/ AEngine \/ ABuild \/ ASplitLigands \/ ABackmap

(* ------------------------------------------------------------------ *)
(* I |= P                                                              *)
(* ------------------------------------------------------------------ *)
Finished == pc > Len(steps)

\* a -lig option that cannot be honoured must be rejected; a specification that is contradictory (name#index naming no
\* molecule: it selects nothing) or a ligand with neither name nor index may be rejected or may select nothing; every other
\* case must run without an error
MustReject(c) == LigInfeasible(c)
MayReject(c) == \/ \E i \in 1..Len(c.lig) : \/ Contradictory(c, c.lig[i].h) \/ Contradictory(c, c.lig[i].l)
                                           \/ ~(c.lig[i].l.hasMol \/ c.lig[i].l.hasIdx)
                \/ \E i \in 1..Len(c.start) : Contradictory(c, c.start[i])
FamilyInDomain == (pc = 1) => InDomain(case)        \* the instance families stay inside the domain
ErrOK == Done => IF MustReject(case) THEN st.err # ""
                 ELSE IF MayReject(case) THEN TRUE ELSE st.err = ""

\* the molecule list and the residues of every molecule are those of the (split) topology when everything is over ...
MolListUnchanged == (Finished /\ st.err = "") => NodesOK(case, st)
\* ... and no step after the split changes a residue: build-file parsing, start selection, annotation and ligand
\* hand-back never add, drop or rename one
NodesStable == [][ (~Done /\ Cur.a # "SplitMolecule") => st'.nodes = st.nodes ]_vars
Correct ==
  (Finished /\ st.err = "") =>
     /\ TagsOK(case, {"geom"}, st.geom)
     /\ TagsOK(case, {"rw"}, st.rw)
     /\ MolTagsOK(case, st.dtags)
     /\ StartOK(case, st.startOf)
     /\ LigValid(case, st.was)
     /\ \A i \in 1..NM(case) : /\ st.added[i] = <<>>
                               /\ \A j \in 1..Len(st.was[i]) : st.was[i][j].pos # 0 /\ Buildable(case, st.was[i][j])
     /\ HandedOK(st.was, st.handed, NM(case))
\* split_ligands removes exactly the ligated nodes and hands every position to the ligand's own molecule and residue
HandBack == [][ (~Done /\ Cur.a = "SplitLigands") =>
                 /\ \A i \in 1..NM(case) : st'.added[i] = <<>>
                 /\ HandedOK(st.added, st'.handed, NM(case)) ]_vars
\* annotation only adds: nothing that exists is changed
AnnotateOnlyAdds == [][ (~Done /\ Cur.a \in {"AnnotateSpec", "Connect"}) =>
                         (st'.nodes = st.nodes /\ st'.geom = st.geom /\ st'.rw = st.rw /\ st'.startOf = st.startOf) ]_vars
=============================================================================
