INIT MCInit
NEXT XNext
CONSTANTS
 Mols = {}
 Dev = "none"
 FixedOrder = TRUE
INVARIANT CountInv
CHECK_DEADLOCK FALSE
