SPECIFICATION XSpec
CONSTANTS
 Mols <- MCMols
 Dev = "none"
 FixedOrder = TRUE
INVARIANT CountInv
CHECK_DEADLOCK FALSE
