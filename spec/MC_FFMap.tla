----------------------------- MODULE MC_FFMap -----------------------------
(* Bounded instances of FFMap for C01 and C14: the force-field catalogues and the input sets TLC enumerates. *)
EXTENDS FFMap

(* ---------------- block catalogue ---------------- *)
CN == <<"c1", "c2", "c3">>
At(an, ty, q, m, cg, res, rn) == [an |-> an, ty |-> ty, q |-> q, m |-> m, cg |-> cg, res |-> res, rn |-> rn]
In(sec, at, par) == [sec |-> sec, at |-> at, par |-> par, ver |-> "i1", occ |-> 1]
QA == <<"0.5", "0.0", "-0.5">>
MA == <<"12.0", "14.0", "16.0">>
CGA == <<1, 1, 2>>
QB == <<"0.25", "-0.25", "0.0">>
MB == <<"36.0", "32.0", "30.0">>
CGB == <<1, 2, 3>>
AtomsA(n) == TLCEval([a \in 1..n |-> At(CN[a], "TA", QA[a], MA[a], CGA[a], 1, "A")])
AtomsB(n) == TLCEval([a \in 1..n |-> At(CN[a], "TB", QB[a], MB[a], CGB[a], 1, "B")])
\* candidate intra-block interactions of a block with n atoms (p = "3" for A, "4" for B: parameters identify the block)
Cand(n, p) ==
  IF n = 1 THEN <<>>
  ELSE IF n = 2 THEN <<In("bonds", <<1, 2>>, <<"1", "0." \o p \o "1", "1000">>), In("constraints", <<1, 2>>, <<"1", "0." \o p \o "2">>),
                       In("exclusions", <<1, 2>>, <<>>)>>
  ELSE <<In("bonds", <<1, 2>>, <<"1", "0." \o p \o "1", "1000">>), In("bonds", <<2, 3>>, <<"1", "0." \o p \o "3", "1100">>),
         In("angles", <<1, 2, 3>>, <<"2", "1" \o p \o "0", "50">>), In("constraints", <<2, 3>>, <<"1", "0." \o p \o "2">>),
         In("exclusions", <<1, 3>>, <<>>), In("virtual_sites2", <<3, 1, 2>>, <<"1", "0." \o p>>)>>
Pick(s, S) == SelectSeq([x \in DOMAIN s |-> [i |-> x, v |-> s[x]]], LAMBDA e : e.i \in S)
PickV(s, S) == LET p == Pick(s, S) IN TLCEval([x \in DOMAIN p |-> p[x].v])
EdgesOf(ints) == SetToSeq({<<x.at[1], x.at[2]>> : x \in {y \in ToSet(ints) : y.sec \in EdgeSections}})
MkBlock(name, nrexcl, ats, ints) == [name |-> name, nrexcl |-> nrexcl, atoms |-> ats, inters |-> ints, edges |-> EdgesOf(ints)]
\* the "full" interaction set of a block of n atoms
FullSet(n, v) == IF n = 1 THEN {} ELSE IF n = 2 THEN (IF v = 1 THEN {1} ELSE {2, 3}) ELSE (IF v = 1 THEN {1, 2, 3, 5} ELSE {1, 4, 6})
BlockA(n, v, e) == MkBlock("A", e, AtomsA(n), PickV(Cand(n, "3"), FullSet(n, v)))
BlockB(n, v, e) == MkBlock("B", e, AtomsB(n), PickV(Cand(n, "4"), FullSet(n, v)))
\* the two-residue block XX (residues X1 with n1 atoms and X2 with n2 atoms), a chain of bonds through all atoms
QX == <<"0.1", "0.2", "0.3", "0.4">>
BlockXX(n1, n2, e) ==
  LET n == n1 + n2
      ats == TLCEval([a \in 1..n |-> IF a <= n1 THEN At(CN[a], "TX", QX[a], "20.0", 1, 1, "X1") ELSE At(CN[a - n1], "TY", QX[a], "22.0", 2, 2, "X2")])
      bonds == TLCEval([a \in 1..(n - 1) |-> In("bonds", <<a, a + 1>>, <<"1", <<"0.51", "0.52", "0.53">>[a], "900">>)])
      ints == IF n1 = 2 THEN bonds \o <<In("angles", <<1, 2, 3>>, <<"2", "150", "25">>)>> ELSE bonds
  IN MkBlock("XX", e, ats, ints)

\* blocks whose [ atoms ] carry residue names other than the block name / the names of the residue-graph nodes
RnBlock(b, nm) == [b EXCEPT !.atoms = TLCEval([a \in DOMAIN b.atoms |-> [b.atoms[a] EXCEPT !.rn = nm]])]
RnXX(b) == [b EXCEPT !.atoms = TLCEval([a \in DOMAIN b.atoms |-> [b.atoms[a] EXCEPT !.rn = IF @ = "X1" THEN "R1" ELSE "R2"]])]
AllNames == <<"A", "B", "X1", "X2", "GLY", "ALA", "GLYC", "XALA", "BX", "R1", "R2">>
LBond(ord, a, b, par) == [kind |-> "bond", ord |-> ord, rns |-> AllNames, a |-> a, b |-> b, sec |-> "bonds", par |-> par, xb |-> "", ex |-> <<>>]
LRemove(rns, a) == [kind |-> "remove", ord |-> "0", rns |-> rns, a |-> a, b |-> "", sec |-> "", par |-> <<>>, xb |-> "", ex |-> <<>>]
LRetype(rns, a, ty, q) == [kind |-> "retype", ord |-> "0", rns |-> rns, a |-> a, b |-> "", sec |-> "", par |-> <<ty, q>>, xb |-> "", ex |-> <<>>]
\* explicit link ([ molmeta ] by_atom_id true): a bond / constraint between the atoms with the written numbers i and j
LExplicit(sec, i, j, par) == [kind |-> "explicit", ord |-> "0", rns |-> <<>>, a |-> "", b |-> "", sec |-> sec, par |-> par, xb |-> "", ex |-> <<i, j>>]
LinkSet(v) == IF v = 0 THEN <<>>
              ELSE IF v = 1 THEN <<LBond("+", "c1", "c1", <<"1", "0.47", "1250">>)>>
              ELSE IF v = 2 THEN <<LBond(">", "c2", "c1", <<"1", "0.37", "7000">>)>>
              ELSE <<LBond("+", "c1", "c1", <<"1", "0.47", "1250">>), LBond("+", "c2", "c1", <<"1", "0.37", "7000">>), LBond("+", "c1", "c1", <<"1", "0.48", "1300">>)>>
MkFF(blocks, links, mods) == [blocks |-> blocks, links |-> links, mods |-> mods]

(* ---------------- residue graphs ---------------- *)
AllE(n) == {<<i, j>> \in (1..n) \X (1..n) : i < j}
ConnGraphs(n) == {E \in SUBSET AllE(n) : Reach({{e[1], e[2]} : e \in E}, {1}) = 1..n}
Chain(n) == {<<i, i + 1>> : i \in 1..(n - 1)}
\* kind vectors over {A, B, X}; X positions come in runs of even length that alternate X1 X2
RunStart(kv, i) == CHOOSE s \in 1..i : (\A j \in s..i : kv[j] = "X") /\ (s = 1 \/ kv[s - 1] # "X")
RunEnd(kv, i) == CHOOSE t \in i..Len(kv) : (\A j \in i..t : kv[j] = "X") /\ (t = Len(kv) \/ kv[t + 1] # "X")
KindOK(kv) == \A i \in DOMAIN kv : kv[i] = "X" => (RunEnd(kv, i) - RunStart(kv, i) + 1) % 2 = 0
Kinds(n, ks) == {kv \in [1..n -> ks] : KindOK(kv)}
RnOf(kv) == TLCEval([i \in DOMAIN kv |-> IF kv[i] = "X" THEN (IF (i - RunStart(kv, i)) % 2 = 0 THEN "X1" ELSE "X2") ELSE kv[i]])
FiOf(kv) == TLCEval([i \in DOMAIN kv |-> IF kv[i] = "X" THEN "XX" ELSE ""])
MkInpF(FFs, ff, n, start, kv, E, sel) == [id |-> 0, hist |-> <<>>, useApps |-> FALSE, apps |-> <<>>, ff |-> ff, F |-> FFs[ff], n |-> n, start |-> start, rn |-> RnOf(kv), fi |-> FiOf(kv), edges |-> SetToSeq(E), sel |-> sel]
\* (kinds, edges) shapes inside the domain; the domain conditions do not depend on block sizes, so force field 1 decides them
Shapes(FFs, n, ks) == {s \in Kinds(n, ks) \X ConnGraphs(n) : DomOK(MkInpF(FFs, 1, n, 1, s[1], s[2], <<>>))}
GraphInputs(FFs, ffs, ns, starts, ks) ==
  UNION {{MkInpF(FFs, ff, n, st, s[1], s[2], <<>>) : ff \in ffs, st \in starts, s \in Shapes(FFs, n, ks)} : n \in ns}
\* the domain is re-checked on every initial state
Dom_Inv == (pc = "match") => DomOK(inp)

(* ---------------- instance G: all connected residue graphs, names over two blocks + the two-residue block ---------------- *)
\* force fields: block sizes x interaction variants x link sets
FFsG == << MkFF(<<BlockA(1, 1, 1), BlockB(2, 1, 1), BlockXX(1, 1, 1)>>, LinkSet(1), <<>>),
           MkFF(<<BlockA(2, 2, 1), BlockB(3, 1, 1), BlockXX(2, 1, 1)>>, LinkSet(2), <<>>),
           \* 3: the atoms of block B are called residue BX, the residues inside XX R1 / R2 (graph nodes: B, X1, X2)
           MkFF(<<BlockA(3, 1, 1), RnBlock(BlockB(1, 1, 1), "BX"), RnXX(BlockXX(1, 2, 1))>>, LinkSet(3), <<>>),
           MkFF(<<BlockA(3, 2, 2), BlockB(3, 2, 2), BlockXX(2, 2, 2)>>, LinkSet(0), <<>>),
           MkFF(<<BlockA(2, 1, 1), RnBlock(BlockB(2, 2, 1), "BX"), RnXX(BlockXX(2, 2, 1))>>, LinkSet(3), <<>>),
           MkFF(<<BlockA(1, 1, 3), BlockB(3, 2, 3), BlockXX(1, 1, 3)>>, LinkSet(2), <<>>) >>
InputsG(ffs, ns) == GraphInputs(FFsG, ffs, ns, {1, 5}, {"A", "B", "X"})

(* ---------------- instance S: every intra-block interaction set of one block ---------------- *)
\* block A with n atoms and the interactions S of Cand(n); the second block and the link stay fixed
BlockAS(n, S) == MkBlock("A", 1, AtomsA(n), PickV(Cand(n, "3"), S))
\* two interactions of one section on the same atoms (multi-term entries as in GROMACS function type 9 dihedrals)
DupBond == In("bonds", <<1, 2>>, <<"1", "0.39", "999">>)
DupAngle == In("angles", <<1, 2, 3>>, <<"2", "109", "77">>)
BlockADup(n) == IF n = 2 THEN MkBlock("A", 1, AtomsA(2), <<Cand(2, "3")[1], DupBond>>)
                ELSE MkBlock("A", 1, AtomsA(3), <<Cand(3, "3")[1], Cand(3, "3")[2], Cand(3, "3")[3], DupAngle, DupBond>>)
ShapeSets == {<<1, {}>>} \cup {<<2, S>> : S \in SUBSET (1..3)} \cup {<<3, S>> : S \in SUBSET (1..6)}
FFsS == LET sh == SetToSeq(ShapeSets) IN
          [x \in 1..(Len(sh) + 2) |-> IF x <= Len(sh) THEN MkFF(<<BlockAS(sh[x][1], sh[x][2]), BlockB(2, 1, 1)>>, LinkSet(1), <<>>)
                                      ELSE MkFF(<<BlockADup(x - Len(sh) + 1), BlockB(2, 1, 1)>>, LinkSet(1), <<>>)]
ChainKinds == {<<"A">>, <<"A", "B">>, <<"B", "A">>, <<"A", "A">>, <<"B", "A", "A">>}
InputsS(ffs) == {MkInpF(FFsS, ff, Len(kv), st, kv, Chain(Len(kv)), <<>>) : ff \in ffs, st \in {1, 5}, kv \in ChainKinds}

(* ---------------- instance M: links that remove / retype atoms, terminal modifications ---------------- *)
PN == <<"N", "CA", "C">>
BlockGLY == MkBlock("GLY", 1, TLCEval([a \in 1..3 |-> At(PN[a], "P5", QA[a], MA[a], CGA[a], 1, "GLY")]),
                    <<In("bonds", <<1, 2>>, <<"1", "0.33", "5000">>), In("bonds", <<2, 3>>, <<"1", "0.34", "5100">>),
                      In("angles", <<1, 2, 3>>, <<"2", "127", "20">>), In("exclusions", <<1, 3>>, <<>>)>>)
BlockALA == MkBlock("ALA", 1, TLCEval([a \in 1..2 |-> At(PN[a], "P4", QB[a], MB[a], CGB[a], 1, "ALA")]),
                    <<In("constraints", <<1, 2>>, <<"1", "0.27">>)>>)
\* a residue that is NOT a protein residue although its name begins with (GLYC) or contains (XALA) an amino-acid name; it carries
\* the atom names the terminal modifications target, so a modification that is applied to it shows
NonProt(ff) == IF ff = 2 THEN "XALA" ELSE "GLYC"
BlockBM(nm) == MkBlock(nm, 1, TLCEval([a \in 1..2 |-> At(PN[a], "TB", QB[a], MB[a], 1, 1, nm)]), <<In("bonds", <<1, 2>>, <<"1", "0.41", "1000">>)>>)
LBondP == [kind |-> "bond", ord |-> "+", rns |-> AllNames, a |-> "CA", b |-> "N", sec |-> "bonds", par |-> <<"1", "0.35", "1250">>, xb |-> "", ex |-> <<>>]
MAt(an, rep, ty, q) == [an |-> an, rep |-> rep, ty |-> ty, q |-> q]
ModNter(withInter) == [name |-> "N-ter", atoms |-> <<MAt("N", TRUE, "Qd", "1.0"), MAt("CA", FALSE, "", "")>>,
                       inters |-> IF withInter THEN <<[sec |-> "bonds", a |-> "N", b |-> "CA", par |-> <<"1", "0.9", "900">>]>> ELSE <<>>]
ModCter == [name |-> "C-ter", atoms |-> <<MAt("CA", TRUE, "Qa", "-1.0")>>, inters |-> <<>>]
FFsM == << \* 1: atom-removing link (replace atomname null) + retyping link + modifications without interactions
           MkFF(<<BlockGLY, BlockALA, BlockBM(NonProt(1))>>, <<LBondP, LRemove(<<"ALA">>, "CA"), LRetype(<<"GLY">>, "CA", "ZZ", "0.75")>>, <<ModNter(FALSE), ModCter>>),
           \* 2: modifications with an interaction, retyping link that is overridden by a modification
           MkFF(<<BlockGLY, BlockALA, BlockBM(NonProt(2))>>, <<LBondP, LRetype(<<"GLY", "ALA">>, "N", "ZN", "0.125")>>, <<ModNter(TRUE), ModCter>>),
           \* 3: removal, no modifications in the force field
           MkFF(<<BlockGLY, BlockALA, BlockBM(NonProt(3))>>, <<LBondP, LRemove(<<"GLY">>, "C")>>, <<>>) >>
SelSets(n) == {<<>>, <<[pos |-> 1, mod |-> "N-ter"]>>, <<[pos |-> n, mod |-> "C-ter"]>>, <<[pos |-> 2, mod |-> "N-ter"]>>,
               <<[pos |-> 1, mod |-> "C-ter"], [pos |-> 1, mod |-> "N-ter"]>>}
InputsMff(ff, n, starts) == {MkInpF(FFsM, ff, n, st, kv, Chain(n), sel) : st \in starts, kv \in [1..n -> {"GLY", "ALA", NonProt(ff)}], sel \in SelSets(n)}
InputsM(ffs, ns, starts) == UNION {UNION {InputsMff(ff, n, starts) : ff \in ffs} : n \in ns}

(* ---------------- instance E: mixed exclusion distances (C14) ---------------- *)
\* bonds along the chain c1-c2-c3 (variant 2: the last one a constraint), optional explicit exclusion c1 c3
BlockE(name, ty, n, e, v) ==
  LET ats == IF name = "A" THEN AtomsA(n) ELSE IF name = "C" THEN [a \in 1..n |-> [AtomsB(n)[a] EXCEPT !.ty = "TC"]] ELSE AtomsB(n)
      c == Cand(n, IF name = "A" THEN "3" ELSE "4")
      S == IF n = 1 THEN {} ELSE IF n = 2 THEN (IF v = 2 THEN {2} ELSE {1}) ELSE (IF v = 1 THEN {1, 2} ELSE IF v = 2 THEN {1, 4} ELSE {1, 2, 5})
  IN [MkBlock(name, e, ats, PickV(c, S)) EXCEPT !.atoms = TLCEval([a \in 1..n |-> [ats[a] EXCEPT !.rn = name]])]
LinkSetE(v) == IF v = 1 THEN <<LBond("+", "c1", "c1", <<"1", "0.47", "1250">>)>>
               ELSE IF v = 2 THEN <<LBond(">", "c2", "c1", <<"1", "0.37", "7000">>), LBond(">", "c1", "c1", <<"1", "0.47", "1250">>)>>
               ELSE <<LBond(">", "c3", "c1", <<"1", "0.36", "7100">>), [LBond("+", "c1", "c2", <<"1", "0.38", "7200">>) EXCEPT !.xb = "c3"],
                      [LBond("+", "c1", "c1", <<"1", "0.39">>) EXCEPT !.sec = "constraints", !.xb = "c2"]>>
FFE(sz, ee, lv) == MkFF(<<BlockE("A", "TA", sz[1], ee[1], sz[3]), BlockE("B", "TB", sz[2], ee[2], sz[4])>>, LinkSetE(lv), <<>>)
FFsE(szs, ees, lvs) == LET c == SetToSeq(szs \X ees \X lvs) IN TLCEval([x \in DOMAIN c |-> FFE(c[x][1], c[x][2], c[x][3])])
Trees(n) == {E \in ConnGraphs(n) : Cardinality(E) = n - 1}
InputsE(FFs, gr(_), ns) == UNION {{MkInpF(FFs, ff, n, 1, kv, E, <<>>) : ff \in DOMAIN FFs, kv \in [1..n -> {"A", "B"}], E \in gr(n)} : n \in ns}
=============================================================================
