----------------------------- MODULE MC_FFMap -----------------------------
(* Bounded instances of FFMap for C01 and C14: the force-field catalogues and the input sets TLC enumerates. *)
EXTENDS FFMap

NoDev == [unsorted |-> FALSE, firstKeeps |-> FALSE, sliceAny |-> FALSE, offByOne |-> FALSE, renumber |-> FALSE,
          keepRemoved |-> FALSE, firstFragUnshifted |-> FALSE, treeEdges |-> FALSE, dedupKey |-> FALSE,
          exMax |-> FALSE, exTagLost |-> FALSE, exCutoff |-> FALSE, modAnyRes |-> FALSE]
DevUnsorted == [NoDev EXCEPT !.unsorted = TRUE]
DevFirstKeeps == [NoDev EXCEPT !.firstKeeps = TRUE]
DevSliceAny == [NoDev EXCEPT !.sliceAny = TRUE]
DevOffByOne == [NoDev EXCEPT !.offByOne = TRUE]
DevRenumber == [NoDev EXCEPT !.renumber = TRUE]
DevKeepRemoved == [NoDev EXCEPT !.keepRemoved = TRUE]
DevF14 == [NoDev EXCEPT !.firstFragUnshifted = TRUE]
DevF17 == [NoDev EXCEPT !.treeEdges = TRUE]
DevF16 == [NoDev EXCEPT !.dedupKey = TRUE]
DevExMax == [NoDev EXCEPT !.exMax = TRUE]
DevExTagLost == [NoDev EXCEPT !.exTagLost = TRUE]
DevExCutoff == [NoDev EXCEPT !.exCutoff = TRUE]
DevModAnyRes == [NoDev EXCEPT !.modAnyRes = TRUE]
\* what the tree currently does: the open findings switched on (known_findings.d)
DevAsIs == [NoDev EXCEPT !.firstFragUnshifted = TRUE, !.treeEdges = TRUE, !.dedupKey = TRUE]

(* ---------------- block catalogue ---------------- *)
CN == <<"c1", "c2", "c3">>
At(an, ty, q, m, cg, res, rn) == [an |-> an, ty |-> ty, q |-> q, m |-> m, cg |-> cg, res |-> res, rn |-> rn]
In(sec, at, par) == [sec |-> sec, at |-> at, par |-> par, ver |-> "i1", occ |-> 1]
QA == <<"0.5", "0.0", "-0.5">>
MA == <<"12.0", "14.0", "16.0">>
CGA == <<1, 1, 2>>
QB == <<"0.25", "-0.25", "0.0">>
MB == <<"36.0", "32.0", "30.0">>
CGB == <<1, 2, 3>>
AtomsA(n) == TLCEval([a \in 1..n |-> At(CN[a], "TA", QA[a], MA[a], CGA[a], 1, "A")])
AtomsB(n) == TLCEval([a \in 1..n |-> At(CN[a], "TB", QB[a], MB[a], CGB[a], 1, "B")])
\* candidate intra-block interactions of a block with n atoms (p = "3" for A, "4" for B: parameters identify the block)
Cand(n, p) ==
  IF n = 1 THEN <<>>
  ELSE IF n = 2 THEN <<In("bonds", <<1, 2>>, <<"1", "0." \o p \o "1", "1000">>), In("constraints", <<1, 2>>, <<"1", "0." \o p \o "2">>),
                       In("exclusions", <<1, 2>>, <<>>)>>
  ELSE <<In("bonds", <<1, 2>>, <<"1", "0." \o p \o "1", "1000">>), In("bonds", <<2, 3>>, <<"1", "0." \o p \o "3", "1100">>),
         In("angles", <<1, 2, 3>>, <<"2", "1" \o p \o "0", "50">>), In("constraints", <<2, 3>>, <<"1", "0." \o p \o "2">>),
         In("exclusions", <<1, 3>>, <<>>), In("virtual_sites2", <<3, 1, 2>>, <<"1", "0." \o p>>)>>
Pick(s, S) == SelectSeq([x \in DOMAIN s |-> [i |-> x, v |-> s[x]]], LAMBDA e : e.i \in S)
PickV(s, S) == LET p == Pick(s, S) IN TLCEval([x \in DOMAIN p |-> p[x].v])
EdgesOf(ints) == SetToSeq({<<x.at[1], x.at[2]>> : x \in {y \in ToSet(ints) : y.sec \in EdgeSections}})
MkBlock(name, nrexcl, ats, ints) == [name |-> name, nrexcl |-> nrexcl, atoms |-> ats, inters |-> ints, edges |-> EdgesOf(ints)]
\* the "full" interaction set of a block of n atoms
FullSet(n, v) == IF n = 1 THEN {} ELSE IF n = 2 THEN (IF v = 1 THEN {1} ELSE {2, 3}) ELSE (IF v = 1 THEN {1, 2, 3, 5} ELSE {1, 4, 6})
BlockA(n, v, e) == MkBlock("A", e, AtomsA(n), PickV(Cand(n, "3"), FullSet(n, v)))
BlockB(n, v, e) == MkBlock("B", e, AtomsB(n), PickV(Cand(n, "4"), FullSet(n, v)))
\* the two-residue block XX (residues X1 with n1 atoms and X2 with n2 atoms), a chain of bonds through all atoms
QX == <<"0.1", "0.2", "0.3", "0.4">>
BlockXX(n1, n2, e) ==
  LET n == n1 + n2
      ats == TLCEval([a \in 1..n |-> IF a <= n1 THEN At(CN[a], "TX", QX[a], "20.0", 1, 1, "X1") ELSE At(CN[a - n1], "TY", QX[a], "22.0", 2, 2, "X2")])
      bonds == TLCEval([a \in 1..(n - 1) |-> In("bonds", <<a, a + 1>>, <<"1", <<"0.51", "0.52", "0.53">>[a], "900">>)])
      ints == IF n1 = 2 THEN bonds \o <<In("angles", <<1, 2, 3>>, <<"2", "150", "25">>)>> ELSE bonds
  IN MkBlock("XX", e, ats, ints)

AllNames == <<"A", "B", "X1", "X2", "GLY", "ALA">>
LBond(ord, a, b, par) == [kind |-> "bond", ord |-> ord, rns |-> AllNames, a |-> a, b |-> b, sec |-> "bonds", par |-> par]
LRemove(rns, a) == [kind |-> "remove", ord |-> "0", rns |-> rns, a |-> a, b |-> "", sec |-> "", par |-> <<>>]
LRetype(rns, a, ty, q) == [kind |-> "retype", ord |-> "0", rns |-> rns, a |-> a, b |-> "", sec |-> "", par |-> <<ty, q>>]
LinkSet(v) == IF v = 0 THEN <<>>
              ELSE IF v = 1 THEN <<LBond("+", "c1", "c1", <<"1", "0.47", "1250">>)>>
              ELSE IF v = 2 THEN <<LBond(">", "c2", "c1", <<"1", "0.37", "7000">>)>>
              ELSE <<LBond("+", "c1", "c1", <<"1", "0.47", "1250">>), LBond("+", "c2", "c1", <<"1", "0.37", "7000">>), LBond("+", "c1", "c1", <<"1", "0.48", "1300">>)>>
MkFF(blocks, links, mods) == [blocks |-> blocks, links |-> links, mods |-> mods]

(* ---------------- residue graphs ---------------- *)
AllE(n) == {<<i, j>> \in (1..n) \X (1..n) : i < j}
ConnGraphs(n) == {E \in SUBSET AllE(n) : Reach({{e[1], e[2]} : e \in E}, {1}) = 1..n}
Chain(n) == {<<i, i + 1>> : i \in 1..(n - 1)}
\* kind vectors over {A, B, X}; X positions come in runs of even length that alternate X1 X2
RunStart(kv, i) == CHOOSE s \in 1..i : (\A j \in s..i : kv[j] = "X") /\ (s = 1 \/ kv[s - 1] # "X")
RunEnd(kv, i) == CHOOSE t \in i..Len(kv) : (\A j \in i..t : kv[j] = "X") /\ (t = Len(kv) \/ kv[t + 1] # "X")
KindOK(kv) == \A i \in DOMAIN kv : kv[i] = "X" => (RunEnd(kv, i) - RunStart(kv, i) + 1) % 2 = 0
Kinds(n, ks) == {kv \in [1..n -> ks] : KindOK(kv)}
RnOf(kv) == TLCEval([i \in DOMAIN kv |-> IF kv[i] = "X" THEN (IF (i - RunStart(kv, i)) % 2 = 0 THEN "X1" ELSE "X2") ELSE kv[i]])
FiOf(kv) == TLCEval([i \in DOMAIN kv |-> IF kv[i] = "X" THEN "XX" ELSE ""])
MkInpF(FFs, ff, n, start, kv, E, sel) == [ff |-> ff, F |-> FFs[ff], n |-> n, start |-> start, rn |-> RnOf(kv), fi |-> FiOf(kv), edges |-> SetToSeq(E), sel |-> sel]
\* (kinds, edges) shapes inside the domain; the domain conditions do not depend on block sizes, so force field 1 decides them
Shapes(FFs, n, ks) == {s \in Kinds(n, ks) \X ConnGraphs(n) : DomOK(MkInpF(FFs, 1, n, 1, s[1], s[2], <<>>))}
GraphInputs(FFs, ffs, ns, starts, ks) ==
  UNION {{MkInpF(FFs, ff, n, st, s[1], s[2], <<>>) : ff \in ffs, st \in starts, s \in Shapes(FFs, n, ks)} : n \in ns}
\* the domain is re-checked on every initial state
Dom_Inv == (pc = "match") => DomOK(inp)

(* ---------------- instance G: all connected residue graphs, names over two blocks + the two-residue block ---------------- *)
\* force fields: block sizes x interaction variants x link sets
FFsG == << MkFF(<<BlockA(1, 1, 1), BlockB(2, 1, 1), BlockXX(1, 1, 1)>>, LinkSet(1), <<>>),
           MkFF(<<BlockA(2, 2, 1), BlockB(3, 1, 1), BlockXX(2, 1, 1)>>, LinkSet(2), <<>>),
           MkFF(<<BlockA(3, 1, 1), BlockB(1, 1, 1), BlockXX(1, 2, 1)>>, LinkSet(3), <<>>),
           MkFF(<<BlockA(3, 2, 2), BlockB(3, 2, 2), BlockXX(2, 2, 2)>>, LinkSet(0), <<>>),
           MkFF(<<BlockA(2, 1, 1), BlockB(2, 2, 1), BlockXX(2, 2, 1)>>, LinkSet(3), <<>>),
           MkFF(<<BlockA(1, 1, 3), BlockB(3, 2, 3), BlockXX(1, 1, 3)>>, LinkSet(2), <<>>) >>
InputsG(ffs, ns) == GraphInputs(FFsG, ffs, ns, {1, 5}, {"A", "B", "X"})
=============================================================================
