---------------------------- MODULE NBTrace ----------------------------
(* I->S for C16: traces recorded from the real NonBondEngine (one JSON array of traces) are validated     *)
(* against NBEngine action by action; every event carries its arguments, the projected state after the    *)
(* call and one query with the set of points the code took into account.                                  *)
EXTENDS NBEngine, Json, IOUtils
VARIABLES tid, l
Doc == JsonDeserialize(IOEnv.TRACE_FILE)
Traces == Doc.traces
TNodes == 0..(Doc.nnodes - 1)
TMolOf == [n \in TNodes |-> Doc.molof[n + 1]]
TPts == {<<0,0,0>>}
ASSUME TLCSet(1, {}) /\ TLCSet(2, [t \in 1..Len(Traces) |-> 0])
Ev == Traces[tid][l]
AsPt(s) == <<s[1], s[2], s[3]>>
PosMatches(post) == \A n \in Nodes : pos'[n] = AsPt(post.pos[n + 1])
DefMatches(post) == /\ Len(defined') = Len(post.defined)
                    /\ \A t \in 1..Len(defined') : defined'[t] = post.defined[t]
TreeMatches(post) == /\ Len(trees') = Len(post.trees)
                     /\ \A t \in 1..Len(trees') : /\ Len(trees'[t]) = Len(post.trees[t])
                                                  /\ \A i \in 1..Len(trees'[t]) : trees'[t][i] = AsPt(post.trees[t][i])
\* the query logged after the operation: which points did the code take into account
PositionedN == {n \in Nodes : pos'[n] # None}
InRangeN(p, excl) == {n \in PositionedN \ excl : D2(p, pos'[n]) <= Cut2}
TooCloseN(p) == \E n \in PositionedN : D2(p, pos'[n]) = 0
QueryMatches(q) == LET p == AsPt(q.p) excl == ToSet(q.excl) IN
                     /\ q.close = TooCloseN(p)
                     /\ q.close \/ ( /\ Cardinality(InRangeN(p, excl)) = Len(q.refs)
                                     /\ {pos'[n] : n \in InRangeN(p, excl)} = {AsPt(r) : r \in ToSet(q.refs)}
                                     /\ q.force_ok )
                     /\ AsPt(q.point_of.p) = pos'[q.point_of.n]
                     \* pbc_min_dist(query point, get_point(n)) for every node: squared lattice distance, -1 = not positioned
                     /\ \A n \in Nodes : q.d2[n + 1] = (IF pos'[n] = None THEN -1 ELSE D2(p, pos'[n]))
TAdd == Ev.op = "add" /\ Add(Ev.n, AsPt(Ev.p), Ev.start)
TRem == Ev.op = "remove" /\ RemoveNodes(ToSet(Ev.nodes))
TCon == Ev.op = "concat" /\ Concatenate
TInit == Init /\ tid \in 1..Len(Traces) /\ l = 1
TNext == /\ l <= Len(Traces[tid])
         /\ (TAdd \/ TRem \/ TCon)
         /\ PosMatches(Ev.post) /\ DefMatches(Ev.post) /\ TreeMatches(Ev.post)
         /\ QueryMatches(Ev.q)
         \* QueryPure: the state projected after the queries is the state after the operation
         /\ PosMatches(Ev.post_q) /\ DefMatches(Ev.post_q) /\ TreeMatches(Ev.post_q)
         /\ l' = l + 1 /\ tid' = tid /\ nops' = nops
TSpec == TInit /\ [][TNext]_<<vars, tid, l>>
Mark == (l = Len(Traces[tid]) + 1) => TLCSet(1, TLCGet(1) \cup {tid})
\* longest matched prefix per trace is kept in register 2 (tid -> number of events matched)
Prog == TLCSet(2, [TLCGet(2) EXCEPT ![tid] = IF @ < l - 1 THEN l - 1 ELSE @])
Accepted == IF TLCGet(1) = 1..Len(Traces) THEN TRUE
            ELSE (PrintT(<<"REJECTED", ToJson(SetToSeq({<<t, TLCGet(2)[t]>> : t \in (1..Len(Traces)) \ TLCGet(1)}))>>) /\ FALSE)
=============================================================================
