SPECIFICATION Spec
CONSTANT DevBfs = FALSE
CONSTANT DevSel = "none"
CONSTANT DevImg = "halfshortest"
INVARIANT ApplyLaw
CHECK_DEADLOCK FALSE
