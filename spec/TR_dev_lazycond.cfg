SPECIFICATION Spec
CONSTANTS
 Cases <- CondSmall
 TISet <- TI_quick
 DefSet <- Def_both
 MissSet <- Miss_both
 Stratified = TRUE
 DevOneDirection = FALSE
 DevNoReverse = FALSE
 DevFirstInstOnly = FALSE
 DevSpecOrder = FALSE
 DevDefineFirstOnly = FALSE
 DevPairsUntyped = FALSE
 DevTableMacrosKept = FALSE
 DevDefineLazyCond = TRUE
 DevDefineBlockDropped = FALSE
 DevDefineInactiveKept = FALSE
INVARIANT LookupAgrees
INVARIANT Conforms
CHECK_DEADLOCK FALSE
