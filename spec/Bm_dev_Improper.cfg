SPECIFICATION Spec
CONSTANTS
 TypeDefs <- MCTypeDefs
 Mols <- MCMolsSmall
 Fudges <- MCFudgesSmall
 Angles <- MCAngles
 DevImproper = TRUE
 DevPerAtom = FALSE
 DevNoFudge = FALSE
 DevOtherTemplate = FALSE
 DevCentreOther = FALSE
INVARIANT SameHanded
CHECK_DEADLOCK FALSE
