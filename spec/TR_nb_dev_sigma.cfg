SPECIFICATION NSpec
CONSTANTS
 NBCases <- SmallNBCases
 DevOverrideExplicit = FALSE
 DevEpsHalf = FALSE
 DevSigmaInverted = TRUE
 DevSelfFromFirst = FALSE
INVARIANT NConforms
CHECK_DEADLOCK FALSE
