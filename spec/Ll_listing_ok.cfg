SPECIFICATION Spec
CONSTANTS
 Configs <- MCFFListingB
 DevUserLast = FALSE
 DevFirstWins = FALSE
 DevBibMerge = FALSE
 DevSplitAll = FALSE
 DevTmplMerge = FALSE
 DevSkipUserUnknown = FALSE
 DevIdReuse = FALSE
INVARIANT ListingOrderIrrelevantIfUnambiguous
INVARIANT ListingOrderIrrelevant
CHECK_DEADLOCK FALSE
