SPECIFICATION XSpec
CONSTANTS
 Mols <- MolsMassOnly
 Dev = "none"
 FixedOrder = TRUE
INVARIANT LawsAtStart
CHECK_DEADLOCK FALSE
