SPECIFICATION XSpec
CONSTANTS
 Mols <- MCMols
 Dev = "none"
 FixedOrder = TRUE
INVARIANT LawsAtStart
CHECK_DEADLOCK FALSE
