SPECIFICATION TSpec
CONSTANTS
 Instances <- TraceInstances
 MaxFail = 1000000
 Dev <- NoDev
INVARIANT RolledBack
INVARIANT AttemptClean
INVARIANT GrowFromPositioned
INVARIANT SuppliedKept
INVARIANT Final
INVARIANT NoDoublePlacement
INVARIANT Mark
INVARIANT Prog
POSTCONDITION Accepted
CHECK_DEADLOCK FALSE
