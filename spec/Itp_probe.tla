---- MODULE Itp_probe ----
EXTENDS MC_ItpRoundTrip
ASSUME PrintT(<<"card", Cardinality(FamilyOn(CoreLayouts, Fam4, GraphsOne, FALSE))>>)
====
