---- MODULE Itp_probe ----
EXTENDS MC_ItpRoundTrip
ASSUME PrintT(<<"cand4", Cardinality(Cand(4)), "cand1_4", Cardinality(Cand1(4)), "f2_4", Cardinality(Fam2(4)), "f3_4", Cardinality(Fam3(4)), "f4_4", Cardinality(Fam4(4))>>)
ASSUME PrintT(<<"cand3", Cardinality(Cand(3)), "cand1_3", Cardinality(Cand1(3)), "f2_3", Cardinality(Fam2(3)), "f3_3", Cardinality(Fam3(3)), "f4_3", Cardinality(Fam4(3))>>)
ASSUME PrintT(<<"F1", Cardinality(Family(Fam1, GraphsFor, TRUE))>>)
====
