----------------------------- MODULE FF_Et -----------------------------
(* thorough instance E (C14): all 25 distance pairs (0..4)^2 x 3 link sets for blocks A2/B3, 6 pairs x 3 link sets for A3/B3; all connected graphs on 1..3 residues, 6 trees on 4 *)
EXTENDS FFExport
MCFFs == FFsE({<<2, 3, 1, 2>>}, (0..4) \X (0..4), {1, 2, 3}) \o FFsE({<<3, 3, 2, 3>>}, {<<1, 3>>, <<0, 2>>, <<2, 2>>, <<4, 1>>, <<3, 4>>, <<2, 0>>}, {1, 2, 3})
GrT(n) == IF n <= 3 THEN ConnGraphs(n) ELSE {Chain(4), {<<1, 2>>, <<2, 3>>, <<2, 4>>}, {<<1, 2>>, <<1, 3>>, <<3, 4>>}, {<<1, 2>>, <<1, 3>>, <<1, 4>>},
                                                   {<<1, 3>>, <<2, 3>>, <<3, 4>>}, {<<1, 4>>, <<2, 4>>, <<3, 4>>}}
MCInputs == InputsE(MCFFs, GrT, 1..4)
ASSUME PrintT(<<"FFS", ToJson(MCFFs)>>)
=============================================================================
