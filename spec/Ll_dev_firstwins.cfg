SPECIFICATION Spec
CONSTANTS
 Configs <- MCFFListing
 DevUserLast = FALSE
 DevFirstWins = TRUE
 DevBibMerge = FALSE
 DevSplitAll = FALSE
 DevTmplMerge = FALSE
 DevSkipUserUnknown = FALSE
 DevIdReuse = FALSE
INVARIANT StoreIsDeclarative
CHECK_DEADLOCK FALSE
