SPECIFICATION Spec
CONSTANTS
 Inputs <- MCInputs
 Dev <- DevFirstKeeps
INVARIANT C01_Inv
CHECK_DEADLOCK FALSE
