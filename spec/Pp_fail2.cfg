SPECIFICATION Spec
CONSTANTS
 Cases <- MCCases
 MaxFail = 2
 DevItpBeforeLinks = FALSE
 DevGroBlockOrder = FALSE
 DevGateSkipped = FALSE
 DevJsonIdShift = FALSE
 DevContinueAfterFail = FALSE
INVARIANT TypeOK
INVARIANT E1
INVARIANT E1Gen
INVARIANT E2
INVARIANT E3
INVARIANT GateLaw
INVARIANT FinalLaw
INVARIANT MissingLaw
INVARIANT E4
CHECK_DEADLOCK FALSE
