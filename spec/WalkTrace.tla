----------------------------- MODULE WalkTrace -----------------------------
(* I->S for C17 / C04: event traces recorded from real BuildSystem / RandomWalk runs (harness/walk_util.py)  *)
(* are validated against Walk.  One trace = one run_system call.  Every event must be explained by the Walk  *)
(* action of the same name (Skip / SkipMolecule are silent steps taken between events); the set of           *)
(* positioned residues after the event and the set of engine rows that changed must be exactly what the      *)
(* action says.  All invariants of Walk are evaluated on every state of every accepted prefix.               *)
EXTENDS Walk, Restraints, Json, IOUtils
VARIABLES tid, l
Doc == JsonDeserialize(IOEnv.TRACE_FILE)
Traces == Doc
ASSUME TLCSet(1, {}) /\ TLCSet(2, [t \in 1..Len(Traces) |-> 0])
Hdr(t) == Traces[t].inst
HdrInst(h) == [nmol |-> h.nmol,
               nodes |-> [m \in 1..h.nmol |-> ToSet(h.nodes[m])],
               path |-> [m \in 1..h.nmol |-> [i \in 1..Len(h.path[m]) |-> <<h.path[m][i][1], h.path[m][i][2]>>]],
               root |-> [m \in 1..h.nmol |-> h.root[m]],
               attr |-> [m \in 1..h.nmol |-> ToSet(h.attr[m])],
               ignored |-> ToSet(h.ignored),
               nrewind |-> h.nrewind, maxiter |-> h.maxiter, maxattempts |-> h.maxattempts]
TraceInstances == { HdrInst(Hdr(t)) : t \in 1..Len(Traces) }
NoDev == [retryRemovesAll |-> FALSE, noCleanup |-> FALSE, rewindLeavesOne |-> FALSE, rewindResumesLate |-> FALSE]
Evs == Traces[tid].evs
Ev == Evs[l]
AllNodes == UNION {{<<m, n>> : n \in NodesOf[m]} : m \in 1..NMol}
\* observed state after the event = state after the action
PosMatches == \A m \in 1..NMol : ToSet(Ev.pos[m]) = IF m \in Ignored THEN {} ELSE {n \in NodesOf[m] : pos'[m][n] # "none"}
\* rows of the position table that changed = residues whose status changed (nothing else moves)
MovedMatches == {<<mv[1], mv[2]>> : mv \in ToSet(Ev.moved)} = {mn \in AllNodes : pos'[mn[1]][mn[2]] # pos[mn[1]][mn[2]]}
Is(e) == l <= Len(Evs) /\ Ev.ev = e
OfMol == Ev.mol = mol
\* numeric sub-claims of C05 evaluated by the harness monitor (DESIGN 6) are required on every accepted placement
\* (Ev.obs is a record of booleans; the raw numbers travel in Ev.raw and are not interpreted here).  C17's own monitors: `anchored`
\* (an accepted placement is one step from the position its neighbour has NOW) and `views` (after every roll-back - rewind, cleanup,
\* end of a walk, handled attempt - the engine's table, index lists, node->tree map and search trees describe the same residues)
ObsOK == IF "obs" \in DOMAIN Ev THEN \A f \in DOMAIN Ev.obs : Ev.obs[f] ELSE TRUE
\* C07: the restraints the code attached to the residue being placed are exactly those the build file selects for it
Bld == IF "bld" \in DOMAIN Traces[tid] THEN Traces[tid].bld ELSE <<>>
SelIds(m, n) == { Bld[i].id : i \in { j \in 1..Len(Bld) :
                     Sel(Bld[j], [name |-> Hdr(tid).mname[m], idx |-> m - 1], [rn |-> Hdr(tid).resname[m][n], resid |-> Hdr(tid).resid[m][n]]) } }
RidsOK(n) == IF "rids" \in DOMAIN Ev THEN ToSet(Ev.rids) = SelIds(mol, n) ELSE TRUE
Consume == PosMatches /\ MovedMatches /\ l' = l + 1 /\ tid' = tid
Silent == l' = l /\ tid' = tid

TInit == /\ tid \in 1..Len(Traces) /\ l = 1
         /\ Init /\ inst = HdrInst(Hdr(tid))
TNext == \/ (SkipMolecule /\ Silent)
         \/ (Skip /\ Silent)
         \/ (Is("begin") /\ OfMol /\ BeginAttempt /\ Consume)
         \/ (Is("root") /\ OfMol /\ Ev.node = Root /\ PlaceRootOk /\ ObsOK /\ RidsOK(Ev.node) /\ Consume)
         \/ (Is("rootfail") /\ OfMol /\ PlaceRootFail /\ Consume)
         \/ (Is("ok") /\ OfMol /\ step <= Len(Path) /\ Path[step] = <<Ev.prev, Ev.cur>> /\ PlaceOk /\ ObsOK /\ RidsOK(Ev.cur) /\ Consume)
         \/ (Is("fail") /\ OfMol /\ step <= Len(Path) /\ Path[step] = <<Ev.prev, Ev.cur>> /\ PlaceFail /\ Consume)
         \/ (Is("rewind") /\ OfMol /\ Rewind /\ Ev.to = step' /\ Len(Ev.placed) = Len(placed')
               /\ (\A i \in 1..Len(placed') : placed'[i] = <<Ev.placed[i][1], Ev.placed[i][2]>>) /\ ObsOK /\ Consume)
         \/ (Is("end") /\ OfMol /\ ~Ev.success /\ EndFail /\ ObsOK /\ Consume)
         \/ (Is("end") /\ OfMol /\ EndWalk /\ Ev.success = success /\ ObsOK /\ Consume)
         \/ (Is("cleanup") /\ OfMol /\ ToSet(Ev.nodes) = BuildSet(mol) /\ (AttemptFailed \/ GiveUp) /\ ObsOK /\ Consume)
         \/ (Is("handled") /\ OfMol /\ ~Ev.success /\ HandledFail /\ ObsOK /\ Consume)
         \/ (Is("handled") /\ OfMol /\ Ev.success /\ Accept /\ ObsOK /\ Consume)
         \/ (Is("finish") /\ Finish /\ ObsOK /\ Consume)
TSpec == TInit /\ [][TNext]_<<vars, tid, l>>
\* fails is model bookkeeping only: traces may contain any number of failures
Mark == (l = Len(Evs) + 1 /\ pc = "finished") => TLCSet(1, TLCGet(1) \cup {tid})
Prog == TLCSet(2, [TLCGet(2) EXCEPT ![tid] = IF @ < l - 1 THEN l - 1 ELSE @])
Accepted == IF TLCGet(1) = 1..Len(Traces) THEN TRUE
            ELSE (PrintT(<<"REJECTED", ToJson(SetToSeq({<<t, TLCGet(2)[t]>> : t \in (1..Len(Traces)) \ TLCGet(1)}))>>) /\ FALSE)
=============================================================================
