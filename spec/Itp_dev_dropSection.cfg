INIT MCInit
NEXT Next
CONSTANTS
 Mols = {}
 Dev = "dropSection"
 FixedOrder = TRUE
INVARIANT RoundTripI
INVARIANT FastAgrees
CHECK_DEADLOCK FALSE
