SPECIFICATION Spec
CONSTANTS
 Mols <- MCMols
 Dev = "dropSection"
 FixedOrder = TRUE
INVARIANT RoundTripI
CHECK_DEADLOCK FALSE
