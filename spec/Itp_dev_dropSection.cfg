SPECIFICATION Spec
CONSTANTS
 Mols <- MolsDev
 Dev = "dropSection"
 FixedOrder = TRUE
INVARIANT RoundTripI
CHECK_DEADLOCK FALSE
