INIT MCInit
NEXT Next
CONSTANTS
 Mols = {}
 Dev = "dropSection"
 FixedOrder = TRUE
INVARIANT RoundTripI
CHECK_DEADLOCK FALSE
