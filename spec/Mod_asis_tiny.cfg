INIT MCInitTiny
NEXT Next
CONSTANTS
 Inputs = {}
 LibOf <- MCLibOf
 Dev <- DevAsIsAll
 FreeOrder = TRUE
INVARIANT IntendedUnlessFired
INVARIANT Frame
PROPERTY ReplaceLaw
CHECK_DEADLOCK FALSE
