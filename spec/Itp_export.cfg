INIT MCInit
NEXT XNext
CONSTANTS
 Mols = {}
 Dev = "none"
 FixedOrder = TRUE
INVARIANT LawsAtStart
INVARIANT ExportInv
CHECK_DEADLOCK FALSE
