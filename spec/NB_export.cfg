SPECIFICATION XSpec
CONSTANTS
 Nodes <- MCNodes
 MolOf <- MCMolOf
 Pts <- MCPts
 LX = 3
 LY = 3
 LZ = 3
 Cut2 = 1
 Thr = 5000
 Filler = 0
 DevReadd = FALSE
 MaxOps = 3
INVARIANT Views
INVARIANT QueriesAgree
INVARIANT ExportInv
CHECK_DEADLOCK FALSE
