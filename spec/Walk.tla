------------------------------- MODULE Walk -------------------------------
(***************************************************************************)
(* C17 / C04 - placement of the residues of every molecule by a random     *)
(* walk with rewind (random_walk.py) inside the retry loops of             *)
(* BuildSystem (build_system.py).                                          *)
(*                                                                         *)
(* I-layer: one action per step of the code.  The outcome of a single      *)
(* placement (update_positions / start point accepted or not) is a         *)
(* nondeterministic choice - the failure schedule.  Positions are abstract *)
(* ("none" / "supplied" / "built"): which residues are positioned is what  *)
(* the properties talk about; the geometry is C05's business.              *)
(*                                                                         *)
(*   BuildSystem._compose_system   : SkipMolecule, BeginAttempt, Accept,   *)
(*                                   Finish                                *)
(*   BuildSystem._handle_random_walk : AttemptFailed, GiveUp               *)
(*   RandomWalk._random_walk       : PlaceRootOk, PlaceRootFail, Skip,     *)
(*                                   PlaceOk, PlaceFail, Rewind, EndFail,  *)
(*                                   EndWalk                               *)
(***************************************************************************)
EXTENDS Integers, Sequences, FiniteSets, TLC

CONSTANTS Instances,   \* set of instance records (see below); one is chosen in the initial state
          MaxFail,     \* model bound: total number of failing placements in a behaviour (negative: unbounded)
          Dev          \* record of deviation flags (all FALSE = the design as intended)

VARIABLE inst          \* the instance being built (never changes)
NMol        == inst.nmol         \* molecules are 1..NMol, built in this order
NodesOf     == inst.nodes        \* m -> set of residue nodes
PathOf      == inst.path         \* m -> Seq(<<prev, cur>>): edges of the search tree in walk order
RootOf      == inst.root         \* m -> first node of the walk
AttrOf      == inst.attr         \* m -> nodes carrying a static "position" attribute (supplied coordinates, build = FALSE)
Ignored     == inst.ignored      \* set of molecules named in -ign
NRewind     == inst.nrewind      \* RandomWalk.nrewind
MaxIter     == inst.maxiter      \* RandomWalk.maxiter  (consecutive failures tolerated)
MaxAttempts == inst.maxattempts  \* BuildSystem.maxiter (attempts per call of _handle_random_walk)

VARIABLES pos,      \* m -> node -> "none" | "supplied" | "built"     (engine positions)
          placed,   \* Seq(<<step, node>>) of the running walk, including a failed one at the tail
          step,     \* index into the path of the current molecule (1-based)
          count,    \* RandomWalk count (consecutive failures + 1)
          attempt,  \* step_count of _handle_random_walk
          fails,    \* model bookkeeping for MaxFail
          mol,      \* index of the molecule being built (NMol + 1 when done)
          success,  \* RandomWalk.success
          pc        \* "idle" | "begun" | "walk" | "failed" | "ended" | "gaveup" | "done" | "finished"
vars == <<inst, pos, placed, step, count, attempt, fails, mol, success, pc>>

Mols == 1..NMol
Build(m, n) == n \notin AttrOf[m]
BuildSet(m) == NodesOf[m] \ AttrOf[m]
Path == PathOf[mol]
Root == RootOf[mol]

Init == /\ inst \in Instances
        /\ pos = [m \in Mols |-> [n \in NodesOf[m] |-> IF n \in AttrOf[m] THEN "supplied" ELSE "none"]]
        /\ placed = <<>> /\ step = 1 /\ count = 0 /\ attempt = 0 /\ fails = 0
        /\ mol = 1 /\ success = FALSE /\ pc = "idle"

SetPos(m, S, v) == [pos EXCEPT ![m] = [n \in NodesOf[m] |-> IF n \in S THEN v ELSE pos[m][n]]]

(* ---------------- BuildSystem._compose_system ---------------- *)
\* ignored molecules and molecules whose residues all carry coordinates are skipped
SkipMolecule == /\ pc = "idle" /\ mol <= NMol
                /\ (mol \in Ignored \/ AttrOf[mol] = NodesOf[mol])
                /\ mol' = mol + 1
                /\ UNCHANGED <<inst, pos, placed, step, count, attempt, fails, success, pc>>

\* _handle_random_walk: a new RandomWalk processor for this attempt
BeginAttempt == /\ pc = "idle" /\ mol <= NMol
                /\ ~(mol \in Ignored \/ AttrOf[mol] = NodesOf[mol])
                /\ placed' = <<>> /\ step' = 1 /\ count' = 0 /\ success' = FALSE
                /\ pc' = "begun"
                /\ UNCHANGED <<inst, pos, attempt, fails, mol>>

(* ---------------- RandomWalk._random_walk ---------------- *)
NeedRoot == Root \notin AttrOf[mol]
PlaceRootOk == /\ pc = "begun" /\ NeedRoot
               /\ pos' = SetPos(mol, {Root}, "built")
               /\ success' = TRUE /\ pc' = "walk"
               /\ UNCHANGED <<inst, placed, step, count, attempt, fails, mol>>
\* MaxFail < 0: no bound on the number of failures (the state space is finite without it: `fails` is the only counter that grows)
CanFail == MaxFail < 0 \/ fails < MaxFail
Bump == IF MaxFail < 0 THEN fails ELSE fails + 1
PlaceRootFail == /\ pc = "begun" /\ NeedRoot /\ CanFail
                 /\ fails' = Bump /\ success' = FALSE /\ pc' = "ended"
                 /\ UNCHANGED <<inst, pos, placed, step, count, attempt, mol>>
CanWalk == pc = "walk" \/ (pc = "begun" /\ ~NeedRoot)

Skip == /\ CanWalk /\ step <= Len(Path) /\ ~Build(mol, Path[step][2])
        /\ step' = step + 1 /\ pc' = "walk"
        /\ UNCHANGED <<inst, pos, placed, count, attempt, fails, mol, success>>

PlaceOk == /\ CanWalk /\ step <= Len(Path) /\ Build(mol, Path[step][2])
           /\ pos' = SetPos(mol, {Path[step][2]}, "built")
           /\ placed' = Append(placed, <<step, Path[step][2]>>)
           /\ success' = TRUE /\ count' = 1 /\ step' = step + 1 /\ pc' = "walk"
           /\ UNCHANGED <<inst, attempt, fails, mol>>

PlaceFail == /\ CanWalk /\ step <= Len(Path) /\ Build(mol, Path[step][2]) /\ CanFail
             /\ fails' = Bump
             /\ placed' = Append(placed, <<step, Path[step][2]>>)
             /\ success' = FALSE /\ pc' = "failed"
             /\ UNCHANGED <<inst, pos, step, count, attempt, mol>>

\* _rewind: the last NRewind entries are dropped; all of them but the failed tail lose their position
RewindDrop == IF Dev.rewindLeavesOne THEN NRewind - 1 ELSE NRewind
Rewind == /\ pc = "failed" /\ count < MaxIter /\ Len(placed) >= NRewind + 1
          /\ LET n    == Len(placed)
                 gone == { placed[i][2] : i \in (n - RewindDrop + 1)..(n - 1) }
             IN /\ pos' = SetPos(mol, gone, "none")
                /\ step' = placed[n - NRewind + 1][1] + (IF Dev.rewindResumesLate THEN 1 ELSE 0)
                /\ placed' = SubSeq(placed, 1, n - NRewind)
          /\ count' = count + 1 /\ pc' = "walk"
          /\ UNCHANGED <<inst, attempt, fails, mol, success>>

EndFail == /\ pc = "failed" /\ (count >= MaxIter \/ Len(placed) < NRewind + 1)
           /\ pc' = "ended"
           /\ UNCHANGED <<inst, pos, placed, step, count, attempt, fails, mol, success>>

EndWalk == /\ CanWalk /\ step > Len(Path)
           /\ pc' = IF success THEN "done" ELSE "ended"
           /\ UNCHANGED <<inst, pos, placed, step, count, attempt, fails, mol, success>>

(* ---------------- BuildSystem._handle_random_walk ---------------- *)
\* what a failed attempt removes: the residues that were to be built (repaired F5; the deviation removes all)
CleanSet == IF Dev.retryRemovesAll THEN NodesOf[mol] ELSE BuildSet(mol)
Cleaned == IF Dev.noCleanup THEN pos ELSE SetPos(mol, CleanSet, "none")
AttemptFailed == /\ pc = "ended" /\ attempt < MaxAttempts
                 /\ pos' = Cleaned
                 /\ attempt' = attempt + 1 /\ pc' = "idle"
                 /\ UNCHANGED <<inst, placed, step, count, fails, mol, success>>
\* all attempts used: clean up ...
GiveUp == /\ pc = "ended" /\ attempt = MaxAttempts
          /\ pos' = Cleaned
          /\ pc' = "gaveup"
          /\ UNCHANGED <<inst, placed, step, count, attempt, fails, mol, success>>
\* ... and report failure; _compose_system calls _handle_random_walk again for the same molecule
HandledFail == /\ pc = "gaveup"
               /\ attempt' = 0 /\ pc' = "idle"
               /\ UNCHANGED <<inst, pos, placed, step, count, fails, mol, success>>

Accept == /\ pc = "done"
          /\ mol' = mol + 1 /\ attempt' = 0 /\ pc' = "idle"
          /\ UNCHANGED <<inst, pos, placed, step, count, fails, success>>

Finish == /\ pc = "idle" /\ mol = NMol + 1
          /\ pc' = "finished"
          /\ UNCHANGED <<inst, pos, placed, step, count, attempt, fails, mol, success>>

Step == \/ SkipMolecule \/ BeginAttempt \/ PlaceRootOk \/ PlaceRootFail \/ Skip \/ PlaceOk \/ PlaceFail
        \/ Rewind \/ EndFail \/ EndWalk \/ AttemptFailed \/ GiveUp \/ HandledFail \/ Accept \/ Finish
Next == Step
Spec == Init /\ [][Next]_vars
FairSpec == Spec /\ WF_vars(Next)

(* ------------------------------------------------------------------ *)
(* P-layer: what the user relies on                                   *)
(* ------------------------------------------------------------------ *)
TypeOK == /\ mol \in 1..(NMol + 1)
          /\ pc \in {"idle", "begun", "walk", "failed", "ended", "gaveup", "done", "finished"}
          /\ \A m \in Mols : \A n \in NodesOf[m] : pos[m][n] \in {"none", "supplied", "built"}

\* nodes successfully placed by the running walk (a failed placement sits at the tail of `placed`)
PlacedOk == { placed[i][2] : i \in 1..(IF pc \in {"failed", "ended"} /\ ~success /\ Len(placed) > 0 THEN Len(placed) - 1 ELSE Len(placed)) }
Walking == mol <= NMol /\ pc \in {"walk", "failed"}
\* while walking the built residues of the molecule are exactly the placed root and the placed nodes still on record:
\* everything discarded by a rewind has been removed from the system
RolledBack == Walking => \A n \in NodesOf[mol] :
                 (pos[mol][n] = "built") <=> ((n = Root /\ NeedRoot) \/ n \in PlacedOk)
\* an attempt starts from a system that holds nothing of an abandoned attempt
AttemptClean == (mol <= NMol /\ pc \in {"idle", "begun"}) => \A n \in NodesOf[mol] : pos[mol][n] # "built"
\* residues are only ever grown from an already positioned neighbour (numeric part, checked on every recorded placement by the
\* harness monitor `anchored` and required by WalkTrace through ObsOK: the new position is one step from the position the
\* neighbour has in the engine at that moment - not from one it had before a rewind took it back)
GrowFromPositioned == (mol <= NMol /\ CanWalk /\ step <= Len(Path) /\ Build(mol, Path[step][2]))
                         => pos[mol][Path[step][1]] # "none"
\* supplied coordinates are never discarded (C04)
SuppliedKept == \A m \in Mols : \A n \in AttrOf[m] : pos[m][n] = "supplied"
\* positions of previously accepted molecules (and of ignored ones) never change
AcceptedStable == [][\A m \in Mols : (m < mol \/ m \in Ignored) => pos'[m] = pos[m]]_vars
\* molecules that are not being built are not touched either (the engine is only changed for the current molecule)
OnlyCurrent == [][\A m \in Mols : m # mol => pos'[m] = pos[m]]_vars
\* when building ends successfully every residue of every built molecule has exactly one position
Final == pc = "finished" => \A m \in Mols \ Ignored : \A n \in NodesOf[m] : pos[m][n] # "none"
\* rewinding resumes at a step whose node is unpositioned again (nothing is placed twice)
NoDoublePlacement == (mol <= NMol /\ CanWalk /\ step <= Len(Path) /\ Build(mol, Path[step][2]))
                         => pos[mol][Path[step][2]] = "none"
\* liveness under fairness: with a bounded number of failures building ends (every residue placed)
Terminates == <>(pc = "finished")
=============================================================================
