SPECIFICATION Spec
CONSTANTS
 Instances <- MCInstances
 MaxFail <- Unlimited
 Dev <- NoDev
INVARIANT TypeOK
INVARIANT RolledBack
INVARIANT AttemptClean
INVARIANT GrowFromPositioned
INVARIANT SuppliedKept
INVARIANT Final
INVARIANT NoDoublePlacement
PROPERTY AcceptedStable
PROPERTY OnlyCurrent
CHECK_DEADLOCK FALSE
