SPECIFICATION FullSpec
CONSTANTS
 DevChoices <- NoDev
INVARIANT MolListUnchanged
INVARIANT Correct
PROPERTY HandBack
PROPERTY AnnotateOnlyAdds
CHECK_DEADLOCK FALSE
