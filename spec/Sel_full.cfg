SPECIFICATION FullSpec
CONSTANTS
 DevChoices <- NoDev
INVARIANT ErrOK
INVARIANT MolListUnchanged
INVARIANT Correct
PROPERTY NodesStable
PROPERTY HandBack
PROPERTY AnnotateOnlyAdds
CHECK_DEADLOCK FALSE
