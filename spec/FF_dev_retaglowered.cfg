SPECIFICATION Spec
CONSTANTS
 Inputs <- MCInputs
 Dev <- DevRetagLowered
INVARIANT C14_Inv
CHECK_DEADLOCK FALSE
