----------------------------- MODULE FF_EX -----------------------------
(* instance EX (C14): mixed exclusion distances together with copies of the two-residue block: all connected graphs on 3       *)
(* residues with kinds over {A, B, XX-pair} (cyclic ones included; first residue id 1 and 5) and chains of 5..6 residues with two separate fragments      *)
EXTENDS FFExport
MCFFs == << MkFF(<<BlockE("A", "TA", 2, 1, 1), BlockE("B", "TB", 3, 3, 2), BlockXX(2, 1, 2)>>, LinkSetE(2), <<>>),
            MkFF(<<BlockE("A", "TA", 3, 4, 3), BlockE("B", "TB", 1, 0, 1), BlockXX(1, 2, 1)>>, LinkSetE(3), <<>>) >>
KindsX == {<<"X", "X", "A", "X", "X">>, <<"X", "X", "B", "X", "X">>, <<"A", "X", "X", "B", "X", "X">>}
MCInputs == GraphInputs(MCFFs, {1, 2}, {3}, {1, 5}, {"A", "B", "X"})
            \cup {I \in {MkInpF(MCFFs, ff, Len(kv), 1, kv, E, <<>>) : ff \in {1, 2}, kv \in KindsX, E \in {Chain(5), Chain(6), Chain(5) \cup {<<1, 5>>}}} :
                    Len(I.rn) = I.n /\ (\A e \in ToSet(I.edges) : e[2] <= I.n) /\ (\E e \in ToSet(I.edges) : e[2] = I.n) /\ DomOK(I)}
ASSUME PrintT(<<"FFS", ToJson(MCFFs)>>)
=============================================================================
