SPECIFICATION Spec
CONSTANTS
 Fam = "Xfull"
 Cases <- CasesXSmall
 DevMono = FALSE
 DevNoOrder = FALSE
 DevNoLinktype = FALSE
 DevFirstWins = FALSE
 DevAmbig = FALSE
 DevNoNonEdge = FALSE
 DevNoPattern = FALSE
 DevKeepRemoved = FALSE
 DevF13 = FALSE
 DevVerKey = FALSE
 DevDangEnd = FALSE
 DevRepBeforePattern = FALSE
 DevLastOfName = FALSE
 DevNoAtomResname = FALSE
 DevNonEdgeNoWide = FALSE
 DevNonEdgeNoResname = FALSE
 DevOrderedPairs = FALSE
 DevGateOnce = FALSE
 DevGateStopsAtIgnored = FALSE
 DevSkipSameItp = FALSE
 DevGateBuildOnly = FALSE
 DevMissingCache = FALSE
 DevMissingBeforeExplicit = FALSE
 DevDegree = FALSE
INVARIANT FinalIsExpected
INVARIANT CallsSound
INVARIANT MissingIsExpected
INVARIANT BondXorMissing
CHECK_DEADLOCK FALSE
