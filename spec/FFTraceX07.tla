----------------------------- MODULE FFTraceX07 -----------------------------
(* X07 - records of MapToMolecule.run_molecule (and, where the same meta-molecule went on through ApplyLinks and             *)
(* ApplyModifications, of the whole gen_params pipeline) taken from the repository's OWN test suite by                       *)
(* harness/pytest_trace_plugin_params.py.  FFTrace is used unchanged (base = I-layer state after MapToMolecule = PBase,       *)
(* final = I-layer state = PFinal with the observed link applications); three verdicts are added:                             *)
(*   dom    whether the recorded input lies inside the domain FFMap states (DomOK) - the tests also feed inputs that the     *)
(*          code must refuse (a multi-residue block without from_itp labels, a fragment that lacks a residue); such records   *)
(*          are counted as "outside the modelled domain" by the driver, never forced into the specification                  *)
(*   edges  the atom edges of the freshly mapped molecule = the I-layer's medges = the P-layer's PBase.edges                  *)
(*          (Base_Inv compares them at design level; FFTrace itself does not look at the observed edges)                      *)
(*   excl   the exclusion distance of the freshly mapped molecule and the per-atom "exclude" tags = the I-layer's molN and    *)
(*          atoms[g].ex after TagExclusions / AddBlock (mixed exclusion distances: every block lowered to the minimum, the    *)
(*          atoms tagged with the distance their block prescribes; -1 = no tag) - the state C14_Inv is proved from            *)
EXTENDS FFTrace

ObsEdgeSet(o) == {{o.edges[j][1], o.edges[j][2]} : j \in DOMAIN o.edges}
EdgeVerdict ==
  LET o == Obs.base IN
    IF ~DomOK(inp) THEN "out-of-domain"
    ELSE IF err # "" THEN "model-error:" \o err
    ELSE LET E == ObsEdgeSet(o) IN
         IF E # medges THEN "base/I:edges"
         ELSE IF E # PBase(inp).edges THEN "base/P:edges"
         ELSE IF Len(o.edges) # Cardinality(E) THEN "base:duplicate-edge"
         ELSE "ok"
ExclTagVerdict ==
  LET o == Obs.base IN
    IF ~DomOK(inp) THEN "out-of-domain"
    ELSE IF err # "" THEN "model-error:" \o err
    ELSE IF o.nrexcl # molN THEN "base/I:nrexcl"
    ELSE IF Len(o.ex) # Len(atoms) \/ \E g \in DOMAIN atoms : o.ex[g] # atoms[g].ex THEN "base/I:exclude-tags"
    ELSE "ok"
MarkDom == (pc = "match") => Rec("dom", IF DomOK(inp) THEN "in" ELSE "out")
MarkEdges == (pc = "links") => Rec("edges", IF Obs.hasBase THEN EdgeVerdict ELSE "no-observation")
MarkExcl == (pc = "links") => Rec("excl", IF Obs.hasBase THEN ExclTagVerdict ELSE "no-observation")
=============================================================================
