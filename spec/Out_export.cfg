SPECIFICATION XSpec
CONSTANTS
 Variants <- MCVariants
 NBk = 4
 Inits <- MCInits
 InoutInits <- MCInoutInits
 DevInits <- MCDevInits
 RouteInits <- MCRouteInits
 Runs = 1
 QueuePersists = FALSE
 Crash1 <- MCNone
 Crash2 <- MCNone
 Targets2 <- MCTargets1
 DevPlainOpen = FALSE
 DevFlushEarly = FALSE
 DevBackupOverwrite = FALSE
 DevNoBackup = FALSE
 DevSeqOpenEarly = FALSE
 DevLinkDirect = FALSE
 DevBackupCount = FALSE
 DevInplaceInput = FALSE
 DevMoveBeforeClose = FALSE
 DevRouteDiscard = FALSE
 DevStageFallback = FALSE
 DevBackupSkip = FALSE
 EnvInits <- MCEnvInits
INVARIANT NoEarlyEffect
INVARIANT SuccessState
INVARIANT OthersKept
INVARIANT OnlyBackupCreated
INVARIANT NoLoss
INVARIANT BackupResolves
INVARIANT TargetWhole
INVARIANT TmpClean
INVARIANT EnvFailClean
INVARIANT SuccessHasBackup
INVARIANT BoundOK
PROPERTY CommitOnly
CHECK_DEADLOCK FALSE
INVARIANT ExportInv
