INIT MCInitTiny
NEXT Next
CONSTANTS
 Inputs = {}
 LibOf <- MCLibOf
 Dev <- DevTrunc2
 FreeOrder = TRUE
INVARIANT ResolveLaw
CHECK_DEADLOCK FALSE
