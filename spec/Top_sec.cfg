SPECIFICATION MCSpec
CONSTANTS
 FsOf <- MCFs
 MainOf <- MCMainOf
 Fuel = 4
 Which = "sec"
 MaxChunks = 3
 First = {}
 DevF3 = FALSE
 DevMolsPerFile = FALSE
 DevDirKeep = FALSE
 DevElseKeep = FALSE
 DevRootFirst = FALSE
 DevEdgesNewOnly = FALSE
CHECK_DEADLOCK FALSE
INVARIANT SameX
INVARIANT NoStruct
INVARIANT DoneEmpty
INVARIANT CondOnlyGuards
INVARIANT DomainOK
INVARIANT ErrIff
PROPERTY Monotone
