SPECIFICATION Spec
CONSTANTS
 Fam = "sensds"
 P1 = 0
 P2 = 0
 Dev = {"StartByKey"}
INVARIANT Shape
INVARIANT Final
INVARIANT RoundTrip
INVARIANT OrigKept
INVARIANT Laws
PROPERTY Grows
CHECK_DEADLOCK FALSE
