SPECIFICATION Spec
CONSTANTS
 Grid <- MCGrid
 DevMap = FALSE
 DevArgs = FALSE
 DevHarm = FALSE
INVARIANT AgreesWithGromacs
INVARIANT Symmetric
INVARIANT SelfPair
INVARIANT SecondColumnGeometric
INVARIANT MeanOrder
INVARIANT DeviationExtent
INVARIANT Swapped23
CHECK_DEADLOCK FALSE
