---------------------------- MODULE ItpRoundTripExport ----------------------------
(* S->I export for C11: one CASE per abstract molecule of the instance: the molecule (to be rendered as a force field and a  *)
(* residue graph), its projection with the admissible listings of every interaction, the missing residue links, the requested  *)
(* residue graph, and what the specification's own Write/Read gives (pred, used only to classify known findings exactly).    *)
EXTENDS MC_ItpRoundTrip
IntEdges(E) == SetToSeq({SetToSortSeq(e, <) : e \in E})
StrEdges(E) == SetToSeq({SetToSeq(e) : e \in E})
GraphJson(g) == [nodes |-> SetToSeq(g.nodes), edges |-> StrEdges(g.edges)]
ExpOf(m) == LET p == Project(m) IN
    [name |-> p.name, nrexcl |-> p.nrexcl, atoms |-> p.atoms,
     inter |-> [i \in DOMAIN p.inter |-> [sec |-> p.inter[i].sec, alts |-> SetToSeq(Alts(p.inter[i].sec, p.inter[i].atoms)),
                                           par |-> p.inter[i].par, gk |-> p.inter[i].gk, gtag |-> p.inter[i].gtag]]]
PredOf(m) == LET r == Read(Write(m)) IN
    [ok |-> r.ok, name |-> r.name, nrexcl |-> r.nrexcl, atoms |-> r.atoms,
     inter |-> [i \in DOMAIN r.inter |-> [sec |-> r.inter[i].sec, alts |-> SetToSeq(Alts(r.inter[i].sec, r.inter[i].atoms)),
                                           par |-> r.inter[i].par, gk |-> r.inter[i].gk, gtag |-> r.inter[i].gtag]],
     rg |-> GraphJson(ReadResGraph(r)),
     \* which clause of the law fails for this molecule in the specification itself (names of the known findings)
     finding |-> IF r.atoms # Project(m).atoms THEN "mass-without-charge"
                 ELSE IF ~BagEqMod(r.inter, Project(m).inter) THEN "angle-restraints-z-reversed"
                 ELSE IF ~ResGraphLaw(m) THEN "residue-edge-without-bond" ELSE ""]
\* pred (what the specification's own Write/Read give) is exported only where a law fails: it classifies known findings exactly
CaseOf(m) == LET holds == RoundTrip(m) /\ ResGraphLaw(m) IN
    [mol |-> [name |-> m.name, nrexcl |-> m.nrexcl, atoms |-> m.atoms, inter |-> m.inter, edges |-> IntEdges(m.edges),
              rnodes |-> SetToSeq(m.rnodes), redges |-> IntEdges(m.redges)],
     exp |-> ExpOf(m), missing |-> IntEdges(Missing(m)), rg |-> GraphJson(Requested(m)),
     law |-> RoundTrip(m), rglaw |-> ResGraphLaw(m),
     pred |-> IF holds THEN [ok |-> TRUE, finding |-> ""] ELSE PredOf(m)]
ExportInv == pc = "start" => PrintT(<<"CASE", ToJson(CaseOf(mol))>>)
CountInv == pc = "start" => TRUE
=============================================================================
