SPECIFICATION MCSpec
CONSTANTS
 FsOf <- MCFs
 MainOf <- MCMainOf
 Fuel = 4
 Which = "split"
 MaxChunks = 3
 First = {}
 DevF3 = FALSE
 DevMolsPerFile = TRUE
 DevDirKeep = FALSE
 DevElseKeep = FALSE
 DevRootFirst = FALSE
 DevEdgesNewOnly = FALSE
CHECK_DEADLOCK FALSE
INVARIANT Same
