SPECIFICATION Spec
CONSTANTS
 Configs <- MCQuick
 DevUserLast = FALSE
 DevFirstWins = FALSE
 DevBibMerge = TRUE
 DevSplitAll = FALSE
 DevTmplMerge = FALSE
 DevSkipUserUnknown = FALSE
INVARIANT StoreIsDeclarative
CHECK_DEADLOCK FALSE
