SPECIFICATION Spec
CONSTANTS
 Configs <- MCFFListingB
 DevUserLast = FALSE
 DevFirstWins = FALSE
 DevBibMerge = TRUE
 DevSplitAll = FALSE
 DevTmplMerge = FALSE
 DevSkipUserUnknown = FALSE
 DevIdReuse = FALSE
INVARIANT StoreIsDeclarative
CHECK_DEADLOCK FALSE
