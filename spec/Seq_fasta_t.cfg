SPECIFICATION XSpec
CONSTANTS
 Fam = "fasta"
 P1 = 4
 P2 = 4
 Dev = {}
INVARIANT Shape
INVARIANT Final
INVARIANT RoundTrip
INVARIANT OrigKept
INVARIANT Laws
INVARIANT ExportInv
PROPERTY Grows
CHECK_DEADLOCK FALSE
