---------------------------- MODULE TopReadMC ----------------------------
(* Exhaustive instances of TopRead (C08) and the S->I export.  An input is a sequence of chunk ids; every chunk   *)
(* keeps the generated main file well-formed by construction (balanced, un-nested conditionals; only #include /   *)
(* #error inside a conditional).  Which selects the chunk alphabet and the fixed include files:                   *)
(*  "cond"  DESIGN 4.8: define, moleculetype, table line, includes (root file, sub-directory file that defines M  *)
(*          and includes ../a.itp and its own sibling a.itp - a name that also exists beside the main file -,     *)
(*          a file with its own conditional #error after a moleculetype) and all                                  *)
(*          #ifdef/#ifndef M [#else] forms over the bodies {empty, include a, include sub/b, #error, include c}    *)
(*  "sec"   section order / overriding: defaults, atom types, bond types, nonbond_params, valued defines, tables   *)
(*          coming from (nested) includes, conditionals on a valued macro and on a never-defined macro            *)
(*  "mols"  [ molecules ] lists with repeated names and counts 0..3 over three molecule types                     *)
(*  "split" [ molecules ] entries spread over several files (repaired finding F16 molecules-per-file)            *)
EXTENDS TopRead, Json

CONSTANTS Which, MaxChunks,
          First   \* ids allowed as first chunk of a main of maximal length ({} = all): sub-instance for the quick tier

inc(p) == L("incl", "", 0, p)
Cond(kk, m, body) == <<L(kk, m, 0, <<>>)>> \o body \o <<L("endif", "", 0, <<>>)>>
CondElse(kk, m, b1, b2) == <<L(kk, m, 0, <<>>)>> \o b1 \o <<L("else", "", 0, <<>>)>> \o b2 \o <<L("endif", "", 0, <<>>)>>
\* all conditional forms over a body list: per kind  |B| forms without and |B|^2 forms with #else
CondForms(m, B) == LET nb == Len(B) per == nb + nb * nb IN
  [i \in 1..(2 * per) |->
     LET kk == IF i <= per THEN "ifdef" ELSE "ifndef"
         j  == (i - 1) % per
     IN IF j < nb THEN Cond(kk, m, B[j + 1])
        ELSE CondElse(kk, m, B[((j - nb) \div nb) + 1], B[((j - nb) % nb) + 1])]

Hdr == <<L("defaults", "", 1, <<>>), L("atype", "P", 1, <<>>)>>

(* ---- "cond" *)
FA == <<L("atype", "TA", 1, <<>>), L("mol", "C", 2, <<>>)>>
\* the relative name a.itp exists beside the main file (FA) and in sub/ (FSA) with different content: sub/b.itp names both
FSA == <<L("atype", "TS", 1, <<>>)>>
FB == <<L("def", "M", 0, <<>>), inc(<<"..", "a.itp">>), inc(<<"a.itp">>)>>
FC == <<L("mol", "D", 1, <<>>), L("ifdef", "M", 0, <<>>), L("err", "", 0, <<>>), L("else", "", 0, <<>>), inc(<<"a.itp">>), L("endif", "", 0, <<>>)>>
CondBodies == << <<>>, <<inc(<<"a.itp">>)>>, <<inc(<<"sub", "b.itp">>)>>, <<L("err", "", 0, <<>>)>>, <<inc(<<"c.itp">>)>> >>
CondChunks == << <<L("def", "M", 0, <<>>)>>, <<L("mol", "A", 1, <<>>)>>, <<L("atype", "T1", 1, <<>>)>>,
                 <<inc(<<"a.itp">>)>>, <<inc(<<"sub", "b.itp">>)>>, <<inc(<<"c.itp">>)>> >> \o CondForms("M", CondBodies)
CondFiles == <<[path |-> <<"a.itp">>, lines |-> FA], [path |-> <<"sub", "b.itp">>, lines |-> FB], [path |-> <<"c.itp">>, lines |-> FC],
               [path |-> <<"sub", "a.itp">>, lines |-> FSA]>>

(* ---- "sec" *)
FT == <<L("atype", "T", 2, <<>>), L("btype", "PQ", 2, <<>>), L("nbp", "PQ", 2, <<>>), L("defaults", "", 2, <<>>), L("def", "K", 2, <<>>)>>
FU == <<inc(<<"..", "t.itp">>), L("atype", "T", 3, <<>>), L("mol", "B", 2, <<>>)>>
SecChunks == << <<L("defaults", "", 1, <<>>)>>, <<L("defaults", "", 3, <<>>)>>, <<L("atype", "T", 1, <<>>)>>, <<L("atype", "U", 1, <<>>)>>,
                <<L("btype", "PQ", 1, <<>>)>>, <<L("btype", "PR", 1, <<>>)>>, <<L("nbp", "PQ", 1, <<>>)>>,
                <<L("def", "K", 1, <<>>)>>, <<L("def", "K", 0, <<>>)>>, <<inc(<<"t.itp">>)>>, <<inc(<<"sub", "u.itp">>)>>,
                <<L("mol", "A", 1, <<>>)>>, <<L("mol", "B", 2, <<>>)>>,
                Cond("ifdef", "K", <<inc(<<"t.itp">>)>>), Cond("ifndef", "K", <<inc(<<"t.itp">>)>>),
                Cond("ifdef", "N", <<inc(<<"t.itp">>)>>), CondElse("ifdef", "N", <<L("err", "", 0, <<>>)>>, <<inc(<<"sub", "u.itp">>)>>) >>
SecFiles == <<[path |-> <<"t.itp">>, lines |-> FT], [path |-> <<"sub", "u.itp">>, lines |-> FU]>>

(* ---- "mols" *)
Names3 == <<"A", "B", "C">>
MolsChunks == [i \in 1..12 |-> <<L("mols", Names3[((i - 1) \div 4) + 1], (i - 1) % 4, <<>>)>>]
\* C (a.itp) is read twice, through main and through sub/r.itp; B is declared by sub/r.itp and again by main
FR == <<inc(<<"..", "a.itp">>), L("mol", "B", 2, <<>>)>>
MolsPrefix == <<L("mol", "A", 1, <<>>), L("mol", "B", 2, <<>>), inc(<<"a.itp">>), inc(<<"sub", "r.itp">>)>>
MolsFiles == <<[path |-> <<"a.itp">>, lines |-> FA], [path |-> <<"sub", "r.itp">>, lines |-> FR]>>

(* ---- "split" *)
FM == <<L("mols", "C", 2, <<>>)>>
FN == <<L("mol", "E", 1, <<>>), L("mols", "E", 1, <<>>)>>
FO == <<L("mols", "A", 1, <<>>)>>
SplitChunks == << <<L("mol", "A", 1, <<>>)>>, <<inc(<<"a.itp">>)>>, <<inc(<<"m.itp">>)>>, <<inc(<<"n.itp">>)>>, <<inc(<<"o.itp">>)>>,
                  <<L("mols", "A", 1, <<>>)>>, <<L("mols", "C", 1, <<>>)>>, <<L("mols", "A", 2, <<>>)>> >>
SplitFiles == <<[path |-> <<"a.itp">>, lines |-> FA], [path |-> <<"m.itp">>, lines |-> FM], [path |-> <<"n.itp">>, lines |-> FN],
                [path |-> <<"o.itp">>, lines |-> FO]>>

Chunks == CASE Which = "cond" -> CondChunks [] Which = "sec" -> SecChunks [] Which = "mols" -> MolsChunks [] Which = "split" -> SplitChunks
Files  == CASE Which = "cond" -> CondFiles  [] Which = "sec" -> SecFiles  [] Which = "mols" -> MolsFiles  [] Which = "split" -> SplitFiles
Prefix == IF Which = "mols" THEN Hdr \o MolsPrefix ELSE Hdr
NC == Len(Chunks)

MainPath == <<"main.top">>
MainLines(ids) == Prefix \o FlattenSeq([i \in 1..Len(ids) |-> Chunks[ids[i]]])
FilePaths == {Files[i].path : i \in 1..Len(Files)}
MCFs(ids) == [p \in {MainPath} \cup FilePaths |->
                IF p = MainPath THEN MainLines(ids) ELSE Files[CHOOSE i \in 1..Len(Files) : Files[i].path = p].lines]
MCMainOf(ids) == MainPath

AllMains == UNION { IF k = MaxChunks /\ First # {} THEN {s \in [1..k -> 1..NC] : s[1] \in First} ELSE [1..k -> 1..NC] : k \in 0..MaxChunks }

Mains == IF Which = "split" THEN {s \in AllMains : DeclaredBefore(Flat(MCFs(s), MainPath))} ELSE AllMains

ASSUME PrintT(<<"ALPHABET", ToJson([which |-> Which, prefix |-> Prefix, chunks |-> Chunks, files |-> Files])>>)

MCInit == inp \in Mains /\ Init
MCSpec == MCInit /\ [][Next]_vars

\* every generated input is inside the domain of the property
DomainOK == done => InDomain(FsOf(inp), MainOf(inp)) /\ (Which \in {"mols", "split"} => DeclaredBefore(Flat(FsOf(inp), MainOf(inp))))
\* [ molecules ] in one file only: the sub-domain in which the per-file instantiation (DevMolsPerFile) is unobservable
MolsOneFile == Cardinality({f \in DOMAIN FS : \E i \in 1..Len(FS[f]) : FS[f][i].k = "mols"}) <= 1
SameOneFile == MolsOneFile => Same

\* model check and export in one pass: the final result equals the P-layer result, which is printed as the expected value
SameX == done => LET e == Expected IN res = e /\ PrintT(<<"CASE", ToJson([c |-> inp, exp |-> e, impl |-> [same |-> TRUE]])>>)
ExportInv == done => PrintT(<<"CASE", ToJson([c |-> inp, exp |-> Expected, impl |-> IF res = Expected THEN [same |-> TRUE] ELSE res])>>)
=============================================================================
