SPECIFICATION Spec
CONSTANTS
 L = 3
 Chains <- Chains43
 Closed <- NoRings
 Grid <- Grid3
 Bundle <- Bundle6
 MaxIter = 5
 MaxReject <- Unlimited
 Dev <- NoDev
INVARIANT StepOne
INVARIANT InBox
INVARIANT NoOverlap
INVARIANT RootOnGrid
INVARIANT Contiguous
INVARIANT Final
CHECK_DEADLOCK FALSE
