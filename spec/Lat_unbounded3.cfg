SPECIFICATION Spec
CONSTANTS
 L = 3
 History <- H43
 Grid <- Grid3
 Bundle <- Bundle6
 MaxIter = 5
 MaxReject <- Unlimited
 Force = FALSE
 Dev <- NoDev
INVARIANT StepOne
INVARIANT InBox
INVARIANT NoOverlap
INVARIANT RootOnGrid
INVARIANT Contiguous
INVARIANT Final
INVARIANT ForceWithinLimit
CHECK_DEADLOCK FALSE
