SPECIFICATION NSpec
CONSTANTS
 NBCases <- SmallNBCases
 DevOverrideExplicit = TRUE
 DevEpsHalf = FALSE
 DevSigmaInverted = FALSE
 DevSelfFromFirst = FALSE
INVARIANT NConforms
CHECK_DEADLOCK FALSE
