INIT RInit
NEXT RNext
CONSTANTS
 Mols = {}
 Dev = "none"
 FixedOrder = TRUE
 RDev = "none"
 FoldAt = 12
INVARIANT WriterMeetsWriteReq
INVARIANT HeaderIsComment
INVARIANT RoundTripReq
INVARIANT ResGraphReq
INVARIANT RequestInert
INVARIANT LawsReq
INVARIANT ReqExport
CHECK_DEADLOCK FALSE
