----------------------------- MODULE FFExport -----------------------------
(* S->I export for C01 / C14: one JSON record per input when the I-layer run is complete.               *)
(*   exp  - the P-layer results (PBase after MapToMolecule, PFinal at the end, ExclP)                    *)
(*   got  - the projection of the I-layer state (used for the runs with the open deviations switched on) *)
EXTENDS MC_FFMap, Json
\* the input without the embedded force field (the catalogue is exported once as FFS)
InpJson == [hist |-> inp.hist, ff |-> inp.ff, n |-> inp.n, start |-> inp.start, rn |-> inp.rn, fi |-> inp.fi, edges |-> inp.edges, sel |-> inp.sel]
SetSeq(S) == SetToSeq(S)
MolJson(M) == [atoms |-> M.atoms, inters |-> SetSeq(M.inters), gattr |-> [i \in DOMAIN M.gattr |-> SetSeq(M.gattr[i])]]
PairSeq(P) == SetSeq({SetToSortSeq(p, <) : p \in P})
\* pairs of atoms of the final molecule within d bonds, d = 0..5 (the harness never computes a graph distance)
WithinTab(E, nA) == [d \in 1..6 |-> PairSeq({p \in PairsOf(nA) : \E a \in p : \E b \in p \ {a} : Within(E, a, b, d - 1)})]
GotJson == [atoms |-> ProjAtoms, inters |-> ProjInters, gattr |-> [i \in DOMAIN ProjGattr |-> SetSeq(ProjGattr[i])], nrexcl |-> molN]
ExportC01 == (pc = "done") =>
   PrintT(<<"CASE", ToJson([inp |-> InpJson, base |-> MolJson(PBase(inp)), exp |-> MolJson(PFinal(inp)), apps |-> PLinkApps(inp)])>>)
ExportAsIs == (pc = "done") =>
   PrintT(<<"CASE", ToJson([inp |-> InpJson, err |-> err, fired |-> SetSeq(fired), got |-> GotJson])>>)
ExportC14 == (pc = "done") =>
   LET F == PFinal(inp) IN
   PrintT(<<"CASE", ToJson([inp |-> InpJson, exp |-> MolJson(F), excl |-> PairSeq(ExclP(inp)), uniform |-> Uniform(inp),
                            within |-> WithinTab(BondE(F.inters), Len(F.atoms)),
                            nrexclI |-> molN, ngenI |-> Cardinality({x \in ToSet(inters) : IsGen(x)})])>>)
=============================================================================
