SPECIFICATION MCSpec
CONSTANTS
 FsOf <- MCFs
 MainOf <- MCMainOf
 Fuel = 4
 Which = "cond"
 MaxChunks = 1
 First = {}
 DevF3 = FALSE
 DevMolsPerFile = FALSE
 DevDirKeep = FALSE
 DevElseKeep = TRUE
 DevRootFirst = FALSE
 DevEdgesNewOnly = FALSE
CHECK_DEADLOCK FALSE
INVARIANT Same
