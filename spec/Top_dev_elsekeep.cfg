SPECIFICATION MCSpec
CONSTANTS
 FsOf <- MCFs
 MainOf <- MCMainOf
 Fuel = 4
 Which = "cond"
 MaxChunks = 1
 First = {}
 DevF3 = FALSE
 DevMolsPerFile = TRUE
 DevDirKeep = FALSE
 DevElseKeep = TRUE
CHECK_DEADLOCK FALSE
INVARIANT Same
