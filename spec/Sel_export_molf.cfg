SPECIFICATION MolSpecF
CONSTANTS
 DevChoices <- NoDev
INVARIANT FamilyInDomain
INVARIANT ErrOK
INVARIANT MolListUnchanged
INVARIANT Correct
INVARIANT ExportInv
PROPERTY NodesStable
PROPERTY HandBack
PROPERTY AnnotateOnlyAdds
CHECK_DEADLOCK FALSE
