---- MODULE Itp_Unbacked ----
(* instance wrapper for C11 (TLC evaluates zero-arity definitions eagerly: one module per instance) *)
EXTENDS ItpRoundTripExport
MCMols == TLCEval(MolsUnbacked(0))
====
