SPECIFICATION XSpec
CONSTANTS
 Fam = "ds"
 P1 = 6
 P2 = 5
 Dev = {}
INVARIANT Shape
INVARIANT Final
INVARIANT RoundTrip
INVARIANT OrigKept
INVARIANT Laws
INVARIANT ExportInv
PROPERTY Grows
CHECK_DEADLOCK FALSE
