SPECIFICATION XSpec
CONSTANTS
 TypeDefs <- MCTypeDefs
 Mols <- XMols3
 Fudges <- XFudges
 Angles <- MCAngles
 DevImproper = FALSE
 DevPerAtom = FALSE
 DevNoFudge = FALSE
 DevOtherTemplate = FALSE
 DevCentreOther = FALSE
INVARIANT TurnedScaled
INVARIANT Centred
INVARIANT ExportInv
CHECK_DEADLOCK FALSE
