SPECIFICATION Spec
CONSTANTS
 DevVSWeightSwap = TRUE
INVARIANT VSLaw
CHECK_DEADLOCK FALSE
