SPECIFICATION Spec
CONSTANTS
 Cases <- CasesRepl
 FFs <- FFcat
 Dev <- DevReplaceVisible
INVARIANT Confluent
CHECK_DEADLOCK FALSE
