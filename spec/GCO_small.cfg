SPECIFICATION Spec
CONSTANTS
 Types <- MCTypes
 MolLists <- MCMolLists
 Opts <- MCOptsOk
 DevOptionBoxWins = FALSE
INVARIANT BoxRule
INVARIANT DensityAvailable
CHECK_DEADLOCK FALSE
