SPECIFICATION Spec
CONSTANTS
 Inputs <- MCInputs
 Dev <- DevF16
INVARIANT C01_Inv
CHECK_DEADLOCK FALSE
