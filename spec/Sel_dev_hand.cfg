SPECIFICATION DevSpec
CONSTANTS
 DevChoices <- OnlyWrongMol
PROPERTY HandBack
CHECK_DEADLOCK FALSE
