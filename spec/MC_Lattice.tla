----------------------------- MODULE MC_Lattice -----------------------------
EXTENDS LatticeWalk
Unlimited == -1
NoDev == [noWrap |-> FALSE, noOverlapTest |-> FALSE, neighboursExempt |-> FALSE]
DevNeighbours == [NoDev EXCEPT !.neighboursExempt = TRUE]
NoRings == {}
Ring1 == {1}
DevNoWrap == [NoDev EXCEPT !.noWrap = TRUE]
DevNoOverlap == [NoDev EXCEPT !.noOverlapTest = TRUE]
Chains2x3 == <<3, 3>>
Chains3x2 == <<2, 2, 2>>
Chains43 == <<4, 3>>
Grid2 == {<<0,0,0>>, <<1,1,0>>, <<1,0,1>>}
Grid3 == {<<0,0,0>>, <<2,2,2>>, <<1,0,2>>}
Bundle6 == <<1, 2, 3, 4, 5, 6>>
=============================================================================
