----------------------------- MODULE MC_Lattice -----------------------------
EXTENDS LatticeWalk
Unlimited == -1
NoDev == [noWrap |-> FALSE, noOverlapTest |-> FALSE, neighboursExempt |-> FALSE, noForceTest |-> FALSE, staleNeighbours |-> FALSE]
DevNeighbours == [NoDev EXCEPT !.neighboursExempt = TRUE]
DevNoWrap == [NoDev EXCEPT !.noWrap = TRUE]
DevNoOverlap == [NoDev EXCEPT !.noOverlapTest = TRUE]
DevNoForce == [NoDev EXCEPT !.noForceTest = TRUE]
DevStale == [NoDev EXCEPT !.staleNeighbours = TRUE]
\* one system built in a fresh process
One(ch, cl) == << [chains |-> ch, closed |-> cl, stars |-> {}] >>
H2x3 == One(<<3, 3>>, {})
H2x3r == One(<<3, 3>>, {1})
H3x2 == One(<<2, 2, 2>>, {})
H43 == One(<<4, 3>>, {})
\* histories of two systems built in one process: the molecule names C1, C2 are used again with another residue graph,
\* another length and another number of molecules
Ring(n) == [chains |-> <<n>>, closed |-> {1}, stars |-> {}]
Star(n) == [chains |-> <<n>>, closed |-> {}, stars |-> {1}]
Lin(ch) == [chains |-> ch, closed |-> {}, stars |-> {}]
HRingChain == << Ring(3), Lin(<<3, 2>>) >>
HRingChain1 == << Ring(3), Lin(<<3>>) >>
HStarChain == << Star(4), Lin(<<4>>) >>
HChainStar == << Lin(<<3, 2>>), Star(4) >>
HChainRing == << Lin(<<4>>), Ring(3) >>
Grid2 == {<<0,0,0>>, <<1,1,0>>, <<1,0,1>>}
Grid3 == {<<0,0,0>>, <<2,2,2>>, <<1,0,2>>}
Bundle6 == <<1, 2, 3, 4, 5, 6>>
=============================================================================
