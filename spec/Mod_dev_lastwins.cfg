INIT MCInitTiny
NEXT Next
CONSTANTS
 Inputs = {}
 LibOf <- MCLibOf
 Dev <- DevLastWins
 FreeOrder = TRUE
INVARIANT Conform
CHECK_DEADLOCK FALSE
