SPECIFICATION Spec
CONSTANTS
 Fam = "sensfile"
 P1 = 0
 P2 = 0
 Dev = {"TitleAsSeq"}
INVARIANT Shape
INVARIANT Final
INVARIANT RoundTrip
INVARIANT OrigKept
INVARIANT Laws
PROPERTY Grows
CHECK_DEADLOCK FALSE
