SPECIFICATION Spec
CONSTANTS
 Cases <- AllCases
 FFs <- FFcat
 Dev <- NoDev
INVARIANT Confluent
INVARIANT BaseAsDeclared
INVARIANT DomainInv
INVARIANT NoSpuriousFailure
INVARIANT FiredOnlyKnown
CHECK_DEADLOCK FALSE
