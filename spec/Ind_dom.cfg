INIT DInit
NEXT DNext
CONSTANTS
 FFs <- TFFs
 Dev <- TNoDev
 NInputs <- TNIn
 MaxLen = 1
 Fresh <- TFresh
 RunIn <- TRunIn
 Proc0 <- TProc0
INVARIANT ExportKeep
CHECK_DEADLOCK FALSE
