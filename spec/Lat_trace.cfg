SPECIFICATION TSpec
CONSTANTS
 L = 3
 Chains <- TChains
 Closed <- TClosed
 Grid <- TGrid
 Bundle <- TBundle
 MaxIter = 80
 MaxReject = 1000000
 Dev <- NoDev
INVARIANT StepOne
INVARIANT InBox
INVARIANT NoOverlap
INVARIANT RootOnGrid
INVARIANT Contiguous
INVARIANT Final
INVARIANT Mark
INVARIANT Prog
POSTCONDITION Accepted
CHECK_DEADLOCK FALSE
