SPECIFICATION TSpec
CONSTANTS
 L = 3
 History <- THistory
 Grid <- TGrid
 Bundle <- TBundle
 MaxIter = 80
 MaxReject = 1000000
 Force = FALSE
 Dev <- NoDev
INVARIANT StepOne
INVARIANT InBox
INVARIANT NoOverlap
INVARIANT RootOnGrid
INVARIANT Contiguous
INVARIANT Final
INVARIANT ForceWithinLimit
INVARIANT Mark
INVARIANT Prog
POSTCONDITION Accepted
CHECK_DEADLOCK FALSE
