SPECIFICATION Spec
CONSTANTS
 Inputs <- MCInputs
 Dev <- DevModAnyRes
INVARIANT C01_Inv
CHECK_DEADLOCK FALSE
