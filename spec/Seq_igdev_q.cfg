SPECIFICATION XSpec
CONSTANTS
 Fam = "igcp"
 P1 = 4
 P2 = 3
 Dev = {"CircStrip"}
INVARIANT Shape
INVARIANT ExportInv
CHECK_DEADLOCK FALSE
