SPECIFICATION Spec
CONSTANTS
 Fam = "sensgen"
 P1 = 0
 P2 = 0
 Dev = {"FileNoEdges"}
INVARIANT Shape
INVARIANT Final
INVARIANT RoundTrip
INVARIANT OrigKept
INVARIANT Laws
PROPERTY Grows
CHECK_DEADLOCK FALSE
