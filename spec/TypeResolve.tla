---------------------------- MODULE TypeResolve ----------------------------
(***************************************************************************)
(* C09 - bonded parameters are resolved as GROMACS preprocessing would     *)
(* resolve them (polyply/src/topology.py: replace_defines,                 *)
(* gen_bonded_interactions, match_dihedral_interaction_types).             *)
(*                                                                         *)
(* An abstract topology `top` is a record                                  *)
(*   opls      BOOLEAN            _FF_OPLS defined: bonded types are keyed *)
(*                                by the bond type of each atom type       *)
(*   btype     Seq([t, b])        atom type -> bond type                   *)
(*   defs      Seq([op, name, toks])  the preprocessor lines in front of   *)
(*                                the tables: op "define" (#define name    *)
(*                                tok ...; toks = <<>>: a tag), "ifdef" /  *)
(*                                "ifndef" (name = the tag), "else",       *)
(*                                "endif"                                  *)
(*   tables    [kind -> Seq([key, par])]   the [ <kind>types ] directives  *)
(*                                in file order, par = <<func, p1, ...>>   *)
(*   mols      Seq([name, atypes, inter]) molecule types; inter is         *)
(*                                [kind -> Seq([atoms, par])], atoms are   *)
(*                                1-based indices into atypes              *)
(*   molecules Seq([name, n])     the [ molecules ] directive              *)
(* All parameters are token strings, exactly as polyply keeps them.        *)
(*                                                                         *)
(* P-layer: Expected(top, d) - what a user of grompp relies on, written    *)
(* as set comprehensions over the type table (no pattern list, no lookup   *)
(* order).  I-layer: the code's steps as named actions (define pass,       *)
(* exact / reversed dictionary lookup, the ordered wildcard pattern list   *)
(* tried on both listing directions, first term replaces / further terms   *)
(* collected, propagation of the collected terms to the instances).        *)
(* TLC checks I = P on every case of the instance (constant Cases).        *)
(***************************************************************************)
EXTENDS Integers, Sequences, FiniteSets, TLC, SequencesExt

CONSTANTS Cases,              \* set of abstract topologies explored
          DevOneDirection,    \* F4 (repaired): patterns tried on the listed direction only, 3 patterns missing
          DevNoReverse,       \* reversed-key lookup dropped (mutant m17)
          DevFirstInstOnly,   \* expanded terms appended to the first instance only (mutant m20)
          DevSpecOrder,       \* pattern list not ordered by specificity
          DevDefineFirstOnly, \* macros substituted in the first interaction of a section only
          DevPairsUntyped,    \* proposed finding: [ pairs ] are never looked up in [ pairtypes ]
          DevTableMacrosKept, \* proposed finding: macros inside type-table entries are not substituted
          DevDefineLazyCond,  \* a #define inside a block is recorded iff the block's condition holds when re-evaluated at the #define line
          DevDefineBlockDropped, \* a #define inside any #ifdef / #ifndef block is ignored
          DevDefineInactiveKept  \* F37 (repaired): a #define is recorded whatever branch it sits in

KindSeq == <<"bonds", "angles", "constraints", "dihedrals", "pairs">>
KindSet == {"bonds", "angles", "constraints", "dihedrals", "pairs"}
NoDev == [pairs |-> FALSE, tbl |-> FALSE, kept |-> FALSE]
CodeDev == [pairs |-> DevPairsUntyped, tbl |-> DevTableMacrosKept, kept |-> DevDefineInactiveKept]

(* ------------------------------------------------------------------ *)
(* P-layer                                                            *)
(* ------------------------------------------------------------------ *)
Rev(s) == [i \in 1..Len(s) |-> s[Len(s) + 1 - i]]
Wild(kind) == kind = "dihedrals"
\* number of wildcards of a table key (only dihedral types have wildcards)
WC(kind, key) == IF Wild(kind) THEN Cardinality({i \in 1..Len(key) : key[i] = "X"}) ELSE 0
PosMatch(kind, key, ts) == /\ Len(key) = Len(ts)
                           /\ \A i \in 1..Len(key) : key[i] = ts[i] \/ (Wild(kind) /\ key[i] = "X")
\* an entry matches a type sequence in either listing direction
EntryMatches(kind, key, ts) == PosMatch(kind, key, ts) \/ PosMatch(kind, key, Rev(ts))
Matching(kind, tbl, ts) == {i \in 1..Len(tbl) : EntryMatches(kind, tbl[i].key, ts)}
\* the matching entries with the least number of wildcards
Best(kind, tbl, ts) == LET M == Matching(kind, tbl, ts)
                       IN {i \in M : \A j \in M : WC(kind, tbl[i].key) <= WC(kind, tbl[j].key)}
\* ... all of them are terms of the interaction, in table order
Terms(kind, tbl, ts) == LET b == SetToSortSeq(Best(kind, tbl, ts), <) IN [k \in 1..Len(b) |-> tbl[b[k]].par]

(* ---- the preprocessor lines (top.defs): cpp semantics.  A block opens at #ifdef / #ifndef, may have one #else, closes *)
(* at #endif; blocks are not nested (the reader rejects nesting).  The condition of a block is decided where the block     *)
(* opens, against the #define lines that were processed before that line; a line is processed iff it is outside every      *)
(* block or sits in the selected branch of its block.                                                                      *)
MaxOf(S) == CHOOSE i \in S : \A j \in S : j <= i
\* the line that opens the block line i sits in (0: outside every block)
Opener(L, i) == LET S == {j \in 1..(i - 1) : L[j].op \in {"ifdef", "ifndef"} /\ \A k \in (j + 1)..(i - 1) : L[k].op # "endif"}
                IN IF S = {} THEN 0 ELSE MaxOf(S)
InElse(L, i) == \E k \in (Opener(L, i) + 1)..(i - 1) : L[k].op = "else"
RECURSIVE Processed(_, _)
Processed(L, i) == LET j == Opener(L, i) IN
                     \/ j = 0
                     \/ LET defd == \E k \in 1..(j - 1) : L[k].op = "define" /\ L[k].name = L[j].name /\ Processed(L, k)
                        IN (defd = (L[j].op = "ifdef")) # InElse(L, i)
\* the macros in force after the lines: the processed #define lines, in file order
EffDefs(L) == LET S == SetToSortSeq({i \in 1..Len(L) : L[i].op = "define" /\ Processed(L, i)}, <)
              IN [x \in 1..Len(S) |-> [name |-> L[S[x]].name, toks |-> L[S[x]].toks]]
WellFormedPP(L) == /\ \A i \in 1..Len(L) : /\ L[i].op \in {"define", "ifdef", "ifndef", "else", "endif"}
                                           /\ (L[i].op \in {"ifdef", "ifndef"} => Opener(L, i) = 0)
                                           /\ (L[i].op = "else" => Opener(L, i) # 0 /\ ~InElse(L, i))
                                           /\ (L[i].op = "endif" => Opener(L, i) # 0)
                   /\ Opener(L, Len(L) + 1) = 0
\* every #define sits outside the blocks or in a selected branch (no longer a domain restriction: F37 is repaired)
NoSkippedDefine(L) == \A i \in 1..Len(L) : L[i].op = "define" => Processed(L, i)
\* the repaired defect F37 (diagnostic / sensitivity only): every #define line counted, whatever branch it sits in
AllDefs(L) == LET S == SetToSortSeq({i \in 1..Len(L) : L[i].op = "define"}, <)
              IN [x \in 1..Len(S) |-> [name |-> L[S[x]].name, toks |-> L[S[x]].toks]]
OplsTags == {"_FF_OPLS", "_FF_OPLS_AA"}
\* the topology after cpp: defs = the macros in force [name, toks]; opls = an OPLS tag is defined
NormD(t, d) == LET eff == IF d.kept THEN AllDefs(t.defs) ELSE EffDefs(t.defs) IN
             [t EXCEPT !.defs = eff, !.opls = t.opls \/ \E x \in 1..Len(eff) : eff[x].name \in OplsTags]

(* ---- resolution on the topology after cpp (top.defs = macros in force) ---- *)
\* macro substitution: a parameter token equal to a macro name is replaced by the macro's tokens
MacroIdx(defs, tok) == {i \in 1..Len(defs) : defs[i].name = tok}
LastOf(S) == CHOOSE i \in S : \A j \in S : j <= i
Subst(par, defs) == FlattenSeq([i \in 1..Len(par) |-> IF MacroIdx(defs, par[i]) # {}
                                                      THEN defs[LastOf(MacroIdx(defs, par[i]))].toks
                                                      ELSE <<par[i]>>])

BTypeOf(top, t) == top.btype[CHOOSE i \in 1..Len(top.btype) : top.btype[i].t = t].b
TypeSeqO(opls, top, mol, atoms) == [i \in 1..Len(atoms) |-> IF opls THEN BTypeOf(top, mol.atypes[atoms[i]])
                                                                        ELSE mol.atypes[atoms[i]]]
TypeSeq(top, mol, atoms) == TypeSeqO(top.opls, top, mol, atoms)

\* "written without parameters": after preprocessing only the function type is left
Untyped(top, it) == Len(Subst(it.par, top.defs)) = 1
Looked(kind, d) == ~(kind = "pairs" /\ d.pairs)
ResolveOne(top, mol, kind, it, d) ==
  LET p0 == Subst(it.par, top.defs) IN
  IF Len(p0) = 1 /\ Looked(kind, d)
  THEN LET ts == TypeSeq(top, mol, it.atoms) tbl == top.tables[kind] terms == Terms(kind, tbl, ts) IN
         [k \in 1..Len(terms) |-> [atoms |-> it.atoms, par |-> IF d.tbl THEN terms[k] ELSE Subst(terms[k], top.defs)]]
  ELSE << [atoms |-> it.atoms, par |-> p0] >>

Unmatched(top, d) == \E m \in 1..Len(top.mols) : \E kind \in KindSet : \E i \in 1..Len(top.mols[m].inter[kind]) :
                        ResolveOne(top, top.mols[m], kind, top.mols[m].inter[kind][i], d) = <<>>
ResolvedMol(top, mol, d) ==
  [kind \in KindSet |-> FlattenSeq([i \in 1..Len(mol.inter[kind]) |-> ResolveOne(top, mol, kind, mol.inter[kind][i], d)])]
InstNames(top) == FlattenSeq([j \in 1..Len(top.molecules) |-> [x \in 1..top.molecules[j].n |-> top.molecules[j].name]])
MolIdx(top, name) == CHOOSE i \in 1..Len(top.mols) : top.mols[i].name = name
ExpectedN(top, d) ==
  IF Unmatched(top, d) THEN [err |-> TRUE, inst |-> <<>>]
  ELSE LET names == InstNames(top)
           res   == [m \in 1..Len(top.mols) |-> ResolvedMol(top, top.mols[m], d)]
       IN [err |-> FALSE, inst |-> [j \in 1..Len(names) |-> [name |-> names[j], inter |-> res[MolIdx(top, names[j])]]]]
\* the declared result of a topology as written: cpp first, then the resolution
Norm(t) == NormD(t, NoDev)
Expected(top, d) == ExpectedN(NormD(top, d), d)

\* results are compared as multisets of interactions per kind and instance
BagOf(s) == [x \in ToSet(s) |-> Cardinality({i \in 1..Len(s) : s[i] = x})]
SameResult(r1, r2) == /\ r1.err = r2.err
                      /\ Len(r1.inst) = Len(r2.inst)
                      /\ \A j \in 1..Len(r1.inst) : /\ r1.inst[j].name = r2.inst[j].name
                                                    /\ \A kind \in KindSet : BagOf(r1.inst[j].inter[kind]) = BagOf(r2.inst[j].inter[kind])

(* the stated domain: no ties (two different keys of the same specificity matching one interaction; a repeated key *)
(* outside dihedral tables), a macro redefined only with the same tokens, a tag (macro without tokens) never used as a *)
(* parameter, unique molecule names, a pair type for every pair written without parameters; the preprocessor lines are *)
(* balanced and not nested (a #define in a branch that is not selected is in the domain since F37 is repaired)          *)
ParToks(top) == UNION ({ToSet(it.par) : it \in UNION {ToSet(top.mols[m].inter[kind]) : m \in 1..Len(top.mols), kind \in KindSet}} \cup
                       {ToSet(e.par) : e \in UNION {ToSet(top.tables[kind]) : kind \in KindSet}})
NoTie(kind, tbl, ts) == LET B == Best(kind, tbl, ts) IN
                          /\ \A i, j \in B : tbl[i].key = tbl[j].key
                          /\ (kind # "dihedrals" => Cardinality(B) <= 1)
                          /\ (kind = "pairs" => B # {})
InDomainN(top) ==
  /\ \A i, j \in 1..Len(top.defs) : top.defs[i].name = top.defs[j].name => top.defs[i].toks = top.defs[j].toks
  /\ \A i \in 1..Len(top.defs) : top.defs[i].toks = <<>> => top.defs[i].name \notin ParToks(top)
  /\ \A i, j \in 1..Len(top.mols) : top.mols[i].name = top.mols[j].name => i = j
  /\ \A m \in 1..Len(top.mols) : \A kind \in KindSet : \A i \in 1..Len(top.mols[m].inter[kind]) :
        Untyped(top, top.mols[m].inter[kind][i]) =>
           NoTie(kind, top.tables[kind], TypeSeq(top, top.mols[m], top.mols[m].inter[kind][i].atoms))
\* a #define in a branch that is not selected is allowed (and has no effect)
InDomain(top) == WellFormedPP(top.defs) /\ InDomainN(Norm(top))
InDomainWide(top) == InDomain(top)

(* ------------------------------------------------------------------ *)
(* I-layer                                                            *)
(* ------------------------------------------------------------------ *)
VARIABLES cid,    \* index of the input in CaseSeq (chosen once)
          pc,     \* "parse", "defines", "scan", "exact", "reversed", "pattern", "apply", "propagate", "done", "error"
          blk,    \* molecule type -> kind -> interactions of the block (shared by reference with every instance)
          extra,  \* kind -> additional interactions collected for the current block
          added,  \* instance -> kind -> interactions appended to that instance
          bm, bk, bi,\* current block, current kind (index into KindSeq), current interaction of that kind
          pidx,   \* position in the pattern list
          hit,    \* the table key found by the lookup
          pj,     \* position in the instance list of the current block
          pl,     \* the preprocessor line being read (TOPDirector.parse_top_pragma)
          meta,   \* current_meta: the open block [tag, cond], cond = "none": no block open
          idefs,  \* Topology.defines in insertion order: [name, toks]
          iact    \* intended design only: the branch being read is the selected one (decided at #ifdef / #ifndef / #else)
vars == <<cid, pc, blk, extra, added, bm, bk, bi, pidx, hit, pj, pl, meta, idefs, iact>>
CaseSeq == SetToSeq(Cases)
top == CaseSeq[cid]

EmptyK == [kind \in KindSet |-> <<>>]
\* the ordered pattern list of match_dihedral_interaction_types: sets of wildcard positions
Patterns == << {}, {1}, {2}, {3}, {1,4}, {1,2}, {2,3}, {1,3}, {1,2,3}, {1,3,4}, {1,2,4}, {1,2,3,4} >>
PatternsF4 == << {}, {1}, {2}, {3}, {1,4}, {1,2}, {2,3}, {1,3}, {1,2,3} >>
PatternsBad == << {}, {1,4}, {1}, {2}, {3}, {1,2}, {2,3}, {1,3}, {1,2,3}, {1,3,4}, {1,2,4}, {1,2,3,4} >>
PList == IF DevOneDirection THEN PatternsF4 ELSE IF DevSpecOrder THEN PatternsBad ELSE Patterns
NOrders == IF DevOneDirection THEN 1 ELSE 2
WildKey(ts, P) == [x \in 1..Len(ts) |-> IF x \in P THEN "X" ELSE ts[x]]

Kind == KindSeq[bk]
It == blk[bm][Kind][bi]
Tbl == top.tables[Kind]
\* "_FF_OPLS" in self.defines or "_FF_OPLS_AA" in self.defines
IOpls == top.opls \/ \E x \in 1..Len(idefs) : idefs[x].name \in OplsTags
Ts == TypeSeqO(IOpls, top, top.mols[bm], It.atoms)
HasKey(tbl, key) == \E x \in 1..Len(tbl) : tbl[x].key = key
\* the terms stored under a key of the types dictionary, in table order (intended design: macros inside the entry substituted)
TermsOfKey(tbl, key) == LET S == SetToSortSeq({x \in 1..Len(tbl) : tbl[x].key = key}, <)
                        IN [x \in 1..Len(S) |-> IF DevTableMacrosKept THEN tbl[S[x]].par ELSE Subst(tbl[S[x]].par, idefs)]
\* the skip list of gen_bonded_interactions
Skipped(kind) == kind = "pairs" /\ DevPairsUntyped
\* instances of the current block, in [ molecules ] order (mol_idx_by_name)
InstOf(t, name) == LET names == InstNames(t) IN SetToSortSeq({j \in 1..Len(names) : names[j] = name}, <)

NoMeta == [tag |-> "", cond |-> "none"]
pvars == <<pl, meta, idefs, iact>>
Init == /\ cid \in 1..Len(CaseSeq)
        /\ pc = IF Len(top.defs) = 0 THEN "defines" ELSE "parse"
        /\ pl = 1 /\ meta = NoMeta /\ idefs = <<>> /\ iact = TRUE
        /\ blk = [mi \in 1..Len(top.mols) |-> top.mols[mi].inter]
        /\ extra = EmptyK
        /\ added = [j \in 1..Len(InstNames(top)) |-> EmptyK]
        /\ bm = 1 /\ bk = 1 /\ bi = 1 /\ pidx = 1 /\ hit = <<>> /\ pj = 1

(* ---- reading the preprocessor lines (top_parser.TOPDirector.parse_top_pragma, parse_define), one line per step ---- *)
Ln == top.defs[pl]
IDefined(name) == \E x \in 1..Len(idefs) : idefs[x].name = name
AfterLine == /\ pl' = pl + 1
             /\ pc' = IF pl = Len(top.defs) THEN "defines" ELSE "parse"
             /\ UNCHANGED <<cid, blk, extra, added, bm, bk, bi, pidx, hit, pj>>
\* the condition of the open block evaluated now, against the defines recorded so far (what parse_include / parse_error do)
MetaHoldsNow == meta.cond = "none" \/ (IDefined(meta.tag) = (meta.cond = "ifdef"))
PragmaIf == /\ pc = "parse" /\ Ln.op \in {"ifdef", "ifndef"}
            /\ meta' = [tag |-> Ln.name, cond |-> Ln.op]
            /\ iact' = (IDefined(Ln.name) = (Ln.op = "ifdef"))
            /\ UNCHANGED idefs /\ AfterLine
PragmaElse == /\ pc = "parse" /\ Ln.op = "else"
              /\ meta' = [meta EXCEPT !.cond = IF @ = "ifdef" THEN "ifndef" ELSE "ifdef"]
              /\ iact' = ~iact
              /\ UNCHANGED idefs /\ AfterLine
PragmaEndif == /\ pc = "parse" /\ Ln.op = "endif"
               /\ meta' = NoMeta /\ iact' = TRUE
               /\ UNCHANGED idefs /\ AfterLine
\* parse_define: a #define is recorded iff the branch being read is the selected one (branch_selected).  DevDefineInactiveKept:
\* the repaired defect F37, every #define line recorded
Recorded == IF DevDefineLazyCond THEN MetaHoldsNow
            ELSE IF DevDefineBlockDropped THEN meta.cond = "none"
            ELSE IF DevDefineInactiveKept THEN TRUE
            ELSE iact
PragmaDefine == /\ pc = "parse" /\ Ln.op = "define"
                /\ idefs' = IF Recorded THEN Append(idefs, [name |-> Ln.name, toks |-> Ln.toks]) ELSE idefs
                /\ UNCHANGED <<meta, iact>> /\ AfterLine

\* replace_defines: every block interaction, before any lookup
ReplaceDefines ==
  /\ pc = "defines"
  /\ blk' = [mi \in 1..Len(top.mols) |-> [kind \in KindSet |-> [x \in 1..Len(blk[mi][kind]) |->
               [atoms |-> blk[mi][kind][x].atoms,
                par |-> IF DevDefineFirstOnly /\ x > 1 THEN blk[mi][kind][x].par ELSE Subst(blk[mi][kind][x].par, idefs)]]]]
  /\ pc' = IF Len(top.mols) = 0 THEN "done" ELSE "scan"
  /\ UNCHANGED <<cid, extra, added, bm, bk, bi, pidx, hit, pj, pvars>>

InKind == bk <= Len(KindSeq) /\ bi <= Len(blk[bm][Kind])
\* interaction with parameters, or a kind of the skip list: left alone
SkipItem == /\ pc = "scan" /\ InKind /\ ~(Len(It.par) = 1 /\ ~Skipped(Kind))
            /\ bi' = bi + 1
            /\ UNCHANGED <<cid, pc, blk, extra, added, bm, bk, pidx, hit, pj, pvars>>
NextKind == /\ pc = "scan" /\ bk <= Len(KindSeq) /\ bi > Len(blk[bm][Kind])
            /\ bk' = bk + 1 /\ bi' = 1
            /\ UNCHANGED <<cid, pc, blk, extra, added, bm, pidx, hit, pj, pvars>>
BeginLookup == /\ pc = "scan" /\ InKind /\ Len(It.par) = 1 /\ ~Skipped(Kind)
               /\ pc' = "exact"
               /\ UNCHANGED <<cid, blk, extra, added, bm, bk, bi, pidx, hit, pj, pvars>>
LookupExact == /\ pc = "exact"
               /\ \E ts \in {Ts}, tbl \in {Tbl} : IF HasKey(tbl, ts) THEN hit' = ts /\ pc' = "apply" ELSE hit' = hit /\ pc' = "reversed"
               /\ UNCHANGED <<cid, blk, extra, added, bm, bk, bi, pidx, pj, pvars>>
LookupReversed == /\ pc = "reversed"
                  /\ \E rts \in {Rev(Ts)}, tbl \in {Tbl} :
                     IF ~DevNoReverse /\ HasKey(tbl, rts) THEN hit' = rts /\ pc' = "apply"
                     ELSE /\ hit' = hit
                          /\ pc' = IF Kind = "dihedrals" THEN "pattern" ELSE "error"
                  /\ pidx' = 1
                  /\ UNCHANGED <<cid, blk, extra, added, bm, bk, bi, pj, pvars>>
\* one pattern of the loop: the key built on the listed direction, its reverse, the key built on the reversed
\* direction, its reverse - the first one present in the types dictionary is returned
Candidates(ts, P) == LET k1 == WildKey(ts, P) k2 == WildKey(Rev(ts), P)
                     IN IF NOrders = 1 THEN <<k1, Rev(k1)>> ELSE <<k1, Rev(k1), k2, Rev(k2)>>
PatternTry == /\ pc = "pattern"
              /\ \E ts \in {Ts}, tbl \in {Tbl} : \E c \in {Candidates(ts, PList[pidx])} : \E H \in {{x \in 1..Len(c) : HasKey(tbl, c[x])}} :
                    IF H # {} THEN hit' = c[CHOOSE x \in H : \A y \in H : x <= y] /\ pc' = "apply" /\ pidx' = pidx
                    ELSE /\ hit' = hit
                         /\ IF pidx < Len(PList) THEN pidx' = pidx + 1 /\ pc' = pc
                            ELSE pc' = "error" /\ pidx' = pidx
              /\ UNCHANGED <<cid, blk, extra, added, bm, bk, bi, pj, pvars>>
\* first term replaces the block's interaction, further terms are collected
ApplyTerms == /\ pc = "apply"
              /\ \E tbl \in {Tbl}, kind \in {Kind}, atoms \in {It.atoms} : \E terms \in {TermsOfKey(tbl, hit)} :
                   /\ blk' = [blk EXCEPT ![bm][kind][bi].par = terms[1]]
                   /\ extra' = [extra EXCEPT ![kind] = @ \o [x \in 1..(Len(terms) - 1) |-> [atoms |-> atoms, par |-> terms[x + 1]]]]
              /\ bi' = bi + 1 /\ pc' = "scan"
              /\ UNCHANGED <<cid, added, bm, bk, pidx, hit, pj, pvars>>
EndBlock == /\ pc = "scan" /\ bk > Len(KindSeq)
            /\ pc' = "propagate" /\ pj' = 1
            /\ UNCHANGED <<cid, blk, extra, added, bm, bk, bi, pidx, hit, pvars>>
Propagate == /\ pc = "propagate"
             /\ LET idx == InstOf(top, top.mols[bm].name) IN
                  /\ pj <= Len(idx)
                  /\ added' = IF DevFirstInstOnly /\ pj > 1 THEN added
                              ELSE [added EXCEPT ![idx[pj]] = [kind \in KindSet |-> @[kind] \o extra[kind]]]
                  /\ pj' = pj + 1
             /\ UNCHANGED <<cid, pc, blk, extra, bm, bk, bi, pidx, hit, pvars>>
NextBlock == /\ pc = "propagate" /\ pj > Len(InstOf(top, top.mols[bm].name))
             /\ IF bm < Len(top.mols) THEN bm' = bm + 1 /\ bk' = 1 /\ bi' = 1 /\ pc' = "scan" ELSE pc' = "done" /\ UNCHANGED <<bm, bk, bi>>
             /\ extra' = EmptyK
             /\ UNCHANGED <<cid, blk, added, pidx, hit, pj, pvars>>

Next == PragmaIf \/ PragmaElse \/ PragmaEndif \/ PragmaDefine \/ ReplaceDefines \/ SkipItem \/ NextKind \/ BeginLookup \/ LookupExact \/ LookupReversed \/ PatternTry
        \/ ApplyTerms \/ EndBlock \/ Propagate \/ NextBlock
Spec == Init /\ [][Next]_vars

\* what the instances look like now: the (shared) block interactions plus what was appended to the instance
IResult == IF pc = "error" THEN [err |-> TRUE, inst |-> <<>>]
           ELSE LET names == InstNames(top) IN
                [err |-> FALSE, inst |-> [j \in 1..Len(names) |->
                    [name |-> names[j], inter |-> [kind \in KindSet |-> blk[MolIdx(top, names[j])][kind] \o added[j][kind]]]]]
Final == pc \in {"done", "error"}

(* ---- I = P ---- *)
\* the lookup finds exactly the least-wildcarded matching entries, or fails when nothing matches
LookupAgrees == /\ (pc = "apply" => LET tbl == Tbl ts == Ts IN {x \in 1..Len(tbl) : tbl[x].key = hit} = Best(Kind, tbl, ts))
                /\ (pc = "error" => LET tbl == Tbl ts == Ts IN Best(Kind, tbl, ts) = {})
\* the resolved instances are the declared ones
Conforms == Final => SameResult(IResult, Expected(top, NoDev))
\* the deviation-parametrised P-layer describes the I-layer with the two proposed-finding flags (used as the exact classifier)
ConformsDev == Final => SameResult(IResult, Expected(top, CodeDev))
AllInDomain == \A t \in Cases : InDomain(t)
DomainOnce == (pl = 1 /\ pc \in {"parse", "defines"}) => InDomain(top)
\* the intended design on the domain as it will be after the repair of the reported finding
DomainWideOnce == (pl = 1 /\ pc \in {"parse", "defines"}) => InDomainWide(top)
=============================================================================
