SPECIFICATION Spec
CONSTANTS
 Cases <- CasesMark
 FFs <- FFcat
 Dev <- DevNameCache
INVARIANT Confluent
CHECK_DEADLOCK FALSE
