INIT RInit
NEXT RNext
CONSTANTS
 Mols = {}
 Dev = "none"
 FixedOrder = TRUE
 RDev = "headerFold"
 FoldAt = 12
CHECK_DEADLOCK FALSE
INVARIANT RoundTripReq
