---------------------------- MODULE TopRead ----------------------------
(***************************************************************************)
(* C08 - a topology is read as its preprocessed, flattened equivalent      *)
(* (polyply/src/top_parser.py, Topology.from_gmx_topfile).                 *)
(*                                                                         *)
(* Abstract input: a file system  path -> Seq(line).  A path is a sequence *)
(* of components relative to the directory of the main file.  A line is a  *)
(* record [k, a, n, p]:                                                    *)
(*   "def" a n        #define a [n]         (n = 0: flag, n > 0: value n)  *)
(*   "ifdef"/"ifndef" a, "else", "endif"                                   *)
(*   "incl" p         #include "p[1]/p[2]/..."  (relative to the includer) *)
(*   "err"            #error                                               *)
(*   "defaults" n     [ defaults ] + one line, variant n                   *)
(*   "atype" a n      [ atomtypes ] + line for type a, variant n           *)
(*   "nbp" a n        [ nonbond_params ] + line for pair a, variant n      *)
(*   "btype" a n      [ bondtypes ] + line for pair a, variant n           *)
(*   "mol" a n        a whole [ moleculetype ] a with content variant n    *)
(*                    (rendered: a chain of n atoms = n residues, n-1 bonds)*)
(*   "mols" a n       [ molecules ] + line "a n"                           *)
(*                                                                         *)
(* P-layer (what a user relies on): PRead = ReadFlat(Preprocess): first the*)
(* preprocessor semantics (inline active includes relative to the includer,*)
(* drop inactive branches, keep active #error), then a fold of the flat,   *)
(* directive-free line list into the result record.                        *)
(* I-layer: the director-per-file stack machine of top_parser.py: one      *)
(* director per open file with current_meta, "current_itp non-empty", the  *)
(* moleculetype buffers and the [molecules] entries of that file; #include *)
(* pushes a director, end of file finalizes it (blocks are read and        *)
(* molecules instantiated only then).                                      *)
(***************************************************************************)
EXTENDS Integers, Sequences, FiniteSets, TLC, SequencesExt

CONSTANTS FsOf(_),        \* input handle -> file system (function path -> Seq(line))
          MainOf(_),      \* input handle -> path of the main file
          Fuel,           \* include nesting bound (cyclic includes are outside the domain)
          DevF3,          \* repaired finding F3: conditionals not tracked once a moleculetype was seen in the file
          DevMolsPerFile, \* repaired finding F16: [molecules] entries instantiated per file at its end, numbered from 0 per file
          DevDirKeep,     \* wrong design: a nested include keeps the directory of its includer
          DevElseKeep,    \* wrong design: #else does not invert the condition
          DevRootFirst,   \* wrong design (seed-C08-1): an include is looked up next to the top-level file first, then next to the includer
          DevEdgesNewOnly \* wrong design (seed-C08-2): edges are only made for molecule types whose name is new in this file

VARIABLES inp,    \* input handle (constant along a behaviour)
          stack,  \* Seq(director)
          res,    \* result record under construction  (the Topology object)
          pend,   \* [molecules] entries seen so far (intended design: instantiated by the root director)
          done
vars == <<inp, stack, res, pend, done>>

L(k, a, n, p) == [k |-> k, a |-> a, n |-> n, p |-> p]
NoCond == <<"", "">>
EmptyF == [x \in {} |-> 0]
Put(f, key, v) == (key :> v) @@ f

\* edged[name]: the molecule type carries the edges of its content (atom graph connected as its bonds say);
\* medged[i]: instance i carries them too (residue graph and atom graph)
R0 == [abort |-> "", defs |-> EmptyF, defaults |-> 0, atypes |-> EmptyF, nbp |-> EmptyF, types |-> <<>>,
       blocks |-> EmptyF, edged |-> EmptyF, molecules |-> <<>>, medged |-> <<>>, idx |-> EmptyF]
Aborted(kind) == [R0 EXCEPT !.abort = kind]

(* ---- paths *)
Dir(path) == SubSeq(path, 1, Len(path) - 1)
NoDot(s) == SelectSeq(s, LAMBDA x : x # ".")
RECURSIVE Canon(_)
Canon(s) == LET I == {i \in 1..(Len(s) - 1) : s[i] # ".." /\ s[i + 1] = ".."} IN
            IF I = {} THEN s
            ELSE LET i == CHOOSE i \in I : \A j \in I : i <= j
                 IN Canon(SubSeq(s, 1, i - 1) \o SubSeq(s, i + 2, Len(s)))
Norm(s) == Canon(NoDot(s))

(* ---- molecule list *)
Inst(entries) == FlattenSeq([i \in 1..Len(entries) |-> [j \in 1..entries[i].n |-> entries[i].a]])
IdxOf(molseq, base) == [nm \in ToSet(molseq) |-> SetToSortSeq({base + i - 1 : i \in {j \in 1..Len(molseq) : molseq[j] = nm}}, <)]
MergeIdx(f, g) == [nm \in (DOMAIN f) \cup (DOMAIN g) |->
                     (IF nm \in DOMAIN f THEN f[nm] ELSE <<>>) \o (IF nm \in DOMAIN g THEN g[nm] ELSE <<>>)]

(* ------------------------------------------------------------------ *)
(* Domain of the property (DESIGN 4.8): conditionals balanced and not  *)
(* nested inside a file, at most one #else, and only #include / #error *)
(* inside a conditional (#define, tables, molecule types outside).     *)
(* ------------------------------------------------------------------ *)
\* st: 0 outside, 1 in the #if branch, 2 in the #else branch, 9 ill-formed (a fold, so that long real files need no deep recursion)
WFStep(st, l) ==
  IF st = 9 THEN 9
  ELSE CASE l.k \in {"ifdef", "ifndef"} -> IF st = 0 THEN 1 ELSE 9
         [] l.k = "else"  -> IF st = 1 THEN 2 ELSE 9
         [] l.k = "endif" -> IF st # 0 THEN 0 ELSE 9
         [] l.k \in {"incl", "err"} -> st
         [] OTHER -> IF st = 0 THEN 0 ELSE 9
WF(lines, st0) == FoldLeft(WFStep, st0, lines) = 0
InDomain(fs, main) == main \in DOMAIN fs /\ \A f \in DOMAIN fs : WF(fs[f], 0)
\* a [ molecules ] entry names a molecule type declared textually before it (GROMACS requires this; the reader itself
\* tolerates forward references inside one file, so this restricts the generators, not the meaning of PRead)
DeclaredBefore(flat) == \A i \in 1..Len(flat) : flat[i].k = "mols" =>
                           \E j \in 1..(i - 1) : flat[j].k = "mol" /\ flat[j].a = flat[i].a

(* ------------------------------------------------------------------ *)
(* P-layer                                                             *)
(* ------------------------------------------------------------------ *)
Holds(cond, D) == \/ cond = NoCond
                  \/ (cond[1] = "ifdef" /\ cond[2] \in D)
                  \/ (cond[1] = "ifndef" /\ cond[2] \notin D)
Flip(c) == IF c[1] = "ifdef" THEN <<"ifndef", c[2]>> ELSE <<"ifdef", c[2]>>

IsDirective(l) == l.k \in {"def", "ifdef", "ifndef", "else", "endif", "incl", "err"}
\* Preprocess: the directive-free text.  D = macros defined so far (threaded through includes, in textual order).
RECURSIVE PP(_, _, _, _, _, _)
PP(fs, dir, lines, D, cond, fuel) ==
  IF lines = <<>> THEN [out |-> <<>>, D |-> D]
  ELSE LET h == Head(lines) t == Tail(lines) IN
    CASE h.k = "def" ->
           IF Holds(cond, D) THEN LET r == PP(fs, dir, t, D \cup {h.a}, cond, fuel) IN [out |-> <<h>> \o r.out, D |-> r.D]
                             ELSE PP(fs, dir, t, D, cond, fuel)
      [] h.k \in {"ifdef", "ifndef"} -> PP(fs, dir, t, D, <<h.k, h.a>>, fuel)
      [] h.k = "else"  -> PP(fs, dir, t, D, Flip(cond), fuel)
      [] h.k = "endif" -> PP(fs, dir, t, D, NoCond, fuel)
      [] h.k = "incl" ->
           IF ~Holds(cond, D) THEN PP(fs, dir, t, D, cond, fuel)
           ELSE LET f == Norm(dir \o h.p) IN
                IF f \notin DOMAIN fs \/ fuel = 0
                THEN LET r == PP(fs, dir, t, D, cond, fuel) IN [out |-> <<L("missing", "", 0, <<>>)>> \o r.out, D |-> r.D]
                ELSE LET inner == PP(fs, Dir(f), fs[f], D, NoCond, fuel - 1)
                         r == PP(fs, dir, t, inner.D, cond, fuel)
                     IN [out |-> inner.out \o r.out, D |-> r.D]
      [] h.k = "err" ->
           IF Holds(cond, D) THEN LET r == PP(fs, dir, t, D, cond, fuel) IN [out |-> <<h>> \o r.out, D |-> r.D]
                             ELSE PP(fs, dir, t, D, cond, fuel)
      [] OTHER ->   \* a run of content lines up to the next directive is copied as it stands
           LET ds == {i \in 1..Len(lines) : IsDirective(lines[i])}
               nx == IF ds = {} THEN Len(lines) + 1 ELSE CHOOSE i \in ds : \A j \in ds : i <= j
               r  == PP(fs, dir, SubSeq(lines, nx, Len(lines)), D, cond, fuel)
           IN [out |-> SubSeq(lines, 1, nx - 1) \o r.out, D |-> r.D]

Flat(fs, main) == PP(fs, Dir(main), fs[main], {}, NoCond, Fuel).out

\* Reading a flat, directive-free file: later table lines of the same key win, type-table entries accumulate in order,
\* [molecules] is expanded in order with its counts, the first fatal line aborts.
Table(flat, kind) == FoldLeft(LAMBDA acc, l : IF l.k = kind THEN Put(acc, l.a, l.n) ELSE acc, EmptyF, flat)
ReadFlat(flat) ==
  LET fatal == SelectSeq(flat, LAMBDA l : l.k \in {"err", "missing"})
      dfl   == SelectSeq(flat, LAMBDA l : l.k = "defaults")
      bt    == SelectSeq(flat, LAMBDA l : l.k = "btype")
      ents  == SelectSeq(flat, LAMBDA l : l.k = "mols")
      blocks == Table(flat, "mol")
      molseq == Inst(ents)
  IN IF fatal # <<>> THEN Aborted(IF fatal[1].k = "err" THEN "error" ELSE "missing")
     ELSE IF \E i \in 1..Len(ents) : ents[i].a \notin DOMAIN blocks THEN Aborted("nomol")
     ELSE [abort |-> "",
           defs |-> Table(flat, "def"),
           defaults |-> IF dfl = <<>> THEN 0 ELSE dfl[Len(dfl)].n,
           atypes |-> Table(flat, "atype"),
           nbp |-> Table(flat, "nbp"),
           types |-> [i \in 1..Len(bt) |-> <<bt[i].a, bt[i].n>>],
           blocks |-> blocks,
           edged |-> [nm \in DOMAIN blocks |-> TRUE],        \* every molecule type has the edges of its content,
           molecules |-> molseq,
           medged |-> [i \in 1..Len(molseq) |-> TRUE],      \* and so has every instance, however often the type was (re)read
           idx |-> IdxOf(molseq, 0)]

PRead(fs, main) == ReadFlat(Flat(fs, main))

(* ------------------------------------------------------------------ *)
(* I-layer: TOPDirector per file                                       *)
(* ------------------------------------------------------------------ *)
FS == FsOf(inp)
\* the line handed to dispatch() next (prefetched into the director so that guards are pure state look-ups)
EOF == L("eof", "", 0, <<>>)
LineAt(file, pc) == LET ls == FS[file] IN IF pc <= Len(ls) THEN ls[pc] ELSE EOF
Director(file, dir) == [file |-> file, dir |-> dir, pc |-> 1, cur |-> LineAt(file, 1), meta |-> NoCond, inItp |-> FALSE,
                        itps |-> <<>>, molecules |-> <<>>]
Top == stack[Len(stack)]
HasLine == ~done /\ Len(stack) > 0 /\ Top.cur.k # "eof"
Cur == Top.cur
SetTop(d) == [stack EXCEPT ![Len(stack)] = d]
Adv(d) == [d EXCEPT !.pc = @ + 1, !.cur = LineAt(d.file, d.pc + 1)]
Step(d, r, p) == stack' = SetTop(Adv(d)) /\ res' = r /\ pend' = p /\ UNCHANGED <<inp, done>>
Fail(kind) == stack' = <<>> /\ res' = Aborted(kind) /\ pend' = <<>> /\ done' = TRUE /\ UNCHANGED inp
\* the test of parse_include / parse_error
Skips(meta, defs) == \/ (meta[1] = "ifdef" /\ meta[2] \notin DOMAIN defs)
                     \/ (meta[1] = "ifndef" /\ meta[2] \in DOMAIN defs)

Init == /\ stack = <<Director(MainOf(inp), Dir(MainOf(inp)))>>
        /\ res = R0 /\ pend = <<>> /\ done = FALSE

Define == HasLine /\ Cur.k = "def" /\ Step(Top, [res EXCEPT !.defs = Put(@, Cur.a, Cur.n)], pend)

Ifdef == HasLine /\ Cur.k \in {"ifdef", "ifndef"} /\
         IF Top.inItp THEN Step(IF DevF3 THEN Top ELSE [Top EXCEPT !.meta = <<Cur.k, Cur.a>>], res, pend)
         ELSE IF Top.meta = NoCond THEN Step([Top EXCEPT !.meta = <<Cur.k, Cur.a>>], res, pend)
         ELSE Fail("struct")

Else == HasLine /\ Cur.k = "else" /\
        IF Top.inItp THEN Step(IF DevF3 \/ Top.meta = NoCond THEN Top ELSE [Top EXCEPT !.meta = Flip(@)], res, pend)
        ELSE IF Top.meta = NoCond THEN Fail("struct")
        ELSE Step(IF DevElseKeep THEN Top ELSE [Top EXCEPT !.meta = Flip(@)], res, pend)

Endif == HasLine /\ Cur.k = "endif" /\
         IF Top.inItp THEN Step(IF DevF3 THEN Top ELSE [Top EXCEPT !.meta = NoCond], res, pend)
         ELSE IF Top.meta = NoCond THEN Fail("struct")
         ELSE Step([Top EXCEPT !.meta = NoCond], res, pend)

\* os.path.join(cwdir, path), not normalised; the only candidate is the directory of the including file
RootDir == Dir(MainOf(inp))
Include == HasLine /\ Cur.k = "incl" /\
           IF Skips(Top.meta, res.defs) THEN Step(Top, res, pend)
           ELSE LET cands == IF DevRootFirst THEN <<RootDir \o Cur.p, Top.dir \o Cur.p>> ELSE <<Top.dir \o Cur.p>>
                    found == SelectSeq(cands, LAMBDA f : Norm(f) \in DOMAIN FS)
                IN IF found = <<>> \/ Len(stack) > Fuel THEN Fail("missing")
                   ELSE LET fn == found[1] IN
                        /\ stack' = Append(SetTop(Adv(Top)), Director(Norm(fn), IF DevDirKeep THEN Top.dir ELSE Dir(fn)))
                        /\ UNCHANGED <<inp, res, pend, done>>

Error == HasLine /\ Cur.k = "err" /\
         IF Skips(Top.meta, res.defs) THEN Step(Top, res, pend) ELSE Fail("error")

Header == HasLine /\ Cur.k \in {"defaults", "atype", "nbp", "btype"} /\
          Step(Top, CASE Cur.k = "defaults" -> [res EXCEPT !.defaults = Cur.n]
                      [] Cur.k = "atype"    -> [res EXCEPT !.atypes = Put(@, Cur.a, Cur.n)]
                      [] Cur.k = "nbp"      -> [res EXCEPT !.nbp = Put(@, Cur.a, Cur.n)]
                      [] Cur.k = "btype"    -> [res EXCEPT !.types = Append(@, <<Cur.a, Cur.n>>)], pend)

\* [ moleculetype ]: _new_itp opens a buffer; from now on current_itp is non-empty in this file
Moltype == HasLine /\ Cur.k = "mol" /\ Step([Top EXCEPT !.inItp = TRUE, !.itps = Append(@, Cur)], res, pend)

Molecules == HasLine /\ Cur.k = "mols" /\
             IF DevMolsPerFile THEN Step([Top EXCEPT !.molecules = Append(@, Cur)], res, pend)
             ELSE Step(Top, res, Append(pend, Cur))

\* end of file: finalize() - unclosed conditional is an error, the buffers become blocks, [molecules] is instantiated
Finalize == /\ ~done /\ Len(stack) > 0 /\ Top.cur.k = "eof"
            /\ IF Top.meta # NoCond THEN Fail("struct")
               ELSE LET blocks2 == FoldLeft(LAMBDA acc, l : Put(acc, l.a, l.n), res.blocks, Top.itps)
                        \* read_itp stores a fresh block without edges (a one-atom type has none to lose) ...
                        raw     == FoldLeft(LAMBDA acc, l : Put(acc, l.a, l.n <= 1), res.edged, Top.itps)
                        \* ... and _make_edges then goes over all blocks of the force field
                        edged2  == [nm \in DOMAIN blocks2 |->
                                      IF DevEdgesNewOnly THEN raw[nm] \/ nm \notin DOMAIN res.blocks ELSE TRUE]
                        root    == Len(stack) = 1
                        entries == IF DevMolsPerFile THEN Top.molecules ELSE IF root THEN pend ELSE <<>>
                        new     == Inst(entries)
                        base    == IF DevMolsPerFile THEN 0 ELSE Len(res.molecules)
                    IN IF \E i \in 1..Len(entries) : entries[i].a \notin DOMAIN blocks2 THEN Fail("nomol")
                       ELSE /\ res' = [res EXCEPT !.blocks = blocks2, !.edged = edged2, !.molecules = @ \o new,
                                                  !.medged = @ \o [i \in 1..Len(new) |-> edged2[new[i]]],
                                                  !.idx = MergeIdx(@, IdxOf(new, base))]
                            /\ stack' = SubSeq(stack, 1, Len(stack) - 1)
                            /\ done' = root
                            /\ UNCHANGED <<inp, pend>>

Next == Define \/ Ifdef \/ Else \/ Endif \/ Include \/ Error \/ Header \/ Moltype \/ Molecules \/ Finalize

(* ------------------------------------------------------------------ *)
(* I-layer |= P-layer                                                  *)
(* ------------------------------------------------------------------ *)
Expected == PRead(FS, MainOf(inp))
Same == done => res = Expected
\* #error aborts exactly when its condition is active (stated separately from Same: the abort kind alone)
ErrIff == done => ((res.abort = "error") <=> (Expected.abort = "error"))
\* inside the domain the reader never meets a structure error, and a finished read has no open director
NoStruct == res.abort # "struct"
DoneEmpty == done <=> (stack = <<>>)
\* only includes and #error are decided by a conditional (domain sanity: the antecedent of the claim)
CondOnlyGuards == (HasLine /\ Top.meta # NoCond) => Cur.k \in {"incl", "err", "else", "endif"}
\* an abort discards everything; macros are only ever added while reading
Monotone == [][ /\ (res'.abort = "" => DOMAIN res.defs \subseteq DOMAIN res'.defs)
                /\ (res'.abort = "" => DOMAIN res.blocks \subseteq DOMAIN res'.blocks)
                /\ (res.abort # "" => res' = res) ]_vars
=============================================================================
