SPECIFICATION XSpec
CONSTANTS
 Fam = "igcp"
 P1 = 4
 P2 = 4
 Dev = {"CircStrip"}
INVARIANT Shape
INVARIANT ExportInv
CHECK_DEADLOCK FALSE
