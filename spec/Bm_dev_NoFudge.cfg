SPECIFICATION Spec
CONSTANTS
 TypeDefs <- MCTypeDefs
 Mols <- MCMolsSmall
 Fudges <- MCFudgesSmall
 Angles <- MCAngles
 DevImproper = FALSE
 DevPerAtom = FALSE
 DevNoFudge = TRUE
 DevOtherTemplate = FALSE
 DevCentreOther = FALSE
INVARIANT Centred
INVARIANT TurnedScaled
INVARIANT Scaled
INVARIANT SameHanded
INVARIANT Congruent
INVARIANT VSKept
INVARIANT Untouched
INVARIANT Protocol
INVARIANT RotationLawsOnce
INVARIANT TemplatesOKOnce
PROPERTY OwnOnly
CHECK_DEADLOCK FALSE
