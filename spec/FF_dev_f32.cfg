SPECIFICATION Spec
CONSTANTS
 Inputs <- MCInputs
 Dev <- DevF32
INVARIANT C01_Inv
CHECK_DEADLOCK FALSE
