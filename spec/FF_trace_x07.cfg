SPECIFICATION Spec
CONSTANTS
 Inputs <- TInputs
 Dev <- TDevNone
 Prop = "C01"
INVARIANT MarkDom
INVARIANT MarkBase
INVARIANT MarkEdges
INVARIANT MarkExcl
INVARIANT MarkFinal
POSTCONDITION Accepted
CHECK_DEADLOCK FALSE
