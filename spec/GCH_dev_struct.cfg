SPECIFICATION Spec
CONSTANTS
 Inputs = {1, 2, 3}
 Roles = {"top", "inc", "struct", "bld"}
 MaxCalls = 3
 HDev = {"struct", "top"}
INVARIANT HistoryFree
INVARIANT ConsistentInput
CHECK_DEADLOCK FALSE
