SPECIFICATION Spec
CONSTANTS
 DevVSWeightSwap = FALSE
INVARIANT VSLaw
INVARIANT Equivariant
INVARIANT Handed
INVARIANT ExportInv
CHECK_DEADLOCK FALSE
