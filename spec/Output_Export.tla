---------------------------- MODULE Output_Export ----------------------------
(* S->I export for C20: every behaviour of Output (variant x initial directory x crash point or success) is      *)
(* printed as one JSON line: the stage events in order with the directory, the writer's queue and the loose       *)
(* temporary files after each of them.  Replayed on the real programs by harness/drivers/c20.py.                  *)
EXTENDS Output_MC, Json, SequencesExt
VARIABLE hist
VarJ(v) == [prog |-> v.prog, on |-> SetToSeq(v.on), route |-> v.route, inout |-> v.inout, dev |-> v.dev, env |-> v.env]
XInit == Init /\ hist = << [ev |-> last, run |-> run, var |-> VarJ(var), target |-> target, fs |-> fs,
                            queue |-> queue, loose |-> loose, pc |-> pc] >>
Entry == [ev |-> last', run |-> run', var |-> VarJ(var'), target |-> target', fs |-> fs', queue |-> queue',
          loose |-> (IF cur' # Nil THEN Append(loose', cur'.content) ELSE loose'), pc |-> pc']
XNext == Next /\ hist' = IF last'.kind = "micro" THEN hist ELSE Append(hist, Entry)
XSpec == XInit /\ [][XNext]_<<vars, hist>>
Terminal == status \in {"done", "crashed"} /\ run = Runs
ExportInv == Terminal => PrintT(<<"CASE", ToJson(hist)>>)
=============================================================================
