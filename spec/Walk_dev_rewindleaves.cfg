SPECIFICATION Spec
CONSTANTS
 Instances <- MCSmall
 MaxFail = 3
 Dev <- DevRewindLeaves
INVARIANT RolledBack
CHECK_DEADLOCK FALSE
