SPECIFICATION Spec
CONSTANTS
 Grid <- MCGrid
 DevMap = FALSE
 DevArgs = FALSE
 DevHarm = TRUE
INVARIANT AgreesWithGromacs
CHECK_DEADLOCK FALSE
