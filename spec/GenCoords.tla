----------------------------- MODULE GenCoords -----------------------------
(***************************************************************************)
(* C04 / C03 - what gen_coords does with supplied coordinates and which    *)
(* atoms it writes.                                                        *)
(*                                                                         *)
(* A system is the expanded [ molecules ] list: a sequence of molecules,   *)
(* each a sequence of residues [rn |-> resname, na |-> number of atoms].   *)
(* A coordinate file is a sequence of K rows (row i = the i-th position).  *)
(*                                                                         *)
(* P-layer (declarative): residue r (in topology order) that is not named  *)
(* for rebuilding takes the rows that follow those taken by the earlier    *)
(* such residues; residues for which no rows are left are missing.         *)
(* I-layer: the loop of Topology.add_positions_from_file with its running  *)
(* counter `total`.                                                        *)
(***************************************************************************)
EXTENDS Integers, Sequences, FiniteSets, TLC, SequencesExt

CONSTANTS Systems,      \* set of instance records [mols, K, skip, res]
          DevSkipConsumes  \* deviation flag: residues named for rebuilding still consume rows (mutant m42)
VARIABLES sys, ri, total, out, err
vars == <<sys, ri, total, out, err>>

\* flattened residue list: <<molecule index, residue index in molecule, rn, na>>
RECURSIVE FlatRes(_, _)
FlatRes(mols, m) == IF m > Len(mols) THEN <<>>
                    ELSE [i \in 1..Len(mols[m]) |-> [m |-> m, r |-> i, rn |-> mols[m][i].rn, na |-> mols[m][i].na]] \o FlatRes(mols, m + 1)
Residues(s) == FlatRes(s.mols, 1)
Size(s, res) == IF s.res = "meta" THEN 1 ELSE res.na
Consumes(s, res) == res.rn \notin s.skip

(* ---------------- P-layer ---------------- *)
RECURSIVE SumSizes(_, _, _)
SumSizes(s, R, k) == IF k = 0 THEN 0 ELSE SumSizes(s, R, k - 1) + (IF Consumes(s, R[k]) THEN Size(s, R[k]) ELSE 0)
\* rows the residue number k would take if the file were long enough
Offset(s, k) == SumSizes(s, Residues(s), k - 1)
Status(s, k) == LET R == Residues(s) IN
                  IF ~Consumes(s, R[k]) THEN "build"
                  ELSE IF Offset(s, k) >= s.K THEN "build"               \* file exhausted
                  ELSE IF Offset(s, k) + Size(s, R[k]) > s.K THEN "incomplete"
                  ELSE IF s.res = "meta" THEN "centre" ELSE "given"
\* "build": generated and backmapped; "centre": backmapped around row; "given": atoms are rows, nothing generated
Rows(s, k) == IF Status(s, k) \in {"centre", "given"} THEN [i \in 1..Size(s, Residues(s)[k]) |-> Offset(s, k) + i] ELSE <<>>
Incomplete(s) == \E k \in 1..Len(Residues(s)) : Status(s, k) = "incomplete"
Expected(s) == [k \in 1..Len(Residues(s)) |-> [status |-> Status(s, k), rows |-> Rows(s, k)]]

(* ---------------- I-layer: add_positions_from_file ---------------- *)
Init == /\ sys \in Systems /\ ri = 1 /\ total = 0 /\ out = <<>> /\ err = FALSE
Cur == Residues(sys)[ri]
SkipOrExhausted == /\ ~err /\ ri <= Len(Residues(sys))
                   /\ (Cur.rn \in sys.skip \/ total >= sys.K)
                   /\ out' = Append(out, [status |-> "build", rows |-> <<>>])
                   /\ total' = total + (IF DevSkipConsumes /\ Cur.rn \in sys.skip /\ total < sys.K THEN Size(sys, Cur) ELSE 0)
                   /\ ri' = ri + 1 /\ UNCHANGED <<sys, err>>
TakeCentre == /\ ~err /\ ri <= Len(Residues(sys)) /\ Cur.rn \notin sys.skip /\ total < sys.K /\ sys.res = "meta"
              /\ out' = Append(out, [status |-> "centre", rows |-> <<total + 1>>])
              /\ total' = total + 1 /\ ri' = ri + 1 /\ UNCHANGED <<sys, err>>
TakeAtoms == /\ ~err /\ ri <= Len(Residues(sys)) /\ Cur.rn \notin sys.skip /\ total < sys.K /\ sys.res = "mol"
             /\ total + Cur.na <= sys.K
             /\ out' = Append(out, [status |-> "given", rows |-> [i \in 1..Cur.na |-> total + i]])
             /\ total' = total + Cur.na /\ ri' = ri + 1 /\ UNCHANGED <<sys, err>>
RaiseIncomplete == /\ ~err /\ ri <= Len(Residues(sys)) /\ Cur.rn \notin sys.skip /\ total < sys.K /\ sys.res = "mol"
                   /\ total + Cur.na > sys.K
                   /\ err' = TRUE /\ UNCHANGED <<sys, ri, total, out>>
Next == SkipOrExhausted \/ TakeCentre \/ TakeAtoms \/ RaiseIncomplete
Spec == Init /\ [][Next]_vars

Done == ri = Len(Residues(sys)) + 1
\* the loop computes the declarative assignment
LoopIsDeclarative == /\ (Done => (out = Expected(sys) /\ ~Incomplete(sys)))
                     /\ (err => Incomplete(sys) /\ Status(sys, ri) = "incomplete")
                     /\ \A k \in 1..Len(out) : out[k] = Expected(sys)[k]
\* no file row feeds two atoms; rows are used in file order without gaps
RowsDisjoint == \A s \in {sys} : \A j, k \in 1..Len(Residues(s)) : j # k => ToSet(Rows(s, j)) \cap ToSet(Rows(s, k)) = {}
RowsPrefix == LET used == UNION {ToSet(Rows(sys, k)) : k \in 1..Len(Residues(sys))} IN \E n \in 0..sys.K : used = 1..n
\* only residues named for rebuilding or missing from the file are generated
OnlyMissingBuilt == \A k \in 1..Len(Residues(sys)) :
                       Status(sys, k) = "build" <=> (~Consumes(sys, Residues(sys)[k]) \/ Offset(sys, k) >= sys.K)
=============================================================================
