INIT MCInitTiny
NEXT Next
CONSTANTS
 Inputs = {}
 LibOf <- MCLibOf
 Dev <- DevErrWrites
 FreeOrder = TRUE
INVARIANT ErrorLaw
CHECK_DEADLOCK FALSE
