SPECIFICATION Spec
CONSTANTS
 Cases <- DevCases
 MaxFail = 0
 DevItpBeforeLinks = FALSE
 DevGroBlockOrder = TRUE
 DevGateSkipped = FALSE
 DevJsonIdShift = FALSE
 DevContinueAfterFail = FALSE
INVARIANT E2
CHECK_DEADLOCK FALSE
