SPECIFICATION Spec
CONSTANTS
 Inputs <- MCInputs
 Dev <- DevSliceAny
INVARIANT C01_Inv
CHECK_DEADLOCK FALSE
