SPECIFICATION Spec
CONSTANTS
 Cases <- CasesPat
 FFs <- FFcat
 Dev <- DevPatternCache
INVARIANT Confluent
CHECK_DEADLOCK FALSE
