----------------------------- MODULE FF_Gt -----------------------------
(* thorough instance G: as FF_Gq with all 6 force fields *)
EXTENDS FFExport
MCFFs == FFsG
MCInputs == InputsG(1..6, 1..4)
ASSUME PrintT(<<"FFS", ToJson(MCFFs)>>)
=============================================================================
