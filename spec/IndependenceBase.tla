-------------------------- MODULE IndependenceBase --------------------------
(***************************************************************************)
(* C13 - the generated topology is independent of labelling, ordering and  *)
(* run history.  Data model and P-layer (constant level, no variables).    *)
(*                                                                         *)
(* A *case* c is one gen_params input up to labelling:                     *)
(*   c.id, c.ff   identifier, index into FFs                               *)
(*   c.n, c.start residues are the positions 1..n in residue-id order,     *)
(*                residue id of position p = start + p - 1  (ids fixed)    *)
(*   c.rn, c.fi   Seq: residue name, from_itp block name ("" = none)       *)
(*   c.E          residue graph: set of 2-element sets of positions        *)
(*   c.mods       Seq([resid, mod]) of -mods; <<>> = default termini       *)
(*   c.mark       Seq: a residue-level attribute of the sequence file      *)
(*                ("" = absent) that MapToMolecule hands down to the atoms *)
(*                of the residue; a link atom may ask for it (mk)          *)
(* A force field F = FFs[i] is a SET of definitions presented in one base  *)
(* order:  F.blocks, F.links, F.mods (sequences = identifiers), F.bib (the *)
(* citation keys it defines), F.files = Seq([syn, defs]) with              *)
(* defs = Seq([t |-> "b"|"l"|"m", i |-> index]).                           *)
(*   block [name, nrexcl, atoms: Seq([an, ty, rn, res]), inters, cite]     *)
(*   link  [orders: Seq(Int), atoms: Seq([oi, an, rn (set), mk, ty]),      *)
(*          inters,                                                         *)
(*          rep: Seq([a, ty]), del: set of link atoms]                     *)
(*   mod   [name, atoms: Seq([an, rep, ty]), inters: Seq([kind, a, b, par])]*)
(*   interaction [kind, at: Seq(index), par, ver]                          *)
(* Nothing in a case mentions node keys, insertion orders, edge            *)
(* orientations or the order of files/definitions: PResult(c) is a         *)
(* function of the case alone.  That is the statement of C13: every run of *)
(* the pipeline on any labelling / ordering of c, after any history,       *)
(* projects to PResult(c).                                                 *)
(***************************************************************************)
EXTENDS Integers, Sequences, FiniteSets, TLC, SequencesExt

CONSTANTS FFs,     \* Seq of force fields (the catalogue, or the ones recorded in a trace file)
          Dev      \* record of BOOLEAN deviation flags (see Independence.tla)

ProteinNames == {"GLY", "ALA", "CYS", "VAL", "LEU", "ILE", "MET", "PRO", "HYP", "ASN", "GLN", "ASP", "ASP0", "GLU", "GLU0",
                 "THR", "SER", "LYS", "LYS0", "ARG", "ARG0", "HIS", "HISH", "PHE", "TYR", "TRP"}

(* ------------------------------------------------------------------ *)
(* generic helpers                                                    *)
(* ------------------------------------------------------------------ *)
MinOf(S) == CHOOSE x \in S : \A y \in S : x <= y
MaxOf(S) == CHOOSE x \in S : \A y \in S : y <= x
RECURSIVE ReachIn(_, _)
ReachIn(E, S) == LET T == S \cup {y \in UNION E : \E e \in E : y \in e /\ e \cap S # {}} IN IF T = S THEN S ELSE ReachIn(E, T)
Sorted(S) == SetToSortSeq(S, <)
PermsOf(S) == {p \in [1..Cardinality(S) -> S] : \A i, j \in DOMAIN p : i # j => p[i] # p[j]}
IdxOf(sq, x) == CHOOSE i \in DOMAIN sq : sq[i] = x
BagOf(sq) == LET S == ToSet(sq) IN [x \in S |-> Cardinality({j \in DOMAIN sq : sq[j] = x})]
RECURSIVE SumUpTo(_, _)
SumUpTo(f, n) == IF n = 0 THEN 0 ELSE f[n] + SumUpTo(f, n - 1)
RECURSIVE Ball(_, _, _)
Ball(E, a, d) == IF d < 0 THEN {} ELSE IF d = 0 THEN {a} ELSE LET B == Ball(E, a, d - 1) IN B \cup {y \in UNION E : \E x \in B : {x, y} \in E}
Pairs(at) == {{at[j], at[j + 1]} : j \in 1..(Len(at) - 1)}

(* ------------------------------------------------------------------ *)
(* cases and force fields                                             *)
(* ------------------------------------------------------------------ *)
Pos(c) == 1..c.n
Resid(c, p) == c.start + p - 1
FFof(c) == FFs[c.ff]
BlkName(c, p) == IF c.fi[p] # "" THEN c.fi[p] ELSE c.rn[p]
Used(c) == {BlkName(c, p) : p \in Pos(c)}
NRes(b) == MaxOf({b.atoms[a].res : a \in DOMAIN b.atoms})
\* block atom indices of block residue r, in block order
ResAt(b, r) == SelectSeq([a \in DOMAIN b.atoms |-> a], LAMBDA a : b.atoms[a].res = r)
Connected(c) == ReachIn(c.E, {1}) = Pos(c)

(* ---- reading the definitions: a force field object is what the files leave behind *)
\* L.b  block name -> block index (a later definition of the same name replaces the earlier one)
\* L.l  link indices in the order read;  L.ver  link index -> versions of its interactions;  L.m  modification name -> index
\* L.macs / L.sub exist for the deviation defineLeak only (intended: parameter macros `#define name value` of a polyply .itp input are NOT
\* interpreted - the token is handed through to the written .itp, grompp resolves it): L.macs = macro table name -> value the parser holds,
\* L.sub = block index -> the table its parameters were substituted with
L0 == [b |-> <<>>, l |-> <<>>, ver |-> <<>>, m |-> <<>>, macs |-> <<>>, sub |-> <<>>]
DeclVers(l) == [q \in DOMAIN l.inters |-> l.inters[q].ver]
AddDef(F, L, d) ==
  IF d.t = "b" THEN [L EXCEPT !.b = (F.blocks[d.i].name :> d.i) @@ @]
  ELSE IF d.t = "l" THEN [L EXCEPT !.l = Append(@, d.i), !.ver = (d.i :> DeclVers(F.links[d.i])) @@ @]
  ELSE [L EXCEPT !.m = (F.mods[d.i].name :> d.i) @@ @]
\* PolyplyParser.treat_link_multiple: the j-th of m interactions of one section on identical atoms gets version m - j + 1
RetagVers(xs) == [q \in DOMAIN xs |-> Cardinality({m \in DOMAIN xs : m >= q /\ xs[m].kind = xs[q].kind /\ xs[m].at = xs[q].at})]
RECURSIVE LoadDefs(_, _, _, _)
LoadDefs(F, L, ds, k) == IF k > Len(ds) THEN L ELSE LoadDefs(F, AddDef(F, L, ds[k]), ds, k + 1)
\* glob = deviation itpGlobal: finishing a polyply .itp file re-tags the versions of EVERY link read so far
\* the parameter macros a file defines (they come with its block definitions: `#define` lines of a polyply .itp), later lines win
BlockMacros(b) == IF "macros" \in DOMAIN b THEN b.macros ELSE <<>>
RECURSIVE MacFold(_, _, _)
MacFold(tab, ms, k) == IF k > Len(ms) THEN tab ELSE MacFold((ms[k].name :> ms[k].val) @@ tab, ms, k + 1)
FileBlocks(f) == {f.defs[q].i : q \in {r \in DOMAIN f.defs : f.defs[r].t = "b"}}
FileMacros(F, f, tab) == LET ds == SelectSeq(f.defs, LAMBDA d : d.t = "b")
                             RECURSIVE go(_, _)
                             go(t, k) == IF k > Len(ds) THEN t ELSE go(MacFold(t, BlockMacros(F.blocks[ds[k].i]), 1), k + 1)
                         IN go(tab, 1)
\* leak = deviation defineLeak (seed7-C13-2): the macros of every polyply .itp are kept in ONE table for the whole process (L.macs starts from what
\* earlier files / earlier calls left there) and substituted into the parameters of every block a polyply .itp defines
RECURSIVE LoadFiles(_, _, _, _, _, _)
LoadFiles(F, L, fs, k, glob, leak) ==
  IF k > Len(fs) THEN L
  ELSE LET L1 == LoadDefs(F, L, fs[k].defs, 1)
           L2 == IF glob /\ fs[k].syn = "itp" THEN [L1 EXCEPT !.ver = [i \in DOMAIN L1.ver |-> RetagVers(F.links[i].inters)]] ELSE L1
           L3 == IF leak /\ fs[k].syn = "itp"
                 THEN LET tab == FileMacros(F, fs[k], L2.macs) IN [L2 EXCEPT !.macs = tab, !.sub = [i \in FileBlocks(fs[k]) |-> tab] @@ @]
                 ELSE L2
       IN LoadFiles(F, L3, fs, k + 1, glob, leak)
\* mac0: the macro table the parser class holds when the call starts (<<>> in a new process)
LoadedM(F, fs, glob, leak, mac0) == LoadFiles(F, [L0 EXCEPT !.macs = mac0], fs, 1, glob, leak)
Loaded(F, fs, glob) == LoadedM(F, fs, glob, FALSE, <<>>)
\* the parameter of a block interaction as the loaded force field holds it
ParOf(L, bi, par) == IF bi \in DOMAIN L.sub /\ par \in DOMAIN L.sub[bi] THEN L.sub[bi][par] ELSE par

(* ---- which definitions may NOT be reordered: they define the same thing, "defined last wins" (DESIGN 4.13, domain) *)
NormAt(l, x) == LET os == {l.orders[l.atoms[x.at[j]].oi] : j \in DOMAIN x.at}
                    base == MinOf(os)
                IN [j \in DOMAIN x.at |-> <<l.orders[l.atoms[x.at[j]].oi] - base, l.atoms[x.at[j]].an>>]
HasStar(l) == \E i \in DOMAIN l.orders : l.orders[i] >= 100
NamesAt(l, x) == [j \in DOMAIN x.at |-> l.atoms[x.at[j]].an]
LinkConflict(l1, l2) ==
  \/ \E i \in DOMAIN l1.inters, j \in DOMAIN l2.inters :
        /\ l1.inters[i].kind = l2.inters[j].kind /\ l1.inters[i].ver = l2.inters[j].ver
        /\ \/ NormAt(l1, l1.inters[i]) = NormAt(l2, l2.inters[j])
           \/ ((HasStar(l1) \/ HasStar(l2)) /\ NamesAt(l1, l1.inters[i]) = NamesAt(l2, l2.inters[j]))      \* a star order can land anywhere
  \/ \E i \in DOMAIN l1.rep, j \in DOMAIN l2.rep : l1.atoms[l1.rep[i].a].an = l2.atoms[l2.rep[j].a].an
DefConflict(F, d1, d2) ==
  \/ (d1.t = "b" /\ d2.t = "b" /\ F.blocks[d1.i].name = F.blocks[d2.i].name)
  \/ (d1.t = "m" /\ d2.t = "m" /\ F.mods[d1.i].name = F.mods[d2.i].name)
  \/ (d1.t = "l" /\ d2.t = "l" /\ LinkConflict(F.links[d1.i], F.links[d2.i]))
FlatOf(fs) == FlattenSeq([f \in DOMAIN fs |-> fs[f].defs])
BaseDefs(F) == FlatOf(F.files)
\* pairs (position in the base order) whose relative order is part of the input
MustKeep(F) == LET base == BaseDefs(F) IN {<<i, j>> \in (DOMAIN base) \X (DOMAIN base) : i < j /\ DefConflict(F, base[i], base[j])}
AdmissibleK(base, mk, fs) ==
  LET sq == FlatOf(fs)
  IN /\ Len(sq) = Len(base) /\ ToSet(sq) = ToSet(base)
     /\ \A pr \in mk : IdxOf(sq, base[pr[1]]) < IdxOf(sq, base[pr[2]])
Admissible(F, fs) == AdmissibleK(BaseDefs(F), MustKeep(F), fs)
\* every presentation of the same set of definitions: files in any order, the definitions of a file in any order
\* (the definitions of one file in every order that keeps the pairs of MustKeep; then every order of the files)
InFileOK(base, mk, pm) ==
   \A pr \in mk : (\E i, j \in DOMAIN pm : pm[i] = base[pr[1]] /\ pm[j] = base[pr[2]]) => IdxOf(pm, base[pr[1]]) < IdxOf(pm, base[pr[2]])
RECURSIVE InPermsRec(_, _, _, _)
InPermsRec(F, base, mk, k) == IF k = 0 THEN {<<>>}
                              ELSE {Append(g, pm) : g \in InPermsRec(F, base, mk, k - 1), pm \in {q \in PermsOf(ToSet(F.files[k].defs)) : InFileOK(base, mk, q)}}
\* the order of the files only matters for pairs that sit in different files
FileOf(F, d) == CHOOSE f \in DOMAIN F.files : \E q \in DOMAIN F.files[f].defs : F.files[f].defs[q] = d
FileOrderOK(F, base, mk, fo) == \A pr \in mk : LET f1 == FileOf(F, base[pr[1]])  f2 == FileOf(F, base[pr[2]]) IN f1 # f2 => IdxOf(fo, f1) < IdxOf(fo, f2)
PresentationsK(F, base, mk) ==
  {[k \in DOMAIN fo |-> [syn |-> F.files[fo[k]].syn, src |-> fo[k], defs |-> g[fo[k]]]] :
      fo \in {q \in PermsOf(DOMAIN F.files) : FileOrderOK(F, base, mk, q)}, g \in InPermsRec(F, base, mk, Len(F.files))}
Presentations(F) == PresentationsK(F, TLCEval(BaseDefs(F)), TLCEval(MustKeep(F)))
\* (by construction every element is Admissible: PresentationsAdmissible is checked by the model)
PresentationsAdmissible(F) == \A fs \in Presentations(F) : Admissible(F, fs)
BasePresentation(F) == [k \in DOMAIN F.files |-> [syn |-> F.files[k].syn, src |-> k, defs |-> F.files[k].defs]]

(* ------------------------------------------------------------------ *)
(* P-layer: the molecule a user expects                               *)
(* ------------------------------------------------------------------ *)
\* process-visible state of the block objects: exclusion distance, "exclude" tag of the atoms (0 = none), citation keys
FreshBx(F, L) == [nm \in DOMAIN L.b |-> [n |-> F.blocks[L.b[nm]].nrexcl, tag |-> 0, cite |-> F.blocks[L.b[nm]].cite]]
\* blocks of one molecule with different exclusion distances: the molecule gets the minimum, the atoms remember their own
Tagged(c, bx) == LET ns == {bx[b].n : b \in Used(c)} IN
                   IF Cardinality(ns) > 1 THEN [b \in DOMAIN bx |-> IF b \in Used(c) THEN [bx[b] EXCEPT !.tag = bx[b].n, !.n = MinOf(ns)] ELSE bx[b]]
                   ELSE bx
\* fragment: a maximal connected set of residues marked from_itp with the same block; EE = the edges that count
FragE(c, EE) == {e \in EE : \A x \in e : c.fi[x] # "" /\ \A y \in e : c.fi[y] = c.fi[x]}
CompOf(c, EE, p) == ReachIn(FragE(c, EE), {p})
Comps(c, EE) == {CompOf(c, EE, p) : p \in {q \in Pos(c) : c.fi[q] # ""}}

ErrOut(e) == [err |-> e, atoms |-> <<>>, ints |-> <<>>, nrexcl |-> 0, cites |-> {}]

\* the molecule made of block copies: residues in residue-id order, a multi-residue block covers consecutive residues of its fragment
PBase(c, L, bx) ==
  LET F == FFof(c)
      blk == TLCEval([p \in Pos(c) |-> LET bi == L.b[BlkName(c, p)]
                                             b0 == F.blocks[bi]
                                         IN [b0 EXCEPT !.inters = [q \in DOMAIN b0.inters |-> [b0.inters[q] EXCEPT !.par = ParOf(L, bi, b0.inters[q].par)]]]])
      lay == TLCEval([p \in Pos(c) |-> IF c.fi[p] = "" THEN [first |-> p, loc |-> 1]
                        ELSE LET comp == CompOf(c, c.E, p)
                                 nres == NRes(blk[p])
                                 rank == Cardinality({q \in comp : q < p})
                             IN [first |-> Sorted(comp)[rank - (rank % nres) + 1], loc |-> (rank % nres) + 1]])
      mine == TLCEval([p \in Pos(c) |-> ResAt(blk[p], lay[p].loc)])
      nat == TLCEval([p \in Pos(c) |-> Len(mine[p])])
      off == TLCEval([p \in Pos(c) |-> SumUpTo(nat, p - 1)])
      total == SumUpTo(nat, c.n)
      resOf == TLCEval([g \in 1..total |-> CHOOSE p \in Pos(c) : off[p] < g /\ g <= off[p] + nat[p]])
      firsts == {p \in Pos(c) : lay[p].first = p}
      slice == TLCEval([f \in firsts |-> Sorted({p \in Pos(c) : lay[p].first = f})])
      gidx(f, a) == LET p == slice[f][blk[f].atoms[a].res] IN off[p] + IdxOf(mine[p], a)
      atom(g) == LET p == resOf[g]
                     a == blk[p].atoms[mine[p][g - off[p]]]
                 IN [resid |-> Resid(c, p), rn |-> a.rn, an |-> a.an, ty |-> a.ty, ty0 |-> a.ty, tag |-> bx[BlkName(c, p)].tag]
  IN [atoms |-> TLCEval([g \in 1..total |-> atom(g)]),
      gattr |-> TLCEval([p \in Pos(c) |-> (off[p] + 1)..(off[p] + nat[p])]),
      ints |-> UNION {{[kind |-> x.kind, at |-> [j \in DOMAIN x.at |-> gidx(f, x.at[j])], par |-> x.par, ver |-> x.ver, li |-> 0] : x \in ToSet(blk[f].inters)} : f \in firsts},
      edges |-> UNION {UNION {{{gidx(f, pr[1]), gidx(f, pr[2])} : pr \in {<<x.at[j], x.at[j + 1]>> : j \in 1..(Len(x.at) - 1)}} : x \in ToSet(blk[f].inters)} : f \in firsts},
      extra |-> <<>>, rm |-> {}]
FragLenOK(c, L) == \A p \in Pos(c) : c.fi[p] # "" => Cardinality(CompOf(c, c.E, p)) % NRes(FFof(c).blocks[L.b[c.fi[p]]]) = 0

(* ---- links *)
NOrd(l) == Len(l.orders)
PEdge(l, i, j) == \E q \in DOMAIN l.inters : \E r \in 1..(Len(l.inters[q].at) - 1) :
                     {l.atoms[l.inters[q].at[r]].oi, l.atoms[l.inters[q].at[r + 1]].oi} = {i, j}
OrdRn(l, i) == l.atoms[CHOOSE a \in DOMAIN l.atoms : l.atoms[a].oi = i].rn
LinkRns(l) == UNION {l.atoms[a].rn : a \in DOMAIN l.atoms}
\* residues connected as in the link's residue pattern (induced), with matching names
ResMatches(c, l) == {phi \in [1..NOrd(l) -> Pos(c)] :
                       /\ \A i, j \in 1..NOrd(l) : i < j => (phi[i] # phi[j] /\ (PEdge(l, i, j) <=> {phi[i], phi[j]} \in c.E))
                       /\ \A i \in 1..NOrd(l) : c.rn[phi[i]] \in OrdRn(l, i)}
\* relative orders: integers are residue-id offsets (0, +1, -1 ...); 100 + k stands for k stars ("some other residue", vermouth's `*` prefix):
\* a star order only asks for a residue different from the others (phi is injective), so both orientations of a two-residue `*` link match
\* 200 + k stands for k `>` ("a residue with a LARGER residue id than the reference residue 0"; `>>` larger than `>`), 300 + k for k `<` (smaller):
\* vermouth's match_order compares these among themselves and with the reference residue (order 0) by the SIGN of the residue-id difference only;
\* against an integer offset n # 0 or a star nothing is required
IsStar(o) == o >= 100 /\ o < 200
IsDir(o) == o >= 200
DirRank(o) == IF o >= 300 THEN 300 - o ELSE IF o >= 200 THEN o - 200 ELSE 0
OrderPairOK(c, oi, oj, pi, pj) ==
  IF IsStar(oi) \/ IsStar(oj) THEN TRUE
  ELSE IF IsDir(oi) \/ IsDir(oj)
       THEN ((IsDir(oi) \/ oi = 0) /\ (IsDir(oj) \/ oj = 0)) => ((DirRank(oi) < DirRank(oj)) <=> (Resid(c, pi) < Resid(c, pj)))
       ELSE Resid(c, pj) - Resid(c, pi) = oj - oi
OrderOK(c, l, phi) == \A i, j \in 1..NOrd(l) : i # j => OrderPairOK(c, l.orders[i], l.orders[j], phi[i], phi[j])
\* A link atom may ask for an atom type (ty).  Link atoms are matched against the residue FRAGMENTS, which keep the block's ORIGINAL atom
\* attributes for the whole run: what another link (or an earlier match) has replaced in the molecule is not seen (ty0 = the block's type;
\* ty = the current type in the molecule).  Hence a replacing link and a link selecting on the replaced attribute commute (they are not in MustKeep).
\* Deviation replaceVisible (seed5-C13-2): replaced values are mirrored into the fragments, later links select on them.
SeenTy(atom) == IF Dev.replaceVisible THEN atom.ty ELSE atom.ty0
\* link atom -> the one atom of its residue with that name (0 where there is none or more than one)
ImgVec(c, M, l, phi) == TLCEval([a \in DOMAIN l.atoms |->
                           LET p == phi[l.atoms[a].oi]
                               S == {g \in M.gattr[p] : M.atoms[g].an = l.atoms[a].an /\ c.rn[p] \in l.atoms[a].rn
                                                          /\ (l.atoms[a].mk = "" \/ c.mark[p] = l.atoms[a].mk)
                                                          /\ (l.atoms[a].ty = "" \/ SeenTy(M.atoms[g]) = l.atoms[a].ty)}
                           IN IF Cardinality(S) = 1 THEN CHOOSE g \in S : TRUE ELSE 0])
Prefilter(M, l) == \E g \in DOMAIN M.atoms : M.atoms[g].rn \in LinkRns(l)
IntImg(l, vs, k, iv) == {[kind |-> l.inters[q].kind, at |-> [j \in DOMAIN l.inters[q].at |-> iv[l.inters[q].at[j]]], par |-> l.inters[q].par, ver |-> vs[q], li |-> k] : q \in DOMAIN l.inters}
EdgeImg(l, iv) == UNION {{{iv[a] : a \in pr} : pr \in Pairs(l.inters[q].at)} : q \in DOMAIN l.inters}
DelImg(l, iv) == {iv[a] : a \in l.del}
RepImg(l, k, iv) == {[g |-> iv[l.rep[q].a], ty |-> l.rep[q].ty, li |-> k] : q \in {r \in DOMAIN l.rep : l.rep[r].a \notin l.del}}
Key(x) == <<x.kind, x.at, x.ver>>
\* every (link, residues) whose residues match, whose relative order is right and whose atoms are all found
PApps(c, L, M) ==
  LET F == FFof(c) IN
  UNION {LET l == F.links[L.l[k]] IN
         IF ~Prefilter(M, l) THEN {}
         ELSE {[k |-> k, iv |-> ImgVec(c, M, l, phi)] : phi \in {m \in ResMatches(c, l) : OrderOK(c, l, m) /\ \A a \in DOMAIN l.atoms : ImgVec(c, M, l, m)[a] # 0}}
         : k \in DOMAIN L.l}
PLinked(c, L, M) ==
  LET F == FFof(c)
      apps == PApps(c, L, M)
      all == M.ints \cup UNION {IntImg(F.links[L.l[x.k]], L.ver[L.l[x.k]], x.k, x.iv) : x \in apps}
      rm == UNION {DelImg(F.links[L.l[x.k]], x.iv) : x \in apps}
      reps == UNION {RepImg(F.links[L.l[x.k]], x.k, x.iv) : x \in apps}
      newty(g) == IF \E r \in reps : r.g = g THEN (CHOOSE r \in reps : r.g = g /\ \A q \in reps : q.g = g => q.li <= r.li).ty ELSE M.atoms[g].ty
  IN [M EXCEPT !.atoms = TLCEval([g \in DOMAIN M.atoms |-> [M.atoms[g] EXCEPT !.ty = newty(g)]]),
               !.ints = {x \in all : (\A y \in all : Key(y) = Key(x) => y.li <= x.li) /\ ~(\E j \in DOMAIN x.at : x.at[j] \in rm)},
               !.edges = {e \in (M.edges \cup UNION {EdgeImg(F.links[L.l[x.k]], x.iv) : x \in apps}) : e \cap rm = {}},
               !.rm = rm]

(* ---- modifications (terminal patches); targets = Seq([resid, mod]) applied one after the other *)
DefaultTargets(c) == <<[resid |-> Resid(c, 1), mod |-> "N-ter"], [resid |-> Resid(c, c.n), mod |-> "C-ter"]>>
Targets(c) == IF Len(c.mods) = 0 THEN DefaultTargets(c) ELSE c.mods
\* one target on the residue at position p (0 = no residue with that id): result [M, err]
ModStep(c, L, ME, t, p) ==
  IF ME.err # "" THEN ME
  ELSE IF t.mod \notin DOMAIN L.m THEN [ME EXCEPT !.err = "KeyError:mod"]
  ELSE IF p = 0 THEN [ME EXCEPT !.err = "KeyError:resid"]
  ELSE IF c.rn[p] \notin ProteinNames THEN ME
  ELSE LET M == ME.M
           md == FFof(c).mods[L.m[t.mod]]
           names == {md.atoms[a].an : a \in DOMAIN md.atoms}
           live == M.gattr[p] \ M.rm
           \* anum_dict: atom name -> the LAST atom of the residue with that name
           anum(nm) == LET S == {g \in live : M.atoms[g].an = nm} IN IF S = {} THEN 0 ELSE MaxOf(S)
           repOf(nm) == LET a == CHOOSE b \in DOMAIN md.atoms : md.atoms[b].an = nm IN md.atoms[a]
           missing == \E q \in DOMAIN md.inters : anum(md.inters[q].a) = 0 \/ anum(md.inters[q].b) = 0
                                                  \/ md.inters[q].a \notin names \/ md.inters[q].b \notin names
       IN IF missing THEN [ME EXCEPT !.err = "KeyError:modatom"]
          ELSE [ME EXCEPT !.M = [M EXCEPT
                  !.atoms = TLCEval([g \in DOMAIN M.atoms |-> IF g \in live /\ M.atoms[g].an \in names /\ repOf(M.atoms[g].an).rep
                                                             THEN [M.atoms[g] EXCEPT !.ty = repOf(M.atoms[g].an).ty] ELSE M.atoms[g]]),
                  !.extra = @ \o [q \in DOMAIN md.inters |-> [kind |-> md.inters[q].kind, at |-> <<anum(md.inters[q].a), anum(md.inters[q].b)>>,
                                                              par |-> md.inters[q].par, ver |-> 1, li |-> 0]]]]
PosOfResid(c, r) == IF \E p \in Pos(c) : Resid(c, p) = r THEN CHOOSE p \in Pos(c) : Resid(c, p) = r ELSE 0
RECURSIVE ModFold(_, _, _, _, _)
ModFold(c, L, ME, ts, k) == IF k > Len(ts) THEN ME ELSE ModFold(c, L, ModStep(c, L, ME, ts[k], PosOfResid(c, ts[k].resid)), ts, k + 1)
PModded(c, L, M) == IF DOMAIN L.m = {} THEN [M |-> M, err |-> ""] ELSE ModFold(c, L, [M |-> M, err |-> ""], Targets(c), 1)

(* ---- exclusions generated for atoms that remember a larger exclusion distance than the molecule's *)
ExclGen(M, molN) ==
  LET live == (DOMAIN M.atoms) \ M.rm
      tagged == {g \in live : M.atoms[g].tag > molN}
      nb == TLCEval([g \in tagged |-> (Ball(M.edges, g, M.atoms[g].tag) \ Ball(M.edges, g, molN - 2)) \ {g}])
  IN {<<g, h>> \in tagged \X live : h \in nb[g] /\ ~(h \in tagged /\ h < g /\ g \in nb[h])}

(* ---- what reaches the .itp: atoms in order, interactions as a multiset over atom numbers, exclusion distance, citations *)
Project(M, molN, cites) ==
  LET live == Sorted((DOMAIN M.atoms) \ M.rm)
      num == [g \in ToSet(live) |-> IdxOf(live, g)]
      dictSeq == SetToSeq(M.ints)
      excl == SetToSeq(ExclGen(M, molN))
      recs == [q \in DOMAIN dictSeq |-> [kind |-> dictSeq[q].kind, at |-> [j \in DOMAIN dictSeq[q].at |-> num[dictSeq[q].at[j]]], par |-> dictSeq[q].par]]
              \o [q \in DOMAIN M.extra |-> [kind |-> M.extra[q].kind, at |-> [j \in DOMAIN M.extra[q].at |-> num[M.extra[q].at[j]]], par |-> M.extra[q].par]]
              \o [q \in DOMAIN excl |-> [kind |-> "exclusions", at |-> <<num[excl[q][1]], num[excl[q][2]]>>, par |-> ""]]
  IN [err |-> "",
      atoms |-> [i \in DOMAIN live |-> [resid |-> M.atoms[live[i]].resid, rn |-> M.atoms[live[i]].rn, an |-> M.atoms[live[i]].an, ty |-> M.atoms[live[i]].ty]],
      ints |-> BagOf(recs),
      nrexcl |-> molN,
      cites |-> cites]

\* the result of gen_params on case c when the block objects are in state bx0 before the run (bx0 = FreshBx: a new process,
\* or any run of the intended design); second component: the state the block objects are left in
MolNOf(c, bx) == bx[BlkName(c, 1)].n
CitesOf(c, bx) == (UNION {bx[b].cite : b \in Used(c)}) \cap FFof(c).bib
PRun(c, L, bx0) ==
  IF \E b \in Used(c) : b \notin DOMAIN L.b THEN [out |-> ErrOut("IOError:noblock"), bx |-> bx0]
  ELSE IF ~FragLenOK(c, L) THEN [out |-> ErrOut("IOError:fraglen"), bx |-> bx0]
  ELSE LET bx == Tagged(c, bx0)
           molN == MolNOf(c, bx)
           cites == CitesOf(c, bx)
           \* vermouth: the molecule shares the citation set of its first block and collects the others into it
           bx2 == [bx EXCEPT ![BlkName(c, 1)].cite = @ \cup UNION {bx[b].cite : b \in Used(c)}]
           ME == PModded(c, L, PLinked(c, L, PBase(c, L, bx)))
       IN [out |-> IF ME.err # "" THEN ErrOut(ME.err) ELSE Project(ME.M, molN, cites), bx |-> bx2]
PLoaded(c) == Loaded(FFof(c), FFof(c).files, FALSE)
PResult(c) == PRun(c, PLoaded(c), FreshBx(FFof(c), PLoaded(c))).out

(* ---- the stated domain (DESIGN 4.13) *)
NoTies(F) == \A i, j \in DOMAIN F.links : LET l1 == F.links[i]  l2 == F.links[j] IN
                \A x \in DOMAIN l1.rep, y \in DOMAIN l2.rep : (i = j /\ x # y) => l1.rep[x].a # l1.rep[y].a
\* an atom removed by a link must not sit at a node key that equals a version number (open finding of C02, not a C13 matter)
NoVerKeyClash(c) == LET L == PLoaded(c)
                        bx == Tagged(c, FreshBx(FFof(c), L))
                        M == PLinked(c, L, PBase(c, L, bx))
                        vers == UNION {{x.ver : x \in M.ints}, UNION {{FFof(c).links[i].inters[q].ver : q \in DOMAIN FFof(c).links[i].inters} : i \in DOMAIN FFof(c).links}}
                    IN \A g \in M.rm : (g - 1) \notin vers
InDomain(c) == /\ Connected(c)
               /\ \A b \in Used(c) : b \in DOMAIN PLoaded(c).b
               /\ (\A b \in Used(c) : b \in DOMAIN PLoaded(c).b) => (FragLenOK(c, PLoaded(c)) => NoVerKeyClash(c))
=============================================================================
