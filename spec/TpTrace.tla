---------------------------- MODULE TpTrace ----------------------------
(* I->S for C15: one trace per real run  Topology -> build file -> GenerateTemplates  on a seeded random system *)
(* beyond the exhaustive bound (residues of up to 8 atoms, rings, branches, every virtual-site kind, equal       *)
(* residue names with different content, build files with templates and volumes).  Events, in the order the     *)
(* code performs the steps of Templates.tla:                                                                     *)
(*   "V" end of a [ volumes ] section (one line), "T" end of a [ template ] section, "F" end of the build file,  *)
(*   "G" GenerateTemplates.run_molecule of the next molecule,                                                    *)
(*   "E" end of the run: for every residue of every molecule the version of the template its OWN molecule holds   *)
(*       under the residue's key (0 = the user's coordinates, n = the n-th distinct generated coordinate set seen  *)
(*       for that key over the molecules) and whether a computed size equals the size of that very template.      *)
(* A run without any build file (tr.nobld) has no "F" event: nothing is attached to the molecules before "G".     *)
(* Every event carries the projected tables after the step (sizes by residue name / hash with their source,     *)
(* templates by hash with their source), the (hash, residue type) pairs observed so far and, for "G", the hash   *)
(* of every residue and one record per generated template with the booleans of the numeric monitor, which the    *)
(* specification REQUIRES.  TLC decides the discrete part: which residue types are the same residue (canonical   *)
(* labelled graph, proved equivalent to isomorphism in TpGroup), that equal hashes <=> same residue, and that    *)
(* the tables evolve as the I-layer of Templates.tla says.  Doc.vs holds sampled construct_vs evaluations.       *)
EXTENDS Templates, Json, IOUtils, SequencesExt
VARIABLES tid, l
Doc == JsonDeserialize(IOEnv.TRACE_FILE)
Traces == Doc.traces
\* residue types of all traces (ids are unique over the whole file)
GraphOf(c) == [n |-> Len(c.nm), nm |-> c.nm, ed |-> { <<e[1], e[2]>> : e \in ToSet(c.ed) }]
TContent == [t \in DOMAIN Doc.content |-> [rn |-> Doc.content[t].rn, g |-> GraphOf(Doc.content[t]), u |-> <<>>,
                                           hasvs |-> Doc.content[t].hasvs, bonded |-> Doc.content[t].bonded]]
TSystems == {<<>>}
TBuild == {<<>>}
ASSUME TLCSet(1, {}) /\ TLCSet(2, [t \in 1..Len(Traces) |-> 0])
Tr == Traces[tid]
Ev == Tr.events[l]
\* the representative of a residue type: the first type of the trace (in tr.types order) with the same canonical labelled graph
SameRes(a, b) == Canon(Content[a].g) = Canon(Content[b].g)
RepIn(types, t) == types[CHOOSE i \in 1..Len(types) : SameRes(types[i], t) /\ \A j \in 1..(i - 1) : ~SameRes(types[j], t)]
Rep(t) == RepIn(Tr.types, t)
EntryOf(types, b) == IF b.e = "T" THEN [e |-> "T", k |-> RepIn(types, b.t), rn |-> Content[b.t].rn, v |-> 0]
                     ELSE [e |-> "V", k |-> "", rn |-> b.rn, v |-> b.v]
TInit == /\ tid \in 1..Len(Traces) /\ l = 1
         /\ sys = [m \in 1..Len(Traces[tid].sys) |-> [i \in 1..Len(Traces[tid].sys[m]) |-> RepIn(Traces[tid].types, Traces[tid].sys[m][i])]]
         /\ bld = [i \in 1..Len(Traces[tid].bld) |-> EntryOf(Traces[tid].types, Traces[tid].bld[i])]
         /\ nobld = Traces[tid].nobld
         /\ pc = StartPc(Traces[tid].sys, Traces[tid].bld, Traces[tid].nobld)
         /\ InitTables(Traces[tid].sys)

\* ---- binding of the observed tables (keyed by hash / residue name) to the tables of the specification (keyed by representative)
HMap == { <<p[1], p[2]>> : p \in ToSet(Ev.hmap) }
\* same hash <=> same residue, over everything observed so far
HashesGroup == \A p, q \in HMap : (p[1] = q[1]) <=> SameRes(p[2], q[2])
HashesOf(k) == { p[1] : p \in { q \in HMap : Rep(q[2]) = k } }
TrResnames == { Content[Tr.types[i]].rn : i \in 1..Len(Tr.types) }
TrKeys == { Rep(Tr.types[i]) : i \in 1..Len(Tr.types) }
ObsVols == { [name |-> e[1], val |-> [src |-> e[2], v |-> e[3]], pos |-> e[4]] : e \in ToSet(Ev.vols) }
ObsTmpl == { [name |-> e[1], src |-> e[2]] : e \in ToSet(Ev.tmpl) }
VolOf(name) == IF \E o \in ObsVols : o.name = name THEN (CHOOSE o \in ObsVols : o.name = name).val ELSE NoVal
TmplOf(name) == IF \E o \in ObsTmpl : o.name = name THEN (CHOOSE o \in ObsTmpl : o.name = name).src ELSE "none"
TablesMatch ==
  /\ HashesGroup
  /\ \A o \in ObsVols : o.pos /\ (o.name \in TrResnames \/ \E p \in HMap : p[1] = o.name)        \* every size positive, every entry explained
  /\ \A o \in ObsTmpl : \E p \in HMap : p[1] = o.name
  /\ \A rn \in TrResnames : vols'[rn] = VolOf(rn)
  /\ \A k \in TrKeys : IF HashesOf(k) = {} THEN vols'[k] = NoVal /\ tmpl'[k].src = "none"
                       ELSE \A h \in HashesOf(k) : vols'[k] = VolOf(h) /\ tmpl'[k].src = TmplOf(h)
Keep == tid' = tid /\ l' = l + 1
TV == Ev.op = "V" /\ ParseVolume /\ TablesMatch /\ Keep
TT == Ev.op = "T" /\ ParseTemplate /\ TablesMatch /\ Keep
TF == Ev.op = "F" /\ Finalize /\ TablesMatch /\ Keep
\* residues of molecule m carry hashes that group exactly like their contents; generated templates = the keys without template before
GenRecs == ToSet(Ev.gen)
MonitorOK(g) == g.names_ok /\ g.cog0 /\ g.size_pos /\ g.vs_ok /\ g.equiv_ok /\ g.targets_ok
TG == /\ Ev.op = "G" /\ Gen
      /\ Ev.mol = pc.i
      /\ Len(Ev.tags) = Len(sys[pc.i])
      /\ \A i \in 1..Len(Ev.tags) : <<Ev.tags[i], Tr.sys[pc.i][i]>> \in HMap
      /\ TablesMatch
      /\ { g.hash : g \in GenRecs } = UNION { HashesOf(k) : k \in { k2 \in TrKeys : tmpl[k2].src # "generated" /\ tmpl'[k2].src = "generated" } }
      /\ \A g \in GenRecs : MonitorOK(g)
      \* the virtual sites of every generated template are where the specification says (constructed - also when the minimiser had
      \* nothing to do), judged by the monitor from the stored template: g.vs in {"none", "constructed", "initial"}
      \* (the key of g.hash = the representative of any observed pair with that hash; written per pair, HashesOf per key is costly)
      /\ \A g \in GenRecs : \A p \in HMap : p[1] = g.hash => g.vs = tmpl'[Rep(p[2])].vs
      /\ Keep
\* the end of the run: every residue is backed, in its own molecule, by the version of the template the specification says
\* (one template per key in the whole system: OneTemplatePerKey), and a computed size is the size of that template (SizeBelongs)
TE == /\ Ev.op = "E" /\ pc.phase = "done"
      /\ Len(Ev.held) = Len(sys) /\ Len(Ev.sizeok) = Len(sys)
      /\ \A m \in 1..Len(sys) :
           /\ Len(Ev.held[m]) = Len(sys[m]) /\ Len(Ev.sizeok[m]) = Len(sys[m])
           /\ \A i \in 1..Len(sys[m]) : Ev.held[m][i] = held[m][tag[<<m, i>>]] /\ Ev.sizeok[m][i]
      /\ UNCHANGED vars /\ Keep
TNext == l <= Len(Tr.events) /\ (TV \/ TT \/ TF \/ TG \/ TE)
TSpec == TInit /\ [][TNext]_<<vars, tid, l>>
Mark == (l = Len(Tr.events) + 1 /\ pc.phase = "done" /\ Tr.events[Len(Tr.events)].op = "E") => TLCSet(1, TLCGet(1) \cup {tid})
Prog == TLCSet(2, [TLCGet(2) EXCEPT ![tid] = IF @ < l - 1 THEN l - 1 ELSE @])
\* sampled evaluations of construct_vs: equal to the independent GROMACS formula and equivariant under a random rigid motion
BadVS == { i \in 1..Len(Doc.vs) : ~(Doc.vs[i].matches_gmx /\ Doc.vs[i].equivariant) }
\* sampled calls of optimize_geometry: a reported success implies every bond / constraint / angle / improper within tolerance
BadOpt == { i \in 1..Len(Doc.opt) : Doc.opt[i].success /\ ~Doc.opt[i].targets_ok }
Accepted == /\ IF BadOpt = {} THEN TRUE ELSE (PrintT(<<"REJECTEDOPT", ToJson(SetToSeq(BadOpt))>>) /\ FALSE)
            /\ IF TLCGet(1) = 1..Len(Traces) THEN TRUE
               ELSE (PrintT(<<"REJECTED", ToJson(SetToSeq({<<t, TLCGet(2)[t]>> : t \in (1..Len(Traces)) \ TLCGet(1)}))>>) /\ FALSE)
            /\ IF BadVS = {} THEN TRUE ELSE (PrintT(<<"REJECTEDVS", ToJson(SetToSeq(BadVS))>>) /\ FALSE)
=============================================================================
