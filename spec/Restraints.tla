------------------------------ MODULE Restraints ------------------------------
(***************************************************************************)
(* C07 - build-file restraints.                                            *)
(*  (1) Sel: which residues a residue-level directive of a [ molecule ]    *)
(*      block selects (name + half-open index range, resname + half-open   *)
(*      resid range).                                                      *)
(*  (2) Bounds: the per-residue distance windows derived from a distance   *)
(*      restraint (ref, target, d, tol) along the growth path; lengths in  *)
(*      integer units (1/1000 nm); the lower bound is the rational         *)
(*      d*(i)/len - tol, exported as <<num, den>>.                         *)
(*  (3) ClosingPair: the pair restrained with d = 0 for a ring declared    *)
(*      cyclic.                                                            *)
(* P-layer = declarative definitions; I-layer = the loops of               *)
(* restraints.set_distance_restraint and gen_coords._initialize_cylces.    *)
(***************************************************************************)
EXTENDS Integers, Sequences, FiniteSets, TLC, SequencesExt

(* ---------------- (1) selection ---------------- *)
\* directive: [mname, mlo, mhi, rn, rlo, rhi]; molecule: [name, idx]; residue: [rn, resid]
Sel(dir, m, r) == /\ m.name = dir.mname /\ dir.mlo <= m.idx /\ m.idx < dir.mhi
                  /\ r.rn = dir.rn /\ dir.rlo <= r.resid /\ r.resid < dir.rhi

(* ---------------- (2) distance windows ---------------- *)
\* chain 0..n-1 grown from node 0; restraint between ref and target (either order)
FirstN(ref, target) == IF ref < target THEN ref ELSE target        \* placed first: plays the role of the reference
LastN(ref, target) == IF ref < target THEN target ELSE ref         \* placed last: the restrained residue
PathLen(ref, target) == LastN(ref, target) - FirstN(ref, target)
\* P-layer: a residue x strictly after the first and up to the last one, k = remaining graph distance to the last
UpperP(x, ref, target, d, tol, avg) == LET k == IF x = LastN(ref, target) THEN 1 ELSE LastN(ref, target) - x IN k * avg + d + tol
LowerNumP(x, ref, target, d) == d * (x - FirstN(ref, target))     \* numerator of d * i / len
WindowP(ref, target, d, tol, avg) ==
   [x \in (FirstN(ref, target) + 1)..LastN(ref, target) |->
        [refnode |-> FirstN(ref, target), upper |-> UpperP(x, ref, target, d, tol, avg),
         lownum |-> LowerNumP(x, ref, target, d), lowden |-> PathLen(ref, target), tol |-> tol]]
\* the restrained pair ends within [d - tol, d + tol + one average step]
TargetWindow(ref, target, d, tol, avg) == LET w == WindowP(ref, target, d, tol, avg)[LastN(ref, target)] IN
   /\ w.upper = d + tol + avg
   /\ w.lownum = d * w.lowden
\* windows tighten towards the restrained residue
Nested(ref, target, d, tol, avg) == LET w == WindowP(ref, target, d, tol, avg) IN
   \A x \in DOMAIN w : \A y \in DOMAIN w : (x < y /\ y < LastN(ref, target)) => (w[x].upper >= w[y].upper /\ w[x].lownum <= w[y].lownum)

\* I-layer: set_distance_restraint - swap when the target is the ancestor, path by predecessors, two distance dictionaries
RECURSIVE LoopI(_, _, _, _, _, _, _)
LoopI(path, i, refn, tgt, d, tol, avg) ==
   IF i > Len(path) THEN <<>>
   ELSE LET node == path[i]
            gref == i - 1                         \* graph_distances_ref[node] = path.index(node)
            gtgt == Len(path) - 1 - gref          \* graph_distances_target[node]
            rest == LoopI(path, i + 1, refn, tgt, d, tol, avg)
        IN IF node = refn THEN rest
           ELSE << [node |-> node, refnode |-> refn,
                    upper |-> (IF node = tgt THEN 1 ELSE gtgt) * avg + d + tol,
                    lownum |-> d * gref, lowden |-> Len(path) - 1, tol |-> tol] >> \o rest
WindowI(ref, target, d, tol, avg) ==
   LET swap == target < ref                         \* lowest common ancestor = target  (chain grown from 0)
       r2 == IF swap THEN target ELSE ref
       t2 == IF swap THEN ref ELSE target
       path == [i \in 1..(t2 - r2 + 1) |-> r2 + i - 1]
   IN LoopI(path, 1, r2, t2, d, tol, avg)
SameWindow(ref, target, d, tol, avg) ==
   LET wi == WindowI(ref, target, d, tol, avg) wp == WindowP(ref, target, d, tol, avg) IN
     /\ Len(wi) = Cardinality(DOMAIN wp)
     /\ \A j \in 1..Len(wi) : wi[j].node \in DOMAIN wp /\
          [refnode |-> wi[j].refnode, upper |-> wi[j].upper, lownum |-> wi[j].lownum, lowden |-> wi[j].lowden, tol |-> wi[j].tol] = wp[wi[j].node]

(* ---------------- (3) rings declared cyclic ---------------- *)
\* ring 0 - 1 - ... - (n-1) - 0, grown from node 0; adjacency order as the bonds are listed: 0: <<1, n-1>>, i: <<i-1, i+1>>
RingEdges(n) == {{i, (i + 1) % n} : i \in 0..(n - 1)}
\* depth-first tree from 0 following the first neighbour: the path 0,1,...,n-1; edge list in networkx order
DfsTree(n) == [i \in 1..(n - 1) |-> <<i - 1, i>>]
\* breadth-first tree from 0: 0->1, 0->n-1, 1->2, n-1->n-2, ...  (edges listed per node in visiting order)
RECURSIVE BfsOrder(_, _, _)
BfsOrder(n, lo, hi) == IF lo > hi THEN <<>> ELSE IF lo = hi THEN <<lo>> ELSE <<lo, hi>> \o BfsOrder(n, lo + 1, hi - 1)
BfsNodes(n) == <<0>> \o BfsOrder(n, 1, n - 1)
BfsParent(n, x) == IF x = 1 \/ x = n - 1 THEN 0 ELSE IF 2 * x <= n THEN x - 1 ELSE x + 1
BfsTree(n) == LET nodes == BfsNodes(n) IN
   \* networkx lists the edges grouped by parent in node-insertion order; on a ring every node has at most one child except the root
   LET children(p) == SelectSeq(nodes, LAMBDA x : x # 0 /\ BfsParent(n, x) = p) IN
   FlattenSeq([j \in 1..Len(nodes) |-> [c \in 1..Len(children(nodes[j])) |-> <<nodes[j], children(nodes[j])[c]>>]])
TreeEdgeSet(t) == {{t[i][1], t[i][2]} : i \in 1..Len(t)}
\* P-layer: the closing edge is the ring edge that is not in the growth tree
ClosingPairP(n, tree) == CHOOSE e \in RingEdges(n) : e \notin TreeEdgeSet(tree)
\* I-layer: _initialize_cylces takes the source of the first and the target of the last tree edge
ClosingPairI(tree) == {tree[1][1], tree[Len(tree)][2]}
=============================================================================
