------------------------------ MODULE Restraints ------------------------------
(***************************************************************************)
(* C07 - build-file restraints.                                            *)
(*  (1) Sel: which residues a residue-level directive of a [ molecule ]    *)
(*      block selects (name + half-open index range, resname + half-open   *)
(*      resid range).                                                      *)
(*  (2) Bounds: the per-residue distance windows derived from a distance   *)
(*      restraint (ref, target, d, tol) along the growth path; lengths in  *)
(*      integer units (1/1000 nm); the lower bound is the rational         *)
(*      d*(i)/len - tol, exported as <<num, den>>.                         *)
(*  (3) ClosingPair: the pair restrained with d = 0 for a ring declared    *)
(*      cyclic.                                                            *)
(* P-layer = declarative definitions; I-layer = the loops of               *)
(* restraints.set_distance_restraint and gen_coords._initialize_cylces.    *)
(***************************************************************************)
EXTENDS Integers, Sequences, FiniteSets, TLC, SequencesExt

(* ---------------- (1) selection ---------------- *)
\* directive: [mname, mlo, mhi, rn, rlo, rhi]; molecule: [name, idx]; residue: [rn, resid]
Sel(dir, m, r) == /\ m.name = dir.mname /\ dir.mlo <= m.idx /\ m.idx < dir.mhi
                  /\ r.rn = dir.rn /\ dir.rlo <= r.resid /\ r.resid < dir.rhi

(* ---------------- (1b) selection over the node list of one molecule ---------------- *)
\* res: the residues of one molecule in NODE order (order of first appearance in the .itp), each [rn, resid].  Residue ids are
\* unique but need NOT ascend along the node list (comb polymer: backbone 1..n, each followed by its side chain n+1..2n; a block
\* listed first and numbered last).  Directive d: [rn, rlo, rhi].  The selection is a property of (name, id) alone, never of the
\* position of the residue in the node list.
SelNodesP(d, res) == { i \in 1..Len(res) : res[i].rn = d.rn /\ d.rlo <= res[i].resid /\ res[i].resid < d.rhi }
\* I-layer: the loop of BuildDirector._tag_nodes - every node is visited in node order, tagged when its id is in arange(start, stop)
\* and its name matches
RECURSIVE TagLoopI(_, _, _)
TagLoopI(d, res, i) == IF i > Len(res) THEN <<>>
                       ELSE (IF d.rlo <= res[i].resid /\ res[i].resid < d.rhi /\ res[i].rn = d.rn THEN <<i>> ELSE <<>>) \o TagLoopI(d, res, i + 1)
\* deviation "slice": the residues of an id range are taken to be one stretch of the node list, found by bisection on the ids as listed
RECURSIVE BisectLeft(_, _, _, _)
BisectLeft(ids, v, lo, hi) == IF lo >= hi THEN lo
                              ELSE LET mid == (lo + hi) \div 2 IN IF ids[mid + 1] < v THEN BisectLeft(ids, v, mid + 1, hi) ELSE BisectLeft(ids, v, lo, mid)
TagSliceDev(d, res) == LET ids == [i \in 1..Len(res) |-> res[i].resid]
                           first == BisectLeft(ids, d.rlo, 0, Len(res))
                           last == BisectLeft(ids, d.rhi, 0, Len(res))
                       IN SelectSeq([k \in 1..(last - first) |-> first + k], LAMBDA i : res[i].rn = d.rn)
\* deviation "index": the position in the node list is taken for the residue id
TagIndexDev(d, res) == SelectSeq([k \in 1..Len(res) |-> k], LAMBDA i : d.rlo <= i /\ i < d.rhi /\ res[i].rn = d.rn)
SeqRange(s) == {s[i] : i \in 1..Len(s)}

(* ---------------- (2b) how a window is applied: minimum image in a rectangular box ---------------- *)
\* lengths in 1/1000 nm; box = <<Lx, Ly, Lz>> (edges need not be equal); a candidate is accepted iff the minimum-image distance
\* to the reference residue lies in [lo, up]
AbsV(x) == IF x < 0 THEN -x ELSE x
\* P-layer: per axis the shortest of the separations to the periodic images of the other point
ImgP(dx, L) == LET S == {AbsV(dx + k * L) : k \in -3..3} IN CHOOSE m \in S : \A o \in S : m <= o
Dist2P(dv, box) == ImgP(dv[1], box[1]) * ImgP(dv[1], box[1]) + ImgP(dv[2], box[2]) * ImgP(dv[2], box[2]) + ImgP(dv[3], box[3]) * ImgP(dv[3], box[3])
InWindow2(m2, lo, up) == (lo <= 0 \/ lo * lo <= m2) /\ m2 <= up * up
\* I-layer: NonBondEngine.pbc_min_dist on two points inside the box - per axis min((a-b) mod L, (b-a) mod L)
ImgI(pa, pb, L) == LET x == (pa - pb) % L y == (pb - pa) % L IN IF x < y THEN x ELSE y
\* deviation "noimage": plain separation;  deviation "halfshortest": folded once at half of the SHORTEST edge on every axis
BoxMin(box) == CHOOSE m \in {box[1], box[2], box[3]} : \A o \in {box[1], box[2], box[3]} : m <= o
ImgDev(how, pa, pb, L, box) == IF how = "noimage" THEN AbsV(pa - pb)
                               ELSE IF how = "halfshortest" THEN (IF 2 * AbsV(pa - pb) > BoxMin(box) THEN L - AbsV(pa - pb) ELSE AbsV(pa - pb))
                               ELSE ImgI(pa, pb, L)
Dist2I(how, pa, pb, box) == LET c(i) == ImgDev(how, pa[i], pb[i], box[i], box) IN c(1) * c(1) + c(2) * c(2) + c(3) * c(3)
WrapInto(p, box) == [i \in 1..3 |-> p[i] % box[i]]

(* ---------------- (2) distance windows ---------------- *)
\* chain 0..n-1 grown from node 0; restraint between ref and target (either order)
FirstN(ref, target) == IF ref < target THEN ref ELSE target        \* placed first: plays the role of the reference
LastN(ref, target) == IF ref < target THEN target ELSE ref         \* placed last: the restrained residue
PathLen(ref, target) == LastN(ref, target) - FirstN(ref, target)
\* P-layer: a residue x strictly after the first and up to the last one, k = remaining graph distance to the last
UpperP(x, ref, target, d, tol, avg) == LET k == IF x = LastN(ref, target) THEN 1 ELSE LastN(ref, target) - x IN k * avg + d + tol
LowerNumP(x, ref, target, d) == d * (x - FirstN(ref, target))     \* numerator of d * i / len
WindowP(ref, target, d, tol, avg) ==
   [x \in (FirstN(ref, target) + 1)..LastN(ref, target) |->
        [refnode |-> FirstN(ref, target), upper |-> UpperP(x, ref, target, d, tol, avg),
         lownum |-> LowerNumP(x, ref, target, d), lowden |-> PathLen(ref, target), tol |-> tol]]
\* the restrained pair ends within [d - tol, d + tol + one average step]
TargetWindow(ref, target, d, tol, avg) == LET w == WindowP(ref, target, d, tol, avg)[LastN(ref, target)] IN
   /\ w.upper = d + tol + avg
   /\ w.lownum = d * w.lowden
\* windows tighten towards the restrained residue
Nested(ref, target, d, tol, avg) == LET w == WindowP(ref, target, d, tol, avg) IN
   \A x \in DOMAIN w : \A y \in DOMAIN w : (x < y /\ y < LastN(ref, target)) => (w[x].upper >= w[y].upper /\ w[x].lownum <= w[y].lownum)

\* I-layer: set_distance_restraint - swap when the target is the ancestor, path by predecessors, two distance dictionaries
RECURSIVE LoopI(_, _, _, _, _, _, _)
LoopI(path, i, refn, tgt, d, tol, avg) ==
   IF i > Len(path) THEN <<>>
   ELSE LET node == path[i]
            gref == i - 1                         \* graph_distances_ref[node] = path.index(node)
            gtgt == Len(path) - 1 - gref          \* graph_distances_target[node]
            rest == LoopI(path, i + 1, refn, tgt, d, tol, avg)
        IN IF node = refn THEN rest
           ELSE << [node |-> node, refnode |-> refn,
                    upper |-> (IF node = tgt THEN 1 ELSE gtgt) * avg + d + tol,
                    lownum |-> d * gref, lowden |-> Len(path) - 1, tol |-> tol] >> \o rest
WindowI(ref, target, d, tol, avg) ==
   LET swap == target < ref                         \* lowest common ancestor = target  (chain grown from 0)
       r2 == IF swap THEN target ELSE ref
       t2 == IF swap THEN ref ELSE target
       path == [i \in 1..(t2 - r2 + 1) |-> r2 + i - 1]
   IN LoopI(path, 1, r2, t2, d, tol, avg)
SameWindow(ref, target, d, tol, avg) ==
   LET wi == WindowI(ref, target, d, tol, avg) wp == WindowP(ref, target, d, tol, avg) IN
     /\ Len(wi) = Cardinality(DOMAIN wp)
     /\ \A j \in 1..Len(wi) : wi[j].node \in DOMAIN wp /\
          [refnode |-> wi[j].refnode, upper |-> wi[j].upper, lownum |-> wi[j].lownum, lowden |-> wi[j].lowden, tol |-> wi[j].tol] = wp[wi[j].node]

(* ---------------- (3) rings declared cyclic ---------------- *)
\* ring 0 - 1 - ... - (n-1) - 0, grown from node 0; adjacency order as the bonds are listed: 0: <<1, n-1>>, i: <<i-1, i+1>>
RingEdges(n) == {{i, (i + 1) % n} : i \in 0..(n - 1)}
\* depth-first tree from 0 following the first neighbour: the path 0,1,...,n-1; edge list in networkx order
DfsTree(n) == [i \in 1..(n - 1) |-> <<i - 1, i>>]
\* breadth-first tree from 0: 0->1, 0->n-1, 1->2, n-1->n-2, ...  (edges listed per node in visiting order)
RECURSIVE BfsOrder(_, _, _)
BfsOrder(n, lo, hi) == IF lo > hi THEN <<>> ELSE IF lo = hi THEN <<lo>> ELSE <<lo, hi>> \o BfsOrder(n, lo + 1, hi - 1)
BfsNodes(n) == <<0>> \o BfsOrder(n, 1, n - 1)
BfsParent(n, x) == IF x = 1 \/ x = n - 1 THEN 0 ELSE IF 2 * x <= n THEN x - 1 ELSE x + 1
BfsTree(n) == LET nodes == BfsNodes(n) IN
   \* networkx lists the edges grouped by parent in node-insertion order; on a ring every node has at most one child except the root
   LET children(p) == SelectSeq(nodes, LAMBDA x : x # 0 /\ BfsParent(n, x) = p) IN
   FlattenSeq([j \in 1..Len(nodes) |-> [c \in 1..Len(children(nodes[j])) |-> <<nodes[j], children(nodes[j])[c]>>]])
TreeEdgeSet(t) == {{t[i][1], t[i][2]} : i \in 1..Len(t)}
\* P-layer: the closing edge is the ring edge that is not in the growth tree
ClosingPairP(n, tree) == CHOOSE e \in RingEdges(n) : e \notin TreeEdgeSet(tree)
\* I-layer: _initialize_cylces takes the source of the first and the target of the last tree edge
ClosingPairI(tree) == {tree[1][1], tree[Len(tree)][2]}
=============================================================================
