SPECIFICATION XSpec
CONSTANTS
 L = 2
 Chains <- Chains2x3
 Closed <- Ring1
 Grid <- Grid2
 Bundle <- Bundle6
 MaxIter = 5
 MaxReject = 2
 Dev <- NoDev
INVARIANT StepOne
INVARIANT NoOverlap
INVARIANT ExportInv
CHECK_DEADLOCK FALSE
