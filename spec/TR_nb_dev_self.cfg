SPECIFICATION NSpec
CONSTANTS
 NBCases <- SmallNBCases
 DevOverrideExplicit = FALSE
 DevEpsHalf = FALSE
 DevSigmaInverted = FALSE
 DevSelfFromFirst = TRUE
INVARIANT NConforms
CHECK_DEADLOCK FALSE
