SPECIFICATION XSpec
CONSTANTS
 Configs <- MCQuick
 DevUserLast = FALSE
 DevFirstWins = FALSE
 DevBibMerge = FALSE
 DevSplitAll = FALSE
 DevTmplMerge = FALSE
 DevSkipUserUnknown = FALSE
 DevIdReuse = FALSE
INVARIANT ExportInv
CHECK_DEADLOCK FALSE
