INIT MCInitTiny
NEXT Next
CONSTANTS
 Inputs = {}
 LibOf <- MCLibOf
 Dev <- NoDev
 FreeOrder = TRUE
INVARIANT ExpEveryRequestApplied
CHECK_DEADLOCK FALSE
