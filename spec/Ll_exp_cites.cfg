SPECIFICATION Spec
CONSTANTS
 Configs <- MCQuick
 DevUserLast = FALSE
 DevFirstWins = FALSE
 DevBibMerge = FALSE
 DevSplitAll = FALSE
 DevTmplMerge = FALSE
 DevSkipUserUnknown = FALSE
INVARIANT CitationsAccumulate
CHECK_DEADLOCK FALSE
