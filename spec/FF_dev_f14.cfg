SPECIFICATION Spec
CONSTANTS
 Inputs <- MCInputs
 Dev <- DevF14
INVARIANT C01_Inv
CHECK_DEADLOCK FALSE
