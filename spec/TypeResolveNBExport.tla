---------------------------- MODULE TypeResolveNBExport ----------------------------
(* S->I for C09 (non-bonded part): up to three atom types, every subset of the six unordered pairs (self pairs     *)
(* included) listed explicitly in [ nonbond_params ], in either order of the two names, gen-pairs yes/no, the three *)
(* combination rules; and a grid of positive C6/C12 values for the conversion.                                      *)
EXTENDS TypeResolveNB, Json

NBNames == <<"Q", "P", "R">>   \* not in alphabetical order
\* <<v1, v2>> of the atom types and of the explicit pairs (decimal rationals n * 10^-e)
TypeVals == << <<Q(27, 1, 4), Q(99, 1, 8)>>, <<Q(2, 1, 0), Q(3, 1, 0)>>, <<Q(7, 1, 3), Q(1, 1, 6)>> >>
PairIdx(nt) == SetToSortSeq({<<x, y>> \in (1..nt) \X (1..nt) : x <= y}, LAMBDA u, v : u[1] < v[1] \/ (u[1] = v[1] /\ u[2] < v[2]))
PairVals == << <<Q(5, 1, 2), Q(11, 1, 5)>>, <<Q(4, 1, 0), Q(16, 1, 0)>>, <<Q(13, 1, 3), Q(17, 1, 7)>>,
               <<Q(1, 1, 1), Q(1, 1, 3)>>, <<Q(9, 1, 0), Q(2, 1, 1)>>, <<Q(31, 1, 4), Q(7, 1, 9)>> >>
SubsetCase(nt, E, flip, gen, comb) ==
  LET pi == PairIdx(nt)
      ch == SelectSeq([x \in 1..Len(pi) |-> x], LAMBDA x : x \in E)
  IN [atypes |-> [x \in 1..nt |-> [name |-> NBNames[x], v1 |-> TypeVals[x][1], v2 |-> TypeVals[x][2]]],
      expl |-> [x \in 1..Len(ch) |-> [a |-> NBNames[pi[ch[x]][IF flip THEN 2 ELSE 1]], b |-> NBNames[pi[ch[x]][IF flip THEN 1 ELSE 2]],
                                      v1 |-> PairVals[ch[x]][1], v2 |-> PairVals[ch[x]][2]]],
      gen |-> gen, comb |-> comb]
SubsetCases == UNION { {SubsetCase(nt, E, flip, gen, comb) : E \in SUBSET (1..Len(PairIdx(nt))), flip \in BOOLEAN, gen \in BOOLEAN, comb \in 1..3} : nt \in 1..3 }
\* grid of positive C6 / C12
G6 == {Q(1, 1, 0), Q(2, 1, 0), Q(7, 1, 3), Q(27, 1, 3), Q(27, 1, 4), Q(64, 1, 2)}
G12 == {Q(1, 1, 0), Q(3, 1, 0), Q(99, 1, 6), Q(99, 1, 8), Q(4, 1, 1), Q(1, 1, 6)}
GridCase(c6, c12) == [atypes |-> << [name |-> "P", v1 |-> c6, v2 |-> c12], [name |-> "Q", v1 |-> Q(2, 1, 0), v2 |-> Q(3, 1, 0)] >>,
                      expl |-> << [a |-> "Q", b |-> "P", v1 |-> c6, v2 |-> c12] >>, gen |-> FALSE, comb |-> 1]
GridCases == {GridCase(c6, c12) : c6 \in G6, c12 \in G12}
AllNBCases == SubsetCases \cup GridCases
SmallNBCases == {c \in SubsetCases : Len(c.atypes) = 2} \cup {GridCase(Q(2, 1, 0), Q(3, 1, 0)), GridCase(Q(27, 1, 3), Q(99, 1, 6))}

NExportInv == NFinal => PrintT(<<"CASE", ToJson([nb |-> nbi,
                 exp |-> SetToSeq({[k |-> SetToSeq(p), src |-> PTable(nbi, GV)[p].src, raw |-> PTable(nbi, GV)[p].raw, fin |-> ntbl[p].fin] : p \in PKeys(nbi)})])>>)
=============================================================================
