------------------------------ MODULE Ligands ------------------------------
(* X04 - ligand annotation lifecycle of gen_coords (-lig), extension check (DESIGN 9 / 10.4).                         *)
(*                                                                                                                    *)
(* A case is one abstract input of the -lig machinery: the expanded [ molecules ] list (molecule = name of a type in   *)
(* the catalogue Types: residues [rn, id] in node order, residue-graph edges), the -lig options as pairs of residue    *)
(* specifications <mol_name>#<mol_idx>-<resname>#<resid> (records with optional fields) and the number of leading      *)
(* molecules whose coordinates were supplied with -c.                                                                  *)
(*                                                                                                                    *)
(* I-layer: named actions in the order of gen_coords / annotate_ligands.py                                            *)
(*   Parse(si)     parse_residue_spec of both sides + eligible molecule indices (IOError: contradiction, no ligand)   *)
(*   Find(si, m)   _find_nodes on one eligible host molecule, k-th host residue <-> k-th ligand molecule (IndexError)  *)
(*   InitEnd       end of AnnotateLigands.__init__ (intended design: a molecule that is host and ligand is rejected)   *)
(*   Connect(m)    run_molecule: one extra node per (definition, ligand residue), edge to the host residue             *)
(*   Build         BuildSystem: every node without position gets one (token <<m, key>>; the walk itself is C17/C05)    *)
(*   SplitMol(m)   split_ligands, one molecule: positions handed to the ligand's own molecule, extra nodes removed     *)
(*   Backmap       atoms of residues with backmap = TRUE take the node position                                       *)
(*   Write         .gro listing in topology order                                                                      *)
(* P-layer: declarative selection / pairing / hand-back laws written from the case alone (operators P...).           *)
(* Node keys are 1-based here (polyply key + 1); molecule indices in specifications are 0-based as on the command line. *)
EXTENDS Integers, Sequences, FiniteSets, TLC

CONSTANTS Types,            \* record: type name -> [res |-> Seq([rn, id]), edges |-> Seq(<<a, b>>)], a < b
          DevOn             \* deviation flags switched on for the whole run (main cfgs: {} = intended design, {"Chain"} = the tree as it is)

VARIABLES case, pl, dev, pc, si, hk, total, hm, lms, defs, g, err, mi, snap, ap, out, lab
vars == <<case, pl, dev, pc, si, hk, total, hm, lms, defs, g, err, mi, snap, ap, out, lab>>

(* deviation flags: plausible wrong implementations (sensitivity runs) and the one recorded finding.  `dev` is fixed in the initial state. *)
AllFlags == {"KeepNode", "Order", "FirstOnly", "WildMismatch", "NoCopyBack", "ZipTrunc", "PerMolCount", "Chain"}
DevKeepNode == "KeepNode" \in dev          \* split_ligands does not remove the extra nodes
DevOrder == "Order" \in dev                \* ligand molecules are written after all other molecules
DevFirstOnly == "FirstOnly" \in dev        \* only the first matching host residue of a molecule is annotated
DevWildMismatch == "WildMismatch" \in dev  \* an omitted residue field matches nothing
DevNoCopyBack == "NoCopyBack" \in dev      \* split_ligands does not hand the position over
DevZipTrunc == "ZipTrunc" \in dev          \* more host residues than ligand molecules: silently truncated instead of an error
DevPerMolCount == "PerMolCount" \in dev    \* the ligand counter restarts with every host molecule
DevChain == "Chain" \in dev                \* the tree as it is: a molecule that is host and ligand is NOT rejected (finding chained-ligand)

None == <<0, 0>>
N == Len(case.mols)
TypeOf(m) == Types[case.mols[m]]
NRes(m) == Len(TypeOf(m).res)
NSpec == Len(case.ligs)

Min(S) == CHOOSE x \in S : \A y \in S : x <= y
Max(S) == CHOOSE x \in S : \A y \in S : x >= y
RECURSIVE Asc(_)
Asc(S) == IF S = {} THEN <<>> ELSE LET x == Min(S) IN <<x>> \o Asc(S \ {x})
Range(s) == {s[i] : i \in 1..Len(s)}

(* ------------------------------------------------------------------ initial residue graphs *)
InitNodes(m) == [k \in 1..NRes(m) |-> [key |-> k, rn |-> TypeOf(m).res[k].rn, id |-> TypeOf(m).res[k].id, lm |-> 0, ln |-> 0,
                                        build |-> m > case.given, bm |-> m > case.given,
                                        pos |-> IF m <= case.given THEN <<m, k>> ELSE None]]
InitGraph(m) == [nodes |-> InitNodes(m), edges |-> Range(TypeOf(m).edges),
                 mx |-> Max({TypeOf(m).res[k].id : k \in 1..NRes(m)})]

(* ================================================================== P-layer *)
PMolMatch(m, s) == (s.hasMol => case.mols[m] = s.mol) /\ (s.hasIdx => m = s.idx + 1)
PResMatch(r, s) == (s.hasRn => r.rn = s.rn) /\ (s.hasId => r.id = s.id)
\* a written name and a written index that no molecule satisfies together
PContradict(s) == s.hasMol /\ s.hasIdx /\ ~(\E m \in 1..N : PMolMatch(m, s))
PNoLigMol(l) == ~l.hasMol /\ ~l.hasIdx
PHosts(i) == UNION {{<<m, k>> : k \in {k \in 1..NRes(m) : PResMatch(TypeOf(m).res[k], case.ligs[i].h)}} : m \in {m \in 1..N : PMolMatch(m, case.ligs[i].h)}}
PLigMols(i) == {m \in 1..N : PMolMatch(m, case.ligs[i].l)}
\* ligand slots the code has: an index alone is taken at its word, even when no such molecule exists
PLigSeq(i) == IF case.ligs[i].l.hasIdx THEN <<case.ligs[i].l.idx + 1>> ELSE Asc(PLigMols(i))
PHostSeq(i) == LET R == Asc({p[1] * 100 + p[2] : p \in PHosts(i)}) IN [j \in 1..Len(R) |-> <<R[j] \div 100, R[j] % 100>>]
PSpecErr(i) == LET h == case.ligs[i].h  l == case.ligs[i].l IN
               IF PContradict(h) \/ PContradict(l) \/ PNoLigMol(l) THEN "IOError"
               ELSE IF h.hasIdx /\ ~h.hasMol /\ h.idx + 1 > N THEN "IndexError"
               ELSE IF Len(PHostSeq(i)) > Len(PLigSeq(i)) THEN "IndexError"
               ELSE ""
PFirstBad == IF \E i \in 1..NSpec : PSpecErr(i) # "" THEN Min({i \in 1..NSpec : PSpecErr(i) # ""}) ELSE 0
POk(i) == PSpecErr(i) = ""
\* pairings: k-th selected host residue (molecule order, then residue order) <-> k-th selected ligand molecule
PPairs == UNION {LET hs == PHostSeq(i)  ls == PLigSeq(i) IN {[hm |-> hs[j][1], hn |-> hs[j][2], lm |-> ls[j], si |-> i] : j \in 1..Len(hs)}
                 : i \in {i \in 1..NSpec : POk(i)}}
\* attachments: every selected residue of the paired ligand molecule
PAttach == UNION {{[hm |-> p.hm, hn |-> p.hn, lm |-> p.lm, ln |-> k, si |-> p.si] :
                     k \in {k \in 1..NRes(p.lm) : PResMatch(TypeOf(p.lm).res[k], case.ligs[p.si].l)}} : p \in {p \in PPairs : p.lm <= N}}
PChainedOf(pairs) == \E p, q \in pairs : p.lm = q.hm
PChained == PChainedOf(PPairs)
PSelf == \E p \in PPairs : p.lm = p.hm
PLigOutOfRange == \E p \in PPairs : p.lm > N
\* expected error <<kind, phase>>
PErr == IF PFirstBad # 0 THEN <<PSpecErr(PFirstBad), "init">>
        ELSE IF PChained THEN <<"IOError", "init">>
        ELSE IF PLigOutOfRange THEN <<"IndexError", "connect">>
        ELSE <<"", "">>
\* the domain of the as-it-is model: no molecule is its own ligand (the code's behaviour then depends on the dict implementation)
InDomain == ~PSelf
\* the P-layer depends on the case only: evaluated once per behaviour and kept
PLayer == [attach |-> PAttach, err |-> PErr, chained |-> PChained, self |-> PSelf]
NodeIdx(gg) == UNION {{<<m, i>> : i \in 1..Len(gg[m].nodes)} : m \in 1..N}

(* ================================================================== I-layer *)
ByName(nm) == {m \in 1..N : case.mols[m] = nm}
Match(nd, s) == IF DevWildMismatch THEN (s.hasRn /\ nd.rn = s.rn) /\ (s.hasId /\ nd.id = s.id)
                ELSE (s.hasRn => nd.rn = s.rn) /\ (s.hasId => nd.id = s.id)
Found(gm, s) == SelectSeq(gm.nodes, LAMBDA nd : Match(nd, s))
HErr(h) == h.hasIdx /\ h.hasMol /\ (h.idx + 1) \notin ByName(h.mol)
HostMols(h) == IF h.hasIdx THEN <<h.idx + 1>> ELSE IF h.hasMol THEN Asc(ByName(h.mol)) ELSE Asc(1..N)
LErr(l) == (l.hasIdx /\ l.hasMol /\ (l.idx + 1) \notin ByName(l.mol)) \/ (~l.hasIdx /\ ~l.hasMol)
LigMols(l) == IF l.hasIdx THEN <<l.idx + 1>> ELSE Asc(ByName(l.mol))
PhaseOf(p) == IF p \in {"parse", "find", "initend"} THEN "init" ELSE p
Lb(op, a, d, e) == [op |-> op, a |-> a, d |-> d, e |-> e]
Fail(op, a, e) == /\ pc' = "error" /\ err' = <<e, PhaseOf(op)>> /\ lab' = Lb(op, a, {}, e)

Init0 == /\ pl = PLayer
         /\ pc = (IF NSpec = 0 THEN "initend" ELSE "parse") /\ si = 1 /\ hk = 1 /\ total = 0 /\ hm = <<>> /\ lms = <<>>
         /\ defs = [m \in 1..N |-> <<>>] /\ g = [m \in 1..N |-> InitGraph(m)]
         /\ err = <<"", "">> /\ mi = 1 /\ snap = <<>> /\ ap = <<>> /\ out = <<>> /\ lab = Lb("init", 0, {}, "")

NextSpecPc(i) == IF i + 1 > NSpec THEN "initend" ELSE "parse"

Parse == /\ pc = "parse"
         /\ LET h == case.ligs[si].h  l == case.ligs[si].l IN
                 IF HErr(h) \/ LErr(l)
                 THEN /\ Fail("parse", si, "IOError")
                      /\ UNCHANGED <<case, pl, dev, si, hk, total, hm, lms, defs, g, mi, snap, ap, out>>
                 ELSE /\ hm' = HostMols(h) /\ lms' = LigMols(l) /\ hk' = 1 /\ total' = 0
                      /\ lab' = Lb("parse", si, {}, "")
                      /\ IF Len(HostMols(h)) = 0 THEN /\ pc' = NextSpecPc(si) /\ si' = si + 1
                                                 ELSE /\ pc' = "find" /\ si' = si
                      /\ UNCHANGED <<case, pl, dev, defs, g, err, mi, snap, ap, out>>

Find == /\ pc = "find"
        /\ LET m == hm[hk] IN
           IF m > N
           THEN /\ Fail("find", m, "IndexError")
                /\ UNCHANGED <<case, pl, dev, si, hk, total, hm, lms, defs, g, mi, snap, ap, out>>
           ELSE LET all == Found(g[m], case.ligs[si].h)
                    f0 == IF DevFirstOnly /\ Len(all) > 1 THEN SubSeq(all, 1, 1) ELSE all
                    base == IF DevPerMolCount THEN 0 ELSE total
                    room == IF Len(lms) > base THEN Len(lms) - base ELSE 0
                    f == IF DevZipTrunc /\ Len(f0) > room THEN SubSeq(f0, 1, room) ELSE f0
                    n0 == Len(defs[m])
                IN IF base + Len(f) > Len(lms)
                   THEN /\ Fail("find", m, "IndexError")
                        /\ UNCHANGED <<case, pl, dev, si, hk, total, hm, lms, defs, g, mi, snap, ap, out>>
                   ELSE /\ defs' = [defs EXCEPT ![m] = @ \o [j \in 1..Len(f) |-> [hn |-> f[j].key, lm |-> lms[base + j], si |-> si]]]
                        /\ total' = total + Len(f)
                        /\ lab' = Lb("find", m, {<<n0 + j, f[j].key, lms[base + j]>> : j \in 1..Len(f)}, "")
                        /\ IF hk = Len(hm) THEN /\ pc' = NextSpecPc(si) /\ si' = si + 1 /\ hk' = 1
                                           ELSE /\ pc' = "find" /\ si' = si /\ hk' = hk + 1
                        /\ UNCHANGED <<case, pl, dev, hm, lms, g, err, mi, snap, ap, out>>

DefHosts == {m \in 1..N : Len(defs[m]) > 0}
DefLigs == UNION {{defs[m][j].lm : j \in 1..Len(defs[m])} : m \in 1..N}
InitEnd == /\ pc = "initend"
           /\ IF ~DevChain /\ DefHosts \cap DefLigs # {}
              THEN /\ Fail("initend", 0, "IOError")
                   /\ UNCHANGED <<case, pl, dev, si, hk, total, hm, lms, defs, g, mi, snap, ap, out>>
              ELSE /\ pc' = "connect" /\ mi' = 1 /\ lab' = Lb("initend", 0, {}, "")
                   /\ UNCHANGED <<case, pl, dev, si, hk, total, hm, lms, defs, g, err, snap, ap, out>>

\* nodes added to molecule gm for one definition d; the ligand is looked at as it is NOW (an earlier molecule may already carry extra nodes)
AddFor(gm, d) == LET f == Found(g[d.lm], case.ligs[d.si].l)
                     k0 == Max({gm.nodes[i].key : i \in 1..Len(gm.nodes)})
                 IN [nodes |-> gm.nodes \o [j \in 1..Len(f) |-> [key |-> k0 + j, rn |-> f[j].rn, id |-> gm.mx + j, lm |-> d.lm, ln |-> f[j].key,
                                                                   build |-> TRUE, bm |-> TRUE, pos |-> None]],
                     edges |-> gm.edges \cup {<<d.hn, k0 + j>> : j \in 1..Len(f)},
                     mx |-> gm.mx + Len(f)]
RECURSIVE ConnFold(_, _, _)
ConnFold(gm, ds, i) == IF i > Len(ds) THEN gm ELSE ConnFold(AddFor(gm, ds[i]), ds, i + 1)
Connect == /\ pc = "connect"
           /\ IF \E j \in 1..Len(defs[mi]) : defs[mi][j].lm > N
              THEN /\ Fail("connect", mi, "IndexError")
                   /\ UNCHANGED <<case, pl, dev, si, hk, total, hm, lms, defs, g, mi, snap, ap, out>>
              ELSE LET gm == ConnFold(g[mi], defs[mi], 1)
                       n0 == Len(g[mi].nodes)
                       anchor(key) == (CHOOSE e \in gm.edges : e[2] = key)[1]
                   IN /\ g' = [g EXCEPT ![mi] = gm]
                      /\ lab' = Lb("connect", mi, {<<gm.nodes[i].key, anchor(gm.nodes[i].key), gm.nodes[i].lm, gm.nodes[i].ln>> : i \in (n0 + 1)..Len(gm.nodes)}, "")
                      /\ mi' = mi + 1 /\ pc' = (IF mi = N THEN "build" ELSE "connect")
                      /\ UNCHANGED <<case, pl, dev, si, hk, total, hm, lms, defs, err, snap, ap, out>>

Build == /\ pc = "build"
         /\ g' = [m \in 1..N |-> [g[m] EXCEPT !.nodes = [i \in 1..Len(g[m].nodes) |->
                    IF g[m].nodes[i].pos = None THEN [g[m].nodes[i] EXCEPT !.pos = <<m, g[m].nodes[i].key>>] ELSE g[m].nodes[i]]]]
         /\ snap' = g'
         /\ lab' = Lb("build", 0, {<<p[1], g[p[1]].nodes[p[2]].key>> : p \in {p \in NodeIdx(g) : g[p[1]].nodes[p[2]].pos = None}}, "")
         /\ pc' = "split" /\ mi' = 1
         /\ UNCHANGED <<case, pl, dev, si, hk, total, hm, lms, defs, err, ap, out>>

PosOf(gg, m, k) == LET S == {i \in 1..Len(gg[m].nodes) : gg[m].nodes[i].key = k} IN IF S = {} THEN None ELSE gg[m].nodes[CHOOSE i \in S : TRUE].pos
LigIdx(gg) == {p \in NodeIdx(gg) : gg[p[1]].nodes[p[2]].lm # 0}
HasKey(gm, k) == \E i \in 1..Len(gm.nodes) : gm.nodes[i].key = k
SetPos(gg, m, k, p) == [gg EXCEPT ![m].nodes = [i \in 1..Len(gg[m].nodes) |-> IF gg[m].nodes[i].key = k THEN [gg[m].nodes[i] EXCEPT !.pos = p] ELSE gg[m].nodes[i]]]
RECURSIVE HandFold(_, _, _)
\* returns <<graphs, ok>>: positions of the ligated nodes of molecule m handed over in node order
HandFold(gg, m, i) == IF i > Len(gg[m].nodes) THEN <<gg, TRUE>>
                      ELSE LET nd == gg[m].nodes[i] IN
                           IF nd.lm = 0 THEN HandFold(gg, m, i + 1)
                           ELSE IF ~HasKey(gg[nd.lm], nd.ln) THEN <<gg, FALSE>>
                           ELSE HandFold(IF DevNoCopyBack THEN gg ELSE SetPos(gg, nd.lm, nd.ln, nd.pos), m, i + 1)
Strip(gm) == LET keep == SelectSeq(gm.nodes, LAMBDA nd : nd.lm = 0)
                 ks == {keep[i].key : i \in 1..Len(keep)}
             IN [gm EXCEPT !.nodes = keep, !.edges = {e \in gm.edges : e[1] \in ks /\ e[2] \in ks}]
PosMap(gg) == {<<p[1], gg[p[1]].nodes[p[2]].key, gg[p[1]].nodes[p[2]].pos[1], gg[p[1]].nodes[p[2]].pos[2]>> : p \in NodeIdx(gg)}
SplitMol == /\ pc = "split"
            /\ LET r == HandFold(g, mi, 1) IN
                    IF ~r[2]
                    THEN /\ Fail("split", mi, "KeyError")
                         /\ UNCHANGED <<case, pl, dev, si, hk, total, hm, lms, defs, g, mi, snap, ap, out>>
                    ELSE LET g2 == IF DevKeepNode THEN r[1] ELSE [r[1] EXCEPT ![mi] = Strip(@)]
                             gone == {<<mi, g[mi].nodes[i].key, 0, 0>> : i \in {i \in 1..Len(g[mi].nodes) : g[mi].nodes[i].lm # 0 /\ ~DevKeepNode}}
                         IN /\ g' = g2
                            /\ lab' = Lb("split", mi, (PosMap(g2) \ PosMap(g)) \cup gone, "")
                            /\ mi' = mi + 1 /\ pc' = (IF mi = N THEN "backmap" ELSE "split")
                            /\ UNCHANGED <<case, pl, dev, si, hk, total, hm, lms, defs, err, snap, ap, out>>

\* atoms of a residue: the node position when the residue is backmapped, the supplied coordinates otherwise
\* for every extra node of the build: 1 iff the ligand residue ended at this copy's position and the anchor has not moved since
NearFinal == {<<p[1], snap[p[1]].nodes[p[2]].key,
                IF /\ PosOf(g, snap[p[1]].nodes[p[2]].lm, snap[p[1]].nodes[p[2]].ln) = <<p[1], snap[p[1]].nodes[p[2]].key>>
                   /\ LET hn == (CHOOSE e \in snap[p[1]].edges : e[2] = snap[p[1]].nodes[p[2]].key)[1] IN PosOf(g, p[1], hn) = PosOf(snap, p[1], hn)
                THEN 1 ELSE 0>> : p \in LigIdx(snap)}
Backmap == /\ pc = "backmap"
           /\ ap' = [m \in 1..N |-> [i \in 1..Len(g[m].nodes) |-> IF g[m].nodes[i].bm THEN g[m].nodes[i].pos ELSE <<m, g[m].nodes[i].key>>]]
           /\ pc' = "write" /\ lab' = Lb("backmap", 0, NearFinal, "")
           /\ UNCHANGED <<case, pl, dev, si, hk, total, hm, lms, defs, g, err, mi, snap, out>>

IsLigMol(m) == \E i \in 1..Len(g[m].nodes) : g[m].nodes[i].pos[1] # m
WriteOrder == IF DevOrder THEN Asc({m \in 1..N : ~IsLigMol(m)}) \o Asc({m \in 1..N : IsLigMol(m)}) ELSE Asc(1..N)
RECURSIVE Listing(_, _)
Listing(ord, j) == IF j > Len(ord) THEN <<>>
                   ELSE [i \in 1..Len(g[ord[j]].nodes) |-> <<ord[j], g[ord[j]].nodes[i].key, ap[ord[j]][i][1], ap[ord[j]][i][2]>>] \o Listing(ord, j + 1)
Write == /\ pc = "write"
         /\ out' = Listing(WriteOrder, 1)
         /\ lab' = Lb("write", 0, {<<j>> \o Listing(WriteOrder, 1)[j] : j \in 1..Len(Listing(WriteOrder, 1))}, "")
         /\ pc' = "done"
         /\ UNCHANGED <<case, pl, dev, si, hk, total, hm, lms, defs, g, err, mi, snap, ap>>

Next == Parse \/ Find \/ InitEnd \/ Connect \/ Build \/ SplitMol \/ Backmap \/ Write

(* ================================================================== laws: I-layer |= P-layer *)
AtEnd == pc \in {"done", "error"}
AfterSplit == pc \in {"backmap", "write", "done"}
Struct(gm) == [nodes |-> [i \in 1..Len(gm.nodes) |-> <<gm.nodes[i].key, gm.nodes[i].rn, gm.nodes[i].id, gm.nodes[i].lm>>], edges |-> gm.edges]
Ligated(gg) == {<<p[1], (CHOOSE e \in gg[p[1]].edges : e[2] = gg[p[1]].nodes[p[2]].key)[1], gg[p[1]].nodes[p[2]].lm, gg[p[1]].nodes[p[2]].ln>> : p \in LigIdx(gg)}
NLigated(gg) == Cardinality(LigIdx(gg))

\* L1 errors: rejected exactly when the declarative rule says so, in the phase it says
ErrLaw == AtEnd => err = pl.err
\* the same for the tree as it is, where chained ligation is not rejected (finding chained-ligand)
ErrLawAsIs == (AtEnd /\ ~pl.chained) => err = pl.err
\* L2 a ligand is attached to exactly the residues the specification selects, once per (definition, ligand residue)
AttachLaw == (pc = "build" /\ ~pl.chained) => /\ Ligated(g) = {<<a.hm, a.hn, a.lm, a.ln>> : a \in pl.attach}
                             /\ NLigated(g) = Cardinality(pl.attach)
\* L3 annotation only adds: original nodes, attributes and edges stay, every new node hangs on exactly one original residue
AnnotateOnlyAdds == pc \in {"connect", "build", "split"} =>
                    \A m \in 1..N : /\ Len(g[m].nodes) >= NRes(m)
                                    /\ \A k \in 1..NRes(m) : Struct(g[m]).nodes[k] = Struct(InitGraph(m)).nodes[k]
                                    /\ InitGraph(m).edges \subseteq g[m].edges
                                    /\ \A i \in (NRes(m) + 1)..Len(g[m].nodes) :
                                         /\ g[m].nodes[i].key > NRes(m) /\ g[m].nodes[i].lm # 0
                                         /\ Cardinality({e \in g[m].edges : e[2] = g[m].nodes[i].key \/ e[1] = g[m].nodes[i].key}) = 1
\* L4 after the split every molecule has exactly its original residue graph again (keys, names, ids, edges, no marks)
Restored == AfterSplit => \A m \in 1..N : Struct(g[m]) = Struct(InitGraph(m))
\* L5 every attached ligand residue holds the position that was built for one of its copies, next to the anchor the specification names
HandBack == (AfterSplit /\ ~pl.chained) =>
            \A a \in pl.attach : LET p == PosOf(g, a.lm, a.ln) IN
               \E b \in pl.attach : /\ b.lm = a.lm /\ b.ln = a.ln /\ p[1] = b.hm /\ p[2] > NRes(b.hm)
                                  /\ \E i \in 1..Len(snap[b.hm].nodes) : /\ snap[b.hm].nodes[i].key = p[2]
                                                                          /\ snap[b.hm].nodes[i].lm = b.lm /\ snap[b.hm].nodes[i].ln = b.ln
                                                                          /\ <<b.hn, p[2]>> \in snap[b.hm].edges
\* L6 residues that are no selected ligand residue keep the position built (or supplied) for themselves
Untouched == AfterSplit => \A m \in 1..N : \A i \in 1..Len(g[m].nodes) :
               (~\E a \in pl.attach : a.lm = m /\ a.ln = g[m].nodes[i].key) => g[m].nodes[i].pos = <<m, g[m].nodes[i].key>>
\* L7 the anchor of the effective copy has not moved since the copy was placed next to it (the ligand IS next to its anchor)
NearFinalAnchor == AfterSplit =>
            \A m \in 1..N : \A i \in 1..Len(snap[m].nodes) : LET c == snap[m].nodes[i] IN
               (c.lm # 0 /\ PosOf(g, c.lm, c.ln) = <<m, c.key>>) =>
                  LET hn == (CHOOSE e \in snap[m].edges : e[2] = c.key)[1] IN PosOf(g, m, hn) = PosOf(snap, m, hn)
\* L8 output: topology order, one line per original residue, backmapped residues at their node position, supplied ones untouched
OutputLaw == pc = "done" =>
             LET exp == [m \in 1..N |-> [k \in 1..NRes(m) |-> <<m, k, (IF m <= case.given THEN <<m, k>> ELSE PosOf(g, m, k))[1],
                                                                   (IF m <= case.given THEN <<m, k>> ELSE PosOf(g, m, k))[2]>>]]
                 RECURSIVE Cat(_)
                 Cat(m) == IF m > N THEN <<>> ELSE exp[m] \o Cat(m + 1)
             IN out = Cat(1)
NoCrash == err[1] \notin {"KeyError"}
TypeOK == /\ pc \in {"parse", "find", "initend", "connect", "build", "split", "backmap", "write", "done", "error"}
          /\ (pc = "error") <=> (err[1] # "")

(* the three laws the tree as it is does not meet (finding chained-ligand), stated for runs that explore the intended design and the tree side by side *)
I_ErrLaw == DevChain \/ ErrLaw
I_NearFinalAnchor == DevChain \/ NearFinalAnchor
I_NoCrash == DevChain \/ NoCrash

(* sensitivity: with exactly one flag on, the named law must be refuted (one TLC run with -continue) *)
Refute_KeepNode == DevKeepNode => Restored
Refute_Order == DevOrder => OutputLaw
Refute_FirstOnly == DevFirstOnly => AttachLaw
Refute_WildMismatch == DevWildMismatch => AttachLaw
Refute_NoCopyBack == DevNoCopyBack => HandBack
Refute_ZipTrunc == DevZipTrunc => ErrLaw
Refute_PerMolCount == DevPerMolCount => AttachLaw
Refute_Chain_Err == DevChain => ErrLaw
Refute_Chain_Near == DevChain => NearFinalAnchor
Refute_Chain_Crash == DevChain => NoCrash

(* expectations that the code as it is does NOT meet (refuted by TLC; reported as notes) *)
ExpLigandWhole == pc = "build" => \A a \in pl.attach : \A k \in 1..NRes(a.lm) : \E b \in pl.attach : b.lm = a.lm /\ b.ln = k
ExpNoGhost == pc = "split" => \A a \in pl.attach : a.lm > case.given => PosOf(snap, a.lm, a.ln) = None
ExpSelectsSomething == (AtEnd /\ err[1] = "") => \A i \in 1..NSpec : \E a \in pl.attach : a.si = i
ExpOncePerLigand == pc = "build" => \A a, b \in pl.attach : (a.lm = b.lm /\ a.ln = b.ln) => a = b
ExpMismatchIsIOError == AtEnd => err[1] # "IndexError"

=============================================================================
