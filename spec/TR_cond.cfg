SPECIFICATION Spec
CONSTANTS
 Cases <- CondQuick
 TISet <- TI_quick
 DefSet <- Def_both
 MissSet <- Miss_both
 Stratified = TRUE
 DevOneDirection = FALSE
 DevNoReverse = FALSE
 DevFirstInstOnly = FALSE
 DevSpecOrder = FALSE
 DevDefineFirstOnly = FALSE
 DevPairsUntyped = FALSE
 DevTableMacrosKept = FALSE
 DevDefineLazyCond = FALSE
 DevDefineBlockDropped = FALSE
 DevDefineInactiveKept = FALSE
INVARIANT DomainWideOnce
INVARIANT LookupAgrees
INVARIANT Conforms
INVARIANT ExportDomInv
CHECK_DEADLOCK FALSE
