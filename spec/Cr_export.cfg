SPECIFICATION Spec
CONSTANTS
 Grid <- MCGridSmall
 DevMap = TRUE
 DevArgs = FALSE
 DevHarm = FALSE
INVARIANT ExportInv
CHECK_DEADLOCK FALSE
