SPECIFICATION DevSpec
CONSTANTS
 DevChoices <- SingleDevs
INVARIANT Refute_closedRes
INVARIANT Refute_closedMol
INVARIANT Refute_resnameIgnored
INVARIANT Refute_molNameIgnored
INVARIANT Refute_splitDrop
INVARIANT Refute_rwLastWins
INVARIANT Refute_molRawRange
INVARIANT Refute_startIdxIgnoresName
INVARIANT Refute_startNoMolKeyError
INVARIANT Refute_startNameIgnored
INVARIANT Refute_ligIdxIgnoresName
INVARIANT Refute_ligNoTemplate
INVARIANT Refute_splitLosesBuild
INVARIANT Refute_breakAtFirstBeyond
CHECK_DEADLOCK FALSE
