INIT MCInitTiny
NEXT Next
CONSTANTS
 Inputs = {}
 LibOf <- MCLibOf
 Dev <- DevEdgeFirstChar
 FreeOrder = TRUE
INVARIANT Conform
CHECK_DEADLOCK FALSE
