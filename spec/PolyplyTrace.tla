---------------------------- MODULE PolyplyTrace ----------------------------
(* I->S for X01: event traces recorded from real gen_seq | gen_params | gen_coords chains (harness/x01_util.py) are          *)
(* validated against Polyply.  One trace = one chain in one scratch directory.  Every event (begin / stage completed /       *)
(* stage failed / end of a program) must be explained by the Polyply action with the same label, and the projection of the   *)
(* real objects in memory and of the real files after the event must be exactly the state after the action.  The case of a   *)
(* trace (sequence input, abstract force field, block library, count) is its header; everything else is computed here.      *)
(* All P-layer laws of Polyply are invariants of this specification, so they are evaluated on every state a real chain went  *)
(* through.                                                                                                                  *)
EXTENDS PolyplyJson, Json, IOUtils
VARIABLES tid, l
Traces == JsonDeserialize(IOEnv.TRACE_FILE)
ASSUME TLCSet(1, {}) /\ TLCSet(2, [t \in 1..Len(Traces) |-> 0])
CaseOf(h) == [mode |-> h.mode, macros |-> h.macros, connects |-> h.connects, tag |-> h.tag,
              ff |-> [blocks |-> ToSet(h.ff.blocks), links |-> ToSet(h.ff.links)], count |-> h.count, lib |-> h.lib,
              on |-> ToSet(h.on), probe |-> TRUE]
TraceCases == {CaseOf(Traces[t].case) : t \in 1..Len(Traces)}
Evs == Traces[tid].evs
Ev == Evs[l]

\* the label of the event is the label of the action
LabelOK == /\ Ev.ev.kind = last'.kind /\ Ev.ev.p = last'.p /\ Ev.ev.stage = last'.stage
           /\ Ev.ev.ok = last'.ok /\ Ev.ev.inj = last'.inj
           /\ Ev.prog = Chain(case)[last'.p].prog
\* the projected real objects are the objects of the state after the action (ladder of named conjuncts)
GraphOK == Ev.mem.g = GJ(mem'.g)
FFOK == ToSet(Ev.mem.ffv.blocks) = mem'.ffv.blocks /\ ToSet(Ev.mem.ffv.links) = mem'.ffv.links
MolOK == Ev.mem.mol = MolJ(mem'.mol)
MissOK == Ev.mem.miss = EdgeSeq(mem'.miss)
CountsOK == /\ ToSet(Ev.mem.tmpl) = mem'.tmpl /\ Ev.mem.ntop = mem'.ntop
            /\ Ev.mem.placed = mem'.placed /\ Ev.mem.coords = mem'.coords /\ Ev.mem.uniform
FilesOK == Ev.files = FilesJ(files')
SnapOK == GraphOK /\ FFOK /\ MolOK /\ MissOK /\ CountsOK /\ FilesOK

TInit == /\ tid \in 1..Len(Traces) /\ l = 1
         /\ Init /\ case = CaseOf(Traces[tid].case)
TNext == /\ l <= Len(Evs)
         /\ Next
         /\ LabelOK /\ SnapOK
         /\ l' = l + 1 /\ tid' = tid
TSpec == TInit /\ [][TNext]_<<vars, tid, l>>
Mark == (l = Len(Evs) + 1 /\ status = "done") => TLCSet(1, TLCGet(1) \cup {tid})
Prog == TLCSet(2, [TLCGet(2) EXCEPT ![tid] = IF @ < l - 1 THEN l - 1 ELSE @])
Accepted == IF TLCGet(1) = 1..Len(Traces) THEN TRUE
            ELSE (PrintT(<<"REJECTED", ToJson(SetToSeq({<<t, TLCGet(2)[t]>> : t \in (1..Len(Traces)) \ TLCGet(1)}))>>) /\ FALSE)
=============================================================================
