SPECIFICATION MCSpec
CONSTANTS
 FsOf <- MCFs
 MainOf <- MCMainOf
 Fuel = 4
 Which = "cond"
 MaxChunks = 2
 First = {}
 DevF3 = TRUE
 DevMolsPerFile = FALSE
 DevDirKeep = FALSE
 DevElseKeep = FALSE
 DevRootFirst = FALSE
 DevEdgesNewOnly = FALSE
CHECK_DEADLOCK FALSE
INVARIANT Same
