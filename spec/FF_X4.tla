----------------------------- MODULE FF_X4 -----------------------------
(* two consecutive copies of the two-residue block (for the F15 deviation) *)
EXTENDS FFExport
MCFFs == FFsG
MCInputs == GraphInputs(FFsG, {2}, {4}, {1}, {"X"})
=============================================================================
