SPECIFICATION TSpec
CONSTANTS
 TraceDoc <- LoadedDoc
 Variants <- TVariants
 NBk <- TNBk
 Inits <- TInits
 InoutInits <- TInits
 DevInits <- TInits
 RouteInits <- TInits
 Runs <- TRuns
 QueuePersists = TRUE
 Crash1 <- TAllPts
 Crash2 <- TAllPts
 Targets2 <- TTargets
 DevPlainOpen = FALSE
 DevFlushEarly = FALSE
 DevBackupOverwrite = FALSE
 DevNoBackup = FALSE
 DevSeqOpenEarly = FALSE
 DevLinkDirect = FALSE
 DevBackupCount = FALSE
 DevInplaceInput = FALSE
 DevMoveBeforeClose = FALSE
 DevRouteDiscard = FALSE
 DevStageFallback = FALSE
 DevBackupSkip = FALSE
 EnvInits <- TInits
INVARIANT NoEarlyEffect
INVARIANT SuccessState
INVARIANT OthersKept
INVARIANT OnlyBackupCreated
INVARIANT NoLoss
INVARIANT BackupResolves
INVARIANT TargetWhole
INVARIANT TmpClean
INVARIANT EnvFailClean
INVARIANT SuccessHasBackup
INVARIANT BoundOK
INVARIANT Mark
INVARIANT Prog
POSTCONDITION Accepted
CHECK_DEADLOCK FALSE
