INIT HInit
NEXT HNext
CONSTANTS
 Mols = {}
 Dev = "none"
 FixedOrder = TRUE
 Paths <- MCPaths
 MaxOps = 4
 WithFF = TRUE
 MolIdx <- MCMolAll
 MsgKinds <- MCMsgNone
 MaxMsgs = 0
 WithEnv = FALSE
 HDev = "readerReusesBlock"
INVARIANT ReadIsCurrent
CHECK_DEADLOCK FALSE
