INIT HInit
NEXT HNext
CONSTANTS
 Mols = {}
 Dev = "none"
 FixedOrder = TRUE
 Paths <- MCPaths
 MaxOps = 4
 WithFF = TRUE
 HDev = "readerReusesBlock"
INVARIANT ReadIsCurrent
CHECK_DEADLOCK FALSE
