--------------------------- MODULE CombRuleTrace ---------------------------
(* I->S for X03(b): records observed on the real Topology.gen_pairs with random real-valued type parameters.  A record  *)
(* carries the rule number and, per column, the monitor's verdicts "observed value is the arithmetic / geometric mean   *)
(* of the two type values" (floats, rel. 1e-12) plus the order of the two inputs; the trace specification requires      *)
(* the verdict of the function the I-layer selects.  Doc.devmap says which table the tree is expected to use.          *)
EXTENDS CombRule, Json, IOUtils, SequencesExt
VARIABLES tid, l
Doc == JsonDeserialize(IOEnv.TRACE_FILE)
Recs == Doc.recs
TDevMap == Doc.devmap
TGrid == {1, 2}
ASSUME TLCSet(1, {})
Ev == Recs[tid]
\* abstract types standing for the observed ones: only the order relation of each column matters (equal / different)
AbsA == [v |-> 1, w |-> 1]
AbsB == [v |-> IF Ev.v_equal THEN 1 ELSE 2, w |-> IF Ev.w_equal THEN 1 ELSE 2]
TInit == /\ tid \in 1..Len(Recs) /\ l = 1
         /\ rule = Recs[tid].rule /\ a = AbsA /\ b = [v |-> IF Recs[tid].v_equal THEN 1 ELSE 2, w |-> IF Recs[tid].w_equal THEN 1 ELSE 2]
         /\ pc = "lookup" /\ func = "none" /\ out = Zero
\* the observed first column must be the mean the selected function computes; the second column is always geometric
ObsMatches == /\ (func' = "lorentz_berthelot" => Ev.nb1_is_arith)
              /\ (func' = "geometric" => Ev.nb1_is_geo)
              /\ Ev.nb2_is_geo
              /\ Ev.symmetric
TNext == \/ (l = 1 /\ Lookup /\ ObsMatches /\ l' = 2 /\ tid' = tid)
         \/ (l = 2 /\ Combine /\ l' = 3 /\ tid' = tid)
TSpec == TInit /\ [][TNext]_<<vars, tid, l>>
Mark == (l = 3) => TLCSet(1, TLCGet(1) \cup {tid})
Accepted == IF TLCGet(1) = 1..Len(Recs) THEN TRUE
            ELSE (PrintT(<<"REJECTED", ToJson(SetToSeq((1..Len(Recs)) \ TLCGet(1)))>>) /\ FALSE)
=============================================================================
