----------------------------- MODULE FF_Gsmall -----------------------------
EXTENDS FFExport
MCFFs == FFsG
MCInputs == InputsG({2, 3}, 1..3)
ASSUME PrintT(<<"FFS", ToJson(MCFFs)>>)
=============================================================================
