----------------------------- MODULE FF_X5 -----------------------------
(* two separate copies of the two-residue block around a regular residue (for the F32 deviation: needs 5 residues) *)
EXTENDS FFExport
MCFFs == FFsG
MCInputs == {MkInpF(FFsG, 2, 5, 1, <<"X", "X", "A", "X", "X">>, Chain(5), <<>>)}
=============================================================================
