SPECIFICATION Spec
CONSTANTS
 Grid <- MCGrid
 DevMap = FALSE
 DevArgs = TRUE
 DevHarm = FALSE
INVARIANT Symmetric
CHECK_DEADLOCK FALSE
