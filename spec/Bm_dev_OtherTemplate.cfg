SPECIFICATION Spec
CONSTANTS
 TypeDefs <- MCTypeDefs
 Mols <- MCMolsSmall
 Fudges <- MCFudgesSmall
 Angles <- MCAngles
 DevImproper = FALSE
 DevPerAtom = FALSE
 DevNoFudge = FALSE
 DevOtherTemplate = TRUE
 DevCentreOther = FALSE
INVARIANT TurnedScaled
CHECK_DEADLOCK FALSE
