SPECIFICATION Spec
CONSTANTS
 Cases <- CasesOrient
 FFs <- FFcat
 Dev <- DevOrientLink
INVARIANT Confluent
CHECK_DEADLOCK FALSE
