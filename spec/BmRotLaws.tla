---------------------------- MODULE BmRotLaws ----------------------------
(* the small model of C06 plus the brute-force characterisation of the lattice rotations (kept in its own       *)
(* module because TLC evaluates the 3^9-matrix constant at start-up of every run that sees it)                  *)
EXTENDS MC_Backmap
\* orthogonal integer matrices, by brute force over all 3^9 matrices with entries -1, 0, 1 (TLC evaluates this constant once at start-up, about 6 s)
OrthoBrute == { M \in { << <<a, b, c>>, <<d, e, f>>, <<g, h, i>> >> :
                        a \in Trits, b \in Trits, c \in Trits, d \in Trits, e \in Trits, f \in Trits,
                        g \in Trits, h \in Trits, i \in Trits } : AsTuple(MatMul(M, Transp(M))) = Id3 }
BruteOnce == (placed = 0 /\ done = {}) => (OrthoBrute = OrthoLattice)
=============================================================================
