SPECIFICATION HSpec
CONSTANTS
 FFs <- FFcat
 Dev <- DevReaderCache
 HInputs <- HInP
 HLib <- HLibP
 NInputs <- NIn
 MaxLen = 3
 Fresh <- FreshOf
 RunIn <- RunInMC
 Proc0 <- P0
INVARIANT HistoryIndependent
INVARIANT RepeatStable

CHECK_DEADLOCK FALSE
