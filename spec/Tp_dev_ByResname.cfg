SPECIFICATION Spec
CONSTANTS
 NamePool <- MCNamePool
 MaxAtoms = 2
 DevByResname = TRUE
INVARIANT GroupingLaw
CHECK_DEADLOCK FALSE
