SPECIFICATION Spec
CONSTANTS
 Inputs <- MCInputs
 Dev <- DevExCutoff
INVARIANT C14_Inv
CHECK_DEADLOCK FALSE
