INIT MCInitTiny
NEXT Next
CONSTANTS
 Inputs = {}
 LibOf <- MCLibOf
 Dev <- NoDev
 FreeOrder = TRUE
INVARIANT Reach_SilentAnchor
CHECK_DEADLOCK FALSE
