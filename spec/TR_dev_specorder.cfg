SPECIFICATION Spec
CONSTANTS
 Cases <- DihSmall
 TISet <- TI_quick
 DefSet <- Def_both
 MissSet <- Miss_both
 Stratified = TRUE
 DevOneDirection = FALSE
 DevNoReverse = FALSE
 DevFirstInstOnly = FALSE
 DevSpecOrder = TRUE
 DevDefineFirstOnly = FALSE
 DevPairsUntyped = FALSE
 DevTableMacrosKept = FALSE
 DevDefineLazyCond = FALSE
 DevDefineBlockDropped = FALSE
 DevDefineInactiveKept = FALSE
INVARIANT LookupAgrees
CHECK_DEADLOCK FALSE
