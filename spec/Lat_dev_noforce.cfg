SPECIFICATION Spec
CONSTANTS
 L = 3
 History <- HRingChain1
 Grid <- Grid3
 Bundle <- Bundle6
 MaxIter = 5
 MaxReject = 2
 Force = TRUE
 Dev <- DevNoForce
INVARIANT StepOne
INVARIANT InBox
INVARIANT NoOverlap
INVARIANT RootOnGrid
INVARIANT Contiguous
INVARIANT Final
INVARIANT ForceWithinLimit
CHECK_DEADLOCK FALSE
