INIT HInit
NEXT HNext
CONSTANTS
 Mols = {}
 Dev = "none"
 FixedOrder = TRUE
 Paths <- MCPaths
 MaxOps = 5
 HDev = "none"
INVARIANT ReadIsCurrent
INVARIANT FsHoldsWrite
INVARIANT HistExport
PROPERTY OnlyWritesChangeFiles
CHECK_DEADLOCK FALSE
