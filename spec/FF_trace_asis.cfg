SPECIFICATION Spec
CONSTANTS
 Inputs <- TInputs
 Dev <- TDevAsIs
 Prop = "C01"
INVARIANT MarkBase
INVARIANT MarkFinal
POSTCONDITION Accepted
CHECK_DEADLOCK FALSE
