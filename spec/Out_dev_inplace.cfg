SPECIFICATION Spec
CONSTANTS
 Variants <- MCVariants
 NBk = 4
 Inits <- MCInits
 InoutInits <- MCInoutInits
 RouteInits <- MCRouteInits
 Runs = 1
 QueuePersists = FALSE
 Crash1 <- MCNone
 Crash2 <- MCNone
 Targets2 <- MCTargets1
 DevPlainOpen = FALSE
 DevFlushEarly = FALSE
 DevBackupOverwrite = FALSE
 DevNoBackup = FALSE
 DevSeqOpenEarly = FALSE
 DevLinkDirect = FALSE
 DevBackupCount = FALSE
 DevInplaceInput = TRUE
 DevRouteDiscard = FALSE
INVARIANT NoEarlyEffect
CHECK_DEADLOCK FALSE
