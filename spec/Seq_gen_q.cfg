SPECIFICATION XSpec
CONSTANTS
 Fam = "gen"
 P1 = 1
 P2 = 0
 Dev = {}
INVARIANT Shape
INVARIANT Final
INVARIANT RoundTrip
INVARIANT OrigKept
INVARIANT Laws
INVARIANT ExportInv
PROPERTY Grows
CHECK_DEADLOCK FALSE
