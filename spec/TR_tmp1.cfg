SPECIFICATION Spec
CONSTANTS
 Cases <- DihCases
 TISet <- TI_one
 DefSet <- Def_none
 MissSet <- Miss_no
 Stratified = TRUE
 DevOneDirection = FALSE
 DevNoReverse = FALSE
 DevFirstInstOnly = FALSE
 DevSpecOrder = FALSE
 DevDefineFirstOnly = FALSE
 DevPairsUntyped = FALSE
 DevTableMacrosKept = FALSE
INVARIANT DomainOnce
INVARIANT LookupAgrees
INVARIANT Conforms
INVARIANT ExportInv
CHECK_DEADLOCK FALSE
