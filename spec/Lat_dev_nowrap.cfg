SPECIFICATION Spec
CONSTANTS
 L = 2
 History <- H2x3
 Grid <- Grid2
 Bundle <- Bundle6
 MaxIter = 5
 MaxReject = 2
 Force = FALSE
 Dev <- DevNoWrap
INVARIANT StepOne
INVARIANT InBox
INVARIANT NoOverlap
INVARIANT RootOnGrid
INVARIANT Contiguous
INVARIANT Final
INVARIANT ForceWithinLimit
CHECK_DEADLOCK FALSE
