SPECIFICATION Spec
CONSTANTS
 Inputs <- MCInputs
 Dev <- NoDev
INVARIANT Dom_Inv
INVARIANT C01_Inv
INVARIANT Base_Inv
INVARIANT Layout_Inv
CHECK_DEADLOCK FALSE
