SPECIFICATION Spec
CONSTANTS
 Inputs <- MCInputs
 Dev <- DevF17
INVARIANT C01_Inv
CHECK_DEADLOCK FALSE
