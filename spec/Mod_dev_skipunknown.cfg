INIT MCInitTiny
NEXT Next
CONSTANTS
 Inputs = {}
 LibOf <- MCLibOf
 Dev <- DevSkipUnknownMod
 FreeOrder = TRUE
INVARIANT Conform
CHECK_DEADLOCK FALSE
