SPECIFICATION Spec
CONSTANTS
 Nodes <- MCNodes
 MolOf <- MCMolOf
 Pts <- MCPts
 LX = 3
 LY = 3
 LZ = 3
 Cut2 = 1
 Thr = 1
 Filler = 0
 DevReadd = FALSE
 MaxOps = 1000000
INVARIANT Views
INVARIANT QueriesAgree
INVARIANT MetricLawsOnce
PROPERTY LastGiven
CHECK_DEADLOCK FALSE
VIEW FixView
