---------------------------- MODULE LoadLibTrace ----------------------------
(* I->S for X02: loads recorded on the real loaders (random file sets; the shipped libraries) are validated against the   *)
(* I-layer of LoadLib step by step.  A trace carries its configuration (abstract files in the order they were listed)   *)
(* and one event per observable step: open / skip / error (get_parser), new (context created), fin (finalize_section),   *)
(* end (parser returned), each with the projected store (full) or its sizes.  Steps of the model that the recorder       *)
(* cannot see (headers of sections without context, sections of a build file) are silent.                               *)
EXTENDS LoadLib, Json, IOUtils
VARIABLES tid, l
Doc == JsonDeserialize(IOEnv.TRACE_FILE)
Traces == Doc.traces
TDevIdReuse == Doc.idreuse
ASSUME TLCSet(1, {}) /\ TLCSet(2, [t \in 1..Len(Traces) |-> 0])
Tr == Traces[tid]
Ev == Tr.events[l]
TInit == /\ tid \in 1..Len(Traces) /\ l = 1
         /\ cfg = Traces[tid].cfg /\ queue = LoadOrder(Traces[tid].cfg)
         /\ pc = "idle" /\ cur = NullFile /\ si = 0 /\ ph = "new"
         /\ curB = Null /\ curL = Null /\ curM = Null /\ ltmpl = <<>> /\ r2h = <<>>
         /\ st = EmptyStore /\ nfiles = 0 /\ freed = FALSE /\ risk = FALSE
SilentLabels == {"new_other", "bldsec"}
OpOf(lab) == IF lab = "finempty" THEN "fin" ELSE lab
StoreMatches == IF Ev.full THEN Proj(st)' = Ev.st
                ELSE Len(st'.blocks) = Ev.sum.nb /\ Len(st'.mods) = Ev.sum.nm
TNext == /\ Next
         /\ IF Label \in SilentLabels THEN l' = l
            ELSE /\ l <= Len(Tr.events)
                 /\ OpOf(Label) = Ev.op /\ FileName = Ev.file
                 /\ (Ev.op = "error" \/ StoreMatches)
                 /\ l' = l + 1
         /\ tid' = tid
TSpec == TInit /\ [][TNext]_<<vars, tid, l>>
Finished == l = Len(Tr.events) + 1 /\ Done /\ ((pc = "error") <=> Tr.raised)
Mark == Finished => TLCSet(1, TLCGet(1) \cup {tid})
Prog == TLCSet(2, [TLCGet(2) EXCEPT ![tid] = IF @ < l - 1 THEN l - 1 ELSE @])
Accepted == IF TLCGet(1) = 1..Len(Traces) THEN TRUE
            ELSE (PrintT(<<"REJECTED", ToJson(SetToSeq({<<t, TLCGet(2)[t]>> : t \in (1..Len(Traces)) \ TLCGet(1)}))>>) /\ FALSE)
=============================================================================
