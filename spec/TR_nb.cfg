SPECIFICATION NSpec
CONSTANTS
 NBCases <- AllNBCases
 DevOverrideExplicit = FALSE
 DevEpsHalf = FALSE
 DevSigmaInverted = FALSE
 DevSelfFromFirst = FALSE
INVARIANT NDomainOnce
INVARIANT NKeysOnce
INVARIANT NConforms
INVARIANT NExportInv
CHECK_DEADLOCK FALSE
