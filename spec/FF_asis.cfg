SPECIFICATION Spec
CONSTANTS
 Inputs <- MCInputs
 Dev <- DevAsIs
INVARIANT ExportAsIs
CHECK_DEADLOCK FALSE
