---------------------------- MODULE SeqCallsTrace ----------------------------
(* I->S for the call histories of C19: one trace = what ONE Python process did - sequence files written and rewritten, the real     *)
(* gen_params called on them again and again (with and without -dsdna, the same unchanged file several times, other files in      *)
(* between, the inline -seq list).                                                                                               *)
(*   write event: src, inp (the abstract sequence input now at that source; keptstat: size and time stamps of the file are as      *)
(*                before the rewrite - irrelevant to the law)                                                                    *)
(*   call event:  src, ds, rej, g (the residue graph handed to the mapping stage), itp (residue id, name of every bead of the     *)
(*                .itp written), unchanged (the text of the source after the call is the text written there)                      *)
(* The trace specification keeps the content of every source as state (tfs) and nothing else: a call returns                      *)
(* ExpCall(current content, ds) - SeqCallsP - whatever the process has done before.                                               *)
EXTENDS SeqCallsP, SequencesExt, Json, IOUtils
VARIABLES tid, l, tfs
Doc == JsonDeserialize(IOEnv.TRACE_FILE)
Traces == Doc.traces
TSrcs == {"P1", "P2", "P3", "S"}
ASSUME TLCSet(1, {}) /\ TLCSet(2, [t \in 1..Len(Traces) |-> 0])
Ev == Traces[tid][l]
ObsG(o) == [n |-> o.n, name |-> o.name, inst |-> o.inst, lab |-> [r \in 1..o.n |-> ToSet(o.lab[r])], edges |-> ToSet(o.edges)]
ObsOK(o) == /\ o.numok
            /\ Len(o.name) = o.n /\ Len(o.inst) = o.n /\ Len(o.lab) = o.n
            /\ Cardinality(ToSet(o.edges)) = Len(o.edges)
            /\ \A r \in 1..o.n : Cardinality(ToSet(o.lab[r])) = Len(o.lab[r])
            /\ WellFormed(ObsG(o))
Nothing == [fam |-> "none"]
TWrite == /\ Ev.op = "write" /\ Ev.src \in TSrcs
          /\ tfs' = [tfs EXCEPT ![Ev.src] = Ev.inp]
\* no guard on anything but the current content of the source
TCall == /\ Ev.op = "call" /\ Ev.src \in TSrcs /\ tfs[Ev.src].fam # "none"
         /\ Ev.unchanged
         /\ LET e == ExpCall(tfs[Ev.src], Ev.ds) IN
            /\ Ev.rej = e.rej
            /\ Ev.rej \/ /\ ObsOK(Ev.g) /\ ObsG(Ev.g) = e.g
                         \* the .itp lists the residues of that graph (stated on the observed graph, which equals the expected one)
                         /\ Len(Ev.itp) = Ev.g.n /\ \A r \in 1..Ev.g.n : Ev.itp[r] = <<r, Ev.g.name[r]>>
         /\ tfs' = tfs
Frozen == /\ inp = Nothing /\ pc = "trace" /\ k = 1 /\ c = 0 /\ mons = <<>> /\ g = EmptyG /\ aux = <<>> /\ last = "Init"
TInit == Frozen /\ tid \in 1..Len(Traces) /\ l = 1 /\ tfs = [s \in TSrcs |-> Nothing]
TNext == /\ l <= Len(Traces[tid]) /\ (TWrite \/ TCall) /\ l' = l + 1 /\ tid' = tid /\ UNCHANGED vars
TSpec == TInit /\ [][TNext]_<<vars, tid, l, tfs>>
Mark == (l = Len(Traces[tid]) + 1) => TLCSet(1, TLCGet(1) \cup {tid})
Prog == TLCSet(2, [TLCGet(2) EXCEPT ![tid] = IF @ < l - 1 THEN l - 1 ELSE @])
Accepted == IF TLCGet(1) = 1..Len(Traces) THEN TRUE
            ELSE (PrintT(<<"REJECTED", ToJson(SetToSeq({<<t, TLCGet(2)[t]>> : t \in (1..Len(Traces)) \ TLCGet(1)}))>>) /\ FALSE)
=============================================================================
