SPECIFICATION HSpec
CONSTANTS
 Systems <- NoSystems
 DevSkipConsumes = FALSE
 Paths <- MCPaths
 Ks <- MCKs
 OptSeq <- MCOptSeq
 Frames <- MCFrames2
 Stamps <- MCStamps2
 MaxOps = 4
 KeepHist = TRUE
 HDevs <- MCAll
CONSTRAINT FirstPutCanonical
CONSTRAINT DevSmall
INVARIANT I_CallIsCurrent
INVARIANT I_SuppliedAreCurrent
INVARIANT I_HistoryLaw
INVARIANT I_FsIsLastPut
INVARIANT HistExport
INVARIANT DevWitness
POSTCONDITION AllDevsRefuted
CHECK_DEADLOCK FALSE
