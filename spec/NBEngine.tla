---------------------------- MODULE NBEngine ----------------------------
(***************************************************************************)
(* C16 - the neighbour engine of polyply (polyply/src/nonbond_engine.py).  *)
(*                                                                         *)
(* I-layer: the four views the code keeps of "which residues are           *)
(* positioned" - the position table, one index list per KD-tree, the       *)
(* node->tree map and the point set each KD-tree was built from - and the  *)
(* three mutators add_positions / remove_positions / concatenate_trees as  *)
(* named actions that follow the code statement by statement.              *)
(* P-layer: what a user relies on - Point(n) is the last position given,   *)
(* InRange/TooClose are taken over exactly the positioned nodes under the  *)
(* periodic lattice metric, minus exclusions.                              *)
(* Positions live on an integer lattice (spacing h nm in the harness); the *)
(* periodic squared distance is exact integer arithmetic.                  *)
(***************************************************************************)
EXTENDS Integers, Sequences, FiniteSets, TLC, SequencesExt

CONSTANTS Nodes,      \* set of global node indices
          MolOf,      \* node -> molecule index
          Pts,        \* lattice points operations may use
          LX, LY, LZ, \* box edge lengths in lattice units
          Cut2,       \* squared cut-off in lattice units
          Thr,        \* a new tree is opened iff start /\ size(last tree) > Thr
          Filler,     \* immovable filler points held by the first tree (to reach Thr)
          MaxOps,
          DevReadd    \* deviation flag (finding F8, repaired): TRUE = re-adding a positioned node appends its index again

VARIABLES pos,        \* node -> point or None                    (self.positions)
          defined,    \* Seq(Seq(node)): index list per tree       (self.defined_idxs)
          treeOf,     \* positioned node -> tree index (1-based)   (self.gndx_to_tree)
          trees,      \* Seq(Seq(point)): what each KD-tree holds  (self.position_trees[i].data)
          nops, last
vars == <<pos, defined, treeOf, trees, nops, last>>

None == <<-1, -1, -1>>
Positioned == {n \in Nodes : pos[n] # None}
PointsOf(idxs, p) == [i \in 1..Len(idxs) |-> p[idxs[i]]]
RemoveSeq(s, S) == SelectSeq(s, LAMBDA x : x \notin S)
RestrictTo(f, S) == [x \in S |-> f[x]]

Init == /\ pos = [n \in Nodes |-> None]
        /\ defined = << <<>> >> /\ treeOf = << >> /\ trees = << <<>> >>
        /\ nops = 0 /\ last = [op |-> "init"]

(* ---- remove_positions(mol_idx, node_keys): unpositioned keys are skipped; every touched tree is rebuilt *)
RemovedState(S) ==
  LET gone == S \cap Positioned
      p2   == [n \in Nodes |-> IF n \in gone THEN None ELSE pos[n]]
      d2   == [t \in 1..Len(defined) |-> RemoveSeq(defined[t], gone)]
      touched == {treeOf[n] : n \in gone}
      t2   == [t \in 1..Len(trees) |-> IF t \in touched THEN PointsOf(d2[t], p2) ELSE trees[t]]
  IN [pos |-> p2, defined |-> d2, trees |-> t2, treeOf |-> RestrictTo(treeOf, DOMAIN treeOf \ gone)]

RemoveNodes(S) ==
  /\ S # {} /\ \A a, b \in S : MolOf[a] = MolOf[b]
  /\ LET r == RemovedState(S) IN
       /\ pos' = r.pos /\ defined' = r.defined /\ trees' = r.trees /\ treeOf' = r.treeOf
  /\ last' = [op |-> "remove", nodes |-> SetToSortSeq(S, <)]

(* ---- add_positions(point, mol_idx, node_key, start): a positioned node is first removed (overwrite) *)
TreeSize(ts, i) == Len(ts[i]) + (IF i = 1 THEN Filler ELSE 0)
Add(n, p, start) ==
  /\ LET r  == IF n \in Positioned /\ ~DevReadd THEN RemovedState({n})
                                   ELSE [pos |-> pos, defined |-> defined, trees |-> trees, treeOf |-> treeOf]
         p2 == [r.pos EXCEPT ![n] = p]
         k  == Len(r.trees)
     IN /\ pos' = p2
        /\ IF start /\ TreeSize(r.trees, k) > Thr
           THEN /\ defined' = Append(r.defined, <<n>>)
                /\ trees'   = Append(r.trees, <<p>>)
                /\ treeOf'  = (n :> k + 1) @@ r.treeOf
           ELSE /\ defined' = [r.defined EXCEPT ![k] = Append(@, n)]
                /\ trees'   = [r.trees EXCEPT ![k] = PointsOf(Append(r.defined[k], n), p2)]
                /\ treeOf'  = (n :> k) @@ r.treeOf
  /\ last' = [op |-> "add", n |-> n, p |-> p, start |-> start]

(* ---- concatenate_trees(): one tree over all defined coordinates, in index order *)
Concatenate ==
  /\ LET idx == SetToSortSeq(Positioned, <) IN
       /\ defined' = << idx >>
       /\ trees'   = << PointsOf(idx, pos) >>
       /\ treeOf'  = [m \in Positioned |-> 1]
  /\ pos' = pos
  /\ last' = [op |-> "concat"]

Tick == nops < MaxOps /\ nops' = nops + 1
DoAdd == Tick /\ \E n \in Nodes, p \in Pts, s \in BOOLEAN : Add(n, p, s)
DoRemove == Tick /\ \E S \in (SUBSET Nodes) \ {{}} : RemoveNodes(S)
DoConcat == Tick /\ Concatenate
Next == DoAdd \/ DoRemove \/ DoConcat
Spec == Init /\ [][Next]_vars

(* ------------------------------------------------------------------ *)
(* P-layer                                                            *)
(* ------------------------------------------------------------------ *)
Abs(a) == IF a < 0 THEN -a ELSE a
Mod(a, m) == ((a % m) + m) % m
D1(a, b, L) == LET d == Mod(a - b, L) IN IF d < L - d THEN d ELSE L - d
D2(p, q) == D1(p[1], q[1], LX) * D1(p[1], q[1], LX) + D1(p[2], q[2], LY) * D1(p[2], q[2], LY)
            + D1(p[3], q[3], LZ) * D1(p[3], q[3], LZ)
Direct2(p, q) == (p[1]-q[1])*(p[1]-q[1]) + (p[2]-q[2])*(p[2]-q[2]) + (p[3]-q[3])*(p[3]-q[3])

Point(n) == pos[n]
\* nodes contributing to a force query at p with exclusion set excl
InRange(p, excl) == {n \in Positioned \ excl : D2(p, pos[n]) <= Cut2}
\* overlap guard of compute_force_point: any positioned node (excluded or not) on the same site
TooClose(p) == \E n \in Positioned : D2(p, pos[n]) = 0 /\ D2(p, pos[n]) <= Cut2

(* the four views describe the same set; every tree holds exactly the current points of its index list *)
Flat(ss) == FlattenSeq(ss)
Views == /\ ToSet(Flat(defined)) = Positioned
         /\ Len(Flat(defined)) = Cardinality(Positioned)
         /\ DOMAIN treeOf = Positioned
         /\ \A n \in Positioned : \E i \in 1..Len(defined[treeOf[n]]) : defined[treeOf[n]][i] = n
         /\ Len(trees) = Len(defined)
         /\ \A t \in 1..Len(trees) : trees[t] = PointsOf(defined[t], pos)

\* what queries see (through the trees) equals what the P-layer says (through pos)
TreeInRange(p, excl) ==
  (UNION { { defined[t][i] : i \in {j \in 1..Len(trees[t]) : j <= Len(defined[t]) /\ D2(p, trees[t][j]) <= Cut2} }
           : t \in 1..Len(trees) }) \ excl
QueriesAgree == \A p \in Pts : TreeInRange(p, {}) = InRange(p, {})

\* last position given: an add makes Point(n) the given point, a remove makes it None, nothing else changes a position
LastGiven == [][ /\ (last'.op = "add" => pos'[last'.n] = last'.p /\ \A m \in Nodes \ {last'.n} : pos'[m] = pos[m])
                 /\ (last'.op = "remove" => \A m \in Nodes : pos'[m] = IF m \in ToSet(last'.nodes) THEN None ELSE pos[m])
                 /\ (last'.op = "concat" => pos' = pos) ]_vars

(* Queries (get_point, compute_force_point, pbc_min_dist on stored points) are operators over the state, not    *)
(* actions: a query call leaves all four views exactly as they were.  Conformance: the S->I replay and NBTrace   *)
(* compare the projected engine state once after the operation and once more after the queries (QueryPure).     *)
QueryPure(before, after) == before = after

(* metric laws of the minimum-image distance on the lattice *)
Box == {<<x, y, z>> : x \in 0..LX-1, y \in 0..LY-1, z \in 0..LZ-1}
MetricLaws == \A p, q \in Box :
                 /\ D2(p, q) = D2(q, p)
                 /\ D2(p, q) <= Direct2(p, q)
                 /\ D2(<<p[1] + LX, p[2], p[3]>>, q) = D2(p, q)
                 /\ D2(<<p[1], p[2] - LY, p[3]>>, q) = D2(p, q)
                 /\ D2(<<p[1], p[2], p[3] + 2 * LZ>>, q) = D2(p, q)
                 /\ (D2(p, q) = 0 <=> p = q)

MetricLawsOnce == (nops = 0) => MetricLaws

(* the state without the operation counter and the label of the last operation: with this VIEW and no bound on  *)
(* the counter TLC computes the complete reachable set of the instance - every history of any length (NB_fix.cfg) *)
FixView == <<pos, defined, treeOf, trees>>
=============================================================================
