-------------------------- MODULE MC_GenCoordsOut --------------------------
EXTENDS GenCoordsOut, Json
At(resid, rn, an, mass) == [resid |-> resid, rn |-> rn, an |-> an, mass |-> mass]
MCTypes == [t \in {"W", "A", "V", "L"} |->
   IF t = "W" THEN [atoms |-> << At(1, "W", "W", 72) >>]
   ELSE IF t = "A" THEN [atoms |-> << At(1, "RA", "a1", 36), At(1, "RA", "a2", 36), At(2, "RB", "b1", 36), At(2, "RB", "b2", 36), At(3, "RA", "a1", 36), At(3, "RA", "a2", 36) >>]
   ELSE IF t = "L" THEN [atoms |-> [i \in 1..8 |-> At(i, IF i % 2 = 1 THEN "RA" ELSE "RB", IF i % 2 = 1 THEN "a1" ELSE "b1", 36)]]
   ELSE [atoms |-> << At(1, "RV", "c1", 36), At(1, "RV", "c2", 36), At(1, "RV", "v", 0), At(2, "RA", "a1", 36), At(2, "RA", "a2", 36) >>]]
E(t, n) == [type |-> t, n |-> n]
Names == {"W", "A", "V"}
MCMolLists == { <<E(a, n)>> : a \in Names, n \in 1..2 }
              \cup { <<E(a, n), E(b, m)>> : a \in Names, b \in Names, n \in 1..2, m \in 1..2 }
              \cup { <<E(a, 1), E(b, 2), E(a, 1)>> : a \in Names, b \in Names }
\* struct: "none" | "full" (-c with all atoms) | "partial" (-c with a prefix) | "meta" (-mc residue centres)
MCOpts == [box : BOOLEAN, dens : BOOLEAN, struct : {"none", "full", "partial", "meta"}, differ : BOOLEAN,
           bld : BOOLEAN, res : BOOLEAN, grid : BOOLEAN, start : BOOLEAN]
MCOptsOk == { o \in MCOpts : (o.differ => (o.box /\ o.struct # "none")) /\ (o.res => o.struct \in {"full", "partial"}) }
ExportInv == (pc = "done") => PrintT(<<"CASE", ToJson([mollist |-> mollist, opt |-> opt, box |-> box, mass |-> TotalMass(mollist),
                                                        nmol |-> NMolecules(mollist), listing |-> Listing(mollist)])>>)
=============================================================================
