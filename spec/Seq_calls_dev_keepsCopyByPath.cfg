SPECIFICATION HSpec
CONSTANTS
 Dev = {}
 HDev = {"keepsCopyByPath"}
 MaxOps = 3
 MaxWrites = 1
 InitX = {1, 2, 3}
 InitY = {4}
INVARIANT CallLaw
CHECK_DEADLOCK FALSE
