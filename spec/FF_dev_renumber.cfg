SPECIFICATION Spec
CONSTANTS
 Inputs <- MCInputs
 Dev <- DevRenumber
INVARIANT C01_Inv
CHECK_DEADLOCK FALSE
