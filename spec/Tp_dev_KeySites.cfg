SPECIFICATION Spec
CONSTANTS
 Content <- MCContentL
 Systems <- MCSystemsLDev
 BuildFiles <- MCBuildLDev
 DevVolLost = FALSE
 DevVolOverwritten = FALSE
 DevUserRegen = FALSE
 DevRecentre = FALSE
 DevKeySites = TRUE
 DevProcForgets = FALSE
 LargeN = 16
 DevSkipVSWhenNothingToOptimise = FALSE
INVARIANT UserTemplateWins
CHECK_DEADLOCK FALSE
