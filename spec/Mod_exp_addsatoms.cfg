INIT MCInitTiny
NEXT Next
CONSTANTS
 Inputs = {}
 LibOf <- MCLibOf
 Dev <- NoDev
 FreeOrder = TRUE
INVARIANT ExpAddsAtoms
CHECK_DEADLOCK FALSE
