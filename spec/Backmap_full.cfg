SPECIFICATION Spec
CONSTANTS
 TypeDefs <- MCTypeDefs
 Mols <- MCMols
 Fudges <- MCFudges
 Angles <- MCAngles
 DevImproper = FALSE
 DevPerAtom = FALSE
 DevNoFudge = FALSE
 DevOtherTemplate = FALSE
 DevCentreOther = FALSE
INVARIANT Centred
INVARIANT TurnedScaled
INVARIANT Scaled
INVARIANT SameHanded
INVARIANT Congruent
INVARIANT VSKept
INVARIANT Untouched
INVARIANT Protocol
INVARIANT RotationLawsOnce
INVARIANT TemplatesOKOnce
INVARIANT BruteOnce
PROPERTY OwnOnly
CHECK_DEADLOCK FALSE
