---------------------------- MODULE NBTraceAbs ----------------------------
(* X06 - engine traces recorded from the repository's own tests (harness/pytest_trace_plugin.py), one trace   *)
(* per NonBondEngine object, validated against NBEngine action by action.                                      *)
(*                                                                                                             *)
(* The tests use arbitrary float coordinates.  Every distinct float point of a trace is an opaque token        *)
(* k = 1, 2, ... rendered as the point <<k, 0, 0>> ("no position" = -1 = None): the four views (position       *)
(* table, index list per tree, node -> tree map, tree contents) are decided here exactly as in NBTrace; the    *)
(* metric part of a query (which residues are within the cut-off, overlap guard, pair force) is NOT decided    *)
(* here but by the independent brute-force monitor of the plugin, whose verdict is the boolean q_ok that       *)
(* every query / dist event must carry as TRUE.                                                                *)
(*                                                                                                             *)
(* The constructor is an action too: the initial state is the one NBEngine prescribes for a position table     *)
(* given up front (one tree over all defined rows, in index order) and the first event, init, must show it.    *)
EXTENDS NBEngine, Json, IOUtils
VARIABLES tid, l
Doc == JsonDeserialize(IOEnv.TRACE_FILE)
Traces == Doc.traces
TNodes == 0..(Doc.maxnodes - 1)
TMolOf == [n \in TNodes |-> 0]    \* remove_positions(mol_idx, keys) can only name residues of one molecule
TPts == {<<k, 0, 0>> : k \in 1..Doc.ntokens}
ASSUME TLCSet(1, {}) /\ TLCSet(2, [t \in 1..Len(Traces) |-> 0])
Evs == Traces[tid].evs
Ev == Evs[l]
NN == Traces[tid].nn
AsPt(k) == IF k < 0 THEN None ELSE <<k, 0, 0>>
PosMatches(post) == \A n \in Nodes : pos'[n] = IF n < NN THEN AsPt(post.pos[n + 1]) ELSE None
DefMatches(post) == /\ Len(defined') = Len(post.defined)
                    /\ \A t \in 1..Len(defined') : /\ Len(defined'[t]) = Len(post.defined[t])
                                                    /\ \A i \in 1..Len(defined'[t]) : defined'[t][i] = post.defined[t][i]
TreeMatches(post) == /\ Len(trees') = Len(post.trees)
                     /\ \A t \in 1..Len(trees') : /\ Len(trees'[t]) = Len(post.trees[t])
                                                  /\ \A i \in 1..Len(trees'[t]) : trees'[t][i] = AsPt(post.trees[t][i])
\* the node -> tree map the code keeps (gndx_to_tree, trees counted from 0 there)
TreeOfMatches(post) == /\ DOMAIN treeOf' = {post.treeof[i][1] : i \in 1..Len(post.treeof)}
                       /\ \A i \in 1..Len(post.treeof) : treeOf'[post.treeof[i][1]] = post.treeof[i][2] + 1
Same == UNCHANGED <<pos, defined, treeOf, trees, last>>
TIni == Ev.op = "init" /\ Same
TAdd == Ev.op = "add" /\ Ev.n \in Nodes /\ Add(Ev.n, AsPt(Ev.p), Ev.start)
TRem == Ev.op = "remove" /\ (IF Len(Ev.nodes) = 0 THEN Same ELSE RemoveNodes(ToSet(Ev.nodes)))
TCon == Ev.op = "concat" /\ Concatenate
\* read-only calls: the monitor's verdict, and get_point against the position table
TQry == Ev.op \in {"query", "dist"} /\ Ev.q_ok /\ Same
TPnt == Ev.op = "point" /\ Ev.n \in Nodes /\ AsPt(Ev.p) = pos[Ev.n] /\ Same
Mutating == Ev.op \in {"init", "add", "remove", "concat"}
TInit == /\ tid \in 1..Len(Traces) /\ l = 1
         /\ pos = [n \in Nodes |-> IF n < Traces[tid].nn THEN AsPt(Traces[tid].init[n + 1]) ELSE None]
         /\ defined = << SetToSortSeq({n \in Nodes : pos[n] # None}, <) >>
         /\ trees = << PointsOf(defined[1], pos) >>
         /\ treeOf = [m \in {n \in Nodes : pos[n] # None} |-> 1]
         /\ nops = 0 /\ last = [op |-> "init"]
TNext == /\ l <= Len(Evs)
         /\ (TIni \/ TAdd \/ TRem \/ TCon \/ TQry \/ TPnt)
         /\ (Mutating => (PosMatches(Ev.post) /\ DefMatches(Ev.post) /\ TreeMatches(Ev.post) /\ TreeOfMatches(Ev.post)))
         /\ l' = l + 1 /\ tid' = tid /\ nops' = nops
TSpec == TInit /\ [][TNext]_<<vars, tid, l>>
Mark == (l = Len(Evs) + 1) => TLCSet(1, TLCGet(1) \cup {tid})
\* longest matched prefix per trace is kept in register 2 (tid -> number of events matched)
Prog == TLCSet(2, [TLCGet(2) EXCEPT ![tid] = IF @ < l - 1 THEN l - 1 ELSE @])
Accepted == IF TLCGet(1) = 1..Len(Traces) THEN TRUE
            ELSE (PrintT(<<"REJECTED", ToJson(SetToSeq({<<t, TLCGet(2)[t]>> : t \in (1..Len(Traces)) \ TLCGet(1)}))>>) /\ FALSE)
=============================================================================
