SPECIFICATION XSpec
CONSTANTS
 Mols <- MolsUnbacked
 Dev = "none"
 FixedOrder = TRUE
INVARIANT LawsAtStart
CHECK_DEADLOCK FALSE
