INIT MCInit
NEXT Next
CONSTANTS
 Mols = {}
 Dev = "swapResidResname"
 FixedOrder = TRUE
INVARIANT RoundTripI
INVARIANT FastAgrees
CHECK_DEADLOCK FALSE
