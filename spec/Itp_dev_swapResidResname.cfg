INIT MCInit
NEXT Next
CONSTANTS
 Mols = {}
 Dev = "swapResidResname"
 FixedOrder = TRUE
INVARIANT RoundTripI
CHECK_DEADLOCK FALSE
