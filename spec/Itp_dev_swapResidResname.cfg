SPECIFICATION Spec
CONSTANTS
 Mols <- MCMols
 Dev = "swapResidResname"
 FixedOrder = TRUE
INVARIANT RoundTripI
CHECK_DEADLOCK FALSE
