SPECIFICATION Spec
CONSTANTS
 Mols <- MolsDev
 Dev = "swapResidResname"
 FixedOrder = TRUE
INVARIANT RoundTripI
CHECK_DEADLOCK FALSE
