SPECIFICATION Spec
CONSTANTS
 Cases <- PlainSmall
 TISet <- TI_quick
 DefSet <- Def_both
 MissSet <- Miss_both
 Stratified = TRUE
 DevOneDirection = FALSE
 DevNoReverse = TRUE
 DevFirstInstOnly = FALSE
 DevSpecOrder = FALSE
 DevDefineFirstOnly = FALSE
 DevPairsUntyped = FALSE
 DevTableMacrosKept = FALSE
 DevDefineLazyCond = FALSE
 DevDefineBlockDropped = FALSE
 DevDefineInactiveKept = FALSE
INVARIANT Conforms
CHECK_DEADLOCK FALSE
