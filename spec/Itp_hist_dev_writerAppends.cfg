INIT HInit
NEXT HNext
CONSTANTS
 Mols = {}
 Dev = "none"
 FixedOrder = TRUE
 Paths <- MCPaths
 MaxOps = 5
 WithFF = FALSE
 MolIdx <- MCMolAll
 MsgKinds <- MCMsgNone
 MaxMsgs = 0
 WithEnv = FALSE
 HDev = "writerAppends"
INVARIANT ReadIsCurrent
CHECK_DEADLOCK FALSE
