INIT HInit
NEXT HNext
CONSTANTS
 Mols = {}
 Dev = "none"
 FixedOrder = TRUE
 Paths <- MCPaths
 MaxOps = 5
 WithFF = FALSE
 HDev = "writerAppends"
INVARIANT ReadIsCurrent
CHECK_DEADLOCK FALSE
