------------------------- MODULE IndependenceTrace -------------------------
(***************************************************************************)
(* I->S for C13: observations recorded from the real pipeline on inputs    *)
(* beyond the exhaustive bound are validated in batches.                   *)
(*  Doc.ffs     abstract force fields of the random cases                  *)
(*  Doc.recs    random cases (5-8 residues): [case, vars: Seq([var, proj])]*)
(*              - every variant must be a presentation of the SAME input   *)
(*                (LabelOK: injective keys of one type, a permutation of   *)
(*                the nodes, every edge once in either orientation;        *)
(*                Admissible: same definitions, definitions of the same    *)
(*                thing in base order)                                     *)
(*              - its recorded projection must equal PResult(case)         *)
(*                (hence the projection of the base labelling)             *)
(*  Doc.opaque  inputs from the repository's own force fields: recorded    *)
(*              digests of the relabelled runs must equal the base digest  *)
(*  Doc.fresh, Doc.traces   histories of gen_params calls in one process:  *)
(*              the history machine (IndependenceHist) with Fresh(i) = the *)
(*              digest recorded from a new process must accept every run.  *)
(***************************************************************************)
EXTENDS IndependenceBase, IndependenceHist, Json, IOUtils
VARIABLES tid, l

Doc == JsonDeserialize(IOEnv.TRACE_FILE)
Traces == Doc.traces
ASSUME TLCSet(1, {}) /\ TLCSet(2, [t \in 1..Len(Traces) |-> 0])

(* ---- JSON -> values of IndependenceBase *)
LinkT(j) == [orders |-> j.orders, atoms |-> [a \in DOMAIN j.atoms |-> [oi |-> j.atoms[a].oi, an |-> j.atoms[a].an, rn |-> ToSet(j.atoms[a].rn), mk |-> j.atoms[a].mk, ty |-> j.atoms[a].ty]],
             inters |-> j.inters, rep |-> j.rep, del |-> ToSet(j.del)]
FFT(j) == [blocks |-> [b \in DOMAIN j.blocks |-> [j.blocks[b] EXCEPT !.cite = ToSet(@)]], links |-> [q \in DOMAIN j.links |-> LinkT(j.links[q])],
           mods |-> j.mods, bib |-> ToSet(j.bib), files |-> j.files]
TFFs == [i \in DOMAIN Doc.ffs |-> FFT(Doc.ffs[i])]
TNoDev == [itpGlobal |-> FALSE, replaceVisible |-> FALSE]
CaseT(j) == [id |-> j.id, ff |-> j.ff, n |-> j.n, start |-> j.start, rn |-> j.rn, fi |-> j.fi, E |-> {{e[1], e[2]} : e \in ToSet(j.E)}, mods |-> j.mods, mark |-> j.mark]
ErrClass(e) == IF e \in {"KeyError:mod", "KeyError:resid", "KeyError:modatom", "KeyError:nodekey"} THEN "KeyError" ELSE e
ProjT(p) == IF p.err # "" THEN [err |-> p.err]
            ELSE [err |-> "", atoms |-> [i \in DOMAIN p.atoms |-> [resid |-> p.atoms[i][1], rn |-> p.atoms[i][2], an |-> p.atoms[i][3], ty |-> p.atoms[i][4]]],
                  ints |-> BagOf([q \in DOMAIN p.ints |-> [kind |-> p.ints[q][1], at |-> p.ints[q][2], par |-> p.ints[q][3]]]),
                  nrexcl |-> p.nrexcl, cites |-> ToSet(p.cites)]
Expected(c) == LET o == PResult(c) IN IF o.err # "" THEN [err |-> ErrClass(o.err)] ELSE o

(* ---- (1) random cases *)
LabelOK(c, v) == /\ Len(v.keys) = c.n /\ \A p, q \in Pos(c) : (p # q => v.keys[p].v # v.keys[q].v) /\ v.keys[p].s = v.keys[q].s
                 /\ Len(v.nodeorder) = c.n /\ ToSet(v.nodeorder) = Pos(c)
                 /\ Len(v.eseq) = Cardinality(c.E) /\ {{e[1], e[2]} : e \in ToSet(v.eseq)} = c.E
                 /\ Admissible(FFof(c), v.files)
RecProblems(r) == LET c == CaseT(r.case)
                      exp == Expected(c)
                  IN {[src |-> "rec", rec |-> c.id, var |-> k, what |-> "not a presentation of the same input"] : k \in {q \in DOMAIN r.vars : ~LabelOK(c, r.vars[q].var)}}
                     \cup {[src |-> "rec", rec |-> c.id, var |-> k, what |-> "projection differs from the declared result"] : k \in {q \in DOMAIN r.vars : ProjT(r.vars[q].proj) # exp}}
                     \cup (IF Connected(c) THEN {} ELSE {[src |-> "rec", rec |-> c.id, var |-> 0, what |-> "residue graph not connected"]})
BadRecs == UNION {RecProblems(Doc.recs[i]) : i \in DOMAIN Doc.recs}
(* ---- (2) repository force fields: relabelled runs against the base labelling *)
BadOpaque == UNION {{[src |-> "opaque", rec |-> i, var |-> k, what |-> "projection differs from the base labelling"] :
                        k \in {q \in DOMAIN Doc.opaque[i].vars : Doc.opaque[i].vars[q] # Doc.opaque[i].base}} : i \in DOMAIN Doc.opaque}

(* ---- (3) histories *)
TFresh(i) == Doc.fresh[i]
TRunIn(i, p) == [res |-> Doc.fresh[i], proc |-> p]      \* intended design: the process state does not reach the result
TProc0 == "new"
TNIn == Len(Doc.fresh)
Ev == Traces[tid][l]
TInit == HInit /\ tid \in 1..Len(Traces) /\ l = 1
TNext == /\ l <= Len(Traces[tid])
         /\ Run(Ev.inp)
         /\ res'[l] = Ev.out
         /\ l' = l + 1 /\ tid' = tid
TSpec == TInit /\ [][TNext]_<<hvars, tid, l>>
Mark == (l = Len(Traces[tid]) + 1) => TLCSet(1, TLCGet(1) \cup {tid})
Prog == TLCSet(2, [TLCGet(2) EXCEPT ![tid] = IF @ < l - 1 THEN l - 1 ELSE @])
\* domain stage: which pairs of definitions (positions in the base order) must keep their relative order, per recorded force field
DInit == HInit /\ tid = 0 /\ l = 0
DNext == FALSE /\ UNCHANGED <<hvars, tid, l>>
ExportKeep == PrintT(<<"KEEP", ToJson([i \in DOMAIN TFFs |-> SetToSeq(MustKeep(TFFs[i]))])>>)
Accepted == LET rej == (1..Len(Traces)) \ TLCGet(1)
                bad == BadRecs \cup BadOpaque
            IN IF rej = {} /\ bad = {} THEN PrintT(<<"ACCEPTED", ToJson([traces |-> Len(Traces), recs |-> Len(Doc.recs), opaque |-> Len(Doc.opaque)])>>)
               ELSE (PrintT(<<"REJECTED", ToJson(SetToSeq({<<t, TLCGet(2)[t]>> : t \in rej}))>>) /\ PrintT(<<"BADREC", ToJson(SetToSeq(bad))>>) /\ FALSE)
=============================================================================
