INIT MCInitTiny
NEXT Next
CONSTANTS
 Inputs = {}
 LibOf <- MCLibOf
 Dev <- NoDev
 FreeOrder = TRUE
INVARIANT Reach_SeesEarlier
CHECK_DEADLOCK FALSE
