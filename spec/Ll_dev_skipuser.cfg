SPECIFICATION Spec
CONSTANTS
 Configs <- MCFFErr
 DevUserLast = FALSE
 DevFirstWins = FALSE
 DevBibMerge = FALSE
 DevSplitAll = FALSE
 DevTmplMerge = FALSE
 DevSkipUserUnknown = TRUE
 DevIdReuse = FALSE
INVARIANT ErrorRule
CHECK_DEADLOCK FALSE
