SPECIFICATION Spec
CONSTANTS
 Configs <- MCQuick
 DevUserLast = FALSE
 DevFirstWins = FALSE
 DevBibMerge = FALSE
 DevSplitAll = FALSE
 DevTmplMerge = FALSE
 DevSkipUserUnknown = TRUE
INVARIANT ErrorRule
CHECK_DEADLOCK FALSE
