SPECIFICATION Spec
CONSTANTS
 Cands <- MCCands
 Thrs <- MCThrs
 LoC = 10
 HiC = 1790
 TopC = 1800
 InitRank = 9999
 Triples <- MCTriples
 Table <- MCTable
 MaxCalls = 3
 DevNonStrict = FALSE
 DevKeepPrev = FALSE
 DevUpdateOnReject = FALSE
 DevThrReversed = FALSE
 DevKeyReversed = TRUE
INVARIANT LookupRule
CHECK_DEADLOCK FALSE
