---------------------------- MODULE NBInductive ----------------------------
(***************************************************************************)
(* C16 - Views as an INDUCTIVE invariant of NBEngine, checked by TLC.       *)
(*                                                                         *)
(* NB_small / NB_deep explore the histories of at most MaxOps operations   *)
(* from the empty engine.  The reachable set of NBEngine is infinite even  *)
(* for a fixed node set (emptied trees are kept until concatenate_trees,   *)
(* so the number of trees grows without bound), hence no fixpoint exists.  *)
(* Here the initial predicate is instead EVERY state of the instance with  *)
(* at most MaxTrees trees that satisfies Views (reachable or not), and     *)
(* exactly one operation is taken (MaxOps = 1).  The invariants then read: *)
(*   level 0:  Views => QueriesAgree            (state implication)        *)
(*   level 1:  Views /\ Next => Views'          (induction step)           *)
(*   step   :  LastGiven                        (on every such step)       *)
(* Together with Init => Views (NB_small) this gives Views, QueriesAgree   *)
(* and LastGiven for histories of ANY length over the instance, as long as *)
(* no more than MaxTrees trees exist before the step.                      *)
(***************************************************************************)
EXTENDS NBEngine

CONSTANT MaxTrees

INodes == {0, 1, 2, 3}
IMolOf == (0 :> 0) @@ (1 :> 0) @@ (2 :> 1) @@ (3 :> 1)
IPts   == {<<0,0,0>>, <<1,0,0>>, <<1,1,1>>}
INodes3 == {0, 1, 2}
IMolOf3 == (0 :> 0) @@ (1 :> 0) @@ (2 :> 1)
IPts5  == {<<0,0,0>>, <<1,0,0>>, <<2,0,0>>, <<1,1,1>>, <<0,2,2>>}

Injective(s) == \A i, j \in 1..Len(s) : s[i] = s[j] => i = j
InjSeqs == {s \in UNION {[1..k -> Nodes] : k \in 0..Cardinality(Nodes)} : Injective(s)}
TreeLists == UNION {[1..t -> InjSeqs] : t \in 1..MaxTrees}

IndInit ==
  /\ defined \in {d \in TreeLists : Injective(FlattenSeq(d))}
  /\ \E f \in [ToSet(FlattenSeq(defined)) -> Pts] :
        pos = [n \in Nodes |-> IF n \in DOMAIN f THEN f[n] ELSE None]
  /\ trees = [t \in 1..Len(defined) |-> PointsOf(defined[t], pos)]
  /\ treeOf = [n \in ToSet(FlattenSeq(defined)) |->
                  CHOOSE t \in 1..Len(defined) : \E i \in 1..Len(defined[t]) : defined[t][i] = n]
  /\ nops = 0 /\ last = [op |-> "init"]

IndSpec == IndInit /\ [][Next]_vars

\* the initial predicate really is "all Views-states": every initial state satisfies Views (checked as an invariant at
\* level 0 together with the step), and the count of initial states is compared with the closed form by the driver
=============================================================================
