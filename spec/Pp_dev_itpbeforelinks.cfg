SPECIFICATION Spec
CONSTANTS
 Cases <- DevCases
 MaxFail = 0
 DevItpBeforeLinks = TRUE
 DevGroBlockOrder = FALSE
 DevGateSkipped = FALSE
 DevJsonIdShift = FALSE
 DevContinueAfterFail = FALSE
INVARIANT E1
CHECK_DEADLOCK FALSE
