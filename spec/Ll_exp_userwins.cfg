SPECIFICATION Spec
CONSTANTS
 Configs <- MCFFListing
 DevUserLast = FALSE
 DevFirstWins = FALSE
 DevBibMerge = FALSE
 DevSplitAll = FALSE
 DevTmplMerge = FALSE
 DevSkipUserUnknown = FALSE
 DevIdReuse = FALSE
INVARIANT UserDefinitionWins
CHECK_DEADLOCK FALSE
