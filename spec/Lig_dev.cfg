SPECIFICATION SpecDev
CONSTANTS
 Types <- MCTypes
 DevOn = {}
 AsIsToo = FALSE
INVARIANT Refute_KeepNode
INVARIANT Refute_Order
INVARIANT Refute_FirstOnly
INVARIANT Refute_WildMismatch
INVARIANT Refute_NoCopyBack
INVARIANT Refute_ZipTrunc
INVARIANT Refute_PerMolCount
INVARIANT Refute_Chain_Crash
INVARIANT Refute_Chain_Near
INVARIANT Refute_Chain_Err
CHECK_DEADLOCK FALSE
