SPECIFICATION Spec
CONSTANTS
 Content <- MCContentV
 Systems <- MCSystemsVDev
 BuildFiles <- MCBuildV
 DevVolLost = FALSE
 DevVolOverwritten = FALSE
 DevUserRegen = FALSE
 DevRecentre = FALSE
 DevKeySites = FALSE
 DevProcForgets = FALSE
 LargeN = 16
 DevSkipVSWhenNothingToOptimise = TRUE
INVARIANT VSConstructed
CHECK_DEADLOCK FALSE
