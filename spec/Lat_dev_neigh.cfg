SPECIFICATION Spec
CONSTANTS
 L = 2
 History <- H2x3r
 Grid <- Grid2
 Bundle <- Bundle6
 MaxIter = 5
 MaxReject = 2
 Force = FALSE
 Dev <- DevNeighbours
INVARIANT StepOne
INVARIANT InBox
INVARIANT NoOverlap
INVARIANT RootOnGrid
INVARIANT Contiguous
INVARIANT Final
INVARIANT ForceWithinLimit
CHECK_DEADLOCK FALSE
