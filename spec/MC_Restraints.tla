---------------------------- MODULE MC_Restraints ----------------------------
EXTENDS Restraints, Json
CONSTANT DevBfs      \* deviation (finding F11, repaired): the cyclic growth tree is the breadth-first tree
CONSTANT DevSel      \* "none" | "slice" | "index": how the residues of a resname + resid-range directive are found in the node list
CONSTANT DevImg      \* "none" | "noimage" | "halfshortest": the per-axis separation the walk uses when it applies a distance window
VARIABLES kind, a
vars == <<kind, a>>
Win == [n : 3..7, ref : 0..6, target : 0..6, d : {0, 470, 1200}, tol : {0, 100}, avg : {470, 400}]
WinOk == { w \in Win : w.ref # w.target /\ w.ref < w.n /\ w.target < w.n }
Rings == [n : 3..9]
\* several restraints in one molecule are independent: a residue carries the windows of every restraint whose path contains it
Win2 == [n : {6, 7}, ref : {0, 1}, t1 : 2..6, ref2 : {0, 1, 3}, t2 : 2..6, d1 : {470, 1200}, d2 : {800}, tol : {100}, avg : {470}]
Win2Ok == { w \in Win2 : w.t1 < w.n /\ w.t2 < w.n /\ w.t1 # w.ref /\ w.t2 # w.ref2 /\ <<w.ref, w.t1>> # <<w.ref2, w.t2>> /\ <<w.ref, w.t1>> # <<w.t2, w.ref2>> }
\* several molecule types declared cyclic in one run: each ring gets its own closing pair
Rings2 == [n : 3..7, n2 : 3..7]
\* residues of a molecule listed in ANY order of their ids (all 24 orders of 4 ids, consecutive ids or ids with gaps), names in 4 patterns;
\* every directive (name, half-open id range incl. empty ranges and ranges that reach beyond the ids present) is evaluated on each
Perm4 == { p \in [1..4 -> 1..4] : \A i, j \in 1..4 : i # j => p[i] # p[j] }
IdSets == { <<1, 2, 3, 4>>, <<2, 3, 5, 8>> }
NamePats == { <<"RA", "RA", "RA", "RA">>, <<"RA", "RB", "RA", "RB">>, <<"RA", "RA", "RB", "RB">>, <<"RA", "RB", "RB", "RA">> }
SelCases == [order : Perm4, ids : IdSets, pat : NamePats]
ResOf(c) == [i \in 1..4 |-> [rn |-> c.pat[i], resid |-> c.ids[c.order[i]]]]
DirSeq == LET rng == << <<1, 1>>, <<1, 2>>, <<1, 3>>, <<1, 4>>, <<1, 5>>, <<1, 9>>, <<2, 3>>, <<2, 4>>, <<2, 5>>, <<2, 6>>, <<2, 9>>,
                        <<3, 3>>, <<3, 4>>, <<3, 5>>, <<3, 6>>, <<3, 9>>, <<4, 5>>, <<4, 9>>, <<5, 6>>, <<5, 9>> >>
          IN [k \in 1..(2 * Len(rng)) |-> [rn |-> IF k <= Len(rng) THEN "RA" ELSE "RB",
                                            rlo |-> rng[((k - 1) % Len(rng)) + 1][1], rhi |-> rng[((k - 1) % Len(rng)) + 1][2]]]
TagI(d, res) == IF DevSel = "slice" THEN TagSliceDev(d, res) ELSE IF DevSel = "index" THEN TagIndexDev(d, res) ELSE TagLoopI(d, res, 1)
\* how the walk applies a window: boxes with unequal edges, reference residue next to three faces or in the interior, candidates displaced
\* by less / more than half of the shortest edge, more than half of a long edge and more than a whole short edge, along one or two axes
Boxes == { <<7000, 7000, 3000>>, <<3000, 5000, 7000>>, <<5000, 7000, 3000>>, <<6000, 6000, 6000>> }
RefPts == { <<300, 300, 300>>, <<1500, 2500, 1500>> }
Wins == { [d |-> 4200, tol |-> 200, avg |-> 470], [d |-> 1200, tol |-> 100, avg |-> 470], [d |-> 2500, tol |-> 300, avg |-> 400], [d |-> 0, tol |-> 250, avg |-> 470] }
ApplyCases == [box : Boxes, ref : RefPts, w : Wins]
Comp == {0, 450, -1250, 1650, -2450, 3350, 4150}
DV == { v \in [1..3 -> Comp] : (v[1] = 0 \/ v[2] = 0 \/ v[3] = 0) /\ v # [i \in 1..3 |-> 0] }
LoOf(w) == w.d - w.tol
UpOf(w) == w.d + w.tol + w.avg
\* (a displacement whose image distance falls exactly on a bound is not probed: the code compares floating-point numbers)
Probes(c) == { v \in DV : Dist2P(v, c.box) # UpOf(c.w) * UpOf(c.w) /\ Dist2P(v, c.box) # LoOf(c.w) * LoOf(c.w) }
AccP(c, v) == InWindow2(Dist2P(v, c.box), LoOf(c.w), UpOf(c.w))
AccI(c, v) == InWindow2(Dist2I(DevImg, WrapInto([i \in 1..3 |-> c.ref[i] + v[i]], c.box), c.ref, c.box), LoOf(c.w), UpOf(c.w))
Init == \/ (kind = "window" /\ a \in WinOk)
        \/ (kind = "sel" /\ a \in SelCases)
        \/ (kind = "apply" /\ a \in ApplyCases)
        \/ (kind = "ring" /\ a \in Rings)
        \/ (kind = "window2" /\ a \in Win2Ok)
        \/ (kind = "ring2" /\ a \in Rings2)
Next == UNCHANGED vars
Spec == Init /\ [][Next]_vars
Tree(n) == IF DevBfs THEN BfsTree(n) ELSE DfsTree(n)
WindowLaws == kind = "window" => /\ SameWindow(a.ref, a.target, a.d, a.tol, a.avg)
                                 /\ TargetWindow(a.ref, a.target, a.d, a.tol, a.avg)
                                 /\ Nested(a.ref, a.target, a.d, a.tol, a.avg)
RingLaw == kind = "ring" => /\ Cardinality(RingEdges(a.n) \ TreeEdgeSet(Tree(a.n))) = 1
                            /\ ClosingPairI(Tree(a.n)) = ClosingPairP(a.n, Tree(a.n))
Window2Law == kind = "window2" => /\ SameWindow(a.ref, a.t1, a.d1, a.tol, a.avg) /\ SameWindow(a.ref2, a.t2, a.d2, a.tol, a.avg)
Ring2Law == kind = "ring2" => /\ ClosingPairI(Tree(a.n)) = ClosingPairP(a.n, Tree(a.n)) /\ ClosingPairI(Tree(a.n2)) = ClosingPairP(a.n2, Tree(a.n2))
\* every directive tags exactly the residues it selects, each once, in node order - whatever the order of the ids along the node list
SelLaw == kind = "sel" => \A k \in 1..Len(DirSeq) : LET t == TagI(DirSeq[k], ResOf(a)) IN
             /\ SeqRange(t) = SelNodesP(DirSeq[k], ResOf(a))
             /\ \A i, j \in 1..Len(t) : i < j => t[i] < t[j]
\* the walk accepts a candidate iff its true minimum-image distance (over all periodic images, any box shape) is inside the window;
\* the restrained pair's window is [d - tol, d + tol + one step] (TargetWindow)
ApplyLaw == kind = "apply" => \A v \in Probes(a) : AccI(a, v) = AccP(a, v)
PairOf(n) == SetToSortSeq(ClosingPairP(n, DfsTree(n)), <)
ExportInv == PrintT(<<"CASE", ToJson(
      IF kind = "window" THEN [kind |-> kind, a |-> a, win |-> WindowI(a.ref, a.target, a.d, a.tol, a.avg)]
      ELSE IF kind = "window2" THEN [kind |-> kind, a |-> a, win |-> WindowI(a.ref, a.t1, a.d1, a.tol, a.avg) \o WindowI(a.ref2, a.t2, a.d2, a.tol, a.avg)]
      ELSE IF kind = "sel" THEN [kind |-> kind, a |-> a, res |-> ResOf(a), dirs |-> DirSeq, tags |-> [k \in 1..Len(DirSeq) |-> TagLoopI(DirSeq[k], ResOf(a), 1)]]
      ELSE IF kind = "apply" THEN [kind |-> kind, a |-> a, lo |-> LoOf(a.w), up |-> UpOf(a.w),
                                   probes |-> SetToSeq({ [dv |-> v, acc |-> AccP(a, v), m2 |-> Dist2P(v, a.box)] : v \in Probes(a) })]
      ELSE IF kind = "ring" THEN [kind |-> kind, a |-> a, pair |-> PairOf(a.n), tree |-> DfsTree(a.n)]
      ELSE [kind |-> kind, a |-> a, pair |-> PairOf(a.n), pair2 |-> PairOf(a.n2)])>>)
=============================================================================
