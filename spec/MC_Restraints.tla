---------------------------- MODULE MC_Restraints ----------------------------
EXTENDS Restraints, Json
CONSTANT DevBfs      \* deviation (finding F11, repaired): the cyclic growth tree is the breadth-first tree
VARIABLES kind, a
vars == <<kind, a>>
Win == [n : 3..7, ref : 0..6, target : 0..6, d : {0, 470, 1200}, tol : {0, 100}, avg : {470, 400}]
WinOk == { w \in Win : w.ref # w.target /\ w.ref < w.n /\ w.target < w.n }
Rings == [n : 3..9]
Init == \/ (kind = "window" /\ a \in WinOk)
        \/ (kind = "ring" /\ a \in Rings)
Next == UNCHANGED vars
Spec == Init /\ [][Next]_vars
Tree(n) == IF DevBfs THEN BfsTree(n) ELSE DfsTree(n)
WindowLaws == kind = "window" => /\ SameWindow(a.ref, a.target, a.d, a.tol, a.avg)
                                 /\ TargetWindow(a.ref, a.target, a.d, a.tol, a.avg)
                                 /\ Nested(a.ref, a.target, a.d, a.tol, a.avg)
RingLaw == kind = "ring" => /\ Cardinality(RingEdges(a.n) \ TreeEdgeSet(Tree(a.n))) = 1
                            /\ ClosingPairI(Tree(a.n)) = ClosingPairP(a.n, Tree(a.n))
ExportInv == PrintT(<<"CASE", ToJson(IF kind = "window"
      THEN [kind |-> kind, a |-> a, win |-> WindowI(a.ref, a.target, a.d, a.tol, a.avg)]
      ELSE [kind |-> kind, a |-> a, pair |-> SetToSortSeq(ClosingPairP(a.n, DfsTree(a.n)), <), tree |-> DfsTree(a.n)])>>)
=============================================================================
