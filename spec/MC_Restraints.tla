---------------------------- MODULE MC_Restraints ----------------------------
EXTENDS Restraints, Json
CONSTANT DevBfs      \* deviation (finding F11, repaired): the cyclic growth tree is the breadth-first tree
VARIABLES kind, a
vars == <<kind, a>>
Win == [n : 3..7, ref : 0..6, target : 0..6, d : {0, 470, 1200}, tol : {0, 100}, avg : {470, 400}]
WinOk == { w \in Win : w.ref # w.target /\ w.ref < w.n /\ w.target < w.n }
Rings == [n : 3..9]
\* several restraints in one molecule are independent: a residue carries the windows of every restraint whose path contains it
Win2 == [n : {6, 7}, ref : {0, 1}, t1 : 2..6, ref2 : {0, 1, 3}, t2 : 2..6, d1 : {470, 1200}, d2 : {800}, tol : {100}, avg : {470}]
Win2Ok == { w \in Win2 : w.t1 < w.n /\ w.t2 < w.n /\ w.t1 # w.ref /\ w.t2 # w.ref2 /\ <<w.ref, w.t1>> # <<w.ref2, w.t2>> /\ <<w.ref, w.t1>> # <<w.t2, w.ref2>> }
\* several molecule types declared cyclic in one run: each ring gets its own closing pair
Rings2 == [n : 3..7, n2 : 3..7]
Init == \/ (kind = "window" /\ a \in WinOk)
        \/ (kind = "ring" /\ a \in Rings)
        \/ (kind = "window2" /\ a \in Win2Ok)
        \/ (kind = "ring2" /\ a \in Rings2)
Next == UNCHANGED vars
Spec == Init /\ [][Next]_vars
Tree(n) == IF DevBfs THEN BfsTree(n) ELSE DfsTree(n)
WindowLaws == kind = "window" => /\ SameWindow(a.ref, a.target, a.d, a.tol, a.avg)
                                 /\ TargetWindow(a.ref, a.target, a.d, a.tol, a.avg)
                                 /\ Nested(a.ref, a.target, a.d, a.tol, a.avg)
RingLaw == kind = "ring" => /\ Cardinality(RingEdges(a.n) \ TreeEdgeSet(Tree(a.n))) = 1
                            /\ ClosingPairI(Tree(a.n)) = ClosingPairP(a.n, Tree(a.n))
Window2Law == kind = "window2" => /\ SameWindow(a.ref, a.t1, a.d1, a.tol, a.avg) /\ SameWindow(a.ref2, a.t2, a.d2, a.tol, a.avg)
Ring2Law == kind = "ring2" => /\ ClosingPairI(Tree(a.n)) = ClosingPairP(a.n, Tree(a.n)) /\ ClosingPairI(Tree(a.n2)) = ClosingPairP(a.n2, Tree(a.n2))
PairOf(n) == SetToSortSeq(ClosingPairP(n, DfsTree(n)), <)
ExportInv == PrintT(<<"CASE", ToJson(
      IF kind = "window" THEN [kind |-> kind, a |-> a, win |-> WindowI(a.ref, a.target, a.d, a.tol, a.avg)]
      ELSE IF kind = "window2" THEN [kind |-> kind, a |-> a, win |-> WindowI(a.ref, a.t1, a.d1, a.tol, a.avg) \o WindowI(a.ref2, a.t2, a.d2, a.tol, a.avg)]
      ELSE IF kind = "ring" THEN [kind |-> kind, a |-> a, pair |-> PairOf(a.n), tree |-> DfsTree(a.n)]
      ELSE [kind |-> kind, a |-> a, pair |-> PairOf(a.n), pair2 |-> PairOf(a.n2)])>>)
=============================================================================
