SPECIFICATION Spec
CONSTANTS
 TypeDefs <- MCTypeDefs
 Mols <- MCMolsSmall
 Fudges <- MCFudgesSmall
 Angles <- MCAngles
 DevImproper = FALSE
 DevPerAtom = FALSE
 DevNoFudge = FALSE
 DevOtherTemplate = FALSE
 DevCentreOther = FALSE
CHECK_DEADLOCK FALSE
