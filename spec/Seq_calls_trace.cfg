SPECIFICATION TSpec
CONSTANTS
 Dev = {}
INVARIANT Mark
INVARIANT Prog
POSTCONDITION Accepted
CHECK_DEADLOCK FALSE
