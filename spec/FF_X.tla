----------------------------- MODULE FF_X -----------------------------
(* instance X (C01): two or three separate copies / fragments of the two-residue block in chains of 5..6 residues (with and   *)
(* without a cycle-closing edge), first residue id 1 / 5, 2 force fields - the situations the 4-residue bound cannot hold (F32) *)
EXTENDS FFExport
MCFFs == FFsG
KindsX == {<<"X", "X", "A", "X", "X">>, <<"X", "X", "B", "X", "X">>, <<"A", "X", "X", "B", "X", "X">>, <<"X", "X", "A", "B", "X", "X">>,
           <<"X", "X", "X", "X", "A", "X", "X">>}
EdgesX(n) == {Chain(n), Chain(n) \cup {<<1, n>>}, Chain(n) \cup {<<2, n - 1>>}}
MCInputs == {I \in {MkInpF(FFsG, ff, Len(kv), st, kv, E, <<>>) : ff \in {2, 3}, st \in {1, 5}, kv \in KindsX, E \in UNION {EdgesX(n) : n \in 5..7}} :
               Len(I.rn) = I.n /\ (\A e \in ToSet(I.edges) : e[2] <= I.n) /\ (\E e \in ToSet(I.edges) : e[2] = I.n) /\ DomOK(I)}
ASSUME PrintT(<<"FFS", ToJson(MCFFs)>>)
=============================================================================
