---------------------------- MODULE PolyplyExport ----------------------------
(* S->I export for X01: every behaviour of Polyply (pipeline case x undisturbed | one injected stage failure) is      *)
(* printed as one JSON record: the case, the chain of programs, the stage events in order and - at every program      *)
(* boundary (end of a program) - the abstract objects in memory and in the files.                                     *)
EXTENDS MC_Polyply, PolyplyJson, Json
VARIABLE hist
XInit == Init /\ hist = <<>>
Light == [kind |-> last'.kind, p |-> last'.p, stage |-> last'.stage, ok |-> last'.ok, inj |-> last'.inj]
Entry == IF last'.kind = "end"
         THEN [ev |-> Light, prog |-> Chain(case)[last'.p].prog, mem |-> MemJ(mem'), files |-> FilesJ(files')]
         ELSE [ev |-> Light, prog |-> Chain(case)[last'.p].prog]
XNext == Next /\ hist' = Append(hist, Entry)
XSpec == XInit /\ [][XNext]_<<vars, hist>>
ChainJ(c) == [p \in 1..Len(Chain(c)) |-> [prog |-> Chain(c)[p].prog, inf |-> Chain(c)[p].inf, outf |-> Chain(c)[p].outf, ug |-> Chain(c)[p].ug,
                                            stages |-> StagesOf(c, Chain(c)[p].prog)]]
ExportInv == (status = "done") => PrintT(<<"CASE", ToJson([case |-> CaseJ(case), chain |-> ChainJ(case), evs |-> hist,
                                                            expect |-> FilesJ(PFiles(case)), nfail |-> nfail])>>)
=============================================================================
