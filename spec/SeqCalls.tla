---------------------------- MODULE SeqCalls ----------------------------
(* C19, in-process CALL HISTORIES through the real entry point: one Python process calls                                        *)
(*     gen_params(seq_file = path, dsdna = ds)   /   gen_params(seq = blocks, dsdna = TRUE)                                     *)
(* over and over - the same unchanged sequence file several times, with and without -dsdna, other files in between, a file      *)
(* rewritten between two calls.  The PROCESS and the FILE SYSTEM are state:                                                     *)
(*   fs[s]    index (into Files) of what source s holds now: a path ("X": .json strands, "Y": .ig files) or the inline -seq      *)
(*            list of the script ("S")                                                                                        *)
(*   held[s]  what a process that remembers parsed sequence inputs would still hold for s (consulted under a deviation only)   *)
(*   g        the residue graph of the call in progress (variable of SeqInput): the reader's object, grown IN PLACE by          *)
(*            SeqInput!CStart / SeqInput!CStep - the very actions C19 proves equal to Complement - when ds is set              *)
(*   out      the result of the last finished call: rejected, or the residue graph handed to the mapping stage                 *)
(* I-layer of one call: BeginCall (reader: parse the current content) - CStart, CStep ... (only with ds) - EndCall.            *)
(* Laws: CallLaw - every call returns ExpCall(current content of its source, ds), whatever the process did before: completing  *)
(* n nucleotides gives 2n residues on the first call and on every later one; Repeatable - two calls of one history with the    *)
(* same content and flag return the same thing; OrigKept / Shape of SeqInput on every step of every call.                      *)
(* Deviations (HDev), each refuted by TLC:                                                                                    *)
(*   "keepsParsed"      the parsed input is kept per source for the life of the process and handed out again while the file is  *)
(*                      unchanged (re-read after a rewrite); the completion works in place on that very object - a second      *)
(*                      -dsdna call completes an already completed molecule (3n, 4n ... residues), a call without -dsdna gets  *)
(*                      both strands, a rejected call leaves a half-grown strand behind                                        *)
(*   "keepsCopyByPath"  a pristine copy of what was first read from a path is handed out for the life of the process: right    *)
(*                      as long as the file stays as it is, stale after a rewrite                                              *)
EXTENDS SeqCallsP, SequencesExt, Json
CONSTANTS MaxOps,      \* operations (calls + rewrites) per history
          MaxWrites,   \* at most so many of them are rewrites
          InitX, InitY,\* what the paths X / Y hold when the process starts (indices into Files)
          HDev
VARIABLES fs, held, out, cur, nops, nwr, hist
hvars == <<fs, held, out, cur, nops, nwr, hist>>

DsK(names, circ, tag, keys, first) ==
  [fam |-> "dsdna", names |-> names, circ |-> circ, tag |-> tag, keys |-> keys, first |-> first, rounds |-> 1]
Ig(toks, lines, circ, own, title) ==
  [fam |-> "file", fmt |-> "ig", kind |-> "DNA", toks |-> toks, lines |-> lines, circ |-> circ, terOwn |-> own, nl |-> TRUE, title |-> title]
Files == <<
  \* X (.json): node keys shuffled against the residue ids, residue ids from 11, a labelled edge
  DsK(<<"DA5", "DC", "DG3">>, FALSE, 1, <<2, 1, 8>>, 11),
  \* X: a name that is no DNA name in the middle - accepted without -dsdna, rejected with it AFTER the new strand has begun to grow
  DsK(<<"DT5", "GLY", "DA3">>, FALSE, 0, <<0, 1, 2>>, 1),
  \* X: a ring, 1-based keys
  DsK(<<"DG", "DA", "DT", "DC">>, TRUE, 0, <<1, 2, 3, 4>>, 1),
  \* Y (.ig): a ring; a linear strand on two lines with the terminator on a line of its own and a title spelled in A, C, T
  Ig(<<"A", "C", "G", "T">>, <<4>>, TRUE, FALSE, <<"t", "i", "t", "l", "e">>),
  Ig(<<"T", "T", "G">>, <<1, 2>>, FALSE, TRUE, <<"C", "A", "T">>),
  \* S: -seq DA5:1 DC:2 DT3:1
  [fam |-> "seqlist", blocks |-> <<[name |-> "DA5", cnt |-> 1], [name |-> "DC", cnt |-> 2], [name |-> "DT3", cnt |-> 1]>>] >>
Srcs == {"X", "Y", "S"}
Holds == [X |-> {1, 2, 3}, Y |-> {4, 5}, S |-> {6}]
Flags(s) == IF s = "S" THEN {TRUE} ELSE BOOLEAN          \* the inline list is only called with -dsdna

GOut(x) == [n |-> x.n, name |-> x.name, inst |-> x.inst, lab |-> [r \in 1..x.n |-> SetToSeq(x.lab[r])], edges |-> SetToSeq(x.edges)]
NoHeld == [has |-> FALSE, g |-> EmptyG]
NoOut == [valid |-> FALSE, f |-> 0, ds |-> FALSE, rej |-> FALSE, g |-> EmptyG]
NoCur == [src |-> "", ds |-> FALSE, obj |-> EmptyG]
NoAux(x) == [cur |-> 0, corr |-> <<>>, top |-> 0, n0 |-> x.n, round |-> 0, base |-> x]
CallInp == [fam |-> "dsdna", rounds |-> 1, first |-> 1]       \* one completion per call, in place on g (SeqInput: pc = "cstart2")

HInit == /\ inp = CallInp /\ pc = "idle" /\ k = 1 /\ c = 0 /\ mons = <<>> /\ g = EmptyG /\ aux = NoAux(EmptyG) /\ last = "Init"
         /\ \E x \in InitX, y \in InitY : fs = [X |-> x, Y |-> y, S |-> 6]
         /\ held = [s \in Srcs |-> NoHeld] /\ out = NoOut /\ cur = NoCur /\ nops = 0 /\ nwr = 0
         /\ hist = <<[op |-> "init", fs |-> fs]>>

\* the reader: parse what the source holds now (deviations: hand out what the process still holds)
BeginCall(s, ds) ==
  /\ pc = "idle" /\ nops < MaxOps
  /\ LET obj == IF (HDev \cap {"keepsParsed", "keepsCopyByPath"}) # {} /\ held[s].has THEN held[s].g ELSE Parsed(Files[fs[s]]) IN
     /\ g' = obj /\ aux' = NoAux(obj) /\ cur' = [src |-> s, ds |-> ds, obj |-> obj]
  /\ pc' = IF ds THEN "cstart2" ELSE "hand"
  /\ last' = "BeginCall" /\ UNCHANGED <<inp, k, c, mons, fs, held, out, nops, nwr, hist>>
\* the graph goes to the mapping stage (or the exception leaves gen_params); the reader's object lives on only under a deviation
EndCall ==
  /\ pc \in {"done", "hand", "rejected"}
  /\ LET res == IF pc = "rejected" THEN [rej |-> TRUE, g |-> EmptyG] ELSE [rej |-> FALSE, g |-> g] IN
     /\ out' = [valid |-> TRUE, f |-> fs[cur.src], ds |-> cur.ds, rej |-> res.rej, g |-> res.g]
     /\ hist' = Append(hist, [op |-> "call", src |-> cur.src, ds |-> cur.ds, f |-> fs[cur.src], rej |-> res.rej, g |-> GOut(res.g)])
  /\ held' = IF "keepsParsed" \in HDev THEN [held EXCEPT ![cur.src] = [has |-> TRUE, g |-> g]]            \* the same object: grown in place
             ELSE IF "keepsCopyByPath" \in HDev /\ ~held[cur.src].has THEN [held EXCEPT ![cur.src] = [has |-> TRUE, g |-> cur.obj]]
             ELSE held
  /\ pc' = "idle" /\ nops' = nops + 1 /\ cur' = NoCur /\ last' = "EndCall"
  /\ UNCHANGED <<inp, k, c, mons, g, aux, fs, nwr>>
\* the file at path p is written anew with other content (a script edits its sequence file between two runs)
Rewrite(p, f) ==
  /\ pc = "idle" /\ nops < MaxOps /\ nwr < MaxWrites /\ p # "S" /\ f \in Holds[p] /\ f # fs[p]
  /\ fs' = [fs EXCEPT ![p] = f]
  /\ held' = IF "keepsCopyByPath" \in HDev THEN held ELSE [held EXCEPT ![p] = NoHeld]
  /\ nops' = nops + 1 /\ nwr' = nwr + 1 /\ hist' = Append(hist, [op |-> "write", src |-> p, f |-> f])
  /\ last' = "Rewrite" /\ UNCHANGED <<inp, pc, k, c, mons, g, aux, out, cur>>
HNext == \/ \E s \in Srcs : \E ds \in Flags(s) : BeginCall(s, ds)
         \/ ((CStart \/ CStep) /\ UNCHANGED hvars)
         \/ EndCall
         \/ \E p \in Srcs, f \in 1..Len(Files) : Rewrite(p, f)
HSpec == HInit /\ [][HNext]_<<vars, hvars>>

\* ---- laws
\* every call returns what its source holds NOW, completed exactly once when -dsdna is given - in every process state
CallLaw == out.valid => [rej |-> out.rej, g |-> out.g] = ExpCall(Files[out.f], out.ds)
\* state carried between calls does not matter: the same content and flag give the same result at any two places of a history
Calls == {j \in DOMAIN hist : hist[j].op = "call"}
Repeatable == \A i, j \in Calls : (hist[i].f = hist[j].f /\ hist[i].ds = hist[j].ds) => (hist[i].rej = hist[j].rej /\ hist[i].g = hist[j].g)
\* a call reads its source, it never writes it
CallsOnlyRead == [][last' \in {"BeginCall", "CStart", "CStep", "EndCall"} => fs' = fs]_<<vars, hvars>>
\* C19 for the contents themselves (evaluated once)
ContentLaws == (nops = 0 /\ pc = "idle") => \A f \in 1..Len(Files) : CallIsCompletion(Files[f])
\* export: the contents once, every complete history that ends with a call (the driver counts what the histories exercise: the same
\* unchanged source completed twice, a call after a rejected call, a rewrite between two calls ... - none of the counts may be 0)
ASSUME PrintT(<<"FILES", ToJson(Files)>>)
HistExport == (nops = MaxOps /\ pc = "idle" /\ hist[Len(hist)].op = "call") => PrintT(<<"HIST", ToJson(hist)>>)
=============================================================================
