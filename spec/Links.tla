---------------------------- MODULE Links ----------------------------
(***************************************************************************)
(* C02 - links are applied exactly where their definition matches          *)
(* C10 - every residue-graph edge is realised by a bond or reported        *)
(*       (polyply/src/apply_links.py, graph_utils.py:find_missing_edges)   *)
(*                                                                         *)
(* A *case* c is one input of MapToMolecule + ApplyLinks:                  *)
(*   c.n       number of residues; residues are 1..c.n                     *)
(*   c.resid   Seq(Int)     residue id of every residue                    *)
(*   c.rattr   Seq(record)  residue-level attributes (always "resname",    *)
(*                          optionally labels such as gen_seq -label)      *)
(*   c.edges   Seq([a, b, lt])  residue graph, lt = linktype ("" = none)   *)
(*   c.blocks  record resname -> [atoms: Seq(attribute record),            *)
(*                inters: Seq([kind, atoms, par, ver, edge]) (, xedges)]   *)
(*   c.links   Seq(link) in definition order, link =                       *)
(*     [orders: Seq([kind, v]),                                            *)
(*      atoms:  Seq([oi, sel, rep, del])    oi = index into orders,        *)
(*              sel = attribute -> Seq(allowed values), rep = replace,     *)
(*              del = `replace atomname null`                              *)
(*      inters: Seq([kind, atoms, par, ver, edge]),                        *)
(*      xedges: Seq([a, b, lt]),      the [ edges ] section                *)
(*      nonedges: Seq([from, ord, sel]), patterns: Seq(Seq([a, sel]))      *)
(*      (, wide: attribute -> Seq(allowed values)   the link-wide lines    *)
(*         written directly under [ link ], e.g. resname "A|C")]           *)
(* An atom of the molecule is <<r, i>> (atom i of the block of residue r). *)
(* Everything is a sequence / record so that the same operators evaluate   *)
(* catalogue cases (MC_Links) and cases recorded from the real code (JSON).*)
(*                                                                         *)
(* P-layer: PStep / PEnd / PInts - the declarative rule the user relies on.  *)
(* I-layer: BeginLink / TryMatch / EndLink / WriteBack / FindMissing - the *)
(* steps of ApplyLinks.run_molecule with the iteration order of the        *)
(* matches of one link left nondeterministic, the in-place updates         *)
(* (replace, edges) and the applied_links dictionary.                      *)
(***************************************************************************)
EXTENDS Integers, Sequences, FiniteSets, TLC, SequencesExt

CONSTANTS Cases,           \* set of cases explored by the model
          DevMono,         \* deviation: monomorphism instead of induced residue match          (mutant m04)
          DevNoOrder,      \* deviation: relative order check dropped                          (m05)
          DevNoLinktype,   \* deviation: edge labels ignored                                   (m06)
          DevFirstWins,    \* deviation: first definition of (atoms, version) wins             (m07)
          DevAmbig,        \* deviation: ambiguous atom selection accepted (first atom taken)  (m08)
          DevNoNonEdge,    \* deviation: [ non-edges ] veto removed                            (m09)
          DevNoPattern,    \* deviation: [ patterns ] veto removed
          DevKeepRemoved,  \* deviation: interactions touching removed atoms are written       (m03)
          DevF13,          \* deviation (finding F13, repaired): residue attributes missing on the atoms of the first residue
          DevVerKey,       \* deviation (finding F17, repaired): WriteBack also drops every interaction whose VERSION number equals the node key of a removed atom
          DevDangEnd,      \* deviation: a dangling interaction is also expected in windows that stick out of the chain end
          DevRepBeforePattern, \* deviation (independent seed2-C02-1): replace / removal is carried out before the pattern veto and not rolled back
          DevLastOfName,   \* deviation (independent seed4-C02-1): a link atom with one plain atom name is looked up in a name -> atom table that keeps only the LAST atom of a repeated name
          DevNoAtomResname,\* deviation (independent seed C02-2): the residue name is not compared when the atoms of a link are looked up
          DevNonEdgeNoWide,\* deviation (independent seed6-C02-2): the partner atom of a [ non-edges ] entry is described without the link-wide attribute lines
          DevNonEdgeNoResname, \* deviation (same blind spot): the residue name of the partner atom of a [ non-edges ] entry is not compared at all
          DevOrderedPairs, \* deviation (independent seed C10-2): joined residue pairs are collected and looked up as ORDERED pairs
          DevGateOnce,     \* deviation (independent seed2-C10-1): the gate skips molecules whose (always empty) graph name was already seen
          DevGateStopsAtIgnored, \* deviation (independent seed5-C10-2): the gate pass ends at the first ignored molecule instead of skipping it
          DevSkipSameItp,  \* deviation (independent seed5-C10-1): residue pairs with the same from_itp value are never examined
          DevGateBuildOnly,\* deviation (independent seed3-C10-2): the gate runs after the coordinate files and skips molecules without a residue to build
          DevMissingCache, \* deviation (independent seed3-C10-1): the candidate atoms of find_connecting_edges are remembered from the first evaluation
          DevMissingBeforeExplicit, \* deviation (independent seed7-C10-2): the missing links are collected before the links given by atom number are applied
          DevDegree        \* deviation (C10): degree filter of find_connecting_edges compares the wrong way (m12)

VARIABLES case, st
vars == <<case, st>>

(* ------------------------------------------------------------------ *)
(* orders (vermouth.processors.do_links.match_order)                   *)
(* ------------------------------------------------------------------ *)
O(k, v) == [kind |-> k, v |-> v]          \* kind "num" (0, +n, -n) | "gl" (> series positive, < series negative) | "star"
Sgn(x) == IF x > 0 THEN 1 ELSE IF x < 0 THEN -1 ELSE 0
MatchOrder(o1, r1, o2, r2) ==
  IF o1.kind = "num" THEN
       IF o2.kind = "num" THEN (o2.v - o1.v) = (r2 - r1)
       ELSE IF o1.v = 0 THEN (IF o2.kind = "gl" THEN Sgn(r2 - r1) = Sgn(o2.v) ELSE r1 # r2)
       ELSE TRUE
  ELSE IF o1.kind = "gl" THEN
       IF o2.kind = "num" THEN (o2.v = 0 => Sgn(r1 - r2) = Sgn(o1.v))
       ELSE IF o2.kind = "gl" THEN Sgn(r2 - r1) = Sgn(o2.v - o1.v)
       ELSE TRUE
  ELSE \* star
       IF o2.kind = "num" THEN (o2.v = 0 => r1 # r2)
       ELSE IF o2.kind = "star" THEN (o1.v = o2.v) <=> (r1 = r2)
       ELSE TRUE

(* ------------------------------------------------------------------ *)
(* attributes                                                          *)
(* ------------------------------------------------------------------ *)
InSeq(v, s) == \E j \in DOMAIN s : s[j] = v
SelOK(attrs, sel) == \A k \in DOMAIN sel : k \in DOMAIN attrs /\ InSeq(attrs[k], sel[k])
Overlay(base, top) == [k \in (DOMAIN base) \cup (DOMAIN top) |-> IF k \in DOMAIN top THEN top[k] ELSE base[k]]
AtLess(x, y) == x[1] < y[1] \/ (x[1] = y[1] /\ x[2] < y[2])

(* ------------------------------------------------------------------ *)
(* the molecule made of disconnected block copies (MapToMolecule)      *)
(* ------------------------------------------------------------------ *)
Rs(c) == 1..c.n
BlockOf(c, r) == c.blocks[c.rattr[r].resname]
NAt(c, r) == Len(BlockOf(c, r).atoms)
AtomsOf(c, r) == {<<r, i>> : i \in 1..NAt(c, r)}
Atoms(c) == UNION {AtomsOf(c, r) : r \in Rs(c)}
MolAttr0(c, at) == BlockOf(c, at[1]).atoms[at[2]]            \* node attributes of molecule.nodes
\* node attributes of meta_molecule.nodes[r]["graph"]; atoms of .itp blocks also carry their position in the block as attribute "index"
\* (only the links made from dangling .itp interactions ever ask for it: it tells atoms of equal name and type apart)
FragAttr(c, at) == LET f == Overlay(MolAttr0(c, at), c.rattr[at[1]]) IN IF "index" \in DOMAIN f THEN f ELSE Overlay(f, [index |-> ToString(at[2])])
FirstRes(c) == CHOOSE r \in Rs(c) : \A s \in Rs(c) : c.resid[r] <= c.resid[s]
EdgePairs(x) == IF x.edge THEN { {x.atoms[j], x.atoms[j + 1]} : j \in 1..(Len(x.atoms) - 1) } ELSE {}
\* edges of a block: consecutive atoms of its edge-making interactions, plus (for blocks projected from real objects) explicit ones
BlockEdgesOf(c, r) == (UNION { { {<<r, a>> : a \in p} : p \in EdgePairs(BlockOf(c, r).inters[q]) } : q \in DOMAIN BlockOf(c, r).inters })
                      \cup (IF "xedges" \in DOMAIN BlockOf(c, r) THEN { {<<r, BlockOf(c, r).xedges[j][1]>>, <<r, BlockOf(c, r).xedges[j][2]>>} : j \in DOMAIN BlockOf(c, r).xedges } ELSE {})
\* a multi-residue block (residues labelled from_itp) also brings interactions and edges BETWEEN its residues: c.fints (optional)
FInts(c) == IF "fints" \in DOMAIN c THEN { [kind |-> c.fints[q].kind, atoms |-> c.fints[q].atoms, ver |-> c.fints[q].ver, par |-> c.fints[q].par, li |-> 0] : q \in DOMAIN c.fints } ELSE {}
FEdges(c) == IF "fints" \in DOMAIN c THEN UNION { { {c.fints[q].atoms[j], c.fints[q].atoms[j + 1]} : j \in 1..(Len(c.fints[q].atoms) - 1) } : q \in DOMAIN c.fints } ELSE {}
BlockEdges(c) == (UNION {BlockEdgesOf(c, r) : r \in Rs(c)}) \cup FEdges(c)
BlockInts(c) == FInts(c) \cup UNION { { [kind |-> BlockOf(c, r).inters[q].kind, atoms |-> [j \in DOMAIN BlockOf(c, r).inters[q].atoms |-> <<r, BlockOf(c, r).inters[q].atoms[j]>>],
                           ver |-> BlockOf(c, r).inters[q].ver, par |-> BlockOf(c, r).inters[q].par, li |-> 0] : q \in DOMAIN BlockOf(c, r).inters } : r \in Rs(c) }

(* ------------------------------------------------------------------ *)
(* residue graph and the residue pattern of a link                     *)
(* ------------------------------------------------------------------ *)
REdge(c, x, y) == \E j \in DOMAIN c.edges : {c.edges[j].a, c.edges[j].b} = {x, y}
RLab(c, x, y) == c.edges[CHOOSE j \in DOMAIN c.edges : {c.edges[j].a, c.edges[j].b} = {x, y}].lt
NOrd(l) == Len(l.orders)
AtomsOfOrd(l, oi) == {a \in DOMAIN l.atoms : l.atoms[a].oi = oi}
\* link-wide attribute lines (`resname "A|C"` directly under [ link ]) describe EVERY atom the link mentions: the atoms of its interactions,
\* of [ atoms ] and [ edges ], and the partner atom a [ non-edges ] entry describes; an attribute written on the atom itself takes precedence.
\* ASel / NESel = the full description of link atom a / of the partner of non-edge q.  (Links projected from parsed force fields carry no
\* `wide`: the parser has already resolved it.)
HasWide(l) == "wide" \in DOMAIN l
ASel(l, a) == IF HasWide(l) THEN Overlay(l.wide, l.atoms[a].sel) ELSE l.atoms[a].sel
NESelW(l, q, nowide) == IF HasWide(l) /\ ~nowide THEN Overlay(l.wide, l.nonedges[q].sel) ELSE l.nonedges[q].sel
NESel(l, q) == NESelW(l, q, FALSE)
\* the same link with the link-wide lines written out on every atom and non-edge partner (law WideIsShorthand, MC_Links)
Resolved(l) == IF ~HasWide(l) THEN l ELSE
   [orders |-> l.orders, atoms |-> [a \in DOMAIN l.atoms |-> [l.atoms[a] EXCEPT !.sel = ASel(l, a)]], inters |-> l.inters, xedges |-> l.xedges,
    nonedges |-> [q \in DOMAIN l.nonedges |-> [l.nonedges[q] EXCEPT !.sel = NESel(l, q)]], patterns |-> l.patterns]
XPairs(l) == { {l.xedges[j].a, l.xedges[j].b} : j \in DOMAIN l.xedges }
LinkEdges(l) == (UNION {EdgePairs(l.inters[q]) : q \in DOMAIN l.inters}) \cup XPairs(l)      \* 2-sets of link atom indices
XLab(l, p) == IF p \in XPairs(l) THEN l.xedges[CHOOSE j \in DOMAIN l.xedges : {l.xedges[j].a, l.xedges[j].b} = p].lt ELSE ""
PairsBetween(l, i, j) == { p \in LinkEdges(l) : {l.atoms[a].oi : a \in p} = {i, j} }
PEdge(l, i, j) == PairsBetween(l, i, j) # {}
\* the label of a pattern edge is the linktype common to ALL atom edges between the two orders
PLab(l, i, j) == LET labs == { XLab(l, p) : p \in PairsBetween(l, i, j) } IN IF Cardinality(labs) = 1 THEN CHOOSE x \in labs : TRUE ELSE ""
\* a residue-level residue name exists only if all atoms of the order carry the same resname predicate
HasCommonRn(l, oi) == /\ \A a \in AtomsOfOrd(l, oi) : "resname" \in DOMAIN ASel(l, a)
                      /\ \A a, b \in AtomsOfOrd(l, oi) : ASel(l, a).resname = ASel(l, b).resname
CommonRn(l, oi) == ASel(l, CHOOSE a \in AtomsOfOrd(l, oi) : TRUE).resname
LinkResnames(l) == UNION { IF "resname" \in DOMAIN ASel(l, a) THEN ToSet(ASel(l, a).resname) ELSE {} : a \in DOMAIN l.atoms }
Maps(c, l) == [1..NOrd(l) -> Rs(c)]
\* links none of whose atoms names a residue of the molecule are skipped before any matching
Prefilter(c, l) == \E r \in Rs(c) : c.rattr[r].resname \in LinkResnames(l)

Injective(l, phi) == \A i, j \in 1..NOrd(l) : i # j => phi[i] # phi[j]
Induced(c, l, phi) == \A i, j \in 1..NOrd(l) : i < j => (PEdge(l, i, j) <=> REdge(c, phi[i], phi[j]))
Mono(c, l, phi) == \A i, j \in 1..NOrd(l) : i < j => (PEdge(l, i, j) => REdge(c, phi[i], phi[j]))
LabelsOK(c, l, phi) == \A i, j \in 1..NOrd(l) : (i < j /\ PEdge(l, i, j) /\ REdge(c, phi[i], phi[j])) => PLab(l, i, j) = RLab(c, phi[i], phi[j])
ResNamesOK(c, l, phi) == \A i \in 1..NOrd(l) : HasCommonRn(l, i) => InSeq(c.rattr[phi[i]].resname, CommonRn(l, i))
OrderOK(c, l, phi) == \A i, j \in 1..NOrd(l) : i # j => MatchOrder(l.orders[i], c.resid[phi[i]], l.orders[j], c.resid[phi[j]])
\* the residue-level match: what the user calls "residues connected as in the link's residue pattern, with matching names and labels"
ResMatch(c, l, phi) == Injective(l, phi) /\ Induced(c, l, phi) /\ LabelsOK(c, l, phi) /\ ResNamesOK(c, l, phi)
\* all residue-level matches of a link.  (Evaluation note: the pattern of the link and the adjacency of the residue graph are tabulated
\* once - TLCEval - and the definitions above are applied through the tables; ResMatchesAgree states that this is the same set.)
PatTable(l) == TLCEval([edge |-> { p \in (1..NOrd(l)) \X (1..NOrd(l)) : p[1] < p[2] /\ PEdge(l, p[1], p[2]) },
                        lab |-> [p \in { q \in (1..NOrd(l)) \X (1..NOrd(l)) : q[1] < q[2] /\ PEdge(l, q[1], q[2]) } |-> PLab(l, p[1], p[2])],
                        rn |-> [i \in 1..NOrd(l) |-> IF HasCommonRn(l, i) THEN CommonRn(l, i) ELSE <<>>]])
ResTable(c) == TLCEval([p \in Rs(c) \X Rs(c) |-> IF REdge(c, p[1], p[2]) THEN <<RLab(c, p[1], p[2])>> ELSE <<>>])
ResMatches(c, l, mono, nolabel) ==
  LET pt == PatTable(l)
      rt == ResTable(c)
      k == NOrd(l)
  IN { phi \in Maps(c, l) :
         /\ \A i, j \in 1..k : i < j =>
               /\ phi[i] # phi[j]
               /\ IF <<i, j>> \in pt.edge THEN rt[<<phi[i], phi[j]>>] # <<>> /\ (nolabel \/ rt[<<phi[i], phi[j]>>][1] = pt.lab[<<i, j>>])
                                         ELSE mono \/ rt[<<phi[i], phi[j]>>] = <<>>
         /\ \A i \in 1..k : pt.rn[i] # <<>> => InSeq(c.rattr[phi[i]].resname, pt.rn[i]) }
ResMatchesAgree(c) == \A q \in DOMAIN c.links : ResMatches(c, c.links[q], FALSE, FALSE) = { m \in Maps(c, c.links[q]) : ResMatch(c, c.links[q], m) }

(* ------------------------------------------------------------------ *)
(* atom selection                                                      *)
(* ------------------------------------------------------------------ *)
\* atoms of residue phi[order of a] whose attributes satisfy everything link atom a asks for (order, charge group, replace, resid aside)
SelSetW(c, l, phi, a, f13) == LET r == phi[l.atoms[a].oi] IN
   { i \in 1..NAt(c, r) : SelOK(IF f13 /\ r = FirstRes(c) THEN MolAttr0(c, <<r, i>>) ELSE FragAttr(c, <<r, i>>), ASel(l, a)) }
SelSet(c, l, phi, a) == SelSetW(c, l, phi, a, FALSE)
\* "every link atom identifies exactly one atom"
AtomsOK(c, l, phi) == \A a \in DOMAIN l.atoms : Cardinality(SelSet(c, l, phi, a)) = 1
NoAtom == <<0, 0>>
\* image vector: link atom -> selected atom (NoAtom where the selection is not unique); TLCEval forces the function once
ImgVec(c, l, phi) == TLCEval([a \in DOMAIN l.atoms |-> LET S == SelSet(c, l, phi, a) IN
                                 IF Cardinality(S) = 1 THEN <<phi[l.atoms[a].oi], CHOOSE i \in S : TRUE>> ELSE NoAtom])

\* a view = what the vetoes are evaluated on: atom-level edges and molecule node attributes at that moment
\* a [ non-edges ] entry vetoes the link iff the atom `from` has an edge to an atom of the residue `ord` further that fits the FULL
\* description of the partner (its own attributes and the link-wide ones).  nowide / norn: the deviations DevNonEdgeNoWide / DevNonEdgeNoResname
NonEdgeOKW(c, l, V, iv, nowide, norn) == \A q \in DOMAIN l.nonedges :
   LET ne == l.nonedges[q]  f == iv[ne.from]
       full == NESelW(l, q, nowide)
       sel == IF norn /\ "resname" \in DOMAIN full THEN [k \in (DOMAIN full) \ {"resname"} |-> full[k]] ELSE full IN
     ~ \E nb \in Atoms(c) : {f, nb} \in V.edges /\ c.resid[nb[1]] = c.resid[f[1]] + ne.ord /\ SelOK(V.attr[nb], sel)
NonEdgeOK(c, l, V, iv) == NonEdgeOKW(c, l, V, iv, FALSE, FALSE)
PatternOK(c, l, V, iv) == Len(l.patterns) = 0 \/
   \E q \in DOMAIN l.patterns : \A j \in DOMAIN l.patterns[q] : SelOK(V.attr[iv[l.patterns[q][j].a]], l.patterns[q][j].sel)

(* effects of one applied (link, phi), as functions of the image vector *)
EdgeImg(l, iv) == { {iv[a] : a \in p} : p \in LinkEdges(l) }
IntImg(l, k, iv) == { [kind |-> l.inters[q].kind, atoms |-> [j \in DOMAIN l.inters[q].atoms |-> iv[l.inters[q].atoms[j]]],
                       ver |-> l.inters[q].ver, par |-> l.inters[q].par, li |-> k] : q \in DOMAIN l.inters }
DelImg(l, iv) == { iv[a] : a \in {b \in DOMAIN l.atoms : l.atoms[b].del} }
RepAtoms(l) == {b \in DOMAIN l.atoms : ~l.atoms[b].del /\ DOMAIN l.atoms[b].rep # {}}
RepImg(l, iv) == { <<iv[b], l.atoms[b].rep>> : b \in RepAtoms(l) }
ApplyReps(c, attr, reps) == TLCEval([at \in Atoms(c) |-> IF \E rp \in reps : rp[1] = at THEN Overlay(attr[at], (CHOOSE rp \in reps : rp[1] = at)[2]) ELSE attr[at]])
Key(x) == <<x.kind, x.atoms, x.ver>>
Touches(x, S) == \E j \in DOMAIN x.atoms : x.atoms[j] \in S
\* node key of an atom in molecule.nodes: blocks are appended in residue-id order, keys count from 0
NodeKey(c, at) == Cardinality(UNION {AtomsOf(c, r) : r \in {q \in Rs(c) : c.resid[q] < c.resid[at[1]]}}) + at[2] - 1
\* what the write-back loop drops; verkey = the loop tests the members of the dictionary key (atoms..., version) instead of the atoms
Dropped(c, x, rm, verkey) == Touches(x, rm) \/ (verkey /\ x.ver \in {NodeKey(c, at) : at \in rm})

(* ------------------------------------------------------------------ *)
(* P-layer                                                             *)
(* ------------------------------------------------------------------ *)
Outcome(c, l, phi, iv, V) ==
   IF ~OrderOK(c, l, phi) THEN "order"
   ELSE IF \E a \in DOMAIN iv : iv[a] = NoAtom THEN "atoms"
   ELSE IF ~NonEdgeOK(c, l, V, iv) THEN "nonedge"
   ELSE IF ~PatternOK(c, l, V, iv) THEN "pattern"
   ELSE "applied"
\* (l, phi) applies on view V: the statement of C02
Applies(c, l, phi, V) == ResMatch(c, l, phi) /\ Outcome(c, l, phi, ImgVec(c, l, phi), V) = "applied"

V0(c) == [edges |-> BlockEdges(c), attr |-> TLCEval([at \in Atoms(c) |-> MolAttr0(c, at)])]
\* links are considered in definition order; all matches of one link are judged on the molecule as the earlier links left it
PStep(c, acc, k) ==
  LET l  == c.links[k]
      J  == { LET iv == ImgVec(c, l, phi) IN [phi |-> phi, iv |-> iv, out |-> Outcome(c, l, phi, iv, acc.V)] : phi \in ResMatches(c, l, FALSE, FALSE) }
      A  == { j \in J : j.out = "applied" }
      V2 == [edges |-> acc.V.edges \cup UNION { EdgeImg(l, j.iv) : j \in A },
             attr  |-> ApplyReps(c, acc.V.attr, UNION { RepImg(l, j.iv) : j \in A })]
  IN [V |-> V2,
      app |-> acc.app \cup { [li |-> k, phi |-> j.phi, iv |-> j.iv] : j \in A },
      \* the attempts: every residue-level match of a link that names at least one residue name of the molecule
      calls |-> acc.calls \cup { [li |-> k, phi |-> j.phi, out |-> j.out] : j \in IF Prefilter(c, l) THEN J ELSE {} },
      \* domain: the link's own effects do not change the outcome of its own vetoes (else the order of its matches would matter)
      stable |-> acc.stable /\ \A j \in J : Outcome(c, l, j.phi, j.iv, V2) = j.out]
\* fold over the links in definition order (FoldLeft iterates; a recursive definition overflows TLC's stack on force fields with > 50 links)
PEnd(c) == FoldLeft(LAMBDA acc, k : PStep(c, acc, k), [V |-> V0(c), app |-> {}, calls |-> {}, stable |-> TRUE], [k \in 1..Len(c.links) |-> k])

\* atoms removed by `replace atomname null` of an applicable link
PRemoved(c, app) == UNION { DelImg(c.links[x.li], x.iv) : x \in app }
AllLinkInts(c, app) == UNION { IntImg(c.links[x.li], x.li, x.iv) : x \in app }
\* for each (kind, atoms, version) the interaction of the applicable (link, phi) with the largest definition index; block interactions
\* (index 0) survive where no link defines the same key; interactions touching a removed atom disappear with it
PIntsW(c, app, verkey) == LET all == BlockInts(c) \cup AllLinkInts(c, app)
                              rm  == PRemoved(c, app)
                          IN { x \in all : (\A y \in all : Key(y) = Key(x) => y.li <= x.li) /\ ~Dropped(c, x, rm, verkey) }
PInts(c, app) == PIntsW(c, app, FALSE)
StripLi(S) == { [kind |-> x.kind, atoms |-> x.atoms, ver |-> x.ver, par |-> x.par] : x \in S }
Final(c, V, ints, rm, calls) ==
  [ints |-> StripLi(ints),
   edges |-> { e \in V.edges : e \cap rm = {} },
   attr |-> [at \in Atoms(c) \ rm |-> V.attr[at]],
   removed |-> rm,
   calls |-> calls]
\* links given by atom number ([ link ] with [ molmeta ] by_atom_id true): c.xlinks (optional) = Seq([kind, nums, par, ver]).  Number k is the
\* k-th atom of the molecule (node key k - 1, removed atoms keep their number).  They are applied regardless of any check AFTER all other
\* links, wherever they stand in the force field: the interaction is added and consecutive atoms become joined by an edge.
HasX(c) == "xlinks" \in DOMAIN c /\ Len(c.xlinks) > 0
AtomOfNum(c, k) == CHOOSE at \in Atoms(c) : NodeKey(c, at) = k - 1
XInts(c) == IF "xlinks" \in DOMAIN c
            THEN { [kind |-> c.xlinks[q].kind, atoms |-> [j \in DOMAIN c.xlinks[q].nums |-> AtomOfNum(c, c.xlinks[q].nums[j])], ver |-> c.xlinks[q].ver, par |-> c.xlinks[q].par] : q \in DOMAIN c.xlinks }
            ELSE {}
XEdges(c) == UNION { { {x.atoms[j], x.atoms[j + 1]} : j \in 1..(Len(x.atoms) - 1) } : x \in XInts(c) }
WithExplicit(c, f) == IF HasX(c) THEN [f EXCEPT !.ints = @ \cup XInts(c), !.edges = @ \cup XEdges(c)] ELSE f
PFinalE(c, e) == WithExplicit(c, Final(c, e.V, PInts(c, e.app), PRemoved(c, e.app), e.calls))
PFinal(c) == PFinalE(c, PEnd(c))

\* no two definitions of the same key at the same definition index with different parameters, no two different replacements
\* of one atom by one link, two link atoms never select the same atom (DESIGN §3: ties are not generated)
NoTiesE(c, e) == LET all == AllLinkInts(c, e.app)
                 IN /\ \A x, y \in all : (Key(x) = Key(y) /\ x.li = y.li) => x.par = y.par
                    /\ \A x \in e.app : \A a, b \in DOMAIN x.iv : a # b => x.iv[a] # x.iv[b]
                    /\ \A x, y \in e.app : x.li = y.li =>
                          \A rp \in RepImg(c.links[x.li], x.iv), rq \in RepImg(c.links[y.li], y.iv) : rp[1] = rq[1] => rp[2] = rq[2]
                    \* a link given by atom number names atoms that are still there and does not redefine an interaction on the same atoms
                    /\ \A x \in XInts(c) : /\ ~Touches(x, PRemoved(c, e.app))
                                           /\ \A y \in BlockInts(c) \cup all \cup XInts(c) : (y.kind = x.kind /\ y.atoms = x.atoms) => (y = x)
NoTies(c) == NoTiesE(c, PEnd(c))
Stable(c) == PEnd(c).stable
\* stated domain: every link names a residue on at least one of its atoms (a link without any residue name is skipped before matching;
\* with one, Applies implies Prefilter: that atom can only select an atom of a residue it names)
InDomain(c) == /\ \A k \in DOMAIN c.links : \E a \in DOMAIN c.links[k].atoms : "resname" \in DOMAIN ASel(c.links[k], a)
               \* a link given by atom number names atoms of the molecule, consecutive ones different
               /\ "xlinks" \in DOMAIN c => \A q \in DOMAIN c.xlinks : LET nm == c.xlinks[q].nums IN
                     /\ \A j \in DOMAIN nm : nm[j] \in 1..Cardinality(Atoms(c))
                     /\ \A j \in 1..(Len(nm) - 1) : nm[j] # nm[j + 1]

(* ---- C10, P-layer: residue edges without any atom-level edge between the two residues *)
AtomEdgeBetween(E, x, y) == \E e \in E : {at[1] : at \in e} = {x, y}
Missing(c, E) == { {c.edges[j].a, c.edges[j].b} : j \in {q \in DOMAIN c.edges : ~AtomEdgeBetween(E, c.edges[q].a, c.edges[q].b)} }
\* residue graph seen by a reader of the generated molecule: residues joined where an atom edge joins them
RECURSIVE Reach(_, _, _)
Reach(S, E, k) == IF k = 0 THEN S ELSE Reach(S \cup {y \in UNION E : \E e \in E : y \in e /\ e \cap S # {}}, E, k - 1)
ResConnected(c, E, rm) == LET live == {r \in Rs(c) : AtomsOf(c, r) \ rm # {}}
                              RE == { {at[1] : at \in e} : e \in {f \in E : Cardinality({at[1] : at \in f}) = 2} }
                          IN live = {} \/ (LET r0 == CHOOSE r \in live : TRUE IN Reach({r0}, RE, c.n) \cap live = live)

(* ---- C10, the gate of gen_coords: quantified over EVERY molecule of the topology, whatever coordinates are supplied *)
\* mols = Seq([conn, rn]): the expanded [ molecules ] list; conn = the residue graph of the molecule is connected, rn = its residue names.
\* co = [kind, k, res]: kind "none" | "c" (-c, atom coordinates) | "mc" (-mc, one position per residue); k = number of residues the file
\* covers (consumed in topology order by residues not named in res); res = residue names given to -res (rebuilt, consume nothing).
\* What add_positions_from_file makes of it, residue by residue: flags <<build, backmap>>
RECURSIVE CoordFlags(_, _, _, _, _)
CoordFlags(mols, co, m, r, used) ==
  IF m > Len(mols) THEN <<>>
  ELSE IF r > Len(mols[m].rn) THEN CoordFlags(mols, co, m + 1, 1, used)
  ELSE IF co.kind = "none" \/ InSeq(mols[m].rn[r], co.res) \/ used >= co.k
       THEN <<[m |-> m, build |-> TRUE, backmap |-> TRUE]>> \o CoordFlags(mols, co, m, r + 1, used)
  ELSE IF co.kind = "mc" THEN <<[m |-> m, build |-> FALSE, backmap |-> TRUE]>> \o CoordFlags(mols, co, m, r + 1, used + 1)
  ELSE <<[m |-> m, build |-> FALSE, backmap |-> FALSE]>> \o CoordFlags(mols, co, m, r + 1, used + 1)
\* gen_coords generates something for molecule m: a residue position (build) or atom positions (backmap)
Generated(fl, m) == \E j \in DOMAIN fl : fl[j].m = m /\ (fl[j].build \/ fl[j].backmap)
\* molecules named in -ign (co.ign) are not built at all: they are taken from the coordinates as they are
Ignored(mols, co, m) == "ign" \in DOMAIN co /\ InSeq(mols[m].name, co.ign)
\* the clause of C10: a molecule for which anything is generated must be refused if its atoms are not all connected ...
\* (wherever the molecule stands in the [ molecules ] list, before or after ignored ones)
GateMustRefuse(mols, co) == LET fl == CoordFlags(mols, co, 1, 1, 0) IN \E m \in DOMAIN mols : ~mols[m].conn /\ Generated(fl, m) /\ ~Ignored(mols, co, m)
\* ... and a topology of connected molecules must pass; a disconnected molecule that is completely supplied by -c is taken as it is,
\* the statement says nothing about it (the code refuses it as well; not asserted)
GateMustPass(mols) == \A m \in DOMAIN mols : mols[m].conn
\* _check_molecules: one pass over the molecule list, IOError at the first disconnected one, BEFORE any coordinate file is read.
\* DevGateOnce: a set of names already checked (the name read is networkx' Graph.name, "" for every molecule) skips the rest.
\* DevGateBuildOnly: the pass runs after the coordinate files and skips molecules in which no residue is flagged build.
RECURSIVE GateLoop(_, _, _, _, _)
GateLoop(mols, fl, ign, i, checked) ==
  IF i > Len(mols) THEN FALSE
  ELSE IF DevGateStopsAtIgnored /\ InSeq(mols[i].name, ign) THEN FALSE        \* `return` where `continue` was meant
  ELSE IF DevGateOnce /\ "" \in checked THEN GateLoop(mols, fl, ign, i + 1, checked)
  ELSE IF DevGateBuildOnly /\ ~(\E j \in DOMAIN fl : fl[j].m = i /\ fl[j].build) THEN GateLoop(mols, fl, ign, i + 1, checked)
  ELSE IF ~mols[i].conn THEN TRUE
  ELSE GateLoop(mols, fl, ign, i + 1, checked \cup {""})
IGateRefuses(mols, co) == GateLoop(mols, CoordFlags(mols, co, 1, 1, 0), IF "ign" \in DOMAIN co THEN co.ign ELSE <<>>, 1, {})
GateOK(mols, co) == /\ GateMustRefuse(mols, co) => IGateRefuses(mols, co)
                    /\ GateMustPass(mols) => ~IGateRefuses(mols, co)

(* ------------------------------------------------------------------ *)
(* dangling interactions of a monomer .itp (polyply_parser.py)         *)
(* ------------------------------------------------------------------ *)
\* b.dang = Seq([kind, idx, par]): interactions of the block that refer to atom indices (0-based) beyond the block, in file order.
\* They are DEFINED as links: order = index div natoms, atom = index mod natoms with all attributes of that block atom;
\* consecutive entries on identical atoms form one link and get versions n..1, any other repeat is a separate, later link.
RECURSIVE DangGroups(_, _)
DangGroups(d, from) == IF from > Len(d) THEN <<>>
                       ELSE LET upto == CHOOSE e \in from..Len(d) : /\ \A j \in from..e : d[j].idx = d[from].idx
                                                                     /\ (e = Len(d) \/ d[e + 1].idx # d[from].idx)
                            IN <<[lo |-> from, hi |-> upto]>> \o DangGroups(d, upto + 1)
ItpLink(b, grp) ==
  LET n == Len(b.atoms)
      idx == b.dang[grp.lo].idx
      gl == SetToSortSeq({idx[j] : j \in DOMAIN idx}, <)                \* distinct referenced global indices
      os == SetToSortSeq({idx[j] \div n : j \in DOMAIN idx}, <)         \* orders that occur
      posOf(x) == CHOOSE p \in DOMAIN gl : gl[p] = x
  IN [orders |-> [p \in DOMAIN os |-> O("num", os[p])],
      atoms |-> [p \in DOMAIN gl |-> [oi |-> CHOOSE q \in DOMAIN os : os[q] = gl[p] \div n,
                                       sel |-> Overlay([k \in DOMAIN b.atoms[(gl[p] % n) + 1] |-> <<b.atoms[(gl[p] % n) + 1][k]>>], [index |-> <<ToString((gl[p] % n) + 1)>>]),
                                       rep |-> <<>>, del |-> FALSE]],
      inters |-> [j \in 1..(grp.hi - grp.lo + 1) |-> [kind |-> b.dang[grp.lo + j - 1].kind, atoms |-> [q \in DOMAIN idx |-> posOf(idx[q])],
                                                     par |-> b.dang[grp.lo + j - 1].par, ver |-> (grp.hi - grp.lo + 1) - j + 1, edge |-> TRUE]],
      xedges |-> <<>>, nonedges |-> <<>>, patterns |-> <<>>]
ItpLinksOf(b) == LET gs == DangGroups(b.dang, 1) IN [g \in DOMAIN gs |-> ItpLink(b, gs[g])]
\* "present for every window that fits inside the chain, absent at its end": on a linear chain of L copies of block b with residue ids
\* 1..L the link-made interactions are exactly the images of every dangling entry at every start residue s with s + (highest order) <= L
\* (entries whose orders are contiguous 0..k; for identical (kind, atoms, version) the entry of the later link counts)
DangContiguous(b) == \A j \in DOMAIN b.dang : LET n == Len(b.atoms)  os == {b.dang[j].idx[q] \div n : q \in DOMAIN b.dang[j].idx} IN
                        /\ os = 0..(CHOOSE m \in os : \A x \in os : x <= m)
                        /\ \A q \in 1..(Len(b.dang[j].idx) - 1) : (b.dang[j].idx[q] \div n) - (b.dang[j].idx[q + 1] \div n) \in {-1, 0, 1}
Windows(b, L) ==
  LET n == Len(b.atoms)
      gs == DangGroups(b.dang, 1)
      ent == UNION { { [g |-> g, kind |-> b.dang[j].kind, idx |-> b.dang[j].idx, par |-> b.dang[j].par, ver |-> gs[g].hi - j + 1] : j \in gs[g].lo..gs[g].hi } : g \in DOMAIN gs }
      win == { e \in ent : \A f \in ent : (f.kind = e.kind /\ f.idx = e.idx /\ f.ver = e.ver) => f.g <= e.g }
      top(e) == CHOOSE m \in {e.idx[q] \div n : q \in DOMAIN e.idx} : \A q \in DOMAIN e.idx : e.idx[q] \div n <= m
  IN UNION { { [kind |-> e.kind, atoms |-> [q \in DOMAIN e.idx |-> <<s + (e.idx[q] \div n), (e.idx[q] % n) + 1>>], ver |-> e.ver, par |-> e.par] : s \in 1..(IF DevDangEnd THEN L ELSE L - top(e)) } : e \in win }

(* ------------------------------------------------------------------ *)
(* I-layer: ApplyLinks.run_molecule step by step                       *)
(* ------------------------------------------------------------------ *)
\* GraphMatcher(meta_molecule, res_link, node_match=_res_match, edge_match=_linktype_match).subgraph_isomorphisms_iter()
GMMatches(c, l) == ResMatches(c, l, DevMono, DevNoLinktype)
DropKey(f, k) == [x \in (DOMAIN f) \ {k} |-> f[x]]
LastOfName(c, r, nm) == { i \in 1..NAt(c, r) : MolAttr0(c, <<r, i>>).atomname = nm /\ \A j \in (i + 1)..NAt(c, r) : MolAttr0(c, <<r, j>>).atomname # nm }
ISelSet(c, l, phi, a) == IF DevLastOfName /\ "atomname" \in DOMAIN ASel(l, a) /\ Len(ASel(l, a).atomname) = 1
   THEN LET r == phi[l.atoms[a].oi] IN { i \in LastOfName(c, r, ASel(l, a).atomname[1]) : SelOK(FragAttr(c, <<r, i>>), ASel(l, a)) }
   ELSE IF DevNoAtomResname
   THEN LET r == phi[l.atoms[a].oi] IN { i \in 1..NAt(c, r) : SelOK(FragAttr(c, <<r, i>>), DropKey(ASel(l, a), "resname")) }
   ELSE SelSetW(c, l, phi, a, DevF13)
IMin(S) == CHOOSE i \in S : \A j \in S : i <= j
\* match_link_and_residue_atoms: exactly one atom per link atom (with DevAmbig: the first of several)
IImgVec(c, l, phi) == TLCEval([a \in DOMAIN l.atoms |-> LET S == ISelSet(c, l, phi, a) IN
                                 IF Cardinality(S) = 1 \/ (DevAmbig /\ S # {}) THEN <<phi[l.atoms[a].oi], IMin(S)>> ELSE NoAtom])
IOutcome(c, l, phi, iv, V) ==
   IF ~(DevNoOrder \/ OrderOK(c, l, phi)) THEN "order"
   ELSE IF \E a \in DOMAIN iv : iv[a] = NoAtom THEN "atoms"
   ELSE IF ~(DevNoNonEdge \/ NonEdgeOKW(c, l, V, iv, DevNonEdgeNoWide, DevNonEdgeNoResname)) THEN "nonedge"
   ELSE IF ~(DevNoPattern \/ PatternOK(c, l, V, iv)) THEN "pattern"
   ELSE "applied"
\* self.applied_links[inter_type][(*atoms, version)] = ...
DictPut(D, new) == IF DevFirstWins THEN D \cup { x \in new : \A y \in D : Key(y) # Key(x) }
                   ELSE { x \in D : \A y \in new : Key(y) # Key(x) } \cup new

St0(c) == [pc |-> "missing0", missing0 |-> {}, li |-> 1, todo |-> {}, V |-> V0(c), dict |-> BlockInts(c), rm |-> {},
           calls |-> {}, final |-> <<>>, missing |-> {}]
Init == case \in Cases /\ st = St0(case)

BeginLink == /\ st.pc = "begin"
             /\ st' = [st EXCEPT !.pc = "match",
                                 !.todo = IF Prefilter(case, case.links[st.li]) THEN GMMatches(case, case.links[st.li]) ELSE {}]
             /\ UNCHANGED case
TryMatch(phi) ==
  /\ st.pc = "match" /\ phi \in st.todo
  /\ LET l == case.links[st.li]
         iv == IImgVec(case, l, phi)
         out == IOutcome(case, l, phi, iv, st.V)
     IN st' = IF out = "pattern" /\ DevRepBeforePattern
              THEN [st EXCEPT !.todo = @ \ {phi}, !.calls = @ \cup {[li |-> st.li, phi |-> phi, out |-> out]},
                              !.rm = @ \cup DelImg(l, iv), !.V = [edges |-> @.edges, attr |-> ApplyReps(case, @.attr, RepImg(l, iv))]]
              ELSE IF out # "applied"
              THEN [st EXCEPT !.todo = @ \ {phi}, !.calls = @ \cup {[li |-> st.li, phi |-> phi, out |-> out]}]
              ELSE [st EXCEPT !.todo = @ \ {phi}, !.calls = @ \cup {[li |-> st.li, phi |-> phi, out |-> out]},
                              !.rm = @ \cup DelImg(l, iv),                                            \* scheduled for removal
                              !.V = [edges |-> @.edges \cup EdgeImg(l, iv),                            \* edges are added in place
                                     attr |-> ApplyReps(case, @.attr, RepImg(l, iv))],                 \* replace is applied in place
                              !.dict = DictPut(@, IntImg(l, st.li, iv))]
  /\ UNCHANGED case
EndLink == /\ st.pc = "match" /\ st.todo = {}
           /\ st' = [st EXCEPT !.li = @ + 1, !.pc = IF st.li = Len(case.links) THEN "write" ELSE "begin"]
           /\ UNCHANGED case
\* remove scheduled nodes, write the dictionary back skipping interactions that touch them
WriteBack == /\ st.pc = "write"
             /\ st' = [st EXCEPT !.pc = IF HasX(case) THEN "explicit" ELSE "missing",
                                 !.final = Final(case, st.V, { x \in st.dict : DevKeepRemoved \/ ~Dropped(case, x, st.rm, DevVerKey) }, st.rm, st.calls)]
             /\ UNCHANGED case
\* find_missing_edges: candidate atoms are those whose degree in their fragment graph differs from their degree in the molecule;
\* fragment graphs hold no edges except the one of the first residue, which is a copy of its block
FragDeg(c, at, rm) == IF at[1] = FirstRes(c) /\ "from_itp" \notin DOMAIN c.rattr[at[1]] THEN Cardinality({e \in BlockEdgesOf(c, at[1]) : at \in e /\ e \cap rm = {}}) ELSE 0
MolDeg(E, at) == Cardinality({e \in E : at \in e})
AllowedAtoms(c, E, rm, r) == { at \in AtomsOf(c, r) \ rm : IF DevDegree THEN FragDeg(c, at, rm) > MolDeg(E, at) ELSE FragDeg(c, at, rm) # MolDeg(E, at) }
\* Ec, rmc: the molecule the candidate atoms are taken from - the current one; with DevMissingCache the one of the first evaluation
IMissingC(c, E, rm, Ec, rmc) ==
  LET \* DevOrderedPairs: pairs stored as (residue of the atom inserted first, residue of the other) - atoms are inserted in residue-id
      \* order - and looked up as (smaller node key, larger node key) - residue nodes are inserted in node-key order
      linked == { p \in Rs(c) \X Rs(c) : \E x \in AtomsOf(c, p[1]), y \in AtomsOf(c, p[2]) : {x, y} \in E /\ NodeKey(c, x) < NodeKey(c, y) }
  IN IF DevOrderedPairs
     THEN { {c.edges[j].a, c.edges[j].b} : j \in {q \in DOMAIN c.edges : <<c.edges[q].a, c.edges[q].b>> \notin linked} }
     ELSE { {c.edges[j].a, c.edges[j].b} : j \in {q \in DOMAIN c.edges :
              /\ ~ \E x \in AllowedAtoms(c, Ec, rmc, c.edges[q].a), y \in AllowedAtoms(c, Ec, rmc, c.edges[q].b) : {x, y} \in E
              \* every residue edge is examined, whatever attributes its residues carry; DevSkipSameItp: pairs from the same itp are not
              /\ ~(DevSkipSameItp /\ "from_itp" \in DOMAIN c.rattr[c.edges[q].a] /\ "from_itp" \in DOMAIN c.rattr[c.edges[q].b]
                                  /\ c.rattr[c.edges[q].a].from_itp = c.rattr[c.edges[q].b].from_itp)} }
IMissing(c, E, rm) == IMissingC(c, E, rm, E, rm)
\* the last loop of run_molecule: links given by atom number are applied regardless of any check, after everything else was written;
\* the molecule is finished only now.  DevMissingBeforeExplicit: the missing links are collected in front of this loop and reported later
ApplyExplicit == /\ st.pc = "explicit"
                 /\ st' = [st EXCEPT !.pc = "missing", !.final = WithExplicit(case, @),
                                     !.missing = IF DevMissingBeforeExplicit THEN IMissing(case, st.final.edges, st.final.removed) ELSE @]
                 /\ UNCHANGED case
\* the missing links may be asked for at any time: here once on the freshly mapped molecule (before any link) ...
FindMissing0 == /\ st.pc = "missing0"
                /\ st' = [st EXCEPT !.pc = IF Len(case.links) = 0 THEN "write" ELSE "begin", !.missing0 = IMissing(case, st.V.edges, {})]
                /\ UNCHANGED case
FindMissing == /\ st.pc = "missing"
               \* ... and once after link application, on the same residue graph: the answer is a function of the current molecule only
               /\ st' = [st EXCEPT !.pc = "done",
                                   !.missing = IF DevMissingBeforeExplicit /\ HasX(case) THEN @ ELSE
                                               IF DevMissingCache THEN IMissingC(case, st.final.edges, st.final.removed, V0(case).edges, {})
                                               ELSE IMissing(case, st.final.edges, st.final.removed)]
               /\ UNCHANGED case
\* the order in which the matches of one link are tried is not under the code's control (GraphMatcher iteration order)
TryAny == \E phi \in st.todo : TryMatch(phi)
Next == FindMissing0 \/ BeginLink \/ TryAny \/ EndLink \/ WriteBack \/ ApplyExplicit \/ FindMissing
Spec == Init /\ [][Next]_vars

(* ---- I-layer |= P-layer *)
\* soundness and completeness of the final molecule, independent of the order in which the matches of a link were tried
FinalIsExpected == st.pc \in {"missing", "done"} => st.final = PFinal(case)
\* every attempt the code makes is a residue-level match, and its outcome is the declared one
CallsSound == st.pc = "write" => st.calls = PEnd(case).calls
\* exactly one of {atom edge, reported missing} per residue edge
MissingIsExpected == /\ st.pc = "done" => st.missing = Missing(case, st.final.edges)
                     /\ st.pc \notin {"missing0", "root", "chunk", "gate", "trace"} => st.missing0 = Missing(case, BlockEdges(case))
BondXorMissing == st.pc = "done" => \A j \in DOMAIN case.edges :
                     AtomEdgeBetween(st.final.edges, case.edges[j].a, case.edges[j].b) <=> ({case.edges[j].a, case.edges[j].b} \notin st.missing)

(* ---- lemmas *)
\* the comparison matrix is symmetric, so checking each unordered pair once (as _check_relative_order does) is enough
SomeOrders == { O("num", v) : v \in -2..3 } \cup { O("gl", v) : v \in {-2, -1, 1, 2} } \cup { O("star", v) : v \in 1..3 }
OrderSymmetric == \A o1, o2 \in SomeOrders : \A r1, r2 \in 1..4 : MatchOrder(o1, r1, o2, r2) = MatchOrder(o2, r2, o1, r1)
=============================================================================
