---------------------------- MODULE Templates ----------------------------
(***************************************************************************)
(* C15 - one template and size per distinct residue; user values win.      *)
(* (polyply/src/build_file_parser.py [ template ] / [ volumes ],           *)
(*  generate_templates.py GenerateTemplates, check_residue_equivalence.py) *)
(*                                                                         *)
(* I-layer: the steps of the code over its three tables                    *)
(*   vols  (topology.volumes: residue name or template key -> size),       *)
(*   tmpl  (templates: key -> vectors),  r2h (resnames_to_hash):           *)
(*   ParseVolume, ParseTemplate (end of a [ template ] section), Finalize  *)
(*   (end of the build file), Gen(m) (GenerateTemplates.run_molecule of    *)
(*   molecule m: tag every residue with its key, generate what is missing).*)
(* P-layer: what the user relies on in the final tables - every residue is *)
(* tagged with the key of its content, a key with a [ template ] entry     *)
(* holds exactly that entry's coordinates minus their centre of geometry,  *)
(* otherwise a generated template; the size of a key is the [ volumes ]    *)
(* value of the residue name whenever the build file gives one, otherwise  *)
(* a computed one.                                                         *)
(* Contents are abstract ids; Content[k] gives residue name, labelled      *)
(* graph and the lattice coordinates a user template for it would list.    *)
(* Domain (DESIGN section 3, no ties): the content determines the residue  *)
(* name, at most one [ template ] per content and one [ volumes ] line per *)
(* residue name.                                                           *)
(*                                                                         *)
(* Keys.  The key of a residue is computed at two places of the code: by   *)
(* the build-file parser when a [ template ] section ends (ParseKey) and   *)
(* when the residues of a molecule are annotated (TagKey, both the default *)
(* and the -skip_filter path).  The tables are indexed by the KEY SPACE;   *)
(* in the intended design both functions are the identity on the contents  *)
(* (KeySitesAgree), so the template the parser filed IS the template the   *)
(* residue is mapped to.  The P-layer is phrased over the key a residue    *)
(* actually carries (tag), never over the key the parser used.             *)
(*                                                                         *)
(* Processor memory.  GenerateTemplates owns ONE table for the whole       *)
(* system (self.templates), handed to every molecule; tmpl is that table.  *)
(* History variables make the sharing observable: ngen[h] counts how often *)
(* a template for key h was generated, held[m][h] is the version of the    *)
(* template molecule m refers to under key h (-1 none, 0 the user's, n the *)
(* n-th generated one), vver[h] the version the computed size of h was     *)
(* derived from.  Laws: GeneratedOnce, OneTemplatePerKey, SizeBelongs.     *)
(* nobld distinguishes "no build file at all" (no table attached to the    *)
(* molecules before generation) from an empty build file.                  *)
(***************************************************************************)
EXTENDS TemplatesLib

CONSTANTS Content,      \* key id -> [rn |-> resname, g |-> residue graph, u |-> <<lattice coordinates in the order of g.nm>>]
          Systems,      \* set of systems; a system is a sequence of molecules, a molecule a sequence of key ids (residues in node order)
          BuildFiles,   \* set of build files; a build file is a sequence of entries [e |-> "T" | "V", k |-> key id or "", rn |-> resname, v |-> size in 1/1000 nm]
          DevVolLost,        \* deviation (repaired finding F21 user-volume-lost-for-other-variant): r2h keeps one key per residue name and Finalize deletes vols[rn]
          DevVolOverwritten, \* deviation: generation ignores a user volume (mutant m43)
          DevUserRegen,      \* deviation: a user template is generated again
          DevRecentre,       \* deviation: user coordinates re-centred around another point (the first atom)
          DevKeySites,       \* deviation: the annotation site refines the key of a large residue, the parser site does not
          DevProcForgets,    \* deviation: GenerateTemplates remembers only the table of the molecule at hand
          LargeN,            \* number of atoms from which on a residue is "large" (matters with DevKeySites only)
          DevSkipVSWhenNothingToOptimise   \* deviation: the virtual sites are only constructed as part of a minimisation that has targets

VARIABLES sys, bld, nobld, pc, vols, tmpl, r2h, tag, ngen, held, vver
vars == <<sys, bld, nobld, pc, vols, tmpl, r2h, tag, ngen, held, vver>>

Keys == DOMAIN Content
Resnames == { Content[k].rn : k \in Keys }
\* ---- the key function at its two call sites
Large(k) == Content[k].g.n >= LargeN
Alt(k) == k \o "~"                                   \* the refined key of content k (exists with DevKeySites only)
AltKeys == IF DevKeySites THEN { Alt(k) : k \in { x \in Keys : Large(x) } } ELSE {}
KeySpace == Keys \cup AltKeys
Base(h) == IF h \in Keys THEN h ELSE CHOOSE k \in Keys : Alt(k) = h      \* the content a key stands for
ParseKey(k) == k                                                          \* build_file_parser: end of a [ template ] section
TagKey(k) == IF DevKeySites /\ Large(k) THEN Alt(k) ELSE k                \* group_residues_by_hash / _extract_template_graphs
RnOf(h) == Content[Base(h)].rn
Slots == KeySpace \cup Resnames
NoVal == [src |-> "none", v |-> 0]
UserVal(v) == [src |-> "user", v |-> v]
Computed == [src |-> "computed", v |-> 0]
NoTmpl == [src |-> "none", how |-> "-", vs |-> "-"]
\* ---- producing ONE template: start coordinates, Minimise (has work only if the residue has a bond, constraint, angle or improper of
\* its own: Content[k].bonded), ConstructVS (put every virtual site on its construction from the defining atoms).  ConstructVS is a
\* step of its own: it is enabled whether or not the minimisation had anything to do (a residue held together by [ settles ] or by
\* nothing but its virtual-site definitions still has its sites constructed).  vs: "none" no sites, "constructed", "initial" (sites
\* left on the start coordinates), "user" (template supplied by the user).
HasVS(h) == Content[Base(h)].hasvs
MinimiserHasWork(h) == Content[Base(h)].bonded
VSAfterMinimise(h) == IF ~HasVS(h) THEN "none" ELSE IF MinimiserHasWork(h) THEN "constructed" ELSE "initial"   \* (sites are renewed inside the minimisation)
ConstructVSEnabled(h) == ~(DevSkipVSWhenNothingToOptimise /\ ~MinimiserHasWork(h))
VSFinal(h) == IF HasVS(h) /\ ConstructVSEnabled(h) THEN "constructed" ELSE VSAfterMinimise(h)
GenTmpl(h) == [src |-> "generated", how |-> "cog", vs |-> VSFinal(h)]
NodesOf(s) == UNION { { <<m, i>> : i \in 1..Len(s[m]) } : m \in 1..Len(s) }
KeyAt(s, nd) == s[nd[1]][nd[2]]

NoHeld == [h \in KeySpace |-> -1]
\* the version of the template of key h in a table t: -1 none, 0 the user's, n the n-th generated one
VerIn(t, g, h) == IF t[h].src = "none" THEN -1 ELSE IF t[h].src = "user" THEN 0 ELSE g[h]
StartPc(s, b, nb) == IF nb THEN (IF Len(s) = 0 THEN [phase |-> "done", i |-> 1] ELSE [phase |-> "gen", i |-> 1])
                     ELSE [phase |-> IF Len(b) = 0 THEN "finalize" ELSE "parse", i |-> 1]
InitTables(s) == /\ vols = [x \in Slots |-> NoVal] /\ tmpl = [k \in KeySpace |-> NoTmpl] /\ r2h = [rn \in Resnames |-> {}]
                 /\ tag = [nd \in NodesOf(s) |-> "none"]
                 /\ ngen = [h \in KeySpace |-> 0] /\ vver = [h \in KeySpace |-> 0]
                 /\ held = [m \in 1..Len(s) |-> NoHeld]
Init == /\ sys \in Systems /\ bld \in BuildFiles
        /\ nobld \in (IF Len(bld) = 0 THEN BOOLEAN ELSE {FALSE})
        /\ pc = StartPc(sys, bld, nobld)
        /\ InitTables(sys)

AfterParse(i) == IF i = Len(bld) THEN [phase |-> "finalize", i |-> 1] ELSE [phase |-> "parse", i |-> i + 1]

\* a line of [ volumes ]
ParseVolume == /\ pc.phase = "parse" /\ bld[pc.i].e = "V"
               /\ vols' = [vols EXCEPT ![bld[pc.i].rn] = UserVal(bld[pc.i].v)]
               /\ pc' = AfterParse(pc.i)
               /\ UNCHANGED <<sys, bld, nobld, tmpl, r2h, tag, ngen, held, vver>>
\* the end of a [ template ] section: size from the template unless the key already has one, vectors from the centre of geometry
ParseTemplate == /\ pc.phase = "parse" /\ bld[pc.i].e = "T"
                 /\ LET k == ParseKey(bld[pc.i].k) rn == RnOf(k) IN
                      /\ vols' = IF vols[k].src = "none" THEN [vols EXCEPT ![k] = Computed] ELSE vols
                      /\ tmpl' = [tmpl EXCEPT ![k] = [src |-> "user", how |-> IF DevRecentre THEN "first" ELSE "cog", vs |-> "user"]]
                      /\ r2h' = [r2h EXCEPT ![rn] = IF DevVolLost THEN {k} ELSE @ \cup {k}]
                 /\ pc' = AfterParse(pc.i)
                 /\ UNCHANGED <<sys, bld, nobld, tag, ngen, held, vver>>
\* the end of the build file: sizes given by residue name are filed under the key of the user template(s) of that name;
\* the parser's table is attached to EVERY molecule (one object)
Finalize == /\ pc.phase = "finalize"
            /\ vols' = [s \in Slots |->
                          IF s \in KeySpace /\ s \in r2h[RnOf(s)] /\ vols[RnOf(s)].src # "none" THEN vols[RnOf(s)]
                          ELSE IF DevVolLost /\ s \in Resnames /\ r2h[s] # {} /\ vols[s].src # "none" THEN NoVal
                          ELSE vols[s]]
            /\ held' = [m \in 1..Len(sys) |-> [h \in KeySpace |-> VerIn(tmpl, ngen, h)]]
            /\ pc' = IF Len(sys) = 0 THEN [phase |-> "done", i |-> 1] ELSE [phase |-> "gen", i |-> 1]
            /\ UNCHANGED <<sys, bld, nobld, tmpl, r2h, tag, ngen, vver>>
\* GenerateTemplates.run_molecule(m): residues are tagged with their key; keys the PROCESSOR has no template for get a
\* generated one and a size.  The processor's table is one object: every molecule processed so far refers to it (and, after
\* a build file, so does every other molecule: the parser's table was merged into it).
\* DevProcForgets: the memory is the table attached to the molecule - shared after a build file, fresh without one.
Gen == /\ pc.phase = "gen"
       /\ LET m == pc.i
              ks == { TagKey(sys[m][i]) : i \in 1..Len(sys[m]) }
              private == DevProcForgets /\ nobld
              new == { k \in ks : private \/ tmpl[k].src = "none" \/ DevUserRegen }
              ng == [h \in KeySpace |-> IF h \in new THEN ngen[h] + 1 ELSE ngen[h]]
              tm == [k \in KeySpace |-> IF k \in new THEN GenTmpl(k) ELSE tmpl[k]]
              view == [h \in KeySpace |-> VerIn(tm, ng, h)]
          IN /\ tag' = [nd \in DOMAIN tag |-> IF nd[1] = m THEN TagKey(KeyAt(sys, nd)) ELSE tag[nd]]
             /\ tmpl' = tm
             /\ ngen' = ng
             /\ vols' = [s \in Slots |-> IF s \in new
                                         THEN (IF vols[RnOf(s)].src = "user" /\ ~DevVolOverwritten THEN vols[RnOf(s)] ELSE Computed)
                                         ELSE vols[s]]
             /\ vver' = [h \in KeySpace |-> IF h \in new THEN ng[h] ELSE vver[h]]
             /\ held' = IF private THEN [held EXCEPT ![m] = [h \in KeySpace |-> IF h \in ks THEN view[h] ELSE -1]]
                        ELSE [mm \in 1..Len(sys) |-> IF mm <= m \/ ~nobld THEN view ELSE held[mm]]
       /\ pc' = IF pc.i = Len(sys) THEN [phase |-> "done", i |-> 1] ELSE [phase |-> "gen", i |-> pc.i + 1]
       /\ UNCHANGED <<sys, bld, nobld, r2h>>

Next == ParseVolume \/ ParseTemplate \/ Finalize \/ Gen
Spec == Init /\ [][Next]_vars

(* ------------------------------------------------------------------ *)
(* P-layer                                                            *)
(* ------------------------------------------------------------------ *)
HasT(k) == \E i \in 1..Len(bld) : bld[i].e = "T" /\ bld[i].k = k
HasV(rn) == \E i \in 1..Len(bld) : bld[i].e = "V" /\ bld[i].rn = rn
VOf(rn) == bld[CHOOSE i \in 1..Len(bld) : bld[i].e = "V" /\ bld[i].rn = rn].v
UsedKeys == { KeyAt(sys, nd) : nd \in NodesOf(sys) }
Done == pc.phase = "done"

\* the key function: the key under which the parser files a supplied template is the key the residues are annotated with
KeySitesAgree == \A k \in Keys : ParseKey(k) = TagKey(k)
\* every residue carries a key, and two residues carry the same key exactly when they have the same content
Tagged == Done => /\ \A nd \in NodesOf(sys) : tag[nd] \in KeySpace /\ Base(tag[nd]) = KeyAt(sys, nd)
                  /\ \A n1, n2 \in NodesOf(sys) : (tag[n1] = tag[n2]) <=> (KeyAt(sys, n1) = KeyAt(sys, n2))
\* a template given in the build file is the template every residue of that content is MAPPED TO (through its own key),
\* anything else is generated
UserTemplateWins == Done => \A nd \in NodesOf(sys) : tmpl[tag[nd]].src = (IF HasT(KeyAt(sys, nd)) THEN "user" ELSE "generated")
\* a size given in the build file for the residue name is the size of every residue of that name, otherwise a computed size
UserVolumeWins == Done => \A nd \in NodesOf(sys) :
                     LET rn == Content[KeyAt(sys, nd)].rn IN vols[tag[nd]] = (IF HasV(rn) THEN UserVal(VOf(rn)) ELSE Computed)
\* the virtual sites of a generated template sit on their constructions, whatever else the residue consists of
VSConstructed == \A h \in KeySpace : tmpl[h].src = "generated" => tmpl[h].vs = (IF HasVS(h) THEN "constructed" ELSE "none")
\* ---- one template and size per key in the whole system
\* a template for a key is generated at most once per system
GeneratedOnce == \A h \in KeySpace : ngen[h] <= 1
\* residues of the same content, in whichever molecule, are backed by the same template (same version), and by one at all
OneTemplatePerKey == Done => \A n1, n2 \in NodesOf(sys) :
                        /\ held[n1[1]][tag[n1]] >= 0
                        /\ (KeyAt(sys, n1) = KeyAt(sys, n2)) => held[n1[1]][tag[n1]] = held[n2[1]][tag[n2]]
\* a computed size belongs to the template the residue is built from
SizeOK(nd) == vols[tag[nd]].src = "computed" => vver[tag[nd]] = held[nd[1]][tag[nd]]
SizeBelongs == Done => \A nd \in NodesOf(sys) : SizeOK(nd)
\* the stored user template is the user's coordinates minus their centre of geometry: zero centre, all difference vectors unchanged
\* (one atom at a time, the sum of the coordinates handed in: TLC re-evaluates a whole function value at every application)
StoredWith(k, S, i) == LET u == Content[Base(k)].u IN
                       IF tmpl[k].how = "cog" THEN RV(VSub(VScale(Len(u), u[i]), S), Len(u)) ELSE RV(VSub(u[i], u[1]), 1)
StoredAt(k, i) == StoredWith(k, VSumSeq(Content[Base(k)].u, Len(Content[Base(k)].u)), i)
Stored(k) == [i \in 1..Len(Content[Base(k)].u) |-> StoredAt(k, i)]
UserTemplateUnchanged ==
  \A k \in KeySpace : tmpl[k].src = "user" =>
    LET u == Content[Base(k)].u n == Len(u) S == VSumSeq(u, n) IN
      /\ VSumSeq([i \in 1..n |-> VScale(n \div StoredWith(k, S, i).den, StoredWith(k, S, i).num)], n) = Zero    \* centre of geometry zero (common denominator n)
      /\ \A i \in 1..n : \A j \in (i + 1)..n :                       \* (the equation of <<j, i>> is the negated one of <<i, j>>)
                             LET ti == StoredWith(k, S, i) tj == StoredWith(k, S, j) IN
                               VSub(VScale(tj.den, ti.num), VScale(ti.den, tj.num)) = VScale(ti.den * tj.den, VSub(u[i], u[j]))
\* once user data is in the tables nothing replaces it
UserSticks == [][ /\ \A k \in KeySpace : tmpl[k].src = "user" => tmpl'[k] = tmpl[k]
                  /\ \A k \in KeySpace : (vols[k].src = "user" /\ pc.phase = "gen") => vols'[k] = vols[k] ]_vars
\* the instance respects the stated domain
\* (residues too large for the enumeration of bijections are told apart by their canonical labelled graph: CanonLaw of TpGroup)
SameContent(x, y) == IF x.n <= 4 THEN Iso(x, y) ELSE Canon(x) = Canon(y)
DomainOK == /\ \A k1, k2 \in Keys : (k1 # k2) => ~SameContent(Content[k1].g, Content[k2].g)
            /\ \A k \in Keys : UniqueNames(Content[k].g) /\ Len(Content[k].u) = Content[k].g.n
            /\ \A k \in Keys : \A e \in Content[k].g.ed : e[1] < e[2] /\ e[2] <= Content[k].g.n
DomainOKOnce == (pc.i = 1 /\ pc.phase # "done" /\ tmpl = [k \in KeySpace |-> NoTmpl]) => DomainOK
=============================================================================
