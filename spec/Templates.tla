---------------------------- MODULE Templates ----------------------------
(***************************************************************************)
(* C15 - one template and size per distinct residue; user values win.      *)
(* (polyply/src/build_file_parser.py [ template ] / [ volumes ],           *)
(*  generate_templates.py GenerateTemplates, check_residue_equivalence.py) *)
(*                                                                         *)
(* I-layer: the steps of the code over its three tables                    *)
(*   vols  (topology.volumes: residue name or template key -> size),       *)
(*   tmpl  (templates: key -> vectors),  r2h (resnames_to_hash):           *)
(*   ParseVolume, ParseTemplate (end of a [ template ] section), Finalize  *)
(*   (end of the build file), Gen(m) (GenerateTemplates.run_molecule of    *)
(*   molecule m: tag every residue with its key, generate what is missing).*)
(* P-layer: what the user relies on in the final tables - every residue is *)
(* tagged with the key of its content, a key with a [ template ] entry     *)
(* holds exactly that entry's coordinates minus their centre of geometry,  *)
(* otherwise a generated template; the size of a key is the [ volumes ]    *)
(* value of the residue name whenever the build file gives one, otherwise  *)
(* a computed one.                                                         *)
(* Contents are abstract ids; Content[k] gives residue name, labelled      *)
(* graph and the lattice coordinates a user template for it would list.    *)
(* Domain (DESIGN section 3, no ties): the content determines the residue  *)
(* name, at most one [ template ] per content and one [ volumes ] line per *)
(* residue name.                                                           *)
(***************************************************************************)
EXTENDS TemplatesLib

CONSTANTS Content,      \* key id -> [rn |-> resname, g |-> residue graph, u |-> <<lattice coordinates in the order of g.nm>>]
          Systems,      \* set of systems; a system is a sequence of molecules, a molecule a sequence of key ids (residues in node order)
          BuildFiles,   \* set of build files; a build file is a sequence of entries [e |-> "T" | "V", k |-> key id or "", rn |-> resname, v |-> size in 1/1000 nm]
          DevVolLost,        \* deviation (repaired finding F21 user-volume-lost-for-other-variant): r2h keeps one key per residue name and Finalize deletes vols[rn]
          DevVolOverwritten, \* deviation: generation ignores a user volume (mutant m43)
          DevUserRegen,      \* deviation: a user template is generated again
          DevRecentre        \* deviation: user coordinates re-centred around another point (the first atom)

VARIABLES sys, bld, pc, vols, tmpl, r2h, tag
vars == <<sys, bld, pc, vols, tmpl, r2h, tag>>

Keys == DOMAIN Content
Resnames == { Content[k].rn : k \in Keys }
Slots == Keys \cup Resnames
NoVal == [src |-> "none", v |-> 0]
UserVal(v) == [src |-> "user", v |-> v]
Computed == [src |-> "computed", v |-> 0]
NoTmpl == [src |-> "none", how |-> "-"]
NodesOf(s) == UNION { { <<m, i>> : i \in 1..Len(s[m]) } : m \in 1..Len(s) }
KeyAt(s, nd) == s[nd[1]][nd[2]]

Init == /\ sys \in Systems /\ bld \in BuildFiles
        /\ pc = [phase |-> IF Len(bld) = 0 THEN "finalize" ELSE "parse", i |-> 1]
        /\ vols = [s \in Slots |-> NoVal] /\ tmpl = [k \in Keys |-> NoTmpl] /\ r2h = [rn \in Resnames |-> {}]
        /\ tag = [nd \in NodesOf(sys) |-> "none"]

AfterParse(i) == IF i = Len(bld) THEN [phase |-> "finalize", i |-> 1] ELSE [phase |-> "parse", i |-> i + 1]

\* a line of [ volumes ]
ParseVolume == /\ pc.phase = "parse" /\ bld[pc.i].e = "V"
               /\ vols' = [vols EXCEPT ![bld[pc.i].rn] = UserVal(bld[pc.i].v)]
               /\ pc' = AfterParse(pc.i)
               /\ UNCHANGED <<sys, bld, tmpl, r2h, tag>>
\* the end of a [ template ] section: size from the template unless the key already has one, vectors from the centre of geometry
ParseTemplate == /\ pc.phase = "parse" /\ bld[pc.i].e = "T"
                 /\ LET k == bld[pc.i].k rn == Content[k].rn IN
                      /\ vols' = IF vols[k].src = "none" THEN [vols EXCEPT ![k] = Computed] ELSE vols
                      /\ tmpl' = [tmpl EXCEPT ![k] = [src |-> "user", how |-> IF DevRecentre THEN "first" ELSE "cog"]]
                      /\ r2h' = [r2h EXCEPT ![rn] = IF DevVolLost THEN {k} ELSE @ \cup {k}]
                 /\ pc' = AfterParse(pc.i)
                 /\ UNCHANGED <<sys, bld, tag>>
\* the end of the build file: sizes given by residue name are filed under the key of the user template(s) of that name
Finalize == /\ pc.phase = "finalize"
            /\ vols' = [s \in Slots |->
                          IF s \in Keys /\ s \in r2h[Content[s].rn] /\ vols[Content[s].rn].src # "none" THEN vols[Content[s].rn]
                          ELSE IF DevVolLost /\ s \in Resnames /\ r2h[s] # {} /\ vols[s].src # "none" THEN NoVal
                          ELSE vols[s]]
            /\ pc' = IF Len(sys) = 0 THEN [phase |-> "done", i |-> 1] ELSE [phase |-> "gen", i |-> 1]
            /\ UNCHANGED <<sys, bld, tmpl, r2h, tag>>
\* GenerateTemplates.run_molecule(m): residues are tagged with their key; keys without template get a generated one and a size
Gen == /\ pc.phase = "gen"
       /\ LET m == pc.i
              ks == { sys[m][i] : i \in 1..Len(sys[m]) }
              new == { k \in ks : tmpl[k].src = "none" \/ DevUserRegen }
          IN /\ tag' = [nd \in DOMAIN tag |-> IF nd[1] = m THEN KeyAt(sys, nd) ELSE tag[nd]]
             /\ tmpl' = [k \in Keys |-> IF k \in new THEN [src |-> "generated", how |-> "cog"] ELSE tmpl[k]]
             /\ vols' = [s \in Slots |-> IF s \in new
                                         THEN (IF vols[Content[s].rn].src = "user" /\ ~DevVolOverwritten THEN vols[Content[s].rn] ELSE Computed)
                                         ELSE vols[s]]
       /\ pc' = IF pc.i = Len(sys) THEN [phase |-> "done", i |-> 1] ELSE [phase |-> "gen", i |-> pc.i + 1]
       /\ UNCHANGED <<sys, bld, r2h>>

Next == ParseVolume \/ ParseTemplate \/ Finalize \/ Gen
Spec == Init /\ [][Next]_vars

(* ------------------------------------------------------------------ *)
(* P-layer                                                            *)
(* ------------------------------------------------------------------ *)
HasT(k) == \E i \in 1..Len(bld) : bld[i].e = "T" /\ bld[i].k = k
HasV(rn) == \E i \in 1..Len(bld) : bld[i].e = "V" /\ bld[i].rn = rn
VOf(rn) == bld[CHOOSE i \in 1..Len(bld) : bld[i].e = "V" /\ bld[i].rn = rn].v
UsedKeys == { KeyAt(sys, nd) : nd \in NodesOf(sys) }
Done == pc.phase = "done"

\* every residue carries the key of its content: same content <=> same key (the keys of the model ARE the contents)
Tagged == Done => \A nd \in NodesOf(sys) : tag[nd] = KeyAt(sys, nd)
\* a template given in the build file is the template of that content, anything else is generated; exactly one per used key
UserTemplateWins == Done => \A k \in UsedKeys : tmpl[k].src = (IF HasT(k) THEN "user" ELSE "generated")
\* a size given in the build file for the residue name is the size of every residue of that name, otherwise a computed size
UserVolumeWins == Done => \A k \in UsedKeys : vols[k] = (IF HasV(Content[k].rn) THEN UserVal(VOf(Content[k].rn)) ELSE Computed)
\* the stored user template is the user's coordinates minus their centre of geometry: zero centre, all difference vectors unchanged
Stored(k) == IF tmpl[k].how = "cog" THEN Centred(Content[k].u)
             ELSE [i \in 1..Len(Content[k].u) |-> RV(VSub(Content[k].u[i], Content[k].u[1]), 1)]
UserTemplateUnchanged ==
  \A k \in Keys : tmpl[k].src = "user" =>
    LET t == Stored(k) u == Content[k].u n == Len(u) IN
      /\ VSumSeq([i \in 1..n |-> VScale(n \div t[i].den, t[i].num)], n) = Zero          \* centre of geometry zero (common denominator n)
      /\ \A i, j \in 1..n : VSub(VScale(t[j].den, t[i].num), VScale(t[i].den, t[j].num)) = VScale(t[i].den * t[j].den, VSub(u[i], u[j]))
\* once user data is in the tables nothing replaces it
UserSticks == [][ /\ \A k \in Keys : tmpl[k].src = "user" => tmpl'[k] = tmpl[k]
                  /\ \A k \in Keys : (vols[k].src = "user" /\ pc.phase = "gen") => vols'[k] = vols[k] ]_vars
\* the instance respects the stated domain
DomainOK == /\ \A k1, k2 \in Keys : (k1 # k2) => ~Iso(Content[k1].g, Content[k2].g)
            /\ \A k \in Keys : UniqueNames(Content[k].g) /\ Len(Content[k].u) = Content[k].g.n
DomainOKOnce == (pc.i = 1 /\ pc.phase \in {"parse", "finalize"} /\ tmpl = [k \in Keys |-> NoTmpl]) => DomainOK
=============================================================================
