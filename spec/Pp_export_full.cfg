SPECIFICATION XSpec
CONSTANTS
 Cases <- MCDeep
 MaxFail = 1
 DevItpBeforeLinks = FALSE
 DevGroBlockOrder = FALSE
 DevGateSkipped = FALSE
 DevJsonIdShift = FALSE
 DevContinueAfterFail = FALSE
INVARIANT ExportInv
CHECK_DEADLOCK FALSE
