SPECIFICATION Spec
CONSTANTS
 Inputs <- MCInputs
 Dev <- DevKeepRemoved
INVARIANT C01_Inv
CHECK_DEADLOCK FALSE
