---- MODULE Itp_Dev ----
(* instance wrapper for C11 (TLC evaluates zero-arity definitions eagerly: one module per instance) *)
EXTENDS ItpRoundTripExport
MCMols == TLCEval(MolsDev(0))
====
