INIT MCInitTiny
NEXT Next
CONSTANTS
 Inputs = {}
 LibOf <- MCLibOf
 Dev <- DevFirstOnly
 FreeOrder = TRUE
INVARIANT Conform
CHECK_DEADLOCK FALSE
