SPECIFICATION Spec
CONSTANTS
 Cases <- DihSmall
 TISet <- TI_quick
 DefSet <- Def_both
 MissSet <- Miss_both
 Stratified = TRUE
 DevOneDirection = FALSE
 DevNoReverse = FALSE
 DevFirstInstOnly = TRUE
 DevSpecOrder = FALSE
 DevDefineFirstOnly = FALSE
 DevPairsUntyped = FALSE
 DevTableMacrosKept = FALSE
 DevDefineLazyCond = FALSE
 DevDefineBlockDropped = FALSE
 DevDefineInactiveKept = FALSE
INVARIANT LookupAgrees
INVARIANT Conforms
CHECK_DEADLOCK FALSE
