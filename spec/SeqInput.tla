---------------------------- MODULE SeqInput ----------------------------
(***************************************************************************)
(* C12 / C19 - sequence inputs of polyply (simple_seq_parsers.py,          *)
(* gen_seq.py, gen_dna.py, meta_molecule.py, gen_itp.py).                  *)
(*                                                                         *)
(* P-layer: what a user relies on, written without reference to how the    *)
(* code computes it - Linear, Translate, Terminal, IgCircular, Expand      *)
(* (-seq NAME:n), BalancedTree (level by level, left to right),            *)
(* DisjointUnion of macro instances with Connect records, ModTer, Labels,  *)
(* JsonRoundTrip, Complement (Watson-Crick, antiparallel).                 *)
(* I-layer: the builders step by step - ReadLine/EndLines/Close for the    *)
(* file readers, AddMonomer for -seq, AddMacro/AddConnect/ModTer/Label/    *)
(* Write/ReadBack for gen_seq, CStart/CStep/CClose for dsDNA completion.   *)
(* TLC checks I-layer |= P-layer on every input of the instance.           *)
(*                                                                         *)
(* A residue graph is a record                                             *)
(*   [n, name : 1..n -> STRING, inst : 1..n -> Nat, lab : 1..n -> set of   *)
(*    <<key, value>>, edges : set of [a, b, l] with a < b]                 *)
(* i.e. graphs are identified by residue id; node keys are abstracted.     *)
(***************************************************************************)
EXTENDS Integers, Sequences, FiniteSets, TLC

CONSTANTS Dev       \* set of deviation names (empty = intended design)

VARIABLES inp,      \* the input being processed
          pc,       \* stage of the builder
          k, c,     \* loop counters (line / block / instance / record index; copies of a block)
          mons,     \* file readers: monomers read so far, records [b |-> base name, s |-> terminal suffix]
          g,        \* the residue graph built so far
          aux,      \* gen_seq: the JSON document written; dsDNA: [cur |-> residue, corr |-> orig -> new]
          last      \* label of the last action
vars == <<inp, pc, k, c, mons, g, aux, last>>

(* ------------------------------------------------------------------ *)
(* helpers                                                            *)
(* ------------------------------------------------------------------ *)
RECURSIVE SumF(_, _)
SumF(f, n) == IF n = 0 THEN 0 ELSE f[n] + SumF(f, n - 1)          \* f[1] + ... + f[n]
RECURSIVE Pow(_, _)
Pow(b, e) == IF e = 0 THEN 1 ELSE b * Pow(b, e - 1)
Largest(S) == CHOOSE x \in S : \A y \in S : y <= x
Edge(a, b, l) == IF a <= b THEN [a |-> a, b |-> b, l |-> l] ELSE [a |-> b, b |-> a, l |-> l]
HasEdge(E, a, b) == \E e \in E : e.a = a /\ e.b = b
LabelOf(E, a, b) == (CHOOSE e \in E : e.a = a /\ e.b = b).l
Deg(E, i) == Cardinality({e \in E : e.a = i \/ e.b = i})
EmptyG == [n |-> 0, name |-> <<>>, inst |-> <<>>, lab |-> <<>>, edges |-> {}]
Plain(names) == [n |-> Len(names), name |-> names, inst |-> [i \in 1..Len(names) |-> 0],
                 lab |-> [i \in 1..Len(names) |-> {}], edges |-> {}]
WellFormed(x) == /\ DOMAIN x.name = 1..x.n /\ DOMAIN x.inst = 1..x.n /\ DOMAIN x.lab = 1..x.n
                 /\ \A e \in x.edges : e.a \in 1..x.n /\ e.b \in 1..x.n /\ e.a < e.b
                 /\ Cardinality({<<e.a, e.b>> : e \in x.edges}) = Cardinality(x.edges)      \* one edge per pair of residues

(* ------------------------------------------------------------------ *)
(* P-layer: one-letter alphabets (transcribed from the documented      *)
(* alphabets), terminal naming, linear and circular sequences          *)
(* ------------------------------------------------------------------ *)
DNATable == [A |-> "DA", C |-> "DC", G |-> "DG", T |-> "DT"]
RNATable == [A |-> "A", C |-> "C", G |-> "G", T |-> "U"]
AATable  == [G |-> "GLY", A |-> "ALA", V |-> "VAL", C |-> "CYS", P |-> "PRO", L |-> "LEU", I |-> "ILE",
             M |-> "MET", W |-> "TRP", F |-> "PHE", S |-> "SER", T |-> "THR", Y |-> "TYR", N |-> "ASN",
             Q |-> "GLN", K |-> "LYS", R |-> "ARG", H |-> "HIS", D |-> "ASP", E |-> "GLU", O |-> "HYP"]
Table(kind) == CASE kind = "DNA" -> DNATable [] kind = "RNA" -> RNATable [] kind = "PROTEIN" -> AATable
Nucleotide(kind) == kind \in {"DNA", "RNA"}
Translate(kind, letters) == IF kind = "NAMES" THEN letters ELSE [i \in 1..Len(letters) |-> Table(kind)[letters[i]]]
\* 5' suffix on the first, 3' suffix on the last residue of a linear nucleotide strand
Terminal(kind, names) ==
  IF Nucleotide(kind)
  THEN [i \in 1..Len(names) |-> IF i = 1 THEN names[i] \o "5" ELSE IF i = Len(names) THEN names[i] \o "3" ELSE names[i]]
  ELSE names
Linear(names) == [Plain(names) EXCEPT !.edges = {Edge(i, i + 1, "") : i \in 1..(Len(names) - 1)}]
IgCircular(names) == [Linear(names) EXCEPT !.edges = @ \cup {Edge(1, Len(names), "circle")}]

\* which alphabet a .fasta / .ig file uses is said by its comment lines: the words DNA, RNA, PROTEIN, spelled exactly so, anywhere
\* in the text; other spellings ("internal", "ssdna", "Protein") say nothing.  hdr = the comment text as a sequence of characters.
HasWord(h, w) == \E x \in 1..(Len(h) - Len(w) + 1) : SubSeq(h, x, x + Len(w) - 1) = w
KwDNA == <<"D", "N", "A">>
KwRNA == <<"R", "N", "A">>
KwAA  == <<"P", "R", "O", "T", "E", "I", "N">>
HdrKinds(h) == {kw \in {"DNA", "RNA", "PROTEIN"} : HasWord(h, CASE kw = "DNA" -> KwDNA [] kw = "RNA" -> KwRNA [] kw = "PROTEIN" -> KwAA)}
\* domain of the check: exactly one of the three words occurs; the record's kind is then READ FROM THE HEADER, not believed
HdrKind(i) == IF "hdr" \in DOMAIN i /\ Cardinality(HdrKinds(i.hdr)) = 1 THEN CHOOSE kw \in HdrKinds(i.hdr) : TRUE ELSE i.kind
WithHdrKind(i) == IF "hdr" \in DOMAIN i THEN [i EXCEPT !.kind = HdrKind(i)] ELSE i

ExpFile(i) == IF i.circ THEN IgCircular(Translate(i.kind, i.toks))
                        ELSE Linear(Terminal(i.kind, Translate(i.kind, i.toks)))
\* the statement leaves the terminal name of a one-nucleotide strand open
FreeFile(i) == IF Nucleotide(i.kind) /\ ~i.circ /\ Len(i.toks) = 1 THEN {1} ELSE {}

(* -seq NAME:n NAME:n ... : block j contributes cnt_j residues named name_j, in order *)
BlockOff(blocks, j) == SumF([x \in 1..Len(blocks) |-> blocks[x].cnt], j - 1)
Expand(blocks) ==
  [r \in 1..BlockOff(blocks, Len(blocks) + 1) |->
     blocks[CHOOSE j \in 1..Len(blocks) : BlockOff(blocks, j) < r /\ r <= BlockOff(blocks, j) + blocks[j].cnt].name]
ExpSeqList(i) == Linear(Expand(i.blocks))

(* ------------------------------------------------------------------ *)
(* P-layer: gen_seq                                                    *)
(* ------------------------------------------------------------------ *)
\* balanced tree with `lev` generations and branching `br`, numbered level by level, left to right:
\* the q-th residue (from 0) of level l has number LevelOff(l) + q + 1; its children are the residues
\* br*q .. br*q + br - 1 of level l + 1
LevelOff(br, l) == SumF([m \in 1..l |-> Pow(br, m - 1)], l)
TreeSize(d) == LevelOff(d.br, d.lev)
BalancedTree(d) ==
  UNION { { <<LevelOff(d.br, l) + q + 1, LevelOff(d.br, l + 1) + d.br * q + ch + 1>> :
              q \in 0..(Pow(d.br, l) - 1), ch \in 0..(d.br - 1) } : l \in 0..(d.lev - 2) }

\* a macro taken from an itp file (-from_file): its residues in the order of the file, named as in the file, joined where the
\* file bonds them (bonds = pairs of positions 1..); the residue numbers used inside the itp file (resids) are irrelevant
MacroSize(d) == IF d.kind = "file" THEN Len(d.names) ELSE TreeSize(d)
MacroShape(d) == IF d.kind = "file" THEN {<<d.bonds[x][1], d.bonds[x][2]>> : x \in 1..Len(d.bonds)} ELSE BalancedTree(d)
MacroName(d, a) == IF d.kind = "file" THEN d.names[a] ELSE d.res          \* a-th residue (from 1) of the macro
DefOf(i, x) == i.defs[i.seq[x]]                       \* definition of the x-th instance (1-based)
\* instance x occupies the residues off[x]+1 .. off[x]+sz[x]; residue a (from 0) of instance s (from 0), as connect /
\* modification / label records name them, is residue off[s+1] + a + 1
GenLab(i, s) == { <<i.labels[x].key, i.labels[x].val>> :
                    x \in { z \in 1..Len(i.labels) : /\ i.labels[z].i = s
                                                       /\ ~\E y \in (z + 1)..Len(i.labels) :
                                                             i.labels[y].i = i.labels[z].i /\ i.labels[y].key = i.labels[z].key } }
ExpGenSeqFull(i) ==
  LET m == Len(i.seq)
      sz == [x \in 1..m |-> MacroSize(DefOf(i, x))]
      off == [x \in 1..(m + 1) |-> SumF(sz, x - 1)]
      N == off[m + 1]
      of == [r \in 1..N |-> CHOOSE x \in 1..m : off[x] < r /\ r <= off[x] + sz[x]]
      res(s, a) == off[s + 1] + a + 1
      E == (UNION { { Edge(off[x] + p[1], off[x] + p[2], "") : p \in MacroShape(DefOf(i, x)) } : x \in 1..m })
           \cup
           (UNION { { Edge(res(i.connects[x].i, i.connects[x].pairs[y][1]), res(i.connects[x].j, i.connects[x].pairs[y][2]), "")
                      : y \in 1..Len(i.connects[x].pairs) } : x \in 1..Len(i.connects) })
      deg == [r \in 1..N |-> Deg(E, r)]
      recs(r) == {x \in 1..Len(i.ends) : i.ends[x].i + 1 = of[r]}
      \* termini of an instance = its residues with exactly one neighbour in the whole molecule; the last record for an instance wins
      nm(r) == IF recs(r) # {} /\ deg[r] = 1 THEN i.ends[Largest(recs(r))].name ELSE MacroName(DefOf(i, of[r]), r - off[of[r]])
  IN [g |-> [n |-> N, name |-> [r \in 1..N |-> nm(r)], inst |-> [r \in 1..N |-> of[r] - 1],
             lab |-> [r \in 1..N |-> GenLab(i, of[r] - 1)], edges |-> E],
      \* a residue without any neighbour in an instance whose termini are renamed: "terminus" is not defined for it
      free |-> {r \in 1..N : recs(r) # {} /\ deg[r] = 0}]
ExpGenSeq(i) == ExpGenSeqFull(i).g

(* the JSON document: nodes keyed by id = residue id - 1, listed in any order; the reader numbers residues id + 1 *)
WriteJson(x) == [ids |-> [r \in 1..x.n |-> r - 1], name |-> x.name, inst |-> x.inst, lab |-> x.lab,
                 links |-> {[source |-> e.a - 1, target |-> e.b - 1, l |-> e.l] : e \in x.edges}]
ReadJson(d) == LET n == Len(d.ids)
                   at == [r \in 1..n |-> CHOOSE p \in 1..n : d.ids[p] = r - 1]      \* position of id r-1 in the file
               IN [n |-> n, name |-> [r \in 1..n |-> d.name[at[r]]], inst |-> [r \in 1..n |-> d.inst[at[r]]],
                   lab |-> [r \in 1..n |-> d.lab[at[r]]],
                   edges |-> {Edge(l.source + 1, l.target + 1, l.l) : l \in d.links}]
JsonRoundTrip(x) == ReadJson(WriteJson(x)) = x
\* hand-written .json: names by id, nodes listed in file order `order` (a permutation), links by id
JsonDoc(i) == [ids |-> [p \in 1..Len(i.order) |-> i.order[p] - 1], name |-> [p \in 1..Len(i.order) |-> i.names[i.order[p]]],
               inst |-> [p \in 1..Len(i.order) |-> 0], lab |-> [p \in 1..Len(i.order) |-> {}],
               links |-> {[source |-> i.links[x][1], target |-> i.links[x][2], l |-> ""] : x \in 1..Len(i.links)}]
ExpJson(i) == [Plain(i.names) EXCEPT !.edges = {Edge(i.links[x][1] + 1, i.links[x][2] + 1, "") : x \in 1..Len(i.links)}]

(* ------------------------------------------------------------------ *)
(* P-layer: dsDNA completion (C19)                                     *)
(* ------------------------------------------------------------------ *)
Bases == {"A", "C", "G", "T"}
WC == [A |-> "T", T |-> "A", G |-> "C", C |-> "G"]          \* Watson-Crick
SwapRole(r) == IF r = "5" THEN "3" ELSE IF r = "3" THEN "5" ELSE ""
Nts == [base : Bases, role : {"", "5", "3"}]
NtName(nt) == ("D" \o nt.base) \o nt.role
KnownDNA(name) == \E nt \in Nts : NtName(nt) = name
NtOf(name) == CHOOSE nt \in Nts : NtName(nt) = name
WCPair(name) == NtName([base |-> WC[NtOf(name).base], role |-> SwapRole(NtOf(name).role)])

Strand(i) == LET base == IF i.circ THEN IgCircular(i.names) ELSE Linear(i.names)
             IN IF i.tag = 0 THEN base
                ELSE [base EXCEPT !.edges = (@ \ {Edge(i.tag, i.tag + 1, "")}) \cup {Edge(i.tag, i.tag + 1, "x")}]
\* Completion is stated on residue ids (node keys do not occur): the strand that is completed is the one that ends at the
\* last residue N of the molecule x - the longest run f, f+1, ..., N of consecutively bonded residues (n = N - f + 1 residues).
\* Residue N+k is the pair of residue N+1-k; edge (N+k, N+k+1) carries the label of (N-k, N+1-k); the closing edge (f, N) of a
\* ring gives the closing edge (N+1, N+n); everything that was there stays as it is. For a single strand f = 1, N = n.
\* Residue ids are relative to the first residue id of the input (absolute id = inp.first - 1 + r).
LastStartDecl(x) == CHOOSE f \in 1..x.n : /\ \A r \in f..(x.n - 1) : HasEdge(x.edges, r, r + 1)
                                          /\ (f = 1 \/ ~HasEdge(x.edges, f - 1, f))
\* the same, cheap to evaluate on long strands (trace validation): one past the last residue not bonded to its successor
LastStart(x) == LET bonded == {e.a : e \in {h \in x.edges : h.b = h.a + 1}}
                    breaks == (1..(x.n - 1)) \ bonded
                IN IF breaks = {} THEN 1 ELSE Largest(breaks) + 1
Complement(x) ==
  LET N == x.n
      f == LastStart(x)
      n == N - f + 1
  IN [n |-> N + n,
      name |-> [r \in 1..(N + n) |-> IF r <= N THEN x.name[r] ELSE WCPair(x.name[2 * N + 1 - r])],
      inst |-> [r \in 1..(N + n) |-> IF r <= N THEN x.inst[r] ELSE 0],
      lab |-> [r \in 1..(N + n) |-> IF r <= N THEN x.lab[r] ELSE {}],
      edges |-> x.edges
                \cup {Edge(N + y, N + y + 1, LabelOf(x.edges, N - y, N + 1 - y)) : y \in 1..(n - 1)}
                \cup (IF n >= 3 /\ HasEdge(x.edges, f, N) THEN {Edge(N + 1, N + n, LabelOf(x.edges, f, N))} ELSE {})]
\* the same thing said differently (single strand): the second strand is the mirror image r -> 2n+1-r of the first
MirrorLaw(s) == Complement(s).edges = s.edges \cup {Edge(2 * s.n + 1 - e.b, 2 * s.n + 1 - e.a, e.l) : e \in s.edges}
\* residues lo..hi of x as a molecule of its own (renumbered from 1)
Sub(x, lo, hi) == [n |-> hi - lo + 1, name |-> [r \in 1..(hi - lo + 1) |-> x.name[lo - 1 + r]],
                   inst |-> [r \in 1..(hi - lo + 1) |-> x.inst[lo - 1 + r]], lab |-> [r \in 1..(hi - lo + 1) |-> x.lab[lo - 1 + r]],
                   edges |-> {Edge(e.a - lo + 1, e.b - lo + 1, e.l) : e \in {f \in x.edges : f.a >= lo /\ f.b <= hi}}]
SecondStrand(x) == Sub(x, x.n \div 2 + 1, x.n)
FirstStrand(x) == Sub(x, 1, x.n \div 2)
\* completing the added strand again recovers the first one: on a fresh copy of the added strand ...
Involution(s) == SecondStrand(Complement(SecondStrand(Complement(s)))) = s
\* ... and in place, on the molecule that already holds both strands (the third strand is a copy of the first)
InPlaceInvolution(s) == LET y == Complement(Complement(s)) IN
                        /\ y.n = 3 * s.n /\ Sub(y, 1, 2 * s.n) = Complement(s) /\ Sub(y, 2 * s.n + 1, 3 * s.n) = s
Disconnected(x) == ~\E e \in x.edges : e.a <= x.n \div 2 /\ e.b > x.n \div 2
Rejected(i) == \E r \in 1..Len(i.names) : ~KnownDNA(i.names[r])
ExpRounds(i, rounds) == IF rounds = 1 THEN Complement(Strand(i)) ELSE Complement(Complement(Strand(i)))
ExpDsDNA(i) == IF Rejected(i) THEN EmptyG ELSE ExpRounds(i, 1)

(* ------------------------------------------------------------------ *)
(* P-layer: the expected result of an input                            *)
(* ------------------------------------------------------------------ *)
Expected(i) == CASE i.fam = "file"    -> [rej |-> FALSE, g |-> ExpFile(i), free |-> FreeFile(i)]
                 [] i.fam = "seqlist" -> [rej |-> FALSE, g |-> ExpSeqList(i), free |-> {}]
                 [] i.fam = "genseq"  -> (LET x == ExpGenSeqFull(i) IN [rej |-> FALSE, g |-> x.g, free |-> x.free])
                 [] i.fam = "json"    -> [rej |-> FALSE, g |-> ExpJson(i), free |-> {}]
                 [] i.fam = "dsdna"   -> [rej |-> Rejected(i), g |-> ExpDsDNA(i), free |-> {}]     \* g: after the first completion
\* equality of residue graphs except for the names the statement leaves open
Matches(x, e) == /\ x.n = e.g.n /\ x.edges = e.g.edges /\ x.inst = e.g.inst /\ x.lab = e.g.lab
                 /\ \A r \in (1..x.n) \ e.free : x.name[r] = e.g.name[r]

(* ------------------------------------------------------------------ *)
(* I-layer: file readers (_parse_plain_delimited, _parse_plain,        *)
(* parse_fasta, parse_ig, _monomers_to_linear_nx_graph)                *)
(* ------------------------------------------------------------------ *)
NameOf(m) == m.b \o m.s
\* parse_ig strips the last character of the first and last name when closing a ring (removing the 5 / 3 suffix)
StripS == [x \in {"5", "3", "53"} |-> IF x = "53" THEN "5" ELSE ""]
Chop == [GLY |-> "GL", ALA |-> "AL", VAL |-> "VA", CYS |-> "CY", PRO |-> "PR", LEU |-> "LE", ILE |-> "IL", MET |-> "ME",
         TRP |-> "TR", PHE |-> "PH", SER |-> "SE", THR |-> "TH", TYR |-> "TY", ASN |-> "AS", GLN |-> "GL", LYS |-> "LY",
         ARG |-> "AR", HIS |-> "HI", ASP |-> "AS", GLU |-> "GL", HYP |-> "HY"]
Strip(m) == IF m.s # "" THEN [m EXCEPT !.s = StripS[m.s]]
            ELSE IF "CircStrip" \in Dev /\ m.b \in DOMAIN Chop THEN [m EXCEPT !.b = Chop[m.b]]   \* deviation: no suffix, a letter of the name is lost
            ELSE m
LineStart(i, x) == SumF(i.lines, x - 1)
MonsToGraph(ms) ==
  LET n == Len(ms)
      E == {Edge(x, x + 1, "") : x \in 1..(n - (IF "NoLastEdge" \in Dev /\ n > 2 THEN 2 ELSE 1))}
      \* deviation F2 (repaired): nodes exist only through edges, a single residue gives the empty graph
      nn == IF "F2" \in Dev /\ E = {} THEN 0 ELSE n
  IN [Plain([x \in 1..nn |-> NameOf(ms[x])]) EXCEPT !.edges = E]

\* parse_ig: the first line after the comments is the title; it is dropped whatever it is spelled with
\* (deviation TitleAsSeq: a title made of the letters A, C, G, T only is read as sequence)
ReadTitle ==
  /\ pc = "title"
  /\ mons' = IF "TitleAsSeq" \in Dev /\ \A x \in 1..Len(inp.title) : inp.title[x] \in {"A", "C", "G", "T"}
             THEN [x \in 1..Len(inp.title) |-> [b |-> Table(inp.kind)[inp.title[x]], s |-> ""]] ELSE <<>>
  /\ pc' = "lines" /\ last' = "ReadTitle" /\ UNCHANGED <<inp, k, c, g, aux>>
ReadLine ==
  /\ pc = "lines" /\ k <= Len(inp.lines)
  /\ LET toks == SubSeq(inp.toks, LineStart(inp, k) + 1, LineStart(inp, k) + inp.lines[k])
         tr(t) == IF inp.kind = "NAMES" THEN t
                  ELSE IF "TableTypo" \in Dev /\ inp.kind = "PROTEIN" /\ t = "Q" THEN "GLU" ELSE Table(inp.kind)[t]
     IN mons' = mons \o [x \in 1..Len(toks) |-> [b |-> tr(toks[x]), s |-> ""]]
  /\ k' = k + 1 /\ last' = "ReadLine" /\ UNCHANGED <<inp, pc, c, g, aux>>
EndLines ==
  /\ pc = "lines" /\ k = Len(inp.lines) + 1
  /\ LET n == Len(mons)
         m1 == IF Nucleotide(inp.kind) THEN [mons EXCEPT ![1].s = @ \o "5"] ELSE mons
         m2 == IF Nucleotide(inp.kind) THEN [m1 EXCEPT ![n].s = @ \o (IF "TermSwap" \in Dev THEN "5" ELSE "3")] ELSE m1
     IN /\ mons' = m2 /\ g' = MonsToGraph(m2)
  /\ pc' = IF inp.circ THEN "close" ELSE "done"
  /\ last' = "EndLines" /\ UNCHANGED <<inp, k, c, aux>>
Close ==
  /\ pc = "close"
  /\ LET n == g.n
         nm == [x \in 1..n |-> IF x = 1 \/ x = n THEN NameOf(Strip(mons[x])) ELSE g.name[x]]
     IN g' = [g EXCEPT !.name = nm,
                       !.edges = (@ \ {Edge(1, n, "")}) \cup {Edge(1, n, IF "NoCircLabel" \in Dev THEN "" ELSE "circle")}]
  /\ pc' = "done" /\ last' = "Close" /\ UNCHANGED <<inp, k, c, mons, aux>>

(* -seq: MetaMolecule.from_monomer_seq_linear, one add_monomer per residue *)
AddNode(x, nm, in, E) == [n |-> x.n + 1, name |-> Append(x.name, nm), inst |-> Append(x.inst, in),
                          lab |-> Append(x.lab, {}), edges |-> x.edges \cup E]
AddMonomer ==
  /\ pc = "blocks" /\ k <= Len(inp.blocks) /\ c < inp.blocks[k].cnt
  /\ g' = AddNode(g, inp.blocks[k].name, 0, IF g.n > 0 THEN {Edge(g.n, g.n + 1, "")} ELSE {})
  /\ c' = c + 1 /\ last' = "AddMonomer" /\ UNCHANGED <<inp, pc, k, mons, aux>>
NextBlock ==
  /\ pc = "blocks" /\ k <= Len(inp.blocks) /\ c = inp.blocks[k].cnt
  /\ k' = k + 1 /\ c' = 0 /\ pc' = IF k = Len(inp.blocks) THEN "done" ELSE "blocks"
  /\ last' = "NextBlock" /\ UNCHANGED <<inp, mons, g, aux>>

(* ------------------------------------------------------------------ *)
(* I-layer: gen_seq (generate_seq_graph, _add_edges,                   *)
(* _apply_termini_modifications, _tag_nodes, json dump, parse_json)    *)
(* ------------------------------------------------------------------ *)
\* networkx balanced_tree: residue ch > 1 hangs on residue (ch - 2) div br + 1
MacroEdges(d) ==
  IF d.kind = "file"
  THEN \* MacroFile.gen_graph: residue graph of the block, nodes in file order, resname only
       [size |-> Len(d.names),
        edges |-> IF "FileNoEdges" \in Dev THEN {} ELSE {<<d.bonds[x][1], d.bonds[x][2]>> : x \in 1..Len(d.bonds)}]
  ELSE LET lev == IF "TreeHeight" \in Dev THEN d.lev + 1 ELSE d.lev
           size == LevelOff(d.br, lev)
       IN [size |-> size,
           edges |-> {<<IF "TreePath" \in Dev THEN ch - 1 ELSE (ch - 2) \div d.br + 1, ch>> : ch \in 2..size}]
NodesOf(x, s) == LET idx == {r \in 1..x.n : x.inst[r] = s}      \* find_atoms(graph, "seqid", s), in node order
                 IN [p \in 1..Cardinality(idx) |-> CHOOSE r \in idx : Cardinality({q \in idx : q < r}) = p - 1]
\* idx_nodes[int(a)]  (deviation ConnOff: idx_nodes[int(a) - 1], Python's negative index wraps around)
Pick(x, s, a) == LET ns == NodesOf(x, s)
                     d == inp.defs[inp.seq[s + 1]]
                 IN IF "ConnOff" \in Dev THEN (IF a = 0 THEN ns[Len(ns)] ELSE ns[a])
                    \* deviation: for a file macro the index is taken for the residue number of the itp file
                    ELSE IF "FileConnByResid" \in Dev /\ d.kind = "file"
                         THEN (IF \E p \in 1..Len(d.resids) : d.resids[p] = a + 1
                               THEN ns[CHOOSE p \in 1..Len(d.resids) : d.resids[p] = a + 1] ELSE ns[Len(ns)])
                    ELSE ns[a + 1]
\* after the last macro instance: one _add_edges call per connect record, then one call of
\* _apply_termini_modifications and one of _tag_nodes (each loops over its records), then the JSON is written
AfterMacros(x) == IF x < Len(inp.seq) THEN [pc |-> "macros", k |-> x + 1]
                  ELSE IF Len(inp.connects) > 0 THEN [pc |-> "connects", k |-> 1] ELSE [pc |-> "ends", k |-> 1]
AddMacro ==
  /\ pc = "macros"
  /\ LET d == inp.defs[inp.seq[k]]
         m == MacroEdges(d)
         off == g.n
     IN g' = [n |-> off + m.size,
              name |-> g.name \o [x \in 1..m.size |-> MacroName(d, x)],
              inst |-> g.inst \o [x \in 1..m.size |-> k - 1],
              lab |-> g.lab \o [x \in 1..m.size |-> {}],
              edges |-> g.edges \cup {Edge(off + p[1], off + p[2], "") : p \in m.edges}]
  /\ pc' = AfterMacros(k).pc /\ k' = AfterMacros(k).k
  /\ last' = "AddMacro" /\ UNCHANGED <<inp, c, mons, aux>>
AddConnect ==
  /\ pc = "connects"
  /\ LET r == inp.connects[k]
         js == IF "ConnWrongInst" \in Dev THEN r.i ELSE r.j
     IN g' = [g EXCEPT !.edges = @ \cup {Edge(Pick(g, r.i, r.pairs[y][1]), Pick(g, js, r.pairs[y][2]), "") : y \in 1..Len(r.pairs)}]
  /\ IF k < Len(inp.connects) THEN pc' = pc /\ k' = k + 1 ELSE pc' = "ends" /\ k' = 1
  /\ last' = "AddConnect" /\ UNCHANGED <<inp, c, mons, aux>>
\* the terminal residues are determined once, then the records are applied in order
RECURSIVE ApplyEnds(_, _, _)
ApplyEnds(names, recs, ter) ==
  IF recs = <<>> THEN names
  ELSE ApplyEnds([x \in 1..Len(names) |-> IF x \in ter /\ g.inst[x] = Head(recs).i THEN Head(recs).name ELSE names[x]], Tail(recs), ter)
ModTer ==
  /\ pc = "ends"
  /\ LET ter == {x \in 1..g.n : Deg(g.edges, x) = (IF "TerDeg0" \in Dev THEN 0 ELSE 1)}
     IN g' = [g EXCEPT !.name = ApplyEnds(g.name, inp.ends, ter)]
  /\ pc' = "labels" /\ last' = "ModTer" /\ UNCHANGED <<inp, k, c, mons, aux>>
RECURSIVE ApplyLabels(_, _)
ApplyLabels(labs, recs) ==
  IF recs = <<>> THEN labs
  ELSE LET r == Head(recs)
           skip == IF "LabelSkipFirst" \in Dev THEN {y \in 1..g.n : g.inst[y] = r.i /\ \A z \in 1..g.n : g.inst[z] = r.i => y <= z} ELSE {}
       IN ApplyLabels([x \in 1..Len(labs) |-> IF g.inst[x] = r.i /\ x \notin skip
                                                THEN {p \in labs[x] : p[1] # r.key} \cup {<<r.key, r.val>>} ELSE labs[x]], Tail(recs))
Label ==
  /\ pc = "labels"
  /\ g' = [g EXCEPT !.lab = ApplyLabels(g.lab, inp.labels)]
  /\ pc' = "write" /\ last' = "Label" /\ UNCHANGED <<inp, k, c, mons, aux>>
Write ==
  /\ pc = "write"
  /\ aux' = WriteJson(g) /\ pc' = "read" /\ last' = "Write" /\ UNCHANGED <<inp, k, c, mons, g>>
ReadBack ==
  /\ pc = "read"
  /\ g' = ReadJson(IF "ReadDropsLabels" \in Dev THEN [aux EXCEPT !.lab = [x \in DOMAIN aux.lab |-> {}]] ELSE aux)
  /\ pc' = "done" /\ last' = "ReadBack" /\ UNCHANGED <<inp, k, c, mons, aux>>

(* ------------------------------------------------------------------ *)
(* I-layer: complement_dsDNA (walk from the last residue towards       *)
(* lower residue ids, grow the second strand in that order)            *)
(* ------------------------------------------------------------------ *)
\* BASE_LIBRARY, entry by entry
BaseLibrary == [DA |-> "DT", DT |-> "DA", DG |-> "DC", DC |-> "DG",
                DA5 |-> "DT3", DT5 |-> "DA3", DG5 |-> "DC3", DC5 |-> "DG3",
                DA3 |-> "DT5", DT3 |-> "DA5", DG3 |-> "DC5", DC3 |-> (IF "PairTable" \in Dev THEN "DG3" ELSE "DG5")]
Lookup(nm) == IF "TermNoSwap" \in Dev THEN NtName([base |-> WC[NtOf(nm).base], role |-> NtOf(nm).role]) ELSE BaseLibrary[nm]
\* one call of complement_dsDNA = CStart, CStep ..., on the input strand (round 1) and, if inp.rounds = 2, once more in place
\* on the molecule that now holds both strands (round 2)
CStart ==
  /\ pc \in {"cstart", "cstart2"}
  /\ LET x == IF pc = "cstart" THEN Strand(inp) ELSE g
         N == x.n
         \* deviation StartByKey (finding F35 dsdna-start-by-node-key, repaired): the walk starts at the residue with the largest node key
         start == IF "StartByKey" \in Dev /\ pc = "cstart" THEN CHOOSE r \in 1..N : \A q \in 1..N : inp.keys[q] <= inp.keys[r] ELSE N
     IN IF x.name[start] \notin DOMAIN BaseLibrary
        THEN /\ pc' = "rejected" /\ g' = x /\ aux' = aux
        ELSE /\ g' = AddNode(x, Lookup(x.name[start]), 0, {})
             /\ aux' = [cur |-> start, corr |-> [[r \in 1..N |-> 0] EXCEPT ![start] = N + 1], top |-> start, n0 |-> N,
                        round |-> IF pc = "cstart" THEN 1 ELSE 2, base |-> x]
             /\ pc' = "cwalk"
  /\ last' = "CStart" /\ UNCHANGED <<inp, k, c, mons>>
CStep ==
  /\ pc = "cwalk"
  /\ LET cur == aux.cur
         top == aux.top
         nxt == IF "Direction" \in Dev THEN cur + 1 ELSE cur - 1
         lo == IF nxt < cur THEN nxt ELSE cur
         hi == IF nxt < cur THEN cur ELSE nxt
         fin == IF aux.round < inp.rounds THEN "cstart2" ELSE "done"
     IN IF nxt \in 1..aux.n0 /\ HasEdge(g.edges, lo, hi)
        THEN IF g.name[nxt] \notin DOMAIN BaseLibrary
             THEN pc' = "rejected" /\ UNCHANGED <<g, aux>>
             ELSE /\ g' = AddNode(g, Lookup(g.name[nxt]), 0,
                                  {Edge(aux.corr[cur], g.n + 1, IF "NoLabelCopy" \in Dev THEN "" ELSE LabelOf(g.edges, lo, hi))})
                  /\ aux' = [aux EXCEPT !.cur = nxt, !.corr[nxt] = g.n + 1]
                  /\ pc' = "cwalk"
        ELSE IF cur < top /\ HasEdge(g.edges, cur, top) /\ ~("Direction" \in Dev)
                \* deviation WalkToResid1: the 5' end is recognised by its absolute residue id 1
                /\ ("WalkToResid1" \in Dev => inp.first - 1 + cur = 1)
             THEN \* back at the start of a ring: close the new strand
                  /\ g' = [g EXCEPT !.edges = @ \cup {Edge(aux.corr[cur], aux.corr[top],
                                                          IF "NoLabelCopy" \in Dev THEN "" ELSE LabelOf(g.edges, cur, top))}]
                  /\ aux' = aux /\ pc' = fin
             ELSE pc' = fin /\ UNCHANGED <<g, aux>>
  /\ last' = "CStep" /\ UNCHANGED <<inp, k, c, mons>>

(* ------------------------------------------------------------------ *)
InitRest ==
        /\ pc = CASE inp.fam = "file" -> (IF inp.fmt = "ig" THEN "title" ELSE "lines") [] inp.fam = "seqlist" -> "blocks" [] inp.fam = "genseq" -> "macros"
                  [] inp.fam = "json" -> "read" [] inp.fam = "dsdna" -> "cstart"
        /\ k = 1 /\ c = 0 /\ mons = <<>> /\ g = EmptyG
        /\ aux = IF inp.fam = "json" THEN JsonDoc(inp) ELSE [cur |-> 0, corr |-> <<>>]
        /\ last = "Init"
\* the wrappers (SeqInputMC, SeqInputTrace) say which inputs are explored: Init == <choose inp> /\ InitRest
Next == ReadTitle \/ ReadLine \/ EndLines \/ Close \/ AddMonomer \/ NextBlock
        \/ AddMacro \/ AddConnect \/ ModTer \/ Label \/ Write \/ ReadBack \/ CStart \/ CStep

(* ------------------------------------------------------------------ *)
(* what TLC checks: I-layer |= P-layer                                 *)
(* ------------------------------------------------------------------ *)
Shape == WellFormed(g)
\* the builder's final graph is the specified graph; a strand is rejected exactly when it holds an unknown name
Final == /\ (pc = "done" => LET e == Expected(inp) IN
                               ~e.rej /\ (IF inp.fam = "dsdna" THEN g = ExpRounds(inp, inp.rounds) ELSE Matches(g, e)))
         /\ (pc = "cstart2" => g = ExpRounds(inp, 1))
         /\ (pc = "rejected" => Expected(inp).rej)
\* residues are numbered consecutively while the graph grows: a step never renumbers or renames an existing
\* residue (except the explicit renaming steps) and never removes an edge
Grows == [][ (last' \in {"AddMonomer", "AddMacro", "AddConnect", "Label", "CStep"}) =>
               /\ g'.n >= g.n
               /\ \A r \in 1..g.n : g'.name[r] = g.name[r] /\ g'.inst[r] = g.inst[r]
               /\ g.edges \subseteq g'.edges ]_vars
\* gen_seq: what is written is what was built, and reading it back gives the same labelled graph
RoundTrip == /\ (inp.fam = "genseq" /\ pc = "read" => ReadJson(aux) = g)
             /\ (inp.fam = "genseq" /\ pc = "done" => g = ReadJson(aux) /\ JsonRoundTrip(g))
\* C19 along the way: what was there when a completion started is never touched, and the new strand is never bonded to it
OrigKept == (inp.fam = "dsdna" /\ pc \in {"cwalk", "cstart2", "done"}) =>
               /\ Sub(g, 1, aux.n0) = aux.base
               /\ ~\E e \in g.edges : e.a <= aux.n0 /\ e.b > aux.n0
\* laws of the P-layer itself (evaluated once per input, when its run has finished)
Laws == (pc \in {"done", "rejected"}) =>
          /\ (inp.fam = "dsdna" /\ ~Rejected(inp) =>
                LET s == Strand(inp) x == Complement(s) IN
                /\ WellFormed(x) /\ x.n = 2 * s.n
                /\ FirstStrand(x) = s /\ Disconnected(x)
                /\ MirrorLaw(s)
                /\ Involution(s) /\ InPlaceInvolution(s)
                /\ LastStart(s) = LastStartDecl(s) /\ LastStart(x) = LastStartDecl(x)
                /\ \A r \in 1..s.n : KnownDNA(x.name[s.n + r]) /\ WCPair(WCPair(s.name[r])) = s.name[r])
          /\ (inp.fam = "dsdna" => \A nm \in DOMAIN BaseLibrary : KnownDNA(nm) /\ BaseLibrary[nm] = WCPair(nm))
          /\ (inp.fam = "dsdna" => \A nt \in Nts : NtName(nt) \in DOMAIN BaseLibrary)
          /\ (inp.fam \in {"file", "seqlist", "json"} => WellFormed(Expected(inp).g))
          /\ (inp.fam = "genseq" => LET x == ExpGenSeq(inp) IN WellFormed(x) /\ JsonRoundTrip(x))
=============================================================================
