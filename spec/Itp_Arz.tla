---- MODULE Itp_Arz ----
(* instance wrapper for C11: one module per instance (initial-state predicate of MC_ItpRoundTrip) *)
EXTENDS ItpRoundTripExport
MCInit == ArzInit
====
