INIT MCInitTiny
NEXT Next
CONSTANTS
 Inputs = {}
 LibOf <- MCLibOf
 Dev <- NoDev
 FreeOrder = TRUE
INVARIANT ExpResnameMatters
CHECK_DEADLOCK FALSE
