INIT MCInitTiny
NEXT Next
CONSTANTS
 Inputs = {}
 LibOf <- MCLibOf
 Dev <- DevTerKeyError
 FreeOrder = TRUE
INVARIANT TerminiLaw
CHECK_DEADLOCK FALSE
