SPECIFICATION Spec
CONSTANTS
 Content <- MCContent
 Systems <- MCSystemsShare
 BuildFiles <- MCBuildDev
 DevVolLost = FALSE
 DevVolOverwritten = FALSE
 DevUserRegen = FALSE
 DevRecentre = FALSE
 DevKeySites = FALSE
 DevProcForgets = TRUE
 LargeN = 16
 DevSkipVSWhenNothingToOptimise = FALSE
INVARIANT OneTemplatePerKey
CHECK_DEADLOCK FALSE
