SPECIFICATION Spec
CONSTANTS
 Mols = {}
 Dev = "none"
 FixedOrder = TRUE
