SPECIFICATION XSpec
CONSTANTS
 Mols = {}
 Dev = "none"
 FixedOrder = TRUE
