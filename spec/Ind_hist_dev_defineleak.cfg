SPECIFICATION HSpec
CONSTANTS
 FFs <- FFcat
 Dev <- DevDefineLeak
 HInputs <- HInD
 HLib <- HLibD
 NInputs <- NIn
 MaxLen = 3
 Fresh <- FreshOf
 RunIn <- RunInMC
 Proc0 <- P0
INVARIANT HistoryIndependent
INVARIANT RepeatStable

CHECK_DEADLOCK FALSE
