----------------------------- MODULE LoadLibMC -----------------------------
(* exhaustive instances of LoadLib: pools of files, configurations = user file sequences x library sequences x every    *)
(* listing order of each library.  Definition ids are unique over the pool.                                             *)
EXTENDS LoadLib
S(t, n, d) == [t |-> t, n |-> n, d |-> d, dang |-> FALSE, g |-> ""]
SD(n, d) == [t |-> "block", n |-> n, d |-> d, dang |-> TRUE, g |-> ""]
ST(n, g, d) == [t |-> "tmpl", n |-> n, d |-> d, dang |-> FALSE, g |-> g]
F(name, kind, user, secs) == [name |-> name, kind |-> kind, user |-> user, secs |-> secs]

(* ---- force-field mode *)
u1 == F("u1.ff", "ff", TRUE, << S("block", "A", 1), S("link", "A", 2), S("block", "B", 3) >>)
u2 == F("u2.itp", "itp", TRUE, << SD("A", 4), S("block", "C", 5) >>)
u3 == F("u3.ff", "ff", TRUE, << S("link", "A", 6), S("mod", "X", 7), S("link", "B", 8) >>)
u4 == F("u4.bib", "bib", TRUE, << S("cite", "k1", 9), S("cite", "k2", 10) >>)
u5 == F("u5.txt", "txt", TRUE, << >>)
u6 == F("u6.itp", "itp", TRUE, << SD("B", 11), SD("A", 12), S("block", "B", 13) >>)
u7 == F("u7.ff", "ff", TRUE, << S("mod", "X", 14), S("block", "A", 15) >>)
u8 == F("u8.itp", "itp", TRUE, << SD("B", 16), SD("A", 17) >>)
a1 == F("a1.ff", "ff", FALSE, << S("block", "A", 21), S("link", "A", 22), S("other", "citations", 23), S("block", "B", 24) >>)
a2 == F("a2.itp", "itp", FALSE, << SD("A", 25) >>)
a3 == F("a3.bib", "bib", FALSE, << S("cite", "k1", 26) >>)
b1 == F("b1.ff", "ff", FALSE, << S("block", "B", 31), S("mod", "X", 32) >>)
b2 == F("b2.bib", "bib", FALSE, << S("cite", "k3", 33) >>)
b3 == F("b3.txt", "txt", FALSE, << >>)
b4 == F("b4.bld", "bld", FALSE, << S("vol", "A", 34) >>)

Perms(T) == {s \in [1..Cardinality(T) -> T] : \A i, j \in 1..Cardinality(T) : i # j => s[i] # s[j]}
UserSeqs(T) == {<<>>} \cup {<<x>> : x \in T} \cup {s \in {<<x, y>> : x \in T, y \in T} : s[1] # s[2]}

LibA == {a1, a2, a3}
LibB == {b1, b2, b3}
LibB4 == {b1, b2, b3, b4}
LibSeqs(LA, LB) == {<<>>} \cup {<<p>> : p \in Perms(LA)} \cup {<<p>> : p \in Perms(LB)}
                   \cup {<<p, q>> : p \in Perms(LA), q \in Perms(LB)} \cup {<<q, p>> : p \in Perms(LA), q \in Perms(LB)}
Cfgs(mode, US, LS) == {[mode |-> mode, user |-> u, libs |-> l] : u \in US, l \in LS}

FFUsersAll == {u1, u2, u3, u4, u5, u6, u7, u8}
MCFFFull == Cfgs("ff", UserSeqs(FFUsersAll), LibSeqs(LibA, LibB))
\* quick: single libraries in every listing order with every user sequence; two libraries with <= 1 user file
MCFFQuick == Cfgs("ff", UserSeqs(FFUsersAll), {<<>>} \cup {<<p>> : p \in Perms(LibA)} \cup {<<p>> : p \in Perms(LibB4)})
             \cup Cfgs("ff", {<<>>} \cup {<<x>> : x \in {u1, u2, u4, u6}}, {<<p, q>> : p \in Perms(LibA), q \in Perms(LibB)} \cup {<<q, p>> : p \in Perms(LibA), q \in Perms(LibB)})
\* small set for the listing-order expectation (quantifies over all configurations)
MCFFListing == Cfgs("ff", {<<>>, <<u1>>}, {<<p>> : p \in Perms(LibA)})
MCFFListingB == Cfgs("ff", {<<>>, <<u1>>, <<u4>>}, {<<p>> : p \in Perms(LibB)})

\* small sets for the sensitivity runs
MCFFSplit == Cfgs("ff", {<<u2>>, <<u2, u8>>, <<u1, u8>>, <<u8>>}, {<<>>} \cup {<<p>> : p \in Perms(LibA)})
MCFFErr == Cfgs("ff", {<<u5>>, <<u1, u5>>, <<u1>>}, {<<>>, << <<b1, b3, b2>> >>})

(* ---- build-file mode (gen_coords takes one library) *)
v1 == F("v1.bld", "bld", TRUE, << ST("A", "g1", 41), S("vol", "B", 42) >>)
v2 == F("v2.bld", "bld", TRUE, << ST("A", "g1", 43), ST("B", "g2", 44), S("vol", "B", 45) >>)
v3 == F("v3.bld", "bld", TRUE, << S("vol", "A", 46) >>)
v4 == F("v4.bld", "bld", TRUE, << ST("A", "g3", 47), S("vol", "A", 48) >>)
v5 == F("v5.ff", "ff", TRUE, << S("block", "A", 49) >>)
v6 == F("v6.bld", "bld", TRUE, << S("vol", "B", 50), ST("B", "g2", 54), ST("A", "g1", 55) >>)
v7 == F("v7.bld", "bld", TRUE, << ST("B", "g1", 57), S("vol", "A", 58), ST("A", "g1", 59), S("vol", "B", 60), ST("B", "g1", 61) >>)
c1 == F("c1.bld", "bld", FALSE, << ST("A", "g1", 51), S("vol", "B", 52) >>)
c2 == F("c2.bld", "bld", FALSE, << ST("B", "g2", 53) >>)
c3 == F("c3.ff", "ff", FALSE, << S("block", "A", 56) >>)
LibC == {c1, c2, c3}
BldUsers == {v1, v2, v3, v4, v5, v6, v7}
MCBld == Cfgs("bld", UserSeqs(BldUsers), {<<>>} \cup {<<p>> : p \in Perms(LibC)})
MCBldListing == Cfgs("bld", {<<>>, <<v3>>}, {<<p>> : p \in Perms(LibC)})
MCQuick == MCFFQuick \cup MCBld
MCFull == MCFFFull \cup MCBld
=============================================================================
