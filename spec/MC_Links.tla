---------------------------- MODULE MC_Links ----------------------------
(* Instances of Links: the link catalogue, the residue graphs, the families of cases that are exported for the     *)
(* S->I replay (one JSON record per case: input + expected molecule + attempts + missing residue edges), the small   *)
(* instances on which TLC checks I-layer |= P-layer, and the instances of the sensitivity runs.                      *)
EXTENDS Links, Json
CONSTANT Fam      \* name of the family of cases of this run (all case sets are behind a parameter: TLC pre-evaluates zero-arity definitions)

(* ---- constructors *)
Z == O("num", 0)
AB == <<"A", "B">>
OA == <<"A">>
OB == <<"B">>
NoAt == <<>>
AtR(oi, an, rn) == [oi |-> oi, sel |-> [atomname |-> <<an>>, resname |-> rn], rep |-> <<>>, del |-> FALSE]
WithSel(at, k, vals) == [at EXCEPT !.sel = Overlay(@, k :> vals)]
WithRep(at, k, v) == [at EXCEPT !.rep = k :> v]
WithDel(at) == [at EXCEPT !.del = TRUE]
Ia(kind, atoms, par, ver, edge) == [kind |-> kind, atoms |-> atoms, par |-> par, ver |-> ver, edge |-> edge]
Bond(a, b, par) == Ia("bonds", <<a, b>>, par, 1, TRUE)
BondV(a, b, par, ver) == Ia("bonds", <<a, b>>, par, ver, TRUE)
BondNE(a, b, par) == Ia("bonds", <<a, b>>, par, 1, FALSE)
Angle(a, b, d, par) == Ia("angles", <<a, b, d>>, par, 1, TRUE)
Dih(a, b, d, e, par) == Ia("dihedrals", <<a, b, d, e>>, par, 1, TRUE)
LkF(orders, atoms, inters, xedges, nonedges, patterns) ==
  [orders |-> orders, atoms |-> atoms, inters |-> inters, xedges |-> xedges, nonedges |-> nonedges, patterns |-> patterns]
Lk(orders, atoms, inters) == LkF(orders, atoms, inters, <<>>, <<>>, <<>>)
XE(a, b, lt) == [a |-> a, b |-> b, lt |-> lt]
NE(from, ord, an, rn) == [from |-> from, ord |-> ord, sel |-> [atomname |-> <<an>>, resname |-> rn]]
PA(a, k, vals) == [a |-> a, sel |-> k :> vals]

BlkA == [atoms |-> << [atomname |-> "a1", atype |-> "TA", resname |-> "A"], [atomname |-> "a2", atype |-> "TC", resname |-> "A"] >>,
         inters |-> << Bond(1, 2, "0.1") >>]
BlkB == [atoms |-> << [atomname |-> "b1", atype |-> "TB", resname |-> "B"] >>, inters |-> <<>>]
Blocks == [A |-> BlkA, B |-> BlkB]

(* ---- residue graphs *)
AllPairs(n) == {e \in SUBSET (1..n) : Cardinality(e) = 2}
ConnectedG(n, es) == Reach({1}, es, n) = 1..n
Graphs(n) == {es \in SUBSET AllPairs(n) : ConnectedG(n, es)}
Lo(e) == CHOOSE x \in e : \A y \in e : x <= y
Hi(e) == CHOOSE x \in e : \A y \in e : x >= y
EdgeLess(e, f) == Lo(e) < Lo(f) \/ (Lo(e) = Lo(f) /\ Hi(e) < Hi(f))
EdgeSeq(es, lab) == LET s == SetToSortSeq(es, EdgeLess) IN [j \in DOMAIN s |-> [a |-> Lo(s[j]), b |-> Hi(s[j]), lt |-> lab[s[j]]]]
NoLab(es) == [e \in es |-> ""]
Names(n) == [1..n -> {"A", "B"}]
MkCaseR(n, es, lab, names, labs, blocks, links, resid) ==
  [n |-> n, resid |-> resid,
   rattr |-> [r \in 1..n |-> IF labs[r] = "" THEN [resname |-> names[r]] ELSE [resname |-> names[r], lab |-> labs[r]]],
   edges |-> EdgeSeq(es, lab), blocks |-> blocks, links |-> links]
MkCaseB(n, es, lab, names, labs, blocks, links) == MkCaseR(n, es, lab, names, labs, blocks, links, [r \in 1..n |-> r])
MkCase(n, es, lab, names, labs, links) == MkCaseB(n, es, lab, names, labs, Blocks, links)
NoLabs(n) == [r \in 1..n |-> ""]
\* a "G" is a residue graph with names and labels: <<n, edge set, names, edge labels, residue labels>>
GN(nmax) == UNION { UNION { { <<n, es, nm, NoLab(es), NoLabs(n)>> : nm \in Names(n) } : es \in Graphs(n) } : n \in 1..nmax }
AllA(g) == \A r \in 1..g[1] : g[3][r] = "A"
Mk(g, ff) == MkCase(g[1], g[2], g[4], g[3], g[5], ff)
\* a force field of an exported family is [blocks, links]
\* an optional sixth component of a G assigns the residue ids: node keys (= residue index - 1) need not follow the residue ids
MkF(g, ff) == MkCaseR(g[1], g[2], g[4], g[3], g[5], ff.blocks, ff.links, IF Len(g) = 6 THEN g[6] ELSE [r \in 1..g[1] |-> r])
Perms(n) == { p \in [1..n -> 1..n] : \A i, j \in 1..n : i # j => p[i] # p[j] }
WithPerms(G) == UNION { { <<g[1], g[2], g[3], g[4], g[5], p>> : p \in Perms(g[1]) } : g \in G }
NonId(G) == { g \in G : g[6] # [r \in 1..g[1] |-> r] }
FFof(S) == { [blocks |-> Blocks, links |-> ls] : ls \in S }
Plain(G, FFs) == { Mk(g, ff) : g \in G, ff \in FFs }
PlainF(G, FFs) == { MkF(g, ff) : g \in G, ff \in FFs }

(* ---- family A: the matching core (orders x residue names x pattern shapes), one link per force field *)
Pre == { O("num", 1), O("num", 2), O("num", -1), O("gl", 1), O("gl", 2), O("gl", -1), O("star", 1), O("star", 2) }
RN1 == { OA, AB }
RN2 == { OA, OB, AB }
\* (second atom, its residue names): combinations that can select an atom at all, plus one that never can
X2 == { <<"a1", OA>>, <<"a1", AB>>, <<"b1", OB>>, <<"b1", AB>>, <<"b1", OA>> }
Two == { Lk(<<Z, p>>, <<AtR(1, "a2", r1), AtR(2, x[1], x[2])>>, <<Bond(1, 2, "0.2")>>) : p \in Pre, r1 \in RN1, x \in X2 }
At3 == <<AtR(1, "a2", AB), AtR(2, "a1", AB), AtR(3, "a1", AB)>>
Trip(p, q) == { Lk(<<Z, p, q>>, At3, <<Angle(1, 2, 3, "0.2")>>),                                       \* path, reference residue at the end
                Lk(<<Z, p, q>>, At3, <<Angle(2, 1, 3, "0.2")>>),                                       \* path, reference residue in the middle
                LkF(<<Z, p, q>>, At3, <<Angle(1, 2, 3, "0.2")>>, <<XE(1, 3, "")>>, <<>>, <<>>) }        \* triangle
Three == Trip(O("num", 1), O("num", 2)) \cup Trip(O("gl", 1), O("gl", 2)) \cup Trip(O("star", 1), O("star", 2))
         \cup Trip(O("num", -1), O("num", 1)) \cup Trip(O("num", 1), O("gl", 1)) \cup Trip(O("gl", -1), O("gl", 1))
At4 == <<AtR(1, "a2", AB), AtR(2, "a1", AB), AtR(3, "a1", AB), AtR(4, "a1", AB)>>
Four == { Lk(<<Z, O("num", 1), O("num", 2), O("num", 3)>>, At4, <<Dih(1, 2, 3, 4, "0.2")>>),           \* path of four
          Lk(<<Z, O("gl", 1), O("gl", 2), O("gl", 3)>>, At4, <<Dih(1, 2, 3, 4, "0.2")>>),
          Lk(<<Z, O("star", 1), O("star", 2), O("star", 3)>>, At4, <<Bond(1, 2, "0.2"), Bond(1, 3, "0.2"), Bond(1, 4, "0.2")>>),   \* star
          Lk(<<Z, O("num", -1), O("num", 1), O("gl", 1)>>, At4, <<Bond(1, 2, "0.2"), Bond(1, 3, "0.3"), Bond(1, 4, "0.4")>>),
          LkF(<<Z, O("gl", 1), O("gl", 2), O("gl", 3)>>, At4, <<Angle(1, 2, 3, "0.2")>>, <<XE(1, 3, ""), XE(3, 4, "")>>, <<>>, <<>>) }  \* triangle with a pendant
\* orders whose atoms carry different residue-name predicates: no residue-level name, the atoms decide
Mixed == { Lk(<<Z, O("num", 1)>>, <<AtR(1, "a1", OA), AtR(1, "a2", AB), AtR(2, "a1", AB)>>, <<Angle(1, 2, 3, "0.2")>>),
           Lk(<<Z, O("gl", 1)>>, <<AtR(1, "a2", AB), AtR(2, "a1", OA), AtR(2, "a2", AB)>>, <<Angle(1, 2, 3, "0.2")>>),
           Lk(<<Z, O("star", 1)>>, <<AtR(1, "a2", OA), AtR(2, "a1", AB), AtR(2, "a2", OA)>>, <<Angle(1, 2, 3, "0.2")>>) }
CatCore == Two \cup Three \cup Four \cup Mixed
GsA(u) == GN(4)
FFsA(u) == FFof({ <<l>> : l \in CatCore })

(* ---- family B: link features *)
LB(p, par) == Lk(<<Z, p>>, <<AtR(1, "a2", AB), AtR(2, "a1", AB)>>, <<Bond(1, 2, par)>>)
P1 == O("num", 1)
GT == O("gl", 1)
ST == O("star", 1)
TermDel == LkF(<<Z>>, <<WithDel(AtR(1, "a1", OA))>>, <<>>, <<>>, <<NE(1, -1, "a2", OA)>>, <<>>)                 \* remove a1 of a residue nothing precedes
TermRep == LkF(<<Z>>, <<WithRep(AtR(1, "a2", AB), "atype", "X")>>, <<>>, <<>>, <<NE(1, 1, "a1", AB)>>, <<>>)   \* retype a2 of a residue nothing follows
FeatFFs == {
  \* extra attribute selects / never matches / resolves an otherwise ambiguous selection
  << Lk(<<Z, P1>>, <<WithSel(AtR(1, "a2", AB), "atype", <<"TC">>), AtR(2, "a1", AB)>>, <<Bond(1, 2, "0.2")>>) >>,
  << Lk(<<Z, P1>>, <<WithSel(AtR(1, "a2", AB), "atype", <<"TA">>), AtR(2, "a1", AB)>>, <<Bond(1, 2, "0.2")>>) >>,
  << Lk(<<Z, GT>>, <<WithSel(AtR(1, "a2", AB), "atomname", <<"a1", "a2">>), AtR(2, "a1", AB)>>, <<Bond(1, 2, "0.2")>>) >>,
  << Lk(<<Z, GT>>, <<WithSel(WithSel(AtR(1, "a2", AB), "atomname", <<"a1", "a2">>), "atype", <<"TC">>), AtR(2, "a1", AB)>>, <<Bond(1, 2, "0.2")>>) >>,
  << Lk(<<Z, ST>>, <<AtR(1, "a2", AB), WithSel(AtR(2, "a1", AB), "atomname", <<"a1", "b1">>)>>, <<Bond(1, 2, "0.2")>>) >>,
  \* replace
  << Lk(<<Z, P1>>, <<WithRep(AtR(1, "a2", AB), "atype", "X"), WithRep(AtR(2, "a1", AB), "atype", "Y")>>, <<Bond(1, 2, "0.2")>>) >>,
  << Lk(<<Z, GT>>, <<WithRep(AtR(1, "a2", AB), "atype", "X"), AtR(2, "a1", AB)>>, <<Bond(1, 2, "0.2")>>) >>,
  << Lk(<<Z, GT>>, <<WithRep(AtR(1, "a2", AB), "atype", "X"), AtR(2, "a1", AB)>>, <<Bond(1, 2, "0.2")>>), LB(P1, "0.3"),
     Lk(<<Z>>, <<WithRep(AtR(1, "a2", OA), "atype", "W")>>, <<>>) >>,
  \* replace atomname null
  << TermDel >>,
  << LB(P1, "0.2"), TermDel >>,
  << LB(GT, "0.2"), TermDel, TermRep >>,
  << Lk(<<Z, P1>>, <<AtR(1, "a2", AB), WithDel(AtR(2, "a1", AB))>>, <<Bond(1, 2, "0.2")>>) >>,
  << LB(ST, "0.2"), LkF(<<Z, P1>>, <<WithDel(AtR(1, "a1", OA)), AtR(2, "b1", OB)>>, <<>>, <<XE(1, 2, "")>>, <<>>, <<>>) >>,
  \* [ edges ] only; bond that makes no edge
  << LkF(<<Z, P1>>, <<AtR(1, "a2", AB), AtR(2, "a1", AB)>>, <<>>, <<XE(1, 2, "")>>, <<>>, <<>>) >>,
  << Lk(<<Z, P1>>, <<AtR(1, "a2", AB), AtR(2, "a1", AB)>>, <<BondNE(1, 2, "0.2")>>) >>,
  << LkF(<<Z, GT>>, <<AtR(1, "a2", AB), AtR(2, "a1", AB), AtR(2, "a2", AB)>>, <<BondNE(1, 2, "0.2")>>, <<XE(1, 3, "")>>, <<>>, <<>>) >>,
  \* [ non-edges ]
  << TermRep >>,
  << LB(P1, "0.2"), TermRep >>,
  << LB(P1, "0.2"), LkF(<<Z, ST>>, <<AtR(1, "a2", AB), AtR(2, "a1", AB)>>, <<Bond(1, 2, "0.3")>>, <<>>, <<NE(1, 1, "a1", AB)>>, <<>>) >>,
  << LB(GT, "0.2"), LkF(<<Z, ST>>, <<AtR(1, "a2", AB), AtR(2, "b1", OB)>>, <<Bond(1, 2, "0.3")>>, <<>>, <<NE(1, 1, "a1", OA)>>, <<>>) >>,
  << LkF(<<Z, P1>>, <<AtR(1, "a2", AB), AtR(2, "a1", AB)>>, <<Bond(1, 2, "0.2")>>, <<>>, <<NE(1, 0, "a1", OA)>>, <<>>) >>,
  \* [ patterns ]
  << LkF(<<Z, P1>>, <<AtR(1, "a2", AB), AtR(2, "a1", AB)>>, <<Bond(1, 2, "0.2")>>, <<>>, <<>>, << <<PA(1, "atype", <<"TC">>)>> >>) >>,
  << LkF(<<Z, P1>>, <<AtR(1, "a2", AB), AtR(2, "a1", AB)>>, <<Bond(1, 2, "0.2")>>, <<>>, <<>>, << <<PA(1, "atype", <<"X">>)>> >>) >>,
  << LkF(<<Z, P1>>, <<AtR(1, "a2", AB), AtR(2, "a1", AB)>>, <<Bond(1, 2, "0.2")>>, <<>>, <<>>,
         << <<PA(1, "atype", <<"X">>)>>, <<PA(1, "atype", <<"TC">>), PA(2, "atype", <<"TA", "TB">>)>> >>) >>,
  << Lk(<<Z>>, <<WithRep(AtR(1, "a2", OA), "atype", "X")>>, <<>>),
     LkF(<<Z, GT>>, <<AtR(1, "a2", AB), AtR(2, "a1", AB)>>, <<Bond(1, 2, "0.2")>>, <<>>, <<>>, << <<PA(1, "atype", <<"X">>)>> >>) >>,
  \* a link that carries replace / removal AND patterns: a failing pattern vetoes the replacement and the removal too;
  \* a pattern on the value the link's own replace would set does not hold (the pattern is judged first)
  << LkF(<<Z, P1>>, <<WithRep(AtR(1, "a2", AB), "atype", "X"), AtR(2, "a1", AB)>>, <<Bond(1, 2, "0.2")>>, <<>>, <<>>, << <<PA(1, "atype", <<"Q">>)>> >>) >>,
  << LkF(<<Z, P1>>, <<WithRep(AtR(1, "a2", AB), "atype", "X"), AtR(2, "a1", AB)>>, <<Bond(1, 2, "0.2")>>, <<>>, <<>>, << <<PA(1, "atype", <<"X">>)>> >>) >>,
  << LkF(<<Z, GT>>, <<AtR(1, "a2", AB), WithDel(AtR(2, "a1", AB))>>, <<Bond(1, 2, "0.2")>>, <<>>, <<>>, << <<PA(1, "atype", <<"Q">>)>> >>) >>,
  \* two links: override, different version, partial overlap, link overriding a block interaction
  << LB(P1, "0.2"), LB(P1, "0.3") >>,
  << LB(P1, "0.2"), LB(GT, "0.3") >>,
  << LB(GT, "0.2"), LB(P1, "0.3") >>,
  << LB(ST, "0.2"), Lk(<<Z, GT>>, <<AtR(1, "a2", OA), AtR(2, "a1", OA)>>, <<Bond(1, 2, "0.3")>>) >>,
  << LB(P1, "0.2"), Lk(<<Z, P1>>, <<AtR(1, "a2", AB), AtR(2, "a1", AB)>>, <<BondV(1, 2, "0.3", 2)>>) >>,
  << Lk(<<Z, P1>>, <<AtR(1, "a2", AB), AtR(2, "a1", AB)>>, <<BondV(1, 2, "0.2", 2), BondV(1, 2, "0.3", 1)>>), LB(GT, "0.4") >>,
  << Lk(<<Z>>, <<AtR(1, "a1", OA), AtR(1, "a2", OA)>>, <<Bond(1, 2, "0.9")>>) >>,
  << Lk(<<Z>>, <<AtR(1, "a1", OA), AtR(1, "a2", OA)>>, <<Bond(2, 1, "0.9")>>) >>,
  << LB(P1, "0.2"), LB(ST, "0.3"), LB(GT, "0.4") >>,
  << >> }
GsB(u) == GN(3) \cup {g \in GN(4) : g[1] = 4 /\ AllA(g)}
FFsB(u) == FFof(FeatFFs)

(* ---- family C: edge labels (linktype) *)
Labs(es) == [es -> {"", "c"}]
LBx(p, par, lt) == LkF(<<Z, p>>, <<AtR(1, "a2", AB), AtR(2, "a1", AB)>>, <<Bond(1, 2, par)>>, <<XE(1, 2, lt)>>, <<>>, <<>>)
TypeFFs == {
  << LB(P1, "0.2") >>, << LBx(P1, "0.2", "c") >>, << LBx(GT, "0.2", "c") >>, << LBx(GT, "0.2", "d") >>,
  << LBx(GT, "0.2", "c"), LB(GT, "0.3") >>,
  \* bond that makes no edge + labelled edge (as in the repository's test_edge_attr.ff)
  << LkF(<<Z, GT>>, <<AtR(1, "a2", AB), AtR(2, "a1", AB)>>, <<BondNE(1, 2, "0.2")>>, <<XE(1, 2, "c")>>, <<>>, <<>>) >>,
  \* a second, unlabelled atom edge between the same two orders: no common label
  << LkF(<<Z, GT>>, <<AtR(1, "a2", AB), AtR(2, "a1", AB), AtR(2, "a2", AB)>>, <<Bond(1, 3, "0.2")>>, <<XE(1, 2, "c")>>, <<>>, <<>>) >>,
  << LkF(<<Z, GT>>, <<AtR(1, "a2", AB), AtR(2, "a1", AB), AtR(2, "a2", AB)>>, <<>>, <<XE(1, 2, "c"), XE(1, 3, "c")>>, <<>>, <<>>) >>,
  \* three residues, one labelled and one unlabelled pattern edge
  << LkF(<<Z, GT, O("gl", 2)>>, At3, <<Angle(1, 2, 3, "0.2")>>, <<XE(2, 3, "c")>>, <<>>, <<>>) >> }
GsC(u) == UNION { { <<g[1], g[2], g[3], lab, g[5]>> : lab \in Labs(g[2]) } : g \in {h \in GN(3) : h[1] >= 2 /\ (h[1] = 2 \/ AllA(h))} }
FFsC(u) == FFof(TypeFFs)

(* ---- family D: residue-level labels (gen_seq -label), finding F13 *)
QSel(at) == WithSel(at, "lab", <<"q">>)
LabelFFs == {
  << Lk(<<Z, P1>>, <<QSel(AtR(1, "a2", AB)), QSel(AtR(2, "a1", AB))>>, <<Bond(1, 2, "0.2")>>) >>,
  << Lk(<<Z, GT>>, <<QSel(AtR(1, "a2", AB)), AtR(2, "a1", AB)>>, <<Bond(1, 2, "0.2")>>) >>,
  << Lk(<<Z, ST>>, <<AtR(1, "a2", AB), QSel(AtR(2, "a1", AB))>>, <<Bond(1, 2, "0.2")>>), LB(P1, "0.3") >> }
GsD(u) == UNION { { <<g[1], g[2], g[3], g[4], labs>> : labs \in [1..g[1] -> {"", "q"}] } : g \in {h \in GN(3) : h[1] >= 2 /\ (h[1] = 2 \/ AllA(h))} }
FFsD(u) == FFof(LabelFFs)

(* ---- family E: dangling interactions in monomer .itp files (polyply syntax) *)
Dg(kind, idx, par) == [kind |-> kind, idx |-> idx, par |-> par]
WithDang(b, d) == [atoms |-> b.atoms, inters |-> b.inters, dang |-> d]
DangA == { << Dg("bonds", <<1, 2>>, "0.2") >>,                                             \* a2 +a1
           << Dg("bonds", <<1, 2>>, "0.2"), Dg("angles", <<0, 1, 2>>, "0.3") >>,           \* + angle a1 a2 +a1
           << Dg("bonds", <<1, 2>>, "0.2"), Dg("angles", <<1, 2, 4>>, "0.3") >>,           \* + angle a2 +a1 ++a1 (three residues)
           << Dg("bonds", <<1, 2>>, "0.2"), Dg("bonds", <<1, 2>>, "0.3") >>,               \* two versions of one bond
           << Dg("bonds", <<1, 2>>, "0.2"), Dg("bonds", <<1, 3>>, "0.25"), Dg("bonds", <<1, 2>>, "0.3") >>,   \* repeated, not consecutive: later link wins
           << Dg("bonds", <<1, 2>>, "0.2"), Dg("dihedrals", <<0, 1, 2, 3>>, "0.3"), Dg("dihedrals", <<0, 1, 2, 3>>, "0.4") >>,
           << Dg("bonds", <<1, 2>>, "0.2"), Dg("pairs", <<0, 3>>, "0.3") >>,
           << Dg("bonds", <<2, 1>>, "0.2") >>,                                             \* written from the next residue's side
           << Dg("bonds", <<1, 4>>, "0.2") >>,                                             \* a2 ++a1: no residue pattern of a chain has this edge
           << >> }
DangB == { << >>, << Dg("bonds", <<0, 1>>, "0.5") >> }                                     \* b1 +b1
FFsE(u) == { LET bl == [A |-> WithDang(BlkA, da), B |-> WithDang(BlkB, db)] IN [blocks |-> bl, links |-> ItpLinksOf(bl.A) \o ItpLinksOf(bl.B)] : da \in DangA, db \in DangB }
PathG(n) == { {j, j + 1} : j \in 1..(n - 1) }
GsE(u) == { <<n, PathG(n), [r \in 1..n |-> "A"], NoLab(PathG(n)), NoLabs(n)>> : n \in 1..5 }
           \cup { g \in GN(4) : g[2] = PathG(g[1]) }
           \cup { g \in GN(3) : g[1] = 3 /\ AllA(g) }
IsHomoChain(c) == /\ \A r \in Rs(c) : c.rattr[r].resname = "A"
                  /\ { {c.edges[j].a, c.edges[j].b} : j \in DOMAIN c.edges } = PathG(c.n)
DanglingTheorem(c, f) == (IsHomoChain(c) /\ DangContiguous(c.blocks.A)) =>
                            { x \in f.ints : \E j \in DOMAIN x.atoms : x.atoms[j][1] # x.atoms[1][1] } = Windows(c.blocks.A, c.n)

(* ---- family M (C10): force fields with and without applicable links x all residue graphs on <= 4 residues *)
LA(p, par) == Lk(<<Z, p>>, <<AtR(1, "a2", OA), AtR(2, "a1", OA)>>, <<Bond(1, 2, par)>>)          \* only A-A pairs are linked
MissFFs == { << >>,                                                     \* no link at all: every residue edge is missing
             << LB(P1, "0.2") >>,                                       \* chain links; B has no atom a1/a2: pairs with B stay unlinked
             << LB(GT, "0.2") >>,
             << LA(ST, "0.2") >>,
             << LB(P1, "0.2"), Lk(<<Z, ST>>, <<AtR(1, "a2", OA), AtR(2, "b1", OB)>>, <<Bond(1, 2, "0.3")>>) >>,
             << Lk(<<Z, ST>>, <<AtR(1, "a1", AB), AtR(2, "b1", OB)>>, <<Bond(1, 2, "0.2")>>), LB(GT, "0.3") >>,
             << LkF(<<Z, GT>>, <<AtR(1, "a2", AB), AtR(2, "a1", AB)>>, <<>>, <<XE(1, 2, "")>>, <<>>, <<>>) >>,        \* an edge without any interaction
             << Lk(<<Z, GT>>, <<AtR(1, "a2", AB), AtR(2, "a1", AB)>>, <<BondNE(1, 2, "0.2")>>) >>,                    \* a bond that makes no edge
             << LB(GT, "0.2"), TermDel >>,                                                                           \* removal after linking
             << Lk(<<Z, GT>>, <<AtR(1, "a2", AB), WithDel(AtR(2, "a1", AB))>>, <<Bond(1, 2, "0.2")>>) >> }              \* the linking atom itself is removed
GsM(u) == GN(4)
FFsM(u) == FFof(MissFFs)

(* ---- family F (independent seed C02-2): the residue name sits on a SUBSET of the atoms of an order, residues of another name carry the same atom names *)
BlkC == [atoms |-> << [atomname |-> "a1", atype |-> "TA", resname |-> "C"], [atomname |-> "a2", atype |-> "TC", resname |-> "C"] >>,
         inters |-> << Bond(1, 2, "0.1") >>]
Blocks3 == [A |-> BlkA, B |-> BlkB, C |-> BlkC]
AC == <<"A", "C">>
OC == <<"C">>
AtN(oi, an) == [oi |-> oi, sel |-> [atomname |-> <<an>>], rep |-> <<>>, del |-> FALSE]            \* a link atom that names no residue
PartFFs == {
  << Lk(<<Z, P1>>, <<AtR(1, "a1", OA), AtN(1, "a2"), AtR(2, "a1", AC)>>, <<Angle(1, 2, 3, "0.2")>>) >>,          \* a1 {resname A} next to a2 {}
  << Lk(<<Z, GT>>, <<AtR(1, "a2", AC), AtR(2, "a1", AC), AtR(2, "a2", OC)>>, <<Angle(1, 2, 3, "0.2")>>) >>,      \* link-level A|C narrowed to C on one atom
  << Lk(<<Z, ST>>, <<AtR(1, "a1", OA), AtR(1, "a2", AC), AtR(2, "a1", AC)>>, <<Bond(2, 3, "0.2")>>) >>,           \* the naming atom is not part of the interaction
  << Lk(<<Z, P1>>, <<AtR(1, "a1", OA), AtN(1, "a2"), AtN(2, "a1"), AtR(2, "a2", OC)>>, <<Dih(1, 2, 3, 4, "0.2")>>) >>,
  << Lk(<<Z, P1>>, <<AtN(1, "a2"), AtR(2, "a1", OC)>>, <<Bond(1, 2, "0.2")>>), Lk(<<Z, P1>>, <<AtR(1, "a2", OA), AtN(2, "a1")>>, <<Bond(1, 2, "0.3")>>) >>,
  << Lk(<<Z>>, <<AtR(1, "a1", OC), WithRep(AtN(1, "a2"), "atype", "X")>>, <<>>) >> }
NamesAC(n) == [1..n -> {"A", "C"}]
GsF(u) == LET base == UNION { UNION { { <<n, es, nm, NoLab(es), NoLabs(n)>> : nm \in NamesAC(n) } : es \in Graphs(n) } : n \in 1..3 }
          IN WithPerms(base)
FFsF(u) == { [blocks |-> Blocks3, links |-> ls] : ls \in PartFFs }
CasesDevNoAtomResname(u) == { MkCaseB(2, {{1, 2}}, NoLab({{1, 2}}), <<"C", "C">>, NoLabs(2), Blocks3,
                                      << Lk(<<Z, P1>>, <<AtR(1, "a1", OA), AtN(1, "a2"), AtR(2, "a1", AC)>>, <<Angle(1, 2, 3, "0.2")>>) >>) }

(* ---- family R (independent seed4-C02-1): blocks that repeat an atom name (legal in .itp blocks, which are keyed by atom index) *)
BlkD == [atoms |-> << [atomname |-> "d1", atype |-> "TA", resname |-> "D"], [atomname |-> "s", atype |-> "SA", resname |-> "D"], [atomname |-> "s", atype |-> "SB", resname |-> "D"] >>,
         inters |-> << Bond(1, 2, "0.1"), Bond(1, 3, "0.11") >>]                       \* the two s differ in type
BlkE == [atoms |-> << [atomname |-> "d1", atype |-> "TA", resname |-> "E"], [atomname |-> "s", atype |-> "SA", resname |-> "E"], [atomname |-> "s", atype |-> "SA", resname |-> "E"] >>,
         inters |-> << Bond(1, 2, "0.1"), Bond(1, 3, "0.11") >>]                       \* the two s are indistinguishable
BlocksDE == [D |-> BlkD, E |-> BlkE]
DE == <<"D", "E">>
OD == <<"D">>
SA == <<"SA">>
SB == <<"SB">>
RepFFs == {
  << Lk(<<Z, P1>>, <<AtR(1, "s", DE), AtR(2, "d1", DE)>>, <<Bond(1, 2, "0.2")>>) >>,                                        \* by name only: two candidates, never applies
  << Lk(<<Z, P1>>, <<WithSel(AtR(1, "s", DE), "atype", SA), AtR(2, "d1", DE)>>, <<Bond(1, 2, "0.2")>>) >>,                   \* unique in D (the FIRST s), ambiguous in E
  << Lk(<<Z, P1>>, <<WithSel(AtR(1, "s", DE), "atype", SB), AtR(2, "d1", DE)>>, <<Bond(1, 2, "0.2")>>) >>,                   \* unique in D (the last s), absent in E
  << Lk(<<Z, GT>>, <<AtR(1, "d1", DE), WithSel(AtR(2, "s", DE), "atype", SA)>>, <<Bond(1, 2, "0.2")>>) >>,                   \* the repeated name on the far residue
  << Lk(<<Z, P1>>, <<WithSel(AtR(1, "s", OD), "atype", SA), WithSel(AtR(1, "s", OD), "atype", SB), AtR(2, "d1", DE)>>, <<Angle(1, 3, 2, "0.2")>>) >>,   \* both s of one residue in one link
  << Lk(<<Z, ST>>, <<WithRep(WithSel(AtR(1, "s", DE), "atype", SA), "atype", "X"), AtR(2, "d1", DE)>>, <<Bond(1, 2, "0.2")>>) >>,
  << Lk(<<Z, P1>>, <<WithSel(AtR(1, "s", DE), "atype", SA), AtR(2, "d1", DE)>>, <<Bond(1, 2, "0.2")>>),
     LkF(<<Z>>, <<WithDel(WithSel(AtR(1, "s", OD), "atype", SA))>>, <<>>, <<>>, <<NE(1, 1, "d1", DE)>>, <<>>) >>,            \* the first s of a chain end is removed
  << Lk(<<Z, P1>>, <<WithSel(AtR(1, "s", DE), "atomname", <<"s", "d1">>), AtR(2, "d1", DE)>>, <<Bond(1, 2, "0.2")>>) >> }      \* choice of names: three candidates
RepDang == { [D |-> WithDang(BlkD, dd), E |-> WithDang(BlkE, de)] :
               dd \in { << Dg("bonds", <<1, 3>>, "0.2") >>, << Dg("bonds", <<2, 3>>, "0.2") >> },      \* first s / last s of D to +d1
               de \in { << >>, << Dg("bonds", <<1, 3>>, "0.3") >> } }                                    \* an s of E to +d1: same name and type as the other s, told apart by its index
NamesDE(n) == [1..n -> {"D", "E"}]
GsR(u) == UNION { UNION { { <<n, es, nm, NoLab(es), NoLabs(n)>> : nm \in NamesDE(n) } : es \in Graphs(n) } : n \in 1..3 }
FFsR(u) == { [blocks |-> BlocksDE, links |-> ls] : ls \in RepFFs } \cup { [blocks |-> bl, links |-> ItpLinksOf(bl.D) \o ItpLinksOf(bl.E)] : bl \in RepDang }
CasesDevRepBeforePattern(u) == { MkCase(2, {{1, 2}}, NoLab({{1, 2}}), <<"A", "A">>, NoLabs(2),
   << LkF(<<Z, P1>>, <<WithRep(AtR(1, "a2", AB), "atype", "X"), AtR(2, "a1", AB)>>, <<Bond(1, 2, "0.2")>>, <<>>, <<>>, << <<PA(1, "atype", <<"Q">>)>> >>) >>) }
CasesDevLastOfName(u) == { MkCaseB(2, {{1, 2}}, NoLab({{1, 2}}), <<"D", "D">>, NoLabs(2), BlocksDE,
                                   << Lk(<<Z, P1>>, <<WithSel(AtR(1, "s", DE), "atype", SA), AtR(2, "d1", DE)>>, <<Bond(1, 2, "0.2")>>) >>),
                           MkCaseB(2, {{1, 2}}, NoLab({{1, 2}}), <<"E", "E">>, NoLabs(2), BlocksDE,
                                   << Lk(<<Z, P1>>, <<AtR(1, "s", DE), AtR(2, "d1", DE)>>, <<Bond(1, 2, "0.2")>>) >>) }

(* ---- family W (independent seed6-C02-2): link-wide attribute lines (`resname "A"` directly under [ link ]) combined with [ non-edges ], over   *)
(* residues A and C that carry the same atom names: only the residue name in the description of the non-edge partner tells "followed by another A" *)
(* from "followed by a C".  The partner is described by its own attributes AND the link-wide lines (Links!NESel).                                  *)
LkW(wide, orders, atoms, inters, xedges, nonedges, patterns) ==
  [orders |-> orders, atoms |-> atoms, inters |-> inters, xedges |-> xedges, nonedges |-> nonedges, patterns |-> patterns, wide |-> wide]
NEn(from, ord, an) == [from |-> from, ord |-> ord, sel |-> [atomname |-> <<an>>]]      \* partner written by name only: the link-wide lines complete it
WA == [resname |-> OA]
WAC == [resname |-> AC]
ChainW(p) == LkW(WAC, <<Z, p>>, <<AtN(1, "a2"), AtN(2, "a1")>>, <<Bond(1, 2, "0.2")>>, <<>>, <<>>, <<>>)      \* a2 - a1 of the next residue, whatever the two are called
ChainR(p) == Lk(<<Z, p>>, <<AtR(1, "a2", AC), AtR(2, "a1", AC)>>, <<Bond(1, 2, "0.2")>>)                        \* the same with the name on every atom
LastOfRunW == LkW(WA, <<Z>>, <<WithRep(AtN(1, "a2"), "atype", "X")>>, <<>>, <<>>, <<NEn(1, 1, "a1")>>, <<>>)    \* an A that is not followed by an A
WideFFs == {
  << ChainW(P1), LastOfRunW >>,
  << ChainW(GT), LastOfRunW >>,                                             \* bonds to every later neighbour: only the one with residue id + 1 can veto
  \* angle -a2 a2 a1 over two A, the second one not followed by an A
  << ChainW(P1), LkW(WA, <<Z, O("num", -1)>>, <<AtN(2, "a2"), AtN(1, "a2"), AtN(1, "a1")>>, <<Angle(1, 2, 3, "0.3")>>, <<>>, <<NEn(2, 1, "a1")>>, <<>>) >>,
  \* an A that is not preceded by an A (partner in the residue before)
  << ChainW(P1), LkW(WA, <<Z>>, <<WithRep(AtN(1, "a1"), "atype", "Y")>>, <<>>, <<>>, <<NEn(1, -1, "a2")>>, <<>>) >>,
  \* the partner's own residue name takes precedence over the link-wide one: any residue that is not followed by a C
  << ChainW(P1), LkW(WAC, <<Z>>, <<WithRep(AtN(1, "a2"), "atype", "X")>>, <<>>, <<>>, <<NE(1, 1, "a1", OC)>>, <<>>) >>,
  \* an atom's own residue name takes precedence (A followed by C), the partner is completed by the link-wide line (not preceded by an A)
  << ChainW(P1), LkW(WA, <<Z, P1>>, <<AtN(1, "a1"), AtN(1, "a2"), AtR(2, "a1", OC)>>, <<Angle(1, 2, 3, "0.3")>>, <<>>, <<NEn(1, -1, "a2")>>, <<>>) >>,
  \* two link-wide lines: the partner a1 would also have to be of type TC, which it never is - the link applies to every residue
  << ChainW(P1), LkW([resname |-> AC, atype |-> <<"TC">>], <<Z>>, <<WithRep(AtN(1, "a2"), "atype", "X")>>, <<>>, <<>>, <<NEn(1, 1, "a1")>>, <<>>) >>,
  \* the same conditions with the residue name written on the atoms and on the partner themselves
  << ChainR(P1), LkF(<<Z>>, <<WithRep(AtR(1, "a2", OA), "atype", "X")>>, <<>>, <<>>, <<NE(1, 1, "a1", OA)>>, <<>>) >>,
  << ChainR(P1), LkF(<<Z>>, <<WithRep(AtR(1, "a2", AC), "atype", "X")>>, <<>>, <<>>, <<NE(1, 1, "a1", OC)>>, <<>>) >>,
  << ChainR(GT), LkF(<<Z, O("num", -1)>>, <<AtR(2, "a2", OA), AtR(1, "a2", OA), AtR(1, "a1", OA)>>, <<Angle(1, 2, 3, "0.3")>>, <<>>, <<NE(2, 1, "a1", OA)>>, <<>>) >> }
GsW(u) == UNION { UNION { { <<n, es, nm, NoLab(es), NoLabs(n)>> : nm \in NamesAC(n) } : es \in Graphs(n) } : n \in 1..3 }
          \cup { <<4, PathG(4), nm, NoLab(PathG(4)), NoLabs(4)>> : nm \in NamesAC(4) }
FFsW(u) == { [blocks |-> Blocks3, links |-> ls] : ls \in WideFFs }
\* law: the link-wide lines are shorthand for writing the attribute on every atom the link mentions, non-edge partners included
ResolvedCase(c) == [c EXCEPT !.links = [k \in DOMAIN c.links |-> Resolved(c.links[k])]]
WideIsShorthand(c, e) == PFinalE(c, e) = PFinal(ResolvedCase(c))
CasesDevNonEdgeWide(u) == { MkCaseB(2, {{1, 2}}, NoLab({{1, 2}}), <<"A", "C">>, NoLabs(2), Blocks3, << ChainW(P1), LastOfRunW >>),
                            MkCaseB(3, PathG(3), NoLab(PathG(3)), <<"A", "C", "A">>, NoLabs(3), Blocks3,
                                    << ChainR(P1), LkF(<<Z>>, <<WithRep(AtR(1, "a2", OA), "atype", "X")>>, <<>>, <<>>, <<NE(1, 1, "a1", OA)>>, <<>>) >>) }

(* ---- family I (independent seed5-C10-1): copies of a two-residue block DI = X(x1, x2) - Y(y1), labelled from_itp, listed consecutively *)
BlkX == [atoms |-> << [atomname |-> "x1", atype |-> "TA", resname |-> "X"], [atomname |-> "x2", atype |-> "TC", resname |-> "X"] >>, inters |-> << Bond(1, 2, "0.1") >>]
BlkY == [atoms |-> << [atomname |-> "y1", atype |-> "TB", resname |-> "Y"] >>, inters |-> <<>>]
BlocksXY == [X |-> BlkX, Y |-> BlkY, A |-> BlkA]
MultiDI == [name |-> "DI", parts |-> <<"X", "Y">>, inters |-> << [kind |-> "bonds", atoms |-> << <<1, 2>>, <<2, 1>> >>, par |-> "0.15", ver |-> 1] >>]
OX == <<"X">>
OY == <<"Y">>
LYX(p, par) == Lk(<<Z, p>>, <<AtR(1, "y1", OY), AtR(2, "x1", OX)>>, <<Bond(1, 2, par)>>)           \* joins one copy to the next
ItpFFs == { << >>, << LYX(P1, "0.2") >>, << LYX(GT, "0.2") >>,
            << LYX(P1, "0.2"), Lk(<<Z, P1>>, <<AtR(1, "y1", OY), AtR(2, "a1", OA)>>, <<Bond(1, 2, "0.3")>>) >>,
            << Lk(<<Z, P1>>, <<AtR(1, "x2", OX), AtR(2, "y1", OY)>>, <<Bond(1, 2, "0.3")>>) >> }        \* a link INSIDE the block: replaces the block's own bond
MkCaseI(nc, tail, ring, ff) ==
  LET n == 2 * nc + (IF tail THEN 1 ELSE 0)
      es == PathG(n) \cup (IF ring /\ nc >= 2 THEN {{1, 2 * nc}} ELSE {})
  IN [n |-> n, resid |-> [r \in 1..n |-> r],
      rattr |-> [r \in 1..n |-> IF r > 2 * nc THEN [resname |-> "A"] ELSE [resname |-> IF r % 2 = 1 THEN "X" ELSE "Y", from_itp |-> "DI"]],
      edges |-> EdgeSeq(es, NoLab(es)), blocks |-> ff.blocks, links |-> ff.links,
      fints |-> [k \in 1..nc |-> [kind |-> "bonds", atoms |-> << <<2 * k - 1, 2>>, <<2 * k, 1>> >>, par |-> "0.15", ver |-> 1]]]
GsI(u) == { <<nc, tail, ring>> : nc \in 1..3, tail \in BOOLEAN, ring \in BOOLEAN }
FFsI(u) == { [blocks |-> BlocksXY, links |-> ls, multi |-> MultiDI] : ls \in ItpFFs }
CasesI(u) == { MkCaseI(g[1], g[2], g[3], ff) : g \in GsI(u), ff \in FFsI(u) }
CasesDevSkipSameItp(u) == { MkCaseI(2, FALSE, FALSE, [blocks |-> BlocksXY, links |-> << >>, multi |-> MultiDI]) }

(* ---- family N (independent seed C10-2): node keys that are a permutation of the residue ids *)
GsN(u) == NonId(WithPerms(GN(3))) \cup NonId(WithPerms({g \in GN(4) : g[1] = 4 /\ AllA(g) /\ Cardinality(g[2]) <= 4}))
FFsN(u) == FFof({ << >>, << LB(P1, "0.2") >>, << LB(GT, "0.2") >>, << LA(ST, "0.2") >>, << LB(GT, "0.2"), TermDel >> })

(* ---- small instances for I |= P and for the sensitivity runs *)
CoreSmall == { Lk(<<Z, p>>, <<AtR(1, "a2", AB), AtR(2, x, r2)>>, <<Bond(1, 2, "0.2")>>) : p \in Pre, r2 \in RN2, x \in {"a1"} } \cup Three \cup Mixed
CasesSmall(u) == Plain(GN(3), { <<l>> : l \in CoreSmall }) \cup PlainF(GsB(u), FFsB(u)) \cup PlainF(GsC(u), FFsC(u)) \cup PlainF(GsD(u), FFsD(u))
CoreTiny == { Lk(<<Z, p>>, <<AtR(1, "a2", AB), AtR(2, "a1", AB)>>, <<Bond(1, 2, "0.2")>>) : p \in Pre } \cup Three \cup Mixed
CasesTiny(u) == Plain(GN(3), { <<l>> : l \in CoreTiny }) \cup PlainF(GN(3), FFsB(u)) \cup PlainF(GsC(u), FFsC(u)) \cup PlainF(GsD(u), FFsD(u))
\* four residues; cases whose links have at most 8 residue-level matches each (2^8 interleavings of TryMatch per link)
CasesSmall4(u) == { c \in Plain({g \in GN(4) : g[1] = 4 /\ AllA(g)}, { <<l>> : l \in Three \cup Four }) :
                      \A k \in DOMAIN c.links : Cardinality({ phi \in Maps(c, c.links[k]) : ResMatch(c, c.links[k], phi) }) <= 8 }

(* ---- sensitivity instances: one case family per deviation in which the deviation is visible *)
AAA == [r \in 1..3 |-> "A"]
Tri3 == AllPairs(3)
Path3 == {{1, 2}, {2, 3}}
One(n, es, nm, ff) == { MkCase(n, es, NoLab(es), nm, NoLabs(n), ff) }
CasesDevMono(u) == One(3, Tri3, AAA, << LB(P1, "0.2") >>) \cup One(3, Tri3, AAA, << Lk(<<Z, P1, O("num", 2)>>, At3, <<Angle(1, 2, 3, "0.2")>>) >>)
CasesDevOrder(u) == One(3, Path3, AAA, << LB(P1, "0.2") >>)
CasesDevLinktype(u) == { MkCase(2, {{1, 2}}, [e \in {{1, 2}} |-> "c"], [r \in 1..2 |-> "A"], NoLabs(2), << LB(GT, "0.2") >>) }
CasesDevFirstWins(u) == One(2, {{1, 2}}, [r \in 1..2 |-> "A"], << LB(P1, "0.2"), LB(P1, "0.3") >>)
CasesDevAmbig(u) == One(2, {{1, 2}}, [r \in 1..2 |-> "A"],
                     << Lk(<<Z, GT>>, <<WithSel(AtR(1, "a2", AB), "atomname", <<"a1", "a2">>), AtR(2, "a1", AB)>>, <<Bond(1, 2, "0.2")>>) >>)
CasesDevNonEdge(u) == One(3, Path3, AAA, << LB(P1, "0.2"), TermRep >>)
CasesDevPattern(u) == One(2, {{1, 2}}, [r \in 1..2 |-> "A"],
                     << LkF(<<Z, P1>>, <<AtR(1, "a2", AB), AtR(2, "a1", AB)>>, <<Bond(1, 2, "0.2")>>, <<>>, <<>>, << <<PA(1, "atype", <<"X">>)>> >>) >>)
CasesDevKeepRemoved(u) == One(3, Path3, AAA, << LB(P1, "0.2"), TermDel >>)
CasesDevVerKey(u) == One(3, Path3, <<"B", "A", "A">>, << LB(P1, "0.2"), TermDel >>)
CasesDevF13(u) == { MkCase(3, Path3, NoLab(Path3), AAA, [r \in 1..3 |-> "q"],
                        << Lk(<<Z, P1>>, <<QSel(AtR(1, "a2", AB)), QSel(AtR(2, "a1", AB))>>, <<Bond(1, 2, "0.2")>>) >>) }
CasesDevDegree(u) == One(2, {{1, 2}}, [r \in 1..2 |-> "A"], << LB(P1, "0.2") >>)
CasesDevOrderedPairs(u) == { MkCaseR(3, Path3, NoLab(Path3), AAA, NoLabs(3), Blocks, << LB(GT, "0.2") >>, <<2, 1, 3>>) }

(* ---- C10: FindMissing on molecules with arbitrary inter-residue atom edges and removed atoms *)
InterPairs(c) == { e \in SUBSET Atoms(c) : Cardinality(e) = 2 /\ Cardinality({at[1] : at \in e}) = 2 }
CasesMissing(u) == Plain({g \in GN(3) : g[1] < 3 \/ g[3][2] = "A"}, { << >> }) \cup Plain({g \in GN(4) : \A r \in 1..g[1] : g[3][r] = "B"}, { << >> })
MInit == /\ case \in Cases
         /\ \E E \in SUBSET InterPairs(case) : \E rm \in {S \in SUBSET Atoms(case) : Cardinality(S) <= 1} :
               st = [St0(case) EXCEPT !.pc = "missing", !.missing0 = IMissing(case, BlockEdges(case), {}),
                       !.final = Final(case, [edges |-> BlockEdges(case) \cup E, attr |-> V0(case).attr], {}, rm, {})]
MSpec == MInit /\ [][FindMissing /\ UNCHANGED case]_vars

(* ---- the gate over multi-molecule topologies and supplied coordinates.  Four molecule types of three A residues: c1, c2 have a *)
(* connected residue graph after link application, d1, d2 a disconnected one (decided by the P-layer, GateMolsAsNamed)              *)
GateMol == [c1 |-> MkCase(3, {{1, 2}, {2, 3}}, NoLab({{1, 2}, {2, 3}}), <<"A", "A", "A">>, NoLabs(3), << LB(P1, "0.2") >>),
            c2 |-> MkCase(3, {{1, 2}, {1, 3}}, NoLab({{1, 2}, {1, 3}}), <<"A", "A", "A">>, NoLabs(3), << LB(GT, "0.2") >>),
            d1 |-> MkCase(3, {{1, 2}, {1, 3}}, NoLab({{1, 2}, {1, 3}}), <<"A", "A", "A">>, NoLabs(3), << LB(P1, "0.2") >>),
            d2 |-> MkCase(3, {{1, 3}, {2, 3}}, NoLab({{1, 3}, {2, 3}}), <<"A", "A", "A">>, NoLabs(3), << LB(P1, "0.2") >>)]
ConnOf(c) == LET e == PEnd(c)  f == PFinalE(c, e) IN ResConnected(c, f.edges, f.removed)
GateConn == [t \in DOMAIN GateMol |-> ConnOf(GateMol[t])]
GateMolsAsNamed == GateConn = [c1 |-> TRUE, c2 |-> TRUE, d1 |-> FALSE, d2 |-> FALSE]
GateEntries == { [mol |-> t, count |-> k] : t \in DOMAIN GateMol, k \in 1..2 }
GateTopsN(n) == [1..n -> GateEntries]
RECURSIVE ExpandTop(_)
ExpandTop(top) == IF Len(top) = 0 THEN <<>>
                  ELSE [j \in 1..top[1].count |-> [name |-> top[1].mol, conn |-> GateConn[top[1].mol], rn |-> [r \in 1..3 |-> GateMol[top[1].mol].rattr[r].resname]]] \o ExpandTop(Tail(top))
NResOf(top) == 3 * Len(ExpandTop(top))
NoCoord == [kind |-> "none", k |-> 0, res |-> <<>>, ign |-> <<>>]
\* -c / -mc files covering all residues, all but the last, the first molecule only, one residue; with and without -res A
CoordsFor(top) == {NoCoord} \cup { [kind |-> kd, k |-> k, res |-> rs, ign |-> <<>>] : kd \in {"c", "mc"}, k \in {NResOf(top), NResOf(top) - 1, 3, 1}, rs \in {<<>>, <<"A">>} }
GateCases == { [top |-> t, co |-> NoCoord] : t \in GateTopsN(3) }
             \cup UNION { { [top |-> t, co |-> co] : co \in CoordsFor(t) } : t \in GateTopsN(1) \cup GateTopsN(2) }
             \* -ign: one molecule type ignored (c2 or d2), standing first / last / between the others; with and without -c for the first molecule
             \cup { [top |-> t, co |-> [kind |-> "none", k |-> 0, res |-> <<>>, ign |-> <<g>>]] : t \in GateTopsN(2) \cup GateTopsN(3), g \in {"c2", "d2"} }
             \cup { [top |-> t, co |-> [kind |-> "c", k |-> 3, res |-> <<>>, ign |-> <<g>>]] : t \in GateTopsN(2), g \in {"c2", "d2"} }
GInit == case \in GateCases /\ st = [pc |-> "gate"]
GSpec == GInit /\ [][UNCHANGED vars]_vars
GateIsExpected == GateMolsAsNamed /\ GateOK(ExpandTop(case.top), case.co)
ASSUME Fam # "gate" \/ PrintT(<<"GATEMOLS", ToJson([t \in DOMAIN GateMol |-> [input |-> [n |-> GateMol[t].n, resid |-> GateMol[t].resid, rattr |-> GateMol[t].rattr, edges |-> GateMol[t].edges],
                                                                       blocks |-> GateMol[t].blocks, links |-> GateMol[t].links, connected |-> GateConn[t]]])>>)
GateExport == PrintT(<<"CASE", ToJson([top |-> case.top, co |-> case.co,
                                       must_refuse |-> GateMustRefuse(ExpandTop(case.top), case.co), must_pass |-> GateMustPass(ExpandTop(case.top))])>>)

(* ---- the family of this run *)
FamGs == CASE Fam = "A" -> GsA(0) [] Fam = "B" -> GsB(0) [] Fam = "C" -> GsC(0) [] Fam = "D" -> GsD(0) [] Fam = "E" -> GsE(0) [] Fam = "M" -> GsM(0) [] Fam = "F" -> GsF(0) [] Fam = "N" -> GsN(0) [] Fam = "R" -> GsR(0) [] Fam = "W" -> GsW(0) [] Fam = "I" -> GsI(0) [] OTHER -> {}
FamFFs == CASE Fam = "A" -> FFsA(0) [] Fam = "B" -> FFsB(0) [] Fam = "C" -> FFsC(0) [] Fam = "D" -> FFsD(0) [] Fam = "E" -> FFsE(0) [] Fam = "M" -> FFsM(0) [] Fam = "F" -> FFsF(0) [] Fam = "N" -> FFsN(0) [] Fam = "R" -> FFsR(0) [] Fam = "W" -> FFsW(0) [] Fam = "I" -> FFsI(0) [] OTHER -> {}
FamCases == CASE Fam \in {"A", "B", "C", "D"} -> {}
              [] Fam = "M" -> PlainF({g \in GsM(0) : g[1] <= 3}, FFsM(0))
              [] Fam = "F" -> PlainF({g \in GsF(0) : g[1] <= 2 \/ g[6] \in {<<1, 2, 3>>, <<2, 1, 3>>, <<3, 1, 2>>}}, FFsF(0))
              [] Fam = "N" -> PlainF({g \in GsN(0) : g[1] <= 3}, FFsN(0))
              [] Fam = "R" -> PlainF(GsR(0), FFsR(0)) [] Fam = "W" -> PlainF({g \in GsW(0) : g[1] <= 3}, FFsW(0)) [] Fam = "devNonEdgeWide" -> CasesDevNonEdgeWide(0) [] Fam = "I" -> CasesI(0) [] Fam = "devSkipSameItp" -> CasesDevSkipSameItp(0) [] Fam = "devLastOfName" -> CasesDevLastOfName(0) [] Fam = "devRepBeforePattern" -> CasesDevRepBeforePattern(0)
              [] Fam = "devNoAtomResname" -> CasesDevNoAtomResname(0) [] Fam = "devOrderedPairs" -> CasesDevOrderedPairs(0)
              [] Fam = "E" -> PlainF(GsE(0), FFsE(0))      \* exported families are enumerated chunk by chunk, see XNext
              [] Fam = "small" -> CasesSmall(0) [] Fam = "tiny" -> CasesTiny(0) [] Fam = "small4" -> CasesSmall4(0) [] Fam = "gate" -> {} [] Fam = "missing" -> CasesMissing(0) [] Fam = "missingS" -> Plain({g \in GN(2) : TRUE}, { << >> })
              [] Fam = "devMono" -> CasesDevMono(0) [] Fam = "devOrder" -> CasesDevOrder(0) [] Fam = "devLinktype" -> CasesDevLinktype(0)
              [] Fam = "devFirstWins" -> CasesDevFirstWins(0) [] Fam = "devAmbig" -> CasesDevAmbig(0) [] Fam = "devNonEdge" -> CasesDevNonEdge(0)
              [] Fam = "devPattern" -> CasesDevPattern(0) [] Fam = "devKeepRemoved" -> CasesDevKeepRemoved(0) [] Fam = "devF13" -> CasesDevF13(0)
              [] Fam = "devDegree" -> CasesDevDegree(0) [] Fam = "devVerKey" -> CasesDevVerKey(0)
              [] Fam = "devAll" -> CasesDevMono(0) \cup CasesDevOrder(0) \cup CasesDevLinktype(0) \cup CasesDevFirstWins(0) \cup CasesDevAmbig(0) \cup CasesDevNonEdge(0)
                                   \cup CasesDevPattern(0) \cup CasesDevKeepRemoved(0) \cup CasesDevVerKey(0) \cup CasesDevNoAtomResname(0) \cup CasesDevOrderedPairs(0) \cup CasesDevLastOfName(0) \cup CasesDevRepBeforePattern(0) \cup CasesDevNonEdgeWide(0) \cup CasesDevSkipSameItp(0) \cup CasesDevF13(0) \cup CasesDevDegree(0)

(* ---- export for the S->I replay: one root state, one chunk state per residue graph (spread over the workers), one state per case *)
GSeq == SetToSeq(FamGs)
Nil == [n |-> 0]
XInit == case = Nil /\ st = [pc |-> "root", k |-> 0]
XNext == \/ /\ st.pc = "root" /\ \E k \in 1..Len(GSeq) : st' = [pc |-> "chunk", k |-> k]
            /\ UNCHANGED case
         \/ /\ st.pc = "chunk"
            /\ \E ff \in FamFFs : case' = (IF Fam = "I" THEN MkCaseI(GSeq[st.k][1], GSeq[st.k][2], GSeq[st.k][3], ff) ELSE MkF(GSeq[st.k], ff)) /\ st' = St0(case')
XSpec == XInit /\ [][XNext]_vars
IsCase == st.pc \notin {"root", "chunk"}
AtomSeq(S) == SetToSortSeq(S, AtLess)
FFSeq == SetToSeq(FamFFs)
FFIndex(c) == CHOOSE i \in DOMAIN FFSeq : FFSeq[i].links = c.links /\ FFSeq[i].blocks = c.blocks
ASSUME PrintT(<<"FFS", ToJson(FFSeq)>>)
ExpRec(c, e) ==
  LET f == PFinalE(c, e)
      as == AtomSeq(DOMAIN f.attr) IN
  [ints |-> SetToSeq(f.ints),
   edges |-> SetToSeq({AtomSeq(x) : x \in f.edges}),
   attr |-> [j \in DOMAIN as |-> [at |-> as[j], attrs |-> f.attr[as[j]]]],
   removed |-> AtomSeq(f.removed),
   calls |-> SetToSeq(f.calls),
   missing |-> SetToSeq({SetToSortSeq(x, <) : x \in Missing(c, f.edges)}),
   \* asked on the freshly mapped molecule, before any link is applied (the answer depends on the current molecule only)
   missing0 |-> SetToSeq({SetToSortSeq(x, <) : x \in Missing(c, BlockEdges(c))}),
   connected |-> ResConnected(c, f.edges, f.removed),
   \* recognition of the repaired finding F17: the interactions the molecule has if WriteBack confuses version numbers with node keys
   verkey |-> LET d == StripLi(PIntsW(c, e.app, TRUE)) IN IF d = f.ints THEN <<>> ELSE SetToSeq(d),
   verkeydiffers |-> StripLi(PIntsW(c, e.app, TRUE)) # f.ints]
InputRec(c) == [n |-> c.n, resid |-> c.resid, rattr |-> c.rattr, edges |-> c.edges, ff |-> FFIndex(c)]
\* every exported case lies in the stated domain (no ties, residue names on all link atoms); then it is printed with its expected result
Export == IsCase => LET e == PEnd(case) IN
             /\ InDomain(case) /\ NoTiesE(case, e) /\ e.stable
             /\ (Fam = "E" => DanglingTheorem(case, PFinalE(case, e)))
             /\ (Fam = "W" => WideIsShorthand(case, e))
             /\ PrintT(<<"CASE", ToJson([input |-> InputRec(case), expected |-> ExpRec(case, e)])>>)
LemmaOrder == OrderSymmetric
LemmaTables == st.pc = "begin" => ResMatchesAgree(case)
=============================================================================
