---------------------------- MODULE MC_NB ----------------------------
(* exhaustive instance of NBEngine (no export): 4 nodes in 2 molecules, 5 sites, tree threshold 1 so that *)
(* second and third trees really open, emptying and re-adding included.                                   *)
EXTENDS NBEngine
MCNodes == {0, 1, 2, 3}
MCMolOf == (0 :> 0) @@ (1 :> 0) @@ (2 :> 1) @@ (3 :> 1)
MCPts == {<<0,0,0>>, <<1,0,0>>, <<2,0,0>>, <<1,1,1>>, <<0,2,2>>}
=============================================================================
