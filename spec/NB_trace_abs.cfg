SPECIFICATION TSpec
CONSTANTS
 Nodes <- TNodes
 MolOf <- TMolOf
 Pts <- TPts
 LX = 4
 LY = 4
 LZ = 4
 Cut2 = 1
 Thr = 5000
 Filler = 0
 DevReadd = FALSE
 MaxOps = 0
INVARIANT Views
INVARIANT Mark
INVARIANT Prog
POSTCONDITION Accepted
CHECK_DEADLOCK FALSE
