SPECIFICATION IndSpec
CONSTANTS
 Nodes <- INodes
 MolOf <- IMolOf
 Pts <- IPts
 LX = 3
 LY = 3
 LZ = 3
 Cut2 = 1
 Thr = 1
 Filler = 0
 DevReadd = FALSE
 MaxOps = 1
 MaxTrees = 3
INVARIANT Views
INVARIANT QueriesAgree
PROPERTY LastGiven
CHECK_DEADLOCK FALSE
