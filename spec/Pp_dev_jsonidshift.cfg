SPECIFICATION Spec
CONSTANTS
 Cases <- DevCases
 MaxFail = 0
 DevItpBeforeLinks = FALSE
 DevGroBlockOrder = FALSE
 DevGateSkipped = FALSE
 DevJsonIdShift = TRUE
 DevContinueAfterFail = FALSE
INVARIANT E4
CHECK_DEADLOCK FALSE
