SPECIFICATION XSpec
CONSTANTS
 Mols <- MCMols
 Dev = "none"
 FixedOrder = TRUE
INVARIANT ExportInv
CHECK_DEADLOCK FALSE
