INIT MCInit
NEXT XNext
CONSTANTS
 Mols = {}
 Dev = "none"
 FixedOrder = TRUE
INVARIANT ExportInv
CHECK_DEADLOCK FALSE
