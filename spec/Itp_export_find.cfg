SPECIFICATION XSpec
CONSTANTS
 Mols <- MolsFind
 Dev = "none"
 FixedOrder = TRUE
INVARIANT ExportInv
CHECK_DEADLOCK FALSE
