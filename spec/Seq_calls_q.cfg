SPECIFICATION HSpec
CONSTANTS
 Dev = {}
 HDev = {}
 MaxOps = 3
 MaxWrites = 1
 InitX = {1, 2, 3}
 InitY = {4}
INVARIANT Shape
INVARIANT OrigKept
INVARIANT CallLaw
INVARIANT Repeatable
INVARIANT ContentLaws
INVARIANT HistExport
PROPERTY CallsOnlyRead
CHECK_DEADLOCK FALSE
