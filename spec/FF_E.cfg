SPECIFICATION Spec
CONSTANTS
 Inputs <- MCInputs
 Dev <- NoDev
INVARIANT C14_Inv
INVARIANT C01_Inv
INVARIANT Base_Inv
CHECK_DEADLOCK FALSE
