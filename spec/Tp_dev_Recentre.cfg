SPECIFICATION Spec
CONSTANTS
 Content <- MCContent
 Systems <- MCSystemsDev
 BuildFiles <- MCBuildDev
 DevVolLost = FALSE
 DevVolOverwritten = FALSE
 DevUserRegen = FALSE
 DevRecentre = TRUE
 DevKeySites = FALSE
 DevProcForgets = FALSE
 LargeN = 16
 DevSkipVSWhenNothingToOptimise = FALSE
INVARIANT UserTemplateUnchanged
CHECK_DEADLOCK FALSE
