SPECIFICATION Spec
CONSTANTS
 Content <- MCContent
 Systems <- MCSystemsDev
 BuildFiles <- MCBuildDev
 DevVolLost = FALSE
 DevVolOverwritten = FALSE
 DevUserRegen = FALSE
 DevRecentre = TRUE
INVARIANT UserTemplateUnchanged
CHECK_DEADLOCK FALSE
