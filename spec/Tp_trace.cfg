SPECIFICATION TSpec
CONSTANTS
 Content <- TContent
 Systems <- TSystems
 BuildFiles <- TBuild
 DevVolLost = FALSE
 DevVolOverwritten = FALSE
 DevUserRegen = FALSE
 DevRecentre = FALSE
 DevKeySites = FALSE
 DevProcForgets = FALSE
 LargeN = 16
 DevSkipVSWhenNothingToOptimise = FALSE
INVARIANT Mark
INVARIANT Prog
POSTCONDITION Accepted
CHECK_DEADLOCK FALSE
