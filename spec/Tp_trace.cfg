SPECIFICATION TSpec
CONSTANTS
 Content <- TContent
 Systems <- TSystems
 BuildFiles <- TBuild
 DevVolLost = FALSE
 DevVolOverwritten = FALSE
 DevUserRegen = FALSE
 DevRecentre = FALSE
INVARIANT Mark
INVARIANT Prog
POSTCONDITION Accepted
CHECK_DEADLOCK FALSE
