SPECIFICATION HSpec
CONSTANTS
 FFs <- FFcat
 Dev <- DevFlushLate
 HInputs <- HIn3
 HLib <- NoLib3
 NInputs <- NIn
 MaxLen = 3
 Fresh <- FreshOf
 RunIn <- RunInMC
 Proc0 <- P0
INVARIANT HistoryIndependent
INVARIANT RepeatStable

CHECK_DEADLOCK FALSE
