SPECIFICATION Spec
CONSTANTS
 TypeDefs <- MCTypeDefs
 Mols <- MCMolsSmall
 Fudges <- MCFudgesSmall
 Angles <- MCAngles
 DevImproper = FALSE
 DevPerAtom = TRUE
 DevNoFudge = FALSE
 DevOtherTemplate = FALSE
 DevCentreOther = FALSE
INVARIANT Scaled
CHECK_DEADLOCK FALSE
