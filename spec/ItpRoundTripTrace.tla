---------------------------- MODULE ItpRoundTripTrace ----------------------------
(* I->S for C11: records of real gen_params runs are validated in batches.  One record =                                   *)
(*   written : the output file exists after gen_params returned                                                            *)
(*   built   : projection of the molecule held in memory right before the writer was called (token space)                  *)
(*   lines   : the text that was written, split into abstract lines [k, s, t] (no interpretation of the tokens)            *)
(*   read    : projection of the molecule Topology.from_gmx_topfile returns for the file, read2: MetaMolecule.from_itp     *)
(*   req, missing : requested residue graph and the missing-link warnings; rg, rg2: residue graphs of the two readers      *)
(* Stages (one step each, so that the number of matched steps names the failing clause):                                   *)
(*   1 written  2 Read(lines) ok and = built  3 read = Read(lines)  4 read2 = read  5 residue graph (when nothing missing) *)
EXTENDS ItpRoundTrip, Json, IOUtils
VARIABLES tid, l
Doc == JsonDeserialize(IOEnv.TRACE_FILE)
Recs == Doc.records
ASSUME TLCSet(1, {}) /\ TLCSet(2, [t \in 1..Len(Recs) |-> 0])
Rec == Recs[tid]
NStages == 5
GraphOf(g) == [nodes |-> ToSet(g.nodes), edges |-> {ToSet(e) : e \in ToSet(g.edges)}]
FoldOfLines == Read(Rec.lines)
Stage(k) == CASE k = 1 -> Rec.written
              [] k = 2 -> FoldOfLines.ok /\ Same(FoldOfLines, Rec.built)
              [] k = 3 -> Same(Rec.read, FoldOfLines)
              [] k = 4 -> Same(Rec.read2, Rec.read)
              [] OTHER -> (Len(Rec.missing) = 0 => /\ GraphOf(Rec.rg) = GraphOf(Rec.req) /\ GraphOf(Rec.rg2) = GraphOf(Rec.req)
                                                    /\ ReadResGraph(FoldOfLines) = GraphOf(Rec.req))
Frozen == /\ mol = 0 /\ pc = "trace" /\ out = <<>> /\ secs = {} /\ cur = "" /\ groups = <<>> /\ pend = <<>> /\ gopen = NoGuard
          /\ late = FALSE /\ rd = R0 /\ ri = 1
TInit == Frozen /\ tid \in 1..Len(Recs) /\ l = 1
TNext == /\ l <= NStages /\ Stage(l) /\ l' = l + 1 /\ tid' = tid /\ UNCHANGED vars
TSpec == TInit /\ [][TNext]_<<vars, tid, l>>
Mark == (l = NStages + 1) => TLCSet(1, TLCGet(1) \cup {tid})
Prog == TLCSet(2, [TLCGet(2) EXCEPT ![tid] = IF @ < l - 1 THEN l - 1 ELSE @])
Accepted == IF TLCGet(1) = 1..Len(Recs) THEN TRUE
            ELSE (PrintT(<<"REJECTED", ToJson(SetToSeq({<<t, TLCGet(2)[t]>> : t \in (1..Len(Recs)) \ TLCGet(1)}))>>) /\ FALSE)
=============================================================================
