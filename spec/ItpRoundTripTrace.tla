---------------------------- MODULE ItpRoundTripTrace ----------------------------
(* I->S for C11: records of real gen_params runs are validated in batches.  One record =                                   *)
(*   written : the output file exists after gen_params returned                                                            *)
(*   built   : projection of the molecule held in memory right before the writer was called (token space, sections as in   *)
(*             memory)                                                                                                     *)
(*   lines   : the text that was written, split into abstract lines [k, s, t] (no interpretation of the tokens)            *)
(*   read    : projection of the molecule Topology.from_gmx_topfile returns for the file, read2: MetaMolecule.from_itp     *)
(*   req, missing : requested residue graph and the missing-link warnings; rg, rg2: residue graphs of the two readers      *)
(* Stages (one step each, so that the number of matched steps names the failing clause):                                   *)
(*   1 written  2 Read(lines) ok and = built  3 read = Read(lines)  4 read2 = read  5 residue graph (when nothing missing) *)
(* Findings recorded as known are classified exactly: the observation must equal what Write/Read of the specification give *)
(* for that molecule (mass read as charge; residue edge lost because no bond or constraint carries it).                    *)
EXTENDS ItpRoundTrip, Json, IOUtils
VARIABLES tid, l
Doc == JsonDeserialize(IOEnv.TRACE_FILE)
Recs == Doc.records
KnownMassOnly == Doc.known_massonly
KnownUnbacked == Doc.known_unbacked
KnownArz == Doc.known_arz
ASSUME TLCSet(1, {}) /\ TLCSet(2, [t \in 1..Len(Recs) |-> 0]) /\ TLCSet(3, {})
Rec == Recs[tid]
NStages == 5
GraphOf(g) == [nodes |-> ToSet(g.nodes), edges |-> {ToSet(e) : e \in ToSet(g.edges)}]
\* the molecule in memory, in the sections a file has
Built == [Rec.built EXCEPT !.inter = [i \in DOMAIN Rec.built.inter |-> [Rec.built.inter[i] EXCEPT !.sec = FileSec(@)]]]
FoldOfLines == Read(Rec.lines)
\* known finding "mass-without-charge": the columns of such an atom shift by one
MassOnly(a) == a.charge = "" /\ a.mass # ""
Shifted(p) == [p EXCEPT !.atoms = [i \in DOMAIN p.atoms |-> IF MassOnly(p.atoms[i]) THEN [p.atoms[i] EXCEPT !.charge = p.atoms[i].mass, !.mass = ""]
                                                                                   ELSE p.atoms[i]]]
HasMassOnly(p) == \E i \in DOMAIN p.atoms : MassOnly(p.atoms[i])
Note(code) == TLCSet(3, TLCGet(3) \cup {<<tid, code>>})
Stage(k) ==
    CASE k = 1 -> Rec.written
      [] k = 2 -> /\ FoldOfLines.ok
                  /\ IF SameFast(FoldOfLines, Built) THEN TRUE
                     ELSE IF KnownMassOnly /\ HasMassOnly(Built) /\ SameFast(FoldOfLines, Shifted(Built)) THEN Note("mass-without-charge")
                     ELSE (KnownArz /\ SameFastX(FoldOfLines, Built, {"angle_restraints_z"}) /\ Note("angle-restraints-z-reversed"))
      [] k = 3 -> SameFast(Rec.read, FoldOfLines)      \* (a listing the writer turned round is returned as written)
      [] k = 4 -> SameFast(Rec.read2, Rec.read)
      [] OTHER -> (Len(Rec.missing) = 0 =>
                      /\ GraphOf(Rec.rg) = ReadResGraph(FoldOfLines) /\ GraphOf(Rec.rg2) = GraphOf(Rec.rg)
                      /\ IF GraphOf(Rec.rg) = GraphOf(Rec.req) THEN TRUE
                         ELSE ( /\ KnownUnbacked /\ GraphOf(Rec.rg).nodes = GraphOf(Rec.req).nodes
                                /\ GraphOf(Rec.rg).edges \subseteq GraphOf(Rec.req).edges /\ Note("residue-edge-without-bond")))
Frozen == /\ mol = 0 /\ pc = "trace" /\ out = <<>> /\ secs = {} /\ cur = "" /\ groups = <<>> /\ pend = <<>> /\ gopen = NoGuard
          /\ late = FALSE /\ rd = R0 /\ ri = 1
TInit == Frozen /\ tid \in 1..Len(Recs) /\ l = 1
TNext == /\ l <= NStages /\ Stage(l) /\ l' = l + 1 /\ tid' = tid /\ UNCHANGED vars
TSpec == TInit /\ [][TNext]_<<vars, tid, l>>
Mark == (l = NStages + 1) => TLCSet(1, TLCGet(1) \cup {tid})
Prog == TLCSet(2, [TLCGet(2) EXCEPT ![tid] = IF @ < l - 1 THEN l - 1 ELSE @])
Accepted == /\ PrintT(<<"KNOWN", ToJson(SetToSeq(TLCGet(3)))>>)
            /\ IF TLCGet(1) = 1..Len(Recs) THEN TRUE
               ELSE (PrintT(<<"REJECTED", ToJson(SetToSeq({<<t, TLCGet(2)[t]>> : t \in (1..Len(Recs)) \ TLCGet(1)}))>>) /\ FALSE)
=============================================================================
