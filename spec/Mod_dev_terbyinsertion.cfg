INIT MCInitTiny
NEXT Next
CONSTANTS
 Inputs = {}
 LibOf <- MCLibOf
 Dev <- DevTerByInsertion
 FreeOrder = TRUE
INVARIANT TerminiLaw
CHECK_DEADLOCK FALSE
