SPECIFICATION TSpec
CONSTANTS
 DevChoices = {{}}
INVARIANT Mark
POSTCONDITION AllJudged
CHECK_DEADLOCK FALSE
