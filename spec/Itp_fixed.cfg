SPECIFICATION Spec
CONSTANTS
 Mols <- MCMols
 Dev = "none"
 FixedOrder = TRUE
INVARIANT WriterMeetsWrite
INVARIANT ReaderIsFold
INVARIANT RoundTripI
INVARIANT ResGraphI
INVARIANT GuardDiscipline
CHECK_DEADLOCK FALSE
