INIT MCInit
NEXT Next
CONSTANTS
 Mols = {}
 Dev = "none"
 FixedOrder = TRUE
INVARIANT WriterMeetsWrite
INVARIANT ReaderIsFold
INVARIANT RoundTripI
INVARIANT FastAgrees
INVARIANT ResGraphI
INVARIANT GuardDiscipline
CHECK_DEADLOCK FALSE
