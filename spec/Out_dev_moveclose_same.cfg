SPECIFICATION Spec
CONSTANTS
 Variants <- MCSameDev
 NBk = 4
 Inits <- MCInits
 InoutInits <- MCInoutInits
 DevInits <- MCDevInits
 RouteInits <- MCRouteInits
 Runs = 1
 QueuePersists = FALSE
 Crash1 <- MCNone
 Crash2 <- MCNone
 Targets2 <- MCTargets1
 DevPlainOpen = FALSE
 DevFlushEarly = FALSE
 DevBackupOverwrite = FALSE
 DevNoBackup = FALSE
 DevSeqOpenEarly = FALSE
 DevLinkDirect = FALSE
 DevBackupCount = FALSE
 DevInplaceInput = FALSE
 DevMoveBeforeClose = TRUE
 DevRouteDiscard = FALSE
 DevStageFallback = FALSE
 DevBackupSkip = FALSE
 EnvInits <- MCEnvInits
INVARIANT SuccessState
CHECK_DEADLOCK FALSE
