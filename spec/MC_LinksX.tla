---------------------------- MODULE MC_LinksX ----------------------------
(* C10, family X (independent seed7-C10-2): links given by atom number ([ link ] with [ molmeta ] by_atom_id true).               *)
(* They are applied by the last loop of ApplyLinks.run_molecule, after the links that are matched on the residue graph were       *)
(* written, and may be the ONLY connection of two residues that are neighbours in the residue graph.  A case of the family is a    *)
(* case of family N (residue graph x names x assignment of residue ids to node keys x force field) plus c.xlinks, built from the    *)
(* atom numbers of that very molecule.  Exported for the S->I replay, I-layer |= P-layer on all of them (Lk_small_X), and the       *)
(* deviation DevMissingBeforeExplicit is refuted on the smallest of them.                                                          *)
EXTENDS MC_Links

NumOf(c, at) == NodeKey(c, at) + 1                      \* the number an atom has in the written molecule
FirstOf(c, r) == NumOf(c, <<r, 1>>)
LastOf(c, r) == NumOf(c, <<r, NAt(c, r)>>)
XI(kind, nums, par) == [kind |-> kind, nums |-> nums, par |-> par, ver |-> 1]
\* the bond for residue edge j, written from the far side (so that it never is the bond a '+' / '>' link writes on the same atoms)
XBondOf(c, j, par) == XI("bonds", <<FirstOf(c, c.edges[j].b), LastOf(c, c.edges[j].a)>>, par)
NonAdj(c) == { p \in Rs(c) \X Rs(c) : p[1] < p[2] /\ ~REdge(c, p[1], p[2]) }
XShapes == {"all", "first", "angle", "nonadj", "mixed", "intra"} \cup (IF Fam = "Xfull" THEN {"last"} ELSE {})
XShape(c, sh) ==
  LET ne == Len(c.edges) IN
  CASE sh = "all"    -> [j \in 1..ne |-> XBondOf(c, j, "0.4")]                                       \* every residue edge has its bond
    [] sh = "first"  -> IF ne >= 1 THEN <<XBondOf(c, 1, "0.4")>> ELSE <<>>                            \* one residue edge only
    [] sh = "last"   -> IF ne >= 2 THEN <<XBondOf(c, ne, "0.41")>> ELSE <<>>
    [] sh = "angle"  -> IF ne = 0 THEN <<>>                                                           \* an angle: both consecutive pairs become edges
                        ELSE LET a == c.edges[ne].a  b == c.edges[ne].b IN
                             IF NAt(c, a) >= 2 THEN <<XI("angles", <<FirstOf(c, a), LastOf(c, a), FirstOf(c, b)>>, "0.5")>>
                             ELSE IF NAt(c, b) >= 2 THEN <<XI("angles", <<LastOf(c, a), FirstOf(c, b), LastOf(c, b)>>, "0.5")>>
                             ELSE <<XI("constraints", <<LastOf(c, a), FirstOf(c, b)>>, "0.5")>>
    [] sh = "nonadj" -> IF NonAdj(c) = {} THEN <<>>                                                   \* joins two residues that are NOT neighbours: no residue edge is realised by it
                        ELSE LET p == CHOOSE q \in NonAdj(c) : \A q2 \in NonAdj(c) : q[1] < q2[1] \/ (q[1] = q2[1] /\ q[2] <= q2[2]) IN
                             <<XI("bonds", <<LastOf(c, p[1]), FirstOf(c, p[2])>>, "0.42")>>
    [] sh = "mixed"  -> IF ne = 0 THEN <<>>                                                           \* two kinds, two links
                        ELSE <<XI("constraints", <<LastOf(c, c.edges[1].a), FirstOf(c, c.edges[1].b)>>, "0.6")>> \o (IF ne >= 2 THEN <<XBondOf(c, ne, "0.43")>> ELSE <<>>)
    [] sh = "intra"  -> (IF NAt(c, FirstRes(c)) >= 2 THEN <<XI("bonds", <<LastOf(c, FirstRes(c)), FirstOf(c, FirstRes(c))>>, "0.7")>> ELSE <<>>)   \* inside the first residue, whose fragment graph has edges
                        \o (IF ne >= 1 THEN <<XBondOf(c, ne, "0.44")>> ELSE <<>>)
MkX(g, ff, sh) == LET c == MkF(g, ff) IN [xlinks |-> XShape(c, sh)] @@ c
\* the stated domain: the atoms named are still there (not removed by a link) and no interaction is redefined
\* (force fields that remove no atom need no filter: the bonds are written from the far side; ExportX re-checks the domain of every case)
Removes(c) == \E k \in DOMAIN c.links : \E a \in DOMAIN c.links[k].atoms : c.links[k].atoms[a].del
XOK(c) == ~Removes(c) \/ (LET e == PEnd(c) IN InDomain(c) /\ NoTiesE(c, e) /\ e.stable)

\* quick: identity, reversal and one rotation of the residue ids; thorough (Fam = "Xfull"): every assignment
RevPerm(n) == [r \in 1..n |-> n + 1 - r]
RotPerm(n) == [r \in 1..n |-> (r % n) + 1]
SomePerms(G) == UNION { { <<g[1], g[2], g[3], g[4], g[5], p>> : p \in {[r \in 1..g[1] |-> r], RevPerm(g[1]), RotPerm(g[1])} } : g \in G }
GsX4 == { g \in GN(4) : g[1] = 4 /\ Cardinality(g[2]) = 3 /\ g[3] = <<"A", "B", "A", "A">> }
GsX(u) == IF Fam = "Xfull" THEN WithPerms(GN(3)) \cup { <<g[1], g[2], g[3], g[4], g[5], p>> : g \in {h \in GN(4) : h[1] = 4 /\ Cardinality(h[2]) = 3 /\ h[3] \in {<<"A", "B", "A", "A">>, <<"A", "A", "A", "A">>}},
                                                                   p \in {<<1, 2, 3, 4>>, <<3, 1, 4, 2>>, RevPerm(4), RotPerm(4)} }
          ELSE SomePerms(GN(3)) \cup { <<g[1], g[2], g[3], g[4], g[5], p>> : g \in GsX4, p \in {<<1, 2, 3, 4>>, <<3, 1, 4, 2>>} }
FFsX(u) == FFof({ << >>, << LB(P1, "0.2") >>, << LA(ST, "0.2") >>, << LB(GT, "0.2"), TermDel >> })
GSeqX == SetToSeq(GsX(0))
FFSeqX == SetToSeq(FFsX(0))
FFIndexX(c) == CHOOSE i \in DOMAIN FFSeqX : FFSeqX[i].links = c.links /\ FFSeqX[i].blocks = c.blocks
ASSUME PrintT(<<"FFSX", ToJson(FFSeqX)>>)

(* ---- export: root -> one chunk per residue graph -> one state per case *)
XXNext == \/ /\ st.pc = "root" /\ \E k \in 1..Len(GSeqX) : st' = [pc |-> "chunk", k |-> k]
             /\ UNCHANGED case
          \/ /\ st.pc = "chunk"
             /\ \E ff \in FFsX(0), sh \in XShapes : LET c == MkX(GSeqX[st.k], ff, sh) IN XOK(c) /\ case' = c /\ st' = St0(c)
XXSpec == XInit /\ [][XXNext]_vars
InputRecX(c) == [n |-> c.n, resid |-> c.resid, rattr |-> c.rattr, edges |-> c.edges, ff |-> FFIndexX(c), xlinks |-> c.xlinks]
ExpRecX(c, e) == LET f == PFinalE(c, e)
                     d == StripLi(PIntsW(c, e.app, TRUE)) \cup XInts(c)
                 IN [ExpRec(c, e) EXCEPT !.verkey = IF d = f.ints THEN <<>> ELSE SetToSeq(d), !.verkeydiffers = d # f.ints]
\* what the family is there for: a residue edge whose only atom-level connection is made by a link given by atom number
OnlyExplicit(c, e) == Missing(c, PFinalE(c, e).edges) # Missing(c, Final(c, e.V, PInts(c, e.app), PRemoved(c, e.app), e.calls).edges)
ExportX == IsCase => LET e == PEnd(case) IN
              /\ InDomain(case) /\ NoTiesE(case, e) /\ e.stable
              /\ PrintT(<<"CASE", ToJson([input |-> InputRecX(case), expected |-> ExpRecX(case, e), onlyexplicit |-> OnlyExplicit(case, e)])>>)

(* ---- I-layer |= P-layer on the family (three residues), and the sensitivity instance *)
CasesXSmall == { c \in { MkX(g, ff, sh) : g \in {h \in GsX(0) : h[1] <= 2 \/ (h[1] = 3 /\ (Fam = "Xfull" \/ h[6] = <<1, 2, 3>> \/ (h[6] = RotPerm(3) /\ AllA(h))))}, ff \in FFsX(0), sh \in XShapes } : XOK(c) }
AA2 == <<2, {{1, 2}}, <<"A", "A">>, NoLab({{1, 2}}), NoLabs(2)>>
CasesDevMissingBeforeExplicit == { MkX(AA2, [blocks |-> Blocks, links |-> << >>], "first"), MkX(AA2, [blocks |-> Blocks, links |-> << LB(P1, "0.2") >>], "first") }
=============================================================================
