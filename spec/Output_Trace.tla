---------------------------- MODULE Output_Trace ----------------------------
(* I->S for C20: stage-boundary snapshots recorded from real runs of gen_params / gen_coords / gen_seq     *)
(* (successful, with an injected exception, or failing by themselves) are validated against Output action   *)
(* by action: every recorded event must be the label of an enabled action and the recorded directory,       *)
(* writer queue and loose temporary files must equal the specification's state after that action.           *)
(* The micro-steps inside a stage are internal (no event).  The P-layer invariants are checked on the       *)
(* matched states (cfg), i.e. on the states the real programs went through.                                 *)
EXTENDS Output, Json, IOUtils, SequencesExt
CONSTANT TraceDoc      \* cfg: TraceDoc <- LoadedDoc (the recorded traces)
VARIABLES tid, l
LoadedDoc == JsonDeserialize(IOEnv.TRACE_FILE)
Doc == TraceDoc
Traces == Doc.traces
TNBk == Doc.nbk
TRuns == Doc.runs
VarOf(e) == [prog |-> e.var.prog, on |-> ToSet(e.var.on), route |-> e.var.route, inout |-> e.var.inout, dev |-> e.var.dev, env |-> e.var.env]
\* the variants occurring in the document, listed by the recorder (Doc.variants): only the range of NextRun's choice; a
\* comprehension over all events of all traces here costs a JSON parse per reference at start-up (measured: quadratic)
TVariants == { [prog |-> Doc.variants[i].prog, on |-> ToSet(Doc.variants[i].on), route |-> Doc.variants[i].route, inout |-> Doc.variants[i].inout, dev |-> Doc.variants[i].dev, env |-> Doc.variants[i].env] : i \in 1..Len(Doc.variants) }
TInits == {}
TNone == {}
TTargets == {"out", "out2"}
TAllPts == [stage : UNION {StageSet(v) : v \in TVariants}, when : {"before", "after", "mid", "inside", "env"}]
ASSUME TLCSet(1, {}) /\ TLCSet(2, [t \in 1..Len(Traces) |-> 0])
Evs == Traces[tid].events
Count(s, c) == Cardinality({i \in DOMAIN s : s[i] = c})
SameBag(a, b) == Len(a) = Len(b) /\ \A c \in ToSet(a) \cup ToSet(b) : Count(a, c) = Count(b, c)
LabelMatches(e) == last' = [kind |-> e.ev.kind, stage |-> e.ev.stage, when |-> e.ev.when]
RunMatches(e)   == run' = e.run /\ var' = VarOf(e) /\ target' = e.target
DirMatches(e)   == \A p \in AllPaths : fs'[p] = e.fs[p]
QueueMatches(e) == /\ Len(queue') = Len(e.queue)
                   /\ \A i \in 1..Len(queue') : queue'[i].target = e.queue[i].target /\ queue'[i].content = e.queue[i].content
LooseMatches(e) == SameBag(IF cur' # Nil THEN Append(loose', cur'.content) ELSE loose', e.loose)
TInit == /\ tid \in 1..Len(Traces) /\ l = 2
         /\ LET e == Traces[tid].events[1] IN
              /\ e.ev.kind = "init" /\ Len(e.queue) = 0 /\ Len(e.loose) = 0
              /\ run = 1 /\ var = VarOf(e) /\ target = e.target
              /\ fs = [p \in AllPaths |-> e.fs[p]] /\ fs0 = fs
         /\ queue = <<>> /\ cur = Nil /\ loose = <<>>
         /\ pc = 0 /\ sub = "idle" /\ idx = 0 /\ status = "running"
         /\ last = [kind |-> "init", stage |-> "-", when |-> "-"]
         /\ envst = "ok"
TNext == /\ Next
         /\ IF last'.kind = "micro" THEN l' = l
            ELSE /\ l <= Len(Evs)
                 /\ LabelMatches(Evs[l]) /\ RunMatches(Evs[l]) /\ DirMatches(Evs[l]) /\ QueueMatches(Evs[l]) /\ LooseMatches(Evs[l])
                 /\ l' = l + 1
         /\ tid' = tid
TSpec == TInit /\ [][TNext]_<<vars, tid, l>>
Mark == (l = Len(Evs) + 1) => TLCSet(1, TLCGet(1) \cup {tid})
Prog == TLCSet(2, [TLCGet(2) EXCEPT ![tid] = IF @ < l - 1 THEN l - 1 ELSE @])
Accepted == IF TLCGet(1) = 1..Len(Traces) THEN TRUE
            ELSE (PrintT(<<"REJECTED", ToJson(SetToSeq({<<t, TLCGet(2)[t]>> : t \in (1..Len(Traces)) \ TLCGet(1)}))>>) /\ FALSE)
=============================================================================
