SPECIFICATION Spec
CONSTANTS
 Inputs <- MCInputs
 Dev <- DevExplicitAfterExcl
INVARIANT C14_Inv
CHECK_DEADLOCK FALSE
