SPECIFICATION Spec
CONSTANTS
 Configs <- MCBld
 DevUserLast = FALSE
 DevFirstWins = FALSE
 DevBibMerge = FALSE
 DevSplitAll = FALSE
 DevTmplMerge = TRUE
 DevSkipUserUnknown = FALSE
 DevIdReuse = FALSE
INVARIANT StoreIsDeclarative
CHECK_DEADLOCK FALSE
