SPECIFICATION Spec
CONSTANTS
 Instances <- MCSmall
 MaxFail = 3
 Dev <- DevNoCleanup
INVARIANT AttemptClean
CHECK_DEADLOCK FALSE
