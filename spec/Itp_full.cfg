INIT MCInit
NEXT Next
CONSTANTS
 Mols = {}
 Dev = "none"
 FixedOrder = FALSE
INVARIANT LawsAtStart
INVARIANT WriterMeetsWrite
INVARIANT ReaderIsFold
INVARIANT RoundTripI
INVARIANT ResGraphI
INVARIANT GuardDiscipline
INVARIANT ExportInv
PROPERTY OnlyGuardActionsTouchDepth
CHECK_DEADLOCK FALSE
