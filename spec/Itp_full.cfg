SPECIFICATION Spec
CONSTANTS
 Mols <- MCMols
 Dev = "none"
 FixedOrder = FALSE
INVARIANT LawsAtStart
INVARIANT WriterMeetsWrite
INVARIANT ReaderIsFold
INVARIANT RoundTripI
INVARIANT ResGraphI
INVARIANT GuardDiscipline
INVARIANT ExportInv
PROPERTY OnlyGuardActionsTouchDepth
CHECK_DEADLOCK FALSE
