--------------------------- MODULE BendingExport ---------------------------
(* S->I export for X03(a): every behaviour of MaxCalls calls of bendiness() on the rank grid, one record per call.      *)
EXTENDS BendingMC, Json
VARIABLE hist
XInit == Init /\ hist = <<>>
XNext == /\ Next
         /\ hist' = IF pc = "ret" THEN Append(hist, [tr |-> call.tr, gp |-> call.gp, p |-> cur, t |-> thr, res |-> res, prev |-> prev])
                                  ELSE hist
XSpec == XInit /\ [][XNext]_<<vars, hist>>
ExportInv == (ncalls = MaxCalls /\ pc = "idle") => PrintT(<<"CASE", ToJson(hist)>>)
=============================================================================
