INIT MCInitTiny
NEXT Next
CONSTANTS
 Inputs = {}
 LibOf <- MCLibOf
 Dev <- DevResidIgnored
 FreeOrder = TRUE
INVARIANT Conform
CHECK_DEADLOCK FALSE
