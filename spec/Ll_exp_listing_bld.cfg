SPECIFICATION Spec
CONSTANTS
 Configs <- MCBldListing
 DevUserLast = FALSE
 DevFirstWins = FALSE
 DevBibMerge = FALSE
 DevSplitAll = FALSE
 DevTmplMerge = FALSE
 DevSkipUserUnknown = FALSE
 DevIdReuse = FALSE
INVARIANT ListingOrderIrrelevant
CHECK_DEADLOCK FALSE
