SPECIFICATION Spec
CONSTANTS
 Instances <- MCSmall
 MaxFail = 3
 Dev <- DevRewindLate
INVARIANT Final
CHECK_DEADLOCK FALSE
