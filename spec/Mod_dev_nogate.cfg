INIT MCInitTiny
NEXT Next
CONSTANTS
 Inputs = {}
 LibOf <- MCLibOf
 Dev <- DevNoGate
 FreeOrder = TRUE
INVARIANT Frame
CHECK_DEADLOCK FALSE
