SPECIFICATION Spec
CONSTANTS
 Inputs = {1, 2, 3}
 Roles = {"top", "inc", "struct", "bld"}
 MaxCalls = 3
 HDev = {}
INVARIANT HistoryFree
INVARIANT ConsistentInput
INVARIANT NoMemory
INVARIANT ExportInv
CHECK_DEADLOCK FALSE
