------------------------------ MODULE Bending ------------------------------
(***************************************************************************)
(* X03(a) - the bending-probability acceptance of the random walk          *)
(* (polyply/src/random_walk.py: RandomWalk.bendiness;                      *)
(*  nonbond_engine.py: compute_bending_probability; build file directive   *)
(*  [ bending ] -> topology.bending -> NonBondEngine.bending_matrix).       *)
(*                                                                         *)
(* Probabilities are real numbers; the acceptance rule only compares them. *)
(* The specification therefore works on RANKS: integers that embed the     *)
(* real values order-isomorphically.  In the exhaustive instance (one      *)
(* bending constant lp > 0, so the density grows strictly with the angle)  *)
(* the rank of a probability is 10 x the angle in degrees that has this    *)
(* probability; in trace validation the harness ranks the floats that      *)
(* occurred in one walk.  Which float a probability is, and that it is the *)
(* documented density of the monitored angle, is the numeric monitor's     *)
(* business (booleans prob_ok / bounds_ok on the events).                  *)
(*                                                                         *)
(* I-layer: one action per step of bendiness(): Call (find the two         *)
(* predecessors and the constant), Skip (early return True), Prob          *)
(* (compute_bending_probability), Improve (prev_prob < prob), Draw         *)
(* (random.uniform between the densities at 1 and 179 degrees), Threshold  *)
(* (test_prob < prob), Return.  prev_prob lives as long as the RandomWalk   *)
(* object (one placement attempt of one molecule) and starts at 1.         *)
(* P-layer: what the sampling means, stated without the control flow:      *)
(* AcceptRule, PrevIsLastAccepted, StraightAccepted, RejectKeeps,          *)
(* DrawOnlyWhenNeeded, LookupRule.                                         *)
(***************************************************************************)
EXTENDS Integers, Sequences, FiniteSets, TLC

CONSTANTS Cands,      \* ranks a candidate's probability may take
          Thrs,       \* ranks the uniform draw may return
          LoC, HiC,   \* ranks of the bounds of the draw (density at 1 and at 179 degrees)
          TopC,       \* rank of the density at 180 degrees (its maximum for lp > 0)
          InitRank,   \* rank of the initial prev_prob (the number 1)
          Triples,    \* resname triples (new residue, predecessor, predecessor's predecessor) a call may meet
          Table,      \* the [ bending ] lines: set of [k |-> triple, nz |-> constant is non-zero]
          MaxCalls,
          DevNonStrict,       \* deviation: prev_prob <= prob instead of <
          DevKeepPrev,        \* deviation: prev_prob not updated when accepted by the threshold test
          DevUpdateOnReject,  \* deviation: prev_prob updated although the candidate is rejected
          DevThrReversed,     \* deviation: accepted when test_prob > prob
          DevKeyReversed      \* deviation: constant looked up under (c, b, a)

VARIABLES prev,     \* self.prev_prob (rank)
          pc, call, \* control state; call = [tr, gp]: triple and "b has exactly one predecessor"
          cur,      \* prob of the candidate (rank), -1: not evaluated
          bnd,      \* [lo, hi, top] of the constant in use
          thr,      \* test_prob (rank), -1: not drawn
          res,      \* return value
          prev0,    \* history: prev_prob when the call began
          lastAcc,  \* history: probability of the last accepted evaluated candidate (InitRank: none yet)
          ncalls
vars == <<prev, pc, call, cur, bnd, thr, res, prev0, lastAcc, ncalls>>

NoBnd == [lo |-> -1, hi |-> -1, top |-> -1]
Key(tr) == IF DevKeyReversed THEN <<tr[3], tr[2], tr[1]>> ELSE tr
HasConstant(tr) == \E e \in Table : e.k = Key(tr) /\ e.nz
ShouldEval(c) == c.gp /\ HasConstant(c.tr)

Init == /\ prev = InitRank /\ pc = "idle" /\ call = [tr |-> <<"-", "-", "-">>, gp |-> FALSE]
        /\ cur = -1 /\ bnd = NoBnd /\ thr = -1 /\ res = TRUE /\ prev0 = InitRank /\ lastAcc = InitRank /\ ncalls = 0

Call(tr, gp) == /\ pc = "idle" /\ ncalls < MaxCalls
                /\ call' = [tr |-> tr, gp |-> gp] /\ pc' = "called" /\ prev0' = prev
                /\ cur' = -1 /\ thr' = -1 /\ bnd' = NoBnd
                /\ UNCHANGED <<prev, res, lastAcc, ncalls>>
Skip == /\ pc = "called" /\ ~ShouldEval(call)
        /\ res' = TRUE /\ pc' = "ret"
        /\ UNCHANGED <<prev, call, cur, bnd, thr, prev0, lastAcc, ncalls>>
Prob(p, lo, hi, top) ==
        /\ pc = "called" /\ ShouldEval(call)
        /\ cur' = p /\ bnd' = [lo |-> lo, hi |-> hi, top |-> top] /\ pc' = "cmp"
        /\ UNCHANGED <<prev, call, thr, res, prev0, lastAcc, ncalls>>
Better(a, b) == IF DevNonStrict THEN a <= b ELSE a < b
Improve == /\ pc = "cmp" /\ Better(prev, cur)
           /\ prev' = cur /\ res' = TRUE /\ pc' = "ret"
           /\ UNCHANGED <<call, cur, bnd, thr, prev0, lastAcc, ncalls>>
Draw(t) == /\ pc = "cmp" /\ ~Better(prev, cur)
           /\ bnd.lo <= t /\ t <= bnd.hi
           /\ thr' = t /\ pc' = "thr"
           /\ UNCHANGED <<prev, call, cur, bnd, res, prev0, lastAcc, ncalls>>
Threshold == /\ pc = "thr"
             /\ LET acc == IF DevThrReversed THEN thr > cur ELSE thr < cur IN
                  /\ res' = acc
                  /\ prev' = IF acc THEN (IF DevKeepPrev THEN prev ELSE cur)
                                    ELSE (IF DevUpdateOnReject THEN cur ELSE prev)
             /\ pc' = "ret"
             /\ UNCHANGED <<call, cur, bnd, thr, prev0, lastAcc, ncalls>>
Return == /\ pc = "ret" /\ pc' = "idle" /\ ncalls' = ncalls + 1
          /\ lastAcc' = IF res /\ cur # -1 THEN cur ELSE lastAcc
          /\ UNCHANGED <<prev, call, cur, bnd, thr, res, prev0>>

Next == \/ \E tr \in Triples, gp \in BOOLEAN : Call(tr, gp)
        \/ Skip
        \/ \E p \in Cands : Prob(p, LoC, HiC, TopC)
        \/ Improve
        \/ \E t \in Thrs : Draw(t)
        \/ Threshold
        \/ Return
Spec == Init /\ [][Next]_vars

(* ---------------------------------------------------------------- P-layer *)
AtReturn == pc = "ret"
Evaluated == cur # -1
\* a candidate is accepted iff it is more probable than the last accepted one or than the number drawn
AcceptRule == AtReturn /\ Evaluated => (res <=> (cur > prev0 \/ (thr # -1 /\ cur > thr)))
\* the random number is consumed only when the candidate does not improve (reproducibility of the random stream)
DrawOnlyWhenNeeded == AtReturn /\ Evaluated => (thr # -1 <=> ~(cur > prev0))
\* prev_prob is the probability of the last accepted evaluated candidate of this walk
PrevIsLastAccepted == pc = "idle" => prev = lastAcc
\* a rejected or skipped call leaves the memory alone
RejectKeeps == AtReturn /\ (~res \/ ~Evaluated) => prev = prev0
\* a straight continuation (the maximum of the density, above the upper bound of the draw) is always accepted
StraightAccepted == AtReturn /\ Evaluated /\ cur = bnd.top /\ bnd.hi < bnd.top => res
\* a candidate not above the lower bound of the draw is accepted only as an improvement
BelowLoNeedsImprovement == AtReturn /\ Evaluated /\ cur <= bnd.lo /\ res => cur > prev0
\* the directive: constant of (new residue, its predecessor, the predecessor's predecessor); zero or absent = no bending test
LookupRule == AtReturn => (Evaluated <=> (call.gp /\ \E e \in Table : e.k = call.tr /\ e.nz))
\* with the initial 1 above the maximum of the density the first acceptance of a walk always goes through the draw
FirstGoesThroughDraw == AtReturn /\ Evaluated /\ lastAcc = InitRank /\ InitRank > bnd.top /\ res => thr # -1

(* expectation that does NOT hold (reported as a note): prev_prob never decreases along a walk *)
PrevMonotone == [][prev' >= prev]_vars
=============================================================================
