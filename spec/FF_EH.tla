----------------------------- MODULE FF_EH -----------------------------
(* instance EH (C14, history layer): one force-field object serves several molecules.  Blocks A, B, C (3, 2, 3 atoms) with 4 triples of   *)
(* exclusion distances; the molecule under test is any chain of 2..3 residues over {A, B, C}; before it 0, 1 or 2 molecules were built from *)
(* the same object (mixed then uniform, uniform then mixed, mixed then mixed with another partner, ...).  Law: C14_Inv of the molecule      *)
(* under test whatever was built before.                                                                                                      *)
EXTENDS FFExport
EEs == << <<1, 3, 2>>, <<3, 1, 2>>, <<0, 4, 2>>, <<2, 2, 3>> >>
MCFFs == TLCEval([x \in 1..4 |-> MkFF(<<BlockE("A", "TA", 3, EEs[x][1], 1), BlockE("B", "TB", 2, EEs[x][2], 1), BlockE("C", "TC", 3, EEs[x][3], 2)>>,
                                      LinkSetE(1), <<>>)])
Hists == {<<>>, << <<"A", "B">> >>, << <<"B", "B">> >>, << <<"B", "C">> >>, << <<"A", "B">>, <<"B", "C">> >>, << <<"A", "B", "C">> >>, << <<"C", "C">>, <<"A", "C">> >>}
MCInputs == UNION {{[MkInpF(MCFFs, ff, n, 1, kv, Chain(n), <<>>) EXCEPT !.hist = h] : ff \in 1..4, kv \in [1..n -> {"A", "B", "C"}], h \in Hists} : n \in 2..3}
ASSUME PrintT(<<"FFS", ToJson(MCFFs)>>)
=============================================================================
