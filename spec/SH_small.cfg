SPECIFICATION HSpec
CONSTANTS
 Systems <- NoSystems
 DevSkipConsumes = FALSE
 Paths <- MCPaths
 Ks <- MCKs
 OptSeq <- MCOptSeq
 Frames <- MCFrames3
 Stamps <- MCStamps3
 MaxOps = 0
 KeepHist = FALSE
 HDevs <- MCNone
INVARIANT CallIsCurrent
INVARIANT SuppliedAreCurrent
INVARIANT ProcessCarriesNothing
PROPERTY CallsDoNotWrite
PROPERTY PutsWriteOnePath
CHECK_DEADLOCK FALSE
