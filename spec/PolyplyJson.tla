---------------------------- MODULE PolyplyJson ----------------------------
(* JSON-shaped views of the abstract objects of Polyply (shared by PolyplyExport and PolyplyTrace): sets of edges    *)
(* become sequences sorted lexicographically; sets of strings are left to the reader (ToSet / sorted in the harness) *)
EXTENDS Polyply, SequencesExt, FiniteSetsExt
EdgeSeq(S) == SetToSortSeq(S, LAMBDA a, b : a[1] < b[1] \/ (a[1] = b[1] /\ a[2] < b[2]))
GJ(G) == [n |-> G.n, ids |-> G.ids, names |-> G.names, edges |-> EdgeSeq(G.edges), labels |-> G.labels]
MolJ(m) == [atoms |-> m.atoms, bonds |-> EdgeSeq(m.bonds)]
FileJ(f) == [st |-> f.st, g |-> GJ(f.g), mol |-> MolJ(f.mol), atoms |-> f.atoms]
FilesJ(fs) == [json |-> FileJ(fs["json"]), itp |-> FileJ(fs["itp"]), gro |-> FileJ(fs["gro"]),
               itp2 |-> FileJ(fs["itp2"]), gro2 |-> FileJ(fs["gro2"])]
MemJ(m) == [g |-> GJ(m.g), ffv |-> [blocks |-> SetToSeq(m.ffv.blocks), links |-> SetToSeq(m.ffv.links)], mol |-> MolJ(m.mol),
            miss |-> EdgeSeq(m.miss), tmpl |-> SetToSeq(m.tmpl), ntop |-> m.ntop, placed |-> m.placed, coords |-> m.coords]
CaseJ(c) == [mode |-> c.mode, macros |-> c.macros, connects |-> c.connects, tag |-> c.tag,
             ff |-> [blocks |-> SetToSeq(c.ff.blocks), links |-> SetToSeq(c.ff.links)], count |-> c.count, lib |-> c.lib,
             on |-> SetToSeq(c.on), probe |-> c.probe]
=============================================================================
