---------------------------- MODULE SeqInputExport ----------------------------
(* S->I export for C12 / C19: every input of the instance is printed as one JSON line with the expected    *)
(* result of the P-layer (residue graph, unasserted names, rejection), for gen_seq also the I-layer         *)
(* behaviour (action, graph after it), for dsDNA the second strand completed once more (involution).       *)
EXTENDS SeqInputMC, Json
VARIABLE hist

GOut(x) == [n |-> x.n, name |-> x.name, inst |-> x.inst,
            lab |-> [r \in 1..x.n |-> SetToSeq(x.lab[r])], edges |-> SetToSeq(x.edges)]
XInit == Init /\ hist = <<>>
XNext == /\ Next
         /\ hist' = IF inp.fam = "genseq"
                    THEN Append(hist, [act |-> last', g |-> GOut(IF last' = "Write" THEN ReadJson(aux') ELSE g')])
                    ELSE hist
XSpec == XInit /\ [][XNext]_<<vars, hist>>
Case == LET e == Expected(inp) IN
        [inp |-> inp, rej |-> e.rej, g |-> GOut(e.g), free |-> SetToSeq(e.free), hist |-> hist,
         \* dsDNA: the molecule after the added strand has been completed once more in place
         g2 |-> IF inp.fam = "dsdna" /\ ~e.rej /\ inp.rounds = 2 THEN GOut(ExpRounds(inp, 2)) ELSE GOut(EmptyG),
         back |-> IF inp.fam = "dsdna" /\ ~e.rej THEN GOut(SecondStrand(Complement(SecondStrand(e.g)))) ELSE GOut(EmptyG)]
ExportInv == (pc \in {"done", "rejected"}) => PrintT(<<"CASE", ToJson(Case)>>)
=============================================================================
