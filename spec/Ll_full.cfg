SPECIFICATION Spec
CONSTANTS
 Configs <- MCFull
 DevUserLast = FALSE
 DevFirstWins = FALSE
 DevBibMerge = FALSE
 DevSplitAll = FALSE
 DevTmplMerge = FALSE
 DevSkipUserUnknown = FALSE
 DevIdReuse = FALSE
INVARIANT StoreIsDeclarative
INVARIANT ErrorRule
INVARIANT CountsFiles
CHECK_DEADLOCK FALSE
