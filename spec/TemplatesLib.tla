---------------------------- MODULE TemplatesLib ----------------------------
(***************************************************************************)
(* C15 - pure definitions shared by the template modules:                  *)
(*  - residues as atom-name-labelled bond graphs, isomorphism (P-layer,    *)
(*    existence of a label- and bond-preserving bijection) and the         *)
(*    canonical form that abstracts the graph hash of the code (I-layer);  *)
(*  - integer / rational vectors, centring of user coordinates;            *)
(*  - the GROMACS constructions of the virtual-site kinds that are         *)
(*    polynomial in their inputs (2, 3, n/COG, 3out) over rationals.       *)
(***************************************************************************)
EXTENDS Integers, Sequences, FiniteSets, TLC

(* ---------------------------------------------------------------- residues as labelled graphs *)
\* a residue graph is [n |-> number of atoms, nm |-> <<name_1 .. name_n>>, ed |-> set of <<i, j>> with i < j]
Pairs(n) == { p \in (1..n) \X (1..n) : p[1] < p[2] }
NameSetOf(g) == { g.nm[i] : i \in 1..g.n }
UniqueNames(g) == Cardinality(NameSetOf(g)) = g.n
Adj(g, i, j) == <<i, j>> \in g.ed \/ <<j, i>> \in g.ed
\* reachability by repeated squaring is overkill for n <= 4: n rounds of neighbour expansion
RECURSIVE Grow(_, _, _)
Grow(g, S, k) == IF k = 0 THEN S ELSE Grow(g, S \cup { j \in 1..g.n : \E i \in S : Adj(g, i, j) }, k - 1)
ConnectedG(g) == g.n = 0 \/ Grow(g, {1}, g.n) = 1..g.n

\* P-layer: two residues are the same residue iff a bijection preserves atom names and bonds
Iso(x, y) == /\ x.n = y.n
             /\ \E f \in [1..x.n -> 1..y.n] :
                  /\ \A i, j \in 1..x.n : i # j => f[i] # f[j]
                  /\ \A i \in 1..x.n : y.nm[f[i]] = x.nm[i]
                  /\ \A i, j \in 1..x.n : i # j => (Adj(x, i, j) <=> Adj(y, f[i], f[j]))
\* I-layer: the key under which the code files a residue - abstraction of the Weisfeiler-Lehman hash over atom names:
\* a function of the canonical labelled graph (set of names, set of name pairs that are bonded)
Canon(g) == [names |-> NameSetOf(g), bonds |-> { {g.nm[e[1]], g.nm[e[2]]} : e \in g.ed }]

(* ---------------------------------------------------------------- vectors *)
VAdd(a, b) == <<a[1] + b[1], a[2] + b[2], a[3] + b[3]>>
VSub(a, b) == <<a[1] - b[1], a[2] - b[2], a[3] - b[3]>>
VScale(s, a) == <<s * a[1], s * a[2], s * a[3]>>
Dot(a, b) == a[1] * b[1] + a[2] * b[2] + a[3] * b[3]
Cross(a, b) == <<a[2] * b[3] - a[3] * b[2], a[3] * b[1] - a[1] * b[3], a[1] * b[2] - a[2] * b[1]>>
Zero == <<0, 0, 0>>
MatVec(M, v) == <<Dot(M[1], v), Dot(M[2], v), Dot(M[3], v)>>
Det3(M) == Dot(M[1], Cross(M[2], M[3]))
RECURSIVE VSumSeq(_, _)
VSumSeq(f, n) == IF n = 0 THEN Zero ELSE VAdd(f[n], VSumSeq(f, n - 1))
Perms3 == { <<1, 2, 3>>, <<1, 3, 2>>, <<2, 1, 3>>, <<2, 3, 1>>, <<3, 1, 2>>, <<3, 2, 1>> }
SignedPerm(s, sg) == << <<(IF s[1] = 1 THEN sg[1] ELSE 0), (IF s[1] = 2 THEN sg[1] ELSE 0), (IF s[1] = 3 THEN sg[1] ELSE 0)>>,
                        <<(IF s[2] = 1 THEN sg[2] ELSE 0), (IF s[2] = 2 THEN sg[2] ELSE 0), (IF s[2] = 3 THEN sg[2] ELSE 0)>>,
                        <<(IF s[3] = 1 THEN sg[3] ELSE 0), (IF s[3] = 2 THEN sg[3] ELSE 0), (IF s[3] = 3 THEN sg[3] ELSE 0)>> >>
OrthoLattice == { SignedPerm(s, <<a, b, c>>) : s \in Perms3, a \in {-1, 1}, b \in {-1, 1}, c \in {-1, 1} }
ProperLattice == { M \in OrthoLattice : Det3(M) = 1 }
\* rational vectors: [num |-> <<x, y, z>>, den |-> d], d # 0
RV(num, den) == [num |-> num, den |-> den]
RVEq(a, b) == VScale(b.den, a.num) = VScale(a.den, b.num)

(* ---------------------------------------------------------------- centring user coordinates *)
\* a user template lists one lattice position per atom: u = <<u_1 .. u_n>>; the stored template is u_i - centre of geometry
CentredNum(u, i) == VSub(VScale(Len(u), u[i]), VSumSeq(u, Len(u)))      \* numerator over denominator Len(u)
Centred(u) == [i \in 1..Len(u) |-> RV(CentredNum(u, i), Len(u))]

(* ---------------------------------------------------------------- virtual sites (GROMACS manual) *)
\* a case: [kind, x |-> <<x_i, x_j, ..>> lattice points, p |-> << <<num, den>>, ... >> parameters]
\* P-layer: the constructions as the GROMACS manual writes them
PA(c, k) == c.p[k][1]
PD(c, k) == c.p[k][2]
GmxVS(c) ==
  CASE c.kind = "2" ->      \* x_s = x_i + a r_ij
         RV(VAdd(VScale(PD(c, 1), c.x[1]), VScale(PA(c, 1), VSub(c.x[2], c.x[1]))), PD(c, 1))
    [] c.kind = "3" ->      \* x_s = x_i + a r_ij + b r_ik
         RV(VAdd(VScale(PD(c, 1) * PD(c, 2), c.x[1]),
                 VAdd(VScale(PA(c, 1) * PD(c, 2), VSub(c.x[2], c.x[1])), VScale(PA(c, 2) * PD(c, 1), VSub(c.x[3], c.x[1])))),
            PD(c, 1) * PD(c, 2))
    [] c.kind = "3out" ->   \* x_s = x_i + a r_ij + b r_ik + c (r_ij x r_ik)
         LET rij == VSub(c.x[2], c.x[1]) rik == VSub(c.x[3], c.x[1]) D == PD(c, 1) * PD(c, 2) * PD(c, 3) IN
         RV(VAdd(VScale(D, c.x[1]),
                 VAdd(VScale(PA(c, 1) * PD(c, 2) * PD(c, 3), rij),
                      VAdd(VScale(PA(c, 2) * PD(c, 1) * PD(c, 3), rik), VScale(PA(c, 3) * PD(c, 1) * PD(c, 2), Cross(rij, rik))))), D)
    [] c.kind = "n" ->      \* centre of geometry of the constructing atoms
         RV(VSumSeq(c.x, Len(c.x)), Len(c.x))
\* I-layer: the shape of the code - kinds 2, 3 and n are weighted averages  sum(w_k x_k) / sum(w_k)
Weights(c, swap) ==
  CASE c.kind = "2" -> << <<PD(c, 1) - PA(c, 1), PD(c, 1)>>, <<PA(c, 1), PD(c, 1)>> >>
    [] c.kind = "3" -> LET wi == <<PD(c, 1) * PD(c, 2) - PA(c, 1) * PD(c, 2) - PA(c, 2) * PD(c, 1), PD(c, 1) * PD(c, 2)>>
                           wj == <<PA(c, 1), PD(c, 1)>> wk == <<PA(c, 2), PD(c, 2)>>
                       IN IF swap THEN <<wi, wk, wj>> ELSE <<wi, wj, wk>>
    [] c.kind = "n" -> [k \in 1..Len(c.x) |-> <<1, 1>>]
RECURSIVE ProdDen(_, _)
ProdDen(w, n) == IF n = 0 THEN 1 ELSE w[n][2] * ProdDen(w, n - 1)
CodeVS(c, swap) ==
  IF c.kind = "3out" THEN GmxVS(c)
  ELSE LET w == Weights(c, swap) D == ProdDen(w, Len(w))
           wn == [k \in 1..Len(w) |-> w[k][1] * (D \div w[k][2])]           \* weights over the common denominator D
           num == VSumSeq([k \in 1..Len(w) |-> VScale(wn[k], c.x[k])], Len(w))
           wsum == LET RECURSIVE S(_) S(n) == IF n = 0 THEN 0 ELSE wn[n] + S(n - 1) IN S(Len(w))
       IN RV(num, wsum)
\* rigid motion of a case: every constructing atom turned by M and shifted by t
Moved(c, M, t) == [c EXCEPT !.x = [k \in 1..Len(c.x) |-> VAdd(MatVec(M, c.x[k]), t)]]
MovedRV(r, M, t) == RV(VAdd(MatVec(M, r.num), VScale(r.den, t)), r.den)
=============================================================================
