INIT MCInit
NEXT Next
CONSTANTS
 Mols = {}
 Dev = "readerSkip"
 FixedOrder = TRUE
INVARIANT RoundTripI
INVARIANT FastAgrees
CHECK_DEADLOCK FALSE
