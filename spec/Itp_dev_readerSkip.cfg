INIT MCInit
NEXT Next
CONSTANTS
 Mols = {}
 Dev = "readerSkip"
 FixedOrder = TRUE
INVARIANT RoundTripI
CHECK_DEADLOCK FALSE
