SPECIFICATION Spec
CONSTANTS
 Mols <- MCMols
 Dev = "readerSkip"
 FixedOrder = TRUE
INVARIANT RoundTripI
CHECK_DEADLOCK FALSE
