SPECIFICATION Spec
CONSTANTS
 Mols <- MolsDev
 Dev = "readerSkip"
 FixedOrder = TRUE
INVARIANT RoundTripI
CHECK_DEADLOCK FALSE
