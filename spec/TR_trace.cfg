SPECIFICATION TSpec
CONSTANTS
 Cases <- NoCases
 NBCases <- NoCases
 DevOneDirection = FALSE
 DevNoReverse = FALSE
 DevFirstInstOnly = FALSE
 DevSpecOrder = FALSE
 DevDefineFirstOnly = FALSE
 DevPairsUntyped = FALSE
 DevTableMacrosKept = FALSE
 DevDefineLazyCond = FALSE
 DevDefineBlockDropped = FALSE
 DevDefineInactiveKept = FALSE
 DevOverrideExplicit = FALSE
 DevEpsHalf = FALSE
 DevSigmaInverted = FALSE
 DevSelfFromFirst = FALSE
INVARIANT Mark
POSTCONDITION Accepted
CHECK_DEADLOCK FALSE
