--------------------------- MODULE LigandsExport ---------------------------
(* S->I for X04: every behaviour of the instance families is printed as one CASE record when it ends (done or error):     *)
(* the case, the deviation flags it ran with ({} = intended design, {"Chain"} = the tree as it is), the label of every     *)
(* action with the change it made (lab.d, see Ligands.tla), the error <<kind, phase>> and the P-layer's verdict.           *)
(* The laws are checked in the same run (cfg Lig_export*.cfg).                                                           *)
EXTENDS LigandsMC, Json
VARIABLE hist
XNext == Next /\ hist' = Append(hist, lab')
XSpecQuick == (InitQuick /\ hist = <<>>) /\ [][XNext]_<<vars, hist>>
XSpecFull == (InitFull /\ hist = <<>>) /\ [][XNext]_<<vars, hist>>
ASSUME PrintT(<<"TYPES", ToJson(MCTypes)>>)
ExportInv == AtEnd => PrintT(<<"CASE", ToJson([case |-> case, dev |-> dev, hist |-> hist, err |-> err, perr |-> pl.err, chained |-> pl.chained,
                                                nattach |-> Cardinality(pl.attach)])>>)
=============================================================================
