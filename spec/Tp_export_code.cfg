SPECIFICATION Spec
CONSTANTS
 Content <- MCContent
 Systems <- MCSystemsQuick
 BuildFiles <- MCBuild3
 DevVolLost = TRUE
 DevVolOverwritten = FALSE
 DevUserRegen = FALSE
 DevRecentre = FALSE
INVARIANT ExportInv
CHECK_DEADLOCK FALSE
