SPECIFICATION Spec
CONSTANTS
 Content <- MCContent
 Systems <- MCSystemsQuick
 BuildFiles <- MCBuild3
 DevVolLost = TRUE
 DevVolOverwritten = FALSE
 DevUserRegen = FALSE
 DevRecentre = FALSE
 DevKeySites = FALSE
 DevProcForgets = FALSE
 LargeN = 16
 DevSkipVSWhenNothingToOptimise = FALSE
INVARIANT ExportInv
CHECK_DEADLOCK FALSE
