---------------------------- MODULE GenCoordsOut ----------------------------
(***************************************************************************)
(* C03 - what gen_coords writes: exactly the atoms of the expanded         *)
(* [ molecules ] section in topology order, and which box.                 *)
(*                                                                         *)
(* P-layer: Listing(mollist) and BoxP(opt) (structure box > -box >         *)
(* density).  I-layer: the if/elif chain of gen_coords followed by the     *)
(* box initialisation of BuildSystem, as named actions.                    *)
(***************************************************************************)
EXTENDS Integers, Sequences, FiniteSets, TLC, SequencesExt

CONSTANTS Types,        \* type name -> [atoms |-> Seq([resid, rn, an, mass])]
          MolLists,     \* set of [ molecules ] sections: Seq([type, n])
          Opts,         \* set of option records
          DevOptionBoxWins   \* deviation (mutant m41): the command-line box wins over the structure's box
VARIABLES mollist, opt, box, pc
vars == <<mollist, opt, box, pc>>

(* ---------------- P-layer ---------------- *)
RECURSIVE Repeat(_, _)
Repeat(s, n) == IF n = 0 THEN <<>> ELSE s \o Repeat(s, n - 1)
RECURSIVE Listing(_)
\* the atoms of the expanded [ molecules ] section, in order
Listing(ml) == IF ml = <<>> THEN <<>> ELSE Repeat(Types[ml[1].type].atoms, ml[1].n) \o Listing(Tail(ml))
RECURSIVE SumMass(_)
SumMass(atoms) == IF atoms = <<>> THEN 0 ELSE atoms[1].mass + SumMass(Tail(atoms))
TotalMass(ml) == SumMass(Listing(ml))
NMolecules(ml) == LET RECURSIVE S(_) S(x) == IF x = <<>> THEN 0 ELSE x[1].n + S(Tail(x)) IN S(ml)
\* box of the input structure when one is given, else the requested box, else cubic from the density
BoxP(o) == IF o.struct # "none" THEN "structure" ELSE IF o.box THEN "option" ELSE "density"
Accepted(o) == o.struct # "none" \/ o.box \/ o.dens

(* ---------------- I-layer: gen_coords + BuildSystem.__init__ ---------------- *)
Init == /\ mollist \in MolLists /\ opt \in {o \in Opts : Accepted(o)} /\ box = "unset" /\ pc = "chain"
\* gen_coords: "where to get the box size from"
Chain == /\ pc = "chain"
         /\ box' = IF opt.box /\ opt.struct # "none" /\ opt.differ
                   THEN (IF DevOptionBoxWins THEN "option" ELSE "structure")
                   ELSE IF opt.struct # "none" THEN "structure"
                   ELSE IF opt.box THEN "option" ELSE "none"
         /\ pc' = "build" /\ UNCHANGED <<mollist, opt>>
\* BuildSystem.__init__: box given -> keep, else compute from the density
BuildInit == /\ pc = "build"
             /\ box' = IF box # "none" THEN box ELSE "density"
             /\ pc' = "done" /\ UNCHANGED <<mollist, opt>>
Next == Chain \/ BuildInit
Spec == Init /\ [][Next]_vars
BoxRule == pc = "done" => box = BoxP(opt)
\* a density-derived box needs a density
DensityAvailable == (pc = "done" /\ box = "density") => opt.dens
=============================================================================
