SPECIFICATION Spec
CONSTANTS
 Types <- MCTypes
 MolLists <- MCMolLists
 Opts <- MCOptsOk
 DevOptionBoxWins = TRUE
INVARIANT BoxRule
INVARIANT DensityAvailable
CHECK_DEADLOCK FALSE
