SPECIFICATION TSpec
CONSTANTS
 Dev = {}
 Mode = "P"
INVARIANT Mark
INVARIANT Prog
POSTCONDITION Accepted
CHECK_DEADLOCK FALSE
