INIT MCInitTiny
NEXT Next
CONSTANTS
 Inputs = {}
 LibOf <- MCLibOf
 Dev <- DevReplaceAll
 FreeOrder = TRUE
PROPERTY ReplaceLaw
CHECK_DEADLOCK FALSE
