------------------------------ MODULE LoadLib ------------------------------
(***************************************************************************)
(* X02 - library loading and definition precedence                         *)
(* (polyply/src/load_library.py: load_ff_library, load_build_files,        *)
(*  read_options_from_files, _resolve_lib_files, get_parser;               *)
(*  ff_parser_sub.py + vermouth FFDirector, polyply_parser.py + vermouth   *)
(*  ITPDirector, vermouth read_bib, build_file_parser.py).                 *)
(*                                                                         *)
(* A run is a configuration: a mode ("ff": gen_params / gen_seq /          *)
(* -list-blocks, "bld": gen_coords -lib/-b), the user files in command     *)
(* line order, and the libraries, each a sequence of files in the order    *)
(* os.listdir returned them (not controlled by the code: every             *)
(* permutation is a configuration).  A file is a sequence of top-level     *)
(* sections; every section has a definition id d that is unique in the     *)
(* configuration, so "which definition is effective" is observable.        *)
(*                                                                         *)
(* P-layer (declarative, a function of the configuration only):            *)
(*   loading order = user files, then the libraries' files as listed;      *)
(*   block / modification / [ volumes ] value of a name = its last         *)
(*   definition in loading order; links accumulate: every .ff link and the *)
(*   dangling-interaction link of every .itp block that is the last of its *)
(*   name in its file, ordered across files by loading order and inside an *)
(*   .ff file by text order; citations and templates are those of the last *)
(*   .bib / .bld file read; an unparseable user file is an error, an       *)
(*   unparseable library file is skipped.                                  *)
(* I-layer: the loaders step by step: Open (get_parser), New (section      *)
(* header creates a context), Fin (finalize_section stores what is         *)
(* current), Close (finalize: .itp splits dangling links; .bld hands its   *)
(* templates over), ReadBib.  The parsers never reset their current        *)
(* block / link / modification, so a link is appended again by every later *)
(* top-level header of its file: the I-layer keeps these duplicates, the   *)
(* P-layer speaks about the list with adjacent repetitions removed.        *)
(***************************************************************************)
EXTENDS Integers, Sequences, FiniteSets, TLC, SequencesExt

CONSTANTS Configs,          \* set of [mode, user : Seq(file), libs : Seq(Seq(file))]
          DevUserLast,      \* deviation: library files before user files
          DevFirstWins,     \* deviation: an existing block / modification name is kept (setdefault)
          DevBibMerge,      \* deviation: .bib entries are merged into the citation table
          DevSplitAll,      \* deviation: .itp finalize splits links of every dangling block it meets again
          DevTmplMerge,     \* deviation: templates of build files accumulate
          DevSkipUserUnknown, \* deviation: unknown user files are skipped like library files
          DevIdReuse        \* deviation (finding X02 itp-finalize-id-reuse): .itp finalize recognises blocks of earlier files by id();
                            \* a block created after this file replaced (freed) an earlier file's block may get the freed id and be skipped

(* file    = [name, kind, user, secs]   kind in {"ff","itp","bib","bld","txt"}                                   *)
(* section = [t, n, d, dang, g]          t in {"block","link","mod","other","cite","tmpl","vol"}                  *)
(*           n name (block / modification / citation key / residue name; for a link the residue name it is for)  *)
(*           d definition id (> 0), dang: .itp block with a dangling interaction, g: graph id of a template      *)

VARIABLES cfg, queue, pc, cur, si, ph, curB, curL, curM, ltmpl, r2h, st, nfiles,
          freed,   \* this file has replaced a block of an earlier file (its object is gone)
          risk     \* history: some dangling block was exposed to the id() test of DevIdReuse
vars == <<cfg, queue, pc, cur, si, ph, curB, curL, curM, ltmpl, r2h, st, nfiles, freed, risk>>

Null == [n |-> "", d |-> 0, pend |-> FALSE, risky |-> FALSE, fi |-> 0]
NullFile == [name |-> "", kind |-> "", user |-> FALSE, secs |-> <<>>]
EmptyStore == [blocks |-> <<>>, links |-> <<>>, mods |-> <<>>, cites |-> {}, volR |-> <<>>, volG |-> <<>>, tmpl |-> <<>>, err |-> FALSE]

HasName(seq, n) == \E i \in 1..Len(seq) : seq[i].n = n
IdxOfName(seq, n) == CHOOSE i \in 1..Len(seq) : seq[i].n = n
Get(seq, n) == seq[IdxOfName(seq, n)]
\* dict assignment: an existing key keeps its position
Put(seq, e) == IF HasName(seq, e.n) THEN (IF DevFirstWins THEN seq ELSE [seq EXCEPT ![IdxOfName(seq, e.n)] = e]) ELSE Append(seq, e)
PutAlways(seq, e) == IF HasName(seq, e.n) THEN [seq EXCEPT ![IdxOfName(seq, e.n)] = e] ELSE Append(seq, e)

FFKinds == {"ff", "itp", "bib"}
BldKinds == {"bld"}
Parsed(mode, f) == IF mode = "ff" THEN f.kind \in FFKinds ELSE f.kind \in BldKinds
Flat(ss) == FlattenSeq(ss)
LoadOrder(c) == IF DevUserLast THEN Flat(c.libs) \o c.user ELSE c.user \o Flat(c.libs)

(* ======================================================================= I-layer *)
Init == /\ cfg \in Configs
        /\ queue = LoadOrder(cfg)
        /\ pc = "idle" /\ cur = NullFile /\ si = 0 /\ ph = "new"
        /\ curB = Null /\ curL = Null /\ curM = Null /\ ltmpl = <<>> /\ r2h = <<>>
        /\ st = EmptyStore /\ nfiles = 0 /\ freed = FALSE /\ risk = FALSE

\* get_parser + open
Open == /\ pc = "idle" /\ queue # <<>>
        /\ LET f == Head(queue) IN
             IF Parsed(cfg.mode, f)
             THEN /\ pc' = "infile" /\ cur' = f /\ si' = 0 /\ ph' = "new"
                  /\ curB' = Null /\ curL' = Null /\ curM' = Null /\ ltmpl' = <<>> /\ r2h' = <<>>
                  /\ freed' = FALSE
                  /\ UNCHANGED <<queue, st, nfiles>>
             ELSE IF f.user /\ ~DevSkipUserUnknown
             THEN /\ pc' = "error" /\ st' = [st EXCEPT !.err = TRUE]
                  /\ UNCHANGED <<queue, cur, si, ph, curB, curL, curM, ltmpl, r2h, nfiles, freed>>
             ELSE /\ queue' = Tail(queue) /\ nfiles' = nfiles + 1           \* library file of another kind: skipped
                  /\ UNCHANGED <<pc, cur, si, ph, curB, curL, curM, ltmpl, r2h, st, freed>>
        /\ UNCHANGED <<cfg, risk>>

Sec == cur.secs[si + 1]
\* a top-level header creates the context of its section (header_actions)
New == /\ pc = "infile" /\ cur.kind \in {"ff", "itp"} /\ ph = "new" /\ si < Len(cur.secs)
       /\ curB' = IF Sec.t = "block" THEN [n |-> Sec.n, d |-> Sec.d, pend |-> Sec.dang, risky |-> freed /\ cur.kind = "itp", fi |-> nfiles + 1] ELSE curB
       /\ curL' = IF Sec.t = "link" THEN [n |-> Sec.n, d |-> Sec.d, pend |-> FALSE, risky |-> FALSE, fi |-> nfiles + 1] ELSE curL
       /\ curM' = IF Sec.t = "mod" THEN [n |-> Sec.n, d |-> Sec.d, pend |-> FALSE, risky |-> FALSE, fi |-> nfiles + 1] ELSE curM
       /\ si' = si + 1 /\ ph' = "fin"
       /\ UNCHANGED <<cfg, queue, pc, cur, ltmpl, r2h, st, nfiles, freed, risk>>

\* finalize_section: whatever is current is stored (again)
Stored(s) == [s EXCEPT !.blocks = IF curB # Null THEN Put(@, curB) ELSE @,
                       !.links  = IF curL # Null /\ cur.kind = "ff" THEN Append(@, curL.d) ELSE @,
                       !.mods   = IF curM # Null /\ cur.kind = "ff" THEN Put(@, curM) ELSE @]
Fin == /\ pc = "infile" /\ cur.kind \in {"ff", "itp"} /\ ph = "fin"
       /\ st' = Stored(st)
       /\ ph' = IF si = Len(cur.secs) THEN "close" ELSE "new"
       /\ freed' = (freed \/ (curB # Null /\ HasName(st.blocks, curB.n) /\ Get(st.blocks, curB.n).fi # nfiles + 1))
       /\ UNCHANGED <<cfg, queue, pc, cur, si, curB, curL, curM, ltmpl, r2h, nfiles, risk>>
\* an empty file: finalize() still calls finalize_section once
FinEmpty == /\ pc = "infile" /\ cur.kind \in {"ff", "itp"} /\ ph = "new" /\ si = 0 /\ Len(cur.secs) = 0
            /\ ph' = "close" /\ UNCHANGED <<cfg, queue, pc, cur, si, curB, curL, curM, ltmpl, r2h, st, nfiles, freed, risk>>

\* PolyplyParser.finalize: every block of the force field (dict order) that still carries dangling interactions is split
\* K: positions of dangling blocks that the id() test takes for blocks of earlier files (only with DevIdReuse): they are passed over
RECURSIVE SplitFrom(_, _, _, _)
SplitFrom(blocks, links, i, K) ==
  IF i > Len(blocks) THEN [blocks |-> blocks, links |-> links]
  ELSE IF blocks[i].pend /\ i \in K
       THEN SplitFrom([blocks EXCEPT ![i].pend = FALSE], links, i + 1, K)
  ELSE IF blocks[i].pend
       THEN SplitFrom([blocks EXCEPT ![i].pend = DevSplitAll], Append(links, blocks[i].d), i + 1, K)
       ELSE SplitFrom(blocks, links, i + 1, K)
Exposed == {i \in 1..Len(st.blocks) : st.blocks[i].pend /\ st.blocks[i].risky}
Close == /\ pc = "infile" /\ cur.kind \in {"ff", "itp"} /\ ph = "close"
         /\ IF cur.kind = "itp"
            THEN \E K \in (IF DevIdReuse THEN SUBSET Exposed ELSE {{}}) :
                   LET r == SplitFrom(st.blocks, st.links, 1, K) IN st' = [st EXCEPT !.blocks = r.blocks, !.links = r.links]
            ELSE st' = st
         /\ risk' = (risk \/ (cur.kind = "itp" /\ Exposed # {}))
         /\ pc' = "idle" /\ queue' = Tail(queue) /\ nfiles' = nfiles + 1
         /\ UNCHANGED <<cfg, cur, si, ph, curB, curL, curM, ltmpl, r2h, freed>>

\* read_bib: the citation table of the force field is REPLACED by the entries of this file
CiteSet(f) == {[n |-> f.secs[i].n, d |-> f.secs[i].d] : i \in 1..Len(f.secs)}
LastPerKey(S) == {e \in S : \A o \in S : o.n = e.n => o.d <= e.d}
ReadBib == /\ pc = "infile" /\ cur.kind = "bib"
           /\ st' = [st EXCEPT !.cites = IF DevBibMerge
                                          THEN {e \in @ : ~\E o \in CiteSet(cur) : o.n = e.n} \cup LastPerKey(CiteSet(cur))
                                          ELSE LastPerKey(CiteSet(cur))]
           /\ pc' = "idle" /\ queue' = Tail(queue) /\ nfiles' = nfiles + 1
           /\ UNCHANGED <<cfg, cur, si, ph, curB, curL, curM, ltmpl, r2h, freed, risk>>

\* build file: [ template ] (stored when its [ bonds ] section ends) and [ volumes ] lines
BldSec == /\ pc = "infile" /\ cur.kind = "bld" /\ si < Len(cur.secs)
          /\ IF Sec.t = "tmpl"
             THEN /\ st' = [st EXCEPT !.volG = IF HasName(@, Sec.g) THEN @ ELSE Append(@, [n |-> Sec.g, d |-> Sec.d, named |-> FALSE])]
                  /\ ltmpl' = PutAlways(ltmpl, [n |-> Sec.g, d |-> Sec.d])
                  /\ r2h' = Append(r2h, [n |-> Sec.n, g |-> Sec.g])
             ELSE /\ st' = [st EXCEPT !.volR = PutAlways(@, [n |-> Sec.n, d |-> Sec.d])]
                  /\ UNCHANGED <<ltmpl, r2h>>
          /\ si' = si + 1
          /\ UNCHANGED <<cfg, queue, pc, cur, ph, curB, curL, curM, nfiles, freed, risk>>
\* BuildDirector.finalize: molecule.templates = this file's templates; volumes by residue name are copied to the file's graphs
RECURSIVE NameVols(_, _, _)
NameVols(volG, volR, pairs) ==
  IF pairs = <<>> THEN volG
  ELSE LET p == Head(pairs) IN
       NameVols(IF HasName(volR, p.n) THEN PutAlways(volG, [n |-> p.g, d |-> Get(volR, p.n).d, named |-> TRUE]) ELSE volG, volR, Tail(pairs))
\* resnames_to_hash is a dict resname -> list of graphs: the pairs are visited grouped by residue name, the names in the order of
\* their first template in this file
FirstIdx(pairs, nm) == CHOOSE i \in 1..Len(pairs) : pairs[i].n = nm /\ \A j \in 1..(i - 1) : pairs[j].n # nm
Grouped(pairs) == LET idx == [i \in 1..Len(pairs) |-> [i |-> i, k |-> FirstIdx(pairs, pairs[i].n) * (Len(pairs) + 1) + i]]
                      srt == SortSeq(idx, LAMBDA a, b : a.k < b.k)
                  IN [j \in 1..Len(pairs) |-> pairs[srt[j].i]]
RECURSIVE MergeSeq(_, _)
MergeSeq(a, b) == IF b = <<>> THEN a ELSE MergeSeq(PutAlways(a, Head(b)), Tail(b))
BldClose == /\ pc = "infile" /\ cur.kind = "bld" /\ si = Len(cur.secs)
            /\ st' = [st EXCEPT !.tmpl = IF DevTmplMerge THEN MergeSeq(@, ltmpl) ELSE ltmpl,
                                !.volG = NameVols(@, st.volR, Grouped(r2h))]
            /\ pc' = "idle" /\ queue' = Tail(queue) /\ nfiles' = nfiles + 1
            /\ UNCHANGED <<cfg, cur, si, ph, curB, curL, curM, ltmpl, r2h, freed, risk>>

Next == Open \/ New \/ Fin \/ FinEmpty \/ Close \/ ReadBib \/ BldSec \/ BldClose
Spec == Init /\ [][Next]_vars
Done == (pc = "idle" /\ queue = <<>>) \/ pc = "error"

(* ---- projection of the store and labels of the steps (shared by the export and the trace specification) *)
Pairs(seq) == [i \in 1..Len(seq) |-> [n |-> seq[i].n, d |-> seq[i].d]]
Proj(s) == [blocks |-> Pairs(s.blocks), links |-> s.links, mods |-> Pairs(s.mods),
            cites |-> SetToSortSeq(s.cites, LAMBDA a, b : a.d < b.d),
            volR |-> Pairs(s.volR), volG |-> [i \in 1..Len(s.volG) |-> [n |-> s.volG[i].n, d |-> s.volG[i].d, named |-> s.volG[i].named]],
            tmpl |-> Pairs(s.tmpl), err |-> s.err]
Label == IF pc = "idle" THEN (LET f == Head(queue) IN IF Parsed(cfg.mode, f) THEN "open" ELSE IF f.user THEN "error" ELSE "skip")
         ELSE IF cur.kind = "bib" THEN "end"
         ELSE IF cur.kind = "bld" THEN (IF si < Len(cur.secs) THEN "bldsec" ELSE "end")
         ELSE IF ph = "new" /\ si < Len(cur.secs) THEN (IF cur.secs[si + 1].t = "other" THEN "new_other" ELSE "new")
         ELSE IF ph = "fin" THEN "fin"
         ELSE IF ph = "new" THEN "finempty"
         ELSE "end"
FileName == IF pc = "idle" THEN Head(queue).name ELSE cur.name

(* ======================================================================= P-layer *)
\* files that are read, in loading order (the P-layer's own statement of the order: user files first)
POrder(c) == c.user \o Flat(c.libs)
PRead(c, k) == SelectSeq(SubSeq(POrder(c), 1, k), LAMBDA f : Parsed(c.mode, f))      \* among the first k files
PErr(c, k) == \E i \in 1..k : POrder(c)[i].user /\ ~Parsed(c.mode, POrder(c)[i])

\* all sections of the files read, as [fi, si, t, n, d, dang, g, kind]
SecsOf(files) == UNION { { [fi |-> i, si |-> j, t |-> files[i].secs[j].t, n |-> files[i].secs[j].n, d |-> files[i].secs[j].d,
                            dang |-> files[i].secs[j].dang, g |-> files[i].secs[j].g, kind |-> files[i].kind]
                           : j \in 1..Len(files[i].secs) } : i \in 1..Len(files) }
Before(a, b) == a.fi < b.fi \/ (a.fi = b.fi /\ a.si < b.si)
LastOf(S) == CHOOSE e \in S : \A o \in S : o = e \/ Before(o, e)
FirstOf(S) == CHOOSE e \in S : \A o \in S : o = e \/ Before(e, o)
Names(S) == {e.n : e \in S}

\* effective definition of a name: the last one in loading order
Eff(S) == { [n |-> nm, d |-> LastOf({e \in S : e.n = nm}).d] : nm \in Names(S) }
PBlocks(files) == Eff({e \in SecsOf(files) : e.t = "block"})
PMods(files) == Eff({e \in SecsOf(files) : e.t = "mod" /\ e.kind = "ff"})
\* dict order (what -list-blocks prints): names by first definition
RECURSIVE OrderedNames(_)
OrderedNames(S) == IF S = {} THEN <<>> ELSE LET f == FirstOf(S) IN <<f.n>> \o OrderedNames({e \in S : e.n # f.n})
PBlockOrder(files) == OrderedNames({e \in SecsOf(files) : e.t = "block"})

\* links: .ff links, and the dangling link of every .itp block that is the last of its name in its file
PLinkDefs(files) == LET S == SecsOf(files) IN
   {e \in S : e.t = "link" /\ e.kind = "ff"} \cup
   {e \in S : e.t = "block" /\ e.kind = "itp" /\ e.dang /\ ~\E o \in S : o.fi = e.fi /\ o.t = "block" /\ o.n = e.n /\ o.si > e.si}
\* order the user can rely on: across files the loading order, inside an .ff file the text order
MustPrecede(a, b) == a.fi < b.fi \/ (a.fi = b.fi /\ a.kind = "ff" /\ a.si < b.si)
RECURSIVE Squeeze(_)
Squeeze(s) == IF Len(s) <= 1 THEN s ELSE IF s[1] = s[2] THEN Squeeze(Tail(s)) ELSE <<s[1]>> \o Squeeze(Tail(s))
LinksOK(links, files) ==
  LET L == PLinkDefs(files) sq == Squeeze(links) IN
    /\ ToSet(sq) = {e.d : e \in L}
    /\ Len(sq) = Cardinality(L)                                          \* every link once, repetitions only adjacent
    /\ \A a, b \in L : MustPrecede(a, b) =>
         (CHOOSE i \in 1..Len(sq) : sq[i] = a.d) < (CHOOSE i \in 1..Len(sq) : sq[i] = b.d)
\* "defined last wins" (relied upon by C02): the winning link for a residue name is the last definition for it
PLastLink(files, nm) == LET L == {e \in PLinkDefs(files) : e.n = nm} IN
                          IF L = {} THEN 0 ELSE LastOf(L).d
ILastLink(links, files, nm) == LET ds == {e.d : e \in {x \in PLinkDefs(files) : x.n = nm}}
                                   idx == {i \in 1..Len(links) : links[i] \in ds} IN
                                 IF idx = {} THEN 0 ELSE links[CHOOSE i \in idx : \A j \in idx : j <= i]

\* citations: the table of the last .bib file read
PCites(files) == LET B == {i \in 1..Len(files) : files[i].kind = "bib"} IN
                   IF B = {} THEN {} ELSE LastPerKey(CiteSet(files[CHOOSE i \in B : \A j \in B : j <= i]))

\* build files
PVolR(files) == Eff({e \in SecsOf(files) : e.t = "vol"})
PTmpl(files) == IF files = <<>> THEN {}
                ELSE LET S == {e \in SecsOf(files) : e.t = "tmpl" /\ e.fi = Len(files)} IN
                       { [n |-> gg, d |-> LastOf({e \in S : e.g = gg}).d] : gg \in {e.g : e \in S} }
\* volume of a graph: the residue-name value current at the end of the last file that defines the graph under a name with a
\* value; otherwise computed from the first template of that graph ever read
VolAtEnd(files, k, nm) == LET S == {e \in SecsOf(files) : e.t = "vol" /\ e.n = nm /\ e.fi <= k} IN IF S = {} THEN 0 ELSE LastOf(S).d
PVolG(files) ==
  LET T == {e \in SecsOf(files) : e.t = "tmpl"} IN
  { LET Tg == {e \in T : e.g = gg}
        named == {e \in Tg : VolAtEnd(files, e.fi, e.n) # 0}
        lastfi == IF named = {} THEN 0 ELSE CHOOSE k \in {e.fi : e \in named} : \A o \in named : o.fi <= k
        \* inside that file the templates are visited grouped by residue name (names in the order of their first template in the
        \* file), inside a group in text order: the last named one visited wins
        FirstSi(nm) == LET Q == {e \in T : e.fi = lastfi /\ e.n = nm} IN FirstOf(Q).si
        inlast == {e \in named : e.fi = lastfi}
        win == IF named = {} THEN FirstOf(Tg)
               ELSE CHOOSE e \in inlast : \A o \in inlast : o = e \/ FirstSi(o.n) < FirstSi(e.n) \/ (o.n = e.n /\ o.si < e.si)
    IN IF named = {} THEN [n |-> gg, d |-> win.d, named |-> FALSE]
                     ELSE [n |-> gg, d |-> VolAtEnd(files, lastfi, win.n), named |-> TRUE]
    : gg \in {e.g : e \in T} }

AsSet(seq) == {[n |-> seq[i].n, d |-> seq[i].d] : i \in 1..Len(seq)}
AsSet3(seq) == {[n |-> seq[i].n, d |-> seq[i].d, named |-> seq[i].named] : i \in 1..Len(seq)}
NameSeq(seq) == [i \in 1..Len(seq) |-> seq[i].n]

\* the store after the first k files of the loading order equals the declarative result for those files
Matches(s, c, k) ==
  LET files == PRead(c, k) IN
    /\ AsSet(s.blocks) = PBlocks(files)
    /\ NameSeq(s.blocks) = PBlockOrder(files)
    /\ AsSet(s.mods) = PMods(files)
    /\ LinksOK(s.links, files)
    /\ \A nm \in {e.n : e \in PLinkDefs(files)} : ILastLink(s.links, files, nm) = PLastLink(files, nm)
    /\ s.cites = PCites(files)
    /\ AsSet(s.volR) = PVolR(files)
    /\ AsSet(s.tmpl) = PTmpl(files)
    /\ AsSet3(s.volG) = PVolG(files)

\* I = P after every file (prefix-wise), and at the end
StoreIsDeclarative == (pc = "idle") => Matches(st, cfg, nfiles)
ErrorRule == /\ (pc = "error" => PErr(cfg, Len(POrder(cfg))))
             /\ (pc = "idle" /\ queue = <<>> => ~PErr(cfg, Len(POrder(cfg))))
CountsFiles == pc = "idle" => nfiles + Len(queue) = Len(POrder(cfg))

(* ======================================================================= expectations that do NOT hold (notes) *)
AllFiles(c) == PRead(c, Len(POrder(c)))
\* E1: a block defined in a user file keeps the user's (last) definition
UserIdx(c) == {i \in 1..Len(AllFiles(c)) : AllFiles(c)[i].user}
UserDefinitionWins == (pc = "idle" /\ queue = <<>>) =>
   \A e \in {x \in SecsOf(AllFiles(cfg)) : x.t = "block" /\ x.fi \in UserIdx(cfg)} :
      \E b \in AsSet(st.blocks) : b.n = e.n /\ b.d \in {x.d : x \in {y \in SecsOf(AllFiles(cfg)) : y.fi \in UserIdx(cfg)}}
\* E2: every citation key defined in some .bib file read is in the table
CitationsAccumulate == (pc = "idle" /\ queue = <<>>) =>
   \A e \in {x \in SecsOf(AllFiles(cfg)) : x.t = "cite"} : \E k \in st.cites : k.n = e.n
\* E3: a template given in any build file read is there at the end
TemplatesAccumulate == (pc = "idle" /\ queue = <<>>) =>
   \A e \in {x \in SecsOf(AllFiles(cfg)) : x.t = "tmpl"} : HasName(st.tmpl, e.g)
\* E4: the result does not depend on the order in which the operating system lists a library directory
SameUpToListing(c1, c2) == /\ c1.mode = c2.mode /\ c1.user = c2.user /\ Len(c1.libs) = Len(c2.libs)
                           /\ \A i \in 1..Len(c1.libs) : ToSet(c1.libs[i]) = ToSet(c2.libs[i]) /\ Len(c1.libs[i]) = Len(c2.libs[i])
ListingOrderIrrelevant == (pc = "idle" /\ queue = <<>>) =>
   \A c2 \in Configs : SameUpToListing(cfg, c2) =>
      LET f2 == AllFiles(c2) IN PBlocks(f2) = AsSet(st.blocks) /\ PCites(f2) = st.cites /\ PTmpl(f2) = AsSet(st.tmpl)
\* ... which does hold when no name is defined in two files of one library and a library has at most one .bib / .bld file
LibUnambiguous(c) == \A i \in 1..Len(c.libs) :
   LET fs == SelectSeq(c.libs[i], LAMBDA f : Parsed(c.mode, f)) S == SecsOf(fs) IN
     /\ \A a, b \in S : (a.t = b.t /\ a.t \in {"block", "mod", "vol"} /\ a.n = b.n) => a.fi = b.fi
     /\ Cardinality({k \in 1..Len(fs) : fs[k].kind \in {"bib", "bld"}}) <= 1
ListingOrderIrrelevantIfUnambiguous == (pc = "idle" /\ queue = <<>> /\ LibUnambiguous(cfg)) =>
   \A c2 \in Configs : SameUpToListing(cfg, c2) =>
      LET f2 == AllFiles(c2) IN PBlocks(f2) = AsSet(st.blocks) /\ PCites(f2) = st.cites /\ PTmpl(f2) = AsSet(st.tmpl)
=============================================================================
