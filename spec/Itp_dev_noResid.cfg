SPECIFICATION Spec
CONSTANTS
 Mols <- MCMols
 Dev = "noResid"
 FixedOrder = TRUE
INVARIANT RoundTripI
CHECK_DEADLOCK FALSE
