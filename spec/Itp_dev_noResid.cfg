INIT MCInit
NEXT Next
CONSTANTS
 Mols = {}
 Dev = "noResid"
 FixedOrder = TRUE
INVARIANT RoundTripI
CHECK_DEADLOCK FALSE
