SPECIFICATION Spec
CONSTANTS
 Mols <- MolsDev
 Dev = "noResid"
 FixedOrder = TRUE
INVARIANT RoundTripI
CHECK_DEADLOCK FALSE
