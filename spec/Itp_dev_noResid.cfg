INIT MCInit
NEXT Next
CONSTANTS
 Mols = {}
 Dev = "noResid"
 FixedOrder = TRUE
INVARIANT RoundTripI
INVARIANT FastAgrees
CHECK_DEADLOCK FALSE
