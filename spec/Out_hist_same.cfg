SPECIFICATION Spec
CONSTANTS
 Variants <- HVariants
 NBk = 3
 Inits <- HInits
 InoutInits <- HInits
 DevInits <- HInits
 RouteInits <- HInits
 Runs = 2
 QueuePersists = TRUE
 Crash1 <- HCrash1
 Crash2 <- HCrash2
 Targets2 <- HSame
 DevPlainOpen = FALSE
 DevFlushEarly = FALSE
 DevBackupOverwrite = FALSE
 DevNoBackup = FALSE
 DevSeqOpenEarly = FALSE
 DevLinkDirect = FALSE
 DevBackupCount = FALSE
 DevInplaceInput = FALSE
 DevMoveBeforeClose = FALSE
 DevRouteDiscard = FALSE
 DevStageFallback = FALSE
 DevBackupSkip = FALSE
 EnvInits <- MCEnvInits
INVARIANT HistoryClean
INVARIANT NoLoss
INVARIANT BackupResolves
INVARIANT BoundOK
CHECK_DEADLOCK FALSE
