---------------------------- MODULE Backmap ----------------------------
(***************************************************************************)
(* C06 - backmapping (polyply/src/backmap.py, linalg_functions.rotate_xyz). *)
(*                                                                         *)
(* Exact instance: residue templates are integer lattice vectors, residue  *)
(* centres are lattice points, the optimiser result is an angle triple of  *)
(* multiples of pi/2 (so the rotation Rz*Ry*Rx is an integer matrix) and   *)
(* the backmapping factor is a rational p/q.  Every coordinate is kept as  *)
(* an integer numerator over the common denominator Den = L*q, L = 12 =    *)
(* lcm(1..4) absorbing the division by the number of atoms when the        *)
(* template is centred.                                                    *)
(*                                                                         *)
(* I-layer: one action per loop iteration of Backmap._place_init_coords:   *)
(* Skip (node not flagged for backmapping) and Place(k) (orient_template   *)
(* returned the template turned by the angle triple k - the optimiser's    *)
(* choice is nondeterminism the code does not control - then every atom of *)
(* the residue gets  centre + fudge * R * template[atom name]).            *)
(* P-layer: what the statement of C06 promises, written without the        *)
(* rotation matrices of the code: centre of geometry, existence of a       *)
(* proper lattice rotation (orthogonal, det +1), scaled pair distances,    *)
(* preserved signed volumes (handedness), congruent copies, virtual sites  *)
(* still on their construction, and "own residue only" as action property. *)
(***************************************************************************)
EXTENDS Integers, Sequences, FiniteSets, TLC

CONSTANTS TypeDefs,   \* type id -> [names : Seq(STRING), u : [name -> <<x,y,z>>], bonds : Seq(<<name,name>>), vs : Seq([site, from])]
          Mols,       \* set of molecules; a molecule is Seq([type, centre, bm]) in node order
          Fudges,     \* set of <<p, q>> : backmapping factor p/q
          Angles,     \* set of <<kx, ky, kz>> : optimiser results in units of pi/2
          DevImproper,      \* deviation: sign flipped in the y rotation matrix (mutant m30)
          DevPerAtom,       \* deviation: atoms rotated individually (first atom not turned)
          DevNoFudge,       \* deviation: factor dropped (mutant m31)
          DevOtherTemplate, \* deviation: template of another residue (first residue of the molecule) used
          DevCentreOther    \* deviation: centre taken from another node (first residue of the molecule)

VARIABLES mol, fud, placed, done, built, pos, last
vars == <<mol, fud, placed, done, built, pos, last>>

L == 12

(* ---------------------------------------------------------------- vectors / matrices *)
VAdd(a, b) == <<a[1] + b[1], a[2] + b[2], a[3] + b[3]>>
VSub(a, b) == <<a[1] - b[1], a[2] - b[2], a[3] - b[3]>>
VScale(s, a) == <<s * a[1], s * a[2], s * a[3]>>
Dot(a, b) == a[1] * b[1] + a[2] * b[2] + a[3] * b[3]
Cross(a, b) == <<a[2] * b[3] - a[3] * b[2], a[3] * b[1] - a[1] * b[3], a[1] * b[2] - a[2] * b[1]>>
Zero == <<0, 0, 0>>
Id3 == << <<1, 0, 0>>, <<0, 1, 0>>, <<0, 0, 1>> >>
MatVec(M, v) == <<Dot(M[1], v), Dot(M[2], v), Dot(M[3], v)>>
Col(M, j) == <<M[1][j], M[2][j], M[3][j]>>
Transp(M) == <<Col(M, 1), Col(M, 2), Col(M, 3)>>
MatMul(A, B) == [i \in 1..3 |-> [j \in 1..3 |-> Dot(A[i], Col(B, j))]]
Det3(M) == Dot(M[1], Cross(M[2], M[3]))
AsTuple(M) == << <<M[1][1], M[1][2], M[1][3]>>, <<M[2][1], M[2][2], M[2][3]>>, <<M[3][1], M[3][2], M[3][3]>> >>

RECURSIVE VSumSeq(_, _)
VSumSeq(f, n) == IF n = 0 THEN Zero ELSE VAdd(f[n], VSumSeq(f, n - 1))

(* ---------------------------------------------------------------- I-layer: the rotation of the code *)
CosK(k) == CASE k % 4 = 0 -> 1 [] k % 4 = 1 -> 0 [] k % 4 = 2 -> -1 [] OTHER -> 0
SinK(k) == CASE k % 4 = 0 -> 0 [] k % 4 = 1 -> 1 [] k % 4 = 2 -> 0 [] OTHER -> -1
RotZ(k) == << <<CosK(k), -SinK(k), 0>>, <<SinK(k), CosK(k), 0>>, <<0, 0, 1>> >>
RotY(k) == << <<CosK(k), 0, SinK(k)>>, <<0, 1, 0>>, <<(IF DevImproper THEN SinK(k) ELSE -SinK(k)), 0, CosK(k)>> >>
RotX(k) == << <<1, 0, 0>>, <<0, CosK(k), -SinK(k)>>, <<0, SinK(k), CosK(k)>> >>
\* rotate_xyz(obj, theta_x, theta_y, theta_z) = rot_z * rot_y * rot_x * obj
RotCalc(k) == AsTuple(MatMul(MatMul(RotZ(k[3]), RotY(k[2])), RotX(k[1])))
RotTab == [k \in Angles |-> RotCalc(k)]   \* constant-level, evaluated once by TLC
RotOf(k) == RotTab[k]

(* ---------------------------------------------------------------- templates *)
Names(ty) == TypeDefs[ty].names
NAt(ty) == Len(Names(ty))
NameSet(ty) == {Names(ty)[i] : i \in 1..NAt(ty)}
SumU(ty) == VSumSeq([i \in 1..NAt(ty) |-> TypeDefs[ty].u[Names(ty)[i]]], NAt(ty))
\* template vector (from the centre of geometry) times L:  L * (u - sum/n) = (L/n) * (n*u - sum)
TNCalc(ty, nm) == VScale(L \div NAt(ty), VSub(VScale(NAt(ty), TypeDefs[ty].u[nm]), SumU(ty)))
TNTab == [ty \in DOMAIN TypeDefs |-> [nm \in NameSet(ty) |-> TNCalc(ty, nm)]]   \* constant-level, evaluated once by TLC
TN(ty, nm) == TNTab[ty][nm]

AtomsOf(m) == UNION { { <<r, Names(m[r].type)[i]>> : i \in 1..NAt(m[r].type) } : r \in 1..Len(m) }
Den == L * fud[2]

Init == /\ mol \in Mols /\ fud \in Fudges
        /\ placed = 0 /\ done = {} /\ built = <<>>
        /\ pos = [a \in AtomsOf(mol) |-> Zero]
        /\ last = [op |-> "init", r |-> 0]

\* protocol part of the two steps (shared with the trace specification BmTrace, where coordinates are real-valued)
SkipProto == /\ placed < Len(mol) /\ ~mol[placed + 1].bm
             /\ placed' = placed + 1
             /\ UNCHANGED <<mol, fud, done, built>>
PlaceProto == /\ placed < Len(mol) /\ mol[placed + 1].bm
              /\ placed' = placed + 1 /\ done' = done \cup {placed + 1} /\ built' = Append(built, placed + 1)
              /\ UNCHANGED <<mol, fud>>

Skip == /\ SkipProto
        /\ pos' = pos
        /\ last' = [op |-> "skip", r |-> placed + 1]

Place(k) ==
  /\ PlaceProto
  /\ LET r    == placed + 1
         ty   == mol[r].type
         tyT  == IF DevOtherTemplate /\ NameSet(mol[1].type) = NameSet(ty) THEN mol[1].type ELSE ty
         c    == IF DevCentreOther THEN mol[1].centre ELSE mol[r].centre
         p    == IF DevNoFudge THEN fud[2] ELSE fud[1]
         R    == RotOf(k)
         RA(nm) == IF DevPerAtom /\ nm = Names(ty)[1] THEN Id3 ELSE R
     IN /\ pos' = [a \in DOMAIN pos |-> IF a[1] = r
                                        THEN VAdd(VScale(Den, c), VScale(p, MatVec(RA(a[2]), TN(tyT, a[2]))))
                                        ELSE pos[a]]
        /\ last' = [op |-> "place", r |-> r]

Next == Skip \/ \E k \in Angles : Place(k)
Spec == Init /\ [][Next]_vars

(* ------------------------------------------------------------------ *)
(* P-layer                                                            *)
(* ------------------------------------------------------------------ *)
Trits == {-1, 0, 1}
\* orthogonal integer matrices = signed permutation matrices (BmRotLaws checks this against brute force over all 3^9 matrices)
Perms3 == { <<1, 2, 3>>, <<1, 3, 2>>, <<2, 1, 3>>, <<2, 3, 1>>, <<3, 1, 2>>, <<3, 2, 1>> }
SignedPerm(s, sg) == << <<(IF s[1] = 1 THEN sg[1] ELSE 0), (IF s[1] = 2 THEN sg[1] ELSE 0), (IF s[1] = 3 THEN sg[1] ELSE 0)>>,
                        <<(IF s[2] = 1 THEN sg[2] ELSE 0), (IF s[2] = 2 THEN sg[2] ELSE 0), (IF s[2] = 3 THEN sg[2] ELSE 0)>>,
                        <<(IF s[3] = 1 THEN sg[3] ELSE 0), (IF s[3] = 2 THEN sg[3] ELSE 0), (IF s[3] = 3 THEN sg[3] ELSE 0)>> >>
OrthoLattice == { SignedPerm(s, <<a, b, c>>) : s \in Perms3, a \in {-1, 1}, b \in {-1, 1}, c \in {-1, 1} }
\* the proper rotations of the lattice: orthogonal integer matrices of determinant +1 (there are 24)
ProperLattice == { M \in OrthoLattice : Det3(M) = 1 }

P == fud[1]
TypeOf(r) == mol[r].type
PosN(r, nm) == pos[<<r, nm>>]
CentreN(r) == VScale(Den, mol[r].centre)
Dist2(a, b) == Dot(VSub(a, b), VSub(a, b))
Vol3(o, a, b, c) == Dot(VSub(a, o), Cross(VSub(b, o), VSub(c, o)))

\* the centre of geometry of the atoms of a backmapped residue is the residue position
Centred == \A r \in done :
             VSumSeq([i \in 1..NAt(TypeOf(r)) |-> PosN(r, Names(TypeOf(r))[i])], NAt(TypeOf(r))) = VScale(NAt(TypeOf(r)), CentreN(r))

\* the atoms are the residue's own template (own atom name) turned by ONE proper rotation and scaled by p/q about the centre
TurnedScaled == \A r \in done : \E R \in ProperLattice :
                  \A nm \in NameSet(TypeOf(r)) : PosN(r, nm) = VAdd(CentreN(r), VScale(P, MatVec(R, TN(TypeOf(r), nm))))

\* consequences the user relies on, stated without any matrix: pair distances scaled, signed volumes (handedness) kept
\* (pairs, triples and quadruples of atoms are taken in name order: distances are symmetric, volumes antisymmetric)
Nm(r, i) == Names(TypeOf(r))[i]
Ix(r) == 1..NAt(TypeOf(r))
Scaled == \A r \in done : \A i \in Ix(r) :
            /\ Dist2(PosN(r, Nm(r, i)), CentreN(r)) = P * P * Dist2(TN(TypeOf(r), Nm(r, i)), Zero)
            /\ \A j \in Ix(r) : i < j =>
                 Dist2(PosN(r, Nm(r, i)), PosN(r, Nm(r, j))) = P * P * Dist2(TN(TypeOf(r), Nm(r, i)), TN(TypeOf(r), Nm(r, j)))
SameHanded == \A r \in done : \A i, j, k \in Ix(r) : (i < j /\ j < k) =>
                LET ty == TypeOf(r) a == Nm(r, i) b == Nm(r, j) c == Nm(r, k) IN
                /\ Vol3(CentreN(r), PosN(r, a), PosN(r, b), PosN(r, c)) = P * P * P * Vol3(Zero, TN(ty, a), TN(ty, b), TN(ty, c))
                /\ \A m \in Ix(r) : k < m =>
                     Vol3(PosN(r, a), PosN(r, b), PosN(r, c), PosN(r, Nm(r, m))) =
                       P * P * P * Vol3(TN(ty, a), TN(ty, b), TN(ty, c), TN(ty, Nm(r, m)))
\* all copies of a residue type are congruent (same distances, same handedness)
Congruent == \A r, s \in done : (r < s /\ TypeOf(r) = TypeOf(s)) =>
               \A i, j \in Ix(r) : i < j =>
                 /\ Dist2(PosN(r, Nm(r, i)), PosN(r, Nm(r, j))) = Dist2(PosN(s, Nm(r, i)), PosN(s, Nm(r, j)))
                 /\ \A k, m \in Ix(r) : (j < k /\ k < m) =>
                      Vol3(PosN(r, Nm(r, i)), PosN(r, Nm(r, j)), PosN(r, Nm(r, k)), PosN(r, Nm(r, m))) =
                        Vol3(PosN(s, Nm(r, i)), PosN(s, Nm(r, j)), PosN(s, Nm(r, k)), PosN(s, Nm(r, m)))
\* a virtual site (centre of its defining atoms in the template) is still where GROMACS constructs it after placement
VSKept == \A r \in done : \A j \in 1..Len(TypeDefs[TypeOf(r)].vs) :
            LET v == TypeDefs[TypeOf(r)].vs[j] IN
              VScale(Len(v.from), PosN(r, v.site)) = VSumSeq([i \in 1..Len(v.from) |-> PosN(r, v.from[i])], Len(v.from))
\* residues not flagged and residues not reached yet hold no backmapped coordinate
Untouched == \A a \in DOMAIN pos : a[1] \notin done => pos[a] = Zero
Laws == Centred /\ TurnedScaled /\ Scaled /\ SameHanded /\ Congruent /\ VSKept /\ Untouched

\* "own residue only": a step changes coordinates of the residue it places and of no other atom
OwnOnly == [][ \A a \in DOMAIN pos : (pos'[a] # pos[a]) => (last'.op = "place" /\ a[1] = last'.r) ]_vars
\* node order, each flagged residue exactly once, the list handed to orient_template is the residues built so far
Protocol == /\ done = {r \in 1..placed : mol[r].bm}
            /\ Len(built) = Cardinality(done) /\ \A i \in 1..Len(built) : built[i] \in done
            /\ \A i, j \in 1..Len(built) : i < j => built[i] < built[j]

\* facts about the rotation of the code: every angle triple gives a proper lattice rotation, all 24 are reachable
RotationLaws == /\ \A k \in Angles : RotOf(k) \in ProperLattice
                /\ Cardinality(ProperLattice) = 24
                /\ \A M \in OrthoLattice : AsTuple(MatMul(M, Transp(M))) = Id3 /\ Det3(M) \in {-1, 1}
RotationLawsOnce == (placed = 0 /\ done = {}) => RotationLaws
AllReachable == {RotOf(k) : k \in Angles} = ProperLattice
\* the templates of the instance are well formed: centred (sum zero), division exact, virtual sites on their construction
TemplatesOK == \A ty \in DOMAIN TypeDefs :
                 /\ L % NAt(ty) = 0
                 /\ VSumSeq([i \in 1..NAt(ty) |-> TN(ty, Names(ty)[i])], NAt(ty)) = Zero
                 /\ \A j \in 1..Len(TypeDefs[ty].vs) : LET v == TypeDefs[ty].vs[j] IN
                      VScale(Len(v.from), TypeDefs[ty].u[v.site]) = VSumSeq([i \in 1..Len(v.from) |-> TypeDefs[ty].u[v.from[i]]], Len(v.from))
TemplatesOKOnce == (placed = 0 /\ done = {}) => TemplatesOK
=============================================================================
