SPECIFICATION Spec
CONSTANTS
 Variants <- MCVariants
 NBk = 4
 Inits <- MCInits
 Runs = 1
 QueuePersists = FALSE
 Crash1 <- MCNone
 Crash2 <- MCNone
 Targets2 <- MCTargets1
 DevPlainOpen = FALSE
 DevFlushEarly = FALSE
 DevBackupOverwrite = FALSE
 DevNoBackup = FALSE
 DevSeqOpenEarly = FALSE
 DevLinkDirect = FALSE
 DevBackupCount = FALSE
INVARIANT NoEarlyEffect
INVARIANT SuccessState
INVARIANT OthersKept
INVARIANT OnlyBackupCreated
INVARIANT NoLoss
INVARIANT BackupResolves
INVARIANT TargetWhole
INVARIANT TmpClean
INVARIANT BoundOK
PROPERTY CommitOnly
CHECK_DEADLOCK FALSE
