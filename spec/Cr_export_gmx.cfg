SPECIFICATION Spec
CONSTANTS
 Grid <- MCGridSmall
 DevMap = FALSE
 DevArgs = FALSE
 DevHarm = FALSE
INVARIANT ExportInv
CHECK_DEADLOCK FALSE
