SPECIFICATION TSpec
CONSTANTS
 Dev = {"CircStrip"}
 Mode = "I"
INVARIANT Mark
INVARIANT Prog
POSTCONDITION Accepted
CHECK_DEADLOCK FALSE
