SPECIFICATION Spec
CONSTANTS
 Inputs <- MCInputs
 Dev <- NoDev
INVARIANT Reach_Mod
CHECK_DEADLOCK FALSE
