---------------------------- MODULE LatticeTrace ----------------------------
(* I->S for C05 (exact part): lattice runs of the real BuildSystem / RandomWalk with random draws are validated  *)
(* against LatticeWalk: every draw index must lead to the position the code computed, accepted iff the spec     *)
(* accepts it (site free; with Force also the force criterion with the neighbours of the system being built).   *)
(* One trace = one process: the systems of Doc.history built one after the other ("build" events in between).   *)
EXTENDS LatticeWalk, Json, IOUtils
VARIABLES tid, l
Doc == JsonDeserialize(IOEnv.TRACE_FILE)
Traces == Doc.traces
THistory == [b \in 1..Len(Doc.history) |-> [chains |-> Doc.history[b].chains, closed |-> ToSet(Doc.history[b].closed), stars |-> ToSet(Doc.history[b].stars)]]
TGrid == { <<g[1], g[2], g[3]>> : g \in ToSet(Doc.grid) }
TBundle == Doc.bundle
NoDev == [noWrap |-> FALSE, noOverlapTest |-> FALSE, neighboursExempt |-> FALSE, noForceTest |-> FALSE, staleNeighbours |-> FALSE]
ASSUME TLCSet(1, {}) /\ TLCSet(2, [t \in 1..Len(Traces) |-> 0])
Evs == Traces[tid]
Ev == Evs[l]
Pt(s) == <<s[1], s[2], s[3]>>
Is(e) == l <= Len(Evs) /\ Ev.ev = e
Consume == l' = l + 1 /\ tid' = tid
ObsOK == IF "obs" \in DOMAIN Ev THEN \A f \in DOMAIN Ev.obs : Ev.obs[f] ELSE TRUE
TInit == Init /\ tid \in 1..Len(Traces) /\ l = 1
TNext == \/ (Is("start") /\ Ev.m = mol /\ Ev.ok /\ StartOk(Pt(Ev.g)) /\ ObsOK /\ Consume)
         \/ (Is("start") /\ Ev.m = mol /\ ~Ev.ok /\ StartRejected(Pt(Ev.g)) /\ Consume)
         \/ (Is("draw") /\ Ev.m = mol /\ Ev.r = k /\ Ev.ok /\ DrawAccept(Ev.i) /\ pos'[mol][k] = Pt(Ev.to) /\ ObsOK /\ Consume)
         \/ (Is("draw") /\ Ev.m = mol /\ Ev.r = k /\ ~Ev.ok /\ DrawReject(Ev.i) /\ Target(Ev.i) = Pt(Ev.to) /\ Consume)
         \/ (Is("abandon") /\ Ev.m = mol /\ Abandon /\ Consume)
         \/ (Is("accept") /\ Ev.m = mol /\ Accept /\ Consume)
         \/ (Is("build") /\ Ev.b = build + 1 /\ NextBuild /\ Consume)
TSpec == TInit /\ [][TNext]_<<vars, tid, l>>
Mark == (l = Len(Evs) + 1 /\ pc = "done") => TLCSet(1, TLCGet(1) \cup {tid})
Prog == TLCSet(2, [TLCGet(2) EXCEPT ![tid] = IF @ < l - 1 THEN l - 1 ELSE @])
Accepted == IF TLCGet(1) = 1..Len(Traces) THEN TRUE
            ELSE (PrintT(<<"REJECTED", ToJson(SetToSeq({<<t, TLCGet(2)[t]>> : t \in (1..Len(Traces)) \ TLCGet(1)}))>>) /\ FALSE)
=============================================================================
