SPECIFICATION FairSpec
CONSTANTS
 Instances <- MCSmall
 MaxFail = 3
 Dev <- NoDev
PROPERTY Terminates
CHECK_DEADLOCK FALSE
