SPECIFICATION QuickSpec
CONSTANTS
 DevChoices <- NoDev
INVARIANT FamilyInDomain
INVARIANT ErrOK
INVARIANT MolListUnchanged
INVARIANT Correct
PROPERTY NodesStable
PROPERTY HandBack
PROPERTY AnnotateOnlyAdds
CHECK_DEADLOCK FALSE
