SPECIFICATION Spec
CONSTANTS
 Cases <- CasesFrag
 FFs <- FFcat
 Dev <- DevFragIdOrder
INVARIANT Confluent
CHECK_DEADLOCK FALSE
