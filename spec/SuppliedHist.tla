---------------------------- MODULE SuppliedHist ----------------------------
(***************************************************************************)
(* C04, in-process HISTORIES: the file system and the process are state.   *)
(*                                                                         *)
(* One python process calls gen_coords (Topology.add_positions_from_file)  *)
(* again and again - replicas, scans of build options, frame after frame   *)
(* of a trajectory moved to the same path - and the coordinate files are   *)
(* written, rewritten and replaced in between.  C04 for such a history:    *)
(* EVERY call keeps exactly the coordinates that the file under its path   *)
(* holds WHEN THE CALL IS MADE.  Nothing else decides a call's result: not *)
(* what the path held earlier, not the size or the time stamp of the file, *)
(* not other paths, not the options or the files of earlier calls.         *)
(*                                                                         *)
(*   fs[p]   the file at path p: [f, K, t] - content ("frame" f: row i of  *)
(*           frame f is the position xyz(f, i); its box is box(f)), number *)
(*           of rows K (= the size: .gro/.pdb are fixed-width formats, two *)
(*           frames with the same K have the same size in bytes) and time  *)
(*           stamp t (mtime, which `cp -p`, rsync -t, copy2 preserve and   *)
(*           which is the same for files dumped within one tick).          *)
(*           NoFile = no file.                                             *)
(*   cache, buf   what a PROCESS could carry from call to call.  In the    *)
(*           intended design the process carries nothing (they stay empty);*)
(*           they are consulted under the deviations only.                 *)
(*   obs     the result of the last call (invalidated by the next write).  *)
(*   hist    the operations so far (kept when KeepHist; exported).         *)
(*                                                                         *)
(* The result of a call is the P-layer of GenCoords (Status / Rows) applied*)
(* to the rows the call sees, each row carrying the frame it stems from:   *)
(* per residue [status, rows, frames], and the frame of the box.           *)
(*                                                                         *)
(* Deviations (hdev, fixed when the process starts; HDevs = the values of  *)
(* the instance, "none" = the intended design):                            *)
(*  "cacheByStat"  parsed files are remembered under (path, size, stamp)   *)
(*  "cacheByPath"  parsed files are remembered under their path            *)
(*  "bufferReused" the row buffer of the previous call is reused: rows     *)
(*                 beyond the end of the current file are the old ones     *)
(*  "callRestamps" a call touches its input file                           *)
(***************************************************************************)
EXTENDS GenCoords
CONSTANTS Paths, Frames, Ks, Stamps,
          OptSeq,     \* the option sets of the calls: sequence of [mols, skip, res]
          MaxOps,     \* bound on the number of operations (0: no bound - complete state graph of the process)
          KeepHist,   \* TRUE: the operations are recorded in hist (bounded instances only)
          HDevs       \* the deviations of the instance ({"none"}: the intended design)
VARIABLES fs, cache, buf, obs, lastop, nops, hist, hdev
hvars == <<fs, cache, buf, obs, lastop, nops, hist, hdev>>
HDev == hdev

NoFile == [f |-> 0, K |-> 0, t |-> 0]
Files == [f : Frames, K : Ks, t : Stamps]
\* the rows of a file, each tagged with the frame it stems from
Src(file) == [i \in 1..file.K |-> file.f]
NoRes == [err |-> FALSE, box |-> 0, rs |-> <<>>]
NoObs == [valid |-> FALSE, path |-> "", o |-> 0, res |-> NoRes]

(* ---------------- P-layer: what a call yields on rows `src` (box of frame `bx`) with options o ---------------- *)
ResultOf(src, bx, o) ==
    LET s == [mols |-> o.mols, K |-> Len(src), skip |-> o.skip, res |-> o.res] IN
      IF Incomplete(s) THEN [err |-> TRUE, box |-> 0, rs |-> <<>>]
      ELSE [err |-> FALSE, box |-> bx,
            rs |-> [k \in 1..Len(Residues(s)) |->
                      [status |-> Status(s, k), rows |-> Rows(s, k),
                       frames |-> [i \in 1..Len(Rows(s, k)) |-> src[Rows(s, k)[i]]]]]]
Current(p, o) == ResultOf(Src(fs[p]), fs[p].f, o)

(* ---------------- I-layer: the process ---------------- *)
Hit(p) == IF HDev = "cacheByStat" THEN {e \in cache : e.p = p /\ e.file.K = fs[p].K /\ e.file.t = fs[p].t}
          ELSE IF HDev = "cacheByPath" THEN {e \in cache : e.p = p}
          ELSE {}
Parsed(p) == IF Hit(p) # {} THEN (CHOOSE e \in Hit(p) : TRUE).file ELSE fs[p]
Seen(p) == LET cur == Src(Parsed(p)) IN
             IF HDev = "bufferReused" /\ Len(buf) > Len(cur) THEN cur \o SubSeq(buf, Len(cur) + 1, Len(buf)) ELSE cur
Bound == MaxOps = 0 \/ nops < MaxOps
Log(e) == /\ nops' = (IF MaxOps = 0 THEN nops ELSE nops + 1)
          /\ hist' = (IF KeepHist THEN Append(hist, e) ELSE hist)

HInit == /\ sys = [mols |-> <<>>, K |-> 0, skip |-> {}, res |-> "mol"] /\ ri = 1 /\ total = 0 /\ out = <<>> /\ err = FALSE
         /\ fs = [p \in Paths |-> NoFile] /\ cache = {} /\ buf = <<>> /\ obs = NoObs /\ lastop = "init" /\ nops = 0 /\ hist = <<>>
         /\ hdev \in HDevs
\* a coordinate file appears under path p (written in place or moved there; with its own size and time stamp)
Put(p, file) == /\ Bound
                /\ fs' = [fs EXCEPT ![p] = file] /\ obs' = NoObs /\ lastop' = "put"
                /\ UNCHANGED <<cache, buf>>
                /\ Log([op |-> "put", path |-> p, f |-> file.f, K |-> file.K, t |-> file.t, o |-> 0, res |-> NoRes])
\* one call of gen_coords / add_positions_from_file in the process: coordinate file p, options OptSeq[oi]
Call(p, oi) ==
    /\ Bound /\ fs[p] # NoFile
    /\ LET src == Seen(p)
           r == ResultOf(src, Parsed(p).f, OptSeq[oi])
       IN /\ obs' = [valid |-> TRUE, path |-> p, o |-> oi, res |-> r]
          /\ buf' = (IF HDev = "bufferReused" THEN src ELSE <<>>)
          /\ cache' = (IF HDev \in {"cacheByStat", "cacheByPath"} /\ Hit(p) = {} THEN cache \cup {[p |-> p, file |-> fs[p]]} ELSE cache)
          /\ Log([op |-> "call", path |-> p, f |-> 0, K |-> 0, t |-> 0, o |-> oi, res |-> r])
    /\ fs' = (IF HDev = "callRestamps"
              THEN LET old == fs[p] IN [fs EXCEPT ![p] = [f |-> old.f, K |-> old.K, t |-> CHOOSE t \in Stamps : t # old.t]]
              ELSE fs)
    /\ lastop' = "call"
HNext == /\ \E p \in Paths : (\E file \in Files : file # fs[p] /\ Put(p, file)) \/ (\E oi \in DOMAIN OptSeq : Call(p, oi))
         /\ UNCHANGED <<vars, hdev>>
HSpec == HInit /\ [][HNext]_<<vars, hvars>>

(* ---------------- laws ---------------- *)
\* a call yields what the file under its path holds now - and nothing but that file and the call's own options decide it
CallIsCurrent == obs.valid => obs.res = Current(obs.path, OptSeq[obs.o])
\* the C04 clauses on a history: supplied atoms / centres are rows of the CURRENT file, the box is the current file's,
\* and a residue is generated exactly if it is named for rebuilding or the CURRENT file has no rows left for it
SuppliedAreCurrent ==
    (obs.valid /\ ~obs.res.err) =>
       LET o == OptSeq[obs.o]
           cur == fs[obs.path]
           s == [mols |-> o.mols, K |-> cur.K, skip |-> o.skip, res |-> o.res]
       IN /\ obs.res.box = cur.f
          /\ Len(obs.res.rs) = Len(Residues(s))
          /\ \A k \in DOMAIN obs.res.rs :
               LET r == obs.res.rs[k] IN
                 /\ \A i \in DOMAIN r.frames : r.frames[i] = cur.f
                 /\ \A i \in DOMAIN r.rows : r.rows[i] \in 1..cur.K
                 /\ (r.status = "build") <=> (~Consumes(s, Residues(s)[k]) \/ Offset(s, k) >= cur.K)
\* calls read; only puts change the file system, and a put changes its own path only
CallsDoNotWrite == [][lastop' = "call" => fs' = fs]_hvars
PutsWriteOnePath == [][lastop' = "put" => \E p \in Paths : \A q \in Paths \ {p} : fs'[q] = fs[q]]_hvars
\* the same as a law on the recorded history: every path holds exactly what was last put there
PutsTo(p) == {i \in DOMAIN hist : hist[i].op = "put" /\ hist[i].path = p}
FsIsLastPut == KeepHist => \A p \in Paths :
                 IF PutsTo(p) = {} THEN fs[p] = NoFile
                 ELSE LET e == hist[CHOOSE i \in PutsTo(p) : \A i2 \in PutsTo(p) : i2 <= i] IN fs[p] = [f |-> e.f, K |-> e.K, t |-> e.t]
\* the intended process carries nothing from call to call
ProcessCarriesNothing == HDev = "none" => (cache = {} /\ buf = <<>>)
\* the declarative law on the recorded history: every call is decided by the LAST put to its path before it (and its own options)
PutsBefore(j, p) == {i \in 1..(j - 1) : hist[i].op = "put" /\ hist[i].path = p}
LastPutBefore(j, p) == hist[CHOOSE i \in PutsBefore(j, p) : \A i2 \in PutsBefore(j, p) : i2 <= i]
HistoryLaw == \A j \in DOMAIN hist :
                hist[j].op = "call" =>
                   /\ PutsBefore(j, hist[j].path) # {}
                   /\ LET e == LastPutBefore(j, hist[j].path) IN
                        hist[j].res = ResultOf(Src([f |-> e.f, K |-> e.K, t |-> e.t]), e.f, OptSeq[hist[j].o])
=============================================================================
