SPECIFICATION Spec
CONSTANTS
 Fam = "ds"
 P1 = 5
 P2 = 4
 Dev = {}
INVARIANT Shape
INVARIANT Final
INVARIANT RoundTrip
INVARIANT OrigKept
INVARIANT Laws
PROPERTY Grows
CHECK_DEADLOCK FALSE
