---------------------------- MODULE SelTrace ----------------------------
(* I->S for C18 (and the judge of every S->I replay that did not reproduce the intended I-layer state exactly).      *)
(* TRACE_FILE holds a JSON array of records [c |-> abstract input, o |-> what the harness observed on the real code] *)
(* (node attributes after split_residue / load_build_files / set_restraints / find_starting_node_from_spec /        *)
(* AnnotateLigands / split_ligands; for full gen_coords runs also the first residue placed per molecule, the        *)
(* numeric monitor of the ligand step and the residues of the output .gro).                                         *)
(* For every record the P-layer is evaluated on the observation (AcceptP, a ladder of named conjuncts).  A record   *)
(* that the P-layer does not accept is additionally compared with the end state of the I-layer under every choice   *)
(* of deviation flags in DevChoices (the flags of findings recorded as known, all of them and all but one): the     *)
(* harness classifies an observation as a known finding only if it equals the I-layer-with-deviation result.        *)
EXTENDS Select, Json, IOUtils
VARIABLES tid, rec      \* rec = the record being judged (kept in the state: the file is deserialised once)
Doc == JsonDeserialize(IOEnv.TRACE_FILE)
N == Len(Doc)
ASSUME TLCSet(1, {}) /\ TLCSet(2, {})
Obs == rec.o
Ran(p) == p \in ToSet(Obs.ran)

\* one state per record and flag choice: the I-layer is run to its end as one value (RunFrom); nothing remains to be stepped
Indexed == LET d == Doc IN {<<t, d[t]>> : t \in 1..Len(d)}
TInit == \E pr \in Indexed : /\ tid = pr[1] /\ rec = pr[2] /\ case = rec.c /\ dev \in DevChoices /\ steps = Steps(case)
                               /\ st = RunFrom(Init0(case), case, steps, 1) /\ pc = Len(steps) + 1
TNext == FALSE /\ UNCHANGED <<vars, tid, rec>>
TSpec == TInit /\ [][TNext]_<<vars, tid, rec>>

AsNodes(ns) == [nodes |-> ns]
P_err    == IF MustReject(case) THEN Obs.err # "" ELSE IF MayReject(case) THEN TRUE ELSE Obs.err = ""
P_nodes  == Ran("split") => NodesOK(case, AsNodes(Obs.nodes))
P_tags   == Ran("bld") => (TagsOK(case, {"geom"}, Obs.geom) /\ TagsOK(case, {"rw"}, Obs.rw))
P_start  == Ran("start") => StartOK(case, Obs.start)
P_lig    == Ran("lig") => /\ LigValid(case, Obs.was)
                          /\ \A i \in 1..NM(case) : \A j \in 1..Len(Obs.was[i]) : Buildable(case, Obs.was[i][j])
P_restr  == Ran("restr") => MolTagsOK(case, Obs.dtags)
P_hand   == Ran("hand") => /\ \A i \in 1..NM(case) : \A j \in 1..Len(Obs.was[i]) : Obs.was[i][j].pos # 0
                           /\ HandedOK(Obs.was, Obs.handed, NM(case))
                           /\ NodesOK(case, AsNodes(Obs.after))
\* full gen_coords runs: the first residue placed in a molecule is one the -start option names; every ligand sits one
\* step (minimum image) from its host residue (numeric monitor, required TRUE); the output .gro shows the residues
P_full   == Ran("full") => /\ LET pn == PN(case) IN \A m \in MIdx(case) : PStart(case, pn, m) # {} => Obs.first[m + 1] \in PStart(case, pn, m)
                           /\ \A k \in 1..Len(Obs.stepok) : Obs.stepok[k]
                           /\ NodesOK(case, AsNodes(Obs.gro))
P_parse  == Obs.parsed                        \* the real parser returned exactly the fields that were written (ParseSpec)
Rejected == Obs.err # ""
AcceptP == /\ P_parse /\ P_err
           /\ (Rejected \/ (P_nodes /\ P_tags /\ P_start /\ P_lig /\ P_restr /\ P_hand /\ P_full))
Why == IF ~P_parse THEN "parse" ELSE IF ~P_err THEN "err" ELSE IF ~P_nodes THEN "nodes" ELSE IF ~P_tags THEN "tags"
       ELSE IF ~P_start THEN "start" ELSE IF ~P_lig THEN "lig" ELSE IF ~P_restr THEN "restr" ELSE IF ~P_hand THEN "hand"
       ELSE IF ~P_full THEN "full" ELSE ""

SameTags(a, b) == /\ Len(a) = Len(b)
                  /\ \A i \in 1..Len(a) : Len(a[i]) = Len(b[i]) /\ \A n \in 1..Len(a[i]) : ToSet(a[i][n]) = ToSet(b[i][n]) /\ Len(a[i][n]) = Len(b[i][n])
M_err == Obs.err = st.err
M_nodes == Obs.nodes = st.nodes
M_tags == SameTags(Obs.geom, st.geom) /\ SameTags(Obs.rw, st.rw)
M_restr == Len(Obs.dtags) = Len(st.dtags) /\ \A i \in 1..Len(st.dtags) : ToSet(Obs.dtags[i]) = ToSet(st.dtags[i]) /\ Len(Obs.dtags[i]) = Len(st.dtags[i])
M_start == Obs.start = st.startOf
M_lig == Obs.was = (IF \A i \in 1..Len(st.added) : st.added[i] = <<>> THEN st.was ELSE st.added)
M_hand == ToSet(Obs.handed) = ToSet(st.handed) /\ Len(Obs.handed) = Len(st.handed)
Match == M_err /\ M_nodes /\ M_tags /\ M_restr /\ M_start /\ M_lig /\ M_hand
Differs == IF ~M_err THEN "err:" \o st.err ELSE IF ~M_nodes THEN "nodes" ELSE IF ~M_tags THEN "tags" ELSE IF ~M_restr THEN "restr"
           ELSE IF ~M_start THEN "start" ELSE IF ~M_lig THEN "lig" ELSE IF ~M_hand THEN "hand" ELSE ""

Judge == IF ~InDomain(case) THEN PrintT(<<"SKIP", ToJson([tid |-> tid])>>)
         ELSE IF AcceptP THEN (dev # {} \/ TLCSet(1, TLCGet(1) \cup {tid}))
         ELSE PrintT(<<"RUN", ToJson([tid |-> tid, dev |-> SetToSeq(dev), match |-> Match, why |-> Why, differs |-> Differs])>>)
Mark == Judge /\ (dev # {} \/ TLCSet(2, TLCGet(2) \cup {tid}))
\* every record has been judged under the intended design (dev = {}); otherwise the run is a machinery failure
AllJudged == IF TLCGet(2) = 1..N THEN PrintT(<<"ACCEPTED", ToJson(SetToSeq(TLCGet(1)))>>)
             ELSE (PrintT(<<"UNJUDGED", ToJson(SetToSeq((1..N) \ TLCGet(2)))>>) /\ FALSE)
=============================================================================
