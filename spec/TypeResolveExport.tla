---------------------------- MODULE TypeResolveExport ----------------------------
(* S->I for C09 (bonded part): the case families explored exhaustively by TLC.  Every case is an abstract      *)
(* topology; TLC runs the I-layer on it, checks I = P and prints the case with the P-layer result; the harness  *)
(* renders it as a real .top file, runs Topology.from_gmx_topfile + preprocess and compares.                    *)
EXTENDS TypeResolve, Json

CONSTANTS TISet,     \* set of <<number of terms, number of instances>> of the dihedral family
          DefSet,    \* subset of {"none", "tbl"}: parameters of the main entry literal / through a macro
          MissSet,   \* subset of BOOLEAN: main entry spoiled by a foreign type at its first literal position
          Stratified \* TRUE: the secondary dimensions (macro, spoiled entry, competitor first) are not crossed with TISet

ABCD == <<"A", "B", "C", "D">>
Masks == SUBSET (1..4)
MacroNames == <<"gd_1", "gd_2", "gd_3">>
Phase == <<"111", "112", "113">>
Mult == <<"1", "2", "3">>

FirstLit(mask) == CHOOSE i \in (1..4) \ mask : \A j \in (1..4) \ mask : i <= j
\* atom typings of the four atoms: all different, palindromic, a repeated type
Typings == << ABCD, <<"A", "B", "B", "A">>, <<"A", "A", "B", "C">> >>
KeyOf(ty, mask, rev, miss) == LET k0 == [i \in 1..4 |-> IF i \in mask THEN "X" ELSE Typings[ty][i]]
                              k1 == IF miss THEN [k0 EXCEPT ![FirstLit(mask)] = "E"] ELSE k0
                          IN IF rev THEN Rev(k1) ELSE k1
MainTerm(k, df) == IF df = "tbl" THEN <<"9", MacroNames[k]>> ELSE <<"9", Phase[k], "1.5", Mult[k]>>

DihTop(p) ==
  LET nt   == p.ti[1]
      ni   == p.ti[2]
      main == [k \in 1..nt |-> [key |-> KeyOf(p.ty, p.m1, p.r1, p.miss), par |-> MainTerm(k, p.df)]]
      cmp  == IF p.comp THEN << [key |-> KeyOf(p.ty, p.m2, FALSE, FALSE), par |-> <<"9", "220", "2.5", "1">>] >> ELSE <<>>
      tbl  == IF p.cfirst THEN cmp \o main ELSE main \o cmp
  IN [opls |-> FALSE, btype |-> <<>>,
      defs |-> IF p.df = "tbl" THEN [k \in 1..nt |-> [op |-> "define", name |-> MacroNames[k], toks |-> <<Phase[k], "1.5", Mult[k]>>]] ELSE <<>>,
      tables |-> [EmptyK EXCEPT !["dihedrals"] = tbl],
      mols |-> << [name |-> "M", atypes |-> Typings[p.ty],
                   inter |-> [EmptyK EXCEPT !["dihedrals"] =
                                << [atoms |-> IF p.lr THEN <<4, 3, 2, 1>> ELSE <<1, 2, 3, 4>>, par |-> <<"9">>] >>]] >>,
      molecules |-> IF ni = 3 THEN << [name |-> "M", n |-> 2], [name |-> "M", n |-> 1] >> ELSE << [name |-> "M", n |-> ni] >>]

DParams == {p \in [m1 : Masks, r1 : BOOLEAN, miss : MissSet, comp : BOOLEAN, m2 : Masks, cfirst : BOOLEAN, lr : BOOLEAN,
                   ti : TISet, df : DefSet, ty : 1..Len(Typings)] :
              /\ (p.miss => p.m1 # 1..4)
              /\ (p.comp => Cardinality(p.m2) # Cardinality(p.m1))
              /\ (~p.comp => p.m2 = {} /\ ~p.cfirst)
              /\ (p.ty # 1 => p.df = "none" /\ ~p.miss /\ (Stratified => p.ti = <<2, 2>> /\ ~p.cfirst))
              /\ (Stratified => /\ (p.df = "tbl" => p.ti = <<2, 2>> /\ ~p.miss /\ ~p.cfirst)
                                /\ (p.miss => p.ti = <<1, 1>>)
                                /\ (p.cfirst /\ ~p.miss => p.ti = <<2, 2>>))}
DihCases == {DihTop(p) : p \in DParams}

(* ---- family "plain": bonds / angles / constraints / pairs looked up by the exact or the reversed key, through the  *)
(* atom types or (OPLS) the bond types; a decoy keyed by the other naming, a decoy with a different key, an       *)
(* interaction with explicit parameters that must stay, the entry's parameters literal or through a macro, the      *)
(* entry absent (nothing matches)                                                                                   *)
TNames == <<"tA", "tB", "tC">>
BNames == <<"A", "B", "C">>
PlainKinds == {"bonds", "angles", "constraints", "pairs"}
Arity(kind) == IF kind = "angles" THEN 3 ELSE 2
PlainTop(p) ==
  LET nm    == IF p.opls THEN BNames ELSE TNames      \* the names the table must be keyed by
      other == IF p.opls THEN TNames ELSE BNames
      ar    == Arity(p.kind)
      fwd   == [x \in 1..ar |-> x]
      key   == [x \in 1..ar |-> nm[x]]
      par   == IF p.kind = "constraints" THEN <<"1", "0.31">> ELSE <<"1", "0.15", "500">>
      real  == IF p.has THEN << [key |-> IF p.er THEN Rev(key) ELSE key, par |-> IF p.tm THEN <<"1", "gx_1">> ELSE par] >> ELSE <<>>
      d1    == [key |-> [x \in 1..ar |-> other[x]], par |-> <<"1", "0.99", "999">>]
      d2    == [key |-> IF ar = 3 THEN <<nm[1], nm[3], nm[2]>> ELSE <<nm[1], nm[3]>>, par |-> <<"1", "0.77", "777">>]
      lit   == [atoms |-> IF ar = 3 THEN <<1, 3, 2>> ELSE <<2, 3>>, par |-> <<"1", "0.2", "300">>]
      unt   == [atoms |-> IF p.lr THEN Rev(fwd) ELSE fwd, par |-> <<"1">>]
  IN [opls |-> p.opls,
      btype |-> IF p.opls THEN [x \in 1..3 |-> [t |-> TNames[x], b |-> BNames[x]]] ELSE <<>>,
      defs |-> IF p.tm THEN << [op |-> "define", name |-> "gx_1", toks |-> IF p.kind = "constraints" THEN <<"0.31">> ELSE <<"0.15", "500">>] >> ELSE <<>>,
      tables |-> [EmptyK EXCEPT ![p.kind] = <<d1>> \o real \o <<d2>>],
      mols |-> << [name |-> "M", atypes |-> TNames, inter |-> [EmptyK EXCEPT ![p.kind] = IF p.first THEN <<unt, lit>> ELSE <<lit, unt>>]] >>,
      molecules |-> << [name |-> "M", n |-> p.ni] >>]
PlainParams == {p \in [kind : PlainKinds, er : BOOLEAN, lr : BOOLEAN, opls : BOOLEAN, tm : BOOLEAN, has : BOOLEAN, first : BOOLEAN, ni : 1..2] :
                  /\ (p.kind = "pairs" => ~p.tm /\ p.has)
                  /\ (~p.has => ~p.tm /\ ~p.er)}
PlainFam == {PlainTop(p) : p \in PlainParams}

(* ---- family "macro": a chain A-B-C-D with three bonds and two angles, every interaction written in one of five   *)
(* styles (no parameters, literal parameters, one macro for all parameters, one macro per parameter, literal and    *)
(* macro mixed); macros are defined for bonds and angles; two molecule types, the second one listed first           *)
Styles == {"typed", "lit", "mac", "mac2", "mix"}
BondPar(st, n) == CASE st = "typed" -> <<"1">>
                    [] st = "lit"   -> <<"1", "0.2", "300">>
                    [] st = "mac"   -> <<"1", "gb_1">>
                    [] st = "mac2"  -> <<"1", "gb_len", "gb_k">>
                    [] st = "mix"   -> <<"1", "0.3", "gb_k">>
AnglePar(st) == CASE st = "typed" -> <<"2">>
                  [] st = "lit"   -> <<"2", "109.5", "450">>
                  [] st = "mac"   -> <<"2", "ga_1">>
                  [] st = "mac2"  -> <<"2", "ga_th", "ga_k">>
                  [] st = "mix"   -> <<"2", "120", "ga_k">>
Def(name, toks) == [op |-> "define", name |-> name, toks |-> toks]
MacroDefs == << Def("gb_1", <<"0.1", "1000">>), Def("gb_len", <<"0.25">>), Def("gb_k", <<"2500">>),
                Def("ga_1", <<"100", "250">>), Def("ga_th", <<"90">>), Def("ga_k", <<"75">>) >>
MacroTop(p) ==
  LET bonds  == << [atoms |-> <<1, 2>>, par |-> BondPar(p.b1, 1)], [atoms |-> <<3, 2>>, par |-> BondPar(p.b2, 2)],
                   [atoms |-> <<3, 4>>, par |-> BondPar(p.b3, 3)] >>
      angles == << [atoms |-> <<1, 2, 3>>, par |-> AnglePar(p.a1)], [atoms |-> <<2, 3, 4>>, par |-> AnglePar(p.a2)] >>
      W      == [name |-> "W", atypes |-> <<"D", "A">>, inter |-> [EmptyK EXCEPT !["bonds"] = << [atoms |-> <<1, 2>>, par |-> BondPar(p.b3, 1)] >>]]
  IN [opls |-> FALSE, btype |-> <<>>, defs |-> MacroDefs,
      tables |-> [EmptyK EXCEPT !["bonds"] = << [key |-> <<"A", "B">>, par |-> <<"1", "0.11", "1100">>], [key |-> <<"B", "C">>, par |-> <<"1", "0.12", "1200">>],
                                               [key |-> <<"D", "C">>, par |-> <<"1", "0.13", "1300">>], [key |-> <<"A", "D">>, par |-> <<"1", "0.14", "1400">>] >>,
                               !["angles"] = << [key |-> <<"C", "B", "A">>, par |-> <<"2", "111", "410">>], [key |-> <<"B", "C", "D">>, par |-> <<"2", "112", "420">>] >>],
      mols |-> << [name |-> "M", atypes |-> ABCD, inter |-> [EmptyK EXCEPT !["bonds"] = bonds, !["angles"] = angles]], W >>,
      molecules |-> IF p.ni = 1 THEN << [name |-> "M", n |-> 1] >> ELSE << [name |-> "W", n |-> 1], [name |-> "M", n |-> 2], [name |-> "W", n |-> 2] >>]
MacroParams == [b1 : Styles, b2 : Styles, b3 : Styles, a1 : {"typed", "mac"}, a2 : {"lit", "mac2", "mix"}, ni : 1..2]
MacroFam == {MacroTop(p) : p \in MacroParams}
PlainCases == PlainFam \cup MacroFam

(* ---- family "cond": the preprocessor lines.  One block  #ifdef | #ifndef TAG ... [#else ...] #endif,  the tag defined    *)
(* before the block or not; three payload lines - the macro used by an interaction (gb_1), the macro used by the type-table  *)
(* entries (gt_1), the OPLS tag (decides which entry is looked up; may be absent) - each before the block, in its first      *)
(* branch, in its #else branch or after it; the block's own tag defined nowhere, first or last in a branch (#ifndef TAG /    *)
(* #define TAG first = the include-guard idiom; last = the condition would flip if it were evaluated late), or after the     *)
(* block.  CondAll is every combination, #define lines in branches that are not selected included; all of them are in the     *)
(* stated domain (F37 repaired), checked by TLC, exported and replayed on the code.                                           *)
CTag == "C09_GUARD"
DefB == Def("gb_1", <<"0.1", "1000">>)
DefT == Def("gt_1", <<"0.15">>)
DefO == Def("_FF_OPLS", <<>>)
DefG == Def(CTag, <<>>)
PLine(op, name) == [op |-> op, name |-> name, toks |-> <<>>]
Pos == {"pre", "then", "else", "post"}
PayAt(p, w) == (IF p.b = w THEN <<DefB>> ELSE <<>>) \o (IF p.t = w THEN <<DefT>> ELSE <<>>) \o (IF p.o = w THEN <<DefO>> ELSE <<>>)
Part(p, w) == IF p.g = w THEN (IF p.gfirst THEN <<DefG>> \o PayAt(p, w) ELSE PayAt(p, w) \o <<DefG>>) ELSE PayAt(p, w)
CondLines(p) == (IF p.pre THEN <<DefG>> ELSE <<>>) \o PayAt(p, "pre") \o <<PLine(p.cond, CTag)>> \o Part(p, "then")
                \o (IF p.els THEN <<PLine("else", "")>> \o Part(p, "else") ELSE <<>>) \o <<PLine("endif", "")>> \o Part(p, "post")
CondTop(p) ==
  [opls |-> FALSE,
   btype |-> [x \in 1..3 |-> [t |-> TNames[x], b |-> BNames[x]]],
   defs |-> CondLines(p),
   tables |-> [EmptyK EXCEPT !["bonds"] = << [key |-> <<"B", "C">>, par |-> <<"1", "gt_1", "900">>],
                                            [key |-> <<"tC", "tB">>, par |-> <<"1", "gt_1", "700">>] >>],
   mols |-> << [name |-> "M", atypes |-> TNames,
                inter |-> [EmptyK EXCEPT !["bonds"] = << [atoms |-> <<1, 2>>, par |-> <<"1", "gb_1">>], [atoms |-> <<3, 2>>, par |-> <<"1">>] >>]] >>,
   molecules |-> << [name |-> "M", n |-> 1] >>]
CondParams == {p \in [pre : BOOLEAN, cond : {"ifdef", "ifndef"}, els : BOOLEAN, b : Pos, t : Pos, o : Pos \cup {"none"},
                      g : {"none", "then", "else", "post"}, gfirst : BOOLEAN] :
                 /\ (~p.els => p.b # "else" /\ p.t # "else" /\ p.o # "else" /\ p.g # "else")
                 /\ (p.g \in {"none", "post"} => p.gfirst)}
CondAll == {CondTop(p) : p \in CondParams}
\* quick tier: the OPLS tag is moved around only while the two macros sit together
CondQuick == {CondTop(p) : p \in {q \in CondParams : q.o = "none" \/ q.b = q.t}}
\* small instances of the sensitivity runs: the OPLS tag absent
CondSmall == {t \in {CondTop(p) : p \in {q \in CondParams : q.o = "none"}} : InDomain(t)}
CondWideSmall == {CondTop(p) : p \in {q \in CondParams : q.o = "none"}}

TI_quick == {<<1, 1>>, <<2, 2>>, <<3, 3>>}
TI_full == {<<a, b>> : a \in 1..3, b \in 1..3}
TI_one == {<<2, 2>>}
Def_both == {"none", "tbl"}
Def_none == {"none"}
Miss_both == BOOLEAN
Miss_no == {FALSE}

\* diagnostic only: the result the repaired defects F19 / F20 used to produce, printed when it differs, so that a report can
\* name the returning defect; it never excuses a difference
Sigs == << [sig |-> "pairs-not-typed", d |-> [pairs |-> TRUE, tbl |-> FALSE, kept |-> FALSE]],
           [sig |-> "define-in-type-table", d |-> [pairs |-> FALSE, tbl |-> TRUE, kept |-> FALSE]],
           [sig |-> "define-in-unselected-branch", d |-> [pairs |-> FALSE, tbl |-> FALSE, kept |-> TRUE]] >>
Alts(t) == LET e == Expected(t, NoDev) IN
             SelectSeq([i \in 1..Len(Sigs) |-> [sig |-> Sigs[i].sig, res |-> Expected(t, Sigs[i].d)]], LAMBDA a : a.res # e)
\* rendering hint: the lines end with the #endif of a selected branch (the renderer may then close the block at the end of the file)
WrapOK(L) == Len(L) > 0 /\ L[Len(L)].op = "endif" /\ Processed(L, Len(L))
ExportInv == Final => PrintT(<<"CASE", ToJson([top |-> top, exp |-> Expected(top, NoDev), alt |-> Alts(top), wrapok |-> WrapOK(top.defs)])>>)
\* the cond family is explored on every combination (intended reader = cpp, branches not selected included); only the
\* combinations of the stated domain are exported for the replay on the code
ExportDomInv == (Final /\ InDomain(top)) => ExportInv
\* small instances of the sensitivity runs
DihSmall == {DihTop(p) : p \in {q \in DParams : q.ti = <<2, 2>> /\ ~q.miss /\ ~q.cfirst /\ q.df = "none" /\ q.ty = 1}}
DihSmallTbl == {DihTop(p) : p \in {q \in DParams : q.ty = 1 /\ q.ti = <<2, 2>> /\ ~q.miss /\ ~q.cfirst /\ (q.df = "tbl" \/ ~q.comp) /\ (q.comp => q.m2 \in {{}, {1}, {1, 2, 3, 4}})}}
PlainSmall == PlainFam \cup {MacroTop(p) : p \in {q \in MacroParams : q.b1 = "mac" /\ q.ni = 2}}
=============================================================================
