INIT MCInitTiny
NEXT Next
CONSTANTS
 Inputs = {}
 LibOf <- MCLibOf
 Dev <- NoDev
 FreeOrder = TRUE
INVARIANT ExpAtomicInMemory
CHECK_DEADLOCK FALSE
