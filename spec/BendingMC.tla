----------------------------- MODULE BendingMC -----------------------------
(* exhaustive instance of Bending (no export): one bending constant lp > 0, ranks = 10 x degrees.                      *)
EXTENDS Bending
\* ranks = 10 x degrees; candidates at 0.5, 60, 120, 180 degrees, thresholds at the bounds and between the candidates
MCCands == {5, 600, 1200, 1800}
MCThrs == {10, 300, 900, 1790}
MCTriples == {<<"A", "A", "A">>, <<"B", "A", "A">>, <<"A", "A", "B">>, <<"A", "B", "A">>}
MCTable == {[k |-> <<"A", "A", "A">>, nz |-> TRUE], [k |-> <<"B", "A", "A">>, nz |-> TRUE], [k |-> <<"A", "B", "A">>, nz |-> FALSE]}
=============================================================================
