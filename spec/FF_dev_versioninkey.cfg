SPECIFICATION Spec
CONSTANTS
 Inputs <- MCInputs
 Dev <- DevVersionInKey
INVARIANT C01_Inv
CHECK_DEADLOCK FALSE
