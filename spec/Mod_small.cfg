INIT MCInit
NEXT Next
CONSTANTS
 Inputs = {}
 LibOf <- MCLibOf
 Dev <- NoDev
 FreeOrder = TRUE
INVARIANT Conform
INVARIANT ErrorLaw
INVARIANT Frame
INVARIANT ResolveLaw
INVARIANT TerminiLaw
PROPERTY ReplaceLaw
CHECK_DEADLOCK FALSE
