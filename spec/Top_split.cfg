SPECIFICATION MCSpec
CONSTANTS
 FsOf <- MCFs
 MainOf <- MCMainOf
 Fuel = 4
 Which = "split"
 MaxChunks = 4
 First = {}
 DevF3 = FALSE
 DevMolsPerFile = TRUE
 DevDirKeep = FALSE
 DevElseKeep = FALSE
CHECK_DEADLOCK FALSE
INVARIANT ExportInv
INVARIANT SameOneFile
INVARIANT NoStruct
INVARIANT DoneEmpty
INVARIANT DomainOK
