--------------------------- MODULE IndependenceMC ---------------------------
(* Model-checking wrapper: the I-layer of Independence.tla on the catalogue of IndependenceCat.tla *)
EXTENDS Independence, IndependenceCat
=============================================================================
