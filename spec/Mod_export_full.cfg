INIT XInitFull
NEXT XNext
CONSTANTS
 Inputs = {}
 LibOf <- MCLibOf
 Dev <- DevLedger
 FreeOrder = FALSE
INVARIANT ExportInv
CHECK_DEADLOCK FALSE
