INIT HInit
NEXT HNext
CONSTANTS
 Mols = {}
 Dev = "none"
 FixedOrder = TRUE
 Paths <- MCPathOne
 MaxOps = 5
 WithFF = FALSE
 MolIdx <- MCMolTwo
 MsgKinds <- MCMsgNone
 MaxMsgs = 0
 WithEnv = TRUE
 HDev = "none"
INVARIANT ReadIsCurrent
INVARIANT FsHoldsWrite
INVARIANT HistExport
PROPERTY OnlyWritesChangeFiles
PROPERTY EnvLeavesRunDirectory
CHECK_DEADLOCK FALSE
