-------------------------- MODULE MC_GenCoordsOutX --------------------------
(* export instance: one molecule list per state would multiply with the options; the options are enumerated for a few lists *)
EXTENDS MC_GenCoordsOut
XMolLists == { <<E("W", 3), E("A", 1)>>, <<E("A", 2)>>, <<E("V", 1), E("W", 1), E("V", 1)>>, <<E("A", 1), E("V", 2)>>, <<E("W", 1), E("A", 1), E("W", 1)>>,
               <<E("L", 1), E("W", 2)>>, <<E("L", 2)>>,
               \* residue name RA with different content (two atoms in A, one atom in L) in one system: masses are per atom, not per residue name
               <<E("A", 1), E("L", 1)>>, <<E("L", 1), E("W", 1), E("A", 1)>> }     \* L: 8 single-atom residues RA RB RA RB ...: with -res RB built and given residues alternate
=============================================================================
