SPECIFICATION Spec
CONSTANT DevBfs = FALSE
CONSTANT DevSel = "index"
CONSTANT DevImg = "none"
INVARIANT SelLaw
CHECK_DEADLOCK FALSE
