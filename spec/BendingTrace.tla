---------------------------- MODULE BendingTrace ----------------------------
(* I->S for X03(a): events recorded on real walks (gen_coords with a [ bending ] build file): one event per I-layer      *)
(* action that the harness can observe - call (bendiness entered: resnames of the three residues, has-grandparent),     *)
(* prob (compute_bending_probability returned), draw (random.uniform returned), ret (bendiness returned).  Improve and   *)
(* Threshold are silent.  All probabilities are ranks of the floats of this walk; prob_ok / bounds_ok come from the      *)
(* numeric monitor (density of the independently measured angle; bounds = density at 1 and 179 degrees).                *)
EXTENDS Bending, Json, IOUtils, SequencesExt
VARIABLES tid, l
Doc == JsonDeserialize(IOEnv.TRACE_FILE)
Traces == Doc.traces
TTable == {[k |-> <<e.k[1], e.k[2], e.k[3]>>, nz |-> e.nz] : e \in ToSet(Doc.table)}
TInitRank == 0
ASSUME TLCSet(1, {}) /\ TLCSet(2, [t \in 1..Len(Traces) |-> 0])
Tr == Traces[tid]
Ev == Tr.events[l]
TInit == /\ tid \in 1..Len(Traces) /\ l = 1
         /\ prev = Traces[tid].init /\ pc = "idle" /\ call = [tr |-> <<"-", "-", "-">>, gp |-> FALSE]
         /\ cur = -1 /\ bnd = NoBnd /\ thr = -1 /\ res = TRUE /\ prev0 = Traces[tid].init /\ lastAcc = Traces[tid].init /\ ncalls = 0
\* recorded finding X03 straight-angle-nan (while it is listed as known): an exactly straight candidate whose arccos argument
\* leaves [-1, 1] gets probability NaN; NaN loses every comparison, i.e. it behaves as rank 0 (below every probability)
NaNStraight == Doc.nan_known /\ Ev.nan_straight /\ Ev.p = 0
Logged == \/ (Ev.ev = "call" /\ Call(<<Ev.tr[1], Ev.tr[2], Ev.tr[3]>>, Ev.gp))
          \/ (Ev.ev = "prob" /\ (Ev.prob_ok \/ NaNStraight) /\ Prob(Ev.p, Ev.lo, Ev.hi, Ev.top))
          \/ (Ev.ev = "draw" /\ Ev.bounds_ok /\ Draw(Ev.t))
          \/ (Ev.ev = "ret" /\ Return /\ res = Ev.res /\ prev = Ev.prev)
Silent == Skip \/ Improve \/ Threshold
TNext == /\ l <= Len(Tr.events)
         /\ \/ (Logged /\ l' = l + 1)
            \/ (Silent /\ l' = l)
         /\ tid' = tid
TSpec == TInit /\ [][TNext]_<<vars, tid, l>>
Mark == (l = Len(Tr.events) + 1) => TLCSet(1, TLCGet(1) \cup {tid})
Prog == TLCSet(2, [TLCGet(2) EXCEPT ![tid] = IF @ < l - 1 THEN l - 1 ELSE @])
Accepted == IF TLCGet(1) = 1..Len(Traces) THEN TRUE
            ELSE (PrintT(<<"REJECTED", ToJson(SetToSeq({<<t, TLCGet(2)[t]>> : t \in (1..Len(Traces)) \ TLCGet(1)}))>>) /\ FALSE)
=============================================================================
