SPECIFICATION XSpec
CONSTANTS
 Cands <- MCCands
 Thrs <- MCThrs
 LoC = 10
 HiC = 1790
 TopC = 1800
 InitRank = 1795
 Triples <- MCTriples
 Table <- MCTable
 MaxCalls = 2
 DevNonStrict = FALSE
 DevKeepPrev = FALSE
 DevUpdateOnReject = FALSE
 DevThrReversed = FALSE
 DevKeyReversed = FALSE
INVARIANT ExportInv
CHECK_DEADLOCK FALSE
