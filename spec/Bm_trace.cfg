SPECIFICATION TSpec
CONSTANTS
 TypeDefs <- TTypeDefs
 Mols <- TMols
 Fudges <- TFudges
 Angles <- TAngles
 DevImproper = FALSE
 DevPerAtom = FALSE
 DevNoFudge = FALSE
 DevOtherTemplate = FALSE
 DevCentreOther = FALSE
INVARIANT Protocol
INVARIANT Mark
INVARIANT Prog
POSTCONDITION Accepted
CHECK_DEADLOCK FALSE
