INIT MCInitTiny
NEXT Next
CONSTANTS
 Inputs = {}
 LibOf <- MCLibOf
 Dev <- DevResnameChecked
 FreeOrder = TRUE
INVARIANT Conform
CHECK_DEADLOCK FALSE
