SPECIFICATION Spec
CONSTANTS
 Inputs <- MCInputs
 Dev <- DevTagDropped
INVARIANT C14_Inv
CHECK_DEADLOCK FALSE
