SPECIFICATION Spec
CONSTANTS
 Configs <- MCFFSplit
 DevUserLast = FALSE
 DevFirstWins = FALSE
 DevBibMerge = FALSE
 DevSplitAll = TRUE
 DevTmplMerge = FALSE
 DevSkipUserUnknown = FALSE
 DevIdReuse = FALSE
INVARIANT StoreIsDeclarative
CHECK_DEADLOCK FALSE
