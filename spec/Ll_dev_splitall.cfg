SPECIFICATION Spec
CONSTANTS
 Configs <- MCQuick
 DevUserLast = FALSE
 DevFirstWins = FALSE
 DevBibMerge = FALSE
 DevSplitAll = TRUE
 DevTmplMerge = FALSE
 DevSkipUserUnknown = FALSE
INVARIANT StoreIsDeclarative
CHECK_DEADLOCK FALSE
