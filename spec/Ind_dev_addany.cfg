SPECIFICATION Spec
CONSTANTS
 Cases <- CasesAdd
 FFs <- FFcat
 Dev <- DevAddAny
INVARIANT Confluent
CHECK_DEADLOCK FALSE
