SPECIFICATION SpecExp
CONSTANTS
 Types <- MCTypes
 DevOn = {}
 AsIsToo = FALSE
INVARIANT ExpLigandWhole
INVARIANT ExpNoGhost
INVARIANT ExpSelectsSomething
INVARIANT ExpOncePerLigand
INVARIANT ExpMismatchIsIOError
CHECK_DEADLOCK FALSE
