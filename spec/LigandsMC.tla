----------------------------- MODULE LigandsMC -----------------------------
(* Instances of Ligands.tla.  Families are Init predicates (existential choice of parameters), never big set unions.      *)
(*   A  molecule level: every list of length 1..3 (thorough 1..4) over {H, K, L, W} x every omission pattern / value of    *)
(*      the molecule fields on both sides (host residue field: none or RA)                                                 *)
(*   B  residue level: every omission pattern / value of the residue fields on both sides, host molecule H, on 8 lists      *)
(*   C  two -lig options: every ordered pair from a catalogue of 12 options on 10 lists (same ligand twice, two hosts,       *)
(*      chained ligation in every molecule order, counts that do not fit)                                                   *)
(*   D  coordinates supplied for the first 0..N molecules (hosts, ligands, both)                                          *)
EXTENDS Ligands

CONSTANT AsIsToo     \* TRUE: inputs with chained ligation are explored twice, as intended (rejected) and as the tree does it (flag Chain)

MCTypes == [H |-> [res |-> <<[rn |-> "RA", id |-> 1], [rn |-> "RB", id |-> 2], [rn |-> "RA", id |-> 3]>>, edges |-> <<<<1, 2>>, <<2, 3>>>>],
            K |-> [res |-> <<[rn |-> "KA", id |-> 1], [rn |-> "KB", id |-> 2]>>, edges |-> <<<<1, 2>>>>],
            L |-> [res |-> <<[rn |-> "LA", id |-> 1]>>, edges |-> <<>>],
            W |-> [res |-> <<[rn |-> "WA", id |-> 1]>>, edges |-> <<>>],
            G |-> [res |-> <<[rn |-> "RB", id |-> 1], [rn |-> "RA", id |-> 2], [rn |-> "RB", id |-> 3], [rn |-> "RA", id |-> 4]>>,
                   edges |-> <<<<1, 2>>, <<2, 3>>, <<2, 4>>>>]]

Sp(hmo, mol, hi, idx, hr, rn, hd, id) == [hasMol |-> hmo, mol |-> mol, hasIdx |-> hi, idx |-> idx, hasRn |-> hr, rn |-> rn, hasId |-> hd, id |-> id]
\* molecule part x residue part of a specification
MolParts(names, idxs) == {<<FALSE, "", FALSE, 0>>} \cup {<<TRUE, n, FALSE, 0>> : n \in names} \cup {<<FALSE, "", TRUE, i>> : i \in idxs}
                         \cup {<<TRUE, n, TRUE, i>> : n \in names, i \in idxs}
ResParts(rns, ids) == {<<FALSE, "", FALSE, 0>>} \cup {<<TRUE, r, FALSE, 0>> : r \in rns} \cup {<<FALSE, "", TRUE, i>> : i \in ids}
                      \cup {<<TRUE, r, TRUE, i>> : r \in rns, i \in ids}
Mk(mp, rp) == Sp(mp[1], mp[2], mp[3], mp[4], rp[1], rp[2], rp[3], rp[4])
One(ms, h, l, gv) == [mols |-> ms, ligs |-> <<[h |-> h, l |-> l]>>, given |-> gv]
InitCase(rec) == case = rec /\ Init0 /\ ~pl.self /\ dev \in (IF AsIsToo /\ pl.chained THEN {DevOn, DevOn \cup {"Chain"}} ELSE {DevOn})

ListsUpTo(S, n) == UNION {[1..k -> S] : k \in 1..n}

\* ---- family A
AHostMol == MolParts({"H", "K"}, {0, 1, 2})
AHostRes == {<<FALSE, "", FALSE, 0>>, <<TRUE, "RA", FALSE, 0>>}
ALigMol == MolParts({"L", "K"}, {0, 1, 2})
ANone == <<FALSE, "", FALSE, 0>>
FamA(n) == \E ms \in ListsUpTo({"H", "K", "L", "W"}, n), hp \in AHostMol, hr \in AHostRes, lp \in ALigMol :
             InitCase(One(ms, Mk(hp, hr), Mk(lp, ANone), 0))

\* ---- family B
BLists == {<<"H", "L">>, <<"H", "L", "L">>, <<"H", "K">>, <<"H", "K", "K">>, <<"L", "H">>, <<"K", "H", "K">>, <<"H", "H", "L", "L", "L", "L">>, <<"G", "K", "K">>}
BHostRes == ResParts({"RA", "RB"}, {1, 2, 3})
BLigRes == ResParts({"LA", "KA", "KB"}, {1, 2})
FamB == \E ms \in BLists, hn \in {"H", "G"}, hr \in BHostRes, ln \in {"L", "K"}, lr \in BLigRes :
          /\ hn \in {ms[i] : i \in 1..Len(ms)} /\ ln \in {ms[i] : i \in 1..Len(ms)}
          /\ InitCase(One(ms, Mk(<<TRUE, hn, FALSE, 0>>, hr), Mk(<<TRUE, ln, FALSE, 0>>, lr), 0))

\* ---- family C: catalogue of options h:l
Name(n) == <<TRUE, n, FALSE, 0>>
NameIdx(n, i) == <<TRUE, n, TRUE, i>>
Rn(r) == <<TRUE, r, FALSE, 0>>
RnId(r, i) == <<TRUE, r, TRUE, i>>
Opt(h, l) == [h |-> h, l |-> l]
COpts == {Opt(Mk(Name("H"), Rn("RB")), Mk(Name("L"), ANone)),          \* H-RB:L
          Opt(Mk(Name("H"), RnId("RA", 1)), Mk(Name("L"), ANone)),      \* H-RA#1:L
          Opt(Mk(Name("H"), Rn("RA")), Mk(Name("L"), ANone)),           \* H-RA:L   (two residues per host)
          Opt(Mk(Name("H"), Rn("RB")), Mk(Name("K"), ANone)),           \* H-RB:K   (two-residue ligand)
          Opt(Mk(Name("H"), RnId("RA", 3)), Mk(Name("K"), Rn("KA"))),   \* H-RA#3:K-KA (part of the ligand)
          Opt(Mk(Name("K"), Rn("KA")), Mk(Name("L"), ANone)),           \* K-KA:L   (K as host: chains)
          Opt(Mk(Name("K"), ANone), Mk(Name("L"), ANone)),              \* K:L
          Opt(Mk(ANone, Rn("RB")), Mk(Name("L"), ANone)),               \* -RB:L
          Opt(Mk(NameIdx("H", 0), Rn("RB")), Mk(<<FALSE, "", TRUE, 1>>, ANone)),   \* H#0-RB:#1
          Opt(Mk(<<FALSE, "", TRUE, 1>>, <<FALSE, "", TRUE, 2>>), Mk(Name("K"), ANone)),  \* #1-#2:K
          Opt(Mk(Name("L"), ANone), Mk(Name("W"), ANone)),              \* L:W      (a ligand of a ligand)
          Opt(Mk(Name("H"), Rn("RB")), Mk(Name("L"), Rn("LB")))}        \* H-RB:L-LB (selects nothing on the ligand)
CLists == {<<"H", "L", "L">>, <<"H", "K", "L">>, <<"K", "H", "L">>, <<"L", "H", "K">>, <<"H", "L", "K", "L">>, <<"K", "L", "H">>,
           <<"H", "H", "L", "L">>, <<"L", "K", "H", "W">>, <<"W", "L", "H">>, <<"H", "K", "L", "L">>}
FamC == \E ms \in CLists, o1 \in COpts, o2 \in COpts : InitCase([mols |-> ms, ligs |-> <<o1, o2>>, given |-> 0])

\* ---- family D
DLists == {<<"H", "L">>, <<"H", "K">>, <<"L", "H">>, <<"H", "H", "L", "L">>, <<"H", "L", "W">>}
DOpts == {o \in COpts : o.h.mol = "H" /\ o.l.mol \in {"L", "K"}}
FamD == \E ms \in DLists, o \in DOpts, gv \in 0..4 : gv <= Len(ms) /\ InitCase([mols |-> ms, ligs |-> <<o>>, given |-> gv])

\* ---- no option at all
FamZ == \E ms \in {<<"H">>, <<"H", "L">>, <<"W", "K", "L">>} : InitCase([mols |-> ms, ligs |-> <<>>, given |-> 0])

\* ---- witnesses: one small case per deviation flag / per expectation (sensitivity runs use -continue, so they must stay small)
OHL == Opt(Mk(Name("H"), Rn("RB")), Mk(Name("L"), ANone))
OHK == Opt(Mk(Name("H"), Rn("RB")), Mk(Name("K"), ANone))
OKL == Opt(Mk(Name("K"), Rn("KA")), Mk(Name("L"), ANone))
OHA == Opt(Mk(Name("H"), Rn("RA")), Mk(Name("L"), ANone))
C1(ms, o) == [mols |-> ms, ligs |-> <<o>>, given |-> 0]
C2(ms, o1, o2) == [mols |-> ms, ligs |-> <<o1, o2>>, given |-> 0]
Witness(f) == CASE f \in {"KeepNode", "NoCopyBack", "Order", "WildMismatch"} -> {C1(<<"L", "H", "W">>, OHL)}
                [] f = "FirstOnly" -> {C1(<<"H", "L", "L">>, OHA)}
                [] f = "ZipTrunc" -> {C1(<<"H", "L">>, OHA)}
                [] f = "PerMolCount" -> {C1(<<"H", "H", "L", "L">>, OHL)}
                [] f = "Chain" -> {C2(<<"L", "H", "K">>, OHK, OKL), C2(<<"K", "H", "L">>, OKL, OHK),
                                   C2(<<"H", "K", "L">>, Opt(Mk(Name("H"), RnId("RA", 3)), Mk(Name("K"), Rn("KA"))), Opt(Mk(Name("K"), Rn("KB")), Mk(Name("L"), ANone)))}
InitDev == \E f \in AllFlags : \E c \in Witness(f) : case = c /\ Init0 /\ ~pl.self /\ dev = {f}
ExpCases == {C1(<<"H", "K">>, Opt(Mk(Name("H"), RnId("RA", 3)), Mk(Name("K"), Rn("KA")))),
             C1(<<"H", "L">>, Opt(Mk(Name("H"), Rn("RB")), Mk(Name("L"), Rn("LB")))),
             C2(<<"H", "L">>, OHL, Opt(Mk(Name("H"), RnId("RA", 1)), Mk(Name("L"), ANone))),
             C1(<<"H", "L">>, OHA)}
InitExp == \E c \in ExpCases : case = c /\ Init0 /\ ~pl.self /\ dev = DevOn

InitQuick == FamA(3) \/ FamB \/ FamC \/ FamD \/ FamZ
InitFull == FamA(4) \/ FamB \/ FamC \/ FamD \/ FamZ

SpecQuick == InitQuick /\ [][Next]_vars
SpecFull == InitFull /\ [][Next]_vars
SpecDev == InitDev /\ [][Next]_vars
SpecExp == InitExp /\ [][Next]_vars
=============================================================================
