SPECIFICATION Spec
CONSTANTS
 Mols <- MolsDev
 Dev = "closeLate"
 FixedOrder = TRUE
INVARIANT RoundTripI
CHECK_DEADLOCK FALSE
