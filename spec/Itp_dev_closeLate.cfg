INIT MCInit
NEXT Next
CONSTANTS
 Mols = {}
 Dev = "closeLate"
 FixedOrder = TRUE
INVARIANT RoundTripI
CHECK_DEADLOCK FALSE
