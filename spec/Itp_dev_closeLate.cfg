SPECIFICATION Spec
CONSTANTS
 Mols <- MCMols
 Dev = "closeLate"
 FixedOrder = TRUE
INVARIANT RoundTripI
CHECK_DEADLOCK FALSE
