INIT MCInit
NEXT Next
CONSTANTS
 Mols = {}
 Dev = "closeLate"
 FixedOrder = TRUE
INVARIANT RoundTripI
INVARIANT FastAgrees
CHECK_DEADLOCK FALSE
