---------------------------- MODULE TypeResolveTrace ----------------------------
(* I->S for C09: records (abstract input, observed result) taken from the real code - seeded random topologies      *)
(* beyond the exhaustive bound and the repository's own test topologies - are validated in batches by evaluating    *)
(* the P-layers of TypeResolve (bonded) and TypeResolveNB (non-bonded) on every recorded input.                     *)
(* A record is  [top, obs, nb, nbobs]:                                                                              *)
(*   obs   = [err, inst]  the projected interactions of every molecule instance after preprocess() (err: the code   *)
(*           reported "no corresponding bonded type")                                                               *)
(*   nbobs = [pre, post, conv]  nonbond_params after gen_pairs, after preprocess, and per pair the numeric monitor's *)
(*           verdict "sigma/epsilon reproduce C6/C12 at 1e-9" (required TRUE for every pair under comb-rule 1)      *)
(* Values of the non-bonded tables are canonical float strings.  A record outside the stated domain (ties) is       *)
(* skipped and reported; anything that is not the P-layer result of the intended design (NoDev) is rejected.          *)
EXTENDS TypeResolve, TypeResolveNB, Json, IOUtils
VARIABLES tid, l
Recs == JsonDeserialize(IOEnv.TRACE_FILE)
NoCases == {}
ASSUME TLCSet(1, {})
R == Recs[tid]

\* the tree is validated against the intended design only (NoDev): a result that matches a repaired deviation is rejected
BVerdict(r) == IF ~InDomain(r.top) THEN "skip"
               ELSE IF SameResult(r.obs, Expected(r.top, NoDev)) THEN "ok"
               ELSE "reject"

KeyOfRec(o) == {o.a, o.b}
KeysOf(s) == {KeyOfRec(o) : o \in ToSet(s)}
NBVerdict(r) ==
  IF ~InDomainNB(r.nb) THEN "skip"
  ELSE LET PE == PEntries(r.nb, "generated")
           K == {x.k : x \in PE}
           fixed == {[k |-> x.k, raw |-> x.raw] : x \in {y \in PE : y.src # "generated"}}
           pre == r.nbobs.pre post == r.nbobs.post conv == r.nbobs.conv
           preSet == {[k |-> KeyOfRec(o), raw |-> <<o.v1, o.v2>>] : o \in ToSet(pre)}
       IN IF /\ KeysOf(pre) = K /\ Len(pre) = Cardinality(K)
             /\ fixed \subseteq preSet
             /\ KeysOf(post) = K /\ Len(post) = Cardinality(K)
             /\ IF r.nb.comb = 1 THEN KeysOf(conv) = K /\ \A c \in ToSet(conv) : c.ok
                ELSE ToSet(post) = ToSet(pre)
          THEN "ok" ELSE "reject"

Acceptable(v) == v # "reject"
TInit == /\ tid \in 1..Len(Recs) /\ l = 1
         /\ cid = 0 /\ pc = "trace" /\ blk = <<>> /\ extra = <<>> /\ added = <<>> /\ bm = 0 /\ bk = 0 /\ bi = 0 /\ pidx = 0 /\ hit = <<>> /\ pj = 0
         /\ pl = 0 /\ meta = NoMeta /\ idefs = <<>> /\ iact = TRUE
         /\ ncid = 0 /\ npc = "trace" /\ ntbl = <<>> /\ nord = <<>> /\ nq = 0
\* one step per record; the verdicts are evaluated in the invariant Mark (TLC caches sub-expressions there)
TNext == /\ l = 1 /\ l' = 2 /\ tid' = tid
         /\ UNCHANGED <<vars, nvars>>
TSpec == TInit /\ [][TNext]_<<vars, nvars, tid, l>>
Mark == (l = 2) => LET b == BVerdict(R) n == NBVerdict(R) IN
                     /\ (IF b # "ok" \/ n # "ok" THEN PrintT(<<"VERDICT", ToJson(<<ToString(tid), b, n>>)>>) ELSE TRUE)
                     /\ (IF Acceptable(b) /\ Acceptable(n) THEN TLCSet(1, TLCGet(1) \cup {tid}) ELSE TRUE)
Accepted == IF TLCGet(1) = 1..Len(Recs) THEN TRUE
            ELSE (PrintT(<<"REJECTED", ToJson(SetToSeq((1..Len(Recs)) \ TLCGet(1)))>>) /\ FALSE)
=============================================================================
