-------------------------- MODULE IndependenceHist --------------------------
(***************************************************************************)
(* C13, history model: several gen_params calls in ONE process.            *)
(* proc is everything that survives a call inside the process: loaded      *)
(* force-field objects (with the block attributes tag_exclusions mutates   *)
(* and the citation sets vermouth shares between block and molecule), the  *)
(* queue of the deferred file writer, and the files on disk.               *)
(*   Run(i)   one call on input i: result [out, file] = the projection of  *)
(*            the molecule and the content found at the input's output     *)
(*            path afterwards                                              *)
(* HistoryIndependent: after every history, every run's result equals the  *)
(* result of that input in a new process.                                  *)
(* The machine is generic: the cfg binds Fresh / RunIn / Proc0 either to   *)
(* the abstract pipeline (IndependenceHistMC) or to results recorded from  *)
(* real runs (IndependenceTrace).                                          *)
(***************************************************************************)
EXTENDS Integers, Sequences, FiniteSets, TLC

CONSTANTS NInputs,       \* inputs are 1..NInputs
          MaxLen,        \* longest history explored
          Fresh(_),      \* Fresh(i): result of input i in a new process
          RunIn(_, _),   \* RunIn(i, p) = [res |-> result, proc |-> process state afterwards] when the process state is p
          Proc0          \* state of a new process

VARIABLES h,      \* the inputs run so far
          proc,   \* process state
          res     \* the result of every run
hvars == <<h, proc, res>>

HInit == h = <<>> /\ proc = Proc0 /\ res = <<>>
Run(i) == /\ Len(h) < MaxLen
          /\ LET r == RunIn(i, proc) IN h' = Append(h, i) /\ proc' = r.proc /\ res' = Append(res, r.res)
HNext == \E i \in 1..NInputs : Run(i)
HSpec == HInit /\ [][HNext]_hvars

HistoryIndependent == \A k \in DOMAIN h : res[k] = Fresh(h[k])
\* a repeated run changes nothing: same input, same result as the first time it was run in this process
RepeatStable == \A j, k \in DOMAIN h : h[j] = h[k] => res[j] = res[k]
=============================================================================
