SPECIFICATION Spec
CONSTANTS
 Cases <- DihSmall
 TISet <- TI_quick
 DefSet <- Def_both
 MissSet <- Miss_both
 Stratified = TRUE
 DevOneDirection = TRUE
 DevNoReverse = FALSE
 DevFirstInstOnly = FALSE
 DevSpecOrder = FALSE
 DevDefineFirstOnly = FALSE
 DevPairsUntyped = FALSE
 DevTableMacrosKept = FALSE
 DevDefineLazyCond = FALSE
 DevDefineBlockDropped = FALSE
 DevDefineInactiveKept = FALSE
INVARIANT Conforms
CHECK_DEADLOCK FALSE
