---------------------------- MODULE ItpRoundTripReq ----------------------------
(* C11, the REQUEST is input too.  gen_params is asked for a polymer either with a sequence file (-seqf) or with a list of blocks  *)
(* on the command line (-seq A:3 B:1 A:2 ...), and the same molecule can be asked for in many ways (A:3 = A:1 A:2 = A:1 A:1 A:1).  *)
(* The request does not only select the molecule: the file begins with a HEADER made from it - one entry with the words of the      *)
(* command line, then the citation entries - and every entry is written as ONE comment line, however many words it has.            *)
(*   rq    the request: [kind |-> "seq" | "file", blocks |-> sequence of [name, n]]                                                 *)
(*   todo  header entries not yet written (an entry = its words)      file  the lines written so far      res  the read-back       *)
(* Laws: the header consists of comment lines only, so the file reads as the molecule built whatever the request looks like        *)
(* (RoundTripReq, ResGraphReq: also for requests of many blocks), and what is read does not depend on how the molecule was asked   *)
(* for (RequestInert).  Deviation "headerFold": an entry of more than FoldAt words is folded and only its first line is a comment  *)
(* - the continuation lands in front of [ moleculetype ] as a row outside any section and the file cannot be read.                 *)
(* The molecules are chains built the way -seq builds them from a two-residue force field: residue A (one atom), residue B (two    *)
(* atoms joined by a bond under #ifdef F), consecutive residues joined last atom -> first atom by a link of the two residue names. *)
EXTENDS ItpRoundTripExport
CONSTANTS RDev, FoldAt
VARIABLES rq, todo, file, res, pq
rvars == <<rq, todo, file, res, pq>>

(* ---------------- chains ---------------- *)
NAt(rn) == IF rn = "B" THEN 2 ELSE 1
LayoutOf(names) == FlattenSeq([r \in DOMAIN names |-> [j \in 1..NAt(names[r]) |-> r]])
ChainGraph(n) == LET es == {{r, r + 1} : r \in 1..(n - 1)} IN [re |-> es, ln |-> es]
IntraOf(names) == LET lay == LayoutOf(names) IN
    FlattenSeq([r \in DOMAIN names |-> IF names[r] = "B" THEN <<X("bonds", <<FirstAtom(lay, r), LastAtom(lay, r)>>, 2, GF)>> ELSE <<>>])
\* attribute variant 3: the second atom of a residue has charge and mass; residue ids from 1 as -seq numbers them
ChainMol(names) == Mk(<<LayoutOf(names), names>>, ChainGraph(Len(names)), 3, IntraOf(names), TRUE)

(* ---------------- requests ---------------- *)
Run(rn, n) == [i \in 1..n |-> rn]
Alternating(n) == [i \in 1..n |-> IF i % 2 = 1 THEN "A" ELSE "B"]
ShortNames == UNION {[1..n -> {"A", "B"}] : n \in 1..3}
LongNames == {Run("A", 12), Alternating(12), Run("A", 5) \o Run("B", 4) \o Run("A", 4)}
\* a request for `names` as blocks: the cuts C (positions after which a new block begins) plus a cut wherever the name changes
Cuts(names, C) == C \cup {c \in 1..(Len(names) - 1) : names[c] # names[c + 1]}
Starts(names, C) == SetToSortSeq({1} \cup {c + 1 : c \in Cuts(names, C)}, <)
BlocksOf(names, C) == LET st == Starts(names, C) IN
    [j \in DOMAIN st |-> [name |-> names[st[j]], n |-> (IF j < Len(st) THEN st[j + 1] ELSE Len(names) + 1) - st[j]]]
CutChoices(n) == IF n <= 3 THEN SUBSET (1..(n - 1))
                 ELSE {{}, 1..(n - 1), {c \in 1..(n - 1) : c % 2 = 0}, {c \in 1..(n - 1) : c % 3 = 0}}
NamesOf(blocks) == FlattenSeq([j \in DOMAIN blocks |-> Run(blocks[j].name, blocks[j].n)])
Requests == UNION {{[kind |-> "seq", blocks |-> BlocksOf(nm, C)] : C \in CutChoices(Len(nm))} \cup {[kind |-> "file", blocks |-> BlocksOf(nm, {})]}
                   : nm \in ShortNames \cup LongNames}
MolOf(r) == ChainMol(NamesOf(r.blocks))

(* ---------------- the header ---------------- *)
BlockWord(b) == b.name \o ":" \o ToString(b.n)
CommandLine(r) == <<"polyply", "gen_params", "-f", "in.ff">>
                  \o (IF r.kind = "seq" THEN <<"-seq">> \o [j \in DOMAIN r.blocks |-> BlockWord(r.blocks[j])] ELSE <<"-seqf", "seq.json">>)
                  \o <<"-name", "mol", "-o", "out.itp">>
Entries(r) == <<CommandLine(r), <<"Please", "cite", "the", "following", "papers:">>>>
Comment(ws) == Line("comment", "", ws)
HeaderOf(r) == [j \in DOMAIN Entries(r) |-> Comment(Entries(r)[j])]          \* one line per entry
WriteReq(r) == HeaderOf(r) \o Write(MolOf(r))
\* what is written for one entry; the deviation folds a long entry and comments only its first line
EntryLines(ws) == IF RDev = "headerFold" /\ Len(ws) > FoldAt
                  THEN <<Comment(SubSeq(ws, 1, FoldAt)), Line("row", "", SubSeq(ws, FoldAt + 1, Len(ws)))>>
                  ELSE <<Comment(ws)>>

(* ---------------- actions ---------------- *)
Frozen == /\ mol = 0 /\ pc = "request" /\ out = <<>> /\ secs = {} /\ cur = "" /\ groups = <<>> /\ pend = <<>> /\ gopen = NoGuard
          /\ late = FALSE /\ rd = R0 /\ ri = 1
RInit == /\ Frozen /\ rq \in Requests /\ todo = Entries(rq) /\ file = <<>> /\ res = Finalize(R0) /\ pq = "header"
WriteEntry == /\ pq = "header" /\ todo # <<>>
              /\ file' = file \o EntryLines(Head(todo)) /\ todo' = Tail(todo) /\ UNCHANGED <<rq, res, pq>>
WriteBody == /\ pq = "header" /\ todo = <<>>
             /\ file' = file \o Write(MolOf(rq)) /\ pq' = "written" /\ UNCHANGED <<rq, todo, res>>
ReadBack == /\ pq = "written" /\ res' = Read(file) /\ pq' = "read" /\ UNCHANGED <<rq, todo, file>>
RNext == (WriteEntry \/ WriteBody \/ ReadBack) /\ UNCHANGED vars

(* ---------------- laws ---------------- *)
WriterMeetsWriteReq == pq \in {"written", "read"} => file = WriteReq(rq)
HeaderIsComment == \A i \in DOMAIN file : (\A j \in 1..i : file[j].k # "sec") => file[i].k \in {"comment", "sec"}
RoundTripReq == pq = "read" => res.ok /\ Same(res, Project(MolOf(rq)))
ResGraphReq == pq = "read" => ReadResGraph(res) = Requested(MolOf(rq))
\* the same sequence asked for in another way reads back the same
RequestInert == pq = "read" => res = Read(Write(ChainMol(NamesOf(rq.blocks))))
LawsReq == pq = "header" /\ file = <<>> => RoundTrip(MolOf(rq)) /\ ResGraphLaw(MolOf(rq)) /\ Missing(MolOf(rq)) = {}
ReqExport == (pq = "header" /\ file = <<>>) =>
    PrintT(<<"REQ", ToJson([kind |-> rq.kind, words |-> [j \in DOMAIN rq.blocks |-> BlockWord(rq.blocks[j])],
                            nwords |-> Len(CommandLine(rq)), case |-> CaseOf(MolOf(rq))])>>)
=============================================================================
