------------------------------ MODULE MC_Walk ------------------------------
(* Exhaustive instances of Walk: growth shapes x every subset of pre-positioned residues x rewind depths.   *)
EXTENDS Walk
Unlimited == -1
NoDev == [retryRemovesAll |-> FALSE, noCleanup |-> FALSE, rewindLeavesOne |-> FALSE, rewindResumesLate |-> FALSE]
DevRetryAll == [NoDev EXCEPT !.retryRemovesAll = TRUE]
DevNoCleanup == [NoDev EXCEPT !.noCleanup = TRUE]
DevRewindLeaves == [NoDev EXCEPT !.rewindLeavesOne = TRUE]
DevRewindLate == [NoDev EXCEPT !.rewindResumesLate = TRUE]

\* search-tree edge lists in the order networkx lists them (the harness checks this against the real search_tree)
P3 == << <<1,2>>, <<2,3>> >>
P4 == << <<1,2>>, <<2,3>>, <<3,4>> >>
P5 == << <<1,2>>, <<2,3>>, <<3,4>>, <<4,5>> >>
S4 == << <<1,2>>, <<1,3>>, <<1,4>> >>                      \* star
Y5 == << <<1,2>>, <<2,3>>, <<2,5>>, <<3,4>> >>             \* 1-2, 2-3, 3-4, 2-5: node 2 branches
Shapes == { [n |-> 3, path |-> P3], [n |-> 4, path |-> P4], [n |-> 5, path |-> P5], [n |-> 4, path |-> S4], [n |-> 5, path |-> Y5] }
ProperSubsets(S) == (SUBSET S) \ {S}

\* one molecule: every shape, every proper subset of supplied residues, rewind depth 1..3
One == { [nmol |-> 1, nodes |-> <<1..sh.n>>, path |-> <<sh.path>>, root |-> <<1>>, attr |-> <<A>>, ignored |-> {},
          nrewind |-> r, maxiter |-> 2, maxattempts |-> 1]
         : sh \in Shapes, A \in ProperSubsets(1..4), r \in 1..3 }
OneOk == { i \in One : i.attr[1] \subseteq i.nodes[1] /\ i.attr[1] # i.nodes[1] }
\* two molecules (accepted molecule must stay put), second one partially supplied, one attempt budget of 2
Two == { [nmol |-> 2, nodes |-> <<1..4, 1..3>>, path |-> <<P4, P3>>, root |-> <<1, 1>>, attr |-> <<{}, A>>, ignored |-> {},
          nrewind |-> r, maxiter |-> 2, maxattempts |-> 2]
         : A \in {{}, {1}, {1, 2}, {3}}, r \in {2, 3} }
\* three molecules, the middle one ignored / fully supplied
Three == { [nmol |-> 3, nodes |-> <<1..3, 1..3, 1..3>>, path |-> <<P3, P3, P3>>, root |-> <<1, 1, 1>>, attr |-> <<{}, A, {}>>, ignored |-> I,
            nrewind |-> 2, maxiter |-> 1, maxattempts |-> 1]
           : A \in {{}, {1,2,3}}, I \in {{}, {2}, {1}, {3}} }
MCInstances == OneOk \cup Two \cup Three
\* thorough tier: longer and more branched growth trees, deeper rewinds, more tolerated consecutive failures, more attempts
P6 == << <<1,2>>, <<2,3>>, <<3,4>>, <<4,5>>, <<5,6>> >>
T6 == << <<1,2>>, <<1,5>>, <<2,3>>, <<2,4>>, <<5,6>> >>       \* 1-(2-(3,4), 5-6): two branch points
S5 == << <<1,2>>, <<1,3>>, <<1,4>>, <<1,5>> >>
DeepShapes == { [n |-> 6, path |-> P6], [n |-> 6, path |-> T6], [n |-> 5, path |-> S5] }
Deep1 == { [nmol |-> 1, nodes |-> <<1..sh.n>>, path |-> <<sh.path>>, root |-> <<1>>, attr |-> <<A>>, ignored |-> {},
            nrewind |-> r, maxiter |-> mi, maxattempts |-> 2]
           : sh \in DeepShapes, A \in {{}, {1}, {2}, {3}, {1, 2}, {2, 4}, {3, 5}, {1, 3, 5}}, r \in {2, 4, 5}, mi \in {1, 3} }
Deep2 == { [nmol |-> 2, nodes |-> <<1..5, 1..4>>, path |-> <<Y5, S4>>, root |-> <<1, 1>>, attr |-> <<A, B>>, ignored |-> {},
            nrewind |-> r, maxiter |-> 2, maxattempts |-> 1]
           : A \in {{}, {2}, {1, 3}}, B \in {{}, {1}, {3}}, r \in {1, 3} }
MCDeep == MCInstances \cup Deep1 \cup Deep2
MCSmall == { i \in OneOk : i.nrewind = 2 } \cup { i \in Two : i.nrewind = 2 }
=============================================================================
