SPECIFICATION XSpec
CONSTANTS
 Instances <- MCSmall
 MaxFail = 3
 Dev <- NoDev
INVARIANT RolledBack
INVARIANT AttemptClean
INVARIANT SuppliedKept
INVARIANT Final
INVARIANT ExportInv
CHECK_DEADLOCK FALSE
