SPECIFICATION Spec
CONSTANTS
 Content <- MCContent
 Systems <- MCSystemsDev
 BuildFiles <- MCBuildDev
 DevVolLost = FALSE
 DevVolOverwritten = TRUE
 DevUserRegen = FALSE
 DevRecentre = FALSE
INVARIANT UserVolumeWins
CHECK_DEADLOCK FALSE
