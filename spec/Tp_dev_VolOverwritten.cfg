SPECIFICATION Spec
CONSTANTS
 Content <- MCContent
 Systems <- MCSystemsDev
 BuildFiles <- MCBuildDev
 DevVolLost = FALSE
 DevVolOverwritten = TRUE
 DevUserRegen = FALSE
 DevRecentre = FALSE
 DevKeySites = FALSE
 DevProcForgets = FALSE
 LargeN = 16
 DevSkipVSWhenNothingToOptimise = FALSE
INVARIANT UserVolumeWins
CHECK_DEADLOCK FALSE
