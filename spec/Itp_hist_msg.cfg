INIT HInit
NEXT HNext
CONSTANTS
 Mols = {}
 Dev = "none"
 FixedOrder = TRUE
 Paths <- MCPaths
 MaxOps = 4
 WithFF = FALSE
 MolIdx <- MCMolTwo
 MsgKinds <- MCMsgAll
 MaxMsgs = 1
 WithEnv = FALSE
 HDev = "none"
INVARIANT ReadIsCurrent
INVARIANT FsHoldsWrite
INVARIANT OutputIgnoresLog
INVARIANT LogSurvivesCalls
INVARIANT HistExport
PROPERTY OnlyWritesChangeFiles
PROPERTY GenWritesWhateverLogged
PROPERTY OnlyRunsLog
CHECK_DEADLOCK FALSE
