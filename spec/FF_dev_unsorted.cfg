SPECIFICATION Spec
CONSTANTS
 Inputs <- MCInputs
 Dev <- DevUnsorted
INVARIANT C01_Inv
INVARIANT Layout_Inv
CHECK_DEADLOCK FALSE
