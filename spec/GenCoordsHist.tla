--------------------------- MODULE GenCoordsHist ---------------------------
(***************************************************************************)
(* C03 over call histories.  gen_coords is a function of its options and   *)
(* of the files as they are WHEN IT IS CALLED: several calls in one        *)
(* process, on one directory whose files (.top, the included .itp that     *)
(* holds part of [ molecules ], the input structure, the build file) are   *)
(* rewritten in place between the calls, each list the atoms of the        *)
(* topology that is on disk at that moment.                                *)
(*                                                                         *)
(* An input id stands for one complete, consistent rendering of a case     *)
(* (GenCoordsOut: molecule list + option record).  Rewrite(i) puts the     *)
(* files of input i under the fixed paths; Call runs the program.  The     *)
(* process has no memory that matters (mem stays empty) - unless a         *)
(* deviation flag gives it one: a role in HDev is remembered from the      *)
(* first time it is read (a cache keyed by path), and later calls work     *)
(* with the remembered content.                                            *)
(***************************************************************************)
EXTENDS Integers, Sequences, FiniteSets, TLC, Json

CONSTANTS Inputs,    \* set of input ids (positive integers)
          Roles,     \* file roles with a fixed path each
          MaxCalls,  \* calls per history
          HDev       \* roles a deviating process caches by path ({} = the design as intended)
VARIABLES fs,        \* role -> id of the input whose rendering sits under that path (0: nothing written yet)
          mem,       \* role -> id remembered by the process (0: nothing)
          calls,     \* Seq([on |-> fs at the call, saw |-> role -> id the call worked with])
          pc,        \* "write" | "call"
          rw         \* was the directory rewritten before the pending call
vars == <<fs, mem, calls, pc, rw>>

Init == /\ fs = [r \in Roles |-> 0] /\ mem = [r \in Roles |-> 0] /\ calls = <<>> /\ pc = "write" /\ rw = FALSE

\* the directory is rewritten in place with the files of input i (same names, same sizes where the format allows, same time stamp)
Rewrite(i) == /\ pc = "write" /\ Len(calls) < MaxCalls
              /\ fs' = [r \in Roles |-> i] /\ pc' = "call" /\ rw' = TRUE /\ UNCHANGED <<mem, calls>>
\* a call may also follow a call without any rewriting (same files again)
Again == /\ pc = "write" /\ Len(calls) \in 1..(MaxCalls - 1) /\ pc' = "call" /\ rw' = FALSE /\ UNCHANGED <<fs, mem, calls>>
Saw == [r \in Roles |-> IF r \in HDev /\ mem[r] # 0 THEN mem[r] ELSE fs[r]]
Call == /\ pc = "call"
        /\ calls' = Append(calls, [on |-> fs, saw |-> Saw, rw |-> rw])
        /\ mem' = [r \in Roles |-> IF r \in HDev /\ mem[r] = 0 THEN fs[r] ELSE mem[r]]
        /\ pc' = "write" /\ UNCHANGED <<fs, rw>>
Next == (\E i \in Inputs : Rewrite(i)) \/ Again \/ Call
Spec == Init /\ [][Next]_vars

(* P-layer: every call works with the files as they are at the time of the call, whatever happened before in the process *)
HistoryFree == \A k \in 1..Len(calls) : calls[k].saw = calls[k].on
\* ... so its output is Listing / BoxP of exactly that input (GenCoordsOut), which is what the replay compares call by call
ConsistentInput == \A k \in 1..Len(calls) : \A r, q \in Roles : calls[k].saw[r] = calls[k].saw[q]
NoMemory == \A r \in Roles : mem[r] = 0

ExportInv == (Len(calls) = MaxCalls /\ pc = "write") => PrintT(<<"CASE", ToJson([ids |-> [k \in 1..Len(calls) |-> calls[k].on[CHOOSE r \in Roles : TRUE]], rw |-> [k \in 1..Len(calls) |-> calls[k].rw]])>>)
=============================================================================
