---------------------------- MODULE ItpRoundTripHistTrace ----------------------------
(* I->S for the in-process histories of C11: one trace = what ONE process did: gen_params runs that write to a few output paths  *)
(* over and over, and reads of a topology that #includes one of the paths in between.                                             *)
(*   gen  event: path, written, built (molecule in memory at the writer call), lines (the text at the path after the run)         *)
(*   read event: path, now (the text at the path when it is read), readok, read (Topology.from_gmx_topfile), read2 (from_itp)     *)
(*   readff event: the same through MetaMolecule.from_itp into the ONE force field the process keeps (library loaded / earlier     *)
(*               molecules of the same name in it)                                                                                *)
(* The trace specification keeps the file system as state (tfs): a write replaces the content of its path only, a read returns    *)
(* Read(current content of the path) - whatever was written there or read from there before.                                      *)
EXTENDS ItpRoundTrip, Json, IOUtils
VARIABLES tid, l, tfs
Doc == JsonDeserialize(IOEnv.TRACE_FILE)
Traces == Doc.traces
TPaths == {"P1", "P2", "P3"}
ASSUME TLCSet(1, {}) /\ TLCSet(2, [t \in 1..Len(Traces) |-> 0])
Ev == Traces[tid][l]
FixB(p) == [p EXCEPT !.inter = [i \in DOMAIN p.inter |-> [p.inter[i] EXCEPT !.sec = FileSec(@)]]]
TGen == /\ Ev.op = "gen" /\ Ev.written
        /\ LET r == Read(Ev.lines) IN r.ok /\ SameFast(r, FixB(Ev.built))
        /\ tfs' = [tfs EXCEPT ![Ev.path] = Ev.lines]
TRead == /\ Ev.op = "read" /\ Ev.readok
         /\ Ev.now = tfs[Ev.path]                                   \* nothing but the last write to this path decides its content
         /\ LET r == Read(tfs[Ev.path]) IN r.ok /\ SameFast(Ev.read, r) /\ SameFast(Ev.read2, r)
         /\ tfs' = tfs
\* MetaMolecule.from_itp into the one force field of the process, whatever it holds (the library, molecules read before): the same law
TReadFF == /\ Ev.op = "readff" /\ Ev.readok
           /\ Ev.now = tfs[Ev.path]
           /\ LET r == Read(tfs[Ev.path]) IN r.ok /\ SameFast(Ev.read, r)
           /\ tfs' = tfs
Frozen == /\ mol = 0 /\ pc = "trace" /\ out = <<>> /\ secs = {} /\ cur = "" /\ groups = <<>> /\ pend = <<>> /\ gopen = NoGuard
          /\ late = FALSE /\ rd = R0 /\ ri = 1
TInit == Frozen /\ tid \in 1..Len(Traces) /\ l = 1 /\ tfs = [p \in TPaths |-> <<>>]
TNext == /\ l <= Len(Traces[tid]) /\ (TGen \/ TRead \/ TReadFF) /\ l' = l + 1 /\ tid' = tid /\ UNCHANGED vars
TSpec == TInit /\ [][TNext]_<<vars, tid, l, tfs>>
Mark == (l = Len(Traces[tid]) + 1) => TLCSet(1, TLCGet(1) \cup {tid})
Prog == TLCSet(2, [TLCGet(2) EXCEPT ![tid] = IF @ < l - 1 THEN l - 1 ELSE @])
Accepted == IF TLCGet(1) = 1..Len(Traces) THEN TRUE
            ELSE (PrintT(<<"REJECTED", ToJson(SetToSeq({<<t, TLCGet(2)[t]>> : t \in (1..Len(Traces)) \ TLCGet(1)}))>>) /\ FALSE)
=============================================================================
