---------------------------- MODULE ItpRoundTripHistTrace ----------------------------
(* I->S for the in-process histories of C11: one trace = what ONE process did: gen_params runs that write to a few output paths  *)
(* over and over, and reads of a topology that #includes one of the paths in between.                                             *)
(*   gen  event: path, written, built (molecule in memory at the writer call), lines (the text at the path after the run)         *)
(*   read event: path, now (the text at the path when it is read), readok, read (Topology.from_gmx_topfile), read2 (from_itp)     *)
(*   readff event: the same through MetaMolecule.from_itp into the ONE force field the process keeps (library loaded / earlier     *)
(*               molecules of the same name in it)                                                                                *)
(*   other event: a gen_params run that did not pass mapping / link application (it is outside C11; it may have logged something)   *)
(* The trace specification keeps the file system as state (tfs): a write replaces the content of its path only, a read returns    *)
(* Read(current content of the path) - whatever was written there or read from there before.                                      *)
(* The MESSAGE state of the process is state too: tlog = the info / warning / error records the process has logged so far (every  *)
(* event carries `logged`, the records of that operation, taken by a counting handler at the root of the logging system, which is *)
(* switched on as it is for the command line); a gen event also carries `msgs`, the [ info ] / [ warning ] / [ error ] messages    *)
(* that the applied blocks and links attached to the molecule built.  The law: TGen has NO guard on tlog or msgs - a run that      *)
(* passed mapping and link application has written its file, and the file reads as the molecule built, in every message state.    *)
(* The ENVIRONMENT is state as well: tenv = the directories the include search path of the environment lists (GMXLIB; a setenv  *)
(* event changes it), and the paths "L:P1" .. stand for files of the same names P1 .. in such a library directory (written by gen   *)
(* events with -o <library>/P1.itp).  TRead has no guard on either: the topology in the run directory reads the file next to it.  *)
EXTENDS ItpRoundTrip, Json, IOUtils
VARIABLES tid, l, tfs, tlog, tenv
Doc == JsonDeserialize(IOEnv.TRACE_FILE)
Traces == Doc.traces
TPaths == {"P1", "P2", "P3", "L:P1", "L:P2", "L:P3"}
ASSUME TLCSet(1, {}) /\ TLCSet(2, [t \in 1..Len(Traces) |-> 0])
Ev == Traces[tid][l]
FixB(p) == [p EXCEPT !.inter = [i \in DOMAIN p.inter |-> [p.inter[i] EXCEPT !.sec = FileSec(@)]]]
Lv == {"info", "warning", "error"}
Logged(e) == [v \in Lv |-> tlog[v] + e.logged[v]]
\* enabled in every message state: whatever tlog holds (messages of earlier calls) and whatever Ev.msgs / Ev.logged say (this call)
TGen == /\ Ev.op = "gen" /\ Ev.written
        /\ LET r == Read(Ev.lines) IN r.ok /\ SameFast(r, FixB(Ev.built))
        /\ tfs' = [tfs EXCEPT ![Ev.path] = Ev.lines]
        /\ tlog' = Logged(Ev) /\ tenv' = tenv
\* the environment changes between two operations
TEnv == /\ Ev.op = "setenv" /\ tenv' = Ev.dirs /\ tfs' = tfs /\ tlog' = tlog
\* a run that was refused before link application had ended: no file is claimed; what it logged stays with the process
TOther == /\ Ev.op = "other" /\ tfs' = tfs /\ tlog' = Logged(Ev) /\ tenv' = tenv
TRead == /\ Ev.op = "read" /\ Ev.readok
         /\ Ev.now = tfs[Ev.path]                                   \* nothing but the last write to this path decides its content
         /\ LET r == Read(tfs[Ev.path]) IN r.ok /\ SameFast(Ev.read, r) /\ SameFast(Ev.read2, r)
         /\ tfs' = tfs /\ tlog' = Logged(Ev) /\ tenv' = tenv
\* MetaMolecule.from_itp into the one force field of the process, whatever it holds (the library, molecules read before): the same law
TReadFF == /\ Ev.op = "readff" /\ Ev.readok
           /\ Ev.now = tfs[Ev.path]
           /\ LET r == Read(tfs[Ev.path]) IN r.ok /\ SameFast(Ev.read, r)
           /\ tfs' = tfs /\ tlog' = Logged(Ev) /\ tenv' = tenv
Frozen == /\ mol = 0 /\ pc = "trace" /\ out = <<>> /\ secs = {} /\ cur = "" /\ groups = <<>> /\ pend = <<>> /\ gopen = NoGuard
          /\ late = FALSE /\ rd = R0 /\ ri = 1
TInit == Frozen /\ tid \in 1..Len(Traces) /\ l = 1 /\ tfs = [p \in TPaths |-> <<>>] /\ tlog = [v \in Lv |-> 0] /\ tenv = <<>>
TNext == /\ l <= Len(Traces[tid]) /\ (TGen \/ TRead \/ TReadFF \/ TOther \/ TEnv) /\ l' = l + 1 /\ tid' = tid /\ UNCHANGED vars
TSpec == TInit /\ [][TNext]_<<vars, tid, l, tfs, tlog, tenv>>
\* the process state of the model is the process state of the run: every event also carries `seen`, the records by level the process
\* had logged when the operation began (the same handler, which lives as long as the process)
SeenIsLog == (l <= Len(Traces[tid]) /\ Ev.op # "setenv") => \A v \in Lv : Ev.seen[v] = tlog[v]
Mark == (l = Len(Traces[tid]) + 1) => TLCSet(1, TLCGet(1) \cup {tid})
Prog == TLCSet(2, [TLCGet(2) EXCEPT ![tid] = IF @ < l - 1 THEN l - 1 ELSE @])
Accepted == IF TLCGet(1) = 1..Len(Traces) THEN TRUE
            ELSE (PrintT(<<"REJECTED", ToJson(SetToSeq({<<t, TLCGet(2)[t]>> : t \in (1..Len(Traces)) \ TLCGet(1)}))>>) /\ FALSE)
=============================================================================
