SPECIFICATION Spec
CONSTANTS
 Cases <- CasesStar
 FFs <- FFcat
 Dev <- DevOncePerGroup
INVARIANT Confluent
CHECK_DEADLOCK FALSE
