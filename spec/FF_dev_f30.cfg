SPECIFICATION Spec
CONSTANTS
 Inputs <- MCInputs
 Dev <- DevF30
INVARIANT C01_Inv
CHECK_DEADLOCK FALSE
