SPECIFICATION NSpec
CONSTANTS
 NBCases <- SmallNBCases
 DevOverrideExplicit = FALSE
 DevEpsHalf = TRUE
 DevSigmaInverted = FALSE
 DevSelfFromFirst = FALSE
INVARIANT NConforms
CHECK_DEADLOCK FALSE
