SPECIFICATION TSpec
CONSTANTS
 Configs = {}
 DevUserLast = FALSE
 DevFirstWins = FALSE
 DevBibMerge = FALSE
 DevSplitAll = FALSE
 DevTmplMerge = FALSE
 DevSkipUserUnknown = FALSE
 DevIdReuse <- TDevIdReuse
INVARIANT StoreIsDeclarative
INVARIANT ErrorRule
INVARIANT Mark
INVARIANT Prog
POSTCONDITION Accepted
CHECK_DEADLOCK FALSE
