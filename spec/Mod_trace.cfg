INIT TInit
NEXT TNext
CONSTANTS
 Inputs = {}
 LibOf <- TLibOf
 Dev <- TDev
 FreeOrder = TRUE
INVARIANT IntendedUnlessFired
INVARIANT Frame
INVARIANT ResolveUnlessFired
INVARIANT Mark
INVARIANT Prog
POSTCONDITION Accepted
CHECK_DEADLOCK FALSE
