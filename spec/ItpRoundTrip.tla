---------------------------- MODULE ItpRoundTrip ----------------------------
(***************************************************************************)
(* C11 - a generated .itp file is written and re-read to the same molecule *)
(*                                                                         *)
(* An abstract molecule m (what gen_params holds in memory right before    *)
(* it writes):                                                             *)
(*   name, nrexcl                                                          *)
(*   atoms  : sequence of [name, type, resid, resname, cg, charge, mass]   *)
(*            (position in the sequence = atom number; charge / mass are   *)
(*            number tokens, "" = the atom has none)                       *)
(*   inter  : sequence (a multiset, listed) of                             *)
(*            [sec, atoms, par, gk, gtag, comment]                         *)
(*            sec = section in memory, atoms = atom numbers, par = tokens, *)
(*            gk \in {"none","ifdef","ifndef"} with tag gtag, comment text *)
(*   edges  : atom-level edges held in memory (sets {a, b})                *)
(*   rnodes, redges : the requested residue graph ([id, name]; {id, id})   *)
(*                                                                         *)
(* A file is a sequence of abstract lines [k, s, t]:                       *)
(*   k = "sec" (s = section name), "row" (t = whitespace separated tokens, *)
(*   s = trailing comment), "ifdef"/"ifndef" (s = tag), "endif", "comment" *)
(*   (a line that is a comment only, t = its words; the header of a file). *)
(*                                                                         *)
(* P-layer : Write(m) (the line list the writer must produce), Read(lines) *)
(*           (the reader as a fold), Same (equality of molecules modulo    *)
(*           the writer's atom-order symmetries WriterCanon), the laws     *)
(*           RoundTrip and ResGraphLaw.                                    *)
(* I-layer : the writer as actions (WriteHeader, WriteAtoms, BeginSection, *)
(*           OpenGuard, WriteInteraction, CloseGuard, EndSection, Finish)  *)
(*           and the reader's director actions (RSection, RPragma,         *)
(*           RMoleculetype, RAtom, RInteraction, RFinalize); deviations of *)
(*           realistic wrong designs are selected by the constant Dev.     *)
(***************************************************************************)
EXTENDS Integers, Sequences, FiniteSets, TLC, SequencesExt

CONSTANTS Mols,        \* the instance: a set of abstract molecules
          Dev,         \* active deviation, "none" = the intended design
          FixedOrder   \* TRUE: the writer takes sections in the order SecSeq (then out = Write(mol))
VARIABLES mol, pc, out, secs, cur, groups, pend, gopen, late, rd, ri
vars == <<mol, pc, out, secs, cur, groups, pend, gopen, late, rd, ri>>

S(i) == ToString(i)
NoGuard == [k |-> "none", tag |-> ""]
GuardOf(x) == [k |-> x.gk, tag |-> x.gtag]
\* guards in the order the writer lists them inside a section (by tag, #ifndef before #ifdef)
GuardOrder == << [k |-> "ifndef", tag |-> "F"], [k |-> "ifdef", tag |-> "F"],
                 [k |-> "ifndef", tag |-> "G"], [k |-> "ifdef", tag |-> "G"] >>
\* sections in the order the writer usually lists them (by number of atoms, then by name)
SecSeq == << "position_restraints", "settles", "virtual_sites1", "bonds", "constraints", "exclusions", "pairs", "pairs_nb",
             "distance_restraints", "orientation_restraints", "angle_restraints_z", "angles", "virtual_sites2", "virtual_sitesn",
             "dihedrals", "impropers", "virtual_sites3", "dihedral_restraints", "angle_restraints", "virtual_sites4", "cmap" >>
\* the .itp format has no [ impropers ] section: improper dihedrals are listed under [ dihedrals ]
FileSec(s) == IF s = "impropers" THEN "dihedrals" ELSE s

(* ------------------------------------------------------------------ *)
(* WriterCanon: which atom listings denote the same interaction        *)
(* ------------------------------------------------------------------ *)
\* bond a-b = b-a, pair likewise; angle, dihedral (proper and improper), dihedral restraint and angle restraint (two vectors) reversed.
\* Not in the list although the writer turns it round too: angle_restraints_z (the angle of the vector i->j with the z axis: j->i is the
\* supplementary angle) - see the finding instance.
SymSecs == {"bonds", "pairs", "angles", "dihedrals", "dihedral_restraints", "angle_restraints"}
SameListing(sec, a, b) == a = b \/ (sec \in SymSecs /\ a = Reverse(b))
Equiv(x, y) == /\ x.sec = y.sec /\ x.par = y.par /\ x.gk = y.gk /\ x.gtag = y.gtag
               /\ SameListing(x.sec, x.atoms, y.atoms)
\* equality of two listed multisets modulo Equiv
BagEqMod(a, b) == /\ Len(a) = Len(b)
                  /\ \A i \in DOMAIN a : Cardinality({j \in DOMAIN a : Equiv(a[j], a[i])})
                                         = Cardinality({j \in DOMAIN b : Equiv(b[j], a[i])})
\* the listings a reader may return for one interaction (exported for the replay)
Alts(sec, a) == IF sec \in SymSecs THEN {a, Reverse(a)} ELSE {a}
(* The same equality computed in n log n for the big molecules of the trace validation: one representative per class of listings  *)
(* (CHOOSE on the set of admissible listings: equal sets give the same choice), then equality of the count functions.              *)
(* FastAgrees (checked on the exhaustive instance, deviations included) states that it is the same relation.                      *)
Rep(x) == [x EXCEPT !.atoms = CHOOSE t \in Alts(x.sec, x.atoms) : TRUE]
CountsOf(c) == FoldLeft(LAMBDA f, x : [f EXCEPT ![x] = @ + 1], [x \in ToSet(c) |-> 0], c)
BagEqFast(a, b) == Len(a) = Len(b) /\ CountsOf([i \in DOMAIN a |-> Rep(a[i])]) = CountsOf([i \in DOMAIN b |-> Rep(b[i])])

(* ------------------------------------------------------------------ *)
(* token space: what a file can carry                                  *)
(* ------------------------------------------------------------------ *)
TokAtom(a) == [name |-> a.name, type |-> a.type, resid |-> S(a.resid), resname |-> a.resname,
               cg |-> S(a.cg), charge |-> a.charge, mass |-> a.mass]
TokInter(x) == [sec |-> FileSec(x.sec), atoms |-> [i \in DOMAIN x.atoms |-> S(x.atoms[i])], par |-> x.par,
                gk |-> x.gk, gtag |-> x.gtag]
\* Project: the part of a molecule the property speaks about, in token space
Project(m) == [name |-> m.name, nrexcl |-> S(m.nrexcl),
               atoms |-> [i \in DOMAIN m.atoms |-> TokAtom(m.atoms[i])],
               inter |-> [i \in DOMAIN m.inter |-> TokInter(m.inter[i])]]
Same(p, q) == /\ p.name = q.name /\ p.nrexcl = q.nrexcl /\ p.atoms = q.atoms /\ BagEqMod(p.inter, q.inter)
\* the same, with further sections taken as symmetric (used only to classify a known finding exactly)
RepX(x, X) == [x EXCEPT !.atoms = CHOOSE t \in (IF x.sec \in X THEN {x.atoms, Reverse(x.atoms)} ELSE Alts(x.sec, x.atoms)) : TRUE]
SameFastX(p, q, X) == /\ p.name = q.name /\ p.nrexcl = q.nrexcl /\ p.atoms = q.atoms /\ Len(p.inter) = Len(q.inter)
                      /\ CountsOf([i \in DOMAIN p.inter |-> RepX(p.inter[i], X)]) = CountsOf([i \in DOMAIN q.inter |-> RepX(q.inter[i], X)])
SameFast(p, q) == /\ p.name = q.name /\ p.nrexcl = q.nrexcl /\ p.atoms = q.atoms /\ BagEqFast(p.inter, q.inter)

(* ------------------------------------------------------------------ *)
(* P-layer: Write                                                      *)
(* ------------------------------------------------------------------ *)
Line(k, s, t) == [k |-> k, s |-> s, t |-> t]
AtomRow(m, i) == LET a == m.atoms[i] IN
    Line("row", "", << S(i), a.type, S(a.resid), a.resname, a.name, S(a.cg) >>
                    \o (IF a.charge # "" THEN <<a.charge>> ELSE <<>>)
                    \o (IF a.mass # "" THEN <<a.mass>> ELSE <<>>))
\* the writer's choice of listing (it never changes the interaction: WriterOrient(x) is in Alts)
WriterOrient(sec, a) ==
    CASE sec \in {"bonds", "pairs"} -> IF a[1] <= a[2] THEN a ELSE Reverse(a)
      [] sec \in {"angles", "angle_restraints", "angle_restraints_z"} -> IF a[1] < a[Len(a)] THEN a ELSE Reverse(a)
      [] sec \in {"dihedrals", "dihedral_restraints"} -> IF a[2] < a[3] THEN a ELSE Reverse(a)
      [] OTHER                      -> a
StrSeq(a) == [i \in DOMAIN a |-> S(a[i])]
InterRow(x) == LET a == StrSeq(WriterOrient(x.sec, x.atoms)) IN
    Line("row", x.comment, IF x.sec = "virtual_sitesn" THEN <<a[1]>> \o x.par \o Tail(a) ELSE a \o x.par)
MemSecs(m) == {m.inter[i].sec : i \in DOMAIN m.inter}
HasGroup(m, s, g) == \E i \in DOMAIN m.inter : m.inter[i].sec = s /\ GuardOf(m.inter[i]) = g
GuardsIn(m, s) == (IF HasGroup(m, s, NoGuard) THEN <<NoGuard>> ELSE <<>>) \o SelectSeq(GuardOrder, LAMBDA g : HasGroup(m, s, g))
GroupMembers(m, s, g) == SelectSeq(m.inter, LAMBDA x : x.sec = s /\ GuardOf(x) = g)
GroupLines(m, s, g) == LET rows == [i \in DOMAIN GroupMembers(m, s, g) |-> InterRow(GroupMembers(m, s, g)[i])] IN
    IF g.k = "none" THEN rows ELSE <<Line(g.k, g.tag, <<>>)>> \o rows \o <<Line("endif", "", <<>>)>>
SectionLines(m, s) == <<Line("sec", FileSec(s), <<>>)>> \o FlattenSeq([j \in DOMAIN GuardsIn(m, s) |-> GroupLines(m, s, GuardsIn(m, s)[j])])
HeaderLines(m) == << Line("sec", "moleculetype", <<>>), Line("row", "", <<m.name, S(m.nrexcl)>>) >>
AtomLines(m) == <<Line("sec", "atoms", <<>>)>> \o [i \in DOMAIN m.atoms |-> AtomRow(m, i)]
SecsPresent(m) == SelectSeq(SecSeq, LAMBDA s : s \in MemSecs(m))
Write(m) == HeaderLines(m) \o AtomLines(m) \o FlattenSeq([j \in DOMAIN SecsPresent(m) |-> SectionLines(m, SecsPresent(m)[j])])

(* ------------------------------------------------------------------ *)
(* P-layer: Read (a fold over the lines)                               *)
(* ------------------------------------------------------------------ *)
\* the reader's table: how many leading tokens of a line are atoms (exclusions: all; virtual_sitesn: the first and those after
\* the function type)
NAtomsOf(s) == CASE s \in {"position_restraints", "virtual_sites1", "settles"} -> 1
                 [] s \in {"bonds", "constraints", "pairs", "pairs_nb", "distance_restraints", "orientation_restraints", "angle_restraints_z"} -> 2
                 [] s \in {"angles", "virtual_sites2"} -> 3
                 [] s \in {"dihedrals", "virtual_sites3", "dihedral_restraints", "angle_restraints"} -> 4
                 [] s \in {"virtual_sites4", "cmap"} -> 5
                 [] OTHER -> 0
KnownSecs == {"position_restraints", "virtual_sites1", "settles", "bonds", "constraints", "pairs", "pairs_nb", "distance_restraints",
              "orientation_restraints", "angle_restraints_z", "angles", "virtual_sites2", "dihedrals", "virtual_sites3", "dihedral_restraints",
              "angle_restraints", "virtual_sites4", "cmap", "exclusions", "virtual_sitesn"}
RowOk(s, t) == CASE s = "exclusions" -> Len(t) >= 1
                 [] s = "virtual_sitesn" -> Len(t) >= 2
                 [] OTHER -> s \in KnownSecs /\ Len(t) >= NAtomsOf(s)
RowAtoms(s, t) == CASE s = "exclusions" -> t
                    [] s = "virtual_sitesn" -> <<t[1]>> \o SubSeq(t, 3, Len(t))
                    [] OTHER -> SubSeq(t, 1, NAtomsOf(s))
RowPars(s, t) == CASE s = "exclusions" -> <<>>
                   [] s = "virtual_sitesn" -> <<t[2]>>
                   [] OTHER -> SubSeq(t, NAtomsOf(s) + 1, Len(t))
R0 == [sec |-> "", gk |-> "none", gtag |-> "", name |-> "", nrexcl |-> "", atoms |-> <<>>, inter |-> <<>>, ok |-> TRUE]
Bad(st) == [st EXCEPT !.ok = FALSE]
StepSec(st, ln) == [st EXCEPT !.sec = ln.s]
StepPragma(st, ln) ==
    IF ln.k = "endif" THEN (IF st.gk = "none" THEN Bad(st) ELSE [st EXCEPT !.gk = "none", !.gtag = ""])
    ELSE (IF st.gk # "none" THEN Bad(st) ELSE [st EXCEPT !.gk = ln.k, !.gtag = ln.s])
StepMoleculetype(st, ln) == IF Len(ln.t) # 2 THEN Bad(st) ELSE [st EXCEPT !.name = ln.t[1], !.nrexcl = ln.t[2]]
\* columns: nr type resid resname name cgnr [charge [mass]] - a mass can only follow a charge
StepAtom(st, ln) == LET t == ln.t IN
    IF Len(t) < 6 \/ t[1] # S(Len(st.atoms) + 1) THEN Bad(st)
    ELSE [st EXCEPT !.atoms = Append(@, [name |-> t[5], type |-> t[2], resid |-> t[3], resname |-> t[4], cg |-> t[6],
                                            charge |-> IF Len(t) >= 7 THEN t[7] ELSE "",
                                            mass |-> IF Len(t) >= 8 THEN t[8] ELSE ""])]
StepInteraction(st, ln) ==
    IF ~RowOk(st.sec, ln.t) THEN Bad(st)
    ELSE [st EXCEPT !.inter = Append(@, [sec |-> st.sec, atoms |-> RowAtoms(st.sec, ln.t), par |-> RowPars(st.sec, ln.t),
                                            gk |-> st.gk, gtag |-> st.gtag])]
Step(st, ln) ==
    CASE ln.k = "comment" -> st                              \* a comment line says nothing, wherever it stands and however long it is
      [] ln.k = "sec" -> StepSec(st, ln)
      [] ln.k \in {"ifdef", "ifndef", "endif"} -> StepPragma(st, ln)
      [] ln.k = "row" /\ st.sec = "moleculetype" -> StepMoleculetype(st, ln)
      [] ln.k = "row" /\ st.sec = "atoms" -> StepAtom(st, ln)
      [] OTHER -> StepInteraction(st, ln)
Finalize(st) == [name |-> st.name, nrexcl |-> st.nrexcl, atoms |-> st.atoms, inter |-> st.inter,
                 ok |-> st.ok /\ st.gk = "none"]          \* an open conditional at the end of the file is an error
Read(lines) == Finalize(FoldLeft(Step, R0, lines))

(* ------------------------------------------------------------------ *)
(* P-layer: residue graphs                                             *)
(* ------------------------------------------------------------------ *)
\* the reader joins atoms by bonds and constraints only; residues are joined where such an edge joins two of their atoms
ReadAtomEdges(p) == {{x.atoms[1], x.atoms[2]} : x \in {y \in ToSet(p.inter) : y.sec \in {"bonds", "constraints"}}}
AtomAt(p, tok) == CHOOSE i \in DOMAIN p.atoms : S(i) = tok
ResidOfTok(p, tok) == IF \E i \in DOMAIN p.atoms : S(i) = tok THEN p.atoms[AtomAt(p, tok)].resid ELSE "?"
ReadResGraph(p) == [nodes |-> {[id |-> p.atoms[i].resid, name |-> p.atoms[i].resname] : i \in DOMAIN p.atoms},
                    edges |-> {e \in {{ResidOfTok(p, a) : a \in ae} : ae \in ReadAtomEdges(p)} : Cardinality(e) = 2}]
Requested(m) == [nodes |-> {[id |-> S(n.id), name |-> n.name] : n \in m.rnodes},
                 edges |-> {{S(r) : r \in e} : e \in m.redges}]
\* requested residue edges that no atom-level edge of the molecule in memory realises (the missing-link warnings)
Joined(m, e) == \E ae \in m.edges : {m.atoms[a].resid : a \in ae} = e
Missing(m) == {e \in m.redges : ~Joined(m, e)}

(* ------------------------------------------------------------------ *)
(* the laws                                                            *)
(* ------------------------------------------------------------------ *)
RoundTrip(m) == LET r == Read(Write(m)) IN r.ok /\ Same(r, Project(m))
ResGraphLaw(m) == Missing(m) = {} => ReadResGraph(Read(Write(m))) = Requested(m)

(* ------------------------------------------------------------------ *)
(* I-layer: writer                                                     *)
(* ------------------------------------------------------------------ *)
D(x) == Dev = x
Init == /\ mol \in Mols /\ pc = "start" /\ out = <<>> /\ secs = {} /\ cur = "" /\ groups = <<>> /\ pend = <<>>
        /\ gopen = NoGuard /\ late = FALSE /\ rd = R0 /\ ri = 1
Emit(ls) == out' = out \o ls
\* DevNoFile (repaired finding F1): the writer fails while it assembles the header, nothing is written
WriteHeader == /\ pc = "start"
               /\ IF D("noFile") THEN pc' = "written" /\ UNCHANGED out ELSE Emit(HeaderLines(mol)) /\ pc' = "atoms"
               /\ UNCHANGED <<mol, secs, cur, groups, pend, gopen, late, rd, ri>>
\* DevNoResid: the residue id column is not taken from the atom (every atom gets 1)
AtomRowI(i) == LET r == AtomRow(mol, i) IN IF D("noResid") THEN [r EXCEPT !.t[3] = "1"]
                                           ELSE IF D("swapResidResname") THEN [r EXCEPT !.t[3] = r.t[4], !.t[4] = r.t[3]] ELSE r
WriteAtoms == /\ pc = "atoms"
              /\ Emit(<<Line("sec", "atoms", <<>>)>> \o [i \in DOMAIN mol.atoms |-> AtomRowI(i)])
              /\ secs' = MemSecs(mol) /\ pc' = "section"
              /\ UNCHANGED <<mol, cur, groups, pend, gopen, late, rd, ri>>
NextInOrder(s) == \A j \in DOMAIN SecSeq : SecSeq[j] \in secs => \E i \in 1..j : SecSeq[i] = s
LateEndif == IF late THEN <<Line("endif", "", <<>>)>> ELSE <<>>
BeginSection(s) == /\ pc = "section" /\ s \in secs /\ (FixedOrder => NextInOrder(s))
                   /\ IF D("dropSection") /\ s = "constraints"
                      THEN /\ secs' = secs \ {s} /\ UNCHANGED <<out, cur, groups, pc>>        \* the section is silently skipped
                      ELSE /\ Emit(<<Line("sec", FileSec(s), <<>>)>>) /\ cur' = s /\ groups' = GuardsIn(mol, s) /\ pc' = "group"
                           /\ UNCHANGED secs
                   /\ UNCHANGED <<mol, pend, gopen, late, rd, ri>>
OpenGuard == /\ pc = "group" /\ groups # <<>>
             /\ LET g == Head(groups) IN
                  /\ Emit(IF g.k = "none" \/ D("guardLost") THEN <<>> ELSE <<Line(g.k, g.tag, <<>>)>>)
                  /\ gopen' = g /\ pend' = GroupMembers(mol, cur, g)
             /\ pc' = "lines" /\ UNCHANGED <<mol, secs, cur, groups, late, rd, ri>>
\* the order of the lines of one group is not something the property depends on: any order (FixedOrder: memory order)
InterRowI(x) == LET r == InterRow(x) IN
                IF D("parTrunc") /\ Len(x.par) > 1
                THEN Line("row", x.comment, LET a == StrSeq(WriterOrient(x.sec, x.atoms)) IN
                                            IF x.sec = "virtual_sitesn" THEN <<a[1], x.par[1]>> \o Tail(a) ELSE a \o <<x.par[1]>>)
                ELSE IF D("canonConstraints") /\ x.sec = "constraints" THEN [r EXCEPT !.t = StrSeq(Reverse(x.atoms)) \o x.par]
                ELSE r
WriteInteraction == /\ pc = "lines" /\ pend # <<>>
                    /\ \E i \in DOMAIN pend :
                         /\ (FixedOrder => i = 1)
                         /\ Emit(<<InterRowI(pend[i])>>)
                         /\ pend' = [j \in 1..(Len(pend) - 1) |-> IF j < i THEN pend[j] ELSE pend[j + 1]]
                    /\ UNCHANGED <<mol, pc, secs, cur, groups, gopen, late, rd, ri>>
\* DevCloseLate: the #endif of a guarded group is only written after the lines of the next group / section
CloseGuard == /\ pc = "lines" /\ pend = <<>>
              /\ IF gopen.k = "none" \/ D("guardLost")
                 THEN /\ Emit(LateEndif) /\ late' = FALSE
                 ELSE IF D("closeLate") THEN /\ Emit(LateEndif) /\ late' = TRUE
                      ELSE /\ Emit(<<Line("endif", "", <<>>)>>) /\ late' = late
              /\ gopen' = NoGuard /\ groups' = Tail(groups) /\ pc' = "group"
              /\ UNCHANGED <<mol, secs, cur, pend, rd, ri>>
EndSection == /\ pc = "group" /\ groups = <<>> /\ secs' = secs \ {cur} /\ cur' = "" /\ pc' = "section"
              /\ UNCHANGED <<mol, out, groups, pend, gopen, late, rd, ri>>
Finish == /\ pc = "section" /\ secs = {} /\ Emit(LateEndif) /\ late' = FALSE /\ pc' = "written"
          /\ UNCHANGED <<mol, secs, cur, groups, pend, gopen, rd, ri>>

(* ------------------------------------------------------------------ *)
(* I-layer: the reader's director, one action per line kind            *)
(* ------------------------------------------------------------------ *)
Reading == pc = "written" /\ ri <= Len(out)
Ln == out[ri]
Consume(st) == /\ rd' = st /\ ri' = ri + 1 /\ UNCHANGED <<mol, pc, out, secs, cur, groups, pend, gopen, late>>
RSection == Reading /\ Ln.k = "sec" /\ Consume(StepSec(rd, Ln))
RPragma == Reading /\ Ln.k \in {"ifdef", "ifndef", "endif"} /\ Consume(StepPragma(rd, Ln))
RMoleculetype == Reading /\ Ln.k = "row" /\ rd.sec = "moleculetype" /\ Consume(StepMoleculetype(rd, Ln))
RAtom == Reading /\ Ln.k = "row" /\ rd.sec = "atoms" /\ Consume(StepAtom(rd, Ln))
\* DevReaderSkip: the reader has no handler for [ pairs ] and drops its lines
RInteraction == /\ Reading /\ Ln.k = "row" /\ rd.sec \notin {"moleculetype", "atoms"}
                /\ Consume(IF D("readerSkip") /\ rd.sec = "pairs" THEN rd ELSE StepInteraction(rd, Ln))
RFinalize == /\ pc = "written" /\ ri = Len(out) + 1 /\ pc' = "done"
             /\ UNCHANGED <<mol, out, secs, cur, groups, pend, gopen, late, rd, ri>>
Next == \/ WriteHeader \/ WriteAtoms \/ (\E s \in secs : BeginSection(s)) \/ OpenGuard \/ WriteInteraction \/ CloseGuard
        \/ EndSection \/ Finish \/ RSection \/ RPragma \/ RMoleculetype \/ RAtom \/ RInteraction \/ RFinalize
Spec == Init /\ [][Next]_vars

(* ------------------------------------------------------------------ *)
(* I-layer |= P-layer                                                  *)
(* ------------------------------------------------------------------ *)
Result == Finalize(rd)
\* the laws hold for the declarative Write / Read (evaluated once per molecule)
LawsAtStart == pc = "start" => RoundTrip(mol) /\ ResGraphLaw(mol)
\* what the actions wrote is what Write demands (section order fixed), and always reads like it
WriterMeetsWrite == pc = "written" => (FixedOrder => out = Write(mol)) /\ Same(Read(out), Read(Write(mol)))
\* the director computes the fold
ReaderIsFold == pc = "done" => Result = Read(out)
\* the round trip through the actions
RoundTripI == pc = "done" => Result.ok /\ Same(Result, Project(mol))
ResGraphI == pc = "done" => (Missing(mol) = {} => ReadResGraph(Result) = Requested(mol))
FastAgrees == pc = "done" => (SameFast(Result, Project(mol)) = Same(Result, Project(mol)))
\* conditionals are never nested and a guard is open exactly while its group is written
Depth(ls) == Cardinality({i \in DOMAIN ls : ls[i].k \in {"ifdef", "ifndef"}}) - Cardinality({i \in DOMAIN ls : ls[i].k = "endif"})
GuardDiscipline == pc \in {"start", "atoms", "section", "group", "lines", "written", "done"} =>
                      Depth(out) = (IF pc = "lines" /\ gopen.k # "none" THEN 1 ELSE 0)
\* a guard line is written only by OpenGuard / CloseGuard / Finish, rows only by the row actions (action property)
OnlyGuardActionsTouchDepth == [][Depth(out') # Depth(out) => (pc = "group" /\ pc' = "lines") \/ (pc = "lines" /\ pc' = "group")]_vars
=============================================================================
