---------------------------- MODULE LatticeWalk ----------------------------
(***************************************************************************)
(* C05 - geometry of the placement, exact lattice instance.                *)
(*                                                                         *)
(* Linear chains are grown in a periodic cubic box of L x L x L lattice    *)
(* sites (spacing h = step length: residue size and step factor are        *)
(* chosen so that one step is one lattice unit).  The bundle of unit       *)
(* vectors handed to the random walk is the six lattice directions, so a   *)
(* draw is the choice of an index into the (shrinking) bundle, and the new *)
(* position is  (pos[prev] + direction) mod L  - exactly what              *)
(* _take_step / pbc_complete compute.  A draw is accepted iff no           *)
(* positioned residue sits on the target site (on the lattice every other  *)
(* soft-sphere force is far below the limit; the harness monitor           *)
(* recomputes it).  A start point is a random grid point, accepted iff     *)
(* free.  A placement whose draws are all rejected abandons the attempt    *)
(* (rewind depth larger than the chain): the molecule is removed and       *)
(* started again.                                                          *)
(***************************************************************************)
EXTENDS Integers, Sequences, FiniteSets, TLC, SequencesExt

CONSTANTS L,          \* box edge in lattice units
          Chains,     \* Seq of chain lengths (molecule m has residues 1..Chains[m])
          Closed,     \* molecules that are rings: residue Chains[m] is also bonded to residue 1 (grown in the same order)
          Grid,       \* set of start points (lattice points)
          Bundle,     \* Seq of direction ids 1..6: the vector bundle given to update_positions
          MaxIter,    \* RandomWalk.maxiter: a placement gives up at the (MaxIter+1)-th rejected draw
          MaxReject,  \* model bound on the total number of rejected draws / starts in a behaviour (negative: no bound, `rejects` frozen)
          Dev
VARIABLES pos, mol, k, bundle, draws, rejects, pc, last
vars == <<pos, mol, k, bundle, draws, rejects, pc, last>>

None == <<-1, -1, -1>>
Dir == << <<1,0,0>>, <<-1,0,0>>, <<0,1,0>>, <<0,-1,0>>, <<0,0,1>>, <<0,0,-1>> >>
NMol == Len(Chains)
Mod(a, m) == ((a % m) + m) % m
Wrap(p) == IF Dev.noWrap THEN p ELSE <<Mod(p[1], L), Mod(p[2], L), Mod(p[3], L)>>
StepFrom(p, d) == Wrap(<<p[1] + Dir[d][1], p[2] + Dir[d][2], p[3] + Dir[d][3]>>)
AllRes == UNION {{<<m, i>> : i \in 1..Chains[m]} : m \in 1..NMol}
Sites == { pos[mi[1]][mi[2]] : mi \in AllRes } \ {None}
\* a site is free iff NO positioned residue sits on it - bonded neighbours included (the ring-closing residue of a
\* 3-ring can step back onto residue 1; Dev.neighboursExempt models a test that skips excluded neighbours)
NeighbourSites == IF Dev.neighboursExempt /\ pc = "grow" /\ mol \in Closed /\ k = Chains[mol] THEN {pos[mol][1]} ELSE {}
Free(p) == Dev.noOverlapTest \/ Wrap(p) \notin ({ Wrap(q) : q \in Sites } \ NeighbourSites)
DropAt(s, i) == SubSeq(s, 1, i - 1) \o SubSeq(s, i + 1, Len(s))

Init == /\ pos = [m \in 1..NMol |-> [i \in 1..Chains[m] |-> None]]
        /\ mol = 1 /\ k = 1 /\ bundle = Bundle /\ draws = 0 /\ rejects = 0 /\ pc = "start" /\ last = [ev |-> "init"]

CanReject == MaxReject < 0 \/ rejects < MaxReject
BumpRejects == IF MaxReject < 0 THEN rejects ELSE rejects + 1
\* _handle_random_walk draws a grid point; _random_walk accepts it iff the root does not overlap
StartOk(g) == /\ pc = "start" /\ mol <= NMol /\ Free(g)
              /\ pos' = [pos EXCEPT ![mol][1] = g]
              /\ k' = 2 /\ bundle' = Bundle /\ draws' = 0
              /\ pc' = IF Chains[mol] = 1 THEN "accept" ELSE "grow"
              /\ last' = [ev |-> "start", m |-> mol, g |-> g, ok |-> TRUE]
              /\ UNCHANGED <<mol, rejects>>
StartRejected(g) == /\ pc = "start" /\ mol <= NMol /\ ~Free(g) /\ CanReject
                    /\ rejects' = BumpRejects /\ pc' = "abandon"
                    /\ last' = [ev |-> "start", m |-> mol, g |-> g, ok |-> FALSE]
                    /\ UNCHANGED <<pos, mol, k, bundle, draws>>
\* one draw of update_positions: index i into the current bundle
Target(i) == StepFrom(pos[mol][k - 1], bundle[i])
DrawAccept(i) == /\ pc = "grow" /\ i \in 1..Len(bundle) /\ Free(Target(i))
                 /\ pos' = [pos EXCEPT ![mol][k] = Target(i)]
                 /\ k' = k + 1 /\ bundle' = Bundle /\ draws' = 0
                 /\ pc' = IF k = Chains[mol] THEN "accept" ELSE "grow"
                 /\ last' = [ev |-> "draw", m |-> mol, r |-> k, i |-> i, to |-> Target(i), ok |-> TRUE]
                 /\ UNCHANGED <<mol, rejects>>
DrawReject(i) == /\ pc = "grow" /\ i \in 1..Len(bundle) /\ ~Free(Target(i)) /\ CanReject
                 /\ rejects' = BumpRejects
                 /\ last' = [ev |-> "draw", m |-> mol, r |-> k, i |-> i, to |-> Target(i), ok |-> FALSE]
                 /\ IF draws = MaxIter
                    THEN /\ pc' = "abandon" /\ UNCHANGED <<bundle, draws>>
                    ELSE /\ bundle' = DropAt(bundle, i) /\ draws' = draws + 1 /\ pc' = "grow"
                 /\ UNCHANGED <<pos, mol, k>>
\* the attempt is abandoned: everything built for this molecule is removed, a new start is drawn
Abandon == /\ pc = "abandon"
           /\ pos' = [pos EXCEPT ![mol] = [i \in 1..Chains[mol] |-> None]]
           /\ k' = 1 /\ bundle' = Bundle /\ draws' = 0 /\ pc' = "start"
           /\ last' = [ev |-> "abandon", m |-> mol]
           /\ UNCHANGED <<mol, rejects>>
Accept == /\ pc = "accept"
          /\ mol' = mol + 1 /\ k' = 1 /\ pc' = IF mol = NMol THEN "done" ELSE "start"
          /\ last' = [ev |-> "accept", m |-> mol]
          /\ UNCHANGED <<pos, bundle, draws, rejects>>
Next == \/ \E g \in Grid : StartOk(g) \/ StartRejected(g)
        \/ \E i \in 1..Len(Bundle) : DrawAccept(i) \/ DrawReject(i)
        \/ Abandon \/ Accept
Spec == Init /\ [][Next]_vars

(* ------------------------------ P-layer ------------------------------ *)
D1(a, b) == LET d == Mod(a - b, L) IN IF d < L - d THEN d ELSE L - d
D2(p, q) == D1(p[1], q[1]) * D1(p[1], q[1]) + D1(p[2], q[2]) * D1(p[2], q[2]) + D1(p[3], q[3]) * D1(p[3], q[3])
Placed(m, i) == pos[m][i] # None
\* exactly one step (minimum image) from the residue it was grown from
StepOne == \A mi \in AllRes : (mi[2] > 1 /\ Placed(mi[1], mi[2]) /\ Placed(mi[1], mi[2] - 1)) => D2(pos[mi[1]][mi[2]], pos[mi[1]][mi[2] - 1]) = 1
\* inside the periodic box
InBox == \A mi \in AllRes : Placed(mi[1], mi[2]) => \A c \in 1..3 : pos[mi[1]][mi[2]][c] \in 0..(L - 1)
\* never on the site of another positioned residue (closer than 0.1 nm)
NoOverlap == \A a, b \in AllRes : (a # b /\ Placed(a[1], a[2]) /\ Placed(b[1], b[2])) => D2(pos[a[1]][a[2]], pos[b[1]][b[2]]) > 0
\* the first residue of a molecule without coordinates sits on a grid point
RootOnGrid == \A m \in 1..NMol : Placed(m, 1) => pos[m][1] \in Grid
\* residues are grown in order from a positioned predecessor
Contiguous == \A mi \in AllRes : (mi[2] > 1 /\ Placed(mi[1], mi[2])) => Placed(mi[1], mi[2] - 1)
Final == pc = "done" => \A mi \in AllRes : Placed(mi[1], mi[2])
=============================================================================
