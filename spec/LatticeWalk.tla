---------------------------- MODULE LatticeWalk ----------------------------
(***************************************************************************)
(* C05 - geometry of the placement, exact lattice instance.                *)
(*                                                                         *)
(* Molecules are grown in a periodic cubic box of L x L x L lattice        *)
(* sites (spacing h = step length: residue size and step factor are        *)
(* chosen so that one step is one lattice unit).  The bundle of unit       *)
(* vectors handed to the random walk is the six lattice directions, so a   *)
(* draw is the choice of an index into the (shrinking) bundle, and the new *)
(* position is  (pos[parent] + direction) mod L  - exactly what            *)
(* _take_step / pbc_complete compute.  A start point is a random grid      *)
(* point.  A placement whose draws are all rejected abandons the attempt   *)
(* (rewind depth larger than the chain): the molecule is removed and       *)
(* started again.                                                          *)
(*                                                                         *)
(* Acceptance.  Force = FALSE: residue size = h, step factor 1; a point is *)
(* accepted iff no positioned residue sits on the target site (every       *)
(* soft-sphere force on the lattice is far below the limit; the harness    *)
(* monitor recomputes it).  Force = TRUE: residue size = 2h, step factor   *)
(* 1/2, force limit 4e4, L odd: the force criterion is decided exactly on  *)
(* the lattice too - see ForceOK.                                          *)
(*                                                                         *)
(* History.  One process builds the systems History[1], History[2], ...    *)
(* one after the other (library use, a parameter scan, a test session).    *)
(* A molecule is named by its index ("C1", "C2", ...) in every system, but *)
(* its residue graph (chain / ring / star), its length and the number of   *)
(* molecules are those of the system being built.  `memo` is what the      *)
(* process remembers from one build to the next (which system a molecule   *)
(* name was first seen in).  The design does not read it: acceptance is a  *)
(* function of the current system and the current positions only           *)
(* (ForceWithinLimit, NoOverlap are stated over the current system).       *)
(* Dev.staleNeighbours reads it.                                           *)
(***************************************************************************)
EXTENDS Integers, Sequences, FiniteSets, TLC, SequencesExt

CONSTANTS L,          \* box edge in lattice units
          History,    \* Seq of systems built in one process; a system is [chains |-> Seq of lengths (molecule m has residues 1..chains[m]),
                      \*   closed |-> molecules that are rings (residue chains[m] is also bonded to residue 1, grown in the same order),
                      \*   stars |-> molecules whose residues 2.. are all bonded to (and grown from) residue 1]
          Grid,       \* set of start points (lattice points)
          Bundle,     \* Seq of direction ids 1..6: the vector bundle given to update_positions
          MaxIter,    \* RandomWalk.maxiter: a placement gives up at the (MaxIter+1)-th rejected draw
          MaxReject,  \* model bound on the total number of rejected draws / starts in a behaviour (negative: no bound, `rejects` frozen)
          Force,      \* TRUE: residue size two lattice units, step factor 1/2: the force criterion decides on the lattice
          Dev
VARIABLES pos, mol, k, bundle, draws, rejects, pc, last,
          build,      \* index of the system being built
          memo        \* molecule name -> index of the first system in which a molecule of that name was started (0: never)
vars == <<pos, mol, k, bundle, draws, rejects, pc, last, build, memo>>

ASSUME Force => L = 3          \* odd box edge (the minimum image of every lattice offset is unique) and no offsets beyond d2 = 3 (see ForceOK)

None == <<-1, -1, -1>>
Dir == << <<1,0,0>>, <<-1,0,0>>, <<0,1,0>>, <<0,-1,0>>, <<0,0,1>>, <<0,0,-1>> >>
NBuilds == Len(History)
Sys == History[build]
Chains == Sys.chains
Closed == Sys.closed
Stars == Sys.stars
NMol == Len(Chains)
Names == 1..(CHOOSE n \in {Len(History[b].chains) : b \in 1..NBuilds} : \A b \in 1..NBuilds : Len(History[b].chains) <= n)
Mod(a, m) == ((a % m) + m) % m
Wrap(p) == IF Dev.noWrap THEN p ELSE <<Mod(p[1], L), Mod(p[2], L), Mod(p[3], L)>>
StepFrom(p, d) == Wrap(<<p[1] + Dir[d][1], p[2] + Dir[d][2], p[3] + Dir[d][3]>>)
AllRes == UNION {{<<m, i>> : i \in 1..Chains[m]} : m \in 1..NMol}
Placed(m, i) == pos[m][i] # None
Sites == { pos[mi[1]][mi[2]] : mi \in AllRes } \ {None}
\* the residue a residue is grown from
Parent(m, i) == IF m \in Stars THEN 1 ELSE i - 1
\* residue graph of molecule m in system s: the residues bonded to residue i
BondedIn(s, m, i) == LET n == s.chains[m] IN
    { j \in 1..n : j # i /\ IF m \in s.stars THEN (i = 1 \/ j = 1)
                            ELSE (j = i + 1 \/ j = i - 1 \/ (m \in s.closed /\ n > 2 /\ {i, j} = {1, n})) }
Bonded(m, i) == BondedIn(Sys, m, i)
\* the residues left out of the force sum for residue (m, i): its neighbours in the residue graph of the CURRENT system.
\* Dev.staleNeighbours: the neighbour table remembered for the molecule name from the first system that had such a molecule
Excluded(m, i) == IF Dev.staleNeighbours /\ memo[m] # 0 /\ i <= History[memo[m]].chains[m]
                  THEN BondedIn(History[memo[m]], m, i) \cap (1..Chains[m])
                  ELSE Bonded(m, i)
\* a site is free iff NO positioned residue sits on it - bonded neighbours included (the ring-closing residue of a
\* 3-ring can step back onto residue 1; Dev.neighboursExempt models a test that skips excluded neighbours)
NeighbourSites == IF Dev.neighboursExempt /\ pc = "grow" /\ mol \in Closed /\ k = Chains[mol] THEN {pos[mol][1]} ELSE {}
Free(p) == Dev.noOverlapTest \/ Wrap(p) \notin ({ Wrap(q) : q \in Sites } \ NeighbourSites)
DropAt(s, i) == SubSeq(s, 1, i - 1) \o SubSeq(s, i + 1, Len(s))

(* ---- the force criterion on the lattice (Force = TRUE) ----                                                         *)
(* With residue size sigma = 2h, epsilon = 1 and h = 0.5 nm the 12-6 force between two residues at lattice offset o    *)
(* (d2 = o.o) has the components  24 (2 (4/d2)^6 - (4/d2)^3) 2 o_c / d2 :  390144 o_c for d2 = 1, 2880 o_c for d2 = 2, *)
(* 141.87 o_c for d2 = 3 (no other offsets exist for L = 3; the cut-off 2 sigma covers the whole box).  At most four   *)
(* sites of each of the classes d2 = 2, 3 lie on one side of an axis.  With the limit 4e4:  one unbalanced residue at  *)
(* d2 = 1 gives a component above the limit whatever else is there, and without one the norm stays below it:           *)
\* the four numbers divided by 8 (FC rounded up)
FA == 48768
FB == 360
FC == 18
FLimit == 5000
ASSUME FA - 4 * FB - 4 * FC > FLimit /\ 3 * (4 * FB + 4 * FC) * (4 * FB + 4 * FC) < FLimit * FLimit
Cen(d) == LET r == Mod(d, L) IN IF 2 * r > L THEN r - L ELSE r
Off(p, q) == <<Cen(q[1] - p[1]), Cen(q[2] - p[2]), Cen(q[3] - p[3])>>
Unit(c, s) == [x \in 1..3 |-> IF x = c THEN s ELSE 0]
\* positioned residues other than (m, i) that are not in the set ex of residues of the same molecule
Others(m, i, ex) == { b \in AllRes : Placed(b[1], b[2]) /\ b # <<m, i>> /\ ~(b[1] = m /\ b[2] \in ex) }
\* the force on a residue at p from the residues in S is within the limit iff on every axis the adjacent sites on the two sides
\* hold equally many of them
Balanced(p, S) == \A c \in 1..3 : Cardinality({ b \in S : Off(p, pos[b[1]][b[2]]) = Unit(c, 1) })
                                = Cardinality({ b \in S : Off(p, pos[b[1]][b[2]]) = Unit(c, -1) })
ForceOK(p, m, i) == (~Force) \/ Dev.noForceTest \/ Balanced(Wrap(p), Others(m, i, Excluded(m, i)))
Acceptable(p, m, i) == Free(p) /\ ForceOK(p, m, i)

FreshPos(b) == [m \in 1..Len(History[b].chains) |-> [i \in 1..History[b].chains[m] |-> None]]
Init == /\ build = 1 /\ memo = [n \in Names |-> 0]
        /\ pos = FreshPos(1)
        /\ mol = 1 /\ k = 1 /\ bundle = Bundle /\ draws = 0 /\ rejects = 0 /\ pc = "start" /\ last = [ev |-> "init"]

CanReject == MaxReject < 0 \/ rejects < MaxReject
BumpRejects == IF MaxReject < 0 THEN rejects ELSE rejects + 1
Remember == memo' = IF memo[mol] = 0 THEN [memo EXCEPT ![mol] = build] ELSE memo
\* _handle_random_walk draws a grid point; _random_walk accepts it iff the root does not overlap
StartOk(g) == /\ pc = "start" /\ mol <= NMol /\ Acceptable(g, mol, 1)
              /\ pos' = [pos EXCEPT ![mol][1] = g]
              /\ k' = 2 /\ bundle' = Bundle /\ draws' = 0
              /\ pc' = IF Chains[mol] = 1 THEN "accept" ELSE "grow"
              /\ last' = [ev |-> "start", m |-> mol, g |-> g, ok |-> TRUE]
              /\ Remember
              /\ UNCHANGED <<mol, rejects, build>>
StartRejected(g) == /\ pc = "start" /\ mol <= NMol /\ ~Acceptable(g, mol, 1) /\ CanReject
                    /\ rejects' = BumpRejects /\ pc' = "abandon"
                    /\ last' = [ev |-> "start", m |-> mol, g |-> g, ok |-> FALSE]
                    /\ Remember
                    /\ UNCHANGED <<pos, mol, k, bundle, draws, build>>
\* one draw of update_positions: index i into the current bundle
Target(i) == StepFrom(pos[mol][Parent(mol, k)], bundle[i])
DrawAccept(i) == /\ pc = "grow" /\ i \in 1..Len(bundle) /\ Acceptable(Target(i), mol, k)
                 /\ pos' = [pos EXCEPT ![mol][k] = Target(i)]
                 /\ k' = k + 1 /\ bundle' = Bundle /\ draws' = 0
                 /\ pc' = IF k = Chains[mol] THEN "accept" ELSE "grow"
                 /\ last' = [ev |-> "draw", m |-> mol, r |-> k, i |-> i, to |-> Target(i), ok |-> TRUE]
                 /\ UNCHANGED <<mol, rejects, build, memo>>
DrawReject(i) == /\ pc = "grow" /\ i \in 1..Len(bundle) /\ ~Acceptable(Target(i), mol, k) /\ CanReject
                 /\ rejects' = BumpRejects
                 /\ last' = [ev |-> "draw", m |-> mol, r |-> k, i |-> i, to |-> Target(i), ok |-> FALSE]
                 /\ IF draws = MaxIter
                    THEN /\ pc' = "abandon" /\ UNCHANGED <<bundle, draws>>
                    ELSE /\ bundle' = DropAt(bundle, i) /\ draws' = draws + 1 /\ pc' = "grow"
                 /\ UNCHANGED <<pos, mol, k, build, memo>>
\* the attempt is abandoned: everything built for this molecule is removed, a new start is drawn
Abandon == /\ pc = "abandon"
           /\ pos' = [pos EXCEPT ![mol] = [i \in 1..Chains[mol] |-> None]]
           /\ k' = 1 /\ bundle' = Bundle /\ draws' = 0 /\ pc' = "start"
           /\ last' = [ev |-> "abandon", m |-> mol]
           /\ UNCHANGED <<mol, rejects, build, memo>>
Accept == /\ pc = "accept"
          /\ mol' = mol + 1 /\ k' = 1 /\ pc' = IF mol = NMol THEN (IF build = NBuilds THEN "done" ELSE "built") ELSE "start"
          /\ last' = [ev |-> "accept", m |-> mol]
          /\ UNCHANGED <<pos, bundle, draws, rejects, build, memo>>
\* the next system of the history: a new topology, a new engine, nothing positioned; the process (memo) lives on
NextBuild == /\ pc = "built"
             /\ build' = build + 1 /\ pos' = FreshPos(build + 1)
             /\ mol' = 1 /\ k' = 1 /\ bundle' = Bundle /\ draws' = 0 /\ pc' = "start"
             /\ last' = [ev |-> "build", b |-> build + 1]
             /\ UNCHANGED <<rejects, memo>>
Next == \/ \E g \in Grid : StartOk(g) \/ StartRejected(g)
        \/ \E i \in 1..Len(Bundle) : DrawAccept(i) \/ DrawReject(i)
        \/ Abandon \/ Accept \/ NextBuild
Spec == Init /\ [][Next]_vars

(* ------------------------------ P-layer ------------------------------ *)
(* every law is stated over the system being built and the positions in it *)
D1(a, b) == LET d == Mod(a - b, L) IN IF d < L - d THEN d ELSE L - d
D2(p, q) == D1(p[1], q[1]) * D1(p[1], q[1]) + D1(p[2], q[2]) * D1(p[2], q[2]) + D1(p[3], q[3]) * D1(p[3], q[3])
\* exactly one step (minimum image) from the residue it was grown from
StepOne == \A mi \in AllRes : (mi[2] > 1 /\ Placed(mi[1], mi[2]) /\ Placed(mi[1], Parent(mi[1], mi[2])))
                                 => D2(pos[mi[1]][mi[2]], pos[mi[1]][Parent(mi[1], mi[2])]) = 1
\* inside the periodic box
InBox == \A mi \in AllRes : Placed(mi[1], mi[2]) => \A c \in 1..3 : pos[mi[1]][mi[2]][c] \in 0..(L - 1)
\* never on the site of another positioned residue (closer than 0.1 nm)
NoOverlap == \A a, b \in AllRes : (a # b /\ Placed(a[1], a[2]) /\ Placed(b[1], b[2])) => D2(pos[a[1]][a[2]], pos[b[1]][b[2]]) > 0
\* the first residue of a molecule without coordinates sits on a grid point
RootOnGrid == \A m \in 1..NMol : Placed(m, 1) => pos[m][1] \in Grid
\* residues are grown in order from a positioned predecessor
Contiguous == \A mi \in AllRes : (mi[2] > 1 /\ Placed(mi[1], mi[2])) => Placed(mi[1], Parent(mi[1], mi[2]))
Final == pc \in {"done", "built"} => \A mi \in AllRes : Placed(mi[1], mi[2])
\* none is accepted while the force on it from the positioned non-neighbours exceeds the limit: evaluated in the state right after
\* the acceptance, with the neighbours of the residue graph of the system being built - whatever was built before in this process
ForceWithinLimit == (Force /\ last.ev \in {"start", "draw"} /\ last.ok) =>
                       LET i == IF last.ev = "start" THEN 1 ELSE last.r
                       IN Balanced(pos[last.m][i], Others(last.m, i, Bonded(last.m, i)))
=============================================================================
