SPECIFICATION Spec
CONSTANT DevBfs = TRUE
INVARIANT WindowLaws
INVARIANT RingLaw
CHECK_DEADLOCK FALSE
