SPECIFICATION Spec
CONSTANT DevBfs = TRUE
CONSTANT DevSel = "none"
CONSTANT DevImg = "none"
INVARIANT WindowLaws
INVARIANT RingLaw
CHECK_DEADLOCK FALSE
