SPECIFICATION Spec
CONSTANTS
 Inputs <- MCInputs
 Dev <- NoDev
INVARIANT Reach_Frag2
CHECK_DEADLOCK FALSE
