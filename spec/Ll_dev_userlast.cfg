SPECIFICATION Spec
CONSTANTS
 Configs <- MCFFListing
 DevUserLast = TRUE
 DevFirstWins = FALSE
 DevBibMerge = FALSE
 DevSplitAll = FALSE
 DevTmplMerge = FALSE
 DevSkipUserUnknown = FALSE
 DevIdReuse = FALSE
INVARIANT StoreIsDeclarative
CHECK_DEADLOCK FALSE
