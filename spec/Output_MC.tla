---------------------------- MODULE Output_MC ----------------------------
(* instances of Output: the three programs without and with their optional stages, every crash point,      *)
(* 20 initial directories: target absent/present x every subset of the backups #.1# #.2# #.3# (incl. the   *)
(* non-contiguous {2}, {3}, {1,3}, {2,3}), and the output path being a symbolic link to a regular file      *)
(* with backups {}, {1}, {2}, {1,3}                                                                          *)
EXTENDS Output
MCBase == { [prog |-> "gen_params", on |-> {}], [prog |-> "gen_params", on |-> {"dsdna"}],
            [prog |-> "gen_coords", on |-> {}], [prog |-> "gen_coords", on |-> {"split", "coords", "grid"}],
            [prog |-> "gen_seq", on |-> {}],    [prog |-> "gen_seq", on |-> {"macro_file"}] }
MCRoutes == {"plain", "symdir", "dots", "abs"}
\* the output path occupied by an input of the run: gen_coords -c == -o, gen_params -f == -o (same spelling, via a symbolic
\* link, via ./sub/../name); plain route only
MCInoutBase == { [prog |-> "gen_params", on |-> {}], [prog |-> "gen_coords", on |-> {"split", "coords", "grid"}] }
MCVariants == { [prog |-> b.prog, on |-> b.on, route |-> r, inout |-> "no", dev |-> "same", env |-> "stable"] : b \in MCBase, r \in MCRoutes }
              \cup { [prog |-> b.prog, on |-> b.on, route |-> "plain", inout |-> k, dev |-> "same", env |-> "stable"] : b \in MCInoutBase, k \in {"same", "link", "dots"} }
              \cup { [prog |-> b.prog, on |-> b.on, route |-> "plain", inout |-> "no", dev |-> "cross", env |-> "stable"] : b \in MCBase }
              \* one environment fault while the process is alive (staging directory removed / takes no new files, output
              \* directory takes no new entries), no injected exception
              \cup { [prog |-> b.prog, on |-> b.on, route |-> "plain", inout |-> "no", dev |-> "same", env |-> "faulty"] : b \in MCBase }
\* environment faults: fresh output, existing output, existing output + backup #.1#, output path is a symbolic link
MCEnvInits == { [out |-> FALSE, bk |-> {}, link |-> FALSE], [out |-> TRUE, bk |-> {}, link |-> FALSE],
                [out |-> TRUE, bk |-> {1}, link |-> FALSE], [out |-> TRUE, bk |-> {}, link |-> TRUE] }
\* temp directory on another file system: fresh output, existing output, existing output + backup #.2#
MCDevInits == { [out |-> FALSE, bk |-> {}, link |-> FALSE], [out |-> TRUE, bk |-> {}, link |-> FALSE],
                [out |-> TRUE, bk |-> {2}, link |-> FALSE] }
MCInoutInits == { [out |-> TRUE, bk |-> {}, link |-> FALSE], [out |-> TRUE, bk |-> {1}, link |-> FALSE],
                  [out |-> TRUE, bk |-> {2}, link |-> FALSE] }
\* non-plain spellings of the output path: fresh output, existing output, existing output + one backup
MCRouteInits == { [out |-> FALSE, bk |-> {}, link |-> FALSE], [out |-> TRUE, bk |-> {}, link |-> FALSE],
                  [out |-> TRUE, bk |-> {1}, link |-> FALSE] }
MCInits == [out : BOOLEAN, bk : SUBSET {1, 2, 3}, link : {FALSE}]
           \cup [out : {TRUE}, bk : {{}, {1}, {2}, {1, 3}}, link : {TRUE}]
\* sensitivity: the deviation DevMoveBeforeClose must NOT refute SuccessState when everything is on one file system
MCSameDev == {v \in MCVariants : v.dev = "same"}
MCTargets1 == {"out"}
MCNone == {}
(* history extension: deferred-writer programs, first run fails (mostly inside serialisation), second run in the same process *)
HVariants == { [prog |-> "gen_params", on |-> {}, route |-> "plain", inout |-> "no", dev |-> "same", env |-> "stable"],
               [prog |-> "gen_coords", on |-> {}, route |-> "plain", inout |-> "no", dev |-> "same", env |-> "stable"] }
HInits == { [out |-> FALSE, bk |-> {}, link |-> FALSE], [out |-> TRUE, bk |-> {}, link |-> FALSE],
            [out |-> TRUE, bk |-> {1}, link |-> FALSE] }
HCrash1 == { [stage |-> "links", when |-> "before"], [stage |-> "backmap", when |-> "after"],
             [stage |-> "open", when |-> "after"], [stage |-> "write", when |-> "mid"],
             [stage |-> "write", when |-> "after"], [stage |-> "flush", when |-> "before"] }
HCrash2 == { [stage |-> "write", when |-> "mid"], [stage |-> "flush", when |-> "before"] }
HTargets2 == {"out", "out2"}
HSame == {"out"}
=============================================================================
