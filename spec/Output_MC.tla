---------------------------- MODULE Output_MC ----------------------------
(* instances of Output: the three programs without and with their optional stages, every crash point,      *)
(* 8 initial directories (target absent/present x backups #.1# / #.2# absent/present)                      *)
EXTENDS Output
MCVariants == { [prog |-> "gen_params", on |-> {}], [prog |-> "gen_params", on |-> {"dsdna"}],
                [prog |-> "gen_coords", on |-> {}], [prog |-> "gen_coords", on |-> {"split", "coords", "grid"}],
                [prog |-> "gen_seq", on |-> {}],    [prog |-> "gen_seq", on |-> {"macro_file"}] }
MCInits == [out : BOOLEAN, bk : SUBSET {1, 2}]
MCTargets1 == {"out"}
MCNone == {}
(* history extension: deferred-writer programs, first run fails (mostly inside serialisation), second run in the same process *)
HVariants == { [prog |-> "gen_params", on |-> {}], [prog |-> "gen_coords", on |-> {}] }
HInits == { [out |-> FALSE, bk |-> {}], [out |-> TRUE, bk |-> {}], [out |-> TRUE, bk |-> {1}] }
HCrash1 == { [stage |-> "links", when |-> "before"], [stage |-> "backmap", when |-> "after"],
             [stage |-> "open", when |-> "after"], [stage |-> "write", when |-> "mid"],
             [stage |-> "write", when |-> "after"], [stage |-> "flush", when |-> "before"] }
HCrash2 == { [stage |-> "write", when |-> "mid"], [stage |-> "flush", when |-> "before"] }
HTargets2 == {"out", "out2"}
HSame == {"out"}
=============================================================================
