---------------------------- MODULE LinksTrace ----------------------------
(* I->S for C02 / C10: records made from runs of the real MapToMolecule + ApplyLinks (+ find_missing_edges) on inputs beyond   *)
(* the exhaustive bound (seeded random force fields and residue graphs, force fields of the repository).  One record =         *)
(*   input  : the case (residues, residue graph, blocks, links) as projected from the real objects                             *)
(*   obs    : what the code did - every attempt (link, residues, outcome) seen by the wrappers around _check_relative_order    *)
(*            and ApplyLinks.apply_link_between_residues, the final interactions / edges / attributes / removed atoms and the  *)
(*            residue pairs reported by find_missing_edges                                                                     *)
(* TLC evaluates the P-layer of Links on the input and requires every observed field to equal it.  Records outside the stated   *)
(* domain (ties, link atoms without residue name, links whose own effects change their own vetoes) are counted as skipped.       *)
EXTENDS Links, Json, IOUtils
VARIABLES tid
Doc == JsonDeserialize(IOEnv.TRACE_FILE)
Traces == Doc.traces
ASSUME TLCSet(1, {}) /\ TLCSet(2, {}) /\ TLCSet(3, {})      \* accepted, skipped (out of domain), rejected <<tid, reason>>

ObsInts(o) == { [kind |-> o.ints[j].kind, atoms |-> o.ints[j].atoms, ver |-> o.ints[j].ver, par |-> o.ints[j].par] : j \in DOMAIN o.ints }
ObsEdges(o) == { ToSet(o.edges[j]) : j \in DOMAIN o.edges }
ObsCalls(o) == { [li |-> o.calls[j].li, phi |-> o.calls[j].phi, out |-> o.calls[j].out] : j \in DOMAIN o.calls }
ObsMissing(o) == { ToSet(o.missing[j]) : j \in DOMAIN o.missing }
AttrAgrees(o, f) == \A at \in DOMAIN f.attr : \E j \in DOMAIN o.attr :
                       /\ o.attr[j].at = at
                       /\ \A k \in DOMAIN f.attr[at] : k \in DOMAIN o.attr[j].attrs /\ o.attr[j].attrs[k] = f.attr[at][k]
\* first failing component, "" if the record agrees with the P-layer; "known-verkey" if it agrees except that the interactions are
\* those of finding F17, repaired (write-back confuses version numbers with node keys of removed atoms); the driver reports it as a violation
Why(c, o) == LET e == PEnd(c)
                 f == PFinalE(c, e)
                 nodup == Len(o.ints) = Cardinality(ObsInts(o)) IN
   IF o.exception # "" THEN "exception"
   ELSE IF ObsCalls(o) # f.calls \/ Len(o.calls) # Cardinality(f.calls) THEN "calls"
   ELSE IF ObsEdges(o) # f.edges THEN "edges"
   ELSE IF ToSet(o.removed) # f.removed THEN "removed"
   ELSE IF ~AttrAgrees(o, f) THEN "attributes"
   ELSE IF ObsMissing(o) # Missing(c, f.edges) \/ Len(o.missing) # Cardinality(Missing(c, f.edges)) THEN "missing"
   ELSE IF "missing0" \in DOMAIN o /\ { ToSet(o.missing0[j]) : j \in DOMAIN o.missing0 } # Missing(c, BlockEdges(c)) THEN "missing0"
   ELSE IF ObsInts(o) = f.ints /\ nodup THEN ""
   ELSE IF ObsInts(o) = StripLi(PIntsW(c, e.app, TRUE)) \cup XInts(c) /\ nodup THEN "known-verkey"
   ELSE "interactions"
\* what differs, for the report of a rejected record
Detail(c, o) == LET f == PFinal(c) IN
   [ints_expected_not_observed |-> SetToSeq(f.ints \ ObsInts(o)), ints_observed_not_expected |-> SetToSeq(ObsInts(o) \ f.ints),
    calls_expected_not_observed |-> SetToSeq(f.calls \ ObsCalls(o)), calls_observed_not_expected |-> SetToSeq(ObsCalls(o) \ f.calls),
    edges_expected_not_observed |-> SetToSeq({SetToSeq(e) : e \in f.edges \ ObsEdges(o)}), edges_observed_not_expected |-> SetToSeq({SetToSeq(e) : e \in ObsEdges(o) \ f.edges}),
    missing_expected |-> SetToSeq({SetToSeq(e) : e \in Missing(c, f.edges)})]
Verdict(t) == LET c == Traces[t].input IN
   IF ~(InDomain(c) /\ NoTies(c) /\ Stable(c)) THEN "skip" ELSE Why(c, Traces[t].obs)

TInit == /\ tid \in 1..Len(Traces)
         /\ case = Traces[tid].input
         /\ st = [pc |-> "trace"]
TSpec == TInit /\ [][UNCHANGED <<vars, tid>>]_<<vars, tid>>
Judge == LET v == Verdict(tid) IN
           IF v = "" THEN TLCSet(1, TLCGet(1) \cup {tid})
           ELSE IF v = "skip" THEN TLCSet(2, TLCGet(2) \cup {tid})
           ELSE /\ TLCSet(3, TLCGet(3) \cup {<<tid, v>>})
                /\ PrintT(<<"DETAIL", ToJson([tid |-> tid, why |-> v, detail |-> Detail(Traces[tid].input, Traces[tid].obs)])>>)
Accepted == /\ PrintT(<<"SKIPPED", ToJson(SetToSeq(TLCGet(2)))>>)
            /\ IF TLCGet(3) = {} /\ TLCGet(1) \cup TLCGet(2) = 1..Len(Traces) THEN TRUE
               ELSE (PrintT(<<"REJECTED", ToJson(SetToSeq(TLCGet(3)))>>) /\ FALSE)
=============================================================================
