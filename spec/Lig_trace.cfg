SPECIFICATION TSpec
CONSTANTS
 Types <- TTypes
 DevOn <- TDev
INVARIANT TypeOK
INVARIANT I_ErrLaw
INVARIANT ErrLawAsIs
INVARIANT AttachLaw
INVARIANT AnnotateOnlyAdds
INVARIANT Restored
INVARIANT HandBack
INVARIANT Untouched
INVARIANT I_NearFinalAnchor
INVARIANT OutputLaw
INVARIANT I_NoCrash
INVARIANT Mark
INVARIANT Prog
POSTCONDITION Accepted
CHECK_DEADLOCK FALSE
