INIT MCInitTiny
NEXT Next
CONSTANTS
 Inputs = {}
 LibOf <- MCLibOf
 Dev <- NoDev
 FreeOrder = TRUE
INVARIANT ExpIdempotent
CHECK_DEADLOCK FALSE
