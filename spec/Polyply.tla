------------------------------ MODULE Polyply ------------------------------
(***************************************************************************)
(* X01 - composition of the three polyply programs (extension beyond the   *)
(* 20 listed properties).                                                  *)
(*                                                                         *)
(* gen_seq | gen_params | gen_coords are modelled as pipelines of stages   *)
(* (stage vocabulary of Output.tla / C20) that pass abstract data objects  *)
(* through files:                                                          *)
(*   residue graph  [n, ids, names, edges, labels]      (.json, -seq)      *)
(*   force field    [blocks, links]  + block library lib: name -> atoms    *)
(*   molecule       [atoms = <<resid, resname, atomname>>.., bonds between *)
(*                   residues]                           (.itp)            *)
(*   topology       molecule count                       (.top)            *)
(*   structure      <<resid, resname, atomname, finite>>..  (.gro)         *)
(*                                                                         *)
(* P-layer (what a user of the chain relies on, written over the user's    *)
(* input `case` only):                                                     *)
(*   E1  the residue graph gen_coords reconstructs from the .itp equals    *)
(*       (ids, names, edges) the graph the user specified when no link is  *)
(*       missing; in general its edges are exactly the realised ones       *)
(*   E2  the .gro lists natoms(molecule) x count atoms, molecule by        *)
(*       molecule, in residue order, with the residue names of the         *)
(*       sequence, every atom with a finite coordinate                     *)
(*   E3  stages complete in program order without gaps; nothing a later    *)
(*       stage produces exists before that stage; an output file is        *)
(*       complete only if every stage of its program completed; a program  *)
(*       whose input file is not complete writes nothing                   *)
(*   Gate a .gro exists only for molecules whose realised graph is         *)
(*       connected                                                         *)
(*   E4  gen_seq | gen_params -seqf | gen_coords gives the same .itp and   *)
(*       .gro as gen_params -seq <equivalent> | gen_coords                 *)
(*   Final the files after an undisturbed chain are the declarative        *)
(*       composition PFiles(case)                                          *)
(* I-layer: one action per stage event (Begin, StageOk, StageFail, End),   *)
(* in-memory objects per program, files, nondeterministic (injected)       *)
(* failure of any stage, natural failure exactly where a stage's           *)
(* precondition does not hold.                                             *)
(***************************************************************************)
EXTENDS Integers, Sequences, FiniteSets, TLC

CONSTANTS Cases,                 \* set of pipeline cases (records, see MC_Polyply); case.probe: injected failures are explored
          MaxFail,               \* injected failures per behaviour
          DevItpBeforeLinks,     \* deviation: gen_params serialises the molecule before links are applied
          DevGroBlockOrder,      \* deviation: the .gro lists the atoms of a molecule grouped by block name
          DevGateSkipped,        \* deviation: gen_coords has no connectivity gate
          DevJsonIdShift,        \* deviation: the json reader takes node id (from 0) as residue id
          DevContinueAfterFail   \* deviation: a failed stage is skipped, the program goes on

VARIABLES case,      \* the pipeline case of this behaviour (never changes)
          pi,        \* index of the current program in Chain(case)
          ph,        \* "idle" (not begun) | "run" | "failed"
          pc,        \* stages of the current program passed
          status,    \* "running" | "done"
          nfail,     \* injected failures so far
          failedAt,  \* program index -> stage that failed ("-" = none)
          done,      \* history: <<program index, stage>> of every completed stage
          last,      \* label of the last event
          mem,       \* in-memory objects of the current program
          files      \* file name -> [st, g, mol, atoms]
vars == <<case, pi, ph, pc, status, nfail, failedAt, done, last, mem, files>>

(* ------------------------------------------------------------------ *)
(* small helpers                                                      *)
(* ------------------------------------------------------------------ *)
RangeOf(s) == {s[i] : i \in 1..Len(s)}
RECURSIVE SortInts(_)
SortInts(S) == IF S = {} THEN <<>> ELSE LET m == CHOOSE x \in S : \A y \in S : x <= y IN <<m>> \o SortInts(S \ {m})
NormE(a, b) == IF a <= b THEN <<a, b>> ELSE <<b, a>>
IsPrefixOf(s, t) == Len(s) <= Len(t) /\ \A i \in 1..Len(s) : s[i] = t[i]

(* ------------------------------------------------------------------ *)
(* abstract objects                                                   *)
(* ------------------------------------------------------------------ *)
NoGraph == [n |-> 0, ids |-> <<>>, names |-> <<>>, edges |-> {}, labels |-> <<>>]
NoFF == [blocks |-> {}, links |-> {}]
NoMol == [atoms |-> <<>>, bonds |-> {}]
NoSer == [g |-> NoGraph, mol |-> NoMol, atoms |-> <<>>]
NoFile == [st |-> "absent", g |-> NoGraph, mol |-> NoMol, atoms |-> <<>>]
NoMem == [g |-> NoGraph, ffv |-> NoFF, mol |-> NoMol, miss |-> {}, tmpl |-> {}, ntop |-> 0, placed |-> 0, coords |-> 0, ser |-> NoSer]
FileNames == {"json", "itp", "gro", "itp2", "gro2"}

(* ------------------------------------------------------------------ *)
(* P-layer: what the inputs mean                                      *)
(* ------------------------------------------------------------------ *)
\* number of nodes of a balanced tree with branching factor b and l levels (b = 1: a path of l residues)
RECURSIVE TreeSize(_, _)
TreeSize(b, l) == IF l = 0 THEN 0 ELSE 1 + b * TreeSize(b, l - 1)
SizeOf(m) == TreeSize(m.bf, m.lv)
RECURSIVE OffsetOf(_, _)
OffsetOf(ms, k) == IF k <= 1 THEN 0 ELSE OffsetOf(ms, k - 1) + SizeOf(ms[k - 1])     \* residues before macro k
TotalOf(ms) == OffsetOf(ms, Len(ms) + 1)
BlockOf(ms, r) == CHOOSE k \in 1..Len(ms) : OffsetOf(ms, k) < r /\ r <= OffsetOf(ms, k) + SizeOf(ms[k])

\* gen_seq: disjoint union of the macros in sequence order (trees numbered breadth first), then the connects
\* <<i, j, a, b>> = residue a of the i-th entry with residue b of the j-th entry (all counted from 0)
SeqGraph(c) ==
  LET ms == c.macros
      N == TotalOf(ms)
      inner == UNION { { <<OffsetOf(ms, k) + ((j - 1) \div ms[k].bf) + 1, OffsetOf(ms, k) + j + 1>> : j \in 1..(SizeOf(ms[k]) - 1) }
                       : k \in 1..Len(ms) }
      conn == { NormE(OffsetOf(ms, x[1] + 1) + x[3] + 1, OffsetOf(ms, x[2] + 1) + x[4] + 1) : x \in RangeOf(c.connects) }
  IN [n |-> N, ids |-> [r \in 1..N |-> r], names |-> [r \in 1..N |-> ms[BlockOf(ms, r)].res],
      edges |-> inner \cup conn, labels |-> [r \in 1..N |-> IF c.tag = BlockOf(ms, r) THEN "R" ELSE "-"]]
\* gen_params -seq res:n res:n ... : a linear chain
LinGraph(c) ==
  LET ms == c.macros
      N == TotalOf(ms)
  IN [n |-> N, ids |-> [r \in 1..N |-> r], names |-> [r \in 1..N |-> ms[BlockOf(ms, r)].res],
      edges |-> {<<r, r + 1>> : r \in 1..(N - 1)}, labels |-> [r \in 1..N |-> "-"]]
UserGraphOf(c, which) == IF which = "lin" THEN LinGraph(c) ELSE SeqGraph(c)

\* a residue-graph edge is realised by a bond iff a link applies: `+` needs consecutive residue ids, `>` any larger id
Realised(G, ff) == {e \in G.edges : "gt" \in ff.links \/ ("plus" \in ff.links /\ e[2] = e[1] + 1)}
MissingOf(G, ff) == G.edges \ Realised(G, ff)
RECURSIVE AtomsUpTo(_, _, _)
AtomsUpTo(lib, G, k) == IF k = 0 THEN <<>>
                        ELSE AtomsUpTo(lib, G, k - 1) \o [a \in 1..Len(lib[G.names[k]]) |-> <<G.ids[k], G.names[k], lib[G.names[k]][a]>>]
PMol(c, G) == [atoms |-> AtomsUpTo(c.lib, G, G.n), bonds |-> Realised(G, c.ff)]
MapOK(G, ff) == \A r \in 1..G.n : G.names[r] \in ff.blocks

\* connectivity over residue ids
Nbrs(G, S) == S \cup {v \in RangeOf(G.ids) : \E u \in S : <<u, v>> \in G.edges \/ <<v, u>> \in G.edges}
RECURSIVE Grow(_, _, _)
Grow(G, S, k) == IF k = 0 THEN S ELSE Grow(G, Nbrs(G, S), k - 1)
Connected(G) == G.n = 0 \/ Grow(G, {G.ids[1]}, G.n) = RangeOf(G.ids)

\* the residue graph a reader reconstructs from a molecule: one node per (resid, resname) in order of first appearance
ResGraphOf(m) ==
  LET A == m.atoms
      firsts == SortInts({k \in 1..Len(A) : \A j \in 1..(k - 1) : A[j][1] # A[k][1] \/ A[j][2] # A[k][2]})
      N == Len(firsts)
  IN [n |-> N, ids |-> [r \in 1..N |-> A[firsts[r]][1]], names |-> [r \in 1..N |-> A[firsts[r]][2]],
      edges |-> m.bonds, labels |-> [r \in 1..N |-> "-"]]

RECURSIVE Copies(_, _)
Copies(s, n) == IF n = 0 THEN <<>> ELSE Copies(s, n - 1) \o s
WithFinite(A) == [k \in 1..Len(A) |-> <<A[k][1], A[k][2], A[k][3], TRUE>>]
GroOf(A, n) == Copies(WithFinite(A), n)
\* deviation: atoms of one molecule grouped by block (names in order of first appearance)
RECURSIVE ByBlock(_, _)
ByBlock(A, seen) ==
  LET rest == {k \in 1..Len(A) : A[k][2] \notin seen}
  IN IF rest = {} THEN <<>>
     ELSE LET nm == A[CHOOSE k \in rest : \A j \in rest : k <= j][2]
          IN SelectSeq(A, LAMBDA x : x[2] = nm) \o ByBlock(A, seen \cup {nm})

(* ------------------------------------------------------------------ *)
(* the chain of program invocations of a case                         *)
(* ------------------------------------------------------------------ *)
GS == [prog |-> "gen_seq", inf |-> "-", outf |-> "json", ug |-> "seq"]
GP(i, o, u) == [prog |-> "gen_params", inf |-> i, outf |-> o, ug |-> u]
GC(i, o, u) == [prog |-> "gen_coords", inf |-> i, outf |-> o, ug |-> u]
Chain(c) == CASE c.mode = "chain2" -> <<GP("-", "itp", "lin"), GC("itp", "gro", "lin")>>
              [] c.mode = "chain3" -> <<GS, GP("json", "itp", "seq"), GC("itp", "gro", "seq")>>
              [] c.mode = "both"   -> <<GS, GP("json", "itp", "seq"), GC("itp", "gro", "seq"),
                                        GP("-", "itp2", "lin"), GC("itp2", "gro2", "lin")>>
NProg == Len(Chain(case))
Cur == Chain(case)[pi]
UG(p) == UserGraphOf(case, Chain(case)[p].ug)

(* ------------------------------------------------------------------ *)
(* stage lists (vocabulary of Output.tla)                             *)
(* ------------------------------------------------------------------ *)
Optional == {"dsdna", "split", "coords", "grid", "macro_file"}
Base(prog) ==
  CASE prog = "gen_params" -> <<"read_ff", "graph", "dsdna", "map", "links", "mods", "missing", "open", "write", "flush">>
    [] prog = "gen_coords" -> <<"read_top", "preprocess", "check", "split", "coords", "build_file", "start", "grid",
                                "templates", "ligands", "cycles", "build", "split_lig", "backmap", "convert",
                                "open", "write", "flush">>
    [] prog = "gen_seq"    -> <<"macro_file", "macro_str", "graph", "termini", "labels", "to_json", "popen", "pwrite">>
Order(prog) ==
  IF prog = "gen_params" /\ DevItpBeforeLinks
  THEN <<"read_ff", "graph", "dsdna", "map", "open", "write", "links", "mods", "missing", "flush">>
  ELSE IF prog = "gen_coords" /\ DevGateSkipped
  THEN SelectSeq(Base(prog), LAMBDA s : s # "check")
  ELSE Base(prog)
StagesOf(c, prog) == SelectSeq(Order(prog), LAMBDA s : s \notin Optional \/ s \in c.on)
Stages(p) == StagesOf(case, Chain(case)[p].prog)
NextStage == IF pc < Len(Stages(pi)) THEN Stages(pi)[pc + 1] ELSE "-"
\* the stages of the intended design (P-layer reference, no deviation)
RefStages(p) == SelectSeq(Base(Chain(case)[p].prog), LAMBDA s : s \notin Optional \/ s \in case.on)

(* ------------------------------------------------------------------ *)
(* I-layer                                                            *)
(* ------------------------------------------------------------------ *)
Lbl(k, s, ok, inj) == [kind |-> k, p |-> pi, stage |-> s, ok |-> ok, inj |-> inj]

Init == /\ case \in Cases
        /\ pi = 1 /\ ph = "idle" /\ pc = 0 /\ status = "running" /\ nfail = 0
        /\ failedAt = [p \in 1..Len(Chain(case)) |-> "-"]
        /\ done = <<>>
        /\ last = [kind |-> "init", p |-> 0, stage |-> "-", ok |-> TRUE, inj |-> FALSE]
        /\ mem = NoMem
        /\ files = [f \in FileNames |-> NoFile]

Begin == /\ status = "running" /\ ph = "idle"
         /\ ph' = "run" /\ pc' = 0 /\ mem' = NoMem
         /\ last' = Lbl("begin", "-", TRUE, FALSE)
         /\ UNCHANGED <<case, pi, status, nfail, failedAt, done, files>>

\* the json reader: node id k (from 0) becomes residue id k + 1
ReadJson(G) == IF DevJsonIdShift
               THEN [G EXCEPT !.ids = [r \in 1..G.n |-> G.ids[r] - 1], !.edges = {<<e[1] - 1, e[2] - 1>> : e \in G.edges}]
               ELSE G

\* what a stage needs in order to succeed
Pre(s) ==
  CASE Cur.prog = "gen_params" /\ s = "graph" -> (IF Cur.inf = "-" THEN TRUE ELSE files[Cur.inf].st = "full")
    [] Cur.prog = "gen_params" /\ s = "map"   -> MapOK(mem.g, mem.ffv)
    [] Cur.prog = "gen_coords" /\ s = "read_top" -> files[Cur.inf].st = "full"
    [] Cur.prog = "gen_coords" /\ s = "check" -> Connected(mem.g)
    [] OTHER -> TRUE

\* what a completed stage leaves behind: <<new mem, new files>>
FullFile(f) == [f EXCEPT !.st = "full"]
Effect(s) ==
  CASE Cur.prog = "gen_seq" /\ s = "graph"   -> <<[mem EXCEPT !.g = [SeqGraph(case) EXCEPT !.labels = [r \in 1..SeqGraph(case).n |-> "-"]]], files>>
    [] Cur.prog = "gen_seq" /\ s = "labels"  -> <<[mem EXCEPT !.g.labels = SeqGraph(case).labels], files>>
    [] Cur.prog = "gen_seq" /\ s = "to_json" -> <<[mem EXCEPT !.ser.g = mem.g], files>>
    [] Cur.prog = "gen_seq" /\ s = "popen"   -> <<mem, [files EXCEPT ![Cur.outf] = [NoFile EXCEPT !.st = "empty"]]>>
    [] Cur.prog = "gen_seq" /\ s = "pwrite"  -> <<mem, [files EXCEPT ![Cur.outf] = [NoFile EXCEPT !.st = "full", !.g = mem.ser.g]]>>
    [] Cur.prog = "gen_params" /\ s = "read_ff" -> <<[mem EXCEPT !.ffv = case.ff], files>>
    [] Cur.prog = "gen_params" /\ s = "graph"   -> <<[mem EXCEPT !.g = IF Cur.inf = "-" THEN LinGraph(case) ELSE ReadJson(files[Cur.inf].g)], files>>
    [] Cur.prog = "gen_params" /\ s = "map"     -> <<[mem EXCEPT !.mol = [atoms |-> AtomsUpTo(case.lib, mem.g, mem.g.n), bonds |-> {}]], files>>
    [] Cur.prog = "gen_params" /\ s = "links"   -> <<[mem EXCEPT !.mol.bonds = Realised(mem.g, mem.ffv)], files>>
    [] Cur.prog = "gen_params" /\ s = "missing" -> <<[mem EXCEPT !.miss = mem.g.edges \ mem.mol.bonds], files>>
    [] Cur.prog = "gen_params" /\ s = "write"   -> <<[mem EXCEPT !.ser.mol = mem.mol], files>>
    [] Cur.prog = "gen_params" /\ s = "flush"   -> <<mem, [files EXCEPT ![Cur.outf] = [NoFile EXCEPT !.st = "full", !.mol = mem.ser.mol]]>>
    [] Cur.prog = "gen_coords" /\ s = "read_top" -> <<[mem EXCEPT !.mol = files[Cur.inf].mol, !.g = ResGraphOf(files[Cur.inf].mol), !.ntop = case.count], files>>
    [] Cur.prog = "gen_coords" /\ s = "templates" -> <<[mem EXCEPT !.tmpl = RangeOf(mem.g.names)], files>>
    [] Cur.prog = "gen_coords" /\ s = "build"   -> <<[mem EXCEPT !.placed = mem.g.n * mem.ntop], files>>
    [] Cur.prog = "gen_coords" /\ s = "backmap" -> <<[mem EXCEPT !.coords = Len(mem.mol.atoms) * mem.ntop], files>>
    [] Cur.prog = "gen_coords" /\ s = "write"   -> <<[mem EXCEPT !.ser.atoms = IF DevGroBlockOrder THEN GroOf(ByBlock(mem.mol.atoms, {}), mem.ntop)
                                                                                              ELSE GroOf(mem.mol.atoms, mem.ntop)], files>>
    [] Cur.prog = "gen_coords" /\ s = "flush"   -> <<mem, [files EXCEPT ![Cur.outf] = [NoFile EXCEPT !.st = "full", !.atoms = mem.ser.atoms]]>>
    [] OTHER -> <<mem, files>>

StageOk(s) == /\ status = "running" /\ ph = "run" /\ s = NextStage /\ s # "-"
              /\ Pre(s)
              /\ mem' = Effect(s)[1] /\ files' = Effect(s)[2]
              /\ pc' = pc + 1 /\ done' = Append(done, <<pi, s>>)
              /\ last' = Lbl("stage", s, TRUE, FALSE)
              /\ UNCHANGED <<case, pi, ph, status, nfail, failedAt>>

\* a stage fails: by itself exactly when its precondition does not hold (inj = FALSE), or because the environment makes it
\* fail (inj = TRUE: any stage, the nondeterminism of the I-layer).  A failed stage has no effect.
StageFail(s, inj) ==
              /\ status = "running" /\ ph = "run" /\ s = NextStage /\ s # "-"
              /\ IF inj THEN case.probe /\ nfail < MaxFail ELSE ~Pre(s)
              /\ nfail' = IF inj THEN nfail + 1 ELSE nfail
              /\ failedAt' = [failedAt EXCEPT ![pi] = s]
              /\ IF DevContinueAfterFail THEN ph' = "run" /\ pc' = pc + 1 ELSE ph' = "failed" /\ pc' = pc
              /\ last' = Lbl("stage", s, FALSE, inj)
              /\ UNCHANGED <<case, pi, status, done, mem, files>>

\* the program returns (all stages passed) or the exception leaves it; the next program of the chain starts regardless
End == /\ status = "running"
       /\ (ph = "run" /\ NextStage = "-") \/ ph = "failed"
       /\ last' = Lbl("end", "-", ph = "run" /\ failedAt[pi] = "-", FALSE)
       /\ IF pi < NProg THEN pi' = pi + 1 /\ ph' = "idle" /\ status' = status
                        ELSE pi' = pi /\ ph' = "idle" /\ status' = "done"
       /\ pc' = 0
       /\ UNCHANGED <<case, nfail, failedAt, done, mem, files>>

AllStages == {"macro_file", "macro_str", "graph", "termini", "labels", "to_json", "popen", "pwrite",
              "read_ff", "dsdna", "map", "links", "mods", "missing", "open", "write", "flush",
              "read_top", "preprocess", "check", "split", "coords", "build_file", "start", "grid", "templates", "ligands",
              "cycles", "build", "split_lig", "backmap", "convert"}
StageStep == LET s == NextStage IN s # "-" /\ (StageOk(s) \/ StageFail(s, TRUE) \/ StageFail(s, FALSE))
Next == Begin \/ End \/ StageStep
Spec == Init /\ [][Next]_vars

(* ------------------------------------------------------------------ *)
(* P-layer laws                                                       *)
(* ------------------------------------------------------------------ *)
DoneStages(p) == LET d == SelectSeq(done, LAMBDA x : x[1] = p) IN [i \in 1..Len(d) |-> d[i][2]]
HasDone(p, s) == \E i \in 1..Len(done) : done[i] = <<p, s>>
SameIdsNamesEdges(G, H) == G.n = H.n /\ G.ids = H.ids /\ G.names = H.names /\ G.edges = H.edges
InCoords == ph # "idle" /\ Cur.prog = "gen_coords" /\ HasDone(pi, "read_top")

\* E1 as stated: no link missing => gen_coords sees the user's residue graph
E1 == (InCoords /\ MissingOf(UG(pi), case.ff) = {}) => SameIdsNamesEdges(mem.g, UG(pi))
\* general form: same residues, exactly the realised edges
E1Gen == InCoords => (mem.g.ids = UG(pi).ids /\ mem.g.names = UG(pi).names /\ mem.g.edges = Realised(UG(pi), case.ff))

\* E2: the .gro of program p
GroProgs == {p \in 1..NProg : Chain(case)[p].prog = "gen_coords"}
ExpectedGro(p) == GroOf(AtomsUpTo(case.lib, UG(p), UG(p).n), case.count)
E2 == \A p \in GroProgs : LET f == files[Chain(case)[p].outf] IN
         f.st = "full" => (/\ Len(f.atoms) = Len(AtomsUpTo(case.lib, UG(p), UG(p).n)) * case.count
                           /\ f.atoms = ExpectedGro(p))

\* E3
OrderLaw == \A p \in 1..NProg : IsPrefixOf(DoneStages(p), RefStages(p))
AllDone(p) == DoneStages(p) = RefStages(p)
CompleteOnlyAfterAll == \A p \in 1..NProg : files[Chain(case)[p].outf].st = "full" => AllDone(p)
\* gen_seq opens its output with open(): it exists (empty) from the popen stage on, never earlier
SeqFileLate == \A p \in 1..NProg : (Chain(case)[p].prog = "gen_seq" /\ files[Chain(case)[p].outf].st # "absent") => HasDone(p, "to_json")
\* the programs that write through the deferred writer leave no partial file
NoPartial == \A p \in 1..NProg : Chain(case)[p].prog # "gen_seq" => files[Chain(case)[p].outf].st \in {"absent", "full"}
\* nothing a later stage produces exists before that stage has completed (current program)
Producer(field) == CASE Cur.prog = "gen_seq" -> (CASE field = "g" -> "graph" [] field = "ser" -> "to_json" [] OTHER -> "never")
                     [] Cur.prog = "gen_params" -> (CASE field = "ffv" -> "read_ff" [] field = "g" -> "graph" [] field = "mol" -> "map"
                                                      [] field = "miss" -> "missing" [] field = "ser" -> "write" [] OTHER -> "never")
                     [] Cur.prog = "gen_coords" -> (CASE field = "g" -> "read_top" [] field = "mol" -> "read_top" [] field = "ntop" -> "read_top"
                                                      [] field = "tmpl" -> "templates" [] field = "placed" -> "build" [] field = "coords" -> "backmap"
                                                      [] field = "ser" -> "write" [] OTHER -> "never")
MemFields == {"g", "ffv", "mol", "miss", "tmpl", "ntop", "placed", "coords", "ser"}
NoLaterEffects == ph # "idle" => \A f \in MemFields : mem[f] # NoMem[f] => (Producer(f) # "never" /\ HasDone(pi, Producer(f)))
\* bonds between residues exist only after the links stage
BondsAfterLinks == (ph # "idle" /\ Cur.prog = "gen_params" /\ mem.mol.bonds # {}) => HasDone(pi, "links")
\* after a failure the program does nothing more
StopsAfterFail == \A p \in 1..NProg : failedAt[p] # "-" =>
                     (~HasDone(p, failedAt[p]) /\ \A i \in 1..Len(RefStages(p)) :
                         (RefStages(p)[i] = failedAt[p] => \A j \in i..Len(RefStages(p)) : ~HasDone(p, RefStages(p)[j])))
\* a program whose input file is not complete writes nothing
ChainLaw == \A p \in 1..NProg : (IF Chain(case)[p].inf = "-" THEN FALSE ELSE files[Chain(case)[p].inf].st # "full") => files[Chain(case)[p].outf].st = "absent"
E3 == OrderLaw /\ CompleteOnlyAfterAll /\ SeqFileLate /\ NoPartial /\ NoLaterEffects /\ BondsAfterLinks /\ StopsAfterFail /\ ChainLaw

\* the connectivity gate: coordinates are only written for molecules all of whose residues hang together
GateLaw == \A p \in GroProgs : files[Chain(case)[p].outf].st = "full" => Connected([UG(p) EXCEPT !.edges = Realised(UG(p), case.ff)])

\* what an undisturbed chain leaves behind (declarative composition of the three programs)
PItp(c, which) == LET G == UserGraphOf(c, which) IN
                  IF MapOK(G, c.ff) THEN [NoFile EXCEPT !.st = "full", !.mol = PMol(c, G)] ELSE NoFile
PGro(c, which) == LET G == UserGraphOf(c, which) IN
                  IF MapOK(G, c.ff) /\ Connected([G EXCEPT !.edges = Realised(G, c.ff)])
                  THEN [NoFile EXCEPT !.st = "full", !.atoms = GroOf(AtomsUpTo(c.lib, G, G.n), c.count)] ELSE NoFile
PFiles(c) == [f \in FileNames |->
                CASE f = "json" -> IF c.mode = "chain2" THEN NoFile ELSE [NoFile EXCEPT !.st = "full", !.g = SeqGraph(c)]
                  [] f = "itp"  -> PItp(c, IF c.mode = "chain2" THEN "lin" ELSE "seq")
                  [] f = "gro"  -> PGro(c, IF c.mode = "chain2" THEN "lin" ELSE "seq")
                  [] f = "itp2" -> IF c.mode = "both" THEN PItp(c, "lin") ELSE NoFile
                  [] f = "gro2" -> IF c.mode = "both" THEN PGro(c, "lin") ELSE NoFile]
FinalLaw == (status = "done" /\ nfail = 0) => files = PFiles(case)
\* the warnings of gen_params name exactly the unrealised edges
MissingLaw == (ph # "idle" /\ Cur.prog = "gen_params" /\ HasDone(pi, "missing")) => mem.miss = MissingOf(UG(pi), case.ff)

\* E4: the chained run and the run from the equivalent -seq agree
E4 == (case.mode = "both" /\ status = "done" /\ nfail = 0) => (files["itp"] = files["itp2"] /\ files["gro"] = files["gro2"])

\* instance sanity
TypeOK == /\ pi \in 1..NProg /\ ph \in {"idle", "run", "failed"} /\ status \in {"running", "done"}
          /\ nfail \in 0..MaxFail /\ pc \in 0..18
=============================================================================
