SPECIFICATION Spec
CONSTANTS
 Grid <- MCGrid
 DevMap = TRUE
 DevArgs = FALSE
 DevHarm = FALSE
INVARIANT AgreesWithGromacs
CHECK_DEADLOCK FALSE
