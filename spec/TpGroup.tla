---------------------------- MODULE TpGroup ----------------------------
(* C15, grouping: every pair of residues with pairwise distinct atom names, up to MaxAtoms atoms, all connected *)
(* bond graphs; the second residue also with its atoms listed in reverse order, under the same or another       *)
(* residue name, in the same molecule (joined) or in another moleculetype.  TLC decides labelled-graph          *)
(* isomorphism declaratively (Iso) and checks that the key of the I-layer separates exactly the isomorphism     *)
(* classes; each pair is exported with the expected verdict and replayed through real .top files.               *)
EXTENDS TemplatesLib, Json, SequencesExt
CONSTANTS NamePool,       \* sequence of atom names in alphabetical order
          MaxAtoms,
          DevByResname    \* deviation: residues grouped by residue name only
VARIABLE pair
MCNamePool == <<"A", "B", "C", "D">>

Idx == 1..Len(NamePool)
GraphsOn(k) == { E \in SUBSET Pairs(k) : ConnectedG([n |-> k, nm |-> [i \in 1..k |-> NamePool[i]], ed |-> E]) }
SortedNames(S) == LET sq == SetToSortSeq(S, <) IN [i \in 1..Len(sq) |-> NamePool[sq[i]]]
ResSorted == UNION { { [n |-> Cardinality(S), nm |-> SortedNames(S), ed |-> E] : E \in GraphsOn(Cardinality(S)) }
                     : S \in { T \in SUBSET Idx : T # {} /\ Cardinality(T) <= MaxAtoms } }
\* the same residue with its atoms listed in the opposite order (bonds re-indexed accordingly)
Rev(g) == [n |-> g.n, nm |-> [i \in 1..g.n |-> g.nm[g.n + 1 - i]], ed |-> { <<g.n + 1 - e[2], g.n + 1 - e[1]>> : e \in g.ed }]
ResAny == ResSorted \cup { Rev(g) : g \in ResSorted }
AllPairs == { [x |-> x, y |-> y, rny |-> rn, joined |-> j] : x \in ResSorted, y \in ResAny, rn \in {"RA", "RB"}, j \in BOOLEAN }

Init == pair \in AllPairs
Next == UNCHANGED pair
Spec == Init /\ [][Next]_pair

\* I-layer key (template / volume key of a residue node)
Key(g, rn) == IF DevByResname THEN [names |-> {rn}, bonds |-> {}] ELSE Canon(g)
SameKey == Key(pair.x, "RA") = Key(pair.y, pair.rny)

\* residues with isomorphic atom-name-labelled bond graphs share one template key, all others get different keys
GroupingLaw == SameKey <=> Iso(pair.x, pair.y)
\* residues with different atom names get different keys
NamesLaw == (NameSetOf(pair.x) # NameSetOf(pair.y)) => ~SameKey
\* for pairwise distinct atom names the canonical form decides isomorphism (used by TpTrace beyond the bound)
CanonLaw == UniqueNames(pair.x) /\ UniqueNames(pair.y) /\ ((Canon(pair.x) = Canon(pair.y)) <=> Iso(pair.x, pair.y))
\* listing order is irrelevant
OrderLaw == Iso(pair.x, Rev(pair.x)) /\ Canon(pair.x) = Canon(Rev(pair.x))

GOut(g) == [n |-> g.n, nm |-> g.nm, ed |-> SetToSortSeq(g.ed, LAMBDA a, b : a[1] < b[1] \/ (a[1] = b[1] /\ a[2] < b[2]))]
ExportInv == PrintT(<<"CASE", ToJson([x |-> GOut(pair.x), y |-> GOut(pair.y), rnx |-> "RA", rny |-> pair.rny, joined |-> pair.joined,
                                      same |-> Iso(pair.x, pair.y), xnames |-> SetToSeq(NameSetOf(pair.x)), ynames |-> SetToSeq(NameSetOf(pair.y))])>>)
=============================================================================
