----------------------------- MODULE FF_S -----------------------------
(* instance S: block A ranges over 1..3 atoms and every subset of the candidate interactions (bond, angle, constraint, exclusion, *)
(* virtual_sites2) + two blocks with repeated (section, atoms) entries; chains of 1..3 residues; first residue id 1 and 5          *)
EXTENDS FFExport
MCFFs == FFsS
MCInputs == InputsS(DOMAIN FFsS)
ASSUME PrintT(<<"FFS", ToJson(MCFFs)>>)
=============================================================================
