SPECIFICATION TSpec
CONSTANTS
 Cases <- TraceCases
 MaxFail = 1000000
 DevItpBeforeLinks = FALSE
 DevGroBlockOrder = FALSE
 DevGateSkipped = FALSE
 DevJsonIdShift = FALSE
 DevContinueAfterFail = FALSE
INVARIANT E1
INVARIANT E1Gen
INVARIANT E2
INVARIANT E3
INVARIANT GateLaw
INVARIANT FinalLaw
INVARIANT MissingLaw
INVARIANT E4
INVARIANT Mark
INVARIANT Prog
POSTCONDITION Accepted
CHECK_DEADLOCK FALSE
