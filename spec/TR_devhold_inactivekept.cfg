SPECIFICATION Spec
CONSTANTS
 Cases <- CondWideSmall
 TISet <- TI_quick
 DefSet <- Def_both
 MissSet <- Miss_both
 Stratified = TRUE
 DevOneDirection = FALSE
 DevNoReverse = FALSE
 DevFirstInstOnly = FALSE
 DevSpecOrder = FALSE
 DevDefineFirstOnly = FALSE
 DevPairsUntyped = FALSE
 DevTableMacrosKept = FALSE
 DevDefineLazyCond = FALSE
 DevDefineBlockDropped = FALSE
 DevDefineInactiveKept = TRUE
INVARIANT LookupAgrees
INVARIANT ConformsDev
CHECK_DEADLOCK FALSE
