----------------------------- MODULE FF_Eq -----------------------------
(* quick instance E (C14): all connected graphs on 1..3 residues, chain + two branched trees on 4, names over {A, B}, 2 size combinations x 6 distance pairs x 3 link sets *)
EXTENDS FFExport
MCFFs == FFsE({<<2, 3, 1, 2>>, <<3, 1, 3, 1>>}, {<<1, 3>>, <<0, 2>>, <<2, 2>>, <<4, 1>>, <<3, 4>>, <<2, 0>>}, {1, 2, 3})
GrQ(n) == IF n <= 3 THEN ConnGraphs(n) ELSE {Chain(4), {<<1, 2>>, <<2, 3>>, <<2, 4>>}, {<<1, 2>>, <<1, 3>>, <<3, 4>>}}
MCInputs == InputsE(MCFFs, GrQ, 1..4)
ASSUME PrintT(<<"FFS", ToJson(MCFFs)>>)
=============================================================================
