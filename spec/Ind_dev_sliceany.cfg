SPECIFICATION Spec
CONSTANTS
 Cases <- CasesSlice
 FFs <- FFcat
 Dev <- DevSliceAny
INVARIANT Confluent
CHECK_DEADLOCK FALSE
