----------------------------- MODULE FF_M -----------------------------
(* instance M: chains of 2..3 residues over GLY, ALA and a non-protein residue named GLYC / XALA (begins with / contains an  *)
(* amino-acid name, carries the atom names the modifications target), links that remove / retype atoms, -mods selections      *)
EXTENDS FFExport
MCFFs == FFsM
MCInputs == InputsM({1, 2, 3}, {2, 3}, {1, 5})
ASSUME PrintT(<<"FFS", ToJson(MCFFs)>>)
=============================================================================
