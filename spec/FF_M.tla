----------------------------- MODULE FF_M -----------------------------
(* instance M: protein-named chains of 2..3 residues, links that remove / retype atoms, -mods selections *)
EXTENDS FFExport
MCFFs == FFsM
MCInputs == InputsM({1, 2, 3}, {2, 3}, {1, 5})
ASSUME PrintT(<<"FFS", ToJson(MCFFs)>>)
=============================================================================
