SPECIFICATION TSpec
CONSTANTS
 FFs <- TFFs
 Dev <- TNoDev
 NInputs <- TNIn
 MaxLen = 1000000
 Fresh <- TFresh
 RunIn <- TRunIn
 Proc0 <- TProc0
INVARIANT HistoryIndependent
INVARIANT Mark
INVARIANT Prog
POSTCONDITION Accepted
CHECK_DEADLOCK FALSE
