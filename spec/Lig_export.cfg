SPECIFICATION XSpecQuick
CONSTANTS
 Types <- MCTypes
 DevOn = {}
 AsIsToo = TRUE
INVARIANT TypeOK
INVARIANT I_ErrLaw
INVARIANT ErrLawAsIs
INVARIANT AttachLaw
INVARIANT AnnotateOnlyAdds
INVARIANT Restored
INVARIANT HandBack
INVARIANT Untouched
INVARIANT I_NearFinalAnchor
INVARIANT OutputLaw
INVARIANT I_NoCrash
INVARIANT ExportInv
CHECK_DEADLOCK FALSE
