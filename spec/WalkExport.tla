----------------------------- MODULE WalkExport -----------------------------
(* S->I export for C17/C04: every complete behaviour of Walk (a failure schedule from the first attempt to  *)
(* Finish) is printed as the sequence of observable events - the vocabulary of the recorder in              *)
(* harness/walk_util.py - with the set of positioned residues after each of them.  Skip and SkipMolecule     *)
(* are silent, as in the code.                                                                               *)
EXTENDS MC_Walk, Json, SequencesExt
VARIABLE hist
SortedSeq(S) == SetToSortSeq(S, <)
AllNodes == UNION {{<<m, n>> : n \in NodesOf[m]} : m \in 1..NMol}
\* the engine does not know ignored molecules at all
PosOf(p) == [m \in 1..NMol |-> IF m \in Ignored THEN <<>> ELSE SortedSeq({n \in NodesOf[m] : p[m][n] # "none"})]
Moved(p, q) == SetToSeq({mn \in AllNodes : p[mn[1]][mn[2]] # q[mn[1]][mn[2]]})
E(r) == hist' = Append(hist, r @@ [mol |-> mol, pos |-> PosOf(pos'), moved |-> Moved(pos, pos')])
XInit == Init /\ hist = <<>>
XNext == \/ (SkipMolecule /\ UNCHANGED hist)
         \/ (Skip /\ UNCHANGED hist)
         \/ (BeginAttempt /\ E([ev |-> "begin"]))
         \/ (PlaceRootOk /\ E([ev |-> "root", node |-> Root]))
         \/ (PlaceRootFail /\ E([ev |-> "rootfail"]))
         \/ (PlaceOk /\ E([ev |-> "ok", prev |-> Path[step][1], cur |-> Path[step][2]]))
         \/ (PlaceFail /\ E([ev |-> "fail", prev |-> Path[step][1], cur |-> Path[step][2]]))
         \/ (Rewind /\ E([ev |-> "rewind", to |-> step', placed |-> placed']))
         \/ (EndFail /\ E([ev |-> "end", success |-> FALSE]))
         \/ (EndWalk /\ E([ev |-> "end", success |-> success]))
         \/ (AttemptFailed /\ E([ev |-> "cleanup", nodes |-> SortedSeq(BuildSet(mol))]))
         \/ (GiveUp /\ E([ev |-> "cleanup", nodes |-> SortedSeq(BuildSet(mol))]))
         \/ (HandledFail /\ E([ev |-> "handled", success |-> FALSE]))
         \/ (Accept /\ E([ev |-> "handled", success |-> TRUE]))
         \/ (Finish /\ hist' = Append(hist, [ev |-> "finish", mol |-> 0, pos |-> PosOf(pos'), moved |-> <<>>]))
XSpec == XInit /\ [][XNext]_<<vars, hist>>
InstJson == [nmol |-> NMol, nodes |-> [m \in 1..NMol |-> SortedSeq(NodesOf[m])], path |-> PathOf, root |-> RootOf,
             attr |-> [m \in 1..NMol |-> SortedSeq(AttrOf[m])], ignored |-> SortedSeq(Ignored),
             nrewind |-> NRewind, maxiter |-> MaxIter, maxattempts |-> MaxAttempts]
ExportInv == (pc = "finished") => PrintT(<<"CASE", ToJson([inst |-> InstJson, evs |-> hist])>>)
=============================================================================
