SPECIFICATION Spec
CONSTANTS
 Cands <- MCCands
 Thrs <- MCThrs
 LoC = 10
 HiC = 1790
 TopC = 1800
 InitRank = 9999
 Triples <- MCTriples
 Table <- MCTable
 MaxCalls = 4
 DevNonStrict = FALSE
 DevKeepPrev = FALSE
 DevUpdateOnReject = FALSE
 DevThrReversed = FALSE
 DevKeyReversed = FALSE
INVARIANT AcceptRule
INVARIANT DrawOnlyWhenNeeded
INVARIANT PrevIsLastAccepted
INVARIANT RejectKeeps
INVARIANT StraightAccepted
INVARIANT BelowLoNeedsImprovement
INVARIANT LookupRule
INVARIANT FirstGoesThroughDraw
CHECK_DEADLOCK FALSE
