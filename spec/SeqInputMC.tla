---------------------------- MODULE SeqInputMC ----------------------------
(* bounded instances of SeqInput: the abstract inputs TLC enumerates exhaustively (C12 and C19).          *)
(* The inputs are chosen by nested quantifiers in the initial predicate (building them as one big set     *)
(* first is an order of magnitude slower in TLC); the instance is selected by the constants Fam, P1, P2.  *)
EXTENDS SeqInput, SequencesExt
CONSTANTS Fam, P1, P2

RECURSIVE Comp(_)
\* all line breakings of n tokens: compositions of n
Comp(n) == IF n = 0 THEN {<<>>} ELSE UNION {{<<x>> \o cc : cc \in Comp(n - x)} : x \in 1..n}
SeqsUpTo(S, lo, hi) == UNION {[1..n -> S] : n \in lo..hi}
Perms(n) == {f \in [1..n -> 1..n] : \A x, y \in 1..n : f[x] = f[y] => x = y}

FileRecT(fmt, kind, toks, lines, circ, own, nl, title) ==
  [fam |-> "file", fmt |-> fmt, kind |-> kind, toks |-> toks, lines |-> lines, circ |-> circ, terOwn |-> own, nl |-> nl, title |-> title]
FileRec(fmt, kind, toks, lines, circ, own, nl) == FileRecT(fmt, kind, toks, lines, circ, own, nl, <<>>)
\* the title line of an .ig file is mandatory and arbitrary (it must not end in 1 or 2, which would be the terminator): the
\* title alphabet includes titles spelled with the letters A, C, G, T only; the title never influences the graph
PlainTitle == <<"t", "i", "t", "l", "e">>
Titles == {PlainTitle, <<"s", "e", "q", "A">>, <<"C", "A", "T">>, <<"T", "A", "T", "A">>, <<"G">>}
TitlesFor(sl, t) == IF Len(t) <= 2 \/ (Len(t) = 3 /\ sl.kind = "RNA") THEN Titles ELSE {PlainTitle}
DNAS == {"A", "C", "G", "T"}
AAS == << {"G", "A", "V", "C"}, {"P", "L", "I", "M"}, {"W", "F", "S", "T"}, {"Y", "N", "Q", "K"}, {"R", "H", "D", "E"}, {"O", "Q", "E", "G"} >>
\* alphabet slices: every letter of every alphabet occurs in some slice; all sequences up to L over each slice
Slices(Lm, Lo) == {[kind |-> "DNA", S |-> DNAS, L |-> Lm], [kind |-> "RNA", S |-> DNAS, L |-> Lo]}
                  \cup {[kind |-> "PROTEIN", S |-> AAS[x], L |-> Lo] : x \in 1..Len(AAS)}
PickFasta(Lm, Lo) ==
  \E sl \in Slices(Lm, Lo) : \E t \in SeqsUpTo(sl.S, 1, sl.L) :
    \E l \in Comp(Len(t)), nl \in (IF sl.kind = "DNA" /\ Len(t) <= 3 THEN BOOLEAN ELSE {TRUE}) :
      inp = FileRec("fasta", sl.kind, t, l, FALSE, FALSE, nl)
\* .ig: linear / circular terminator (circular from 3 residues), terminator on the last sequence line or on a line of its own
PickIg(Lm, Lo) ==
  \E sl \in Slices(Lm, Lo) : \E t \in SeqsUpTo(sl.S, 1, sl.L) :
    \E l \in Comp(Len(t)), cr \in (IF Len(t) >= 3 THEN BOOLEAN ELSE {FALSE}), own \in (IF sl.kind = "DNA" /\ Len(t) <= 3 THEN BOOLEAN ELSE {FALSE}),
       ti \in TitlesFor(sl, t) :
      inp = FileRecT("ig", sl.kind, t, l, cr, own, TRUE, ti)
\* one protein slice only (sensitivity runs)
PickIgOne == \E t \in SeqsUpTo(AAS[4], 1, 3) : \E l \in Comp(Len(t)), cr \in (IF Len(t) >= 3 THEN BOOLEAN ELSE {FALSE}),
                                                    ti \in (IF Len(t) = 1 THEN Titles ELSE {PlainTitle}) :
               inp = FileRecT("ig", "PROTEIN", t, l, cr, FALSE, TRUE, ti)
TxtNames == {"PEO", "A", "N1"}
PickTxt(L) == \E t \in SeqsUpTo(TxtNames, 1, L) : \E l \in Comp(Len(t)), nl \in BOOLEAN : inp = FileRec("txt", "NAMES", t, l, FALSE, FALSE, nl)
PickSeqList(L, C) == \E b \in SeqsUpTo([name : {"PEO", "A"}, cnt : 1..C], 1, L) : inp = [fam |-> "seqlist", blocks |-> b]
JsonLinks == {<<0, 1>>, <<2, 1>>, <<0, 2>>}
PickJson(N) == \E n \in 1..N : \E nm \in [1..n -> {"PEO", "A"}], o \in Perms(n), ls \in SUBSET {p \in JsonLinks : p[1] < n /\ p[2] < n} :
                 inp = [fam |-> "json", names |-> nm, order |-> o, links |-> SetToSeq(ls)]

(* ---- gen_seq *)
Shapes == {[lev |-> l, br |-> b] : l \in 1..3, b \in 1..3}
D(sh, res) == [kind |-> "str", lev |-> sh.lev, br |-> sh.br, res |-> res]
\* a macro read from an itp file: residue names, the residue numbers of the file (not starting at 1 / with gaps), bonded positions
FileDef(resids, bonds) == [kind |-> "file", names |-> <<"GLY", "ALA", "SER">>, resids |-> resids, bonds |-> bonds]
FileDefs == {FileDef(r, b) : r \in {<<1, 2, 3>>, <<5, 6, 7>>, <<2, 4, 9>>}, b \in {<< <<1, 2>>, <<2, 3>> >>, << <<1, 2>>, <<1, 3>> >>}}
GenRec(defs, seq, cn, en, lb) == [fam |-> "genseq", defs |-> defs, seq |-> seq, connects |-> cn, ends |-> en, labels |-> lb]
Con(i, j, pairs) == [i |-> i, j |-> j, pairs |-> pairs]
End(i, nm) == [i |-> i, name |-> nm]
Lab(i, ky, v) == [i |-> i, key |-> ky, val |-> v]
\* one instance, every shape, optional ring-closing connect, terminal renaming, label
PickGen1 ==
  \E sh \in Shapes :
    \E cn \in {<<>>} \cup (IF TreeSize(sh) >= 3 THEN {<<Con(0, 0, << <<0, TreeSize(sh) - 1>> >>)>>} ELSE {}),
       en \in {<<>>, <<End(0, "END")>>}, lb \in {<<>>, <<Lab(0, "chiral", "R")>>} :
      inp = GenRec([A |-> D(sh, "PA")], <<"A">>, cn, en, lb)
\* two instances, every pair of shapes, one connect record (several anchor residues, both record directions, two pairs in one record)
PickGen2 ==
  \E p \in Shapes \X Shapes :
    \E cn \in { <<Con(0, 1, << <<a, b>> >>)>> : a \in {0, TreeSize(p[1]) \div 2, TreeSize(p[1]) - 1}, b \in {0, TreeSize(p[2]) - 1} }
              \cup { <<Con(1, 0, << <<TreeSize(p[2]) - 1, 0>> >>)>>,
                     <<Con(0, 1, << <<0, 0>>, <<TreeSize(p[1]) - 1, TreeSize(p[2]) - 1>> >>)>> },
       en \in {<<>>, <<End(1, "END")>>} :
      inp = GenRec([A |-> D(p[1], "PA"), B |-> D(p[2], "PB")], <<"A", "B">>, cn, en, <<>>)
PickGen2s ==
  \E cn \in { <<Con(0, 1, << <<a, b>> >>)>> : a \in {0, 2}, b \in {0, 2} } \cup { <<Con(1, 0, << <<2, 0>> >>)>> }, en \in {<<>>, <<End(1, "END")>>} :
      inp = GenRec([A |-> D([lev |-> 2, br |-> 2], "PA"), B |-> D([lev |-> 3, br |-> 1], "PB")], <<"A", "B">>, cn, en, <<>>)
PickGenFs ==
  \E cn \in {<<>>, <<Con(0, 1, << <<2, 1>> >>)>>, <<Con(1, 1, << <<0, 2>> >>)>>} :
      inp = GenRec([A |-> D([lev |-> 2, br |-> 2], "PA"), F |-> [kind |-> "file", names |-> <<"GLY", "ALA", "SER">>, resids |-> <<2, 4, 9>>,
                                                                 bonds |-> << <<1, 2>>, <<2, 3>> >>]], <<"A", "F">>, cn, <<>>, <<>>)
\* up to three instances of two definitions, up to two connect records, terminal renamings, labels
SizeOf(defs, seq, x) == MacroSize(defs[seq[x + 1]])
Cands(defs, seq) ==
  LET m == Len(seq) IN
  (UNION { UNION { { Con(x, y, << <<a, b>> >>) : a \in {0, SizeOf(defs, seq, x) - 1}, b \in {0, SizeOf(defs, seq, y) - 1} }
                   : y \in {z \in 0..(m - 1) : z > x} } : x \in 0..(m - 1) })
  \cup { Con(x, x, << <<0, SizeOf(defs, seq, x) - 1>> >>) : x \in {z \in 0..(m - 1) : SizeOf(defs, seq, z) >= 3} }
CKey(x) == ((x.i * 3 + x.j) * 16 + x.pairs[1][1]) * 16 + x.pairs[1][2]
EndOpts(m) == {<<>>, <<End(0, "END"), End(m - 1, "CAP")>>, <<End(0, "END"), End(0, "CAP")>>} \cup {<<End(x, "END")>> : x \in 0..(m - 1)}
LabOpts(m) == {<<>>, <<Lab(0, "chiral", "R")>>, <<Lab(0, "chiral", "R"), Lab(0, "chiral", "S")>>, <<Lab(m - 1, "chiral", "R"), Lab(0, "tag", "T")>>}
PickGen3For(defs) ==
  \E sq \in SeqsUpTo({"A", "B"}, 1, 3) :
    LET cs == Cands(defs, sq) m == Len(sq) IN
    \/ \E cn \in {<<>>} \cup {<<x>> : x \in cs}, en \in EndOpts(m), lb \in LabOpts(m) : inp = GenRec(defs, sq, cn, en, lb)
    \/ \E x \in cs, y \in cs :
         /\ CKey(x) < CKey(y)          \* unordered pairs of connect records
         /\ \E el \in { <<(<<>>), (<<>>)>>, <<(<<End(0, "END"), End(m - 1, "CAP")>>), (<<Lab(m - 1, "chiral", "R")>>)>> } :
              inp = GenRec(defs, sq, <<x, y>>, el[1], el[2])
\* -from_file: up to three instances of a string macro A and a file macro F (F at least once, also second / twice), <= 1 connect
PickGenF ==
  \E fd \in FileDefs : \E sq \in {q \in SeqsUpTo({"A", "F"}, 1, 3) : \E x \in 1..Len(q) : q[x] = "F"} :
    LET defs == [A |-> D([lev |-> 2, br |-> 2], "PA"), F |-> fd]
        cs == Cands(defs, sq)
        m == Len(sq)
    IN \E cn \in {<<>>} \cup {<<x>> : x \in cs},
          el \in { <<(<<>>), (<<>>)>>, <<(<<End(m - 1, "END")>>), (<<Lab(m - 1, "chiral", "R")>>)>> } :
         inp = GenRec(defs, sq, cn, el[1], el[2])
Sh(l, b) == [lev |-> l, br |-> b]
DefsB == << [A |-> D(Sh(2, 2), "PA"), B |-> D(Sh(3, 1), "PB")],
            [A |-> D(Sh(3, 2), "PA"), B |-> D(Sh(1, 1), "PB")],
            [A |-> D(Sh(2, 3), "PA"), B |-> D(Sh(2, 1), "PB")] >>
PickGen3(ndefs) == \E x \in 1..ndefs : PickGen3For(DefsB[x])

(* ---- dsDNA (C19) *)
\* keys[r] = node key of residue r (what a .json file may choose), first = residue id of the first residue,
\* rounds = 2: the added strand is completed once more in place
DsRecK(names, circ, tag, keys, first, rounds) ==
  [fam |-> "dsdna", names |-> names, circ |-> circ, tag |-> tag, keys |-> keys, first |-> first, rounds |-> rounds]
KeysZero(n) == [r \in 1..n |-> r - 1]
DsRec(names, circ, tag) == DsRecK(names, circ, tag, KeysZero(Len(names)), 1, 2)
Letters(lo, hi) == SeqsUpTo(DNAS, lo, hi)
LinNames(t) == Terminal("DNA", Translate("DNA", t))
BadNames == {"DX", "A", "DA53", "GLY"}
\* all strands: one residue with every known name; linear with terminal names (2..L); circular (3..L); one labelled edge (up to Lt)
PickDsAll(L, Lt) ==
  \/ \E nt \in Nts : inp = DsRec(<<NtName(nt)>>, FALSE, 0)
  \/ \E t \in Letters(2, L) : inp = DsRec(LinNames(t), FALSE, 0)
  \/ \E t \in Letters(3, L) : inp = DsRec(Translate("DNA", t), TRUE, 0)
  \/ \E t \in Letters(2, Lt) : \E tg \in 1..(Len(t) - 1) : inp = DsRec(LinNames(t), FALSE, tg)
  \/ \E t \in Letters(3, Lt) : \E tg \in 1..(Len(t) - 1) : inp = DsRec(Translate("DNA", t), TRUE, tg)
\* one unknown name at every position
PickDsBad(L) ==
  \/ \E t \in Letters(1, L) : \E p \in 1..Len(t), bad \in BadNames : inp = DsRec([LinNames(t) EXCEPT ![p] = bad], FALSE, 0)
  \/ \E t \in Letters(3, L) : \E p \in 1..Len(t), bad \in BadNames : inp = DsRec([Translate("DNA", t) EXCEPT ![p] = bad], TRUE, 0)
\* node keys as a .json file may give them: 1-based, with gaps, shuffled against the residue ids (the 3' residue keeps the
\* largest key); residue ids starting at 11
KeysOne(n) == [r \in 1..n |-> r]
KeysGap(n) == [r \in 1..n |-> 3 * r + 1]
KeysShuf(n) == [r \in 1..n |-> IF r = n THEN n + 5 ELSE n - r]
GoodKeys(n) == {KeysZero(n), KeysOne(n), KeysGap(n), KeysShuf(n)}
PickDsKeys(L, L2) ==
  \/ \E t \in Letters(1, L) : \E cr \in (IF Len(t) >= 3 THEN BOOLEAN ELSE {FALSE}), ky \in GoodKeys(Len(t)), fi \in {1, 11} :
        inp = DsRecK(IF cr THEN Translate("DNA", t) ELSE IF Len(t) = 1 THEN <<"DA">> ELSE LinNames(t), cr, 0, ky, fi, 2)
  \/ \E t \in Letters(L + 1, L2) : \E cr \in BOOLEAN, v \in {<<KeysOne(Len(t)), 1>>, <<KeysZero(Len(t)), 11>>, <<KeysShuf(Len(t)), 5>>} :
        inp = DsRecK(IF cr THEN Translate("DNA", t) ELSE LinNames(t), cr, 0, v[1], v[2], 2)
\* node keys whose largest does not sit on the 3' residue (finding F35 dsdna-start-by-node-key, repaired)
KeysRev(n) == [r \in 1..n |-> n - r]
KeysMid(n) == [r \in 1..n |-> IF r = (n + 1) \div 2 THEN 2 * n ELSE r - 1]
PickDsOff(L) ==
  \E t \in Letters(2, L) : \E cr \in (IF Len(t) >= 3 THEN BOOLEAN ELSE {FALSE}), ky \in {KeysRev(Len(t)), KeysMid(Len(t))} :
        inp = DsRecK(IF cr THEN Translate("DNA", t) ELSE LinNames(t), cr, 0, ky, 1, 2)

MCPick == CASE Fam = "fasta" -> PickFasta(P1, P2)
            [] Fam = "ig"    -> PickIg(P1, P2)
            [] Fam = "plain" -> (PickTxt(P1) \/ PickSeqList(3, 3) \/ PickJson(3))
            [] Fam = "gen"   -> (PickGen1 \/ PickGen2 \/ PickGen3(P1) \/ PickGenF)
            [] Fam = "ds"    -> (PickDsAll(P1, P2) \/ PickDsBad(3) \/ PickDsKeys(3, 4) \/ PickDsOff(3))
            \* small instances of the sensitivity runs (one per deviation flag)
            [] Fam = "sensfile" -> (PickFasta(1, 2) \/ PickIgOne \/ PickTxt(2))
            [] Fam = "sensgen"  -> (PickGen1 \/ PickGen2s \/ PickGenFs)
            [] Fam = "sensds"   -> (PickDsAll(3, 3) \/ PickDsKeys(3, 3) \/ PickDsOff(3))
Init == MCPick /\ InitRest
Spec == Init /\ [][Next]_vars
=============================================================================
