SPECIFICATION XSpec
CONSTANTS
 TypeDefs <- MCTypeDefs
 Mols <- XMols2
 Fudges <- XFudges2
 Angles <- XAngles6
 DevImproper = FALSE
 DevPerAtom = FALSE
 DevNoFudge = FALSE
 DevOtherTemplate = FALSE
 DevCentreOther = FALSE
INVARIANT TurnedScaled
INVARIANT Centred
INVARIANT ExportInv
CHECK_DEADLOCK FALSE
