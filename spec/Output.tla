---------------------------- MODULE Output ----------------------------
(***************************************************************************)
(* C20 - outputs appear only after success and never clobber existing      *)
(* files (polyply gen_params / gen_coords / gen_seq, vermouth's            *)
(* DeferredFileWriter).                                                    *)
(*                                                                         *)
(* I-layer: the three programs as their stage lists (one stage per call in *)
(* gen_itp.py / gen_coords.py / gen_seq.py), the output directory `fs`     *)
(* (path -> content), the deferred writer's queue of temporary files, and  *)
(* the writer's flush as the micro-steps of DeferredFileWriter.write():    *)
(* popleft, _find_free_path loop, backup move, final move.  An exception   *)
(* can be raised before / after every stage and in the middle of the       *)
(* serialising and committing stages (Crash).                              *)
(* P-layer: what the user relies on, written without the stage order:      *)
(* the directory changes only when everything that can fail has been done, *)
(* after success the target holds the complete new content and the old     *)
(* content sits under the FIRST FREE GROMACS backup name, nothing else in  *)
(* the directory ever changes, the old content is never lost.              *)
(*                                                                         *)
(* Temporary files live in the system temp directory, NOT in the output    *)
(* directory (tempfile.mkstemp(dir=None)), so the P-layer claims are about *)
(* the complete listing of the output directory, nothing excluded.         *)
(***************************************************************************)
EXTENDS Integers, Sequences, FiniteSets, TLC

CONSTANTS Variants,        \* set of [prog |-> STRING, on |-> set of optional stages switched on, route |-> STRING]
                           \* route = how the output path is spelled (path-resolution parameter of the instance):
                           \* "plain" (file name in the cwd), "symdir" (through a directory that is a symbolic link),
                           \* "dots" (./sub/../name), "abs" (absolute).  All claims are stated on the path AS GIVEN: "out" is
                           \* what is read at that spelling; for conforming code the route changes nothing in the behaviour.
          RouteInits,      \* the initial directories combined with the non-plain routes (all of Inits with "plain")
                           \* The variant also carries inout: is the file at the output path one of the run's OWN INPUT files
                           \* ("no"; "same" = the input option names the output path itself, e.g. gen_coords -c x.gro -o x.gro;
                           \* "link" / "dots" = the input option reaches the same file through a symbolic link / through
                           \* ./sub/../name).  The content at "out" is then "inp"; the claims are the same: nothing changes
                           \* before success, afterwards the input's bytes sit under the first free backup name.
          InoutInits,      \* the initial directories combined with inout # "no" (output path occupied)
                           \* The variant also carries dev: "same" = temp directory and output directory on one file system,
                           \* the writer's final move is a rename (an open handle keeps writing into the moved inode);
                           \* "cross" = different file systems, the move copies the bytes that are ON DISK and unlinks the
                           \* source (what a still open handle has buffered is lost).  The temp file of a handle that is still
                           \* open has content "buffered" (some prefix is on disk, the tail is in the handle's buffer).
          DevInits,        \* the initial directories combined with dev = "cross"
          NBk,             \* backup names modelled per target: #name.1# .. #name.NBk#
          Inits,           \* set of [out |-> BOOLEAN, bk |-> SUBSET 1..NBk, link |-> BOOLEAN]: is there a file at the
                           \* output path / which backup names exist / is the output path a symbolic link to a regular file
          Runs,            \* 1: one program run in a fresh process (the statement); 2: history extension (note N3)
          QueuePersists,   \* history: the writer is a process-wide singleton whose queue survives a failed run
          Crash1, Crash2,  \* history: crash points admitted in run 1 / run 2 (sets of [stage, when])
          Targets2,        \* history: targets the second run may write to
          DevPlainOpen,        \* deviation: the output is opened with open(path, "w") instead of the deferred writer
          DevFlushEarly,       \* deviation: the writer is flushed before the content has been serialised
          DevBackupOverwrite,  \* deviation: the backup always goes to #name.1#
          DevNoBackup,         \* deviation: the temporary file is moved over an existing file without backup
          DevSeqOpenEarly,     \* deviation: gen_seq opens (truncates) the output before the graph exists (mutant m40)
          DevLinkDirect,       \* deviation: an output path that is a symbolic link is opened directly (written through the link)
          DevBackupCount,      \* deviation: backup index = number of existing backups + 1 instead of the first free index
          DevInplaceInput,     \* deviation: when the output path holds an input of the run the file is updated in place
                               \* (opened directly: no temp file, no backup) (seed3-C20-2)
          DevMoveBeforeClose,  \* deviation: gen_params flushes the writer inside the `with` block, before the handle is closed
                               \* (seed5-C20-1); refutes SuccessState only for dev = "cross"
          EnvInits,        \* the initial directories combined with env = "faulty".  The variant also carries env: "stable" = the
                           \* process' environment stays as it was at start-up; "faulty" = ONE environment fault strikes while
                           \* the process is alive (Fault): the writer's staging directory (tempfile.tempdir / TMPDIR, cached by
                           \* the process at first use) is removed ("tmp_gone") or stops accepting new files - read-only, full,
                           \* quota - ("tmp_ro"), or the output directory stops accepting new entries ("out_ro").  A step
                           \* that needs the lost resource fails BY ITSELF (EnvFail, an OSError in the code), no exception
                           \* is injected in these behaviours.
          DevStageFallback,    \* deviation: when the output cannot be staged (temp file cannot be created) the program
                               \* 'recovers' by opening the output path directly: no temp file, no backup (seed7-C20-2)
          DevBackupSkip,       \* deviation: when the backup cannot be made (output directory takes no new entries) the
                               \* flush writes over the existing file in place
          DevRouteDiscard      \* deviation: before the flush the program drops every queued file whose destination is not
                               \* literally its own spelling of the output path; the writer stores the path with the directory
                               \* part resolved, so through a symlinked directory the program drops its own file

VARIABLES run,     \* 1..Runs
          var,     \* variant of the current run
          target,  \* "out" | "out2": path the current run writes to
          fs0,     \* output directory at the start of the current run
          fs,      \* output directory now: path -> content ("absent" = no such file)
          queue,   \* DeferredFileWriter.open_files: Seq([target, content]) (content = content of the temp file)
          cur,     \* entry popped by write() and being moved
          loose,   \* temp files on disk that are in no queue (Seq(content))
          pc,      \* number of completed stages of the current run
          sub,     \* micro state inside a stage: "idle" | "part" | "find" | "backup" | "move"
          idx,     \* _find_free_path counter
          status,  \* "running" | "crashed" | "done"
          last,    \* label of the last action [kind, stage, when]
          envst    \* environment of the process: "ok" | "tmp_gone" | "tmp_ro" | "out_ro" (see EnvInits)
vars == <<run, var, target, fs0, fs, queue, cur, loose, pc, sub, idx, status, last, envst>>

(* ------------------------------------------------------------------ *)
(* names                                                              *)
(* ------------------------------------------------------------------ *)
TargetNames == {"out", "out2"}
BkNames == [out  |-> <<"b1", "b2", "b3", "b4", "b5", "b6", "b7", "b8">>,
            out2 |-> <<"c1", "c2", "c3", "c4", "c5", "c6", "c7", "c8">>]
Bk(t, i) == BkNames[t][i]
BkContent == <<"bk1", "bk2", "bk3", "bk4", "bk5", "bk6", "bk7", "bk8">>
\* "tgt": the regular file a symbolic link at "out" points to (fs["out"] = "link" means: out is a link to tgt)
AllPaths == TargetNames \cup {"other", "tgt"} \cup {Bk(t, i) : t \in TargetNames, i \in 1..NBk}
Nil == [target |-> "-", content |-> "-"]
NewC == IF run = 1 THEN "new1" ELSE "new2"
PartC == IF run = 1 THEN "partial1" ELSE "partial2"

InitFs(ini, v) ==
  [p \in AllPaths |->
     IF p = "out" THEN (IF ini.link THEN "link" ELSE IF ini.out THEN (IF v.inout # "no" THEN "inp" ELSE "old") ELSE "absent")
     ELSE IF p = "tgt" THEN (IF ini.link THEN "lold" ELSE "absent")
     ELSE IF p = "other" THEN "oth"
     ELSE IF \E i \in ini.bk : p = Bk("out", i) THEN BkContent[CHOOSE i \in ini.bk : p = Bk("out", i)]
     ELSE "absent"]

(* ------------------------------------------------------------------ *)
(* stage lists (as in the code)                                       *)
(* ------------------------------------------------------------------ *)
Optional == {"dsdna", "split", "coords", "grid", "macro_file"}
Base(prog) ==
  CASE prog = "gen_params" -> <<"read_ff", "graph", "dsdna", "map", "links", "mods", "missing", "open", "write", "close", "flush">>
    [] prog = "gen_coords" -> <<"read_top", "preprocess", "check", "split", "coords", "build_file", "start", "grid",
                                "templates", "ligands", "cycles", "build", "split_lig", "backmap", "convert",
                                "open", "write", "flush">>
    [] prog = "gen_seq"    -> <<"macro_file", "macro_str", "graph", "termini", "labels", "to_json", "popen", "pwrite">>
SwapLastTwo(b) == LET n == Len(b) IN [i \in 1..n |-> IF i = n - 1 THEN b[n] ELSE IF i = n THEN b[n - 1] ELSE b[i]]
Order(prog) ==
  IF prog = "gen_seq"
  THEN (IF DevSeqOpenEarly THEN <<"macro_file", "macro_str", "popen", "graph", "termini", "labels", "to_json", "pwrite">>
                           ELSE Base(prog))
  ELSE IF prog = "gen_params"
  THEN (IF DevFlushEarly THEN <<"read_ff", "graph", "dsdna", "map", "links", "mods", "missing", "open", "flush", "write", "close">>
        ELSE IF DevMoveBeforeClose THEN SwapLastTwo(Base(prog)) ELSE Base(prog))
  ELSE (IF DevFlushEarly THEN SwapLastTwo(Base(prog)) ELSE Base(prog))
Stages(v) == SelectSeq(Order(v.prog), LAMBDA s : s \notin Optional \/ s \in v.on)
StageSet(v) == {Stages(v)[i] : i \in 1..Len(Stages(v))}
NextStage == IF pc < Len(Stages(var)) THEN Stages(var)[pc + 1] ELSE "-"
Completed == {Stages(var)[i] : i \in 1..pc}
Special == {"open", "write", "close", "flush", "popen", "pwrite"}

(* ------------------------------------------------------------------ *)
(* I-layer actions                                                    *)
(* ------------------------------------------------------------------ *)
Init == /\ run = 1
        /\ var \in Variants
        /\ target = "out"
        /\ \E ini \in Inits : /\ (var.route = "plain" \/ ini \in RouteInits)
                              /\ (var.dev = "same" \/ ini \in DevInits)
                              /\ (var.inout = "no" \/ ini \in InoutInits)
                              /\ (var.env = "stable" \/ ini \in EnvInits)
                              /\ fs = InitFs(ini, var)
        /\ fs0 = fs
        /\ queue = <<>> /\ cur = Nil /\ loose = <<>>
        /\ pc = 0 /\ sub = "idle" /\ idx = 0 /\ status = "running"
        /\ last = [kind |-> "init", stage |-> "-", when |-> "-"]
        /\ envst = "ok"

Running == status = "running"
Done(s) == last' = [kind |-> "stage", stage |-> s, when |-> "-"]
Micro(s) == last' = [kind |-> "micro", stage |-> s, when |-> "-"]
QIdx(t) == CHOOSE i \in 1..Len(queue) : queue[i].target = t /\ \A j \in 1..(i - 1) : queue[j].target # t
HasEntry(t) == \E i \in 1..Len(queue) : queue[i].target = t

\* any stage that does not touch files: reading, mapping, links, templates, building, backmapping ...
Work == /\ Running /\ sub = "idle" /\ NextStage # "-" /\ NextStage \notin Special
        /\ pc' = pc + 1 /\ Done(NextStage)
        /\ UNCHANGED <<envst, run, var, target, fs0, fs, queue, cur, loose, sub, idx, status>>

\* open(path, "w") follows a symbolic link: the bytes go to the file the path resolves to
Phys(t) == IF fs[t] = "link" THEN "tgt" ELSE t
TmpBroken == envst \in {"tmp_gone", "tmp_ro"}     \* no new temporary file can be created
Direct == DevPlainOpen \/ (DevLinkDirect /\ fs[target] = "link") \/ (DevInplaceInput /\ var.inout # "no" /\ fs[target] = "inp")
          \/ (DevStageFallback /\ TmpBroken)
\* ---- environment faults --------------------------------------------------------------------------------------------
\* the step the program is about to take needs a resource the environment no longer provides:
\*  - mkstemp in a staging directory that is gone / takes no new files (DeferredFileWriter.open -> _open_tmp_file)
\*  - open(path, "w") of a file that does not exist yet in a directory that takes no new entries
\*  - the flush's moves (backup: rename of the old entry; final: rename or copy of the temp file) into such a directory
EnvBlocks ==
  \/ sub = "idle" /\ NextStage = "open" /\ ~Direct /\ TmpBroken
  \/ sub = "idle" /\ (NextStage = "popen" \/ (NextStage = "open" /\ Direct)) /\ envst = "out_ro" /\ fs[Phys(target)] = "absent"
  \/ sub \in {"backup", "move"} /\ cur # Nil /\ envst = "out_ro" /\ ~(DevBackupSkip /\ fs[cur.target] # "absent")

\* DeferredFileWriter.open(path, "w"): a path already in the queue re-opens (truncates) its temp file
OpenDeferred ==
        /\ Running /\ sub = "idle" /\ NextStage = "open" /\ ~Direct /\ ~EnvBlocks
        /\ queue' = IF HasEntry(target) THEN [queue EXCEPT ![QIdx(target)].content = "empty"]
                                        ELSE Append(queue, [target |-> target, content |-> "empty"])
        /\ pc' = pc + 1 /\ Done("open")
        /\ UNCHANGED <<envst, run, var, target, fs0, fs, cur, loose, sub, idx, status>>

\* open(path, "w"): gen_seq; or the deviation
PlainOpen ==
        /\ Running /\ sub = "idle"
        /\ NextStage = "popen" \/ (NextStage = "open" /\ Direct)
        /\ ~EnvBlocks
        /\ fs' = [fs EXCEPT ![Phys(target)] = "empty"]
        /\ pc' = pc + 1 /\ Done(NextStage)
        /\ UNCHANGED <<envst, run, var, target, fs0, queue, cur, loose, sub, idx, status>>

\* serialisation goes to the temp file when the target is queued, else straight to the target (plain handle)
SetContent(c) == IF NextStage = "write" /\ HasEntry(target)
                 THEN /\ queue' = [queue EXCEPT ![QIdx(target)].content = c] /\ fs' = fs
                 ELSE /\ fs' = [fs EXCEPT ![Phys(target)] = c] /\ queue' = queue
WriteBegin == /\ Running /\ sub = "idle" /\ NextStage \in {"write", "pwrite"}
              /\ SetContent(PartC) /\ sub' = "part" /\ Micro(NextStage)
              /\ UNCHANGED <<envst, run, var, target, fs0, cur, loose, pc, idx, status>>
\* gen_params: write_molecule_itp returns with the handle still open (closed by the end of the `with` block = stage "close");
\* gen_coords: write_gro opens and closes the handle itself
WriteEnd ==   /\ Running /\ sub = "part"
              /\ SetContent(IF var.prog = "gen_params" THEN "buffered" ELSE NewC)
              /\ sub' = "idle" /\ pc' = pc + 1 /\ Done(NextStage)
              /\ UNCHANGED <<envst, run, var, target, fs0, cur, loose, idx, status>>
\* closing the handle puts the buffered tail where the handle's inode is: the queued temp file, or (after a rename) the target;
\* after a copy-and-unlink the inode is gone and the tail with it
Closed(cn) == IF cn = "buffered" THEN NewC ELSE cn
CloseHandle == /\ Running /\ sub = "idle" /\ NextStage = "close"
               /\ queue' = [i \in 1..Len(queue) |-> [queue[i] EXCEPT !.content = Closed(@)]]
               /\ fs' = [p \in AllPaths |-> Closed(fs[p])]
               /\ pc' = pc + 1 /\ Done("close")
               /\ UNCHANGED <<envst, run, var, target, fs0, cur, loose, sub, idx, status>>

\* DeferredFileWriter.write(): while open_files: popleft; _write_file
Qeff == IF DevRouteDiscard /\ var.route = "symdir" THEN <<>> ELSE queue
FlushBegin == /\ Running /\ sub = "idle" /\ NextStage = "flush"
              /\ IF Qeff = <<>>
                 THEN /\ pc' = pc + 1 /\ Done("flush") /\ queue' = <<>> /\ UNCHANGED <<cur, sub, idx>>
                 ELSE /\ cur' = Head(Qeff) /\ queue' = Tail(Qeff) /\ sub' = "find" /\ idx' = 0
                      /\ pc' = pc /\ Micro("flush")
              /\ UNCHANGED <<envst, run, var, target, fs0, fs, loose, status>>
\* _find_free_path: candidate 0 is the path itself, then #name.1#, #name.2# ... until one does not exist
Cand == IF idx = 0 THEN cur.target ELSE Bk(cur.target, idx)
FlushFind == /\ Running /\ sub = "find"
             /\ IF DevNoBackup THEN sub' = "move" /\ idx' = idx
                ELSE IF DevBackupCount
                     THEN (IF fs[cur.target] = "absent" THEN sub' = "move" /\ idx' = idx
                           ELSE sub' = "backup" /\ idx' = Cardinality({i \in 1..NBk : fs[Bk(cur.target, i)] # "absent"}) + 1)
                ELSE IF DevBackupOverwrite
                     THEN (IF fs[cur.target] = "absent" THEN sub' = "move" /\ idx' = idx ELSE sub' = "backup" /\ idx' = 1)
                ELSE IF fs[Cand] = "absent" THEN sub' = (IF idx = 0 THEN "move" ELSE "backup") /\ idx' = idx
                ELSE idx < NBk /\ idx' = idx + 1 /\ sub' = sub
             /\ Micro("flush")
             /\ UNCHANGED <<envst, run, var, target, fs0, fs, queue, cur, loose, pc, status>>
FlushBackup == /\ Running /\ sub = "backup" /\ ~EnvBlocks
               /\ IF DevBackupSkip /\ envst = "out_ro" THEN fs' = fs
                  ELSE fs' = [fs EXCEPT ![Bk(cur.target, idx)] = fs[cur.target], ![cur.target] = "absent"]
               /\ sub' = "move" /\ Micro("flush")
               /\ UNCHANGED <<envst, run, var, target, fs0, queue, cur, loose, pc, idx, status>>
FlushMove == /\ Running /\ sub = "move" /\ ~EnvBlocks
             /\ fs' = [fs EXCEPT ![cur.target] = IF cur.content = "buffered" /\ var.dev = "cross" THEN PartC ELSE cur.content]
             /\ IF queue = <<>>
                THEN /\ cur' = Nil /\ sub' = "idle" /\ pc' = pc + 1 /\ Done("flush") /\ UNCHANGED <<queue, idx>>
                ELSE /\ cur' = Head(queue) /\ queue' = Tail(queue) /\ sub' = "find" /\ idx' = 0 /\ pc' = pc /\ Micro("flush")
             /\ UNCHANGED <<envst, run, var, target, fs0, loose, status>>

StageStep == Work \/ OpenDeferred \/ PlainOpen \/ WriteBegin \/ WriteEnd \/ CloseHandle \/ FlushBegin \/ FlushFind \/ FlushBackup \/ FlushMove

\* what an exception leaving the program does to the state (raised by the harness or by the program itself)
Abort(s, w) ==
  /\ status' = "crashed"
  /\ loose' = IF cur # Nil THEN Append(loose, Closed(cur.content)) ELSE loose
  /\ cur' = Nil
  \* the exception leaves the `with` block: an open handle is closed on the way out
  /\ queue' = [i \in 1..Len(queue) |-> [queue[i] EXCEPT !.content = Closed(@)]]
  /\ fs' = [p \in AllPaths |-> Closed(fs[p])]
  /\ last' = [kind |-> "crash", stage |-> s, when |-> w]
  /\ UNCHANGED <<envst, run, var, target, fs0, pc, sub, idx>>
\* an exception leaves the program: before a stage, after a stage, or inside serialisation / commit
\* (an injected exception and an environment fault are not combined: faulty variants fail only by themselves)
CrashOK(pt) == IF var.env # "stable" THEN FALSE ELSE IF Runs = 1 THEN TRUE ELSE IF run = 1 THEN pt \in Crash1 ELSE pt \in Crash2
Crash(s, w) ==
  /\ Running
  /\ \/ w = "before" /\ sub = "idle" /\ s = NextStage /\ s # "-"
     \/ w = "after"  /\ sub = "idle" /\ pc >= 1 /\ s = Stages(var)[pc]
     \/ w = "inside" /\ sub = "idle" /\ s = NextStage /\ s \notin Special  \* a work stage fails by itself: no effect
     \/ w = "mid"    /\ sub = "part" /\ s = NextStage
     \/ w = "mid"    /\ sub = "move" /\ s = "flush" /\ s = NextStage
  /\ CrashOK([stage |-> s, when |-> w])
  /\ Abort(s, w)
AnyCrash == \E s \in StageSet(var), w \in {"before", "after", "mid", "inside"} : Crash(s, w)

\* ONE environment fault strikes at a stage boundary while the process is alive: at the start of the run (TMPDIR broken
\* from the beginning but cached by the process) or right before the stage that needs the resource.  Staging-directory
\* faults are admitted up to the creation of the temp file (afterwards the loss of the temp file only shows inside the
\* flush, which the statement does not cover); the queue is therefore empty when they strike.
FaultKinds == {"tmp_gone", "tmp_ro", "out_ro"}
FaultPoint(k) == IF k = "out_ro" THEN {Stages(var)[1], "flush", "popen"} ELSE {Stages(var)[1], "open"}
Fault(k) == /\ Running /\ sub = "idle" /\ var.env = "faulty" /\ envst = "ok" /\ NextStage \in FaultPoint(k)
            /\ envst' = k
            /\ last' = [kind |-> "fault", stage |-> NextStage, when |-> k]
            /\ UNCHANGED <<run, var, target, fs0, fs, queue, cur, loose, pc, sub, idx, status>>
AnyFault == \E k \in FaultKinds : Fault(k)
\* the program fails by itself because of the environment: like any exception, and NOTHING else happens
EnvFail == /\ Running /\ EnvBlocks /\ Abort(NextStage, "env")

Finish == /\ Running /\ sub = "idle" /\ pc = Len(Stages(var)) /\ run = Runs
          /\ status' = "done" /\ last' = [kind |-> "finish", stage |-> "-", when |-> "-"]
          /\ UNCHANGED <<envst, run, var, target, fs0, fs, queue, cur, loose, pc, sub, idx>>

\* history extension: a second call in the same process (QueuePersists) or in a fresh process
NextRun == /\ status = "crashed" /\ run < Runs
           /\ run' = run + 1
           /\ var' \in Variants /\ target' \in Targets2
           /\ fs0' = fs /\ fs' = fs
           /\ queue' = IF QueuePersists THEN queue ELSE <<>>
           /\ loose' = IF QueuePersists THEN loose ELSE loose \o [i \in 1..Len(queue) |-> queue[i].content]
           /\ cur' = Nil /\ pc' = 0 /\ sub' = "idle" /\ idx' = 0 /\ status' = "running"
           /\ last' = [kind |-> "nextrun", stage |-> "-", when |-> "-"]
           /\ envst' = "ok"

Next == StageStep \/ AnyCrash \/ AnyFault \/ EnvFail \/ Finish \/ NextRun
Spec == Init /\ [][Next]_vars

(* ------------------------------------------------------------------ *)
(* P-layer                                                            *)
(* ------------------------------------------------------------------ *)
UsesBackup(v) == v.prog \in {"gen_params", "gen_coords"}
\* the stages that commit the result to the output directory; everything else is work that may fail
CommitStages == {"flush", "popen", "pwrite"}
WorkStages(v) == StageSet(v) \ CommitStages

\* the first free GROMACS backup name of target t in directory f: the least i with #t.i# absent
FreeIdx(f, t) == {i \in 1..NBk : f[Bk(t, i)] = "absent"}
FirstFree(f, t) == Bk(t, CHOOSE i \in FreeIdx(f, t) : \A j \in FreeIdx(f, t) : i <= j)

\* what reading path p gives in directory f (one level of symbolic link)
Reach(f, p) == IF f[p] = "link" THEN f["tgt"] ELSE f[p]
\* the directory a successful run must leave behind.  gen_params / gen_coords: "a file previously at that path is kept
\* under a GROMACS-style backup name" - whatever directory entry was at the path (regular file or symbolic link) now sits
\* under the first free backup name, so the previous content is read there, and the link's target is not touched.
\* gen_seq (no backup claimed by the statement): open(path, "w"), i.e. the file the path resolves to holds the new content.
Expected(v, t, f, c) ==
  IF UsesBackup(v) /\ f[t] # "absent"
  THEN [p \in AllPaths |-> IF p = t THEN c ELSE IF p = FirstFree(f, t) THEN f[t] ELSE f[p]]
  ELSE IF ~UsesBackup(v) /\ f[t] = "link"
  THEN [p \in AllPaths |-> IF p = "tgt" THEN c ELSE f[p]]
  ELSE [p \in AllPaths |-> IF p = t THEN c ELSE f[p]]

AllDone == pc = Len(Stages(var)) /\ sub = "idle"

\* (1) a failure at any stage before writing: nothing created, truncated or modified
NoEarlyEffect == (fs # fs0) => (WorkStages(var) \subseteq Completed)
\* (2) success: complete new file in place, previous file under the first free backup name, nothing else touched
SuccessState == AllDone => fs = Expected(var, target, fs0, NewC)
\* (3) no file other than the target is ever modified or removed (existing backups are never overwritten)
\*     (for gen_params / gen_coords this includes the target of a symbolic link at the output path)
Owned == IF UsesBackup(var) THEN {target} ELSE {target, IF fs0[target] = "link" THEN "tgt" ELSE target}
OthersKept == \A p \in AllPaths \ Owned : fs0[p] # "absent" => fs[p] = fs0[p]
\* (4) the only file ever created besides the target is the backup, under the first free name, with the old content
OnlyBackupCreated == \A p \in AllPaths \ {target} :
                        (fs0[p] = "absent" /\ fs[p] # "absent") =>
                            (UsesBackup(var) /\ fs0[target] # "absent" /\ p = FirstFree(fs0, target) /\ fs[p] = fs0[target])
\* (5) the previous content is never lost, not even in the middle of the flush
NoLoss == (UsesBackup(var) /\ fs0[target] # "absent") =>
             \E p \in AllPaths : fs[p] = fs0[target] /\ Reach(fs, p) = Reach(fs0, target)
\* (5b) after success the previous content of whatever the path resolved to is read under the backup name
BackupResolves == (AllDone /\ UsesBackup(var) /\ fs0[target] # "absent") =>
                     Reach(fs, FirstFree(fs0, target)) = Reach(fs0, target)
\* (6) the target only ever holds the old or the complete new content (deferred programs, outside the flush)
TargetWhole == (UsesBackup(var) /\ sub \notin {"backup", "move"}) =>
                  (fs[target] \in {fs0[target], NewC} /\ Reach(fs, target) \in {Reach(fs0, target), NewC})
\* (7) success leaves no temporary file behind
TmpClean == (status = "done") => (queue = <<>> /\ loose = <<>> /\ cur = Nil)
\* (8) environment faults: a run that fails because its environment broke has touched nothing, and a run that reports
\*     success - in whatever environment - has kept the file previously at the path under a free GROMACS backup name
EnvFailClean == (status = "crashed" /\ last.when = "env") => fs = fs0
SuccessHasBackup == (status = "done" /\ UsesBackup(var) /\ fs0[target] # "absent") =>
                       \E i \in 1..NBk : fs0[Bk(target, i)] = "absent" /\ fs[Bk(target, i)] = fs0[target]
\* the directory changes only in steps of the commit stages
CommitOnly == [][ (fs' # fs) => (last'.stage \in CommitStages) ]_vars
\* instance sanity: a free backup name always exists within the modelled bound
BoundOK == ~(sub = "find" /\ idx = NBk /\ fs[Cand] # "absent" /\ ~DevNoBackup /\ ~DevBackupOverwrite /\ ~DevBackupCount)

\* history note N3: all single-run claims, relative to the directory at the start of the run
HistoryClean == NoEarlyEffect /\ SuccessState /\ OthersKept /\ OnlyBackupCreated
=============================================================================
