---------------------------- MODULE ItpRoundTripHist ----------------------------
(* C11, in-process HISTORIES: the file system is state.  gen_params writes molecule after molecule to the same output paths and    *)
(* a topology that #includes a path is read in between; every read must return the molecule that the path holds NOW:              *)
(* Read depends on the current content of the file only (not on what the path held earlier, not on other paths).                  *)
(*   fs[p]    the lines of the file at path p (<<>> = no file)         at[p]   index of the molecule last written to p (0 = none)  *)
(*   cache[p] what a reader that remembers files by path would hold (only consulted under the deviation "readerCaches")           *)
(*   obs      the result of the last read (invalidated by the next write)                                                         *)
(* Deviations (HDev): "readerCaches" - included files are cached by path for the life of the process; "writerAppends" - the      *)
(* output is appended to an existing file instead of replacing it.                                                                *)
EXTENDS ItpRoundTripExport
CONSTANTS Paths, MaxOps, HDev
VARIABLES fs, at, cache, obs, nops, hist
hvars == <<fs, at, cache, obs, nops, hist>>

L1 == <<(<<1>>), (<<"A">>)>>
L2 == <<(<<1, 2>>), (<<"A", "A">>)>>
L4 == <<(<<1, 2, 2, 3>>), (<<"A", "B", "A">>)>>
L3 == <<(<<1, 2, 3>>), (<<"A", "B", "A">>)>>
\* molecules of different size, residue ids, attributes and guards; all are written as moleculetype "mol"
HistMols == << Mk(L1, [re |-> {}, ln |-> {}], 2, <<X("position_restraints", <<1>>, 1, GF)>>, TRUE),
               Mk(L2, [re |-> {E12}, ln |-> {E12}], 2, <<X("bonds", <<2, 1>>, 1, GF)>>, TRUE),
               Mk(L4, [re |-> {E12, E23}, ln |-> {E12, E23}], 1, <<X("angles", <<3, 2, 1>>, 1, NoGuard), X("angles", <<2, 3, 4>>, 2, GN)>>, TRUE),
               Mk(L3, [re |-> {E12, E13, E23}, ln |-> {E12, E13, E23}], 3, <<X("exclusions", <<3, 1, 2>>, 1, NoGuard)>>, TRUE) >>
NMols == Len(HistMols)
NoObs == [valid |-> FALSE, path |-> "", res |-> Finalize(R0)]
Frozen == /\ mol = 0 /\ pc = "hist" /\ out = <<>> /\ secs = {} /\ cur = "" /\ groups = <<>> /\ pend = <<>> /\ gopen = NoGuard
          /\ late = FALSE /\ rd = R0 /\ ri = 1
HInit == /\ Frozen /\ fs = [p \in Paths |-> <<>>] /\ at = [p \in Paths |-> 0] /\ cache = [p \in Paths |-> <<>>] /\ obs = NoObs
         /\ nops = 0 /\ hist = <<>>
Gen(p, i) == /\ nops < MaxOps
             /\ fs' = [fs EXCEPT ![p] = IF HDev = "writerAppends" THEN @ \o Write(HistMols[i]) ELSE Write(HistMols[i])]
             /\ at' = [at EXCEPT ![p] = i] /\ obs' = NoObs /\ UNCHANGED cache
             /\ nops' = nops + 1 /\ hist' = Append(hist, [op |-> "gen", path |-> p, m |-> i])
ReadTop(p) == /\ nops < MaxOps /\ at[p] # 0
              /\ LET content == IF HDev = "readerCaches" /\ cache[p] # <<>> THEN cache[p] ELSE fs[p] IN
                   /\ obs' = [valid |-> TRUE, path |-> p, res |-> Read(content)]
                   /\ cache' = [cache EXCEPT ![p] = content]
              /\ UNCHANGED <<fs, at>>
              /\ nops' = nops + 1 /\ hist' = Append(hist, [op |-> "read", path |-> p, m |-> at[p]])
HNext == /\ (\E p \in Paths : (\E i \in 1..NMols : Gen(p, i)) \/ ReadTop(p))
         /\ UNCHANGED vars
\* every read returns the molecule the path holds now, and nothing but the current content decides it
ReadIsCurrent == obs.valid => /\ obs.res.ok /\ Same(obs.res, Project(HistMols[at[obs.path]]))
                              /\ obs.res = Read(fs[obs.path])
\* a path holds exactly what was last written to it; other paths are untouched
FsHoldsWrite == \A p \in Paths : IF at[p] = 0 THEN fs[p] = <<>> ELSE fs[p] = Write(HistMols[at[p]])
OnlyWritesChangeFiles == [][\A p \in Paths : fs'[p] # fs[p] => (hist'[Len(hist')].op = "gen" /\ hist'[Len(hist')].path = p)]_hvars
\* export: the molecules once, every behaviour of MaxOps operations that ends with a read
ASSUME PrintT(<<"HMOLS", ToJson([i \in 1..NMols |-> CaseOf(HistMols[i])])>>)
HistExport == (nops = MaxOps /\ hist[Len(hist)].op = "read") => PrintT(<<"HIST", ToJson(hist)>>)
MCPaths == {"X", "Y"}
MCInit == HInit
=============================================================================
