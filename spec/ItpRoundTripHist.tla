---------------------------- MODULE ItpRoundTripHist ----------------------------
(* C11, in-process HISTORIES: the file system is state.  gen_params writes molecule after molecule to the same output paths and    *)
(* a topology that #includes a path is read in between; every read must return the molecule that the path holds NOW:              *)
(* Read depends on the current content of the file only (not on what the path held earlier, not on other paths).                  *)
(*   fs[p]    the lines of the file at path p (<<>> = no file)         at[p]   index of the molecule last written to p (0 = none)  *)
(*   cache[p] what a reader that remembers files by path would hold (only consulted under the deviation "readerCaches")           *)
(*   obs      the result of the last read (invalidated by the next write)                                                         *)
(*   ffb      the block of the molecule's name that the force field handed to MetaMolecule.from_itp holds already: nothing, the     *)
(*            block of the generating library (the molecule is named after its residue), or the molecule read there before        *)
(* Deviations (HDev): "readerCaches" - included files are cached by path for the life of the process; "writerAppends" - the      *)
(* output is appended to an existing file instead of replacing it; "readerReusesBlock" - from_itp does not parse the file when    *)
(* the force field already has a block of that name.  Read(file) depends on the file, not on what the force field held before.    *)
(*   plog     the MESSAGE state of the process: how many info / warning / error messages the process has logged so far.  A block  *)
(*            or a link of a force field may carry an [ info ] / [ warning ] / [ error ] message section; when such a block or     *)
(*            link is applied the message belongs to the built molecule and gen_params logs it.  The logging system (polyply's     *)
(*            counting handler) lives as long as the process: the counts are never reset between two calls of gen_params.          *)
(* A run that passes mapping and link application writes its file, and the file reads back to the molecule built, whatever the     *)
(* applied blocks and links said and whatever the process has logged in earlier calls (OutputIgnoresLog, GenWritesWhateverLogged). *)
(* Deviation "errGate": the output is put in place only "if no error came up", decided by the process-wide error count - the run   *)
(* that logs an [ error ] message and EVERY later run of the process leave their path as it was (no file / the stale one).         *)
(*   lib, env the ENVIRONMENT of the process: lib[p] = the lines of a file of the same name p in another directory (a library        *)
(*            directory, where an earlier polymer.itp was parked: gen_params -o <library>/p), env = the directories the include   *)
(*            search path of the environment lists (GMXLIB): <<>> or <<"lib">>; it changes between two operations (SetEnv).       *)
(* A topology in the run directory that #includes p reads the file NEXT TO IT: what the search path lists and what other          *)
(* directories hold does not matter (ReadIsCurrent quantifies over these histories too).  Deviation "searchPathLastWins": the     *)
(* include is looked up in the directory of the topology and then in the listed directories, and the last hit is taken.           *)
EXTENDS ItpRoundTripExport
CONSTANTS Paths, MaxOps, HDev,
          WithEnv,    \* TRUE: histories also write same-named files into the library directory and change the search path
          WithFF,     \* TRUE: histories also read through from_itp into one long-lived force field (ReadFF)
          MolIdx,     \* the molecules (indices into HistMols) the instance generates
          MsgKinds,   \* the message sections the generating force field may carry: records [lv, on], lv = level ("none": no message
                      \* section), on = what carries it ("block": the residue blocks, "link": a link that is applied)
          MaxMsgs     \* bound of the instance: at most so many runs of a history use a force field with a message section
VARIABLES fs, at, cache, obs, nops, hist, ffb, plog, lib, env
hvars == <<fs, at, cache, obs, nops, hist, ffb, plog, lib, env>>

L1 == <<(<<1>>), (<<"A">>)>>
L2 == <<(<<1, 2>>), (<<"A", "A">>)>>
L4 == <<(<<1, 2, 2, 3>>), (<<"A", "B", "A">>)>>
L3 == <<(<<1, 2, 3>>), (<<"A", "B", "A">>)>>
\* molecules of different size, residue ids, attributes and guards; all are written as moleculetype "A" - the name of their first
\* residue, i.e. of a block of the force field they are generated from (gen_params -name A -seq A:n ...)
Named(m) == [m EXCEPT !.name = "A"]
HistMolsRaw == << Mk(L1, [re |-> {}, ln |-> {}], 2, <<X("position_restraints", <<1>>, 1, GF)>>, TRUE),
               Mk(L2, [re |-> {E12}, ln |-> {E12}], 2, <<X("bonds", <<2, 1>>, 1, GF)>>, TRUE),
               Mk(L4, [re |-> {E12, E23}, ln |-> {E12, E23}], 1, <<X("angles", <<3, 2, 1>>, 1, NoGuard), X("angles", <<2, 3, 4>>, 2, GN)>>, TRUE),
               Mk(L3, [re |-> {E12, E13, E23}, ln |-> {E12, E13, E23}], 3, <<X("exclusions", <<3, 1, 2>>, 1, NoGuard)>>, TRUE) >>
HistMols == [i \in DOMAIN HistMolsRaw |-> Named(HistMolsRaw[i])]
NMols == Len(HistMols)
NoBlock == [has |-> FALSE, res |-> Finalize(R0)]
\* some block named like the molecule that is not the content of the file (stands for the generating library's residue block)
LibBlock == [has |-> TRUE, res |-> [Finalize(R0) EXCEPT !.name = "A", !.nrexcl = "1"]]
NoObs == [valid |-> FALSE, path |-> "", res |-> Finalize(R0)]
Frozen == /\ mol = 0 /\ pc = "hist" /\ out = <<>> /\ secs = {} /\ cur = "" /\ groups = <<>> /\ pend = <<>> /\ gopen = NoGuard
          /\ late = FALSE /\ rd = R0 /\ ri = 1
NoMsg == [lv |-> "none", on |-> ""]
Levels == {"info", "warning", "error"}
AllMsgKinds == {NoMsg} \cup {[lv |-> v, on |-> c] : v \in Levels, c \in {"block", "link"}}
NoLog == [v \in Levels |-> 0]
Bump(lg, lv) == IF lv \in Levels THEN [lg EXCEPT ![lv] = @ + 1] ELSE lg
HInit == /\ Frozen /\ fs = [p \in Paths |-> <<>>] /\ at = [p \in Paths |-> 0] /\ cache = [p \in Paths |-> <<>>] /\ obs = NoObs
         /\ ffb \in (IF WithFF THEN {NoBlock, LibBlock} ELSE {NoBlock})
         /\ plog = NoLog /\ lib = [p \in Paths |-> <<>>] /\ env = <<>>
         /\ nops = 0 /\ hist = <<[op |-> "init", path |-> IF ffb.has THEN "lib" ELSE "fresh", m |-> 0, lv |-> "none", on |-> ""]>>
\* one call of gen_params in the process: force field whose applied blocks / links carry the message k, molecule i, output path p.
\* The run passes mapping and link application (every molecule of the instance does): the messages are logged - the process state
\* plog grows - and the file is written.  Nothing in the intended design reads plog.
Gen(p, i, k) ==
    LET logged == Bump(plog, k.lv)                             \* after the messages of this call have been printed
        held == HDev = "errGate" /\ logged["error"] > 0         \* "the force field reported errors": output withheld
    IN /\ nops < MaxOps
       /\ k = NoMsg \/ Cardinality({j \in DOMAIN hist : hist[j].op = "gen" /\ hist[j].lv # "none"}) < MaxMsgs
       /\ fs' = IF held THEN fs
                ELSE [fs EXCEPT ![p] = IF HDev = "writerAppends" THEN @ \o Write(HistMols[i]) ELSE Write(HistMols[i])]
       /\ plog' = IF held THEN Bump(logged, "error") ELSE logged   \* the complaint about the withheld file is an error message too
       /\ at' = [at EXCEPT ![p] = i] /\ obs' = NoObs /\ UNCHANGED <<cache, ffb, lib, env>>
       /\ nops' = nops + 1 /\ hist' = Append(hist, [op |-> "gen", path |-> p, m |-> i, lv |-> k.lv, on |-> k.on])
\* gen_params -o <library directory>/p: a file of the same name in another directory (nothing in the run directory changes)
GenLib(p, i) == /\ WithEnv /\ nops < MaxOps
                /\ lib' = [lib EXCEPT ![p] = Write(HistMols[i])]
                /\ UNCHANGED <<fs, at, cache, obs, ffb, plog, env>>
                /\ nops' = nops + 1 /\ hist' = Append(hist, [op |-> "genlib", path |-> p, m |-> i, lv |-> "none", on |-> ""])
\* the environment changes: the include search path lists the library directory / lists nothing
SetEnv(e) == /\ WithEnv /\ nops < MaxOps /\ e # env
             /\ env' = e /\ UNCHANGED <<fs, at, cache, obs, ffb, plog, lib>>
             /\ nops' = nops + 1 /\ hist' = Append(hist, [op |-> "setenv", path |-> IF e = <<>> THEN "none" ELSE "lib", m |-> 0, lv |-> "none", on |-> ""])
\* the file an #include of p in the run directory's topology resolves to
Included(p) == IF HDev = "searchPathLastWins" /\ env # <<>> /\ lib[p] # <<>> THEN lib[p] ELSE fs[p]
ReadTop(p) == /\ nops < MaxOps /\ at[p] # 0
              /\ LET content == IF HDev = "readerCaches" /\ cache[p] # <<>> THEN cache[p] ELSE Included(p) IN
                   /\ obs' = [valid |-> TRUE, path |-> p, res |-> Read(content)]
                   /\ cache' = [cache EXCEPT ![p] = content]
              /\ UNCHANGED <<fs, at, ffb, plog, lib, env>>
              /\ nops' = nops + 1 /\ hist' = Append(hist, [op |-> "read", path |-> p, m |-> at[p], lv |-> "none", on |-> ""])
\* MetaMolecule.from_itp(force_field, file of p, name) with the one force field of the process: the block of that name is replaced
ReadFF(p) == /\ WithFF /\ nops < MaxOps /\ at[p] # 0
             /\ LET res == IF HDev = "readerReusesBlock" /\ ffb.has THEN ffb.res ELSE Read(fs[p]) IN
                  /\ obs' = [valid |-> TRUE, path |-> p, res |-> res]
                  /\ ffb' = [has |-> TRUE, res |-> res]
             /\ UNCHANGED <<fs, at, cache, plog, lib, env>>
             /\ nops' = nops + 1 /\ hist' = Append(hist, [op |-> "readff", path |-> p, m |-> at[p], lv |-> "none", on |-> ""])
HNext == /\ \/ (\E p \in Paths : (\E i \in MolIdx, k \in MsgKinds : Gen(p, i, k)) \/ ReadTop(p) \/ ReadFF(p) \/ (\E i \in MolIdx : GenLib(p, i)))
            \/ (\E e \in {<<>>, <<"lib">>} : SetEnv(e))
         /\ UNCHANGED vars
\* every read returns the molecule the path holds now, and nothing but the current content decides it
ReadIsCurrent == obs.valid => /\ obs.res.ok /\ Same(obs.res, Project(HistMols[at[obs.path]]))
                              /\ obs.res = Read(fs[obs.path])
\* a path holds exactly what was last written to it; other paths are untouched
FsHoldsWrite == \A p \in Paths : IF at[p] = 0 THEN fs[p] = <<>> ELSE fs[p] = Write(HistMols[at[p]])
\* the run directory is untouched by what happens in the library directory and in the environment
EnvLeavesRunDirectory == [][hist'[Len(hist')].op \in {"genlib", "setenv"} => fs' = fs /\ at' = at /\ obs' = obs]_hvars
OnlyWritesChangeFiles == [][\A p \in Paths : fs'[p] # fs[p] => (hist'[Len(hist')].op = "gen" /\ hist'[Len(hist')].path = p)]_hvars
\* ---- messages.  The operations of the process with their messages erased decide what every path holds: the content of p is what the
\* LAST run with output path p wrote - irrespective of the message sections of that run's force field and of any earlier run's
GensTo(p) == {j \in DOMAIN hist : hist[j].op = "gen" /\ hist[j].path = p}
LastGenTo(p) == CHOOSE j \in GensTo(p) : \A j2 \in GensTo(p) : j2 <= j
OutputIgnoresLog == \A p \in Paths : fs[p] = (IF GensTo(p) = {} THEN <<>> ELSE Write(HistMols[hist[LastGenTo(p)].m]))
\* every run (it passed mapping and link application) writes its file, and the file reads back to the molecule the run built - in
\* every process state plog, whatever plog' is
GenWritesWhateverLogged ==
    [][LET e == hist'[Len(hist')] IN
         e.op = "gen" => /\ fs'[e.path] = Write(HistMols[e.m])
                         /\ LET r == Read(fs'[e.path]) IN r.ok /\ Same(r, Project(HistMols[e.m]))]_hvars
\* the message state is state of the PROCESS: the counts are those of all runs so far (nothing resets them between two calls) ...
CountOf(lv) == Cardinality({j \in DOMAIN hist : hist[j].op = "gen" /\ hist[j].lv = lv})
LogSurvivesCalls == \A lv \in Levels : plog[lv] = CountOf(lv)
\* ... and only runs feed it
OnlyRunsLog == [][plog' # plog => hist'[Len(hist')].op = "gen"]_hvars
\* export: the molecules once, every behaviour of MaxOps operations that ends with a read
ASSUME PrintT(<<"HMOLS", ToJson([i \in 1..NMols |-> CaseOf(HistMols[i])])>>)
HistExport == (nops = MaxOps /\ hist[Len(hist)].op \in {"read", "readff"}) => PrintT(<<"HIST", ToJson(hist)>>)
MCPaths == {"X", "Y"}
MCPathOne == {"X"}
MCMolAll == 1..NMols
MCMolTwo == {2, 3}
MCMsgNone == {NoMsg}
MCMsgAll == AllMsgKinds
MCInit == HInit
=============================================================================
