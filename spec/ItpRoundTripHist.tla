---------------------------- MODULE ItpRoundTripHist ----------------------------
(* C11, in-process HISTORIES: the file system is state.  gen_params writes molecule after molecule to the same output paths and    *)
(* a topology that #includes a path is read in between; every read must return the molecule that the path holds NOW:              *)
(* Read depends on the current content of the file only (not on what the path held earlier, not on other paths).                  *)
(*   fs[p]    the lines of the file at path p (<<>> = no file)         at[p]   index of the molecule last written to p (0 = none)  *)
(*   cache[p] what a reader that remembers files by path would hold (only consulted under the deviation "readerCaches")           *)
(*   obs      the result of the last read (invalidated by the next write)                                                         *)
(*   ffb      the block of the molecule's name that the force field handed to MetaMolecule.from_itp holds already: nothing, the     *)
(*            block of the generating library (the molecule is named after its residue), or the molecule read there before        *)
(* Deviations (HDev): "readerCaches" - included files are cached by path for the life of the process; "writerAppends" - the      *)
(* output is appended to an existing file instead of replacing it; "readerReusesBlock" - from_itp does not parse the file when    *)
(* the force field already has a block of that name.  Read(file) depends on the file, not on what the force field held before.    *)
EXTENDS ItpRoundTripExport
CONSTANTS Paths, MaxOps, HDev,
          WithFF      \* TRUE: histories also read through from_itp into one long-lived force field (ReadFF)
VARIABLES fs, at, cache, obs, nops, hist, ffb
hvars == <<fs, at, cache, obs, nops, hist, ffb>>

L1 == <<(<<1>>), (<<"A">>)>>
L2 == <<(<<1, 2>>), (<<"A", "A">>)>>
L4 == <<(<<1, 2, 2, 3>>), (<<"A", "B", "A">>)>>
L3 == <<(<<1, 2, 3>>), (<<"A", "B", "A">>)>>
\* molecules of different size, residue ids, attributes and guards; all are written as moleculetype "A" - the name of their first
\* residue, i.e. of a block of the force field they are generated from (gen_params -name A -seq A:n ...)
Named(m) == [m EXCEPT !.name = "A"]
HistMolsRaw == << Mk(L1, [re |-> {}, ln |-> {}], 2, <<X("position_restraints", <<1>>, 1, GF)>>, TRUE),
               Mk(L2, [re |-> {E12}, ln |-> {E12}], 2, <<X("bonds", <<2, 1>>, 1, GF)>>, TRUE),
               Mk(L4, [re |-> {E12, E23}, ln |-> {E12, E23}], 1, <<X("angles", <<3, 2, 1>>, 1, NoGuard), X("angles", <<2, 3, 4>>, 2, GN)>>, TRUE),
               Mk(L3, [re |-> {E12, E13, E23}, ln |-> {E12, E13, E23}], 3, <<X("exclusions", <<3, 1, 2>>, 1, NoGuard)>>, TRUE) >>
HistMols == [i \in DOMAIN HistMolsRaw |-> Named(HistMolsRaw[i])]
NMols == Len(HistMols)
NoBlock == [has |-> FALSE, res |-> Finalize(R0)]
\* some block named like the molecule that is not the content of the file (stands for the generating library's residue block)
LibBlock == [has |-> TRUE, res |-> [Finalize(R0) EXCEPT !.name = "A", !.nrexcl = "1"]]
NoObs == [valid |-> FALSE, path |-> "", res |-> Finalize(R0)]
Frozen == /\ mol = 0 /\ pc = "hist" /\ out = <<>> /\ secs = {} /\ cur = "" /\ groups = <<>> /\ pend = <<>> /\ gopen = NoGuard
          /\ late = FALSE /\ rd = R0 /\ ri = 1
HInit == /\ Frozen /\ fs = [p \in Paths |-> <<>>] /\ at = [p \in Paths |-> 0] /\ cache = [p \in Paths |-> <<>>] /\ obs = NoObs
         /\ ffb \in (IF WithFF THEN {NoBlock, LibBlock} ELSE {NoBlock})
         /\ nops = 0 /\ hist = <<[op |-> "init", path |-> IF ffb.has THEN "lib" ELSE "fresh", m |-> 0]>>
Gen(p, i) == /\ nops < MaxOps
             /\ fs' = [fs EXCEPT ![p] = IF HDev = "writerAppends" THEN @ \o Write(HistMols[i]) ELSE Write(HistMols[i])]
             /\ at' = [at EXCEPT ![p] = i] /\ obs' = NoObs /\ UNCHANGED <<cache, ffb>>
             /\ nops' = nops + 1 /\ hist' = Append(hist, [op |-> "gen", path |-> p, m |-> i])
ReadTop(p) == /\ nops < MaxOps /\ at[p] # 0
              /\ LET content == IF HDev = "readerCaches" /\ cache[p] # <<>> THEN cache[p] ELSE fs[p] IN
                   /\ obs' = [valid |-> TRUE, path |-> p, res |-> Read(content)]
                   /\ cache' = [cache EXCEPT ![p] = content]
              /\ UNCHANGED <<fs, at, ffb>>
              /\ nops' = nops + 1 /\ hist' = Append(hist, [op |-> "read", path |-> p, m |-> at[p]])
\* MetaMolecule.from_itp(force_field, file of p, name) with the one force field of the process: the block of that name is replaced
ReadFF(p) == /\ WithFF /\ nops < MaxOps /\ at[p] # 0
             /\ LET res == IF HDev = "readerReusesBlock" /\ ffb.has THEN ffb.res ELSE Read(fs[p]) IN
                  /\ obs' = [valid |-> TRUE, path |-> p, res |-> res]
                  /\ ffb' = [has |-> TRUE, res |-> res]
             /\ UNCHANGED <<fs, at, cache>>
             /\ nops' = nops + 1 /\ hist' = Append(hist, [op |-> "readff", path |-> p, m |-> at[p]])
HNext == /\ (\E p \in Paths : (\E i \in 1..NMols : Gen(p, i)) \/ ReadTop(p) \/ ReadFF(p))
         /\ UNCHANGED vars
\* every read returns the molecule the path holds now, and nothing but the current content decides it
ReadIsCurrent == obs.valid => /\ obs.res.ok /\ Same(obs.res, Project(HistMols[at[obs.path]]))
                              /\ obs.res = Read(fs[obs.path])
\* a path holds exactly what was last written to it; other paths are untouched
FsHoldsWrite == \A p \in Paths : IF at[p] = 0 THEN fs[p] = <<>> ELSE fs[p] = Write(HistMols[at[p]])
OnlyWritesChangeFiles == [][\A p \in Paths : fs'[p] # fs[p] => (hist'[Len(hist')].op = "gen" /\ hist'[Len(hist')].path = p)]_hvars
\* export: the molecules once, every behaviour of MaxOps operations that ends with a read
ASSUME PrintT(<<"HMOLS", ToJson([i \in 1..NMols |-> CaseOf(HistMols[i])])>>)
HistExport == (nops = MaxOps /\ hist[Len(hist)].op \in {"read", "readff"}) => PrintT(<<"HIST", ToJson(hist)>>)
MCPaths == {"X", "Y"}
MCInit == HInit
=============================================================================
