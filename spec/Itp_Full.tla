---- MODULE Itp_Full ----
(* instance wrapper for C11 (TLC evaluates zero-arity definitions eagerly: one module per instance) *)
EXTENDS ItpRoundTripExport
MCMols == TLCEval(MolsFull(0))
====
