SPECIFICATION Spec
CONSTANTS
 Content <- MCContent
 Systems <- MCSystemsDev
 BuildFiles <- MCBuildDev
 DevVolLost = TRUE
 DevVolOverwritten = FALSE
 DevUserRegen = FALSE
 DevRecentre = FALSE
INVARIANT UserVolumeWins
CHECK_DEADLOCK FALSE
