SPECIFICATION Spec
CONSTANTS
 Content <- MCContent
 Systems <- MCSystemsDev
 BuildFiles <- MCBuildDev
 DevVolLost = TRUE
 DevVolOverwritten = FALSE
 DevUserRegen = FALSE
 DevRecentre = FALSE
 DevKeySites = FALSE
 DevProcForgets = FALSE
 LargeN = 16
 DevSkipVSWhenNothingToOptimise = FALSE
INVARIANT UserVolumeWins
CHECK_DEADLOCK FALSE
