SPECIFICATION Spec
CONSTANTS
 Content <- MCContent
 Systems <- MCSystemsDev
 BuildFiles <- MCBuildDev
 DevVolLost = TRUE
 DevVolOverwritten = FALSE
 DevUserRegen = FALSE
 DevRecentre = FALSE
 DevKeySites = FALSE
 DevProcForgets = FALSE
 LargeN = 16
INVARIANT UserVolumeWins
CHECK_DEADLOCK FALSE
