SPECIFICATION Spec
CONSTANTS
 Systems <- MCSys
 DevSkipConsumes = TRUE
INVARIANT LoopIsDeclarative
INVARIANT RowsDisjoint
INVARIANT RowsPrefix
INVARIANT OnlyMissingBuilt
CHECK_DEADLOCK FALSE
