SPECIFICATION XSpec
CONSTANTS
 L = 3
 History <- HRingChain1
 Grid <- Grid3
 Bundle <- Bundle6
 MaxIter = 5
 MaxReject = 1
 Force = TRUE
 Dev <- NoDev
INVARIANT StepOne
INVARIANT NoOverlap
INVARIANT ForceWithinLimit
INVARIANT ExportInv
CHECK_DEADLOCK FALSE
