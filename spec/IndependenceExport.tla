------------------------- MODULE IndependenceExport -------------------------
(* S->I for C13.  (1) For every base case: the declared result PResult and the labellings / orderings of the SAME input that  *)
(* the harness must run through the real pipeline (node keys incl. key sets without 0, non-contiguous and string keys; node  *)
(* insertion orders; edge insertion orders and orientations; presentations of the same set of definitions = orders of the    *)
(* input files and of the definitions inside a file that keep the relative order of definitions of the same thing).          *)
(* (2) ExportDevRes (diagnostic, not part of the check since F31-F33 are repaired): every result the I-layer reaches with a  *)
(* deviation record, e.g. DevKnownCanon; per variant the export still carries the result the repaired F33 would give for    *)
(* that order of files (itpout), so that a returning defect is named in the VIOLATION message.                               *)
EXTENDS IndependenceMC, Json

(* ---- JSON shapes *)
OutJ(o) == [err |-> o.err, atoms |-> o.atoms, ints |-> SetToSeq({[x |-> x, n |-> o.ints[x]] : x \in DOMAIN o.ints}), nrexcl |-> o.nrexcl, cites |-> SetToSeq(o.cites)]
EdgeSeq(E) == SetToSortSeq({<<MinOf(e), MaxOf(e)>> : e \in E}, LAMBDA x, y : x[1] < y[1] \/ (x[1] = y[1] /\ x[2] < y[2]))
CaseJ(c) == [id |-> c.id, ff |-> c.ff, n |-> c.n, start |-> c.start, rn |-> c.rn, fi |-> c.fi, E |-> EdgeSeq(c.E), mods |-> c.mods, mark |-> c.mark]
LinkJ(l) == [orders |-> l.orders, atoms |-> [a \in DOMAIN l.atoms |-> [oi |-> l.atoms[a].oi, an |-> l.atoms[a].an, rn |-> SetToSeq(l.atoms[a].rn), mk |-> l.atoms[a].mk, ty |-> l.atoms[a].ty]],
             inters |-> l.inters, rep |-> l.rep, del |-> SetToSeq(l.del)]
FFJ(F) == [blocks |-> [b \in DOMAIN F.blocks |-> [F.blocks[b] EXCEPT !.cite = SetToSeq(@)]], links |-> [l \in DOMAIN F.links |-> LinkJ(F.links[l])],
           mods |-> F.mods, bib |-> SetToSeq(F.bib), files |-> F.files]

(* ---- labellings *)
NKey(st, v) == [s |-> st, v |-> v]
KeySets(n) == {[p \in 1..n |-> NKey(FALSE, p - 1)], [p \in 1..n |-> NKey(FALSE, p)], [p \in 1..n |-> NKey(FALSE, <<3, 7, 12, 20>>[p])], [p \in 1..n |-> NKey(TRUE, p)]}
IdSeq(n) == [p \in 1..n |-> p]
\* the order in which parse_json hands the nodes on: sorted by node key
ByKey(keys) == SetToSortSeq(DOMAIN keys, LAMBDA p, q : keys[p].v < keys[q].v)
Orientations(es) == {[q \in DOMAIN es |-> IF q \in fl THEN <<es[q][2], es[q][1]>> ELSE es[q]] : fl \in SUBSET DOMAIN es}
Flip(es) == [q \in DOMAIN es |-> <<es[q][2], es[q][1]>>]
Var(fam, keys, nodeorder, eseq, files, route) == [fam |-> fam, keys |-> keys, nodeorder |-> nodeorder, eseq |-> eseq, files |-> files, route |-> route]
\* at most m elements of a set, evenly spread over an arbitrary but fixed enumeration
Sample(S, m) == LET sq == SetToSeq(S)  st == IF Len(sq) <= m THEN 1 ELSE (Len(sq) + m - 1) \div m IN {sq[i] : i \in {j \in DOMAIN sq : (j - 1) % st = 0}}
Nth(S, j) == LET sq == SetToSeq(S) IN sq[((j - 1) % Len(sq)) + 1]

MaxPres == 60
Variants(c) ==
  LET n == c.n
      e0 == EdgeSeq(c.E)
      k0 == [p \in 1..n |-> NKey(FALSE, p - 1)]
      f0 == BasePresentation(FFof(c))
      keyAssign == UNION {{[p \in 1..n |-> ks[pm[p]]] : pm \in PermsOf(1..n)} : ks \in KeySets(n)}
      nodeOrders == {[i \in 1..n |-> pm[i]] : pm \in PermsOf(1..n)}
      edgeSeqs == IF Len(e0) <= 3 THEN UNION {Orientations([i \in DOMAIN e0 |-> e0[pm[i]]]) : pm \in PermsOf(DOMAIN e0)}
                  ELSE Orientations(e0) \cup UNION {{[i \in DOMAIN e0 |-> e0[pm[i]]], Flip([i \in DOMAIN e0 |-> e0[pm[i]]])} : pm \in PermsOf(DOMAIN e0)}
      pres == Sample(PresTab[c.ff], MaxPres)
      famA == {Var("keys", ka, ByKey(ka), e0, f0, "json") : ka \in keyAssign}
      famB == {Var("nodes", k0, no, e0, f0, "api") : no \in nodeOrders}
      famC == {Var("edges", k0, IdSeq(n), es, f0, "api") : es \in edgeSeqs} \cup {Var("edges", k0, Reverse(IdSeq(n)), es, f0, "api") : es \in Sample(edgeSeqs, 40)}
      famD == {Var("defs", k0, IdSeq(n), e0, fs, "api") : fs \in pres}
      famX == {Var("mixed", Nth(keyAssign, 7 * j), Nth(nodeOrders, 5 * j), Nth(edgeSeqs, 3 * j), Nth(pres, 11 * j), "api") : j \in 1..40}
      famJ == {LET ka == Nth(keyAssign, 13 * j) IN Var("mixedjson", ka, ByKey(ka), Nth(edgeSeqs, 3 * j + 1), Nth(pres, 5 * j), "json") : j \in 1..16}
  IN famA \cup famB \cup famC \cup famD \cup famX \cup famJ
BaseVariant(c) == Var("base", [p \in 1..c.n |-> NKey(FALSE, p - 1)], IdSeq(c.n), EdgeSeq(c.E), BasePresentation(FFof(c)), "api")

\* the result of THIS presentation under the open finding itpGlobal (a function of the order of the files only)
ItpRisk(F) == (\E f \in DOMAIN F.files : F.files[f].syn = "itp") /\ (\E i \in DOMAIN F.links : \E q \in DOMAIN F.links[i].inters : F.links[i].inters[q].ver # 1)
ItpTab(c, vs) == LET F == FFof(c)
                     Ls == IF ItpRisk(F) THEN {Loaded(F, v.files, TRUE) : v \in vs} ELSE {}
                 IN [L \in Ls |-> PRun(c, L, FreshBx(F, L)).out]
WithItp(c, v, tab, exp) == LET o == IF ItpRisk(FFof(c)) THEN tab[Loaded(FFof(c), v.files, TRUE)] ELSE exp
                           IN [var |-> v, itpdiffers |-> o # exp, itpout |-> IF o # exp THEN OutJ(o) ELSE OutJ(ErrOut(""))]
\* one record per case
\* (bound variables hold evaluated values; LET definitions would be re-evaluated inside the lazily built sequence)
ExportCases == \A c \in Cases : \A exp \in {PResult(c)} : \A vs \in {Variants(c) \cup {BaseVariant(c)}} : \A tab \in {ItpTab(c, vs)} : \A sq \in {SetToSeq(vs \ {BaseVariant(c)})} :
   PrintT(<<"CASE", ToJson([case |-> CaseJ(c), expected |-> OutJ(exp), base |-> WithItp(c, BaseVariant(c), tab, exp),
                            variants |-> [k \in DOMAIN sq |-> WithItp(c, sq[k], tab, exp)]])>>)
ExportFFs(x) == PrintT(<<"FFS", ToJson([i \in DOMAIN FFs |-> FFJ(FFs[i])])>>)
\* which pairs of definitions (positions in the base order) keep their relative order, per force field (documentation of the domain)
ExportDomain(x) == PrintT(<<"KEEP", ToJson([i \in DOMAIN FFs |-> SetToSeq(MustKeep(FFs[i]))])>>)

\* (1) is evaluated once, on the first state
ExportOnce == (s.pc = "load" /\ case = CHOOSE c \in Cases : \A d \in Cases : c.id <= d.id) => (ExportFFs(0) /\ ExportDomain(0) /\ ExportCases)
\* (2) every terminal state of the I-layer under the deviations of the open findings
Stop == FALSE /\ UNCHANGED vars
ExportDevRes == s.pc = "done" => PrintT(<<"DEVRES", ToJson([id |-> case.id, out |-> OutJ(s.out), fired |-> SetToSeq(s.fired)])>>)
=============================================================================
