SPECIFICATION Spec
CONSTANTS
 Configs <- MCFFSplit
 DevUserLast = FALSE
 DevFirstWins = FALSE
 DevBibMerge = FALSE
 DevSplitAll = FALSE
 DevTmplMerge = FALSE
 DevSkipUserUnknown = FALSE
 DevIdReuse = TRUE
INVARIANT StoreIsDeclarative
CHECK_DEADLOCK FALSE
