---------------------------- MODULE NBExport ----------------------------
(* S->I export for C16: every behaviour of NBEngine up to MaxOps operations is printed as one JSON line  *)
(* (operation, abstract state after it, query answers) and replayed on the real NonBondEngine.            *)
EXTENDS NBEngine, Json
VARIABLE hist

MCNodes == {0, 1, 2}
MCMolOf == (0 :> 0) @@ (1 :> 0) @@ (2 :> 1)
\* four sites of a 3x3x3 periodic lattice: 0-1 adjacent, 0-2 adjacent through the boundary, 3 far from all
MCPts == {<<0,0,0>>, <<1,0,0>>, <<2,0,0>>, <<1,1,1>>}
MCPtsThr == {<<0,0,0>>, <<2,0,0>>, <<1,1,1>>}
QPts == <<(<<0,0,0>>), (<<1,0,0>>), (<<2,0,0>>), (<<1,1,1>>), (<<0,2,0>>)>>
Excls == << {}, {0}, {1, 0} >>
Queries == [i \in 1..Len(QPts) |->
              [p |-> QPts[i], close |-> TooClose(QPts[i]),
               inr |-> [j \in 1..Len(Excls) |-> SetToSortSeq(InRange(QPts[i], Excls[j]), <)],
               \* squared minimum-image distance to every node's stored position (-1: not positioned); the replay asks
               \* pbc_min_dist(point, get_point(node)) - the way RandomWalk.checks_milestones uses the engine - and then
               \* compares the whole state again: a query must not change what the engine holds (QueryPure)
               d2 |-> [k \in 1..Cardinality(Nodes) |-> LET n == k - 1 IN IF pos[n] = None THEN -1 ELSE D2(QPts[i], pos[n])]]]'
XInit == Init /\ hist = <<>>
XNext == Next /\ hist' = Append(hist, [op |-> last', post |-> [pos |-> pos', defined |-> defined', trees |-> trees'], q |-> Queries])
XSpec == XInit /\ [][XNext]_<<vars, hist>>
ExportInv == (nops = MaxOps) => PrintT(<<"CASE", ToJson(hist)>>)
=============================================================================
