---------------------------- MODULE BmExport ----------------------------
(* S->I export for C06: every complete behaviour of Backmap (molecule, factor, one angle triple per placed     *)
(* residue) is printed as one JSON record with the exact coordinates (integer numerators over den) of every    *)
(* atom; the harness renders it as .top / .bld / .gro files, scripts the optimiser result and compares.        *)
EXTENDS MC_Backmap, Json
VARIABLE hist

XMols1 == Mols1
XMols2 == Mols2
XMols3 == { <<Res(a, C1, TRUE), Res(b, C2, TRUE), Res(d, C3, TRUE)>> : a \in TIds, b \in TIds, d \in TIds }
XFudges == { <<2, 5>>, <<1, 1>>, <<5, 4>> }
XFudges2 == { <<2, 5>>, <<5, 4>> }
\* six angle triples for the two-residue export (the one-residue export and the simulation use all 64)
XAngles6 == { <<1, 0, 0>>, <<0, 1, 0>>, <<0, 0, 1>>, <<1, 2, 3>>, <<3, 1, 2>>, <<2, 3, 1>> }

XInit == Init /\ hist = <<>>
XNext == \/ Skip /\ hist' = hist
         \/ \E k \in Angles : Place(k) /\ hist' = Append(hist, k)
XSpec == XInit /\ [][XNext]_<<vars, hist>>

UsedTypes == {mol[r].type : r \in 1..Len(mol)}
TypeOut(ty) == [names |-> Names(ty), u |-> [i \in 1..NAt(ty) |-> TypeDefs[ty].u[Names(ty)[i]]],
                tn |-> [i \in 1..NAt(ty) |-> TN(ty, Names(ty)[i])],
                bonds |-> TypeDefs[ty].bonds, vs |-> TypeDefs[ty].vs]
Case == [mol |-> mol, p |-> fud[1], q |-> fud[2], den |-> Den, lcm |-> L, ks |-> hist,
         types |-> [ty \in UsedTypes |-> TypeOut(ty)],
         pos |-> [r \in 1..Len(mol) |-> [i \in 1..NAt(mol[r].type) |-> pos[<<r, Names(mol[r].type)[i]>>]]]]
ExportInv == (placed = Len(mol)) => PrintT(<<"CASE", ToJson(Case)>>)
=============================================================================
