SPECIFICATION Spec
CONSTANTS
 Inputs <- MCInputs
 Dev <- DevF31
INVARIANT C01_Inv
CHECK_DEADLOCK FALSE
