INIT HInit
NEXT HNext
CONSTANTS
 Mols = {}
 Dev = "none"
 FixedOrder = TRUE
 Paths <- MCPaths
 MaxOps = 4
 WithFF = TRUE
 HDev = "none"
INVARIANT ReadIsCurrent
INVARIANT FsHoldsWrite
INVARIANT HistExport
PROPERTY OnlyWritesChangeFiles
CHECK_DEADLOCK FALSE
