SPECIFICATION Spec
CONSTANTS
 Inputs <- MCInputs
 Dev <- DevExMax
INVARIANT C14_Inv
CHECK_DEADLOCK FALSE
