SPECIFICATION Spec
CONSTANTS
 Inputs <- MCInputs
 Dev <- NoDev
INVARIANT C01_Inv
INVARIANT Base_Inv
INVARIANT Layout_Inv
INVARIANT ExportC01
CHECK_DEADLOCK FALSE
