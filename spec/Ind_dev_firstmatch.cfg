SPECIFICATION Spec
CONSTANTS
 Cases <- CasesLink
 FFs <- FFcat
 Dev <- DevFirstMatchOnly
INVARIANT Confluent
CHECK_DEADLOCK FALSE
