INIT MCInitTiny
NEXT Next
CONSTANTS
 Inputs = {}
 LibOf <- MCLibOf
 Dev <- DevAnyRes
 FreeOrder = TRUE
INVARIANT ResolveLaw
CHECK_DEADLOCK FALSE
