--------------------------- MODULE MC_GenCoords ---------------------------
EXTENDS GenCoords, Json
R(rn, na) == [rn |-> rn, na |-> na]
MolX == << R("A", 1) >>
MolY == << R("A", 2), R("B", 1) >>
MolZ == << R("B", 2), R("A", 1), R("B", 2) >>
MolTypes == {MolX, MolY, MolZ}
MolLists == { <<a>> : a \in MolTypes } \cup { <<a, b>> : a \in MolTypes, b \in MolTypes }
            \cup { <<a, b, c>> : a \in MolTypes, b \in MolTypes, c \in {MolX, MolY} }
NAtoms(ml) == LET F == FlatRes(ml, 1) IN LET RECURSIVE S(_) S(k) == IF k = 0 THEN 0 ELSE S(k - 1) + F[k].na IN S(Len(F))
MCSystems == { [mols |-> ml, K |-> k, skip |-> sk, res |-> rs] :
                 ml \in MolLists, k \in 0..9, sk \in {{}, {"A"}, {"B"}}, rs \in {"mol", "meta"} }
MCSys == { s \in MCSystems : s.K <= (IF s.res = "mol" THEN NAtoms(s.mols) ELSE Len(FlatRes(s.mols, 1))) }
ExportInv == (Done \/ err) => PrintT(<<"CASE", ToJson([mols |-> sys.mols, K |-> sys.K, skip |-> SetToSeq(sys.skip), res |-> sys.res,
                                                        err |-> err, exp |-> IF err THEN <<>> ELSE Expected(sys)])>>)
=============================================================================
