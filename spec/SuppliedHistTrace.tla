---------------------------- MODULE SuppliedHistTrace ----------------------------
(* I->S for the in-process histories of C04: one trace = what ONE python process did - coordinate files put under a few paths      *)
(* (written in place or moved there, with their size and time stamp) and calls of Topology.add_positions_from_file / gen_coords on  *)
(* them in between, with varying topologies and options.                                                                            *)
(*   put  event: path, f (frame = content), K (rows), t (time stamp)                                                                *)
(*   call event: path, o (index into the option table of the document), err (IOError: incomplete residue), box (frame whose box the  *)
(*               result carries), rs (per residue status / file rows / frames the coordinates were found in), intact (the input    *)
(*               file has the bytes and the time stamp it had before the call)                                                     *)
(* The trace specification takes the actions of SuppliedHist: Put and Call drive the same file-system / process state, and the     *)
(* observed result must be the one the CURRENT file of the path gives.                                                               *)
EXTENDS SuppliedHist, Json, IOUtils
VARIABLES tid, l
Doc == JsonDeserialize(IOEnv.TRACE_FILE)
Traces == Doc.traces
TOptSeq == [i \in DOMAIN Doc.opts |-> [mols |-> Doc.opts[i].mols, skip |-> ToSet(Doc.opts[i].skip), res |-> Doc.opts[i].res]]
TPaths == {"P1", "P2", "P3"}
TNone == {}
TNoDev == {"none"}
ASSUME TLCSet(1, {}) /\ TLCSet(2, [t \in 1..Len(Traces) |-> 0])
Ev == Traces[tid][l]
TPut == /\ Ev.op = "put" /\ Ev.K >= 1
        /\ Put(Ev.path, [f |-> Ev.f, K |-> Ev.K, t |-> Ev.t])
TCall == /\ Ev.op = "call"
         /\ Call(Ev.path, Ev.o)
         /\ Ev.intact
         /\ obs'.res.err = Ev.err
         /\ ~Ev.err => (obs'.res.box = Ev.box /\ obs'.res.rs = Ev.rs)
TInit == HInit /\ tid \in 1..Len(Traces) /\ l = 1
TNext == /\ l <= Len(Traces[tid]) /\ (TPut \/ TCall) /\ l' = l + 1 /\ tid' = tid /\ UNCHANGED <<vars, hdev>>
TSpec == TInit /\ [][TNext]_<<vars, hvars, tid, l>>
Mark == (l = Len(Traces[tid]) + 1) => TLCSet(1, TLCGet(1) \cup {tid})
Prog == TLCSet(2, [TLCGet(2) EXCEPT ![tid] = IF @ < l - 1 THEN l - 1 ELSE @])
Accepted == IF TLCGet(1) = 1..Len(Traces) THEN TRUE
            ELSE (PrintT(<<"REJECTED", ToJson(SetToSeq({<<t, TLCGet(2)[t]>> : t \in (1..Len(Traces)) \ TLCGet(1)}))>>) /\ FALSE)
=============================================================================
