-------------------------- MODULE CombRuleExport --------------------------
(* S->I export for X03(b): every (rule, type A, type B) of the grid with the I-layer result (polyply's table and the    *)
(* GROMACS numbering) and the P-layer result, as squared rationals.                                                     *)
EXTENDS CombRule, Json
MCGrid == {1, 2, 3, 5}
MCGridSmall == {1, 2, 3}
R2(p) == [n |-> p[1], d |-> p[2]]
Rec(r) == [nb1 |-> R2(r.nb1), nb2 |-> R2(r.nb2)]
ExportInv == Done => PrintT(<<"CASE", ToJson([rule |-> rule, a |-> a, b |-> b, func |-> func,
                                              out |-> Rec(out), gmx |-> Rec(Gmx(rule, a, b)),
                                              agree |-> PairEq(out, Gmx(rule, a, b))])>>)
=============================================================================
