------------------------------ MODULE FFTrace ------------------------------
(* I->S for C01 / C14: (abstract input, observed molecule after each processor) records of the real code are validated  *)
(* against FFMap.  For every recorded input TLC runs the I-layer and evaluates the P-layer; the recorded observations   *)
(* must equal the I-layer state after MapToMolecule (pc = "links") and at the end (pc = "done"), and the P-layer        *)
(* results PBase / PFinal / ExclP.  Verdicts are collected in a TLCSet register; acceptance is the POSTCONDITION.        *)
EXTENDS FFMap, Json, IOUtils
CONSTANT Prop          \* "C01" or "C14"
TDevNone == NoDev
TDevAsIs == DevAsIs
Doc == JsonDeserialize(IOEnv.TRACE_FILE)
TCases == Doc.cases
TFFs == Doc.ffs
TInputs == {[id |-> t, hist |-> (IF "hist" \in DOMAIN TCases[t].inp THEN TCases[t].inp.hist ELSE <<>>), useApps |-> TCases[t].useApps, apps |-> TCases[t].apps, ff |-> TCases[t].inp.ff, F |-> TFFs[TCases[t].inp.ff],
             n |-> TCases[t].inp.n, start |-> TCases[t].inp.start, rn |-> TCases[t].inp.rn, fi |-> TCases[t].inp.fi,
             edges |-> TCases[t].inp.edges, sel |-> TCases[t].inp.sel] : t \in 1..Len(TCases)}
ASSUME TLCSet(1, {})
Obs == TCases[inp.id]

\* modulo what the .itp writer canonicalises: a-b = b-a for two-body sections, angles / dihedrals reversed
RECURSIVE SeqLess(_, _)
SeqLess(a, b) == IF a = <<>> \/ b = <<>> THEN FALSE ELSE IF Head(a) # Head(b) THEN Head(a) < Head(b) ELSE SeqLess(Tail(a), Tail(b))
Sym2 == {"bonds", "constraints", "pairs", "pairs_nb"}
Canon(x) == LET r == Reverse(x.at)
                at == IF (x.sec \in Sym2 \/ x.sec \in {"angles", "dihedrals"} \/ (x.sec = "exclusions" /\ Len(x.at) = 2)) /\ SeqLess(r, x.at) THEN r ELSE x.at
            IN [sec |-> x.sec, at |-> at, par |-> x.par, ver |-> x.ver, occ |-> x.occ]
CanonSet(S) == {Canon(x) : x \in S}
ObsAtoms(o) == [g \in DOMAIN o.atoms |-> [an |-> o.atoms[g].an, ty |-> o.atoms[g].ty, q |-> o.atoms[g].q, m |-> o.atoms[g].m,
                                            rn |-> o.atoms[g].rn, cg |-> o.atoms[g].cg, resid |-> o.atoms[g].resid]]
ObsGattr(o) == [i \in DOMAIN o.gattr |-> ToSet(o.gattr[i])]
IsExcl(x) == x.sec = "exclusions"

\* observed molecule o against an abstract molecule (atoms, set of interactions, residue -> atoms); extra exclusions are
\* admitted only in `allowed` (pairs the P-layer of C14 excludes) - none when the exclusion distance is uniform
DropVer(S, keep) == IF keep THEN S ELSE {[x EXCEPT !.ver = ""] : x \in S}
MolVerdict(o, A, X, G, allowed) ==
  LET oa == ObsAtoms(o)  ox == DropVer(CanonSet(ToSet(o.inters)), o.hasVer)  px == DropVer(CanonSet(X), o.hasVer)
      extra == {x \in ox \ px : IsExcl(x)}
  IN IF oa # A THEN "atoms"
     ELSE IF Len(o.inters) # Cardinality(ox) THEN "duplicate-interaction"
     ELSE IF ~(px \subseteq ox) THEN "interaction-missing"
     ELSE IF (ox \ px) # extra THEN "interaction-unexpected"
     ELSE IF \E x \in extra : ~({x.at[1], x.at[2]} \in allowed) THEN "exclusion-unexpected"
     ELSE IF o.hasGattr /\ ObsGattr(o) # G THEN "residue-atoms"
     ELSE "ok"

\* after MapToMolecule: observation = I-layer state = PBase
BaseVerdict ==
  LET o == Obs.base  B == PBase(inp) IN
    IF ~DomOK(inp) THEN "out-of-domain"
    ELSE IF err # "" THEN "model-error:" \o err
    ELSE LET vI == MolVerdict(o, [g \in DOMAIN atoms |-> Strip(atoms[g])], ToSet(inters), gattr, {})
             vP == MolVerdict(o, B.atoms, B.inters, B.gattr, {}) IN
         IF vI # "ok" THEN "base/I:" \o vI ELSE IF Dev = NoDev /\ vP # "ok" THEN "base/P:" \o vP ELSE "ok"
FinalVerdict ==
  LET o == Obs.final  F == PFinal(inp)
      allowed == IF Uniform(inp) THEN {} ELSE ExclP(inp)
      own == {x \in ToSet(ProjInters) : ~IsGen(x)} IN
    IF err # "" THEN "model-error:" \o err
    ELSE LET vI == MolVerdict(o, ProjAtoms, own, ProjGattr, allowed)
             vP == MolVerdict(o, F.atoms, F.inters, F.gattr, allowed) IN
         \* with the open deviations switched on only the I-layer is compared (it deviates from the P-layer by construction)
         IF vI # "ok" THEN "final/I:" \o vI ELSE IF Dev = NoDev /\ vP # "ok" THEN "final/P:" \o vP ELSE "ok"
\* C14: what the written molecule means against ExclP; uniform distance kept and nothing invented
ExclVerdict ==
  LET o == Obs.final  ox == ToSet(o.inters)  nA == Len(o.atoms)  F == PFinal(inp) IN
    IF err # "" THEN "model-error:" \o err
    \* with the open deviations on, the observation is compared with the I-layer state itself (exact classification)
    ELSE IF Dev # NoDev THEN (IF o.nrexcl = molN /\ BondE(ox) = BondE(ToSet(ProjInters)) /\ Explicit(ox) = Explicit(ToSet(ProjInters))
                               THEN "ok" ELSE "excl/as-is:differs")
    ELSE IF BondE(ox) # BondE(F.inters) THEN "excl:bond-graph"
    ELSE IF ExclEff(o.nrexcl, ox, nA) # ExclP(inp) THEN "excl:effective-set"
    ELSE IF ExclEff(molN, ToSet(ProjInters), nA) # ExclP(inp) THEN "excl/I:effective-set"
    ELSE IF Uniform(inp) /\ o.nrexcl # (CHOOSE x \in UsedNrexcl(inp) : TRUE) THEN "excl:uniform-distance-changed"
    ELSE IF Uniform(inp) /\ Explicit(ox) # Explicit(F.inters) THEN "excl:invented"
    ELSE "ok"

Rec(stage, v) == TLCSet(1, TLCGet(1) \cup {<<inp.id, stage, v, SetToSeq(fired)>>})
MarkBase == (pc = "links") => Rec("base", IF Obs.hasBase THEN BaseVerdict ELSE "no-observation")
MarkFinal == (pc = "done") => Rec("final", IF err # "" THEN "model-error:" \o err ELSE IF Obs.raised THEN "model-ok"
                                            ELSE IF Prop = "C14" THEN ExclVerdict ELSE FinalVerdict)
Accepted == PrintT(<<"VERDICTS", ToJson(SetToSeq(TLCGet(1)))>>)
=============================================================================
