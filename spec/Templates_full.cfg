SPECIFICATION Spec
CONSTANTS
 Content <- MCContent
 Systems <- MCSystemsFull
 BuildFiles <- MCBuild4
 DevVolLost = FALSE
 DevVolOverwritten = FALSE
 DevUserRegen = FALSE
 DevRecentre = FALSE
INVARIANT Tagged
INVARIANT UserTemplateWins
INVARIANT UserVolumeWins
INVARIANT UserTemplateUnchanged
INVARIANT DomainOKOnce
PROPERTY UserSticks
CHECK_DEADLOCK FALSE
