SPECIFICATION Spec
CONSTANTS
 Content <- MCContent
 Systems <- MCSystemsFull
 BuildFiles <- MCBuild4
 DevVolLost = FALSE
 DevVolOverwritten = FALSE
 DevUserRegen = FALSE
 DevRecentre = FALSE
 DevKeySites = FALSE
 DevProcForgets = FALSE
 LargeN = 16
 DevSkipVSWhenNothingToOptimise = FALSE
INVARIANT Tagged
INVARIANT UserTemplateWins
INVARIANT UserVolumeWins
INVARIANT UserTemplateUnchanged
INVARIANT KeySitesAgree
INVARIANT GeneratedOnce
INVARIANT OneTemplatePerKey
INVARIANT SizeBelongs
INVARIANT VSConstructed
INVARIANT DomainOKOnce
PROPERTY UserSticks
CHECK_DEADLOCK FALSE
