---- MODULE Itp_MassOnly ----
(* instance wrapper for C11 (TLC evaluates zero-arity definitions eagerly: one module per instance) *)
EXTENDS ItpRoundTripExport
MCMols == TLCEval(MolsMassOnly(0))
====
