SPECIFICATION Spec
CONSTANTS
 Cases <- PlainSmall
 TISet <- TI_quick
 DefSet <- Def_both
 MissSet <- Miss_both
 Stratified = TRUE
 DevOneDirection = FALSE
 DevNoReverse = FALSE
 DevFirstInstOnly = FALSE
 DevSpecOrder = FALSE
 DevDefineFirstOnly = TRUE
 DevPairsUntyped = FALSE
 DevTableMacrosKept = FALSE
 DevDefineLazyCond = FALSE
 DevDefineBlockDropped = FALSE
 DevDefineInactiveKept = FALSE
INVARIANT LookupAgrees
INVARIANT Conforms
CHECK_DEADLOCK FALSE
