---------------------------- MODULE LatticeExport ----------------------------
(* S->I export for C05: every complete lattice behaviour (starts, draws with index / target / outcome, abandoned attempts) *)
EXTENDS MC_Lattice, Json
VARIABLE hist
XInit == Init /\ hist = <<>>
XNext == Next /\ hist' = Append(hist, last')
XSpec == XInit /\ [][XNext]_<<vars, hist>>
ExportInv == (pc = "done") => PrintT(<<"CASE", ToJson([L |-> L, chains |-> Chains, closed |-> SetToSeq(Closed), grid |-> SetToSeq(Grid), bundle |-> Bundle, maxiter |-> MaxIter, evs |-> hist,
                                                        pos |-> pos])>>)
=============================================================================
