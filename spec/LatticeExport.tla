---------------------------- MODULE LatticeExport ----------------------------
(* S->I export for C05: every complete lattice behaviour (starts, draws with index / target / outcome, abandoned attempts; *)
(* for a history of systems built in one process: the behaviour over all builds, "build" events in between)               *)
EXTENDS MC_Lattice, Json
VARIABLE hist
XInit == Init /\ hist = <<>>
XNext == Next /\ hist' = Append(hist, last')
XSpec == XInit /\ [][XNext]_<<vars, hist>>
HistoryJson == [b \in 1..NBuilds |-> [chains |-> History[b].chains, closed |-> SetToSeq(History[b].closed), stars |-> SetToSeq(History[b].stars)]]
ExportInv == (pc = "done") => PrintT(<<"CASE", ToJson([L |-> L, history |-> HistoryJson, grid |-> SetToSeq(Grid), bundle |-> Bundle, maxiter |-> MaxIter,
                                                        force |-> Force, evs |-> hist, pos |-> pos])>>)
=============================================================================
