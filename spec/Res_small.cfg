SPECIFICATION Spec
CONSTANT DevBfs = FALSE
INVARIANT WindowLaws
INVARIANT RingLaw
INVARIANT Window2Law
INVARIANT Ring2Law
INVARIANT ExportInv
CHECK_DEADLOCK FALSE
