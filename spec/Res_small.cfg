SPECIFICATION Spec
CONSTANT DevBfs = FALSE
CONSTANT DevSel = "none"
CONSTANT DevImg = "none"
INVARIANT WindowLaws
INVARIANT RingLaw
INVARIANT Window2Law
INVARIANT Ring2Law
INVARIANT SelLaw
INVARIANT ApplyLaw
INVARIANT ExportInv
CHECK_DEADLOCK FALSE
