SPECIFICATION Spec
CONSTANT DevBfs = FALSE
INVARIANT WindowLaws
INVARIANT RingLaw
INVARIANT ExportInv
CHECK_DEADLOCK FALSE
