---------------------------- MODULE TpVS ----------------------------
(* C15, virtual sites whose construction is polynomial in the inputs (kinds 2, 3, n/centre of geometry, 3out):  *)
(* lattice positions of the constructing atoms, rational parameters.  P-layer: the construction as the GROMACS  *)
(* manual writes it (GmxVS); I-layer: the shape of the code (weighted averages, CodeVS).  TLC checks I = P,     *)
(* exact rigid-motion equivariance under all 24 proper lattice rotations and a translation, and - for 3out -    *)
(* that a reflection does NOT commute (the site is on one definite side of the plane).  Every case is exported  *)
(* with its exact rational result and replayed through a real .top file and construct_vs.                       *)
EXTENDS TemplatesLib, Json
CONSTANT DevVSWeightSwap     \* deviation: the weights of atoms j and k of a 3-site are swapped
VARIABLE vc

PI == <<0, 0, 0>>
PJs == { <<2, 0, 0>>, <<1, 2, 0>> }
PKs == { <<0, 3, 0>>, <<1, 1, 2>> }
PLs == { <<0, 0, 1>>, <<3, 1, 1>> }
Shifts == { <<0, 0, 0>>, <<3, -2, 5>> }
ParA == { <<1, 2>>, <<1, 4>>, <<-1, 2>>, <<3, 2>>, <<0, 1>>, <<1, 1>> }
ParC == { <<1, 2>>, <<-2, 1>>, <<0, 1>> }
Sh(x, t) == [k \in 1..Len(x) |-> VAdd(x[k], t)]
Cases2 == { [kind |-> "2", x |-> Sh(<<PI, j>>, t), p |-> <<a>>] : j \in PJs, t \in Shifts, a \in ParA }
Cases3 == { [kind |-> "3", x |-> Sh(<<PI, j, k>>, t), p |-> <<a, b>>] : j \in PJs, k \in PKs, t \in Shifts, a \in ParA, b \in ParA }
Cases3out == { [kind |-> "3out", x |-> Sh(<<PI, j, k>>, t), p |-> <<a, b, cc>>] : j \in PJs, k \in PKs, t \in {<<0, 0, 0>>}, a \in ParA, b \in ParA, cc \in ParC }
CasesN == { [kind |-> "n", x |-> Sh(xs, t), p |-> << <<1, 1>> >>] :
            xs \in { <<PI, <<2, 0, 0>> >>, <<PI, <<2, 0, 0>>, <<0, 3, 0>> >>, <<PI, <<1, 2, 0>>, <<1, 1, 2>>, <<3, 1, 1>> >> }, t \in Shifts }
AllCases == Cases2 \cup Cases3 \cup Cases3out \cup CasesN

Init == vc \in AllCases
Next == UNCHANGED vc
Spec == Init /\ [][Next]_vc

\* the code's construction is the GROMACS construction
VSLaw == RVEq(CodeVS(vc, DevVSWeightSwap), GmxVS(vc))
\* rigid-motion equivariance: constructing from moved atoms = moving the constructed site
Tr == <<2, -1, 3>>
Equivariant == \A M \in ProperLattice : RVEq(GmxVS(Moved(vc, M, Tr)), MovedRV(GmxVS(vc), M, Tr))
\* a 3out site with c # 0 and non-collinear atoms is on a definite side: the mirror image is constructed on the other side
MirrorZ == << <<1, 0, 0>>, <<0, 1, 0>>, <<0, 0, -1>> >>
Handed == (vc.kind = "3out" /\ vc.p[3][1] # 0 /\ Cross(VSub(vc.x[2], vc.x[1]), VSub(vc.x[3], vc.x[1])) # Zero)
            => ~RVEq(GmxVS(Moved(vc, MirrorZ, Zero)), MovedRV(GmxVS(vc), MirrorZ, Zero))
\* sites of kinds 2, 3, n lie in the affine hull with weights summing to one: den * x_s = sum of integer weights * x_k (checked through I = P)
ExportInv == PrintT(<<"CASE", ToJson([kind |-> vc.kind, x |-> vc.x, p |-> vc.p, num |-> GmxVS(vc).num, den |-> GmxVS(vc).den])>>)
=============================================================================
