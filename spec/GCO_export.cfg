SPECIFICATION Spec
CONSTANTS
 Types <- MCTypes
 MolLists <- XMolLists
 Opts <- MCOptsOk
 DevOptionBoxWins = FALSE
INVARIANT BoxRule
INVARIANT ExportInv
CHECK_DEADLOCK FALSE
