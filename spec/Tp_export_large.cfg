SPECIFICATION Spec
CONSTANTS
 Content <- MCContentL
 Systems <- MCSystemsL
 BuildFiles <- MCBuildL
 DevVolLost = FALSE
 DevVolOverwritten = FALSE
 DevUserRegen = FALSE
 DevRecentre = FALSE
 DevKeySites = FALSE
 DevProcForgets = FALSE
 LargeN = 16
 DevSkipVSWhenNothingToOptimise = FALSE
INVARIANT Tagged
INVARIANT UserTemplateWins
INVARIANT UserVolumeWins
INVARIANT UserTemplateUnchanged
INVARIANT KeySitesAgree
INVARIANT GeneratedOnce
INVARIANT OneTemplatePerKey
INVARIANT SizeBelongs
INVARIANT VSConstructed
INVARIANT DomainOKOnce
INVARIANT ExportInv
PROPERTY UserSticks
CHECK_DEADLOCK FALSE
