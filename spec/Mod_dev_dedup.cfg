INIT MCInitTiny
NEXT Next
CONSTANTS
 Inputs = {}
 LibOf <- MCLibOf
 Dev <- DevDedup
 FreeOrder = TRUE
INVARIANT Conform
CHECK_DEADLOCK FALSE
