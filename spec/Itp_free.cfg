INIT MCInit
NEXT Next
CONSTANTS
 Mols = {}
 Dev = "none"
 FixedOrder = FALSE
INVARIANT WriterMeetsWrite
INVARIANT ReaderIsFold
INVARIANT RoundTripI
INVARIANT FastAgrees
INVARIANT ResGraphI
INVARIANT GuardDiscipline
PROPERTY OnlyGuardActionsTouchDepth
CHECK_DEADLOCK FALSE
