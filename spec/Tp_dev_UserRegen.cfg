SPECIFICATION Spec
CONSTANTS
 Content <- MCContent
 Systems <- MCSystemsDev
 BuildFiles <- MCBuildDev
 DevVolLost = FALSE
 DevVolOverwritten = FALSE
 DevUserRegen = TRUE
 DevRecentre = FALSE
 DevKeySites = FALSE
 DevProcForgets = FALSE
 LargeN = 16
INVARIANT UserTemplateWins
CHECK_DEADLOCK FALSE
