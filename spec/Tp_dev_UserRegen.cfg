SPECIFICATION Spec
CONSTANTS
 Content <- MCContent
 Systems <- MCSystemsDev
 BuildFiles <- MCBuildDev
 DevVolLost = FALSE
 DevVolOverwritten = FALSE
 DevUserRegen = TRUE
 DevRecentre = FALSE
INVARIANT UserTemplateWins
CHECK_DEADLOCK FALSE
