SPECIFICATION Spec
CONSTANTS
 Content <- MCContent
 Systems <- MCSystemsDev
 BuildFiles <- MCBuildDev
 DevVolLost = FALSE
 DevVolOverwritten = FALSE
 DevUserRegen = TRUE
 DevRecentre = FALSE
 DevKeySites = FALSE
 DevProcForgets = FALSE
 LargeN = 16
 DevSkipVSWhenNothingToOptimise = FALSE
INVARIANT UserTemplateWins
CHECK_DEADLOCK FALSE
