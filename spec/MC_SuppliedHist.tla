--------------------------- MODULE MC_SuppliedHist ---------------------------
EXTENDS SuppliedHist, Json
R(rn, na) == [rn |-> rn, na |-> na]
MolX == << R("A", 1) >>
MolY == << R("A", 2), R("B", 1) >>
MolZ == << R("B", 2), R("A", 1), R("B", 2) >>
\* a partially supplied chain at atom level (K = 2: one residue given; K = 3: two given), the same chain with a residue named for
\* rebuilding (K = 3: incomplete residue -> error), two molecules at residue level (K = 2: one residue missing; K = 3: all centres)
MCOptSeq == << [mols |-> <<MolZ>>, skip |-> {}, res |-> "mol"],
               [mols |-> <<MolZ>>, skip |-> {"A"}, res |-> "mol"],
               [mols |-> <<MolY, MolX>>, skip |-> {}, res |-> "meta"] >>
MCPaths == {"X", "Y"}
MCPaths1 == {"X"}
MCOptSeq1 == << MCOptSeq[1] >>
MCNone == {"none"}
MCDevs == {"cacheByStat", "cacheByPath", "bufferReused", "callRestamps"}
MCAll == MCNone \cup MCDevs
MCFrames3 == 1..3
MCFrames2 == 1..2
MCKs == {2, 3}
MCStamps3 == 0..2
MCStamps2 == 0..1
NoSystems == {}
ASSUME PrintT(<<"HOPTS", ToJson([i \in DOMAIN MCOptSeq |-> [mols |-> MCOptSeq[i].mols, skip |-> SetToSeq(MCOptSeq[i].skip), res |-> MCOptSeq[i].res]])>>)
\* export: every behaviour of the intended process with MaxOps operations that ends with a call
HistExport == (hdev = "none" /\ nops = MaxOps /\ lastop = "call") => PrintT(<<"HIST", ToJson(hist)>>)
\* the laws are claimed for the intended process (the bounded instance also starts the deviating processes, see DevWitness)
I_CallIsCurrent == hdev = "none" => CallIsCurrent
I_SuppliedAreCurrent == hdev = "none" => SuppliedAreCurrent
I_HistoryLaw == hdev = "none" => HistoryLaw
I_FsIsLastPut == hdev = "none" => FsIsLastPut
\* the deviating processes are explored on one path with the first option set only (enough to refute them)
DevSmall == hdev # "none" => \A j \in DOMAIN hist : hist[j].path = "X" /\ hist[j].o \in {0, 1}
\* refutation of the deviations in the run of the bounded instance: the first reachable state of every deviating process that breaks a law is printed (its
\* hist is the counterexample history) and the deviation is ticked off in register 3; all of them must be ticked off at the end
ASSUME TLCSet(3, {})
Laws == CallIsCurrent /\ HistoryLaw /\ FsIsLastPut
DevWitness == (hdev # "none" /\ ~Laws) =>
                 (IF hdev \in TLCGet(3) THEN TRUE
                  ELSE PrintT(<<"WITNESS", ToJson([dev |-> hdev, holds |-> [CallIsCurrent |-> CallIsCurrent, HistoryLaw |-> HistoryLaw, FsIsLastPut |-> FsIsLastPut], hist |-> hist])>>)
                       /\ TLCSet(3, TLCGet(3) \cup {hdev}))
AllDevsRefuted == IF TLCGet(3) = HDevs \ {"none"} THEN TRUE
                  ELSE (PrintT(<<"UNREFUTED", ToJson(SetToSeq((HDevs \ {"none"}) \ TLCGet(3)))>>) /\ FALSE)
\* paths, frames and stamps are interchangeable: the first file of a history is frame 1 with stamp 0 under path X
FirstPutCanonical == Len(hist) >= 1 => (hist[1].path = "X" /\ hist[1].f = 1 /\ hist[1].t = 0)
=============================================================================
