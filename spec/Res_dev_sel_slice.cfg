SPECIFICATION Spec
CONSTANT DevBfs = FALSE
CONSTANT DevSel = "slice"
CONSTANT DevImg = "none"
INVARIANT SelLaw
CHECK_DEADLOCK FALSE
