SPECIFICATION Spec
CONSTANTS
 Cases <- DihCases
 TISet <- TI_full
 DefSet <- Def_both
 MissSet <- Miss_both
 Stratified = FALSE
 DevOneDirection = FALSE
 DevNoReverse = FALSE
 DevFirstInstOnly = FALSE
 DevSpecOrder = FALSE
 DevDefineFirstOnly = FALSE
 DevPairsUntyped = FALSE
 DevTableMacrosKept = FALSE
 DevDefineLazyCond = FALSE
 DevDefineBlockDropped = FALSE
 DevDefineInactiveKept = FALSE
INVARIANT DomainOnce
INVARIANT LookupAgrees
INVARIANT Conforms
INVARIANT ExportInv
CHECK_DEADLOCK FALSE
