SPECIFICATION Spec
CONSTANTS
 Grid <- MCGrid
 DevMap = TRUE
 DevArgs = FALSE
 DevHarm = FALSE
INVARIANT Symmetric
INVARIANT SelfPair
INVARIANT SecondColumnGeometric
INVARIANT MeanOrder
INVARIANT DeviationExtent
INVARIANT Swapped23
CHECK_DEADLOCK FALSE
