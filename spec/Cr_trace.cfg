SPECIFICATION TSpec
CONSTANTS
 Grid <- TGrid
 DevMap <- TDevMap
 DevArgs = FALSE
 DevHarm = FALSE
INVARIANT Mark
POSTCONDITION Accepted
CHECK_DEADLOCK FALSE
