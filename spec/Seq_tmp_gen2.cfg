SPECIFICATION Spec
CONSTANTS
 Fam = "gen"
 P1 = 1
 P2 = 0
 Dev = {}
INVARIANT Final
INVARIANT RoundTrip
INVARIANT OrigKept
INVARIANT Laws
PROPERTY Grows
CHECK_DEADLOCK FALSE
