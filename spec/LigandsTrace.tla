---------------------------- MODULE LigandsTrace ----------------------------
(* I->S for X04: runs of the real gen_coords (real random walk) on random systems beyond the model bound, recorded through  *)
(* wrappers (harness/lig_util.py), are validated against the I-layer of Ligands step by step.  A trace carries its case     *)
(* (molecule list over the batch's type catalogue, -lig options as records, number of supplied molecules) and one event per  *)
(* I-layer action with the change the action made (same encoding as lab.d).  Numeric sub-claims enter as booleans computed  *)
(* by the recorder's monitor: `near` (every extra node one step from its anchor after the walk) and the third component of  *)
(* the backmap event (ligand one step from its FINAL anchor), which the model predicts exactly.                            *)
(* Inputs outside InDomain (a molecule that is its own ligand) are counted and skipped.                                    *)
EXTENDS Ligands, Json, IOUtils, SequencesExt
VARIABLES tid, l
Doc == JsonDeserialize(IOEnv.TRACE_FILE)
Traces == Doc.traces
TTypes == Doc.types
TDev == IF Doc.asis THEN {"Chain"} ELSE {}
ASSUME TLCSet(1, {}) /\ TLCSet(2, [t \in 1..Len(Traces) |-> 0]) /\ TLCSet(3, {})
Tr == Traces[tid]
Ev == Tr.events[l]
AsSet(s) == {s[i] : i \in 1..Len(s)}
TInit == /\ tid \in 1..Len(Traces) /\ l = 1
         /\ case = Traces[tid].case /\ Init0 /\ dev = DevOn
SpOK(ev) == ev.sp[1] = case.ligs[si].h /\ ev.sp[2] = case.ligs[si].l
NearOK(ev) == AsSet(ev.near) = {<<p[1], g'[p[1]].nodes[p[2]].key, 1>> : p \in LigIdx(g')}
FailOK(ev, lb) == /\ ev.op = "fail" /\ ev.e = lb.e /\ ev.ph = PhaseOf(lb.op)
                  /\ (lb.op \in {"connect", "split"} => ev.a = lb.a)
TNext == /\ ~pl.self
         /\ l <= Len(Tr.events)
         /\ Next
         /\ IF lab'.e # "" /\ lab'.op = "parse"
            THEN /\ l + 1 <= Len(Tr.events) /\ Ev.op = "parse" /\ Ev.a = lab'.a /\ SpOK(Ev)
                 /\ FailOK(Tr.events[l + 1], lab') /\ l' = l + 2
            ELSE IF lab'.e # ""
            THEN FailOK(Ev, lab') /\ l' = l + 1
            ELSE /\ Ev.op = lab'.op /\ Ev.a = lab'.a /\ Ev.ok
                 /\ CASE lab'.op = "parse" -> SpOK(Ev)
                      [] lab'.op = "build" -> AsSet(Ev.d) = lab'.d /\ NearOK(Ev)
                      [] OTHER -> AsSet(Ev.d) = lab'.d
                 /\ l' = l + 1
         /\ tid' = tid
TSpec == TInit /\ [][TNext]_<<vars, tid, l>>
Finished == l = Len(Tr.events) + 1 /\ AtEnd
Mark == /\ (Finished \/ pl.self) => TLCSet(1, TLCGet(1) \cup {tid})
        /\ pl.self => TLCSet(3, TLCGet(3) \cup {tid})
Prog == TLCSet(2, [TLCGet(2) EXCEPT ![tid] = IF @ < l - 1 THEN l - 1 ELSE @])
Accepted == /\ PrintT(<<"SKIPPED", ToJson(SetToSeq(TLCGet(3)))>>)
            /\ IF TLCGet(1) = 1..Len(Traces) THEN TRUE
               ELSE (PrintT(<<"REJECTED", ToJson(SetToSeq({<<t, TLCGet(2)[t]>> : t \in (1..Len(Traces)) \ TLCGet(1)}))>>) /\ FALSE)
=============================================================================
