------------------------------- MODULE ModsMC -------------------------------
(* Instances of Mods for TLC.  The instance is an initial-state predicate (INIT MCInit), not a constant set: residue     *)
(* sequences over ALA (BB, SC1), GLY (BB), PEO (BB; not an amino acid) with contiguous residue ids starting at 1, 2, 3 or 4 (MapToMolecule numbers the atoms contiguously: C01 domain), four      *)
(* libraries, every request list of length <= 2 over the pool of the sequence (every residue x every modification of    *)
(* the library and an unknown one, a residue id that does not exist, a residue name that differs from the residue's).   *)
EXTENDS Mods, IOUtils

A(an, ty, q, m) == [an |-> an, ty |-> ty, q |-> q, m |-> m]
BlockOf(rn) == CASE rn = "ALA" -> <<A("BB", "P2", "0.0", "72.0"), A("SC1", "C3", "0.0", "36.0")>>
                 [] rn = "GLY" -> <<A("BB", "P2", "0.0", "72.0")>>
                 [] rn = "PEO" -> <<A("BB", "EO", "0.0", "44.0")>>
KV(key, v) == [k |-> key, v |-> v]
MA(an, rep) == [an |-> an, rep |-> rep]
MI(sec, at, par) == [sec |-> sec, at |-> at, par |-> par]
MD(name, at, ints, edges) == [name |-> name, atoms |-> at, inters |-> ints, edges |-> edges]
Nter == MD("N-ter", <<MA("BB", <<KV("ty", "Q5"), KV("q", "1.0")>>)>>, <<>>, <<>>)
Cter == MD("C-ter", <<MA("BB", <<KV("ty", "Q5"), KV("q", "-1.0")>>)>>, <<>>, <<>>)
M1 == MD("M1", <<MA("BB", <<KV("ty", "XX")>>), MA("SC1", <<>>)>>, <<MI("bonds", <<"BB", "SC1">>, <<"1", "0.99", "99">>)>>, <<>>)
REN == MD("REN", <<MA("BB", <<KV("an", "CA")>>)>>, <<>>, <<>>)
MCA == MD("MCA", <<MA("CA", <<KV("ty", "VC")>>)>>, <<>>, <<>>)
ANG == MD("ANG", <<MA("BB", <<>>), MA("SC1", <<>>)>>, <<MI("bonds", <<"SC1", "BB">>, <<"1", "0.5", "50">>), MI("angles", <<"BB", "SC1", "BB">>, <<"2", "120", "10">>)>>, <<>>)
SQ == MD("SQ", <<MA("SC1", <<KV("q", "0.5"), KV("m", "40.0")>>)>>, <<>>, <<>>)
POS == MD("POS", <<MA("BB", <<KV("m", "80.0")>>)>>, <<MI("position_restraints", <<"BB">>, <<"1", "1000", "1000", "1000">>)>>, <<>>)
PTM == MD("PTM", <<MA("BB", <<KV("q", "0.25")>>), MA("NEW", <<>>)>>, <<MI("bonds", <<"BB", "NEW">>, <<"1", "0.3", "100">>)>>, <<>>)
EDG == MD("EDG", <<MA("BB", <<KV("ty", "ED")>>), MA("SC1", <<>>)>>, <<>>, <<<<"BB", "SC1">>>>)
LibIds == {"full", "noter", "empty", "edges"}
MCLibOf(id) == CASE id = "full" -> <<Nter, Cter, M1, REN, MCA, ANG, SQ, POS, PTM>>
                 [] id = "noter" -> <<M1, SQ>>
                 [] id = "empty" -> <<>>
                 [] id = "edges" -> <<Nter, Cter, EDG>>
ModPool(id) == CASE id = "full" -> {"N-ter", "C-ter", "M1", "REN", "MCA", "ANG", "SQ", "POS", "PTM", "NOPE"}
                 [] id = "noter" -> {"M1", "N-ter"}
                 [] id = "empty" -> {"N-ter", "NOPE"}
                 [] id = "edges" -> {"EDG", "N-ter"}
Wrongs == {"N-ter", "M1"}

RECURSIVE MkAtoms(_, _), Off(_, _)
MkAtoms(sq, p) == IF p > Len(sq) THEN <<>>
                  ELSE [x \in DOMAIN BlockOf(sq[p]) |-> [res |-> p, an |-> BlockOf(sq[p])[x].an, ty |-> BlockOf(sq[p])[x].ty,
                                                          q |-> BlockOf(sq[p])[x].q, m |-> BlockOf(sq[p])[x].m]] \o MkAtoms(sq, p + 1)
Off(sq, p) == IF p = 1 THEN 0 ELSE Off(sq, p - 1) + Len(BlockOf(sq[p - 1]))
BI(sec, at, par) == [sec |-> sec, at |-> at, par |-> par, rq |-> 0, mi |-> 0]
RECURSIVE BlockBonds(_, _), LinkBonds(_, _)
BlockBonds(sq, p) == IF p > Len(sq) THEN <<>>
                     ELSE (IF sq[p] = "ALA" THEN <<BI("bonds", <<Off(sq, p) + 1, Off(sq, p) + 2>>, <<"1", "0.27", "5000">>)>> ELSE <<>>) \o BlockBonds(sq, p + 1)
LinkBonds(sq, p) == IF p >= Len(sq) THEN <<>>
                    ELSE <<BI("bonds", <<Off(sq, p) + 1, Off(sq, p + 1) + 1>>, <<"1", "0.35", "4000">>)>> \o LinkBonds(sq, p + 1)

SR(sq, rd) == [sq |-> sq, rd |-> rd]
ShapesQuick == {SR(<<"ALA">>, <<1>>), SR(<<"GLY">>, <<4>>), SR(<<"PEO">>, <<1>>), SR(<<"ALA", "GLY">>, <<1, 2>>), SR(<<"PEO", "ALA">>, <<3, 4>>),
                SR(<<"ALA", "GLY", "ALA">>, <<1, 2, 3>>), SR(<<"GLY", "ALA", "PEO">>, <<2, 3, 4>>), SR(<<"PEO", "ALA", "GLY">>, <<1, 2, 3>>)}
ShapesTiny == {SR(<<"ALA">>, <<4>>), SR(<<"ALA", "GLY", "ALA">>, <<2, 3, 4>>), SR(<<"PEO", "ALA", "GLY">>, <<1, 2, 3>>)}
Names == {"ALA", "GLY", "PEO"}
Rids(n) == CASE n = 1 -> {<<1>>, <<4>>} [] n = 2 -> {<<1, 2>>, <<3, 4>>} [] n = 3 -> {<<1, 2, 3>>, <<2, 3, 4>>}
ShapesFull(u) == {SR(sq, rd) : sq \in {<<a>> : a \in Names}, rd \in Rids(1)} \cup {SR(sq, rd) : sq \in {<<a, b>> : a, b \in Names}, rd \in Rids(2)}
                 \cup {SR(sq, rd) : sq \in {<<a, b, c>> : a, b, c \in Names}, rd \in Rids(3)}
Wrong(rn) == IF rn = "ALA" THEN "GLY" ELSE "ALA"
PosIn(res, resid) == IF \E p \in DOMAIN res : res[p].resid = resid THEN CHOOSE p \in DOMAIN res : res[p].resid = resid ELSE 1
RQ(rn, resid, mod) == [rn |-> rn, resid |-> resid, mod |-> mod]
Pool(res, id) == {RQ(res[p].rn, res[p].resid, m) : p \in DOMAIN res, m \in ModPool(id)}
                 \cup {RQ("ALA", res[Len(res)].resid + 1, m) : m \in Wrongs \cap ModPool(id)}
                 \cup {RQ(Wrong(res[p].rn), res[p].resid, m) : p \in DOMAIN res, m \in Wrongs \cap ModPool(id)}
\* size: "quick" = every pair of requests for the full library, single requests otherwise; "tiny" = pairs over four modifications only
\* (sensitivity and expectation runs); "deep" = every pair for every library
PairPool(res, id, size) == IF size = "tiny" THEN {r \in Pool(res, id) : r.mod \in {"M1", "REN", "MCA", "N-ter"} /\ r.rn = res[PosIn(res, r.resid)].rn}
                           ELSE IF id = "full" \/ size = "deep" THEN Pool(res, id) ELSE {}
ReqSeqs(res, id, size) == {<<>>} \cup {<<r>> : r \in Pool(res, id)} \cup {<<r1, r2>> : r1, r2 \in PairPool(res, id, size)}
Perms(n) == CASE n = 1 -> {<<1>>} [] n = 2 -> {<<1, 2>>, <<2, 1>>} [] n = 3 -> {<<1, 2, 3>>, <<3, 1, 2>>, <<2, 3, 1>>, <<3, 2, 1>>}
InsOf(n, rq) == IF rq = <<>> THEN Perms(n) ELSE {[i \in 1..n |-> i]}

MkInp(sq, rd, lb, rq, is) == [lib |-> lb, res |-> [p \in DOMAIN sq |-> [rn |-> sq[p], resid |-> rd[p]]], ins |-> is,
                              atoms |-> MkAtoms(sq, 1), base |-> BlockBonds(sq, 1) \o LinkBonds(sq, 1), reqs |-> rq]
InitOver(shapes, size) == \E sh \in shapes : \E lb \in LibIds :
                           \E rq \in ReqSeqs([p \in DOMAIN sh.sq |-> [rn |-> sh.sq[p], resid |-> sh.rd[p]]], lb, size) :
                              \E is \in InsOf(Len(sh.sq), rq) : inp = MkInp(sh.sq, sh.rd, lb, rq, is)
MCInit == InitOver(ShapesQuick, "quick") /\ InitRest
MCInitTiny == InitOver(ShapesTiny, "tiny") /\ InitRest
MCInitFull == InitOver(ShapesFull(0), "deep") /\ InitRest
\* export of the thorough tier: every sequence with one of the two residue-id offsets, pairs of requests for the full library
Lo(n) == CASE n = 1 -> <<1>> [] n = 2 -> <<1, 2>> [] n = 3 -> <<1, 2, 3>>
Hi(n) == CASE n = 1 -> <<4>> [] n = 2 -> <<3, 4>> [] n = 3 -> <<2, 3, 4>>
ShapesMid(u) == {SR(sh.sq, IF sh.sq[1] = "ALA" THEN Lo(Len(sh.sq)) ELSE Hi(Len(sh.sq))) : sh \in ShapesFull(u)}
MCInitMid == InitOver(ShapesMid(0), "quick") /\ InitRest

\* the flags of the open findings follow the ledger (the driver passes them in the environment)
EnvOn(name) == name \in DOMAIN IOEnv /\ IOEnv[name] = "1"
DevLedger == [NoDev EXCEPT !.trunc2 = EnvOn("X05_TRUNC2"), !.terKeyError = EnvOn("X05_TERKEYERROR"), !.edgeFirstChar = EnvOn("X05_EDGEFIRSTCHAR")]
=============================================================================
