INIT Init
NEXT Stop
CONSTANTS
 Cases <- AllCases
 FFs <- FFcat
 Dev <- NoDev
INVARIANT ExportOnce
CHECK_DEADLOCK FALSE
