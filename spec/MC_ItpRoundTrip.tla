---------------------------- MODULE MC_ItpRoundTrip ----------------------------
(* Instances for C11: molecules of <= 4 atoms in <= 3 residues, built the way gen_params builds polymers:       *)
(* residues with the same name have the same atoms; residues linked in the requested graph are joined by a      *)
(* backbone bond (or constraint); interactions are drawn from a catalogue over all sections, guards, listings. *)
EXTENDS ItpRoundTrip, Json

(* ---------------- residues and atoms ---------------- *)
\* layout[i] = ordinal of the residue of atom i; names[r] = name of residue r (same name => same number of atoms)
LayoutNames == { <<(<<1>>), (<<"A">>)>>,
                 <<(<<1, 1>>), (<<"A">>)>>,
                 <<(<<1, 2>>), (<<"A", "A">>)>>, <<(<<1, 2>>), (<<"A", "B">>)>>,
                 <<(<<1, 1, 2>>), (<<"A", "B">>)>>, <<(<<1, 2, 2>>), (<<"B", "A">>)>>,
                 <<(<<1, 2, 3>>), (<<"A", "A", "A">>)>>, <<(<<1, 2, 3>>), (<<"A", "B", "A">>)>>,
                 <<(<<1, 1, 2, 2>>), (<<"A", "A">>)>>, <<(<<1, 1, 2, 2>>), (<<"A", "B">>)>>,
                 <<(<<1, 2, 2, 3>>), (<<"A", "B", "A">>)>>, <<(<<1, 2, 2, 3>>), (<<"A", "B", "C">>)>>,
                 <<(<<1, 1, 2, 3>>), (<<"A", "B", "B">>)>>, <<(<<1, 2, 3, 3>>), (<<"B", "B", "A">>)>> }
LowerOf == [A |-> "a", B |-> "b", C |-> "c"]
PosIn(layout, i) == Cardinality({j \in 1..i : layout[j] = layout[i]})
NRes(layout) == Cardinality({layout[i] : i \in DOMAIN layout})
\* attribute variants: 1 = no charge / mass, residue ids from 1; 2 = charges and masses with many digits, ids from 3;
\* 3 = only the second atom of a residue has charge and mass; 4 = an atom with a mass but no charge (finding instance)
Charge(v, pos) == CASE v = 1 -> "" [] v = 2 -> (IF pos = 1 THEN "0.123456789" ELSE "-0.5")
                    [] v = 3 -> (IF pos = 1 THEN "" ELSE "1.0") [] OTHER -> ""
Mass(v, pos) == CASE v = 1 -> "" [] v = 2 -> (IF pos = 1 THEN "12.011" ELSE "")
                  [] v = 3 -> (IF pos = 1 THEN "" ELSE "72.0") [] OTHER -> (IF pos = 1 THEN "72.0" ELSE "")
Off(v) == IF v = 2 THEN 2 ELSE 0
Nrexcl(v) == CASE v = 1 -> 1 [] v = 2 -> 3 [] OTHER -> 2
MkAtoms(layout, names, v) ==
    [i \in DOMAIN layout |-> LET r == layout[i] pos == PosIn(layout, i) rn == names[r] IN
        [name |-> LowerOf[rn] \o ToString(pos), type |-> (IF pos = 1 THEN "T" ELSE "U") \o rn, resid |-> r + Off(v),
         resname |-> rn, cg |-> r, charge |-> Charge(v, pos), mass |-> Mass(v, pos)]]
FirstAtom(layout, r) == CHOOSE i \in DOMAIN layout : layout[i] = r /\ PosIn(layout, i) = 1
LastAtom(layout, r) == CHOOSE i \in DOMAIN layout : layout[i] = r /\ \A j \in DOMAIN layout : layout[j] = r => j <= i

(* ---------------- requested residue graphs: re = edges, ln = the edges a link realises ---------------- *)
E12 == {1, 2}  E13 == {1, 3}  E23 == {2, 3}
GraphsFor(k) == CASE k = 1 -> {[re |-> {}, ln |-> {}]}
                  [] k = 2 -> {[re |-> {E12}, ln |-> {E12}], [re |-> {E12}, ln |-> {}]}
                  [] OTHER -> {[re |-> {E12, E23}, ln |-> {E12, E23}], [re |-> {E12, E13}, ln |-> {E12, E13}],
                               [re |-> {E13, E23}, ln |-> {E13, E23}], [re |-> {E12, E13, E23}, ln |-> {E12, E13, E23}],
                               [re |-> {E12, E23}, ln |-> {E12}], [re |-> {E12, E13, E23}, ln |-> {E12, E23}]}
GraphsSmall(k) == CASE k = 1 -> {[re |-> {}, ln |-> {}]}
                    [] k = 2 -> {[re |-> {E12}, ln |-> {E12}]}
                    [] OTHER -> {[re |-> {E12, E23}, ln |-> {E12, E23}], [re |-> {E12, E13, E23}, ln |-> {E12, E13, E23}]}

(* ---------------- interaction catalogue ---------------- *)
AllSecs == {"bonds", "constraints", "pairs", "exclusions", "angles", "dihedrals", "impropers", "virtual_sites2", "virtual_sitesn",
            "position_restraints", "virtual_sites3", "dihedral_restraints"}
Guards == {NoGuard, [k |-> "ifdef", tag |-> "F"], [k |-> "ifndef", tag |-> "F"], [k |-> "ifdef", tag |-> "G"]}
Par(s, k) == CASE s = "bonds" -> (IF k = 1 THEN <<"1", "0.30", "1000">> ELSE <<"1", "0.35", "2000.5">>)
               [] s = "constraints" -> (IF k = 1 THEN <<"1", "0.31">> ELSE <<"1", "0.33">>)
               [] s = "pairs" -> (IF k = 1 THEN <<"1">> ELSE <<"1", "0.1", "0.25">>)
               [] s = "exclusions" -> <<>>
               [] s = "angles" -> (IF k = 1 THEN <<"1", "110", "50">> ELSE <<"2", "120", "75.5">>)
               [] s = "dihedrals" -> (IF k = 1 THEN <<"9", "0", "1.5", "1">> ELSE <<"9", "180", "2.5", "2">>)
               [] s = "impropers" -> (IF k = 1 THEN <<"2", "0", "50">> ELSE <<"2", "35.3", "100">>)
               [] s = "virtual_sites2" -> (IF k = 1 THEN <<"1", "0.5">> ELSE <<"1", "0.25">>)
               [] s = "virtual_sitesn" -> (IF k = 1 THEN <<"1">> ELSE <<"2">>)
               [] s = "virtual_sites3" -> (IF k = 1 THEN <<"1", "0.3", "0.3">> ELSE <<"4", "0.1", "0.2", "-1.5">>)
               [] s = "angle_restraints_z" -> <<"1", "30", "100", "1">>
               [] s = "dihedral_restraints" -> (IF k = 1 THEN <<"1", "120", "0", "50">> ELSE <<"1", "60", "10", "25.5">>)
               [] OTHER -> (IF k = 1 THEN <<"1", "1000", "1000", "1000">> ELSE <<"1", "500", "500", "0">>)
\* atom listings per section for a molecule of n atoms, both directions where the writer may turn them round
Tuples(s, n) ==
    CASE s = "bonds" -> {t \in {<<1, 2>>, <<2, 1>>, <<2, 3>>, <<3, 1>>, <<4, 3>>, <<2, 4>>} : t[1] <= n /\ t[2] <= n}
      [] s = "constraints" -> {t \in {<<2, 1>>, <<2, 3>>, <<3, 4>>} : t[1] <= n /\ t[2] <= n}
      [] s = "pairs" -> {t \in {<<2, 1>>, <<1, 3>>, <<4, 1>>} : t[1] <= n /\ t[2] <= n}
      [] s = "exclusions" -> {t \in {<<2, 1>>, <<1, 2>>} : n >= 2} \cup {t \in {<<3, 1, 2>>} : n >= 3} \cup {t \in {<<4, 2>>} : n >= 4}
      [] s = "angles" -> {t \in {<<1, 2, 3>>, <<3, 2, 1>>, <<2, 1, 3>>} : n >= 3} \cup {t \in {<<4, 3, 2>>, <<2, 3, 4>>} : n >= 4}
      [] s = "dihedrals" -> {t \in {<<1, 2, 3, 4>>, <<4, 3, 2, 1>>, <<1, 3, 2, 4>>, <<2, 1, 4, 3>>} : n >= 4}
      [] s = "impropers" -> {t \in {<<2, 1, 3, 4>>, <<4, 3, 1, 2>>} : n >= 4}
      [] s = "virtual_sites2" -> {t \in {<<3, 1, 2>>, <<1, 3, 2>>} : n >= 3}
      [] s = "virtual_sitesn" -> {t \in {<<3, 1, 2>>} : n >= 3} \cup {t \in {<<4, 3, 1, 2>>} : n >= 4}
      [] s = "virtual_sites3" -> {t \in {<<4, 1, 2, 3>>} : n >= 4}
      [] s = "dihedral_restraints" -> {t \in {<<4, 3, 2, 1>>} : n >= 4}
      [] OTHER -> {t \in {<<1>>, <<2>>, <<4>>} : t[1] <= n}
\* the first listing(s) of each section, for the families that combine interactions
Tuples1(s, n) ==
    CASE s = "bonds" -> {t \in {<<2, 1>>, <<2, 3>>, <<4, 3>>} : t[1] <= n /\ t[2] <= n}
      [] s = "constraints" -> {t \in {<<2, 1>>, <<3, 4>>} : t[1] <= n /\ t[2] <= n}
      [] s = "pairs" -> {t \in {<<2, 1>>, <<4, 1>>} : t[1] <= n /\ t[2] <= n}
      [] s = "exclusions" -> {t \in {<<2, 1>>} : n >= 2} \cup {t \in {<<3, 1, 2>>} : n >= 3}
      [] s = "angles" -> {t \in {<<3, 2, 1>>} : n >= 3} \cup {t \in {<<2, 3, 4>>} : n >= 4}
      [] s = "dihedrals" -> {t \in {<<4, 3, 2, 1>>, <<1, 3, 2, 4>>} : n >= 4}
      [] s = "impropers" -> {t \in {<<2, 1, 3, 4>>} : n >= 4}
      [] s = "virtual_sites2" -> {t \in {<<3, 1, 2>>} : n >= 3}
      [] s = "virtual_sitesn" -> {t \in {<<3, 1, 2>>} : n >= 3}
      [] s = "virtual_sites3" -> {t \in {<<4, 1, 2, 3>>} : n >= 4}
      [] s = "dihedral_restraints" -> {t \in {<<4, 3, 2, 1>>} : n >= 4}
      [] OTHER -> {t \in {<<1>>, <<2>>} : t[1] <= n}
X(s, t, k, g) == [sec |-> s, atoms |-> t, par |-> Par(s, k), gk |-> g.k, gtag |-> g.tag, comment |-> IF k = 2 THEN "second form" ELSE ""]
Cand(n) == UNION {{X(s, t, 1, g) : t \in Tuples(s, n), g \in Guards} : s \in AllSecs}
           \cup UNION {{X(s, t, 2, g) : t \in Tuples(s, n), g \in {NoGuard, [k |-> "ifdef", tag |-> "F"]}} : s \in AllSecs}
Cand1(n) == UNION {{X(s, t, 1, g) : t \in Tuples1(s, n), g \in Guards} \cup {X(s, t, 2, NoGuard) : t \in Tuples1(s, n)} : s \in AllSecs}
Cand0(n) == UNION {{X(s, t, 1, g) : t \in Tuples1(s, n), g \in {NoGuard, [k |-> "ifdef", tag |-> "F"]}} : s \in AllSecs}
GF == [k |-> "ifdef", tag |-> "F"]
GN == [k |-> "ifndef", tag |-> "F"]
Fam1(n) == {<<c>> : c \in Cand(n)} \cup {<<>>}
Fam0(n) == {<<c>> : c \in Cand0(n)} \cup {<<>>}
FamAttr(n) == {<<>>} \cup {<<X("bonds", t, 1, NoGuard)>> : t \in {u \in {<<2, 1>>} : n >= 2}}
Fam2(n) == {p \in (Cand1(n) \X Cand1(n)) : p[1].sec = p[2].sec}      \* two in one section (also twice the same)
Fam3(n) == UNION {{<<X("bonds", t, 1, g), d>>, <<d, X("bonds", t, 1, g)>>} :
                     t \in {u \in Tuples1("bonds", n) : u = <<2, 1>>}, g \in {GF, GN}, d \in {e \in Cand1(n) : e.sec # "bonds" /\ e.gtag # "G"}}
Fam4S(s, n) == UNION {{<<X(s, t, 1, NoGuard), X(s, u, 1, GF), X(s, w, 1, GN)>>, <<X(s, w, 1, GN), X(s, u, 2, GF), X(s, t, 1, NoGuard)>>,
                       <<X(s, u, 1, GF), X(s, t, 1, [k |-> "ifdef", tag |-> "G"]), X(s, w, 2, GF)>>} :
                         t \in Tuples1(s, n), u \in Tuples1(s, n), w \in Tuples1(s, n)}
Fam4(n) == UNION {Fam4S(s, n) : s \in {"bonds", "angles", "dihedrals", "constraints", "exclusions"}}

(* ---------------- molecules ---------------- *)
ResOf(layout, x) == {layout[x.atoms[i]] : i \in DOMAIN x.atoms}
\* an interaction over several residues is made by a link: its residues must be linked to each other along the requested graph
Linkable(layout, g, x) == LET rs == ResOf(layout, x) IN
    /\ \A r, s \in rs : (r # s /\ {r, s} \in g.re) => {r, s} \in g.ln
    /\ Cardinality(rs) = 2 => rs \in g.ln
    /\ Cardinality(rs) = 3 => Cardinality(g.ln) >= 2
Lo(e) == CHOOSE a \in e : \A b \in e : a <= b
Hi(e) == CHOOSE a \in e : \A b \in e : a >= b
BackboneOf(layout, g, v) == LET es == SetToSortSeq(g.ln, LAMBDA e, f : Lo(e) * 10 + Hi(e) < Lo(f) * 10 + Hi(f)) IN
    [j \in DOMAIN es |-> LET r == Lo(es[j]) s == Hi(es[j]) IN
        [sec |-> IF v = 2 THEN "constraints" ELSE "bonds", atoms |-> <<LastAtom(layout, r), FirstAtom(layout, s)>>,
         par |-> IF v = 2 THEN <<"1", "0.47">> ELSE <<"1", "0.47", "1250">>, gk |-> "none", gtag |-> "", comment |-> ""]]
EdgesOfInter(inter) == {{x.atoms[1], x.atoms[2]} : x \in {y \in ToSet(inter) : y.sec \in {"bonds", "constraints"}}}
Mk(ln, g, v, xs, backed) == LET layout == ln[1] names == ln[2] k == NRes(layout)
                                inter == (IF backed THEN BackboneOf(layout, g, v) ELSE <<>>) \o xs IN
    [name |-> "mol", nrexcl |-> Nrexcl(v), atoms |-> MkAtoms(layout, names, v), inter |-> inter,
     edges |-> EdgesOfInter(inter) \cup {{LastAtom(layout, Lo(e)), FirstAtom(layout, Hi(e))} : e \in g.ln},
     rnodes |-> {[id |-> r + Off(v), name |-> names[r]] : r \in 1..k},
     redges |-> {{r + Off(v) : r \in e} : e \in g.re}]
VOf(ln, g) == 1 + ((Len(ln[1]) + Cardinality(g.re)) % 3)
(* The instances are given as initial-state predicates (TLC builds big sets of records with quadratic effort, initial states are   *)
(* hashed): molecules over the layouts LN, interaction lists F(n), graphs GR(k); allv: every attribute variant, else one derived   *)
(* from the shape.                                                                                                                  *)
InitRest == /\ pc = "start" /\ out = <<>> /\ secs = {} /\ cur = "" /\ groups = <<>> /\ pend = <<>>
            /\ gopen = NoGuard /\ late = FALSE /\ rd = R0 /\ ri = 1
Pick(LN, F(_), GR(_), allv) ==
    \E ln \in LN : \E g \in GR(NRes(ln[1])) : \E v \in (IF allv THEN {1, 2, 3} ELSE {VOf(ln, g)}) : \E xs \in F(Len(ln[1])) :
        /\ \A i \in DOMAIN xs : Linkable(ln[1], g, xs[i])
        /\ mol = Mk(ln, g, v, xs, TRUE)
CoreLayouts == {ln \in LayoutNames : ln \in {<<(<<1, 2, 2, 3>>), (<<"A", "B", "A">>)>>, <<(<<1, 1, 2, 2>>), (<<"A", "B">>)>>, <<(<<1, 2, 2>>), (<<"B", "A">>)>>}}
GraphsOne(k) == CASE k = 1 -> {[re |-> {}, ln |-> {}]} [] k = 2 -> {[re |-> {E12}, ln |-> {E12}]} [] OTHER -> {[re |-> {E12, E23}, ln |-> {E12, E23}]}
\* quick: every single interaction of the catalogue on every layout; attribute variants x all graphs (incl. missing links);
\* the short catalogue on all graphs; pairs / triples of one section and guarded bond + other section on the core layouts
QuickInit == /\ \/ Pick(LayoutNames, Fam1, GraphsSmall, FALSE) \/ Pick(LayoutNames, FamAttr, GraphsFor, TRUE)
                \/ Pick(LayoutNames, Fam0, GraphsFor, FALSE) \/ Pick(CoreLayouts, Fam2, GraphsOne, FALSE)
                \/ Pick(CoreLayouts, Fam3, GraphsOne, FALSE) \/ Pick(CoreLayouts, Fam4, GraphsOne, FALSE)
             /\ InitRest
FullInit == /\ \/ Pick(LayoutNames, Fam1, GraphsFor, TRUE) \/ Pick(LayoutNames, Fam2, GraphsFor, FALSE)
               \/ Pick(LayoutNames, Fam3, GraphsFor, FALSE) \/ Pick(LayoutNames, Fam4, GraphsFor, FALSE)
            /\ InitRest
\* small instance for the sensitivity runs (every deviation has a witness in it)
DevInit == (Pick(CoreLayouts, Fam4, GraphsOne, FALSE) \/ Pick(CoreLayouts, Fam3, GraphsOne, FALSE)) /\ InitRest
(* finding instances: the same molecules with (a) an atom that has a mass but no charge, (b) a linked residue pair whose only   *)
(* atom-level edge is not a bond or constraint (made by an angle, a virtual site or an [ edges ] line of the link)              *)
MassOnlyPick == \E ln \in LayoutNames : \E g \in GraphsSmall(NRes(ln[1])) : mol = Mk(ln, g, 4, <<>>, TRUE)
UnbackedPick == \E ln \in LayoutNames : \E g \in {h \in GraphsFor(NRes(ln[1])) : h.ln # {}} :
                  \E xs \in {<<>>} \cup {<<X("angles", t, 1, NoGuard)>> : t \in {u \in {<<1, 2, 3>>} : Len(ln[1]) = 3 /\ NRes(ln[1]) = 3 /\ Cardinality(g.ln) = 2}} :
                     (\A i \in DOMAIN xs : Linkable(ln[1], g, xs[i])) /\ mol = Mk(ln, g, 1, xs, FALSE)
\* (c) an angle_restraints_z line listed with the higher atom first: the writer turns it round, which is another restraint
ArzPick == \E ln \in {l \in LayoutNames : Len(l[1]) = 2} : \E g \in GraphsSmall(NRes(ln[1])) : \E t \in {<<2, 1>>, <<1, 2>>} :
             mol = Mk(ln, g, 1, <<X("angle_restraints_z", t, 1, NoGuard)>>, TRUE)
MassOnlyInit == MassOnlyPick /\ InitRest
ArzInit == ArzPick /\ InitRest
UnbackedInit == UnbackedPick /\ InitRest
FindInit == (MassOnlyPick \/ UnbackedPick \/ ArzPick) /\ InitRest
XNext == FALSE /\ UNCHANGED vars
=============================================================================
