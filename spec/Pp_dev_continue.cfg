SPECIFICATION Spec
CONSTANTS
 Cases <- DevCases
 MaxFail = 1
 DevItpBeforeLinks = FALSE
 DevGroBlockOrder = FALSE
 DevGateSkipped = FALSE
 DevJsonIdShift = FALSE
 DevContinueAfterFail = TRUE
INVARIANT E3
CHECK_DEADLOCK FALSE
