INIT HInit
NEXT HNext
CONSTANTS
 Mols = {}
 Dev = "none"
 FixedOrder = TRUE
 Paths <- MCPaths
 MaxOps = 3
 WithFF = FALSE
 MolIdx <- MCMolTwo
 MsgKinds <- MCMsgAll
 MaxMsgs = 3
 WithEnv = FALSE
 HDev = "errGate"
INVARIANT OutputIgnoresLog
CHECK_DEADLOCK FALSE
