SPECIFICATION Spec
CONSTANTS
 Mols <- MolsDev
 Dev = "parTrunc"
 FixedOrder = TRUE
INVARIANT RoundTripI
CHECK_DEADLOCK FALSE
