INIT MCInit
NEXT Next
CONSTANTS
 Mols = {}
 Dev = "parTrunc"
 FixedOrder = TRUE
INVARIANT RoundTripI
INVARIANT FastAgrees
CHECK_DEADLOCK FALSE
