SPECIFICATION Spec
CONSTANTS
 Mols <- MCMols
 Dev = "parTrunc"
 FixedOrder = TRUE
INVARIANT RoundTripI
CHECK_DEADLOCK FALSE
