INIT MCInit
NEXT Next
CONSTANTS
 Mols = {}
 Dev = "parTrunc"
 FixedOrder = TRUE
INVARIANT RoundTripI
CHECK_DEADLOCK FALSE
