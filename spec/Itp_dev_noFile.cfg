INIT MCInit
NEXT Next
CONSTANTS
 Mols = {}
 Dev = "noFile"
 FixedOrder = TRUE
INVARIANT RoundTripI
INVARIANT FastAgrees
CHECK_DEADLOCK FALSE
