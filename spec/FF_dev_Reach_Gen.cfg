SPECIFICATION Spec
CONSTANTS
 Inputs <- MCInputs
 Dev <- NoDev
INVARIANT Reach_Gen
CHECK_DEADLOCK FALSE
