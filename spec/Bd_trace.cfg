SPECIFICATION TSpec
CONSTANTS
 Cands = {}
 Thrs = {}
 LoC = 0
 HiC = 0
 TopC = 0
 InitRank <- TInitRank
 Triples = {}
 Table <- TTable
 MaxCalls = 100000
 DevNonStrict = FALSE
 DevKeepPrev = FALSE
 DevUpdateOnReject = FALSE
 DevThrReversed = FALSE
 DevKeyReversed = FALSE
INVARIANT AcceptRule
INVARIANT DrawOnlyWhenNeeded
INVARIANT RejectKeeps
INVARIANT StraightAccepted
INVARIANT BelowLoNeedsImprovement
INVARIANT LookupRule
INVARIANT Mark
INVARIANT Prog
POSTCONDITION Accepted
CHECK_DEADLOCK FALSE
