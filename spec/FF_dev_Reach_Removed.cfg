SPECIFICATION Spec
CONSTANTS
 Inputs <- MCInputs
 Dev <- NoDev
INVARIANT Reach_Removed
CHECK_DEADLOCK FALSE
