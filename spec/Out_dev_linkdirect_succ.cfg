SPECIFICATION Spec
CONSTANTS
 Variants <- MCVariants
 NBk = 4
 Inits <- MCInits
 InoutInits <- MCInoutInits
 DevInits <- MCDevInits
 RouteInits <- MCRouteInits
 Runs = 1
 QueuePersists = FALSE
 Crash1 <- MCNone
 Crash2 <- MCNone
 Targets2 <- MCTargets1
 DevPlainOpen = FALSE
 DevFlushEarly = FALSE
 DevBackupOverwrite = FALSE
 DevNoBackup = FALSE
 DevSeqOpenEarly = FALSE
 DevLinkDirect = TRUE
 DevBackupCount = FALSE
 DevInplaceInput = FALSE
 DevMoveBeforeClose = FALSE
 DevRouteDiscard = FALSE
 DevStageFallback = FALSE
 DevBackupSkip = FALSE
 EnvInits <- MCEnvInits
INVARIANT BackupResolves
CHECK_DEADLOCK FALSE
