---------------------------- MODULE MC_Backmap ----------------------------
(* instances of Backmap: six residue types (1-4 atoms; linear, planar, chiral, a second chiral type with the   *)
(* same atom names but another bond graph and template, one with a virtual site), all molecules of one and     *)
(* two residues plus three-residue molecules with a residue that is not flagged for backmapping.               *)
EXTENDS Backmap

T1 == [names |-> <<"A">>, u |-> [n \in {"A"} |-> <<0, 0, 0>>], bonds |-> <<>>, vs |-> <<>>]
T2 == [names |-> <<"A", "B">>, u |-> ("A" :> <<0, 0, 0>>) @@ ("B" :> <<2, 0, 0>>), bonds |-> << <<"A", "B">> >>, vs |-> <<>>]
T3 == [names |-> <<"A", "B", "C">>, u |-> ("A" :> <<0, 0, 0>>) @@ ("B" :> <<2, 0, 0>>) @@ ("C" :> <<0, 1, 0>>),
       bonds |-> << <<"A", "B">>, <<"A", "C">> >>, vs |-> <<>>]
T4 == [names |-> <<"A", "B", "C", "D">>,
       u |-> ("A" :> <<0, 0, 0>>) @@ ("B" :> <<1, 0, 0>>) @@ ("C" :> <<0, 2, 0>>) @@ ("D" :> <<0, 0, 3>>),
       bonds |-> << <<"A", "B">>, <<"A", "C">>, <<"A", "D">> >>, vs |-> <<>>]
T5 == [names |-> <<"A", "B", "C", "D">>,
       u |-> ("A" :> <<0, 0, 0>>) @@ ("B" :> <<2, 0, 0>>) @@ ("C" :> <<0, 1, 0>>) @@ ("D" :> <<0, 0, -3>>),
       bonds |-> << <<"A", "B">>, <<"B", "C">>, <<"C", "D">> >>, vs |-> <<>>]
T6 == [names |-> <<"A", "B", "C", "V">>,
       u |-> ("A" :> <<0, 0, 0>>) @@ ("B" :> <<3, 0, 0>>) @@ ("C" :> <<0, 3, 0>>) @@ ("V" :> <<1, 1, 0>>),
       bonds |-> << <<"A", "B">>, <<"B", "C">> >>, vs |-> << [site |-> "V", from |-> <<"A", "B", "C">>] >>]
MCTypeDefs == ("T1" :> T1) @@ ("T2" :> T2) @@ ("T3" :> T3) @@ ("T4" :> T4) @@ ("T5" :> T5) @@ ("T6" :> T6)
TIds == {"T1", "T2", "T3", "T4", "T5", "T6"}
C1 == <<4, 4, 4>>
C2 == <<6, 5, 4>>
C3 == <<7, 7, 5>>
Res(t, c, b) == [type |-> t, centre |-> c, bm |-> b]
Mols1 == { <<Res(t, C1, TRUE)>> : t \in TIds }
Mols2 == { <<Res(t, C1, TRUE), Res(s, C2, TRUE)>> : t \in TIds, s \in TIds }
Mols3 == { <<Res("T4", C1, TRUE), Res("T2", C2, FALSE), Res("T4", C3, TRUE)>>,
           <<Res("T5", C1, FALSE), Res("T4", C2, TRUE), Res("T6", C3, TRUE)>>,
           <<Res("T3", C1, TRUE), Res("T4", C2, TRUE), Res("T1", C3, FALSE)>> }
MCMols == Mols1 \cup Mols2 \cup Mols3
Mols2q == { <<Res(t, C1, TRUE), Res(t, C2, TRUE)>> : t \in TIds } \cup
          { <<Res(ts[1], C1, TRUE), Res(ts[2], C2, TRUE)>> : ts \in { <<"T4", "T5">>, <<"T5", "T4">>, <<"T2", "T4">>, <<"T6", "T3">>, <<"T1", "T6">>, <<"T3", "T2">> } }
MCMolsQuick == Mols1 \cup Mols2q \cup Mols3
MCMolsSmall == Mols1 \cup { <<Res("T5", C1, TRUE), Res("T4", C2, TRUE)>>, <<Res("T4", C1, TRUE), Res("T4", C2, TRUE)>> }
MCFudges == { <<2, 5>>, <<1, 1>>, <<5, 4>> }
MCFudgesSmall == { <<2, 5>> }
MCAngles == { <<x, y, z>> : x \in 0..3, y \in 0..3, z \in 0..3 }
=============================================================================
