SPECIFICATION Spec
CONSTANTS
 Content <- MCContent
 Systems <- MCSystemsQuick
 BuildFiles <- MCBuild3
 DevVolLost = FALSE
 DevVolOverwritten = FALSE
 DevUserRegen = FALSE
 DevRecentre = FALSE
INVARIANT Tagged
INVARIANT UserTemplateWins
INVARIANT UserVolumeWins
INVARIANT UserTemplateUnchanged
INVARIANT DomainOKOnce
INVARIANT ExportInv
PROPERTY UserSticks
CHECK_DEADLOCK FALSE
