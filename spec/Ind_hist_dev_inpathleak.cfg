SPECIFICATION HSpec
CONSTANTS
 FFs <- FFcat
 Dev <- DevInpathLeak
 HInputs <- HInL
 HLib <- HLibL
 NInputs <- NIn
 MaxLen = 3
 Fresh <- FreshOf
 RunIn <- RunInMC
 Proc0 <- P0
INVARIANT HistoryIndependent
INVARIANT RepeatStable

CHECK_DEADLOCK FALSE
