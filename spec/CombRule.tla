----------------------------- MODULE CombRule -----------------------------
(***************************************************************************)
(* X03(b) - the combination rule Topology.gen_pairs applies to two atom    *)
(* types when [ defaults ] asks for generated pairs                        *)
(* (polyply/src/topology.py: gen_pairs, lorentz_berthelot_rule,            *)
(* geometric_rule), against the GROMACS definition of comb-rule 1/2/3      *)
(* (GROMACS reference manual, "Non-bonded interactions", table of          *)
(* combination rules):                                                     *)
(*   1: the type columns hold C6, C12; both combined geometrically         *)
(*   2: the type columns hold sigma, epsilon; sigma arithmetic             *)
(*      (Lorentz-Berthelot), epsilon geometric                             *)
(*   3: sigma, epsilon; both geometric                                     *)
(*                                                                         *)
(* Arithmetic is exact: the type parameters are positive integers (the     *)
(* harness multiplies them by a unit), and a combined value x is carried   *)
(* as the rational <<n, d>> = x^2, so that the geometric mean sqrt(a*b)    *)
(* stays rational: Geo(a, b)^2 = a*b / 1, Ari(a, b)^2 = (a+b)^2 / 4.       *)
(*                                                                         *)
(* P-layer: Gmx(rule, a, b), the GROMACS table, written per column.        *)
(* I-layer: the two steps of gen_pairs - look the rule number up in        *)
(* comb_funcs, apply the function found to (nb1_A, nb1_B, nb2_A, nb2_B).   *)
(* DevMap = TRUE is the table found in the code (1 -> LB, 2 -> geometric,  *)
(* 3 -> LB; DESIGN note N1), DevMap = FALSE the GROMACS numbering.         *)
(***************************************************************************)
EXTENDS Integers, Sequences, FiniteSets, TLC

CONSTANTS Grid,      \* set of positive integers: the values both columns of an atom type may take
          DevMap,    \* TRUE: rule numbers mapped as polyply does; FALSE: as GROMACS defines them
          DevArgs,   \* deviation (wrong design): the function is called as f(nb1_A, nb2_A, nb1_B, nb2_B)
          DevHarm    \* deviation (wrong design): Lorentz-Berthelot with a harmonic instead of an arithmetic mean

VARIABLES rule, a, b, pc, func, out
vars == <<rule, a, b, pc, func, out>>

Types == [v : Grid, w : Grid]          \* v = first column (C6 or sigma), w = second column (C12 or epsilon)

(* ---- squared values as rationals ---- *)
Geo(x, y) == <<x * y, 1>>
Ari(x, y) == <<(x + y) * (x + y), 4>>
Har(x, y) == <<4 * x * x * y * y, (x + y) * (x + y)>>      \* (2xy/(x+y))^2
RatEq(p, q) == p[1] * q[2] = q[1] * p[2]
RatLe(p, q) == p[1] * q[2] <= q[1] * p[2]
PairEq(r, s) == RatEq(r.nb1, s.nb1) /\ RatEq(r.nb2, s.nb2)

(* ---------------------------------------------------------------- P-layer *)
Gmx(r, x, y) == [nb1 |-> IF r = 2 THEN Ari(x.v, y.v) ELSE Geo(x.v, y.v),
                 nb2 |-> Geo(x.w, y.w)]

(* ---------------------------------------------------------------- I-layer *)
\* comb_funcs of gen_pairs
FuncOf(r) == IF DevMap THEN (IF r = 2 THEN "geometric" ELSE "lorentz_berthelot")
                       ELSE (IF r = 2 THEN "lorentz_berthelot" ELSE "geometric")
\* lorentz_berthelot_rule(sig_A, sig_B, eps_A, eps_B) / geometric_rule(C6_A, C6_B, C12_A, C12_B)
Mean(x, y) == IF DevHarm THEN Har(x, y) ELSE Ari(x, y)
Call(f, p1, p2, p3, p4) == IF f = "lorentz_berthelot" THEN [nb1 |-> Mean(p1, p2), nb2 |-> Geo(p3, p4)]
                                                      ELSE [nb1 |-> Geo(p1, p2), nb2 |-> Geo(p3, p4)]
Apply(f, x, y) == IF DevArgs THEN Call(f, x.v, x.w, y.v, y.w) ELSE Call(f, x.v, y.v, x.w, y.w)

Zero == [nb1 |-> <<0, 1>>, nb2 |-> <<0, 1>>]
Init == /\ rule \in 1..3 /\ a \in Types /\ b \in Types
        /\ pc = "lookup" /\ func = "none" /\ out = Zero
Lookup == /\ pc = "lookup" /\ func' = FuncOf(rule) /\ pc' = "apply" /\ UNCHANGED <<rule, a, b, out>>
Combine == /\ pc = "apply" /\ out' = Apply(func, a, b) /\ pc' = "done" /\ UNCHANGED <<rule, a, b, func>>
Next == Lookup \/ Combine
Spec == Init /\ [][Next]_vars
Done == pc = "done"

(* ---------------------------------------------------------------- properties *)
\* the claim a user of GROMACS topologies relies on: generated pair parameters are the GROMACS ones
AgreesWithGromacs == Done => PairEq(out, Gmx(rule, a, b))
\* laws that hold for either numbering
Symmetric   == Done => PairEq(out, Apply(func, b, a))
SelfPair    == Done /\ a = b => (RatEq(out.nb1, <<a.v * a.v, 1>>) /\ RatEq(out.nb2, <<a.w * a.w, 1>>))
SecondColumnGeometric == Done => RatEq(out.nb2, Geo(a.w, b.w))
\* arithmetic >= geometric mean, equal only for equal arguments: where the numbering is invisible
MeanOrder   == Done => RatLe(Geo(a.v, b.v), Ari(a.v, b.v))
\* exact extent of the deviation: with polyply's table the result differs from GROMACS iff the first columns differ
DeviationExtent == Done /\ DevMap => (PairEq(out, Gmx(rule, a, b)) <=> a.v = b.v)
\* polyply's rule 2 is GROMACS's rule 3 and vice versa
Swapped23 == Done /\ DevMap /\ rule \in {2, 3} => PairEq(out, Gmx(5 - rule, a, b))
=============================================================================
