SPECIFICATION TSpec
CONSTANTS
 Systems <- TNone
 DevSkipConsumes = FALSE
 Paths <- TPaths
 Frames <- TNone
 Ks <- TNone
 Stamps <- TNone
 OptSeq <- TOptSeq
 MaxOps = 0
 KeepHist = FALSE
 HDevs <- TNoDev
INVARIANT Mark
INVARIANT Prog
INVARIANT CallIsCurrent
INVARIANT SuppliedAreCurrent
POSTCONDITION Accepted
CHECK_DEADLOCK FALSE
