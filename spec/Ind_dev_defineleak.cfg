SPECIFICATION Spec
CONSTANTS
 Cases <- CasesDef
 FFs <- FFcat
 Dev <- DevDefineLeak
INVARIANT Confluent
CHECK_DEADLOCK FALSE
