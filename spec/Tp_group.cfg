SPECIFICATION Spec
CONSTANTS
 NamePool <- MCNamePool
 MaxAtoms = 4
 DevByResname = FALSE
INVARIANT GroupingLaw
INVARIANT NamesLaw
INVARIANT CanonLaw
INVARIANT OrderLaw
INVARIANT ExportInv
CHECK_DEADLOCK FALSE
