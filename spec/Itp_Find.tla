---- MODULE Itp_Find ----
(* instance wrapper for C11 (TLC evaluates zero-arity definitions eagerly: one module per instance) *)
EXTENDS ItpRoundTripExport
MCMols == TLCEval(MolsMassOnly(0) \cup MolsUnbacked(0))
====
